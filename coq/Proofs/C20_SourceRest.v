(* C20: what Proofs/C20_Source.v leaves to the correspondence - the two getters and the dispatch on `jet_algorithm` -
   tied to JetAnalysis.py as regenerated into Gen/GenJetsRest.v on every run (tools/py2coq/gen_jets_rest.py, runtime
   Model/JetsRt.v + Model/JetsRestRt.v).
   1. gen_get_jets / gen_get_associated_particles = Model/Jets.v get_jets / get_associated_particles (TypeError when
      nothing was read); what they return on ANY content the reader accepts (the grouping, characterised); composed with
      the writer: reading back what perform_jet_finding wrote returns the selected jets and, jet by jet, their
      associated particles.
   2. genx_perform_jet_finding (perform_jet_finding with the algorithm as a Python value) = Model/Jets.v perform with the
      clustering that [dispatch_of] names - which fastjet definition is requested for which argument, with which extra
      parameter - or the exception an unsupported value ends in; on the three algorithms of Model/Jets.v it is the
      translation of gen_jets.py. *)
From Coq Require Import List ZArith QArith Bool String Lia.
From SX Require Import Model.Jets Model.JetsSpec Model.JetsRt Model.JetsRestRt Gen.GenJets Gen.GenJetsRest
     Proofs.C20_Read Proofs.C20_Write Proofs.C20_Source.
Import ListNotations.

(* ================================================================================================================
   1. the getters
   ================================================================================================================ *)

Lemma py_index_0 : forall A (r : A) g, py_index (r :: g) 0 = Some r.
Proof. reflexivity. Qed.

Lemma py_slice_from_1 : forall A (l : list A), py_slice_from l 1 = tl l.
Proof. intros A [|x l]; reflexivity. Qed.

(* ---- get_jets ----------------------------------------------------------------------------------------------------- *)
Theorem source_get_jets : forall self,
  gen_get_jets self
  = match jet_data_ self with None => PErr TypeError | Some d => res_of (get_jets d) end.
Proof.
  intros self. unfold gen_get_jets. destruct (jet_data_ self) as [d|]; [|reflexivity].
  match goal with |- context [mapE ?f d] => set (elt := f) end.
  assert (L : mapE elt d = res_of (get_jets d)).
  { induction d as [|g t IH]; [reflexivity|].
    cbn [mapE get_jets]. destruct g as [|r g].
    - reflexivity.
    - unfold elt at 1. rewrite py_index_0. rewrite IH. destruct (get_jets t); reflexivity. }
  rewrite L. destruct (get_jets d); reflexivity.
Qed.

(* ---- get_associated_particles -------------------------------------------------------------------------------------- *)
Theorem source_get_associated : forall self,
  gen_get_associated_particles self
  = match jet_data_ self with None => PErr TypeError | Some d => POk (get_associated_particles d) end.
Proof.
  intros self. unfold gen_get_associated_particles. destruct (jet_data_ self) as [d|]; [|reflexivity].
  cbv zeta. f_equal. unfold get_associated_particles.
  match goal with |- fold_left ?b d [] = _ => assert (L : forall acc, fold_left b d acc = acc ++ map (@tl row) d) end.
  { induction d as [|g t IH]; intros acc.
    - cbn. rewrite app_nil_r. reflexivity.
    - cbn [fold_left map]. rewrite IH, py_slice_from_1, <- app_assoc. reflexivity. }
  rewrite L. reflexivity.
Qed.

(* ---- nothing was read ------------------------------------------------------------------------------------------------ *)
Theorem source_getters_unread :
  gen_get_jets gen_new = PErr TypeError /\ gen_get_associated_particles gen_new = PErr TypeError
  /\ (forall self, jet_data_ self = None ->
      gen_get_jets self = PErr TypeError /\ gen_get_associated_particles self = PErr TypeError).
Proof.
  split; [reflexivity|]. split; [reflexivity|].
  intros self H. rewrite source_get_jets, source_get_associated, H. split; reflexivity.
Qed.

(* ---- the grouping of the reader, as a function of the rows ------------------------------------------------------------- *)
(* [grp cur rows]: the groups read_loop closes from [rows] on, [cur] being the open group *)
Fixpoint grp (cur : list row) (rows : list row) : list (list row) :=
  match rows with
  | [] => if nonempty cur then [cur] else []
  | r :: t => if (r_idx r =? 0)%Z && nonempty cur then cur :: grp [r] t else grp (cur ++ [r]) t
  end.

Lemma read_loop_grp : forall rows data cur,
  read_loop (map JetLine rows) data cur = Ok (data ++ grp cur rows).
Proof.
  induction rows as [|r t IH]; intros data cur.
  - cbn. destruct (nonempty cur); [reflexivity|]. rewrite app_nil_r. reflexivity.
  - cbn [map read_loop grp]. destruct ((r_idx r =? 0)%Z && nonempty cur).
    + rewrite IH, <- app_assoc. reflexivity.
    + apply IH.
Qed.

Lemma read_loop_rows : forall ls data cur d,
  read_loop ls data cur = Ok d -> exists rows, ls = map JetLine rows.
Proof.
  induction ls as [|l t IH]; intros data cur d H.
  - exists []. reflexivity.
  - destruct l as [r|tag]; [|discriminate]. cbn [read_loop] in H.
    destruct ((r_idx r =? 0)%Z && nonempty cur); apply IH in H; destruct H as [rows E]; exists (r :: rows); cbn; congruence.
Qed.

Definition nz (r : row) : Prop := r_idx r <> 0%Z.
Definition starts0 (g : list row) : Prop := exists r t, g = r :: t /\ r_idx r = 0%Z.

Lemma grp_concat : forall rows cur, List.concat (grp cur rows) = cur ++ rows.
Proof.
  induction rows as [|r t IH]; intros cur.
  - cbn. destruct cur; cbn; rewrite ?app_nil_r; reflexivity.
  - cbn [grp]. destruct ((r_idx r =? 0)%Z && nonempty cur).
    + cbn [List.concat]. rewrite IH. reflexivity.
    + rewrite IH, <- app_assoc. reflexivity.
Qed.

Lemma grp_nonempty : forall rows cur, Forall (fun g => g <> []) (grp cur rows).
Proof.
  induction rows as [|r t IH]; intros cur.
  - cbn. destruct cur; cbn; constructor; [discriminate|constructor].
  - cbn [grp]. destruct ((r_idx r =? 0)%Z && nonempty cur) eqn:E.
    + constructor; [|apply IH]. apply andb_true_iff in E. destruct E as [_ E]. destruct cur; [discriminate E|discriminate].
    + apply IH.
Qed.

Lemma grp_tails : forall rows cur, Forall nz (tl cur) -> Forall (fun g => Forall nz (tl g)) (grp cur rows).
Proof.
  induction rows as [|r t IH]; intros cur H.
  - cbn. destruct (nonempty cur); constructor; [exact H|constructor].
  - cbn [grp]. destruct ((r_idx r =? 0)%Z && nonempty cur) eqn:E.
    + constructor; [exact H|]. apply IH. constructor.
    + apply IH. destruct cur as [|c cur]; [constructor|].
      cbn [app tl] in *. apply Forall_app. split; [exact H|]. constructor; [|constructor].
      cbn [nonempty] in E. rewrite andb_true_r in E. unfold nz. intros Z0. rewrite Z0 in E. discriminate.
Qed.

Lemma grp_starts_all : forall rows cur, starts0 cur -> Forall starts0 (grp cur rows).
Proof.
  induction rows as [|r t IH]; intros cur H.
  - cbn. destruct (nonempty cur); constructor; [exact H|constructor].
  - cbn [grp]. destruct ((r_idx r =? 0)%Z && nonempty cur) eqn:E.
    + constructor; [exact H|]. apply IH. apply andb_true_iff in E. destruct E as [E _]. apply Z.eqb_eq in E.
      exists r, []. split; [reflexivity|exact E].
    + apply IH. destruct H as (r0 & t0 & -> & H0). exists r0, (t0 ++ [r]). split; [reflexivity|exact H0].
Qed.

Lemma grp_starts_later : forall rows cur, Forall starts0 (tl (grp cur rows)).
Proof.
  induction rows as [|r t IH]; intros cur.
  - cbn. destruct (nonempty cur); constructor.
  - cbn [grp]. destruct ((r_idx r =? 0)%Z && nonempty cur) eqn:E.
    + cbn [tl]. apply grp_starts_all. apply andb_true_iff in E. destruct E as [E _]. apply Z.eqb_eq in E.
      exists r, []. split; [reflexivity|exact E].
    + apply IH.
Qed.

Lemma get_jets_nonempty : forall d, Forall (fun g : list row => g <> []) d ->
  exists jets, get_jets d = Ok jets /\ d = map (fun ja => fst ja :: snd ja) (combine jets (map (@tl row) d))
               /\ List.length jets = List.length d.
Proof.
  induction d as [|g t IH]; intros H.
  - exists []. repeat split.
  - inversion H as [|? ? Hg Ht]; subst. destruct (IH Ht) as (jets & E1 & E2 & E3).
    destruct g as [|r g]; [congruence|]. exists (r :: jets). cbn [get_jets]. rewrite E1. split; [reflexivity|].
    cbn [map tl combine fst snd List.length]. split; [rewrite <- E2; reflexivity|rewrite E3; reflexivity].
Qed.

Lemma heads0 : forall (d : list (list row)) (jets : list row),
  List.length jets = List.length d ->
  d = map (fun ja => fst ja :: snd ja) (combine jets (map (@tl row) d)) ->
  Forall starts0 d -> Forall (fun r => r_idx r = 0%Z) jets.
Proof.
  induction d as [|g d IH]; intros [|j jets] L E S; cbn [map combine List.length] in *; try discriminate; constructor.
  - injection E as Eg _. inversion S as [|? ? Sg _]; subst. destruct Sg as (r & t & Eg' & R0).
    cbn [fst snd] in Eg. rewrite Eg' in Eg. cbn [tl] in Eg. injection Eg as Er. subst. exact R0.
  - injection E as _ E. injection L as L. inversion S; subst. apply IH; assumption.
Qed.

(* For EVERY file content the reader accepts: get_jets succeeds; every group is its jet row followed by its associated
   rows; the groups in order are the rows of the file, none lost; associated rows have an index <> 0; every jet row
   except possibly the first has index 0 - which determines the split. *)
Theorem getters_after_read : forall (fs : file) d,
  read_jet_data fs = Ok d ->
  exists jets,
    get_jets d = Ok jets
    /\ List.length jets = List.length (get_associated_particles d)
    /\ d = map (fun ja => fst ja :: snd ja) (combine jets (get_associated_particles d))
    /\ content fs = map JetLine (List.concat d)
    /\ Forall (Forall nz) (get_associated_particles d)
    /\ Forall (fun r => r_idx r = 0%Z) (tl jets).
Proof.
  intros [ls|] d H; [|discriminate]. unfold read_jet_data in H.
  destruct (read_loop_rows _ _ _ _ H) as [rows ->]. rewrite read_loop_grp in H. cbn [app] in H. inversion H; subst d. clear H.
  destruct (get_jets_nonempty _ (grp_nonempty rows [])) as (jets & E1 & E2 & E3).
  exists jets. unfold get_associated_particles. rewrite map_length.
  split; [exact E1|]. split; [exact E3|]. split; [exact E2|].
  split; [cbn [content]; rewrite grp_concat; reflexivity|].
  split.
  - rewrite Forall_map. apply grp_tails. constructor.
  - pose proof (grp_starts_later rows []) as S. revert S E2 E3. generalize (grp [] rows). intros d S E2 E3.
    destruct d as [|g0 d]; destruct jets as [|j0 jets]; cbn [map combine tl List.length] in *; try discriminate; try constructor.
    injection E2 as _ E2. injection E3 as E3. exact (heads0 d jets E3 E2 S).
Qed.

(* the same on the regenerated methods: a read that returns, then the two getters *)
Theorem source_read_then_getters : forall self (fs f' : file) self',
  gen_read_jet_data self fs = (f', POk (self', tt)) ->
  f' = fs
  /\ exists d jets,
       read_jet_data fs = Ok d /\ jet_data_ self' = Some d /\ get_jets d = Ok jets
       /\ gen_get_jets self' = POk jets
       /\ gen_get_associated_particles self' = POk (get_associated_particles d).
Proof.
  intros self fs f' self' H. rewrite source_read in H.
  destruct (read_jet_data fs) as [d|e] eqn:RD; [|discriminate]. injection H as E1 E2. subst f' self'.
  split; [reflexivity|].
  destruct (getters_after_read fs d RD) as (jets & GJ & _).
  exists d, jets. rewrite source_get_jets, source_get_associated. cbn [jet_data_ set_jet_data_]. rewrite GJ.
  repeat split; reflexivity.
Qed.

(* ================================================================================================================
   2. the dispatch on jet_algorithm
   ================================================================================================================ *)
Definition xlift {A} (r : pyres A) : xres A := match r with POk a => XOk a | PErr e => XErr (XPy e) end.
Definition xliftF {A} (r : file * pyres A) : file * xres A := (fst r, xlift (snd r)).

(* CLOSED FORM of the dispatch (Model/Jets.v has the three algorithms of [alg] only): for an argument, either the
   exception its first event ends in, or the fastjet definition every event is clustered with - the algorithm number
   and the extra parameter; the radius is the call's R.
     not an int, or outside the C int range          TypeError     (fj.JetDefinition)
     genkt (3), ee_genkt (53)                        JetDefinition(n, R, -1.0)
     kt (0), cambridge (1), antikt (2),
     cambridge_for_passive (11)                      JetDefinition(n, R)
     every other int (ee_kt 50: wrong number of parameters; undefined 999 and unknown numbers: no such algorithm
     to describe or to run)                          FastJetError
   plugin_algorithm (99) is outside the model (the process ends, see Model/JetsRestRt.v). *)
Inductive dispatch := DRaise (e : xexn) | DCluster (n : Z) (extra : option Q).
Definition dispatch_of (a : pyalg) : dispatch :=
  match a with
  | AOther => DRaise (XPy TypeError)
  | AInt n =>
    if ((n <? -2147483648) || (2147483647 <? n))%Z then DRaise (XPy TypeError)
    else if existsb (Z.eqb n) [3; 53]%Z then DCluster n (Some (-1 # 1))
    else if existsb (Z.eqb n) [0; 1; 2; 11]%Z then DCluster n None
    else DRaise FastJetError
  end.
(* the clustering oracle of Model/Jets.v that a dispatched definition stands for *)
Definition cluster_of (o_clusterx : xjetdef -> list vec4 -> list vec4) (n : Z) (extra : option Q)
  : alg -> Q -> list vec4 -> list vec4 := fun _ R l => o_clusterx (XJetDefinition n R extra) l.

(* the numbers of the algorithms of Model/JetsRt.v, and its jet definitions / clustering oracle in the wider setting *)
Definition code_of (g : galg) : Z :=
  match g with GModel Kt => 0 | GModel Cambridge => 1 | GModel AntiKt => 2 | GGenKt => 3 | GEEGenKt => 53 end.
Definition xjetdef_of (d : jetdef) : xjetdef := XJetDefinition (code_of (jd_alg d)) (jd_R d) (jd_extra d).
Definition xcluster_of (cluster : alg -> Q -> list vec4 -> list vec4) (d : xjetdef) (l : list vec4) : list vec4 :=
  match xjd_extra d with
  | Some _ => []
  | None => if (xjd_alg d =? 0)%Z then cluster Kt (xjd_R d) l
            else if (xjd_alg d =? 1)%Z then cluster Cambridge (xjd_R d) l
            else if (xjd_alg d =? 2)%Z then cluster AntiKt (xjd_R d) l else []
  end.

Lemma xloopF_raises : forall A S (body : file -> S -> A -> file * xres S) e,
  (forall f s a, body f s a = (f, XErr e)) ->
  forall l f s, xloopF body l f s = match l with [] => (f, XOk s) | _ :: _ => (f, XErr e) end.
Proof. intros A S body e H [|a t] f s; cbn [xloopF]; [reflexivity|]. rewrite H. reflexivity. Qed.

Lemma enumerate_from_nil : forall A k (l : list A), enumerate_from k l = [] -> l = [].
Proof. intros A k [|a t] H; [reflexivity|discriminate]. Qed.

Definition convx (r : file * option jerr) : file * xres unit :=
  (fst r, match snd r with None => XOk tt | Some e => XErr (XPy (exn_of e)) end).

Section Dispatch.
  Variable o_clusterx : xjetdef -> list vec4 -> list vec4.
  Variables o_perp o_eta o_phi : vec4 -> Q.
  Variable o_dphi : vec4 -> vec4 -> Q.
  Variable o_sqrt : Q -> Q.
  Notation genx_perform := (genx_perform_jet_finding o_clusterx o_perp o_eta o_phi o_dphi o_sqrt).
  Notation dR := (dR_of o_eta o_dphi o_sqrt).

  (* the three ways the translated method can go, from what its two comparisons and its fj.JetDefinition call give *)
  Lemma perform_x_jetdef_raises : forall self (fs : file) evs R eta pt ch a b1 b2 e,
    alg_is a fj_ee_genkt_algorithm = b1 -> alg_is a fj_genkt_algorithm = b2 ->
    fjx_JetDefinition a R (if b1 || b2 then Some (-1 # 1) else None) = XErr e ->
    genx_perform self fs evs R eta pt ch a
    = match check_params (Params AntiKt R eta pt ch) with
      | Err e' => (fs, XErr (XPy (exn_of e')))
      | Ok (w, p) => (Some [], match evs with [] => XOk (self_after self evs R w p, tt) | _ :: _ => XErr e end)
      end.
  Proof.
    intros self fs evs R eta pt ch a b1 b2 e HA HB HJ.
    unfold genx_perform_jet_finding. rewrite (source_params self evs AntiKt R eta pt ch).
    destruct (check_params (Params AntiKt R eta pt ch)) as [[w p]|e'] eqn:CP; [|reflexivity].
    unfold self_after.
    cbn [hadron_data_ jet_R_ jet_eta_range_ jet_pT_range_ fs_open String.eqb Ascii.eqb Bool.eqb].
    rewrite HA, HB. destruct (b1 || b2); rewrite HJ; cbv beta iota;
      (rewrite xloopF_raises with (e := e) by (intros f s [i ev]; reflexivity));
      destruct evs; reflexivity.
  Qed.

  Lemma perform_x_not_native : forall self (fs : file) evs R eta pt ch a b1 b2 d,
    alg_is a fj_ee_genkt_algorithm = b1 -> alg_is a fj_genkt_algorithm = b2 ->
    fjx_JetDefinition a R (if b1 || b2 then Some (-1 # 1) else None) = XOk d ->
    fj_native (xjd_alg d) = false ->
    genx_perform self fs evs R eta pt ch a
    = match check_params (Params AntiKt R eta pt ch) with
      | Err e' => (fs, XErr (XPy (exn_of e')))
      | Ok (w, p) => (Some [], match evs with [] => XOk (self_after self evs R w p, tt) | _ :: _ => XErr FastJetError end)
      end.
  Proof.
    intros self fs evs R eta pt ch a b1 b2 d HA HB HJ N.
    unfold genx_perform_jet_finding. rewrite (source_params self evs AntiKt R eta pt ch).
    destruct (check_params (Params AntiKt R eta pt ch)) as [[w p]|e'] eqn:CP; [|reflexivity].
    unfold self_after.
    cbn [hadron_data_ jet_R_ jet_eta_range_ jet_pT_range_ fs_open String.eqb Ascii.eqb Bool.eqb].
    rewrite HA, HB.
    assert (CS : forall l, fjx_ClusterSequence l d = XErr FastJetError) by (intros l; unfold fjx_ClusterSequence; rewrite N; reflexivity).
    assert (DS : fjx_description d = XOk tt \/ fjx_description d = XErr FastJetError)
      by (unfold fjx_description; destruct (fj_native (xjd_alg d) || (xjd_alg d =? fj_undefined_jet_algorithm)%Z); auto).
    destruct (b1 || b2); rewrite HJ; cbv beta iota;
      (rewrite xloopF_raises with (e := FastJetError)
         by (intros f s [i ev]; rewrite CS; destruct (i =? 0)%Z; [destruct DS as [-> | ->]|]; reflexivity));
      destruct evs; reflexivity.
  Qed.

  Lemma perform_x_native : forall self (fs : file) evs R eta pt ch a b1 b2 d,
    alg_is a fj_ee_genkt_algorithm = b1 -> alg_is a fj_genkt_algorithm = b2 ->
    fjx_JetDefinition a R (if b1 || b2 then Some (-1 # 1) else None) = XOk d ->
    fj_native (xjd_alg d) = true ->
    (forall w p ev jet holes,
       check_params (Params AntiKt R eta pt ch) = Ok (w, p) -> In ev evs ->
       In jet (select (fun _ _ l => o_clusterx d l) o_eta (Params AntiKt R eta pt ch) w p ev) ->
       fill dR R jet Negative false ev = Ok holes ->
       perp_at o_perp (jet_hole_subtraction jet holes)) ->
    genx_perform self fs evs R eta pt ch a
    = let pa := Params AntiKt R eta pt ch in
      let r := perform (fun _ _ l => o_clusterx d l) o_perp o_eta o_phi dR pa fs evs in
      (fst r, match snd r with
              | Some e => XErr (XPy (exn_of e))
              | None => match check_params pa with
                        | Ok (w, p) => XOk (self_after self evs R w p, tt)
                        | Err e => XErr (XPy (exn_of e))
                        end
              end).
  Proof.
    intros self fs evs R eta pt ch a b1 b2 d HA HB HJ N P.
    unfold genx_perform_jet_finding. rewrite (source_params self evs AntiKt R eta pt ch). unfold perform. cbv zeta.
    destruct (check_params (Params AntiKt R eta pt ch)) as [[w p]|e'] eqn:CP; [|reflexivity].
    pose proof (bound_ok_params _ _ _ CP) as HBD.
    pose proof (fun ev jet holes => P w p ev jet holes eq_refl) as P'. clear P.
    unfold self_after.
    cbn [hadron_data_ jet_R_ jet_eta_range_ jet_pT_range_ fs_open String.eqb Ascii.eqb Bool.eqb].
    rewrite HA, HB.
    assert (CS : forall l, fjx_ClusterSequence l d = XOk (XClusterSequence l d)) by (intros l; unfold fjx_ClusterSequence; rewrite N; reflexivity).
    assert (DS : fjx_description d = XOk tt) by (unfold fjx_description; rewrite N; reflexivity).
    set (pa := Params AntiKt R eta pt ch).
    set (cl := fun (_ : alg) (_ : Q) (l : list vec4) => o_clusterx d l) in *.
    assert (BODY : forall body,
      (forall f pre ev post, evs = pre ++ ev :: post ->
         body f tt (zlen pre, ev)
         = convx (jets_loop o_perp o_eta o_phi dR pa (snd p) ev (zlen pre) (select cl o_eta pa w p ev) f)) ->
      (let (fs0, x) := xloopF body (enumerate_from 0 evs) (Some []) tt in
       match x with
       | XOk _ => (fs0, XOk (JSelf (Some evs) (Some R) (Some w) (Some p) (jet_data_ self), tt))
       | XErr e_ => (fs0, XErr e_)
       end)
      = (fst (events_loop cl o_perp o_eta o_phi dR pa w p 0 evs (create_empty fs)),
         match snd (events_loop cl o_perp o_eta o_phi dR pa w p 0 evs (create_empty fs)) with
         | Some e => XErr (XPy (exn_of e))
         | None => XOk (JSelf (Some evs) (Some R) (Some w) (Some p) (jet_data_ self), tt)
         end)).
    { intros body S.
      assert (L : forall post pre f, evs = pre ++ post ->
                  xloopF body (enumerate_from (zlen pre) post) f tt
                  = convx (events_loop cl o_perp o_eta o_phi dR pa w p (zlen pre) post f)).
      { induction post as [|ev t IH]; intros pre f E.
        - reflexivity.
        - cbn [enumerate_from xloopF events_loop]. rewrite (S f pre ev t E).
          destruct (jets_loop o_perp o_eta o_phi dR pa (snd p) ev (zlen pre) (select cl o_eta pa w p ev) f) as [f' [e|]];
            unfold convx at 1; cbn [fst snd]; [reflexivity|].
          replace (zlen pre + 1)%Z with (zlen (pre ++ [ev]))
            by (unfold zlen; rewrite app_length; cbn [List.length]; lia).
          apply IH. rewrite <- app_assoc. exact E. }
      specialize (L evs [] (Some []) eq_refl). unfold zlen in L. cbn [List.length Z.of_nat] in L.
      unfold create_empty. unfold event in *. rewrite L.
      destruct (events_loop cl o_perp o_eta o_phi dR pa w p 0 evs (Some [])) as [f' [e|]]; reflexivity. }
    destruct (b1 || b2); rewrite HJ; cbv beta iota; rewrite DS; apply BODY;
      intros f pre ev post E; cbv beta iota; rewrite CS.
    all: assert (IX : py_index evs (zlen pre) = Some ev) by (rewrite E; apply py_index_app).
    all: assert (RG : (0 <= zlen pre < zlen evs)%Z)
           by (rewrite E; unfold zlen; rewrite app_length; cbn [List.length]; lia).
    all: assert (INev : In ev evs) by (rewrite E; apply in_elt).
    all: destruct (zlen pre =? 0)%Z; cbv beta iota.
    all: replace (fj_select o_eta (SelectorEtaRange (fst w) (snd w))
               (fj_sorted_by_pt (fjx_inclusive_jets o_clusterx
                  (XClusterSequence (gen_create_fastjet_PseudoJets ev) d) (fst p))))
      with (select cl o_eta pa w p ev)
      by (unfold select, fj_select, fj_sorted_by_pt, fjx_inclusive_jets, cl;
          cbn [sel_lo sel_hi xcs_in xcs_def]; rewrite source_pseudojets;
          rewrite <- surjective_pairing; reflexivity).
    all: set (SEL := select cl o_eta pa w p ev) in *.
    all: match goal with |- (let (_, _) := xloopF ?b SEL _ tt in _) = _ => set (jb := b) end.
    all: assert (S2 : forall f jet, In jet SEL -> jb f tt jet
                 = match fill dR R jet Negative false ev with
                   | Err e => (f, XErr (XPy (exn_of e)))
                   | Ok holes =>
                     match fill dR R jet Positive ch ev with
                     | Err e => (f, XErr (XPy (exn_of e)))
                     | Ok assoc => (write_jet_output o_perp o_eta o_phi f (snd p) (jet_hole_subtraction jet holes)
                                                     assoc (zlen pre) false, XOk tt)
                     end
                   end)
      by (intros f0 jet INj; unfold jb;
      change "negative"%string with (sel_str Negative); change "positive"%string with (sel_str Positive);
      match goal with |- context [gen_fill_associated_particles _ _ _ ?sf jet _ (sel_str Negative) _] =>
        rewrite (source_fill o_eta o_dphi o_sqrt sf evs R jet (zlen pre) ev Negative false eq_refl eq_refl RG IX) end;
      destruct (fill dR R jet Negative false ev) as [holes|e] eqn:FN; cbn [res_of]; [|reflexivity];
      match goal with |- context [gen_fill_associated_particles _ _ _ ?sf jet _ (sel_str Positive) _] =>
        rewrite (source_fill o_eta o_dphi o_sqrt sf evs R jet (zlen pre) ev Positive ch eq_refl eq_refl RG IX) end;
      destruct (fill dR R jet Positive ch ev) as [assoc|e]; cbn [res_of]; [|reflexivity];
      rewrite source_hole_subtraction; unfold gen_default_write_jet_output_new_file;
      match goal with |- context [gen_write_jet_output _ _ _ ?sf f0 _ _ _ _] =>
        rewrite (source_write o_perp o_eta o_phi sf f0 p _ assoc (zlen pre) false eq_refl (P' ev jet holes INev INj FN) HBD) end;
      reflexivity).
    all: clearbody jb.
    all: assert (J : forall jets, incl jets SEL -> forall f,
                (let (fs0, p0) := xloopF jb jets f tt in
                 match p0 with XOk _ => (fs0, XOk tt) | XErr e_ => (fs0, XErr e_) end)
                = convx (jets_loop o_perp o_eta o_phi dR pa (snd p) ev (zlen pre) jets f))
      by (induction jets as [|jet t IH]; intros INC f0;
          [reflexivity|
           cbn [xloopF jets_loop]; rewrite S2 by (apply INC; left; reflexivity); cbn [a_R a_charged pa];
           destruct (fill dR R jet Negative false ev) as [holes|e]; [|reflexivity];
           destruct (fill dR R jet Positive ch ev) as [assoc|e]; [|reflexivity];
           apply IH; intros x Hx; apply INC; right; exact Hx]).
    all: apply J; apply incl_refl.
  Qed.
End Dispatch.

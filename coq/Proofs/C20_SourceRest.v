(* C20: what Proofs/C20_Source.v leaves to the correspondence - the two getters and the dispatch on `jet_algorithm` -
   tied to JetAnalysis.py as regenerated into Gen/GenJetsRest.v on every run (tools/py2coq/gen_jets_rest.py, runtime
   Model/JetsRt.v + Model/JetsRestRt.v).
   1. gen_get_jets / gen_get_associated_particles = Model/Jets.v get_jets / get_associated_particles (TypeError when
      nothing was read); what they return on ANY content the reader accepts (the grouping, characterised); composed with
      the writer: reading back what perform_jet_finding wrote returns the selected jets and, jet by jet, their
      associated particles.
   2. genx_perform_jet_finding (perform_jet_finding with the algorithm as a Python value) = Model/Jets.v perform with the
      clustering that [dispatch_of] names - which fastjet definition is requested for which argument, with which extra
      parameter - or the exception an unsupported value ends in; on the three algorithms of Model/Jets.v it is the
      translation of gen_jets.py. *)
From Coq Require Import List ZArith QArith Bool String Lia.
From SX Require Import Model.Jets Model.JetsSpec Model.JetsRt Model.JetsRestRt Gen.GenJets Gen.GenJetsRest
     Proofs.C20_Read Proofs.C20_Write Proofs.C20_Source.
Import ListNotations.

(* ================================================================================================================
   1. the getters
   ================================================================================================================ *)

Lemma py_index_0 : forall A (r : A) g, py_index (r :: g) 0 = Some r.
Proof. reflexivity. Qed.

Lemma py_slice_from_1 : forall A (l : list A), py_slice_from l 1 = tl l.
Proof. intros A [|x l]; reflexivity. Qed.

(* ---- get_jets ----------------------------------------------------------------------------------------------------- *)
Theorem source_get_jets : forall self,
  gen_get_jets self
  = match jet_data_ self with None => PErr TypeError | Some d => res_of (get_jets d) end.
Proof.
  intros self. unfold gen_get_jets. destruct (jet_data_ self) as [d|]; [|reflexivity].
  match goal with |- context [mapE ?f d] => set (elt := f) end.
  assert (L : mapE elt d = res_of (get_jets d)).
  { induction d as [|g t IH]; [reflexivity|].
    cbn [mapE get_jets]. destruct g as [|r g].
    - reflexivity.
    - unfold elt at 1. rewrite py_index_0. rewrite IH. destruct (get_jets t); reflexivity. }
  rewrite L. destruct (get_jets d); reflexivity.
Qed.

(* ---- get_associated_particles -------------------------------------------------------------------------------------- *)
Theorem source_get_associated : forall self,
  gen_get_associated_particles self
  = match jet_data_ self with None => PErr TypeError | Some d => POk (get_associated_particles d) end.
Proof.
  intros self. unfold gen_get_associated_particles. destruct (jet_data_ self) as [d|]; [|reflexivity].
  cbv zeta. f_equal. unfold get_associated_particles.
  match goal with |- fold_left ?b d [] = _ => assert (L : forall acc, fold_left b d acc = acc ++ map (@tl row) d) end.
  { induction d as [|g t IH]; intros acc.
    - cbn. rewrite app_nil_r. reflexivity.
    - cbn [fold_left map]. rewrite IH, py_slice_from_1, <- app_assoc. reflexivity. }
  rewrite L. reflexivity.
Qed.

(* ---- nothing was read ------------------------------------------------------------------------------------------------ *)
Theorem source_getters_unread :
  gen_get_jets gen_new = PErr TypeError /\ gen_get_associated_particles gen_new = PErr TypeError
  /\ (forall self, jet_data_ self = None ->
      gen_get_jets self = PErr TypeError /\ gen_get_associated_particles self = PErr TypeError).
Proof.
  split; [reflexivity|]. split; [reflexivity|].
  intros self H. rewrite source_get_jets, source_get_associated, H. split; reflexivity.
Qed.

(* ---- the grouping of the reader, as a function of the rows ------------------------------------------------------------- *)
(* [grp cur rows]: the groups read_loop closes from [rows] on, [cur] being the open group *)
Fixpoint grp (cur : list row) (rows : list row) : list (list row) :=
  match rows with
  | [] => if nonempty cur then [cur] else []
  | r :: t => if (r_idx r =? 0)%Z && nonempty cur then cur :: grp [r] t else grp (cur ++ [r]) t
  end.

Lemma read_loop_grp : forall rows data cur,
  read_loop (map JetLine rows) data cur = Ok (data ++ grp cur rows).
Proof.
  induction rows as [|r t IH]; intros data cur.
  - cbn. destruct (nonempty cur); [reflexivity|]. rewrite app_nil_r. reflexivity.
  - cbn [map read_loop grp]. destruct ((r_idx r =? 0)%Z && nonempty cur).
    + rewrite IH, <- app_assoc. reflexivity.
    + apply IH.
Qed.

Lemma read_loop_rows : forall ls data cur d,
  read_loop ls data cur = Ok d -> exists rows, ls = map JetLine rows.
Proof.
  induction ls as [|l t IH]; intros data cur d H.
  - exists []. reflexivity.
  - destruct l as [r|tag]; [|discriminate]. cbn [read_loop] in H.
    destruct ((r_idx r =? 0)%Z && nonempty cur); apply IH in H; destruct H as [rows E]; exists (r :: rows); cbn; congruence.
Qed.

Definition nz (r : row) : Prop := r_idx r <> 0%Z.
Definition starts0 (g : list row) : Prop := exists r t, g = r :: t /\ r_idx r = 0%Z.

Lemma grp_concat : forall rows cur, List.concat (grp cur rows) = cur ++ rows.
Proof.
  induction rows as [|r t IH]; intros cur.
  - cbn. destruct cur; cbn; rewrite ?app_nil_r; reflexivity.
  - cbn [grp]. destruct ((r_idx r =? 0)%Z && nonempty cur).
    + cbn [List.concat]. rewrite IH. reflexivity.
    + rewrite IH, <- app_assoc. reflexivity.
Qed.

Lemma grp_nonempty : forall rows cur, Forall (fun g => g <> []) (grp cur rows).
Proof.
  induction rows as [|r t IH]; intros cur.
  - cbn. destruct cur; cbn; constructor; [discriminate|constructor].
  - cbn [grp]. destruct ((r_idx r =? 0)%Z && nonempty cur) eqn:E.
    + constructor; [|apply IH]. apply andb_true_iff in E. destruct E as [_ E]. destruct cur; [discriminate E|discriminate].
    + apply IH.
Qed.

Lemma grp_tails : forall rows cur, Forall nz (tl cur) -> Forall (fun g => Forall nz (tl g)) (grp cur rows).
Proof.
  induction rows as [|r t IH]; intros cur H.
  - cbn. destruct (nonempty cur); constructor; [exact H|constructor].
  - cbn [grp]. destruct ((r_idx r =? 0)%Z && nonempty cur) eqn:E.
    + constructor; [exact H|]. apply IH. constructor.
    + apply IH. destruct cur as [|c cur]; [constructor|].
      cbn [app tl] in *. apply Forall_app. split; [exact H|]. constructor; [|constructor].
      cbn [nonempty] in E. rewrite andb_true_r in E. unfold nz. intros Z0. rewrite Z0 in E. discriminate.
Qed.

Lemma grp_starts_all : forall rows cur, starts0 cur -> Forall starts0 (grp cur rows).
Proof.
  induction rows as [|r t IH]; intros cur H.
  - cbn. destruct (nonempty cur); constructor; [exact H|constructor].
  - cbn [grp]. destruct ((r_idx r =? 0)%Z && nonempty cur) eqn:E.
    + constructor; [exact H|]. apply IH. apply andb_true_iff in E. destruct E as [E _]. apply Z.eqb_eq in E.
      exists r, []. split; [reflexivity|exact E].
    + apply IH. destruct H as (r0 & t0 & -> & H0). exists r0, (t0 ++ [r]). split; [reflexivity|exact H0].
Qed.

Lemma grp_starts_later : forall rows cur, Forall starts0 (tl (grp cur rows)).
Proof.
  induction rows as [|r t IH]; intros cur.
  - cbn. destruct (nonempty cur); constructor.
  - cbn [grp]. destruct ((r_idx r =? 0)%Z && nonempty cur) eqn:E.
    + cbn [tl]. apply grp_starts_all. apply andb_true_iff in E. destruct E as [E _]. apply Z.eqb_eq in E.
      exists r, []. split; [reflexivity|exact E].
    + apply IH.
Qed.

Lemma get_jets_nonempty : forall d, Forall (fun g : list row => g <> []) d ->
  exists jets, get_jets d = Ok jets /\ d = map (fun ja => fst ja :: snd ja) (combine jets (map (@tl row) d))
               /\ List.length jets = List.length d.
Proof.
  induction d as [|g t IH]; intros H.
  - exists []. repeat split.
  - inversion H as [|? ? Hg Ht]; subst. destruct (IH Ht) as (jets & E1 & E2 & E3).
    destruct g as [|r g]; [congruence|]. exists (r :: jets). cbn [get_jets]. rewrite E1. split; [reflexivity|].
    cbn [map tl combine fst snd List.length]. split; [rewrite <- E2; reflexivity|rewrite E3; reflexivity].
Qed.

Lemma heads0 : forall (d : list (list row)) (jets : list row),
  List.length jets = List.length d ->
  d = map (fun ja => fst ja :: snd ja) (combine jets (map (@tl row) d)) ->
  Forall starts0 d -> Forall (fun r => r_idx r = 0%Z) jets.
Proof.
  induction d as [|g d IH]; intros [|j jets] L E S; cbn [map combine List.length] in *; try discriminate; constructor.
  - injection E as Eg _. inversion S as [|? ? Sg _]; subst. destruct Sg as (r & t & Eg' & R0).
    cbn [fst snd] in Eg. rewrite Eg' in Eg. cbn [tl] in Eg. injection Eg as Er. subst. exact R0.
  - injection E as _ E. injection L as L. inversion S; subst. apply IH; assumption.
Qed.

(* For EVERY file content the reader accepts: get_jets succeeds; every group is its jet row followed by its associated
   rows; the groups in order are the rows of the file, none lost; associated rows have an index <> 0; every jet row
   except possibly the first has index 0 - which determines the split. *)
Theorem getters_after_read : forall (fs : file) d,
  read_jet_data fs = Ok d ->
  exists jets,
    get_jets d = Ok jets
    /\ List.length jets = List.length (get_associated_particles d)
    /\ d = map (fun ja => fst ja :: snd ja) (combine jets (get_associated_particles d))
    /\ content fs = map JetLine (List.concat d)
    /\ Forall (Forall nz) (get_associated_particles d)
    /\ Forall (fun r => r_idx r = 0%Z) (tl jets).
Proof.
  intros [ls|] d H; [|discriminate]. unfold read_jet_data in H.
  destruct (read_loop_rows _ _ _ _ H) as [rows ->]. rewrite read_loop_grp in H. cbn [app] in H. inversion H; subst d. clear H.
  destruct (get_jets_nonempty _ (grp_nonempty rows [])) as (jets & E1 & E2 & E3).
  exists jets. unfold get_associated_particles. rewrite map_length.
  split; [exact E1|]. split; [exact E3|]. split; [exact E2|].
  split; [cbn [content]; rewrite grp_concat; reflexivity|].
  split.
  - rewrite Forall_map. apply grp_tails. constructor.
  - pose proof (grp_starts_later rows []) as S. revert S E2 E3. generalize (grp [] rows). intros d S E2 E3.
    destruct d as [|g0 d]; destruct jets as [|j0 jets]; cbn [map combine tl List.length] in *; try discriminate; try constructor.
    injection E2 as _ E2. injection E3 as E3. exact (heads0 d jets E3 E2 S).
Qed.

(* the same on the regenerated methods: a read that returns, then the two getters *)
Theorem source_read_then_getters : forall self (fs f' : file) self',
  gen_read_jet_data self fs = (f', POk (self', tt)) ->
  f' = fs
  /\ exists d jets,
       read_jet_data fs = Ok d /\ jet_data_ self' = Some d /\ get_jets d = Ok jets
       /\ gen_get_jets self' = POk jets
       /\ gen_get_associated_particles self' = POk (get_associated_particles d).
Proof.
  intros self fs f' self' H. rewrite source_read in H.
  destruct (read_jet_data fs) as [d|e] eqn:RD; [|discriminate]. injection H as E1 E2. subst f' self'.
  split; [reflexivity|].
  destruct (getters_after_read fs d RD) as (jets & GJ & _).
  exists d, jets. rewrite source_get_jets, source_get_associated. cbn [jet_data_ set_jet_data_]. rewrite GJ.
  repeat split; reflexivity.
Qed.

(* ================================================================================================================
   2. the dispatch on jet_algorithm
   ================================================================================================================ *)
Definition xlift {A} (r : pyres A) : xres A := match r with POk a => XOk a | PErr e => XErr (XPy e) end.
Definition xliftF {A} (r : file * pyres A) : file * xres A := (fst r, xlift (snd r)).

(* CLOSED FORM of the dispatch (Model/Jets.v has the three algorithms of [alg] only): for an argument, either the
   exception its first event ends in, or the fastjet definition every event is clustered with - the algorithm number
   and the extra parameter; the radius is the call's R.
     not an int, or outside the C int range          TypeError     (fj.JetDefinition)
     genkt (3), ee_genkt (53)                        JetDefinition(n, R, -1.0)
     kt (0), cambridge (1), antikt (2),
     cambridge_for_passive (11)                      JetDefinition(n, R)
     every other int (ee_kt 50: wrong number of parameters; undefined 999 and unknown numbers: no such algorithm
     to describe or to run)                          FastJetError
   plugin_algorithm (99) is outside the model (the process ends, see Model/JetsRestRt.v). *)
Inductive dispatch := DRaise (e : xexn) | DCluster (n : Z) (extra : option Q).
Definition dispatch_of (a : pyalg) : dispatch :=
  match a with
  | AOther => DRaise (XPy TypeError)
  | AInt n =>
    if ((n <? -2147483648) || (2147483647 <? n))%Z then DRaise (XPy TypeError)
    else if existsb (Z.eqb n) [3; 53]%Z then DCluster n (Some (-1 # 1))
    else if existsb (Z.eqb n) [0; 1; 2; 11]%Z then DCluster n None
    else DRaise FastJetError
  end.
(* the clustering oracle of Model/Jets.v that a dispatched definition stands for *)
Definition cluster_of (o_clusterx : xjetdef -> list vec4 -> list vec4) (n : Z) (extra : option Q)
  : alg -> Q -> list vec4 -> list vec4 := fun _ R l => o_clusterx (XJetDefinition n R extra) l.

(* the numbers of the algorithms of Model/JetsRt.v, and its jet definitions / clustering oracle in the wider setting *)
Definition code_of (g : galg) : Z :=
  match g with GModel Kt => 0 | GModel Cambridge => 1 | GModel AntiKt => 2 | GGenKt => 3 | GEEGenKt => 53 end.
Definition xjetdef_of (d : jetdef) : xjetdef := XJetDefinition (code_of (jd_alg d)) (jd_R d) (jd_extra d).
Definition xcluster_of (cluster : alg -> Q -> list vec4 -> list vec4) (d : xjetdef) (l : list vec4) : list vec4 :=
  match xjd_extra d with
  | Some _ => []
  | None => if (xjd_alg d =? 0)%Z then cluster Kt (xjd_R d) l
            else if (xjd_alg d =? 1)%Z then cluster Cambridge (xjd_R d) l
            else if (xjd_alg d =? 2)%Z then cluster AntiKt (xjd_R d) l else []
  end.

Lemma xloopF_raises : forall A S (body : file -> S -> A -> file * xres S) e,
  (forall f s a, body f s a = (f, XErr e)) ->
  forall l f s, xloopF body l f s = match l with [] => (f, XOk s) | _ :: _ => (f, XErr e) end.
Proof. intros A S body e H [|a t] f s; cbn [xloopF]; [reflexivity|]. rewrite H. reflexivity. Qed.

Lemma enumerate_from_nil : forall A k (l : list A), enumerate_from k l = [] -> l = [].
Proof. intros A k [|a t] H; [reflexivity|discriminate]. Qed.

Definition convx (r : file * option jerr) : file * xres unit :=
  (fst r, match snd r with None => XOk tt | Some e => XErr (XPy (exn_of e)) end).

Section Dispatch.
  Variable o_clusterx : xjetdef -> list vec4 -> list vec4.
  Variables o_perp o_eta o_phi : vec4 -> Q.
  Variable o_dphi : vec4 -> vec4 -> Q.
  Variable o_sqrt : Q -> Q.
  Notation genx_perform := (genx_perform_jet_finding o_clusterx o_perp o_eta o_phi o_dphi o_sqrt).
  Notation dR := (dR_of o_eta o_dphi o_sqrt).

  (* the three ways the translated method can go, from what its two comparisons and its fj.JetDefinition call give *)
  Lemma perform_x_jetdef_raises : forall self (fs : file) evs R eta pt ch a b1 b2 e,
    alg_is a fj_ee_genkt_algorithm = b1 -> alg_is a fj_genkt_algorithm = b2 ->
    fjx_JetDefinition a R (if b1 || b2 then Some (-1 # 1) else None) = XErr e ->
    genx_perform self fs evs R eta pt ch a
    = match check_params (Params AntiKt R eta pt ch) with
      | Err e' => (fs, XErr (XPy (exn_of e')))
      | Ok (w, p) => (Some [], match evs with [] => XOk (self_after self evs R w p, tt) | _ :: _ => XErr e end)
      end.
  Proof.
    intros self fs evs R eta pt ch a b1 b2 e HA HB HJ.
    unfold genx_perform_jet_finding. rewrite (source_params self evs AntiKt R eta pt ch).
    destruct (check_params (Params AntiKt R eta pt ch)) as [[w p]|e'] eqn:CP; [|reflexivity].
    unfold self_after.
    cbn [hadron_data_ jet_R_ jet_eta_range_ jet_pT_range_ fs_open String.eqb Ascii.eqb Bool.eqb].
    rewrite HA, HB. try rewrite (orb_comm b2 b1). destruct (b1 || b2); rewrite HJ; cbv beta iota;
      (rewrite xloopF_raises with (e := e) by (intros f s [i ev]; reflexivity));
      destruct evs; reflexivity.
  Qed.

  Lemma perform_x_not_native : forall self (fs : file) evs R eta pt ch a b1 b2 d,
    alg_is a fj_ee_genkt_algorithm = b1 -> alg_is a fj_genkt_algorithm = b2 ->
    fjx_JetDefinition a R (if b1 || b2 then Some (-1 # 1) else None) = XOk d ->
    fj_native (xjd_alg d) = false ->
    genx_perform self fs evs R eta pt ch a
    = match check_params (Params AntiKt R eta pt ch) with
      | Err e' => (fs, XErr (XPy (exn_of e')))
      | Ok (w, p) => (Some [], match evs with [] => XOk (self_after self evs R w p, tt) | _ :: _ => XErr FastJetError end)
      end.
  Proof.
    intros self fs evs R eta pt ch a b1 b2 d HA HB HJ N.
    unfold genx_perform_jet_finding. rewrite (source_params self evs AntiKt R eta pt ch).
    destruct (check_params (Params AntiKt R eta pt ch)) as [[w p]|e'] eqn:CP; [|reflexivity].
    unfold self_after.
    cbn [hadron_data_ jet_R_ jet_eta_range_ jet_pT_range_ fs_open String.eqb Ascii.eqb Bool.eqb].
    rewrite HA, HB. try rewrite (orb_comm b2 b1).
    assert (CS : forall l, fjx_ClusterSequence l d = XErr FastJetError) by (intros l; unfold fjx_ClusterSequence; rewrite N; reflexivity).
    assert (DS : fjx_description d = XOk tt \/ fjx_description d = XErr FastJetError)
      by (unfold fjx_description; destruct (fj_native (xjd_alg d) || (xjd_alg d =? fj_undefined_jet_algorithm)%Z); auto).
    destruct (b1 || b2); rewrite HJ; cbv beta iota;
      (rewrite xloopF_raises with (e := FastJetError)
         by (intros f s [i ev]; rewrite CS; destruct (i =? 0)%Z; [destruct DS as [-> | ->]|]; reflexivity));
      destruct evs; reflexivity.
  Qed.

  Lemma perform_x_native : forall self (fs : file) evs R eta pt ch a b1 b2 d (cl : alg -> Q -> list vec4 -> list vec4),
    alg_is a fj_ee_genkt_algorithm = b1 -> alg_is a fj_genkt_algorithm = b2 ->
    fjx_JetDefinition a R (if b1 || b2 then Some (-1 # 1) else None) = XOk d ->
    fj_native (xjd_alg d) = true ->
    (forall l, cl AntiKt R l = o_clusterx d l) ->
    (forall w p ev jet holes,
       check_params (Params AntiKt R eta pt ch) = Ok (w, p) -> In ev evs ->
       In jet (select cl o_eta (Params AntiKt R eta pt ch) w p ev) ->
       fill dR R jet Negative false ev = Ok holes ->
       perp_at o_perp (jet_hole_subtraction jet holes)) ->
    genx_perform self fs evs R eta pt ch a
    = let pa := Params AntiKt R eta pt ch in
      let r := perform cl o_perp o_eta o_phi dR pa fs evs in
      (fst r, match snd r with
              | Some e => XErr (XPy (exn_of e))
              | None => match check_params pa with
                        | Ok (w, p) => XOk (self_after self evs R w p, tt)
                        | Err e => XErr (XPy (exn_of e))
                        end
              end).
  Proof.
    intros self fs evs R eta pt ch a b1 b2 d cl HA HB HJ N HCL P.
    unfold genx_perform_jet_finding. rewrite (source_params self evs AntiKt R eta pt ch). unfold perform. cbv zeta.
    destruct (check_params (Params AntiKt R eta pt ch)) as [[w p]|e'] eqn:CP; [|reflexivity].
    pose proof (bound_ok_params _ _ _ CP) as HBD.
    pose proof (fun ev jet holes => P w p ev jet holes eq_refl) as P'. clear P.
    unfold self_after.
    cbn [hadron_data_ jet_R_ jet_eta_range_ jet_pT_range_ fs_open String.eqb Ascii.eqb Bool.eqb].
    rewrite HA, HB. try rewrite (orb_comm b2 b1).
    assert (CS : forall l, fjx_ClusterSequence l d = XOk (XClusterSequence l d)) by (intros l; unfold fjx_ClusterSequence; rewrite N; reflexivity).
    assert (DS : fjx_description d = XOk tt) by (unfold fjx_description; rewrite N; reflexivity).
    set (pa := Params AntiKt R eta pt ch).
    assert (BODY : forall body,
      (forall f pre ev post, evs = pre ++ ev :: post ->
         body f tt (zlen pre, ev)
         = convx (jets_loop o_perp o_eta o_phi dR pa (snd p) ev (zlen pre) (select cl o_eta pa w p ev) f)) ->
      (let (fs0, x) := xloopF body (enumerate_from 0 evs) (Some []) tt in
       match x with
       | XOk _ => (fs0, XOk (JSelf (Some evs) (Some R) (Some w) (Some p) (jet_data_ self), tt))
       | XErr e_ => (fs0, XErr e_)
       end)
      = (fst (events_loop cl o_perp o_eta o_phi dR pa w p 0 evs (create_empty fs)),
         match snd (events_loop cl o_perp o_eta o_phi dR pa w p 0 evs (create_empty fs)) with
         | Some e => XErr (XPy (exn_of e))
         | None => XOk (JSelf (Some evs) (Some R) (Some w) (Some p) (jet_data_ self), tt)
         end)).
    { intros body S.
      assert (L : forall post pre f, evs = pre ++ post ->
                  xloopF body (enumerate_from (zlen pre) post) f tt
                  = convx (events_loop cl o_perp o_eta o_phi dR pa w p (zlen pre) post f)).
      { induction post as [|ev t IH]; intros pre f E.
        - reflexivity.
        - cbn [enumerate_from xloopF events_loop]. rewrite (S f pre ev t E).
          destruct (jets_loop o_perp o_eta o_phi dR pa (snd p) ev (zlen pre) (select cl o_eta pa w p ev) f) as [f' [e|]];
            unfold convx at 1; cbn [fst snd]; [reflexivity|].
          replace (zlen pre + 1)%Z with (zlen (pre ++ [ev]))
            by (unfold zlen; rewrite app_length; cbn [List.length]; lia).
          apply IH. rewrite <- app_assoc. exact E. }
      specialize (L evs [] (Some []) eq_refl). unfold zlen in L. cbn [List.length Z.of_nat] in L.
      unfold create_empty. unfold event in *. rewrite L.
      destruct (events_loop cl o_perp o_eta o_phi dR pa w p 0 evs (Some [])) as [f' [e|]]; reflexivity. }
    destruct (b1 || b2); rewrite HJ; cbv beta iota; rewrite DS; apply BODY;
      intros f pre ev post E; cbv beta iota; rewrite CS.
    all: assert (IX : py_index evs (zlen pre) = Some ev) by (rewrite E; apply py_index_app).
    all: assert (RG : (0 <= zlen pre < zlen evs)%Z)
           by (rewrite E; unfold zlen; rewrite app_length; cbn [List.length]; lia).
    all: assert (INev : In ev evs) by (rewrite E; apply in_elt).
    all: destruct (zlen pre =? 0)%Z; cbv beta iota.
    all: replace (fj_select o_eta (SelectorEtaRange (fst w) (snd w))
               (fj_sorted_by_pt (fjx_inclusive_jets o_clusterx
                  (XClusterSequence (gen_create_fastjet_PseudoJets ev) d) (fst p))))
      with (select cl o_eta pa w p ev)
      by (unfold select, fj_select, fj_sorted_by_pt, fjx_inclusive_jets;
          cbn [sel_lo sel_hi xcs_in xcs_def a_alg a_R pa]; rewrite source_pseudojets, HCL;
          rewrite <- surjective_pairing; reflexivity).
    all: set (SEL := select cl o_eta pa w p ev) in *.
    all: match goal with |- (let (_, _) := xloopF ?b _ _ tt in _) = _ => set (jb := b) end.
    all: assert (S2 : forall f jet, In jet SEL -> jb f tt jet
                 = match fill dR R jet Negative false ev with
                   | Err e => (f, XErr (XPy (exn_of e)))
                   | Ok holes =>
                     match fill dR R jet Positive ch ev with
                     | Err e => (f, XErr (XPy (exn_of e)))
                     | Ok assoc => (write_jet_output o_perp o_eta o_phi f (snd p) (jet_hole_subtraction jet holes)
                                                     assoc (zlen pre) false, XOk tt)
                     end
                   end)
      by (intros f0 jet INj; unfold jb;
      change "negative"%string with (sel_str Negative); change "positive"%string with (sel_str Positive);
      match goal with |- context [gen_fill_associated_particles _ _ _ ?sf _ _ (sel_str Negative) _] =>
        rewrite (source_fill o_eta o_dphi o_sqrt sf evs R jet (zlen pre) ev Negative false eq_refl eq_refl RG IX) end;
      destruct (fill dR R jet Negative false ev) as [holes|e] eqn:FN; cbn [res_of]; [|reflexivity];
      match goal with |- context [gen_fill_associated_particles _ _ _ ?sf _ _ (sel_str Positive) _] =>
        rewrite (source_fill o_eta o_dphi o_sqrt sf evs R jet (zlen pre) ev Positive ch eq_refl eq_refl RG IX) end;
      destruct (fill dR R jet Positive ch ev) as [assoc|e]; cbn [res_of]; [|reflexivity];
      rewrite source_hole_subtraction; unfold gen_default_write_jet_output_new_file;
      match goal with |- context [gen_write_jet_output _ _ _ ?sf _ _ _ _ _] =>
        rewrite (source_write o_perp o_eta o_phi sf f0 p _ assoc (zlen pre) false eq_refl (P' ev jet holes INev INj FN) HBD) end;
      reflexivity).
    all: clearbody jb.
    all: assert (J : forall jets, incl jets SEL -> forall f,
                (let (fs0, p0) := xloopF jb jets f tt in
                 match p0 with XOk _ => (fs0, XOk tt) | XErr e_ => (fs0, XErr e_) end)
                = convx (jets_loop o_perp o_eta o_phi dR pa (snd p) ev (zlen pre) jets f))
      by (induction jets as [|jet t IH]; intros INC f0;
          [reflexivity|
           cbn [xloopF jets_loop]; rewrite S2 by (apply INC; left; reflexivity); cbn [a_R a_charged pa];
           destruct (fill dR R jet Negative false ev) as [holes|e]; [|reflexivity];
           destruct (fill dR R jet Positive ch ev) as [assoc|e]; [|reflexivity];
           apply IH; intros x Hx; apply INC; right; exact Hx]).
    all: apply J; apply incl_refl.
  Qed.

  (* what the two comparisons and the fj.JetDefinition call of the method give, for every argument *)
  Lemma dispatch_jetdef : forall a R,
    let x := if alg_is a fj_ee_genkt_algorithm || alg_is a fj_genkt_algorithm then Some (-1 # 1) else None in
    match dispatch_of a with
    | DRaise e => fjx_JetDefinition a R x = XErr e
                  \/ (e = FastJetError /\ exists d, fjx_JetDefinition a R x = XOk d /\ fj_native (xjd_alg d) = false)
    | DCluster n x' => fjx_JetDefinition a R x = XOk (XJetDefinition n R x') /\ fj_native n = true
    end.
  Proof.
    intros [n|] R; [|left; reflexivity].
    unfold dispatch_of, alg_is, fjx_JetDefinition, c_int, fj_n_parameters, fj_native, existsb,
      fj_kt_algorithm, fj_cambridge_algorithm, fj_antikt_algorithm, fj_genkt_algorithm, fj_cambridge_for_passive_algorithm,
      fj_ee_kt_algorithm, fj_ee_genkt_algorithm.
    cbv zeta.
    destruct (Z.eqb_spec n 53) as [->|N53]; [split; reflexivity|].
    destruct (Z.eqb_spec n 3) as [->|N3]; [split; reflexivity|].
    destruct (Z.eqb_spec n 0) as [->|N0]; [split; reflexivity|].
    destruct (Z.eqb_spec n 1) as [->|N1]; [split; reflexivity|].
    destruct (Z.eqb_spec n 2) as [->|N2]; [split; reflexivity|].
    destruct (Z.eqb_spec n 11) as [->|N11]; [split; reflexivity|].
    destruct (Z.eqb_spec n 50) as [->|N50]; [left; reflexivity|].
    cbn [orb negb andb].
    destruct (Z.ltb_spec n (-2147483648)) as [L1|L1], (Z.ltb_spec 2147483647 n) as [L2|L2],
             (Z.leb_spec (-2147483648) n) as [L3|L3], (Z.leb_spec n 2147483647) as [L4|L4];
      try lia; cbn [orb negb andb]; try (left; reflexivity).
    right. split; [reflexivity|]. eexists. split; [reflexivity|]. cbn [xjd_alg existsb orb].
    repeat match goal with |- context [(n =? ?k)%Z] => destruct (Z.eqb_spec n k); [lia|] end. reflexivity.
  Qed.

  (* ---- perform_jet_finding, every argument ---------------------------------------------------------------------- *)
  Theorem source_perform_dispatch : forall self (fs : file) evs R eta pt ch a,
    a <> AInt 99 ->
    (forall n x w p ev jet holes,
       dispatch_of a = DCluster n x ->
       check_params (Params AntiKt R eta pt ch) = Ok (w, p) -> In ev evs ->
       In jet (select (cluster_of o_clusterx n x) o_eta (Params AntiKt R eta pt ch) w p ev) ->
       fill dR R jet Negative false ev = Ok holes ->
       perp_at o_perp (jet_hole_subtraction jet holes)) ->
    genx_perform self fs evs R eta pt ch a
    = let pa := Params AntiKt R eta pt ch in
      match dispatch_of a with
      | DRaise e =>
        match check_params pa with
        | Err e' => (fs, XErr (XPy (exn_of e')))
        | Ok (w, p) => (Some [], match evs with [] => XOk (self_after self evs R w p, tt) | _ :: _ => XErr e end)
        end
      | DCluster n x =>
        let r := perform (cluster_of o_clusterx n x) o_perp o_eta o_phi dR pa fs evs in
        (fst r, match snd r with
                | Some e => XErr (XPy (exn_of e))
                | None => match check_params pa with
                          | Ok (w, p) => XOk (self_after self evs R w p, tt)
                          | Err e => XErr (XPy (exn_of e))
                          end
                end)
      end.
  Proof.
    intros self fs evs R eta pt ch a _ P. cbv zeta.
    pose proof (dispatch_jetdef a R) as D. cbv zeta in D.
    destruct (dispatch_of a) as [e|n x].
    - destruct D as [HJ|(-> & d & HJ & N)].
      + exact (perform_x_jetdef_raises self fs evs R eta pt ch a _ _ e eq_refl eq_refl HJ).
      + exact (perform_x_not_native self fs evs R eta pt ch a _ _ d eq_refl eq_refl HJ N).
    - destruct D as [HJ N].
      exact (perform_x_native self fs evs R eta pt ch a _ _ _ (cluster_of o_clusterx n x) eq_refl eq_refl HJ N
               (fun l => eq_refl) (fun w p ev jet holes => P n x w p ev jet holes eq_refl)).
  Qed.
End Dispatch.

(* ---- the table: fastjet's named algorithms, every other value, the default, and Model/JetsRt.v's five ----------------- *)
Theorem source_dispatch_table :
  genx_default_perform_jet_finding_jet_algorithm = AInt 2
  /\ genx_default_perform_jet_finding_assoc_only_charged = true
  /\ dispatch_of (AInt fj_kt_algorithm) = DCluster 0 None
  /\ dispatch_of (AInt fj_cambridge_algorithm) = DCluster 1 None
  /\ dispatch_of (AInt fj_cambridge_aachen_algorithm) = DCluster 1 None
  /\ dispatch_of (AInt fj_antikt_algorithm) = DCluster 2 None
  /\ dispatch_of (AInt fj_genkt_algorithm) = DCluster 3 (Some (-1 # 1))
  /\ dispatch_of (AInt fj_ee_genkt_algorithm) = DCluster 53 (Some (-1 # 1))
  /\ dispatch_of (AInt fj_cambridge_for_passive_algorithm) = DCluster 11 None
  /\ dispatch_of (AInt fj_ee_kt_algorithm) = DRaise FastJetError
  /\ dispatch_of (AInt fj_genkt_for_passive_algorithm) = DRaise FastJetError
  /\ dispatch_of (AInt fj_undefined_jet_algorithm) = DRaise FastJetError
  /\ dispatch_of AOther = DRaise (XPy TypeError)
  /\ (forall n, ~ In n [0; 1; 2; 3; 11; 53]%Z -> (-2147483648 <= n <= 2147483647)%Z -> dispatch_of (AInt n) = DRaise FastJetError)
  /\ (forall n, (n < -2147483648 \/ 2147483647 < n)%Z -> dispatch_of (AInt n) = DRaise (XPy TypeError))
  (* the algorithms of Model/JetsRt.v: the jet definition gen_jets.py's translation builds for them, by number *)
  /\ (forall g R, exists x, dispatch_of (AInt (code_of g)) = DCluster (code_of g) x
                          /\ x = (if galg_eqb g GEEGenKt || galg_eqb g GGenKt then Some (-1 # 1) else None)
                          /\ XJetDefinition (code_of g) R x = xjetdef_of (JetDefinition g R x)).
Proof.
  repeat (split; [reflexivity|]). split; [|split].
  - intros n NI [L H]. unfold dispatch_of.
    destruct (Z.ltb_spec n (-2147483648)); [lia|]. destruct (Z.ltb_spec 2147483647 n); [lia|]. cbn [orb existsb].
    repeat match goal with |- context [(n =? ?k)%Z] => destruct (Z.eqb_spec n k); [exfalso; apply NI; subst; cbn; tauto|] end.
    reflexivity.
  - intros n H. unfold dispatch_of.
    destruct (Z.ltb_spec n (-2147483648)), (Z.ltb_spec 2147483647 n); try reflexivity. lia.
  - intros g R. eexists. split; [|split; [reflexivity|]]; destruct g as [[| |]| |]; reflexivity.
Qed.

(* ---- the clustering function matters only at the call's algorithm and radius --------------------------------------------- *)
Lemma perform_ext : forall (cl1 cl2 : alg -> Q -> list vec4 -> list vec4) o_perp o_eta o_phi dR al1 al2 R eta pt ch f evs,
  (forall l, cl1 al1 R l = cl2 al2 R l) ->
  perform cl1 o_perp o_eta o_phi dR (Params al1 R eta pt ch) f evs
  = perform cl2 o_perp o_eta o_phi dR (Params al2 R eta pt ch) f evs.
Proof.
  intros cl1 cl2 o_perp o_eta o_phi dR al1 al2 R eta pt ch f evs H. unfold perform.
  change (check_params (Params al1 R eta pt ch)) with (check_params (Params al2 R eta pt ch)).
  destruct (check_params (Params al2 R eta pt ch)) as [[w p]|e]; [|reflexivity].
  generalize (create_empty f). generalize 0%Z.
  assert (J : forall hi ev i jets f0, jets_loop o_perp o_eta o_phi dR (Params al1 R eta pt ch) hi ev i jets f0
                                   = jets_loop o_perp o_eta o_phi dR (Params al2 R eta pt ch) hi ev i jets f0).
  { intros hi ev i. induction jets as [|jet t IH]; intros f0; [reflexivity|]. cbn [jets_loop a_R a_charged].
    destruct (fill dR R jet Negative false ev); [|reflexivity]. destruct (fill dR R jet Positive ch ev); [|reflexivity]. apply IH. }
  induction evs as [|ev t IH]; intros i f0; [reflexivity|]. cbn [events_loop].
  replace (select cl1 o_eta (Params al1 R eta pt ch) w p ev) with (select cl2 o_eta (Params al2 R eta pt ch) w p ev)
    by (unfold select; cbn [a_alg a_R]; rewrite H; reflexivity).
  rewrite J. destruct (jets_loop o_perp o_eta o_phi dR (Params al2 R eta pt ch) (snd p) ev i _ f0) as [f' [e|]]; [reflexivity|]. apply IH.
Qed.

Lemma cluster_of_model : forall cluster al R l,
  cluster_of (xcluster_of cluster) (code_of (GModel al)) None AntiKt R l = cluster al R l.
Proof. intros cluster [| |] R l; reflexivity. Qed.

(* ---- on the three algorithms of Model/Jets.v the two translations of perform_jet_finding agree --------------------------- *)
(* (the wider oracle restricted to what Model/JetsRt.v's oracle knows; same hypothesis as C20_source_perform) *)
Theorem source_perform_x_model : forall o_cluster o_perp o_eta o_phi o_dphi o_sqrt self (fs : file) evs al R eta pt ch,
  (forall w p ev jet holes,
     check_params (Params al R eta pt ch) = Ok (w, p) -> In ev evs ->
     In jet (select o_cluster o_eta (Params al R eta pt ch) w p ev) ->
     fill (dR_of o_eta o_dphi o_sqrt) R jet Negative false ev = Ok holes ->
     perp_at o_perp (jet_hole_subtraction jet holes)) ->
  genx_perform_jet_finding (xcluster_of o_cluster) o_perp o_eta o_phi o_dphi o_sqrt self fs evs R eta pt ch
                           (AInt (code_of (GModel al)))
  = xliftF (gen_perform_jet_finding o_cluster o_perp o_eta o_phi o_dphi o_sqrt self fs evs R eta pt ch (GModel al)).
Proof.
  intros o_cluster o_perp o_eta o_phi o_dphi o_sqrt self fs evs al R eta pt ch P.
  rewrite (source_perform o_cluster o_perp o_eta o_phi o_dphi o_sqrt self fs evs al R eta pt ch P).
  assert (D : dispatch_of (AInt (code_of (GModel al))) = DCluster (code_of (GModel al)) None) by (destruct al; reflexivity).
  rewrite source_perform_dispatch.
  - rewrite D. cbv zeta.
    rewrite (perform_ext _ o_cluster o_perp o_eta o_phi (dR_of o_eta o_dphi o_sqrt) AntiKt al R eta pt ch fs evs
               (cluster_of_model o_cluster al R)).
    change (check_params (Params AntiKt R eta pt ch)) with (check_params (Params al R eta pt ch)).
    unfold xliftF. cbn [fst snd].
    destruct (snd (perform o_cluster o_perp o_eta o_phi (dR_of o_eta o_dphi o_sqrt) (Params al R eta pt ch) fs evs)); [reflexivity|].
    destruct (check_params (Params al R eta pt ch)) as [[w p]|e]; reflexivity.
  - destruct al; discriminate.
  - intros n x w p ev jet holes Dn CP INev INj F. rewrite D in Dn. injection Dn as <- <-.
    apply (P w p ev jet holes CP INev); [|exact F].
    unfold select in *. cbn [a_alg a_R] in *. rewrite <- (cluster_of_model o_cluster al R (map pmom ev)). exact INj.
Qed.

(* ---- write, read back, get: the selected jets and, jet by jet, their associated particles -------------------------------- *)
Lemma group_head : forall o_perp o_eta o_phi jo d,
  hd d (jet_group o_perp o_eta o_phi jo) = jet_row o_perp o_eta o_phi (jo_mom jo) (jo_event jo).
Proof. reflexivity. Qed.
Lemma group_tail : forall o_perp o_eta o_phi jo,
  tl (jet_group o_perp o_eta o_phi jo) = hadron_rows o_perp o_eta o_phi 1 (jo_assoc jo) (jo_event jo).
Proof.
  intros o_perp o_eta o_phi jo. change 1%Z with (Z.of_nat 1). rewrite hadron_rows_spec. reflexivity.
Qed.

(* reading any list of written jets back through the regenerated reader and getters *)
Theorem source_read_back : forall o_perp o_eta o_phi (js : list jetout) self,
  exists self',
    gen_read_jet_data self (Some (lines_of o_perp o_eta o_phi js)) = (Some (lines_of o_perp o_eta o_phi js), POk (self', tt))
    /\ gen_get_jets self' = POk (map (fun jo => jet_row o_perp o_eta o_phi (jo_mom jo) (jo_event jo)) js)
    /\ gen_get_associated_particles self'
       = POk (map (fun jo => hadron_rows o_perp o_eta o_phi 1 (jo_assoc jo) (jo_event jo)) js).
Proof.
  intros o_perp o_eta o_phi js self. eexists. rewrite source_read, read_written. split; [reflexivity|].
  rewrite source_get_jets, source_get_associated. cbn [jet_data_ set_jet_data_].
  destruct (get_jets_written o_perp o_eta o_phi js) as [G A]. rewrite G, A. cbn [res_of].
  split; [f_equal; apply map_ext; intros jo; apply group_head | f_equal; apply map_ext; intros jo; apply group_tail].
Qed.

(* perform_jet_finding with one of the three algorithms of Model/Jets.v (gen_jets.py's translation), then read + get *)
Theorem source_roundtrip : forall o_cluster o_perp o_eta o_phi o_dphi o_sqrt self (prior : file) evs al R eta pt ch,
  let a := Params al R eta pt ch in
  let dR := dR_of o_eta o_dphi o_sqrt in
  let js := selected_jets o_cluster o_eta dR a evs in
  valid a -> Forall (event_ok o_cluster o_eta a) evs ->
  (forall w p ev jet holes,
     check_params a = Ok (w, p) -> In ev evs -> In jet (select o_cluster o_eta a w p ev) ->
     fill dR R jet Negative false ev = Ok holes -> perp_at o_perp (jet_hole_subtraction jet holes)) ->
  exists self1,
    gen_perform_jet_finding o_cluster o_perp o_eta o_phi o_dphi o_sqrt self prior evs R eta pt ch (GModel al)
    = (Some (lines_of o_perp o_eta o_phi js), POk (self1, tt))
    /\ forall self2, exists self3,
         gen_read_jet_data self2 (Some (lines_of o_perp o_eta o_phi js)) = (Some (lines_of o_perp o_eta o_phi js), POk (self3, tt))
         /\ gen_get_jets self3 = POk (map (fun jo => jet_row o_perp o_eta o_phi (jo_mom jo) (jo_event jo)) js)
         /\ gen_get_associated_particles self3
            = POk (map (fun jo => hadron_rows o_perp o_eta o_phi 1 (jo_assoc jo) (jo_event jo)) js).
Proof.
  intros o_cluster o_perp o_eta o_phi o_dphi o_sqrt self prior evs al R eta pt ch a dR js V OK P.
  rewrite (source_perform o_cluster o_perp o_eta o_phi o_dphi o_sqrt self prior evs al R eta pt ch P). cbv zeta.
  fold a. fold dR. rewrite (perform_content o_cluster o_perp o_eta o_phi dR a prior evs V OK). cbn [fst snd].
  rewrite (check_params_valid a V). eexists. split; [reflexivity|].
  intros self2. apply source_read_back.
Qed.

(* the same for EVERY argument that is dispatched to a clustering, genkt and ee_genkt (extra parameter -1) included *)
Theorem source_roundtrip_dispatch : forall o_clusterx o_perp o_eta o_phi o_dphi o_sqrt self (prior : file) evs R eta pt ch alg n x,
  let a := Params AntiKt R eta pt ch in
  let cl := cluster_of o_clusterx n x in
  let dR := dR_of o_eta o_dphi o_sqrt in
  let js := selected_jets cl o_eta dR a evs in
  alg <> AInt 99 -> dispatch_of alg = DCluster n x ->
  valid a -> Forall (event_ok cl o_eta a) evs ->
  (forall w p ev jet holes,
     check_params a = Ok (w, p) -> In ev evs -> In jet (select cl o_eta a w p ev) ->
     fill dR R jet Negative false ev = Ok holes -> perp_at o_perp (jet_hole_subtraction jet holes)) ->
  exists self1,
    genx_perform_jet_finding o_clusterx o_perp o_eta o_phi o_dphi o_sqrt self prior evs R eta pt ch alg
    = (Some (lines_of o_perp o_eta o_phi js), XOk (self1, tt))
    /\ forall self2, exists self3,
         gen_read_jet_data self2 (Some (lines_of o_perp o_eta o_phi js)) = (Some (lines_of o_perp o_eta o_phi js), POk (self3, tt))
         /\ gen_get_jets self3 = POk (map (fun jo => jet_row o_perp o_eta o_phi (jo_mom jo) (jo_event jo)) js)
         /\ gen_get_associated_particles self3
            = POk (map (fun jo => hadron_rows o_perp o_eta o_phi 1 (jo_assoc jo) (jo_event jo)) js).
Proof.
  intros o_clusterx o_perp o_eta o_phi o_dphi o_sqrt self prior evs R eta pt ch alg n x a cl dR js N99 D V OK P.
  rewrite source_perform_dispatch; [|exact N99|].
  - rewrite D. cbv zeta. fold a. fold cl. fold dR.
    rewrite (perform_content cl o_perp o_eta o_phi dR a prior evs V OK). cbn [fst snd].
    rewrite (check_params_valid a V). eexists. split; [reflexivity|].
    intros self2. apply source_read_back.
  - intros n' x' w p ev jet holes D'. rewrite D in D'. injection D' as <- <-. apply P.
Qed.

(* ---- non-vacuity: genkt on the concrete call of C20_source_example (fastjet's answer as a table keyed by the
   definition: only genkt with p = -1 and R = 1 finds the 3-4-5 jet), and the three kinds of unsupported argument ---------- *)
Definition sxx_cluster (d : xjetdef) (_ : list vec4) : list vec4 :=
  if (xjd_alg d =? 3)%Z && Qeq_bool (xjd_R d) 1 && match xjd_extra d with Some p => Qeq_bool p (-1 # 1) | None => false end
  then [V4 3 4 0 5] else [].
Definition sxx_run (a : pyalg) :=
  genx_perform_jet_finding sxx_cluster sx_perp sx_eta sx_phi sx_dphi sx_sqrt gen_new (Some [Foreign 7]) sx_events
                           1 (Some 2, Some (-2)) (None, Some 6) true a.

Theorem source_dispatch_example :
  (forall n x w p ev jet holes,
     dispatch_of (AInt fj_genkt_algorithm) = DCluster n x ->
     check_params (Params AntiKt 1 (Some 2, Some (-2)) (None, Some 6) true) = Ok (w, p) -> In ev sx_events ->
     In jet (select (cluster_of sxx_cluster n x) sx_eta (Params AntiKt 1 (Some 2, Some (-2)) (None, Some 6) true) w p ev) ->
     fill (dR_of sx_eta sx_dphi sx_sqrt) 1 jet Negative false ev = Ok holes ->
     perp_at sx_perp (jet_hole_subtraction jet holes))
  /\ List.length (content (fst (sxx_run (AInt fj_genkt_algorithm)))) = 2%nat
  /\ (exists s, snd (sxx_run (AInt fj_genkt_algorithm)) = XOk (s, tt))
  /\ sxx_run (AInt fj_antikt_algorithm) = (Some [], snd (sxx_run (AInt fj_antikt_algorithm)))
  /\ sxx_run (AInt fj_ee_kt_algorithm) = (Some [], XErr FastJetError)
  /\ sxx_run (AInt 7) = (Some [], XErr FastJetError)
  /\ sxx_run (AInt fj_undefined_jet_algorithm) = (Some [], XErr FastJetError)
  /\ sxx_run AOther = (Some [], XErr (XPy TypeError)).
Proof.
  split; [|repeat split; try (vm_compute; reflexivity); vm_compute; eexists; reflexivity].
  intros n x w p ev jet holes D CP [E|[]] IJ F. subst ev. vm_compute in D. injection D as <- <-.
  vm_compute in CP. inversion CP; subst w p. clear CP.
  vm_compute in IJ. destruct IJ as [E|[]]. subst jet. vm_compute in F. inversion F; subst holes.
  split; vm_compute; [discriminate|reflexivity].
Qed.

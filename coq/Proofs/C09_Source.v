From Coq Require Import String List ZArith QArith Qcanon Bool Arith Lia.
From SX Require Import Model.Histogram Lib.HistBase Lib.HistRt Gen.GenHistogram.
Import ListNotations.
Local Open Scope nat_scope.

Lemma removelast_len {A} (l : list A) : length (removelast l) = length l - 1.
Proof. induction l as [|x l IH]; [reflexivity|]. destruct l as [|y l]; [reflexivity|].
  change (removelast (x :: y :: l)) with (x :: removelast (y :: l)). cbn [length]. rewrite IH. cbn [length]. lia. Qed.
Lemma tl_removelast_length {A} (l : list A) : length (tl l) = length (removelast l).
Proof. rewrite removelast_len. destruct l; simpl; lia. Qed.

Lemma zipq_eq f a b : length a = length b -> zipq f a b = Ok (map2 f a b).
Proof. intros H. unfold zipq. now rewrite H, Nat.eqb_refl. Qed.

Lemma map_map2 {A B C D} (g : C -> D) (f : A -> B -> C) a b : map g (map2 f a b) = map2 (fun x y => g (f x y)) a b.
Proof. unfold map2. rewrite map_map. reflexivity. Qed.

Theorem source_bin_width h : gen_bin_width h = Ok (widths (edges h)).
Proof. unfold gen_bin_width, widths, py_tail, py_init. rewrite zipq_eq by apply tl_removelast_length. reflexivity. Qed.

Theorem source_bin_centers h : gen_bin_centers h = Ok (centers (edges h)).
Proof. unfold gen_bin_centers, centers, py_tail, py_init. rewrite zipq_eq by (symmetry; apply tl_removelast_length).
  simpl. rewrite map_map2. reflexivity. Qed.

Theorem source_bounds h : gen_bin_bounds_left h = Ok (bounds_left (edges h)) /\ gen_bin_bounds_right h = Ok (bounds_right (edges h))
  /\ gen_bin_boundaries h = Ok (edges h) /\ gen_histogram h = Ok (hH h).
Proof. repeat split. Qed.

(* ---------------------------------------------------------------- counts *)
Lemma to_count_nat n : to_count (Z.of_nat n) = Ok n.
Proof. unfold to_count. destruct (Z.of_nat n <? 0)%Z eqn:E; [apply Z.ltb_lt in E; lia|]. now rewrite Nat2Z.id. Qed.
Lemma to_count_pos z : (0 <= z)%Z -> to_count z = Ok (Z.to_nat z).
Proof. intros H. unfold to_count. destruct (z <? 0)%Z eqn:E; [apply Z.ltb_lt in E; lia|reflexivity]. Qed.
Lemma np_zeros_nat n : np_zeros (Z.of_nat n) = Ok (zeros n).
Proof. unfold np_zeros. now rewrite to_count_nat. Qed.
Lemma np_ones_nat n : np_ones (Z.of_nat n) = Ok (ones n).
Proof. unfold np_ones. now rewrite to_count_nat. Qed.

Ltac hsimp := cbn [bind set_nbins set_edges set_nhist set_hH set_hRAW set_hERR set_hSCAL set_hSYS
                       nbins edges nhist hH hRAW hERR hSCAL hSYS].

(* ---------------------------------------------------------------- __init__ *)
Theorem source_init_tuple ul lo hi b n : init_tuple ul lo hi b n = gen_init_tuple ul lo hi b n.
Proof.
  unfold init_tuple, gen_init_tuple, hist_blank. cbn [to_count Z.ltb Z.compare bind Z.to_nat Pos.to_nat Pos.iter_op].
  destruct (Qcltb hi lo || Qc_eq_bool lo hi); [reflexivity|].
  destruct b; cbn [negb orb]; [|reflexivity].
  destruct (n <=? 0)%Z eqn:E; [reflexivity|]. apply Z.leb_gt in E.
  unfold np_zeros, np_ones. rewrite (to_count_pos n) by lia. cbn. unfold np_linspace, fresh.
  replace (Z.to_nat (n + 1 - 1)) with (Z.to_nat n) by (f_equal; lia). reflexivity.
Qed.

Theorem source_init_list es : init_list es = gen_init_list es.
Proof.
  unfold init_list, gen_init_list, hist_blank. cbn [to_count Z.ltb Z.compare bind Z.to_nat Pos.to_nat Pos.iter_op].
  destruct es as [|e es]; [reflexivity|].
  unfold zlen. rewrite to_count_pos by (cbn [length]; lia). cbn [bind set_nbins set_edges nbins edges].
  replace (Z.to_nat (Z.of_nat (length (e :: es)) - 1)) with (length (e :: es) - 1) by lia.
  repeat (rewrite ?np_zeros_nat, ?np_ones_nat; hsimp). reflexivity.
Qed.

(* ---------------------------------------------------------------- small facts *)
Lemma bind_ret {A} (r : result A) : bind r (fun x => Ok x) = r.
Proof. destruct r; reflexivity. Qed.
Lemma zeqb_nat a b : (Z.of_nat a =? Z.of_nat b)%Z = Nat.eqb a b.
Proof. destruct (Nat.eqb a b) eqn:E; [apply Nat.eqb_eq in E; subst; apply Z.eqb_refl|].
  apply Nat.eqb_neq in E. apply Z.eqb_neq. lia. Qed.
Lemma c_ltb_0 c : c_ltb c c0 = c_neg c.
Proof. destruct c; reflexivity. Qed.
Lemma count_neg l : (0 <? zlen (filter (fun v => c_ltb v c0) l))%Z = existsb c_neg l.
Proof.
  unfold zlen. induction l as [|x l IH]; [reflexivity|]. cbn [filter existsb]. rewrite c_ltb_0.
  destruct (c_neg x); cbn [orb]; [|exact IH]. cbn [length]. apply Z.ltb_lt. lia.
Qed.

(* ---------------------------------------------------------------- scale_histogram *)
Theorem source_scale_histogram h s : scale_histogram h s = gen_scale_histogram h (of_scl s).
Proof.
  destruct s as [c|l]; unfold scale_histogram, gen_scale_histogram, of_scl.
  - rewrite c_ltb_0. destruct (c_neg c); [reflexivity|].
    unfold np_imul_last_scalar. rewrite bind_ret.
    destruct (scale_last_scalar (hH h) c); hsimp; [|reflexivity].
    destruct (scale_last_scalar (hSCAL h) c); hsimp; [|reflexivity].
    destruct (scale_last_scalar (hERR h) c); hsimp; reflexivity.
  - rewrite count_neg. destruct (existsb c_neg l); [reflexivity|].
    unfold zlen. rewrite zeqb_nat. destruct (negb (Nat.eqb (length l) (nbins h))); [reflexivity|].
    rewrite !bind_ret. unfold np_shape_ne_last, np_imul_last_list.
    destruct (hH h) as [v|rows] eqn:EH; [reflexivity|].
    destruct (last_row (A2 rows)) as [r|e]; hsimp; [|reflexivity].
    destruct (negb (Nat.eqb (length l) (length r))); [reflexivity|].
    destruct (scale_last_list (A2 rows) l); hsimp; [|reflexivity].
    destruct (scale_last_list (hSCAL h) l); hsimp; [|reflexivity].
    destruct (scale_last_list (hERR h) l); hsimp; reflexivity.
Qed.

(* ---------------------------------------------------------------- set_error / set_systematic_error *)
Theorem source_set_error h l : set_error h l = gen_set_error h l.
Proof.
  unfold set_error, gen_set_error, zlen, np_set_last. rewrite zeqb_nat, orb_false_r.
  destruct (negb (Nat.eqb (length l) (nbins h))); [reflexivity|].
  destruct (set_last_row (hERR h) l); reflexivity.
Qed.
Theorem source_set_systematic_error h l : set_systematic_error h l = gen_set_systematic_error h l.
Proof.
  unfold set_systematic_error, gen_set_systematic_error, zlen, np_set_last. rewrite zeqb_nat, orb_false_r.
  destruct (negb (Nat.eqb (length l) (nbins h))); [reflexivity|].
  destruct (set_last_row (hSYS h) l); reflexivity.
Qed.

(* ---------------------------------------------------------------- add_histogram *)
Theorem source_add_histogram h : add_histogram h = gen_add_histogram h.
Proof.
  unfold add_histogram, gen_add_histogram, np_vstack. rewrite np_zeros_nat. hsimp.
  destruct (vstack (hH h) (zeros (nbins h))); hsimp; [|reflexivity].
  destruct (vstack (hRAW h) (zeros (nbins h))); hsimp; [|reflexivity].
  rewrite ?np_ones_nat. hsimp.
  destruct (vstack (hSCAL h) (ones (nbins h))); hsimp; [|reflexivity].
  rewrite ?np_zeros_nat. hsimp.
  destruct (vstack (hERR h) (zeros (nbins h))); hsimp; [|reflexivity].
  rewrite ?np_zeros_nat. hsimp.
  destruct (vstack (hSYS h) (zeros (nbins h))); hsimp; [|reflexivity].
  replace (Z.of_nat (nhist h) + 1)%Z with (Z.of_nat (S (nhist h))) by lia. rewrite to_count_nat. reflexivity.
Qed.

(* ---------------------------------------------------------------- statistical_error *)
Lemma norm_index_nat len k : k < len -> norm_index len (Z.of_nat k) = Ok k.
Proof.
  intros H. unfold norm_index.
  destruct (0 <=? Z.of_nat k)%Z eqn:E1; [|apply Z.leb_gt in E1; lia].
  destruct (Z.of_nat k <? Z.of_nat len)%Z eqn:E2; [|apply Z.ltb_ge in E2; lia].
  cbn [andb]. now rewrite Nat2Z.id.
Qed.
Lemma norm_index_nat_out len k : len <= k -> norm_index len (Z.of_nat k) = Err IndexError.
Proof.
  intros H. unfold norm_index.
  destruct (Z.of_nat k <? Z.of_nat len)%Z eqn:E2; [apply Z.ltb_lt in E2; lia|].
  destruct (Z.of_nat k <? 0)%Z eqn:E3; [apply Z.ltb_lt in E3; lia|].
  rewrite andb_false_r. reflexivity.
Qed.
Lemma set_nth_row_app r pre e et :
  set_nth_row (length pre) r (pre ++ e :: et) = if Nat.eqb (length e) (length r) then Ok (pre ++ r :: et) else Err ValueError.
Proof.
  induction pre as [|p pre IH]; cbn [length app set_nth_row]; [reflexivity|].
  rewrite IH. destruct (Nat.eqb (length e) (length r)); reflexivity.
Qed.

Section StatErr.
  Variable usqrt : Qc -> Qc.
  Variable F : hist * Z -> list cell -> result (hist * Z).
  Hypothesis F_spec : forall h c r,
    F (h, c) r = bind (np_setitem_row (hERR h) c (map (csqrt usqrt) r)) (fun a => Ok (set_hERR h a, (c + 1)%Z)).

  Lemma stat_fold : forall rows pre erows h, hERR h = A2 (pre ++ erows) ->
    fold_leftM F rows (h, Z.of_nat (length pre)) =
    match stat_rows usqrt rows erows with
    | Ok E' => Ok (set_hERR h (A2 (pre ++ E')), Z.of_nat (length pre + length rows))
    | Err c => Err c
    end.
  Proof.
    induction rows as [|r t IH]; intros pre erows h HE.
    - cbn [fold_leftM stat_rows length]. rewrite Nat.add_0_r. destruct h; cbn in *; subst; reflexivity.
    - cbn [fold_leftM stat_rows]. rewrite F_spec, HE. unfold np_setitem_row.
      destruct erows as [|e et].
      + rewrite norm_index_nat_out by (rewrite app_length; cbn; lia). reflexivity.
      + rewrite norm_index_nat by (rewrite app_length; cbn; lia). cbn [bind].
        rewrite set_nth_row_app, map_length.
        destruct (Nat.eqb (length e) (length r)); [|reflexivity]. cbn [bind].
        specialize (IH (pre ++ [map (csqrt usqrt) r]) et (set_hERR h (A2 (pre ++ map (csqrt usqrt) r :: et)))).
        rewrite app_length in IH. cbn [length] in IH.
        replace (Z.of_nat (length pre) + 1)%Z with (Z.of_nat (length pre + 1)) by lia.
        rewrite IH by (cbn; now rewrite <- app_assoc).
        destruct (stat_rows usqrt t et) as [E'|c]; [|reflexivity]. cbn [bind].
        rewrite <- app_assoc. cbn [app length]. f_equal. f_equal. lia.
  Qed.
End StatErr.

Theorem source_statistical_error usqrt h : (exists erows, hERR h = A2 erows) ->
  statistical_error usqrt h = gen_statistical_error usqrt h.
Proof.
  intros [erows HE]. unfold statistical_error, gen_statistical_error, gen_histogram, np_rows. cbn [bind].
  rewrite HE. destruct (hH h) as [v|rows] eqn:EH; [reflexivity|]. cbn [rows_of bind].
  change (h, 0%Z) with (h, Z.of_nat (length (@nil (list cell)))).
  rewrite (stat_fold usqrt) with (erows := erows).
  - cbn [length app Nat.add]. destruct (stat_rows usqrt rows erows); [|reflexivity]. cbn [bind]. unfold set_hERR. now rewrite EH.
  - intros h0 c r. cbn. destruct (np_setitem_row (hERR h0) c (map (csqrt usqrt) r)); reflexivity.
  - exact HE.
Qed.

(* ---------------------------------------------------------------- make_density *)
Lemma c_eqb_0 c : c_eqb c c0 = c_is0 c.
Proof. destruct c; reflexivity. Qed.
Lemma zeqb_nat0 n : (Z.of_nat n =? 0)%Z = Nat.eqb n 0.
Proof. exact (zeqb_nat n 0). Qed.

Theorem source_make_density usqrt h : (exists erows, hERR h = A2 erows) ->
  make_density usqrt h = gen_make_density usqrt h.
Proof.
  intros HE. unfold make_density, gen_make_density, np_last_row, qcells.
  rewrite zeqb_nat0. destruct (Nat.eqb (nhist h) 0); [reflexivity|].
  destruct (last_row (hH h)) as [last|e]; cbn [bind]; [|reflexivity].
  rewrite source_bin_width. cbn [bind].
  destruct (zipw cdiv last (map (@Some Qc) (widths (edges h)))) as [density|e]; cbn [bind]; [|reflexivity].
  destruct (zipw cmul density (map (@Some Qc) (widths (edges h)))) as [dw|e]; cbn [bind]; [|reflexivity].
  rewrite c_eqb_0. destruct (c_is0 (csum dw)); [reflexivity|].
  rewrite <- (source_statistical_error usqrt h HE).
  destruct (statistical_error usqrt h) as [h1|e]; cbn [bind]; [|reflexivity].
  rewrite bind_ret. apply (source_scale_histogram h1 (SList _)).
Qed.

(* ---------------------------------------------------------------- add_value *)
Lemma py_get_first {A} (l : list A) : l <> [] -> exists x, py_get l 0 = Ok x.
Proof. destruct l as [|x l]; [congruence|]. intros _. exists x. reflexivity. Qed.
Lemma py_get_last {A} (l : list A) : l <> [] -> exists x, py_get l (-1) = Ok x.
Proof.
  intros H. destruct (nonempty_snoc l H) as [pre [x ->]]. exists x.
  unfold py_get, norm_index. rewrite app_length. cbn [length].
  cbn [Z.leb Z.compare andb Z.ltb]. 
  destruct (- Z.of_nat (length pre + 1) <=? -1)%Z eqn:E; [|apply Z.leb_gt in E; lia]. cbn [bind].
  replace (Z.to_nat (Z.of_nat (length pre + 1) + -1)) with (length pre) by lia.
  unfold nth_res. rewrite nth_error_app2 by lia. now rewrite Nat.sub_diag.
Qed.
Lemma zltb_nat a b : (Z.of_nat a <? Z.of_nat b)%Z = Nat.ltb a b.
Proof. destruct (Nat.ltb a b) eqn:E; [apply Nat.ltb_lt in E; apply Z.ltb_lt; lia|].
  apply Nat.ltb_ge in E. apply Z.ltb_ge. lia. Qed.
Lemma add_at_z_nat j w row : add_at_z (Z.of_nat j) w row = add_at j w row.
Proof.
  unfold add_at_z, add_at. destruct (Nat.ltb j (length row)) eqn:E.
  - apply Nat.ltb_lt in E. now rewrite norm_index_nat.
  - apply Nat.ltb_ge in E. now rewrite norm_index_nat_out.
Qed.
Lemma upd_last_ext {A} (f g : A -> result A) : (forall x, f x = g x) -> forall l, upd_last f l = upd_last g l.
Proof.
  intros H. induction l as [|x [|y t] IH]; [reflexivity| cbn; now rewrite H|].
  change (upd_last f (x :: y :: t)) with (bind (upd_last f (y :: t)) (fun r => Ok (x :: r))).
  change (upd_last g (x :: y :: t)) with (bind (upd_last g (y :: t)) (fun r => Ok (x :: r))). now rewrite IH.
Qed.
Lemma iadd_nat a k w : 1 <= k -> np_iadd_last2 a (Z.of_nat k - 1) (PScalar w) = upd_last_row a (add_at (k - 1) w).
Proof.
  intros H. replace (Z.of_nat k - 1)%Z with (Z.of_nat (k - 1)) by lia. cbn [np_iadd_last2].
  destruct a as [v|rows]; [reflexivity|]. cbn [upd_last_row]. f_equal. apply upd_last_ext. intros. apply add_at_z_nat.
Qed.

Lemma fill_tail h x w (wa : pyarg) :
  (forall a k, 1 <= k -> np_iadd_last2 a (Z.of_nat k - 1) wa = upd_last_row a (add_at (k - 1) w)) ->
  (do v_bin_index <- np_digitize (Some x) (edges h);
   do h1 <- (if (v_bin_index =? 0)%Z || (Z.of_nat (nbins h) <? v_bin_index)%Z then Ok h
             else do h1 <- (do a <- np_iadd_last2 (hH h) (v_bin_index - 1) wa;
                            do b <- np_iadd_last2 (hRAW (set_hH h a)) (v_bin_index - 1) wa;
                            Ok (set_hRAW (set_hH h a) b)); Ok h1);
   Ok h1) = fill_one h x w.
Proof.
  intros HW. unfold fill_one, np_digitize. destruct (digitize x (edges h)) as [k|e]; cbn [bind]; [|reflexivity].
  rewrite zeqb_nat0, zltb_nat.
  destruct (Nat.eqb k 0) eqn:E0; cbn [orb]; [reflexivity|]. apply Nat.eqb_neq in E0.
  destruct (Nat.ltb (nbins h) k); [reflexivity|].
  rewrite bind_ret. rewrite HW by lia.
  destruct (upd_last_row (hH h) (add_at (k - 1) w)); hsimp; [|reflexivity].
  rewrite HW by lia.
  destruct (upd_last_row (hRAW h) (add_at (k - 1) w)); hsimp; reflexivity.
Qed.

Lemma warn_ok (h : hist) (b1 b2 : bool) (z : Z) :
  (do c <- andM (orM (Ok b1) (Ok b2)) (Ok (z =? 0)%Z); if c then Ok h else Ok h) = Ok h.
Proof. destruct b1, b2, (z =? 0)%Z; reflexivity. Qed.

Lemma gen_scalar_none rec h c : edges h <> [] ->
  gen_add_value_body rec h (PScalar c) PNone = fill_elem h c None.
Proof.
  intros HE. unfold gen_add_value_body. cbn [is_none negb bind].
  destruct c as [x|]; [|reflexivity]. cbn [c_nan fill_elem].
  destruct (py_get_first _ HE) as [e0 E0]. destruct (py_get_last _ HE) as [e1 E1]. rewrite E0, E1.
  cbn [bind c_ltb]. rewrite warn_ok. cbn [bind]. rewrite bind_ret.
  apply fill_tail. intros. now apply iadd_nat.
Qed.

Lemma gen_scalar_scalar rec h c w : edges h <> [] ->
  gen_add_value_body rec h (PScalar c) (PScalar w) = fill_elem h c (Some w).
Proof.
  intros HE. unfold gen_add_value_body. cbn [is_none is_scalar negb bind fill_elem].
  destruct (c_nan w); [reflexivity|]. cbn [bind].
  destruct c as [x|]; [|reflexivity]. cbn [c_nan].
  destruct (py_get_first _ HE) as [e0 E0]. destruct (py_get_last _ HE) as [e1 E1]. rewrite E0, E1.
  cbn [bind c_ltb]. rewrite warn_ok. cbn [bind]. rewrite bind_ret.
  apply fill_tail. intros. now apply iadd_nat.
Qed.

Lemma gen_scalar_list rec h c wl : edges h <> [] ->
  gen_add_value_body rec h (PScalar c) (PList wl) =
  if negb (Nat.eqb (length wl) 1) then Err ValueError
  else match c with
       | None => Err ValueError
       | Some x => do k <- digitize x (edges h);
                   if (Nat.eqb k 0) || (Nat.ltb (nbins h) k) then Ok h else Err ValueError
       end.
Proof.
  intros HE. unfold gen_add_value_body. cbn [is_none is_scalar negb bind py_len py_atleast1d_len py_isnan_any].
  change 1%Z with (Z.of_nat 1). unfold zlen. rewrite zeqb_nat.
  destruct (negb (Nat.eqb (length wl) 1)); [reflexivity|]. cbn [bind].
  destruct c as [x|]; [|reflexivity]. cbn [c_nan bind].
  destruct (py_get_first _ HE) as [e0 E0]. destruct (py_get_last _ HE) as [e1 E1]. rewrite E0, E1.
  cbn [bind c_ltb]. rewrite warn_ok. cbn [bind]. rewrite bind_ret.
  unfold np_digitize. destruct (digitize x (edges h)) as [k|e]; cbn [bind]; [|reflexivity].
  rewrite zeqb_nat0, zltb_nat. destruct (Nat.eqb k 0 || Nat.ltb (nbins h) k); reflexivity.
Qed.

Lemma fill_one_edges h x w h' : fill_one h x w = Ok h' -> edges h' = edges h.
Proof.
  unfold fill_one. intros H. inv_ok. destruct (Nat.eqb a 0 || Nat.ltb (nbins h) a); inv_ok; reflexivity.
Qed.
Lemma fill_elem_edges h v w h' : fill_elem h v w = Ok h' -> edges h' = edges h.
Proof.
  unfold fill_elem. destruct w as [wc|]; [destruct (c_nan wc); [discriminate|]|]; destruct v; try discriminate; apply fill_one_edges.
Qed.

Section Folds.
  Variable rec : hist -> pyarg -> pyarg -> result hist.
  Let body := gen_add_value_body rec.

  Lemma fold_none F : (forall h el, F h el = bind (body h (PScalar el) PNone) (fun h => Ok h)) ->
    forall l h, edges h <> [] -> fold_leftM F l h = fill_list h (map (fun c => (c, None)) l).
  Proof.
    intros HF. induction l as [|a l IH]; intros h HE; [reflexivity|].
    cbn [fold_leftM map fill_list]. rewrite HF, bind_ret. unfold body. rewrite gen_scalar_none by exact HE.
    destruct (fill_elem h a None) as [h'|e] eqn:E; cbn [bind]; [|reflexivity].
    apply IH. rewrite (fill_elem_edges _ _ _ _ E). exact HE.
  Qed.

  Lemma fold_pairs F : (forall h el w, F h (el, w) = bind (body h (PScalar el) (PScalar w)) (fun h => Ok h)) ->
    forall l h, edges h <> [] -> fold_leftM F l h = fill_list h (map (fun p => (fst p, Some (snd p))) l).
  Proof.
    intros HF. induction l as [|[a w] l IH]; intros h HE; [reflexivity|].
    cbn [fold_leftM map fill_list fst snd]. rewrite HF, bind_ret. unfold body. rewrite gen_scalar_scalar by exact HE.
    destruct (fill_elem h a (Some w)) as [h'|e] eqn:E; cbn [bind]; [|reflexivity].
    apply IH. rewrite (fill_elem_edges _ _ _ _ E). exact HE.
  Qed.
End Folds.

Theorem source_add_value h v w : edges h <> [] ->
  add_value h v w = gen_add_value h (of_vals v) (of_wts w).
Proof.
  intros HE. unfold gen_add_value. destruct w as [|wc|wl], v as [c|l]; cbn [of_vals of_wts add_value].
  - now rewrite gen_scalar_none.
  - unfold gen_add_value_body at 1. cbn [is_none negb bind].
    destruct (existsb c_nan l); [reflexivity|]. rewrite !bind_ret.
    symmetry. apply (fold_none (gen_add_value_body (fun _ _ _ => Err Unmodelled))); [|exact HE]. intros. reflexivity.
  - now rewrite gen_scalar_scalar.
  - reflexivity.
  - now rewrite gen_scalar_list.
  - unfold gen_add_value_body at 1. cbn [is_none negb bind py_len py_atleast1d_len py_isnan_any py_iter].
    unfold zlen. rewrite zeqb_nat.
    destruct (negb (Nat.eqb (length wl) (length l))); [reflexivity|]. cbn [bind].
    destruct (existsb c_nan l); [reflexivity|]. cbn [bind]. rewrite !bind_ret.
    symmetry. apply (fold_pairs (gen_add_value_body (fun _ _ _ => Err Unmodelled))); [|exact HE]. intros. reflexivity.
Qed.

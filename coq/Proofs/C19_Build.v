(* C19: rank boundaries, the stored minima/maxima in closed form, and the theorems about construct/classify.
   The rank formula gen_rank and the entries gen_min_entry/gen_max_entry are the ones regenerated from the source. *)
From Coq Require Import List ZArith QArith Qround Qfield Bool Sorted Permutation Lia Lqa.
From SX Require Import Lib.Py Lib.PyLemmas Gen.GenCentrality Model.Centrality Proofs.C19_Sort Proofs.C19_Lookup Proofs.C19_Edges.
Import ListNotations.

(* ---- rank boundaries ---------------------------------------------------------------------------------- *)
Definition rank_spec (N : Z) (e : Q) : Z := Qfloor (inject_Z N * e / 100)%Q.

Lemma gen_rank_floor N e : (0 <= N)%Z -> (0 <= e)%Q -> gen_rank N e = rank_spec N e.
Proof.
  intros HN He. unfold gen_rank, rank_spec.
  (* any algebraically equal way of writing N*e/100 in the source is accepted here *)
  transitivity (Qtrunc (inject_Z N * e / 100)%Q); [apply Qtrunc_comp; first [reflexivity | field]|].
  unfold Qtrunc.
  assert (H0 : (0 <= inject_Z N)%Q) by (change 0%Q with (inject_Z 0); rewrite <- Zle_Qle; exact HN).
  assert (H : (0 <= inject_Z N * e / 100)%Q).
  { apply Qle_shift_div_l; [reflexivity|]. rewrite Qmult_0_l. apply Qmult_le_0_compat; assumption. }
  apply Qle_bool_iff in H. rewrite H. reflexivity.
Qed.

Lemma rank_spec_nonneg N e : (0 <= N)%Z -> (0 <= e)%Q -> (0 <= rank_spec N e)%Z.
Proof.
  intros HN He. unfold rank_spec.
  assert (H0 : (0 <= inject_Z N)%Q) by (change 0%Q with (inject_Z 0); rewrite <- Zle_Qle; exact HN).
  transitivity (Qfloor (inject_Z 0)); [rewrite Qfloor_Z; reflexivity | apply Qfloor_resp_le].
  apply Qle_shift_div_l; [reflexivity|]. change (inject_Z 0) with 0%Q. rewrite Qmult_0_l.
  apply Qmult_le_0_compat; assumption.
Qed.

Lemma rank_spec_mono N e e' : (0 <= N)%Z -> (e <= e')%Q -> (rank_spec N e <= rank_spec N e')%Z.
Proof.
  intros HN H. unfold rank_spec. apply Qfloor_resp_le.
  assert (H0 : (0 <= inject_Z N)%Q) by (change 0%Q with (inject_Z 0); rewrite <- Zle_Qle; exact HN).
  apply Qmult_le_compat_r; [|discriminate].
  rewrite !(Qmult_comm (inject_Z N)). apply Qmult_le_compat_r; assumption.
Qed.

Lemma rank_spec_le N e : (0 <= N)%Z -> (e <= 100)%Q -> (rank_spec N e <= N)%Z.
Proof.
  intros HN H. rewrite <- (Qfloor_Z N) at 2. unfold rank_spec. apply Qfloor_resp_le.
  assert (H0 : (0 <= inject_Z N)%Q) by (change 0%Q with (inject_Z 0); rewrite <- Zle_Qle; exact HN).
  apply Qle_shift_div_r; [reflexivity|].
  rewrite !(Qmult_comm (inject_Z N)). apply Qmult_le_compat_r; assumption.
Qed.

Lemma rank_spec_lt N e : (0 < N)%Z -> (e < 100)%Q -> (rank_spec N e < N)%Z.
Proof.
  intros HN H. unfold rank_spec. rewrite Zlt_Qlt.
  eapply Qle_lt_trans; [apply Qfloor_le|].
  assert (H0 : (0 < inject_Z N)%Q) by (change 0%Q with (inject_Z 0); rewrite <- Zlt_Qlt; exact HN).
  apply Qlt_shift_div_r; [reflexivity|].
  rewrite !(Qmult_comm (inject_Z N)). apply Qmult_lt_compat_r; assumption.
Qed.

(* ---- generic facts ------------------------------------------------------------------------------------- *)
Lemma ssorted_nth {A} (R : A -> A -> Prop) l : StronglySorted R l -> forall i j a b, (i < j)%nat ->
  nth_error l i = Some a -> nth_error l j = Some b -> R a b.
Proof.
  induction 1 as [|y t Ht IH Hall]; intros i j a b Hij Ha Hb; [destruct i; discriminate|].
  destruct i, j; cbn in Ha, Hb; try lia.
  - injection Ha as <-. rewrite Forall_forall in Hall. apply Hall. eapply nth_error_In, Hb.
  - eapply IH; [|exact Ha|exact Hb]. lia.
Qed.

Section Build.
  Variable T : Type.
  Variable leb : T -> T -> bool.
  Variable t0 : T.
  Hypothesis leb_total : forall a b, leb a b = true \/ leb b a = true.
  Hypothesis leb_trans : forall a b c, leb a b = true -> leb b c = true -> leb a c = true.

  Notation ge_ext := (ge_ext T leb).
  Notation ext_ge := (ext_ge T leb).
  Notation mins_sorted := (mins_sorted T leb).
  Notation desc := (desc T leb).
  Notation firstge := (firstge T leb).

  Fixpoint prevs (r0 : Z) (rs : list Z) : list Z :=
    match rs with [] => [] | r :: rs' => r0 :: prevs r rs' end.
  Fixpoint chain (N : Z) (r0 : Z) (rs : list Z) : Prop :=
    match rs with [] => True | r :: rs' => (0 <= r0 < N)%Z /\ (r0 <= r <= N)%Z /\ chain N r rs' end.

    (* strictly increasing edges within [0,100]: the rank chain the loop walks along *)
    Lemma edges_chain N : forall es e0, (0 < N)%Z -> StronglySorted Qlt (e0 :: es) ->
      Forall (fun e => 0 <= e <= 100)%Q (e0 :: es) -> chain N (gen_rank N e0) (map (gen_rank N) es).
    Proof.
      induction es as [|e1 es IH]; intros e0 HN0 Hs Hr; [exact I|].
      apply StronglySorted_inv in Hs. destruct Hs as [Hs' Hall].
      pose proof (Forall_inv Hr) as [L0 U0]. pose proof (Forall_inv_tail Hr) as Hr'.
      pose proof (Forall_inv Hr') as [L1 U1].
      assert (Lt : (e0 < e1)%Q) by (apply (Forall_inv Hall)).
      cbn [map chain]. rewrite !gen_rank_floor by (try lia; assumption).
      split; [split; [apply rank_spec_nonneg; [lia | exact L0] | apply rank_spec_lt; [exact HN0 | lra]]|].
      split; [split; [apply rank_spec_mono; [lia | lra] | apply rank_spec_le; [lia | exact U1]]|].
      rewrite <- gen_rank_floor by (try lia; assumption). apply IH; assumption.
    Qed.


  (* ---- the loop over the edges, for an arbitrary descending record ------------------------------------ *)
  Section Record.
    Variable record : list T.
    Variable N : Z.
    Hypothesis HN : N = Z.of_nat (length record).
    Hypothesis Hdesc : desc record.

    Definition getr (r : Z) : T := nth (Z.to_nat r) record t0.
    Definition minof (R : Z) : ext T := if (0 <? R)%Z then Val (getr (R - 1)) else Inf.

    Lemma getr_nth r : (0 <= r < N)%Z -> nth_error record (Z.to_nat r) = Some (getr r).
    Proof. intros H. unfold getr. apply nth_error_nth'. lia. Qed.

    Lemma bounds_closed : forall es r0, chain N r0 (map (gen_rank N) es) ->
      bounds T N record r0 es =
      Ok (map (fun e => minof (gen_rank N e)) es, map getr (prevs r0 (map (gen_rank N) es))).
    Proof.
      induction es as [|e es IH]; intros r0 Hc; [reflexivity|].
      cbn [map chain] in Hc. destruct Hc as (H0 & H1 & Hc).
      cbn [bounds map prevs]. unfold gen_max_entry, gen_min_entry.
      rewrite (pyget_ok record r0 t0) by lia. cbn [rbind].
      unfold minof at 1.
      destruct (0 <? gen_rank N e)%Z eqn:E.
      - apply Z.ltb_lt in E. rewrite (pyget_ok record _ t0) by lia. cbn [rmap rbind].
        rewrite (IH _ Hc). reflexivity.
      - cbn [rbind]. rewrite (IH _ Hc). reflexivity.
    Qed.

    Lemma minof_antitone R R' : (R <= R' <= N)%Z -> ext_ge (minof R) (minof R').
    Proof.
      intros H. unfold minof.
      destruct (0 <? R)%Z eqn:E; [|exact I].
      apply Z.ltb_lt in E. assert (E' : (0 <? R')%Z = true) by (apply Z.ltb_lt; lia). rewrite E'.
      cbn. eapply (desc_nth T leb leb_total record Hdesc (Z.to_nat (R - 1)) (Z.to_nat (R' - 1)));
        [lia | apply getr_nth; lia | apply getr_nth; lia].
    Qed.

    Lemma mins_of_edges_sorted : forall es, (0 <= N)%Z -> StronglySorted Qlt es ->
      Forall (fun e => 0 <= e <= 100)%Q es -> mins_sorted (map (fun e => minof (gen_rank N e)) es).
    Proof.
      induction es as [|e es IH]; intros HN0 Hs Hr; [constructor|].
      apply StronglySorted_inv in Hs. destruct Hs as [Hs' Hall].
      pose proof (Forall_inv Hr) as [L0 U0]. pose proof (Forall_inv_tail Hr) as Hr'.
      cbn [map]. constructor; [apply IH; assumption|].
      rewrite Forall_forall in *. intros m Hm. apply in_map_iff in Hm. destruct Hm as (e' & <- & He').
      destruct (Hr' e' He') as [L1 U1]. specialize (Hall e' He').
      apply minof_antitone. rewrite !gen_rank_floor by (try lia; assumption).
      split; [apply rank_spec_mono; [lia | lra] | apply rank_spec_le; [lia | exact U1]].
    Qed.
  End Record.

  (* ---- what a successful construction stores --------------------------------------------------------- *)
  Definition rank_of (sample : list T) (e : Q) : Z := gen_rank (Z.of_nat (length sample)) e.

  Lemma construct_inv sample edges st : construct T leb t0 sample edges = Ok st ->
    let N := Z.of_nat (length sample) in
    let record := sort_desc T leb sample in
    (4 <= length sample)%nat /\ (forall m, In m sample -> leb t0 m = true) /\
    Forall (fun e => 0 <= e <= 100)%Q (clean edges) /\
    exists e0 es, clean edges = e0 :: es /\ bins st = e0 :: es /\
      dmin st = map (fun e => minof record (gen_rank N e)) es /\
      dmax st = map (getr record) (prevs (gen_rank N e0) (map (gen_rank N) es)).
  Proof.
    unfold construct. intros H.
    destruct (existsb out_of_range (sorted_edges edges)) eqn:Erange; [discriminate|].
    destruct (Z.of_nat (length sample) <? gen_min_events)%Z eqn:Esize; [discriminate|].
    destruct (existsb (fun m => negb (leb t0 m)) sample) eqn:Eneg; [discriminate|].
    apply Z.ltb_ge in Esize. unfold gen_min_events in Esize.
    assert (Hr : Forall (fun e => 0 <= e <= 100)%Q (clean edges)).
    { apply in_range_of_check in Erange. rewrite Forall_forall in *. intros e He.
      apply Erange. unfold clean in He. apply dedup_In in He. apply He. }
    fold (clean edges) in H. pose proof (clean_strict edges) as Hs.
    destruct (clean edges) as [|e0 es] eqn:Ec; [discriminate|].
    cbn zeta. split; [lia|]. split.
    { intros m Hm. destruct (leb t0 m) eqn:E; [reflexivity|]. exfalso.
      assert (X : existsb (fun m => negb (leb t0 m)) sample = true)
        by (apply existsb_exists; exists m; split; [exact Hm | rewrite E; reflexivity]). congruence. }
    split; [exact Hr|]. exists e0, es. split; [reflexivity|].
    rewrite (bounds_closed (sort_desc T leb sample) (Z.of_nat (length sample))) in H.
    - cbn [rbind fst snd] in H. injection H as <-. cbn. repeat split; reflexivity.
    - rewrite sort_desc_length by assumption. reflexivity.
    - apply edges_chain; [lia | exact Hs | exact Hr].
  Qed.

  Lemma construct_mins_sorted sample edges st : construct T leb t0 sample edges = Ok st ->
    mins_sorted (dmin st) /\ length (dmin st) = (length (bins st) - 1)%nat /\ length (dmax st) = (length (bins st) - 1)%nat.
  Proof.
    intros H. destruct (construct_inv _ _ _ H) as (H4 & Hpos & Hr & e0 & es & Ec & Hb & Hmin & Hmax).
    pose proof (clean_strict edges) as Hs. rewrite Ec in Hs, Hr.
    rewrite Hb, Hmin, Hmax. split; [|split].
    - apply (mins_of_edges_sorted (sort_desc T leb sample) (Z.of_nat (length sample))).
      + rewrite sort_desc_length by assumption. reflexivity.
      + apply sort_desc_sorted; assumption.
      + lia.
      + inversion Hs; assumption.
      + inversion Hr; assumption.
    - rewrite map_length. cbn. lia.
    - rewrite map_length. clear. generalize (gen_rank (Z.of_nat (length sample)) e0).
      induction es as [|e es IH]; intros r; [reflexivity|]. cbn [map prevs length]. rewrite IH. cbn. lia.
  Qed.

  (* ---- totality ---------------------------------------------------------------------------------------- *)
  Theorem classify_total sample edges st : construct T leb t0 sample edges = Ok st ->
    (2 <= length (bins st))%nat -> forall x,
    exists c, classify T leb st x = Ok (Z.of_nat c) /\ (c < length (bins st) - 1)%nat /\ c = firstge x (dmin st).
  Proof.
    intros H H2 x. destruct (construct_mins_sorted _ _ _ H) as (Hs & Hl & _).
    assert (Hne : dmin st <> []) by (destruct (dmin st); [cbn in Hl; lia | discriminate]).
    exists (firstge x (dmin st)). unfold classify.
    rewrite (lookup_spec T leb leb_trans _ x Hne Hs). split; [reflexivity|]. split; [|reflexivity].
    rewrite <- Hl. apply firstge_lt, Hne.
  Qed.

  (* ---- monotonicity ---------------------------------------------------------------------------------- *)
  Theorem classify_antitone sample edges st : construct T leb t0 sample edges = Ok st ->
    (2 <= length (bins st))%nat -> forall x y cx cy, leb x y = true ->
    classify T leb st x = Ok cx -> classify T leb st y = Ok cy -> (cy <= cx)%Z.
  Proof.
    intros H H2 x y cx cy Hxy Hx Hy.
    destruct (classify_total _ _ _ H H2 x) as (c1 & E1 & _ & F1).
    destruct (classify_total _ _ _ H H2 y) as (c2 & E2 & _ & F2).
    rewrite E1 in Hx. rewrite E2 in Hy. injection Hx as <-. injection Hy as <-.
    subst c1 c2. apply Nat2Z.inj_le. apply firstge_antitone; assumption.
  Qed.

  (* ---- consistency with the sample ------------------------------------------------------------------- *)
  Theorem classify_consistent sample edges st : construct T leb t0 sample edges = Ok st ->
    forall i ea eb r x,
    nth_error (bins st) i = Some ea -> nth_error (bins st) (S i) = Some eb ->
    (rank_of sample ea <= Z.of_nat r < rank_of sample eb)%Z ->
    nth_error (sort_desc T leb sample) r = Some x ->
    exists c, classify T leb st x = Ok (Z.of_nat c) /\ (c <= i)%nat /\
      forall j, (c <= j < i)%nat -> exists b, nth_error (dmin st) j = Some (Val b) /\ leb b x = true /\ leb x b = true.
  Proof.
    intros H i ea eb r x Ha Hb Hr Hx.
    destruct (construct_inv _ _ _ H) as (H4 & Hpos & Hrange & e0 & es & Ec & Hbins & Hmin & Hmax).
    destruct (construct_mins_sorted _ _ _ H) as (Hs & Hl & _).
    pose proof (clean_strict edges) as Hstrict. rewrite Ec in Hstrict, Hrange.
    set (record := sort_desc T leb sample) in *. set (N := Z.of_nat (length sample)) in *.
    assert (HNr : N = Z.of_nat (length record)) by (subst record N; rewrite sort_desc_length by assumption; reflexivity).
    assert (Hdesc : desc record) by (apply sort_desc_sorted; assumption).
    assert (Hrn : (r < length record)%nat) by (apply nth_error_Some; congruence).
    unfold rank_of in Hr. fold N in Hr.
    assert (H2 : (2 <= length (bins st))%nat).
    { assert (S i < length (bins st))%nat by (apply nth_error_Some; congruence). lia. }
    destruct (classify_total _ _ _ H H2 x) as (c & Ecl & Hc & Fc).
    exists c. split; [exact Ecl|].
    (* the edges of class i and what is stored for it *)
    rewrite Hbins in Ha, Hb. cbn [nth_error] in Hb.
    assert (Hrb : (0 <= eb <= 100)%Q).
    { rewrite Forall_forall in Hrange. apply Hrange. right. eapply nth_error_In, Hb. }
    assert (Hra : (0 <= ea <= 100)%Q).
    { rewrite Forall_forall in Hrange. apply Hrange. eapply nth_error_In, Ha. }
    assert (HRb : (gen_rank N eb <= N)%Z).
    { rewrite gen_rank_floor by (try lia; apply Hrb). apply rank_spec_le; [lia | apply Hrb]. }
    assert (Hmi : nth_error (dmin st) i = Some (minof record (gen_rank N eb))).
    { rewrite Hmin. exact (map_nth_error (fun e => minof record (gen_rank N e)) _ _ Hb). }
    assert (Hxr : nth_error record (Z.to_nat (Z.of_nat r)) = Some x) by (rewrite Nat2Z.id; exact Hx).
    assert (Gi : ge_ext x (minof record (gen_rank N eb)) = true).
    { unfold minof. assert (E : (0 <? gen_rank N eb)%Z = true) by (apply Z.ltb_lt; lia). rewrite E. cbn.
      eapply (desc_nth T leb leb_total record Hdesc (Z.to_nat (Z.of_nat r)) (Z.to_nat (gen_rank N eb - 1)));
        [lia | exact Hxr | apply (getr_nth record N HNr); lia]. }
    assert (Hci : (c <= i)%nat) by (subst c; eapply firstge_le; [exact Hmi | exact Gi]).
    split; [exact Hci|].
    intros j [Hcj Hji].
    (* x reaches the minimum of class c, hence of every class c..j *)
    assert (Hil : (i < length (dmin st))%nat) by (apply nth_error_Some; congruence).
    destruct (firstge_hit T leb x (dmin st)) as (mc & Hmc & Gc); [fold (firstge x (dmin st)); lia|].
    fold (firstge x (dmin st)) in Hmc. rewrite <- Fc in Hmc.
    destruct (nth_error es j) as [ej|] eqn:Eej.
    2:{ apply nth_error_None in Eej. rewrite Hmin, map_length in Hil. lia. }
    assert (Hmj : nth_error (dmin st) j = Some (minof record (gen_rank N ej))) by (rewrite Hmin; exact (map_nth_error (fun e => minof record (gen_rank N e)) _ _ Eej)).
    assert (Gj : ge_ext x (minof record (gen_rank N ej)) = true).
    { destruct (sorted_all_ge T leb _ Hs c j _ _ Hcj Hmc Hmj) as [->|G]; [exact Gc|].
      eapply ge_ext_down; [exact leb_trans | exact G | exact Gc]. }
    (* the upper edge of class j is at most the lower edge of class i *)
    assert (Hej_le : (ej <= ea)%Q).
    { destruct (Nat.eq_dec (S j) i) as [<-|Hne].
      - cbn [nth_error] in Ha. rewrite Eej in Ha. injection Ha as <-. apply Qle_refl.
      - apply Qlt_le_weak. eapply (ssorted_nth Qlt _ Hstrict (S j) i); [lia | cbn; exact Eej | exact Ha]. }
    assert (Hrj : (0 <= ej <= 100)%Q).
    { rewrite Forall_forall in Hrange. apply Hrange. right. eapply nth_error_In, Eej. }
    assert (HRj : (gen_rank N ej <= gen_rank N ea)%Z).
    { rewrite !gen_rank_floor by (try lia; try apply Hrj; apply Hra). apply rank_spec_mono; [lia | exact Hej_le]. }
    unfold minof in Gj, Hmj. destruct (0 <? gen_rank N ej)%Z eqn:E0; [|discriminate].
    apply Z.ltb_lt in E0. exists (getr record (gen_rank N ej - 1)). split; [exact Hmj|]. split; [exact Gj|].
    eapply (desc_nth T leb leb_total record Hdesc (Z.to_nat (gen_rank N ej - 1)) (Z.to_nat (Z.of_nat r)));
      [lia | apply (getr_nth record N HNr); lia | exact Hxr].
  Qed.

  (* ---- stored minimum / maximum of a class with a non-empty rank interval ---------------------------- *)
  Lemma prevs_nth : forall rs r0 i, nth_error (prevs r0 rs) i =
    match i with O => match rs with [] => None | _ => Some r0 end | S i' => match nth_error rs i' with
      | Some r => match nth_error rs i with Some _ => Some r | None => None end | None => None end end.
  Proof.
    induction rs as [|r rs IH]; intros r0 i; [destruct i as [|[|i]]; reflexivity|].
    destruct i as [|i]; [reflexivity|]. cbn [prevs nth_error]. rewrite IH.
    destruct i as [|i]; cbn [nth_error].
    - destruct rs; reflexivity.
    - reflexivity.
  Qed.

  Theorem minmax_extreme sample edges st : construct T leb t0 sample edges = Ok st ->
    forall i ea eb,
    nth_error (bins st) i = Some ea -> nth_error (bins st) (S i) = Some eb ->
    (rank_of sample ea < rank_of sample eb)%Z ->
    exists mn mx,
      nth_error (dmin st) i = Some (Val mn) /\ nth_error (dmax st) i = Some mx /\
      nth_error (sort_desc T leb sample) (Z.to_nat (rank_of sample eb - 1)) = Some mn /\
      nth_error (sort_desc T leb sample) (Z.to_nat (rank_of sample ea)) = Some mx /\
      (0 <= rank_of sample ea)%Z /\
      forall r x, (rank_of sample ea <= Z.of_nat r < rank_of sample eb)%Z ->
        nth_error (sort_desc T leb sample) r = Some x -> leb mn x = true /\ leb x mx = true.
  Proof.
    intros H i ea eb Ha Hb Hlt.
    destruct (construct_inv _ _ _ H) as (H4 & Hpos & Hrange & e0 & es & Ec & Hbins & Hmin & Hmax).
    pose proof (clean_strict edges) as Hstrict. rewrite Ec in Hstrict, Hrange.
    set (record := sort_desc T leb sample) in *. set (N := Z.of_nat (length sample)) in *.
    assert (HNr : N = Z.of_nat (length record)) by (subst record N; rewrite sort_desc_length by assumption; reflexivity).
    assert (Hdesc : desc record) by (apply sort_desc_sorted; assumption).
    unfold rank_of in *. fold N in Hlt |- *.
    rewrite Hbins in Ha, Hb. cbn [nth_error] in Hb.
    assert (Hrb : (0 <= eb <= 100)%Q).
    { rewrite Forall_forall in Hrange. apply Hrange. right. eapply nth_error_In, Hb. }
    assert (Hra : (0 <= ea <= 100)%Q).
    { rewrite Forall_forall in Hrange. apply Hrange. eapply nth_error_In, Ha. }
    assert (HRb : (gen_rank N eb <= N)%Z).
    { rewrite gen_rank_floor by (try lia; apply Hrb). apply rank_spec_le; [lia | apply Hrb]. }
    assert (HRa : (0 <= gen_rank N ea)%Z).
    { rewrite gen_rank_floor by (try lia; apply Hra). apply rank_spec_nonneg; [lia | apply Hra]. }
    exists (getr record (gen_rank N eb - 1)), (getr record (gen_rank N ea)).
    split.
    { rewrite Hmin. rewrite (map_nth_error (fun e => minof record (gen_rank N e)) _ _ Hb). unfold minof.
      assert (E : (0 <? gen_rank N eb)%Z = true) by (apply Z.ltb_lt; lia). rewrite E. reflexivity. }
    split.
    { rewrite Hmax. apply map_nth_error. rewrite prevs_nth.
      destruct i as [|i].
      - cbn in Ha. injection Ha as <-. destruct es; [discriminate | reflexivity].
      - cbn [nth_error] in Ha. rewrite (map_nth_error _ _ _ Ha), (map_nth_error _ _ _ Hb). reflexivity. }
    split; [apply (getr_nth record N HNr); lia|].
    split; [apply (getr_nth record N HNr); lia|].
    split; [exact HRa|].
    intros r x Hr Hx.
    assert (Hxr : nth_error record (Z.to_nat (Z.of_nat r)) = Some x) by (rewrite Nat2Z.id; exact Hx).
    split.
    - eapply (desc_nth T leb leb_total record Hdesc (Z.to_nat (Z.of_nat r)) (Z.to_nat (gen_rank N eb - 1)));
        [lia | exact Hxr | apply (getr_nth record N HNr); lia].
    - eapply (desc_nth T leb leb_total record Hdesc (Z.to_nat (gen_rank N ea)) (Z.to_nat (Z.of_nat r)));
        [lia | apply (getr_nth record N HNr); lia | exact Hxr].
  Qed.

  (* ---- cleaning ---------------------------------------------------------------------------------------- *)
  Theorem construct_clean sample edges :
    construct T leb t0 sample edges = construct T leb t0 sample (clean edges).
  Proof.
    unfold construct. rewrite range_check_clean.
    fold (clean edges). fold (clean (clean edges)). rewrite clean_idem. reflexivity.
  Qed.

  Theorem construct_bins sample edges st : construct T leb t0 sample edges = Ok st -> bins st = clean edges.
  Proof.
    intros H. destruct (construct_inv _ _ _ H) as (_ & _ & _ & e0 & es & Ec & Hb & _). congruence.
  Qed.

  (* ---- which inputs are accepted / rejected ---------------------------------------------------------- *)
  Theorem construct_accepts sample edges :
    (4 <= length sample)%nat -> (forall m, In m sample -> leb t0 m = true) ->
    Forall (fun e => 0 <= e <= 100)%Q edges -> edges <> [] ->
    exists st, construct T leb t0 sample edges = Ok st.
  Proof.
    intros H4 Hpos Hr Hne. unfold construct.
    assert (Hr' : Forall (fun e => 0 <= e <= 100)%Q (sorted_edges edges)).
    { rewrite Forall_forall in *. intros e He. apply Hr. eapply Permutation_in; [apply sorted_edges_perm | exact He]. }
    assert (E1 : existsb out_of_range (sorted_edges edges) = false).
    { destruct (existsb out_of_range (sorted_edges edges)) eqn:E; [|reflexivity]. exfalso.
      apply existsb_exists in E. destruct E as (e & He & Oe). rewrite Forall_forall in Hr'. destruct (Hr' e He) as [L U].
      unfold out_of_range in Oe. apply Qle_bool_iff in L, U. rewrite L, U in Oe. discriminate. }
    rewrite E1.
    assert (E2 : (Z.of_nat (length sample) <? gen_min_events)%Z = false) by (apply Z.ltb_ge; unfold gen_min_events; lia).
    rewrite E2.
    assert (E3 : existsb (fun m => negb (leb t0 m)) sample = false).
    { destruct (existsb (fun m => negb (leb t0 m)) sample) eqn:E; [|reflexivity]. exfalso.
      apply existsb_exists in E. destruct E as (m & Hm & Nm). rewrite (Hpos m Hm) in Nm. discriminate. }
    rewrite E3. fold (clean edges).
    assert (Hrc : Forall (fun e => 0 <= e <= 100)%Q (clean edges)).
    { rewrite Forall_forall in *. intros e He. apply Hr'. unfold clean in He. apply dedup_In in He. apply He. }
    pose proof (clean_strict edges) as Hs.
    destruct (clean edges) as [|e0 es] eqn:Ec.
    { exfalso. destruct edges as [|e edges']; [congruence|].
      assert (Hq : InQ e (clean (e :: edges'))) by (apply clean_same_elements; exists e; split; [left; reflexivity | reflexivity]).
      rewrite Ec in Hq. destruct Hq as (a & [] & _). }
    rewrite (bounds_closed (sort_desc T leb sample) (Z.of_nat (length sample))).
    - cbn [rbind]. eexists. reflexivity.
    - rewrite sort_desc_length by assumption. reflexivity.
    - apply edges_chain; [lia | exact Hs | exact Hrc].
  Qed.

  Theorem construct_rejects sample edges :
    ((length sample < 4)%nat \/ (exists m, In m sample /\ leb t0 m = false) \/
     (exists e, In e edges /\ ~ (0 <= e <= 100)%Q)) ->
    construct T leb t0 sample edges = Err ValueError.
  Proof.
    intros H. unfold construct.
    destruct (existsb out_of_range (sorted_edges edges)) eqn:E1; [reflexivity|].
    destruct (Z.of_nat (length sample) <? gen_min_events)%Z eqn:E2; [reflexivity|].
    destruct (existsb (fun m => negb (leb t0 m)) sample) eqn:E3; [reflexivity|].
    exfalso. destruct H as [H|[(m & Hm & Nm)|(e & He & Ne)]].
    - apply Z.ltb_ge in E2. unfold gen_min_events in E2. lia.
    - assert (X : existsb (fun m => negb (leb t0 m)) sample = true)
        by (apply existsb_exists; exists m; split; [exact Hm | rewrite Nm; reflexivity]). congruence.
    - apply in_range_of_check in E1. rewrite Forall_forall in E1. apply Ne, E1.
      eapply Permutation_in; [apply Permutation_sym, sorted_edges_perm | exact He].
  Qed.

  Theorem construct_no_edges sample :
    (4 <= length sample)%nat -> (forall m, In m sample -> leb t0 m = true) ->
    construct T leb t0 sample [] = Err IndexError.
  Proof.
    intros H4 Hpos. unfold construct. cbn [sorted_edges sorted_q existsb dedup].
    assert (E2 : (Z.of_nat (length sample) <? gen_min_events)%Z = false) by (apply Z.ltb_ge; unfold gen_min_events; lia).
    rewrite E2.
    assert (E3 : existsb (fun m => negb (leb t0 m)) sample = false).
    { destruct (existsb (fun m => negb (leb t0 m)) sample) eqn:E; [|reflexivity]. exfalso.
      apply existsb_exists in E. destruct E as (m & Hm & Nm). rewrite (Hpos m Hm) in Nm. discriminate. }
    rewrite E3. reflexivity.
  Qed.
End Build.

(* ---- the two order instances --------------------------------------------------------------------------- *)
Lemma Qle_bool_total a b : Qle_bool a b = true \/ Qle_bool b a = true.
Proof.
  destruct (Qlt_le_dec b a) as [L|L]; [right; apply Qle_bool_iff, Qlt_le_weak, L | left; apply Qle_bool_iff, L].
Qed.
Lemma Qle_bool_trans a b c : Qle_bool a b = true -> Qle_bool b c = true -> Qle_bool a c = true.
Proof. rewrite !Qle_bool_iff. apply Qle_trans. Qed.
Lemma Zleb_total a b : Z.leb a b = true \/ Z.leb b a = true.
Proof. rewrite !Z.leb_le. lia. Qed.
Lemma Zleb_trans a b c : Z.leb a b = true -> Z.leb b c = true -> Z.leb a c = true.
Proof. rewrite !Z.leb_le. lia. Qed.

(* C12 - ReactionPlaneFlow: a common rotation multiplies the result by rho; with positive particle weights the result
   is the weighted mean of exp(i n phi) (hence independent of the order of particles and events); one all-containing
   bin of differential_flow = integrated_flow. *)
From Coq Require Import List ZArith Ring Ring_theory Arith Lia Bool Permutation.
From SX Require Import Lib.KRing Lib.Cpx Model.FlowRP Proofs.C12_Skel.
Import ListNotations.

Section RPP.
  Variable K : Type.
  Variables (k0 k1 : K) (kadd kmul ksub : K -> K -> K) (kopp : K -> K) (kinv : K -> K) (kis0 : K -> bool).
  Hypothesis Kth : ring_theory k0 k1 kadd kmul ksub kopp (@eq K).
  Add Ring KringRP : Kth.
  Variable D : Type.
  Variable pwt : D -> K.
  Notation C := (cpx K).
  Notation part := (part K D).
  Notation Cmul := (cmul K kadd kmul ksub).
  Notation Cadd := (cadd K kadd).
  Notation C0 := (c0 K k0).
  Notation Rotp := (rotp K kadd kmul ksub D).
  Notation Eflow := (eflow K k0 kadd kmul D pwt).
  Notation Ewt := (ewt K k0 kadd D pwt).
  Notation Step := (rp_step K k0 kadd kmul kis0 D pwt).
  Notation RPint := (rp_integrated K k0 kadd kmul kinv kis0 D pwt).
  Notation RPmean := (rp_mean K k0 kadd kmul kinv D pwt).

  Ltac kr := cbv beta iota zeta delta [Cpx.cscale Cpx.csub Cpx.cadd Cpx.cmul Cpx.copp Cpx.conj Cpx.ofK Cpx.c0 Cpx.c1
                                       Cpx.re Cpx.im fst snd]; ring.

  Lemma cmul_c0 rho : Cmul rho C0 = C0.
  Proof. apply (cpx_ext K); kr. Qed.

  Lemma eflow_rot rho ev : Eflow (map (Rotp rho) ev) = Cmul rho (Eflow ev).
  Proof.
    unfold eflow, csum. induction ev as [|p ev IH]; cbn [map ksum rotp fst snd].
    - apply (cpx_ext K); kr.
    - rewrite IH. generalize (ksum C0 Cadd (map (fun p0 : part => cscale K kmul (pwt (snd p0)) (fst p0)) ev)).
      intros s. destruct p as [u d]. cbn [fst snd]. apply (cpx_ext K); kr.
  Qed.
  Lemma ewt_rot rho ev : Ewt (map (Rotp rho) ev) = Ewt ev.
  Proof. unfold ewt. rewrite map_map. reflexivity. Qed.

  Lemma fold_rot rho evs : forall a n,
    fold_left Step (map (map (Rotp rho)) evs) (Cmul rho a, n)
    = (Cmul rho (fst (fold_left Step evs (a, n))), snd (fold_left Step evs (a, n))).
  Proof.
    induction evs as [|ev evs IH]; intros a n; [reflexivity|].
    cbn [map fold_left]. unfold rp_step at 2 4 6. cbn [fst snd]. rewrite ewt_rot, eflow_rot.
    destruct (kis0 (kadd n (Ewt ev))).
    - replace C0 with (Cmul rho C0) at 1 by apply cmul_c0. apply IH.
    - replace (Cadd (Cmul rho a) (Cmul rho (Eflow ev))) with (Cmul rho (Cadd a (Eflow ev))) by (apply (cpx_ext K); kr).
      apply IH.
  Qed.

  (* a common rotation by rho = exp(i n alpha) of all particles: the result acquires exactly the factor rho *)
  Theorem rp_rotation rho evs :
    RPint (map (map (Rotp rho)) evs) = option_map (Cmul rho) (RPint evs).
  Proof.
    unfold rp_integrated. cbv zeta.
    assert (E : fold_left Step (map (map (Rotp rho)) evs) (C0, k0)
                = (Cmul rho (fst (fold_left Step evs (C0, k0))), snd (fold_left Step evs (C0, k0)))).
    { rewrite <- fold_rot, cmul_c0. reflexivity. }
    rewrite E. cbn [fst snd]. destruct (kis0 _); [reflexivity|]. cbn [option_map]. f_equal.
    generalize (fold_left Step evs (C0, k0)). intros [a n]. cbn [fst snd]. apply (cpx_ext K); kr.
  Qed.

  (* ---- the weighted mean, for positive weights ---- *)
  Variable pos : K -> Prop.
  Hypothesis pos_add : forall a b, pos a -> pos b -> pos (kadd a b).
  Hypothesis pos_nz : forall a, pos a -> kis0 a = false.
  Hypothesis is0_0 : kis0 k0 = true.
  Hypothesis wpos : forall d, pos (pwt d).

  Lemma ewt_cases ev : ev = [] \/ pos (Ewt ev).
  Proof.
    induction ev as [|p ev IH]; [left; reflexivity|]. right. unfold ewt. cbn [map ksum].
    destruct IH as [-> | H]; cbn [map ksum].
    - replace (kadd (pwt (snd p)) k0) with (pwt (snd p)) by ring. apply wpos.
    - apply pos_add; [apply wpos | exact H].
  Qed.

  Notation F evs := (csum K k0 kadd (map Eflow evs)).
  Notation W evs := (ksum k0 kadd (map Ewt evs)).

  Lemma fold_sum evs : forall a n, ((a = C0 /\ n = k0) \/ pos n) ->
    fold_left Step evs (a, n) = (Cadd a (F evs), kadd n (W evs))
    /\ ((Cadd a (F evs) = C0 /\ kadd n (W evs) = k0) \/ pos (kadd n (W evs))).
  Proof.
    induction evs as [|ev evs IH]; intros a n Hs.
    - cbn [fold_left map ksum csum]. unfold csum. cbn [ksum].
      replace (Cadd a C0) with a by (apply (cpx_ext K); kr). replace (kadd n k0) with n by ring. split; [reflexivity | exact Hs].
    - cbn [fold_left map]. unfold rp_step at 2. cbn [fst snd].
      assert (Hn : (kis0 (kadd n (Ewt ev)) = true /\ Eflow ev = C0 /\ a = C0 /\ kadd n (Ewt ev) = k0)
                   \/ (kis0 (kadd n (Ewt ev)) = false /\ pos (kadd n (Ewt ev)))).
      { destruct (ewt_cases ev) as [-> | Hp].
        - unfold ewt, eflow, csum. cbn [map ksum]. replace (kadd n k0) with n by ring.
          destruct Hs as [[-> ->] | Hp]; [left; auto | right; split; [apply pos_nz|]; exact Hp].
        - right. assert (Hq : pos (kadd n (Ewt ev))).
          { destruct Hs as [[_ ->] | Hn]; [replace (kadd k0 (Ewt ev)) with (Ewt ev) by ring; exact Hp | apply pos_add; assumption]. }
          split; [apply pos_nz|]; exact Hq. }
      destruct Hn as [[Hz [Hf [Ha Hk]]] | [Hz Hp]]; rewrite Hz.
      + destruct (IH C0 (kadd n (Ewt ev))) as [E1 E2]; [left; split; [reflexivity | exact Hk]|].
        rewrite E1. unfold csum in *. cbn [ksum]. rewrite Hf, Ha. split.
        * f_equal; [apply (cpx_ext K); kr | ring].
        * destruct E2 as [[E2a E2b] | E2]; [left; split | right].
          -- etransitivity; [|exact E2a]. apply (cpx_ext K); kr.
          -- etransitivity; [|exact E2b]. ring.
          -- replace (kadd n (kadd (Ewt ev) (ksum k0 kadd (map Ewt evs)))) with (kadd (kadd n (Ewt ev)) (W evs)) by ring. exact E2.
      + destruct (IH (Cadd a (Eflow ev)) (kadd n (Ewt ev))) as [E1 E2]; [right; exact Hp|].
        rewrite E1. unfold csum in *. cbn [ksum]. split.
        * f_equal; [apply (cpx_ext K); kr | ring].
        * destruct E2 as [[E2a E2b] | E2]; [left; split | right].
          -- etransitivity; [|exact E2a]. apply (cpx_ext K); kr.
          -- etransitivity; [|exact E2b]. ring.
          -- replace (kadd n (kadd (Ewt ev) (ksum k0 kadd (map Ewt evs)))) with (kadd (kadd n (Ewt ev)) (W evs)) by ring. exact E2.
  Qed.

  (* integrated_flow = sum w exp(i n phi) / sum w  (ZeroDivisionError when there is no weight) *)
  Theorem rp_is_mean evs :
    RPint evs = if kis0 (W evs) then None else Some (RPmean evs).
  Proof.
    unfold rp_integrated, rp_mean. cbv zeta.
    destruct (fold_sum evs C0 k0) as [E _]; [left; split; reflexivity|]. rewrite E. cbn [fst snd].
    replace (kadd k0 (W evs)) with (W evs) by ring.
    destruct (kis0 (W evs)); [reflexivity|]. f_equal. f_equal. apply (cpx_ext K); kr.
  Qed.

  Lemma eflow_perm ev ev' : Permutation ev ev' -> Eflow ev = Eflow ev'.
  Proof. intros H. unfold eflow. apply (csum_map_perm K k0 k1 kadd kmul ksub kopp Kth), H. Qed.
  Lemma ewt_perm ev ev' : Permutation ev ev' -> Ewt ev = Ewt ev'.
  Proof. intros H. unfold ewt. apply (ksum_map_perm K k0 k1 kadd kmul ksub kopp Kth), H. Qed.

  Lemma FW_reorder evs evs1 evs' : Forall2 (@Permutation part) evs evs1 -> Permutation evs1 evs' ->
    F evs = F evs' /\ W evs = W evs'.
  Proof.
    intros H1 H2. split.
    - transitivity (F evs1); [|apply (csum_map_perm K k0 k1 kadd kmul ksub kopp Kth), H2].
      f_equal. apply (map_forall2 (@Permutation part)); [exact H1 | apply eflow_perm].
    - transitivity (W evs1); [|apply (ksum_map_perm K k0 k1 kadd kmul ksub kopp Kth), H2].
      f_equal. apply (map_forall2 (@Permutation part)); [exact H1 | apply ewt_perm].
  Qed.

  Theorem rp_reorder evs evs1 evs' : Forall2 (@Permutation part) evs evs1 -> Permutation evs1 evs' ->
    RPint evs = RPint evs'.
  Proof.
    intros H1 H2. rewrite !rp_is_mean. unfold rp_mean. destruct (FW_reorder evs evs1 evs' H1 H2) as [-> ->]. reflexivity.
  Qed.

  (* differential flow over one bin that contains every particle = integrated flow *)
  Variable inbin : D -> bool.
  Notation RPdiff := (rp_differential_bin K k0 kadd kmul kinv kis0 D pwt inbin).
  Theorem rp_diff_all evs v : (forall d, inbin d = true) -> RPint evs = Some v -> RPdiff evs = v.
  Proof.
    intros H. rewrite rp_is_mean. unfold rp_differential_bin, rp_mean. cbv zeta.
    assert (E : map (binned K D inbin) evs = evs).
    { induction evs as [|ev evs IH]; cbn [map]; [reflexivity|]. rewrite IH. unfold binned.
      rewrite (filter_all (fun p : part => inbin (snd p))); [reflexivity | intros x; apply H]. }
    rewrite E. destruct (kis0 (W evs)); [discriminate|]. intros Hv. injection Hv as <-. reflexivity.
  Qed.

  (* the differential value itself is covariant and order independent for any weights *)
  Theorem rp_diff_rotation rho evs :
    RPdiff (map (map (Rotp rho)) evs) = Cmul rho (RPdiff evs).
  Proof.
    unfold rp_differential_bin. cbv zeta. rewrite !map_map.
    assert (E1 : map (fun x => Ewt (binned K D inbin (map (Rotp rho) x))) evs = map (fun x => Ewt (binned K D inbin x)) evs).
    { apply map_ext. intros ev. unfold binned.
      replace (filter (fun p : part => inbin (snd p)) (map (Rotp rho) ev)) with (map (Rotp rho) (filter (fun p : part => inbin (snd p)) ev)).
      - apply ewt_rot.
      - induction ev as [|p ev IH]; [reflexivity|]. cbn [map filter rotp snd]. destruct (inbin (snd p)); cbn [map]; rewrite IH; reflexivity. }
    rewrite E1. match goal with |- context [kis0 ?x] => destruct (kis0 x) end; [symmetry; apply cmul_c0|].
    assert (E2 : csum K k0 kadd (map (fun x => Eflow (binned K D inbin (map (Rotp rho) x))) evs)
                 = Cmul rho (csum K k0 kadd (map (fun x => Eflow (binned K D inbin x)) evs))).
    { unfold csum. induction evs as [|ev evs IH]; cbn [map ksum]; [apply (cpx_ext K); kr|].
      rewrite IH by (injection E1; auto). unfold binned at 1.
      replace (filter (fun p : part => inbin (snd p)) (map (Rotp rho) ev)) with (map (Rotp rho) (filter (fun p : part => inbin (snd p)) ev)).
      - rewrite eflow_rot. unfold binned. apply (cpx_ext K); kr.
      - clear. induction ev as [|p ev IH]; [reflexivity|]. cbn [map filter rotp snd]. destruct (inbin (snd p)); cbn [map]; rewrite IH; reflexivity. }
    rewrite E2. generalize (kinv (ksum k0 kadd (map (fun x => Ewt (binned K D inbin x)) evs))). intros x.
    generalize (csum K k0 kadd (map (fun x0 => Eflow (binned K D inbin x0)) evs)). intros s. apply (cpx_ext K); kr.
  Qed.
End RPP.

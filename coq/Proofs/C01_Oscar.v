(* C01 (Oscar family): loading the rendering of a well-formed document with no options yields
   exactly what the document states.  Induction over the events of the file. *)
From Coq Require Import List String ZArith QArith Bool Arith Lia.
From SX Require Import Lib.Strs Gen.GenParticleMap Model.Oscar Model.OscarDoc.
Import ListNotations.
Local Open Scope string_scope.

Section P.
  Variable tok_float : string -> option Q.
  Variable tok_int : string -> option Q.
  Variable pdg_valid : Q -> bool.

  Notation mkp := (mk_particle tok_float tok_int pdg_valid).
  Notation wf_row := (wf_row tok_float tok_int pdg_valid).
  Notation wf_event := (wf_event tok_float tok_int pdg_valid).
  Notation wf_events := (wf_events tok_float tok_int pdg_valid).
  Notation parse_rows := (parse_rows tok_float tok_int pdg_valid).
  Notation SCAN := (scan tok_int).
  Notation RL := (read_loop tok_float tok_int pdg_valid None).

  Lemma to_Z_zq z : to_Z (zq z) = z.
  Proof. reflexivity. Qed.

  (* ------------------------------------------------------------ header scan *)
  Lemma scan_rows fmt attrs rows rest :
    Forall (wf_row fmt attrs) rows -> SCAN (rows ++ rest)%list = SCAN rest.
  Proof.
    induction 1 as [|r rows Hr _ IH]; [reflexivity|].
    destruct Hr as (Hs & _). cbn [app scan]. rewrite Hs. exact IH.
  Qed.

  Lemma scan_events fmt attrs : forall evs i,
    wf_events fmt attrs i evs ->
    SCAN (render_events evs) = Ok (counts_from i evs, map e_foot evs).
  Proof.
    induction evs as [|e evs IH]; intros i H; [reflexivity|].
    destruct H as (He & Ht).
    destruct He as (Hhs & _ & (lt & ct & H2 & H4 & Hl & Hc) & Hrows & Hfs & _ & _).
    unfold render_events. cbn [flat_map]. unfold render_event at 1.
    cbn [app scan]. rewrite Hhs, H2, H4, Hl, Hc.
    rewrite <- app_assoc. rewrite (scan_rows fmt attrs) by exact Hrows.
    cbn [app scan]. rewrite Hfs.
    fold (render_events evs). rewrite (IH (S i) Ht).
    cbn [bind fst snd counts_from map]. rewrite !to_Z_zq. reflexivity.
  Qed.

  (* ------------------------------------------------------------ read loop *)
  Definition add_data (st : lstate) (ps : list particle) : lstate :=
    {| plist := plist st; data := (data st ++ ps)%list; counts := counts st; cut := cut st |}.

  Lemma rl_rows first fmt attrs : forall rows n rest st,
    Forall (wf_row fmt attrs) rows ->
    RL first fmt attrs (List.length rows + n) (rows ++ rest)%list st
    = RL first fmt attrs n rest (add_data st (parse_rows fmt attrs rows)).
  Proof.
    induction rows as [|r rows IH]; intros n rest st H.
    - cbn [List.length Nat.add app parse_rows]. unfold add_data. rewrite app_nil_r. destruct st; reflexivity.
    - inversion H as [|? ? Hr Hrs]; subst.
      destruct Hr as (_ & Hk & p & Hp).
      cbn [List.length Nat.add app read_loop parse_rows]. rewrite Hk, Hp. cbn [bind].
      rewrite IH by exact Hrs. f_equal. unfold add_data; cbn. rewrite <- app_assoc. reflexivity.
  Qed.

  Definition add_events (st : lstate) (evs : list (list particle)) : lstate :=
    {| plist := (plist st ++ evs)%list; data := []; counts := counts st; cut := cut st |}.

  Lemma close_none first st :
    close_event None first st = Ok (add_events st [data st]).
  Proof.
    unfold close_event, add_events. cbn [bind].
    destruct (List.length (data st)) as [|k] eqn:E; cbn; reflexivity.
  Qed.

  Lemma rl_events first fmt attrs : forall evs i n rest st,
    wf_events fmt attrs i evs -> data st = [] ->
    RL first fmt attrs (List.length (render_events evs) + n) (render_events evs ++ rest)%list st
    = RL first fmt attrs n rest (add_events st (map (fun e => parse_rows fmt attrs (e_rows e)) evs)).
  Proof.
    induction evs as [|e evs IH]; intros i n rest st H Hd.
    - cbn. unfold add_events. rewrite app_nil_r. destruct st; cbn in *; subst; reflexivity.
    - destruct H as (He & Ht).
      destruct He as (_ & Hhk & _ & Hrows & _ & Hfk & _).
      unfold render_events. cbn [flat_map]. fold (render_events evs).
      unfold render_event. rewrite <- !app_comm_cons, <- !app_assoc.
      cbn [List.length]. rewrite !app_length. cbn [List.length].
      match goal with |- read_loop _ _ _ _ _ _ _ ?k _ _ = _ =>
        replace k with (S (List.length (e_rows e) + (S (List.length (render_events evs) + n))))%nat by lia end.
      cbn [read_loop app]. rewrite Hhk.
      rewrite rl_rows by exact Hrows.
      cbn [read_loop app]. rewrite Hfk. rewrite close_none. cbn [bind].
      rewrite (IH (S i)); [|exact Ht|reflexivity].
      f_equal. unfold add_events, add_data. cbn. rewrite Hd. cbn.
      rewrite <- app_assoc. reflexivity.
  Qed.

  (* ------------------------------------------------------------ line arithmetic *)
  Lemma counts_len i evs : List.length (counts_from i evs) = List.length evs.
  Proof. revert i; induction evs as [|e t IH]; intros i; cbn; [reflexivity|now rewrite IH]. Qed.

  Lemma read_all_lines : forall evs i,
    (fold_right (fun c acc => snd c + acc) 0 (counts_from i evs)
     + 2 * Z.of_nat (List.length (counts_from i evs)))%Z
    = Z.of_nat (List.length (render_events evs)).
  Proof.
    induction evs as [|e t IH]; intros i; [reflexivity|].
    unfold render_events. cbn [flat_map counts_from fold_right List.length snd]. fold (render_events t).
    rewrite app_length. unfold render_event. cbn [List.length]. rewrite app_length. cbn [List.length].
    specialize (IH (S i)). lia.
  Qed.

  Lemma last_app_ne {A} (pre tl : list A) d : tl <> [] -> last (pre ++ tl)%list d = last tl d.
  Proof.
    intros H. induction pre as [|x pre IH]; [reflexivity|].
    cbn [app]. destruct (pre ++ tl)%list eqn:E.
    - destruct pre; cbn in E; [subst; congruence|discriminate].
    - cbn [last]. exact IH.
  Qed.

  Lemma render_events_ne evs : evs <> [] -> render_events evs <> [].
  Proof. destruct evs; [congruence|]. intros _. unfold render_events, render_event. cbn. discriminate. Qed.

  Lemma last_render_events0 evs dflt :
    evs <> [] -> last (render_events evs) [] = e_foot (last evs dflt).
  Proof.
    induction evs as [|e t IH]; [congruence|]. intros _.
    destruct t as [|e' t'].
    - unfold render_events, render_event. cbn [flat_map]. rewrite app_nil_r.
      change (e_head e :: (e_rows e ++ [e_foot e])%list) with ((e_head e :: e_rows e) ++ [e_foot e])%list.
      rewrite last_last. reflexivity.
    - change (render_events (e :: e' :: t')) with (render_event e ++ render_events (e' :: t'))%list.
      rewrite last_app_ne by (apply render_events_ne; congruence).
      rewrite IH by congruence. reflexivity.
  Qed.

  Lemma last_render_events evs dflt l0 :
    evs <> [] -> last (l0 :: render_events evs) [] = e_foot (last evs dflt).
  Proof.
    intros H. change (l0 :: render_events evs) with ([l0] ++ render_events evs)%list.
    rewrite last_app_ne by (apply render_events_ne; exact H). apply last_render_events0, H.
  Qed.

  (* ------------------------------------------------------------ the theorem *)
  Theorem load_render d fmt attrs :
    wf tok_float tok_int pdg_valid d fmt attrs ->
    load tok_float tok_int pdg_valid None (render d) SelAll
    = Ok (expected tok_float tok_int pdg_valid d fmt attrs).
  Proof.
    intros (Hfmt & Hstd & Hs1 & Hs2 & Hs3 & Hne & Hev & Hlast).
    unfold load, render. rewrite Hfmt. cbn [bind fst snd].
    assert (Hstd' : ((fmt =? "Oscar2013Extended_IC") || (fmt =? "Oscar2013Extended_Photons")) = false).
    { destruct Hstd as [->|[->| ->]]; reflexivity. }
    rewrite Hstd'. cbn [bind].
    (* number of events from the last line *)
    change (d_h1 d :: d_h2 d :: d_h3 d :: render_events (d_events d))
      with ([d_h1 d; d_h2 d] ++ (d_h3 d :: render_events (d_events d)))%list.
    assert (Hl : last ([d_h1 d; d_h2 d] ++ d_h3 d :: render_events (d_events d))%list []
                 = e_foot (last (d_events d) {| e_head := []; e_rows := []; e_foot := [] |})).
    { cbn [app]. rewrite <- (last_render_events (d_events d) _ (d_h3 d) Hne).
      destruct (render_events (d_events d)); reflexivity. }
    rewrite Hl. destruct Hlast as (H0 & Hlen & Hmem & lt & Hlt & Hti).
    unfold num_events_of. rewrite H0, Hmem.
    replace (2 <=? List.length (e_foot (last (d_events d) {| e_head := []; e_rows := []; e_foot := [] |})))%nat
      with true by (symmetry; apply Nat.leb_le; exact Hlen).
    rewrite String.eqb_refl. cbn [andb]. rewrite Hlt, Hti. cbn [bind]. rewrite to_Z_zq.
    (* header scan *)
    cbn [app scan]. rewrite Hs1, Hs2, Hs3.
    rewrite (scan_events fmt attrs (d_events d) 0 Hev). cbn [bind fst snd num_skip num_read sel_first sel_counts].
    destruct (counts_from 0 (d_events d)) eqn:Ec.
    { destruct (d_events d); [congruence|discriminate]. }
    rewrite <- Ec. cbn [bind]. rewrite read_all_lines. rewrite Nat2Z.id.
    change (Z.to_nat 3) with 3%nat. cbn [skipn].
    (* first line read is an event header *)
    destruct (d_events d) as [|e0 evs] eqn:Ed; [congruence|].
    assert (Hhash : has "#" (e_head e0) = true).
    { destruct Hev as ((Hk & _) & _). unfold kind_scan in Hk.
      destruct (has "#" (e_head e0)); [reflexivity|]. cbn in Hk. discriminate. }
    unfold render_events at 1 2. cbn [flat_map]. unfold render_event at 1 2. cbn [app List.length].
    rewrite Hhash. cbn [negb andb bind].
    (* read loop *)
    fold (render_events evs).
    change (e_head e0 :: (e_rows e0 ++ [e_foot e0]) ++ render_events evs)%list with (render_events (e0 :: evs)).
    pose proof (rl_events 0%Z fmt attrs (e0 :: evs) 0 0 []
                 {| plist := []; data := []; counts := counts_from 0 (e0 :: evs); cut := 0 |} Hev eq_refl) as Hrl.
    rewrite Nat.add_0_r, app_nil_r in Hrl.
    change (S (List.length ((e_rows e0 ++ [e_foot e0]) ++ render_events evs)))%list
      with (List.length (render_events (e0 :: evs))).
    rewrite Hrl. cbn [read_loop bind add_events plist cut counts app].
    rewrite Z.sub_0_r, ?map_length.
    assert (Hfin : forall X : result unit, (X = Ok tt) ->
      (_ <- X ;;
       fin <- (if (Z.of_nat (List.length (e0 :: evs)) =? Z.of_nat (S (List.length evs)) - 1 + 1)%Z
               then Ok ((Z.of_nat (S (List.length evs)) - 1 + 1)%Z, counts_from 0 (e0 :: evs))
               else Err IndexError) ;;
       Ok {| l_events := match map (fun e : event => parse_rows fmt attrs (e_rows e)) (e0 :: evs) with
                         | [] => [[]] | l0 :: l1 => l0 :: l1 end;
             l_nevents := fst fin; l_counts := snd fin; l_format := fmt; l_attrs := attrs;
             l_footers := map e_foot (e0 :: evs) |})
      = Ok (expected tok_float tok_int pdg_valid d fmt attrs)).
    { intros X ->. cbn [bind].
      replace (Z.of_nat (S (List.length evs)) - 1 + 1)%Z with (Z.of_nat (List.length (e0 :: evs)))
        by (cbn [List.length]; lia).
      rewrite Z.eqb_refl. cbn [bind fst snd]. unfold expected. rewrite Ed. reflexivity. }
    apply Hfin. destruct (List.length (render_event e0 ++ render_events evs)); reflexivity.
  Qed.

  (* impact parameters: each event's own footer value, in file order *)
  Definition spec_impact (e : event) : Q :=
    match impact_of tok_float (e_foot e) with Ok b => b | Err _ => 0%Q end.

  Lemma impacts_parse fmt attrs : forall evs i,
    wf_events fmt attrs i evs ->
    mapr (impact_of tok_float) (map e_foot evs) = Ok (map spec_impact evs).
  Proof.
    induction evs as [|e t IH]; intros i H; [reflexivity|].
    destruct H as (He & Ht). destruct He as (_ & _ & _ & _ & _ & _ & b & Hb).
    cbn [map mapr]. unfold spec_impact at 1. rewrite Hb. cbn [bind]. rewrite (IH (S i) Ht). reflexivity.
  Qed.

  Lemma impacts_lookup : forall evs pre,
    mapr (fun c : Z * Z => match nth_error (pre ++ map spec_impact evs)%list (Z.to_nat (fst c)) with
                           | Some v => Ok v | None => Err IndexError end)
         (counts_from (List.length pre) evs)
    = Ok (map spec_impact evs).
  Proof.
    induction evs as [|e t IH]; intros pre; [reflexivity|].
    cbn [counts_from mapr map fst]. rewrite Nat2Z.id.
    rewrite nth_error_app2 by lia. rewrite Nat.sub_diag. cbn [nth_error bind].
    specialize (IH (pre ++ [spec_impact e])%list).
    rewrite app_length in IH. cbn [List.length] in IH. rewrite Nat.add_1_r in IH.
    rewrite <- app_assoc in IH. cbn [app] in IH. rewrite IH. reflexivity.
  Qed.

  Theorem impacts_render d fmt attrs :
    wf tok_float tok_int pdg_valid d fmt attrs ->
    impact_parameters tok_float (expected tok_float tok_int pdg_valid d fmt attrs)
    = Ok (map spec_impact (d_events d)).
  Proof.
    intros (_ & _ & _ & _ & _ & _ & Hev & _).
    unfold impact_parameters, expected. cbn [l_footers l_counts].
    rewrite (impacts_parse fmt attrs _ 0 Hev). cbn [bind].
    exact (impacts_lookup (d_events d) []).
  Qed.
End P.

(* C01, stage B: lines of the documented shapes are recognised as what they are, for ANY
   numeric tokens (unbounded digit strings): rows, event headers, SMASH footers. *)
From Coq Require Import List String Ascii ZArith QArith Bool Arith Lia.
From SX Require Import Lib.Strs Lib.StrLemmas Gen.GenParticleMap Model.Oscar Model.OscarDoc.
Import ListNotations.
Local Open Scope string_scope.

Lemma has_numeric p l :
  (forall t, numeric t = true -> contains p t = false) -> forallb numeric l = true -> has p l = false.
Proof. intros H Hl. unfold has. apply has_numeric_false; assumption. Qed.

(* a particle line: numeric tokens only *)
Lemma row_kinds r : forallb numeric r = true -> kind_scan r = SOther /\ kind_loop r = KRow.
Proof.
  intros H. unfold kind_scan, kind_loop.
  rewrite (has_numeric "#" r numeric_contains_hash H), (has_numeric "event" r numeric_contains_event H).
  split; reflexivity.
Qed.

Ltac evc t := let v := eval vm_compute in t in change t with v.
(* evaluate every test whose subject is a literal token; leave the ones on variables *)
Ltac consts :=
  repeat match goal with
  | |- context [contains ?p ?t] => tryif is_var t then fail else evc (contains p t)
  | |- context [String.eqb ?p ?t] => tryif is_var t then fail else (tryif is_var p then fail else evc (String.eqb p t))
  | |- context [suffix ?p ?t] => tryif is_var t then fail else evc (suffix p t)
  | |- context [prefix ?p ?t] => tryif is_var t then fail else evc (prefix p t)
  end.
Ltac vars :=
  repeat match goal with
  | |- context [String.eqb ?p ?t] => is_var t; destruct (String.eqb p t)
  | |- context [contains ?p ?t] => is_var t; destruct (contains p t)
  | |- context [suffix ?p ?t] => is_var t; destruct (suffix p t)
  | |- context [prefix ?p ?t] => is_var t; destruct (prefix p t)
  end.

(* "# event <label> out <count>" *)
Lemma header_kinds lt ct : numeric lt = true -> numeric ct = true ->
  let h := ["#"; "event"; lt; "out"; ct] in
  kind_scan h = SOut /\ kind_loop h = KSkip /\ nth_error h 2 = Some lt /\ nth_error h 4 = Some ct.
Proof.
  intros Hl Hc h. unfold h, kind_scan, kind_loop, has, has_mid.
  cbn [existsb tl removelast_s].
  assert (E1 : String.eqb "end" lt = false) by (apply (numeric_neq lt "end" "n"%char); [cbn; tauto|reflexivity|exact Hl]).
  rewrite E1. consts. cbn [orb andb]. repeat split; vars; reflexivity.
Qed.

(* "# event <label> end 0 impact   <b> scattering_projectile_target yes|no" *)
Definition smash_footer (lt b yn : string) : line :=
  ["#"; "event"; lt; "end"; "0"; "impact"; ""; ""; b; "scattering_projectile_target"; yn].

Lemma footer_kinds lt b yn : numeric lt = true -> numeric b = true -> (yn = "yes" \/ yn = "no") -> b <> "" ->
  let f := smash_footer lt b yn in
  kind_scan f = SEnd /\ kind_loop f = KEnd /\
  nth 0 f "" = "#" /\ (2 <= List.length f)%nat /\ mem_str "event" (removelast_s f) = true /\
  nth_error f 2 = Some lt /\
  (forall tok_float, impact_of tok_float f = match tok_float b with Some v => Ok v | None => Err ValueError end).
Proof.
  intros Hl Hb Hyn Hbne f. unfold f, smash_footer.
  assert (O1 := numeric_contains_out lt Hl). assert (O2 := numeric_contains_out b Hb).
  assert (S1 := numeric_suffix_in lt Hl). assert (S2 := numeric_suffix_in b Hb).
  assert (P1 := numeric_prefix_start lt Hl). assert (P2 := numeric_prefix_start b Hb).
  assert (Eb : (b =? "") = false) by (destruct (String.eqb_spec b ""); [contradiction|reflexivity]).
  repeat split.
  - unfold kind_scan, has, has_mid. cbn [existsb tl removelast_s]. consts. cbn [orb andb]. vars; reflexivity.
  - unfold kind_loop, has, has_suffix_sp, has_sp_prefix. cbn [existsb tl removelast_s].
    rewrite O1, O2, S1, S2, P1, P2.
    destruct Hyn as [-> | ->]; consts; cbn [orb andb]; vars; reflexivity.
  - cbn. lia.
  - intros tok_float. unfold impact_of. cbn [filter]. rewrite Eb.
    destruct Hyn as [-> | ->]; consts; cbn [negb]; destruct (lt =? ""); cbn [negb rev app nth_error]; reflexivity.
Qed.

(* C18: the symmetry theorems packaged for any loop body of the standard shape (both generated bodies are). *)
From Coq Require Import List ZArith Bool Field_theory Permutation String.
From SX Require Import Lib.KRing Lib.Py Gen.GenEcc Model.Ecc Proofs.C18_Ecc.
Import ListNotations.

Section Std.
  Variable K : Type.
  Variables (k0 k1 : K) (kadd kmul ksub kdiv : K -> K -> K) (kopp kinv : K -> K).
  Hypothesis Fth : field_theory k0 k1 kadd kmul ksub kopp kdiv kinv (@eq K).
  Variable kis0 : K -> bool.
  Hypothesis kis0_spec : forall a, kis0 a = true <-> a = k0.
  Variable B : body K.
  Hypothesis HB : std_body K kmul kdiv kopp B.

  Notation ecc_core := (ecc_core K k0 k1 kadd kmul ksub kdiv kis0).
  Notation eps := (eps K k0 k1 kadd kmul ksub kdiv kopp kis0).
  Notation SN := (SN K k0 k1 kadd kmul).

  Ltac use L := let B1 := fresh "B1" in let B2 := fresh "B2" in let B3 := fresh "B3" in
                let B4 := fresh "B4" in let B5 := fresh "B5" in
                destruct HB as (B1 & B2 & B3 & B4 & B5);
                eapply (L K k0 k1 kadd kmul ksub kdiv kopp kinv Fth kis0 kis0_spec B B1 B2 B3 B4 B5); eassumption.

  Lemma formula_std E n pts l : pts <> [] -> weights K pts = Some l -> SN E l <> k0 ->
    ecc_core B E n pts = Ok (Some (eps E n l)).
  Proof. intros. use ecc_formula. Qed.

  Lemma rotation_std ca sa E n pts l : (1 <= E)%nat -> pts <> [] -> weights K pts = Some l -> SN E l <> k0 ->
    ecc_core B E n (map (rot K kadd kmul ksub ca sa) pts)
    = Ok (Some (cmul K kadd kmul ksub (eps E n l) (cis_pow K k0 k1 kadd kmul ksub ca sa n))).
  Proof. intros. use ecc_rotation. Qed.

  Lemma reflection_std E n pts l : (1 <= E)%nat -> pts <> [] -> weights K pts = Some l -> SN E l <> k0 ->
    ecc_core B E n (map (refl K kopp) pts)
    = Ok (Some (kmul (sgn K k1 kmul kopp n) (fst (eps E n l)), kopp (kmul (sgn K k1 kmul kopp n) (snd (eps E n l))))).
  Proof. intros. use ecc_reflection. Qed.

  Lemma scale_positions_std lam E n pts l : lam <> k0 -> pts <> [] -> weights K pts = Some l -> SN E l <> k0 ->
    ecc_core B E n (map (scalep K kmul lam) pts) = Ok (Some (eps E n l)).
  Proof. intros. use ecc_scale_positions. Qed.

  Lemma scale_weights_std mu E n pts l : mu <> k0 -> pts <> [] -> weights K pts = Some l -> SN E l <> k0 ->
    ecc_core B E n (map (scalew K kmul mu) pts) = Ok (Some (eps E n l)).
  Proof. intros. use ecc_scale_weights. Qed.

  Lemma permutation_std E n pts pts' l : Permutation pts pts' -> pts <> [] -> weights K pts = Some l -> SN E l <> k0 ->
    ecc_core B E n pts' = Ok (Some (eps E n l)).
  Proof. intros. use ecc_permutation. Qed.

  Lemma zero_norm_std E n pts l : pts <> [] -> weights K pts = Some l -> SN E l = k0 -> ecc_core B E n pts = Ok None.
  Proof.
    intros. destruct HB as (B1 & B2 & B3 & _ & _).
    eapply (ecc_zero_norm K k0 k1 kadd kmul ksub kdiv kopp kinv Fth kis0 kis0_spec B B1 B2 B3); eassumption.
  Qed.
End Std.

(* C09: exact uniform edges are lo + i (hi-lo)/n and increasing; make_density yields unit integral. *)
From Coq Require Import List ZArith QArith Qcanon Bool Arith Lia.
From SX Require Import Model.Histogram Lib.HistBase Proofs.C09_Count Proofs.C09_Scale.
Import ListNotations.
Local Open Scope nat_scope.

(* ---------------------------------------------------------------- uniform edges *)
Definition qn (i : nat) : Qc := Q2Qc (Z.of_nat i # 1).

Lemma this_Q2Qc q : (this (Q2Qc q) == q)%Q.
Proof. apply Qred_correct. Qed.

Lemma qn_S i : qn (S i) = (qn i + 1)%Qc.
Proof.
  unfold qn, Qcplus. apply Q2Qc_eq_iff. rewrite this_Q2Qc.
  change (this 1%Qc) with 1%Q.
  unfold Qeq, Qplus. cbn [Qnum Qden]. lia.
Qed.

Lemma this_qn n : this (qn n) = (Z.of_nat n # 1)%Q.
Proof. unfold qn. cbn [this Q2Qc]. apply Qred_identity. cbn [Qnum Qden]. apply Z.gcd_1_r. Qed.

Lemma qn_pos n : 0 < n -> (0 < qn n)%Qc.
Proof.
  intros H. unfold Qclt. rewrite this_qn. change (this 0%Qc) with 0%Q. unfold Qlt. cbn [Qnum Qden]. lia.
Qed.

Lemma Qcinv_pos x : (0 < x)%Qc -> (0 < / x)%Qc.
Proof.
  unfold Qclt, Qcinv. intros H. change (this 0%Qc) with 0%Q in *. rewrite this_Q2Qc. apply Qinv_lt_0_compat. exact H.
Qed.

Lemma linspace_length lo hi n : length (linspace_exact lo hi n) = S n.
Proof. unfold linspace_exact. now rewrite map_length, seq_length. Qed.

Lemma nth_map_lt {A B} (f : A -> B) l d d' : forall i, i < length l -> nth i (map f l) d = f (nth i l d').
Proof. induction l as [|x t IH]; intros [|i] H; simpl in *; try lia; auto. apply IH; lia. Qed.

Lemma linspace_nth lo hi n i : i <= n ->
  nth i (linspace_exact lo hi n) 0%Qc = (lo + qn i * (hi - lo) / qn n)%Qc.
Proof.
  intros Hi. unfold linspace_exact.
  rewrite (nth_map_lt _ _ _ 0) by (rewrite seq_length; lia).
  rewrite seq_nth by lia. reflexivity.
Qed.

Lemma linspace_increasing lo hi n : (lo < hi)%Qc -> 0 < n -> forall i, i < n ->
  (nth i (linspace_exact lo hi n) 0 < nth (S i) (linspace_exact lo hi n) 0)%Qc.
Proof.
  intros Hd Hn i Hi. rewrite !linspace_nth by lia. rewrite qn_S.
  pose proof (qn_pos n Hn) as Np.
  assert (Nz : qn n <> 0%Qc) by (intros Z; rewrite Z in Np; revert Np; apply Qcle_not_lt, Qcle_refl).
  apply Qclt_minus_iff.
  replace (lo + (qn i + 1) * (hi - lo) / qn n + - (lo + qn i * (hi - lo) / qn n))%Qc
    with ((hi + - lo) * / qn n)%Qc by (field; exact Nz).
  replace 0%Qc with (0 * / qn n)%Qc by ring.
  apply Qcmult_lt_compat_r; [apply Qcinv_pos, Np | apply Qclt_minus_iff in Hd; exact Hd].
Qed.

Lemma nondecreasing_of_nth : forall es,
  (forall i, S i < length es -> (nth i es 0 <= nth (S i) es 0)%Qc) -> nondecreasing es = true.
Proof.
  induction es as [|a t IH]; intros H; [reflexivity|].
  destruct t as [|b t']; [reflexivity|].
  cbn [nondecreasing]. apply andb_true_iff. split.
  - apply Qcleb_le. apply (H 0). simpl. lia.
  - apply IH. intros i Hi. apply (H (S i)). simpl in *. lia.
Qed.

Lemma linspace_nondecreasing lo hi n : (lo < hi)%Qc -> 0 < n -> nondecreasing (linspace_exact lo hi n) = true.
Proof.
  intros Hd Hn. apply nondecreasing_of_nth. intros i Hi. rewrite linspace_length in Hi.
  apply Qclt_le_weak, linspace_increasing; auto; lia.
Qed.

Lemma init_tuple_uniform lo hi n : (lo < hi)%Qc -> (0 < n)%Z ->
  exists h, init_tuple linspace_exact lo hi true n = Ok h
    /\ Shape h /\ nbins h = Z.to_nat n /\ edges h = linspace_exact lo hi (Z.to_nat n)
    /\ nondecreasing (edges h) = true
    /\ forall i, i <= Z.to_nat n -> nth i (edges h) 0%Qc = (lo + qn i * (hi - lo) / qn (Z.to_nat n))%Qc.
Proof.
  intros Hd Hn. unfold init_tuple.
  assert (A : Qcltb hi lo = false).
  { destruct (Qcltb hi lo) eqn:E; [|reflexivity]. apply Qcltb_lt in E. exfalso. revert E. apply Qcle_not_lt, Qclt_le_weak, Hd. }
  assert (B : Qc_eq_bool lo hi = false).
  { destruct (Qc_eq_bool lo hi) eqn:E; [|reflexivity]. apply Qc_eq_bool_true in E. exfalso. revert E. apply Qclt_not_eq, Hd. }
  rewrite A, B. cbn [orb negb].
  replace (n <=? 0)%Z with false by (symmetry; apply Z.leb_gt; lia).
  eexists. split; [reflexivity|].
  split; [apply fresh_Shape, linspace_length|].
  cbn [fresh nbins edges]. repeat split.
  - apply linspace_nondecreasing; [exact Hd | lia].
  - intros i Hi. now apply linspace_nth.
Qed.

(* rejected tuples *)
Lemma init_tuple_rejected ul lo hi b n : (hi <= lo)%Qc \/ b = false \/ (n <= 0)%Z -> init_tuple ul lo hi b n = Err ValueError.
Proof.
  intros H. unfold init_tuple.
  destruct (Qcltb hi lo || Qc_eq_bool lo hi) eqn:E; [reflexivity|].
  apply orb_false_iff in E. destruct E as [E1 E2].
  destruct H as [H|[H|H]].
  - exfalso. apply Qcle_lt_or_eq in H. destruct H as [H|H].
    + apply Qcltb_lt in H. congruence.
    + subst. assert (Qc_eq_bool lo lo = true) by now apply Qc_eq_bool_true. congruence.
  - subst. reflexivity.
  - apply Z.leb_le in H. rewrite H, orb_true_r. reflexivity.
Qed.

(* ---------------------------------------------------------------- density *)
Definition qsum (l : list Qc) : Qc := fold_right Qcplus 0%Qc l.

Lemma csum_some l : csum (map (@Some Qc) l) = Some (qsum l).
Proof.
  induction l as [|x t IH]; [reflexivity|].
  change (csum (map (@Some Qc) (x :: t))) with (cadd (Some x) (csum (map (@Some Qc) t))). rewrite IH. reflexivity.
Qed.

Lemma map2_some (f : cell -> cell -> cell) (g : Qc -> Qc -> Qc) : forall xs ys,
  (forall x y, In (x, y) (combine xs ys) -> f (Some x) (Some y) = Some (g x y)) ->
  map2 f (map (@Some Qc) xs) (map (@Some Qc) ys) = map (@Some Qc) (map2 g xs ys).
Proof.
  unfold map2. induction xs as [|x xs IH]; intros [|y ys] H; try reflexivity.
  simpl. rewrite (H x y) by (left; reflexivity). f_equal. apply IH. intros; apply H; right; assumption.
Qed.

Lemma map2_ext_in {A B C} (f g : A -> B -> C) : forall xs ys,
  (forall x y, In (x, y) (combine xs ys) -> f x y = g x y) -> map2 f xs ys = map2 g xs ys.
Proof.
  unfold map2. induction xs as [|x xs IH]; intros [|y ys] H; try reflexivity.
  simpl. rewrite (H x y) by (left; reflexivity). f_equal. apply IH. intros; apply H; right; assumption.
Qed.

Lemma qsum_scale c l : qsum (map (fun x => x * c)%Qc l) = (qsum l * c)%Qc.
Proof. induction l as [|x t IH]; simpl; [ring | rewrite IH; ring]. Qed.

Lemma map2_fst_only {A B C} (f : A -> C) : forall (xs : list A) (ys : list B), length xs = length ys ->
  map2 (fun x _ => f x) xs ys = map f xs.
Proof.
  unfold map2. induction xs as [|x xs IH]; intros [|y ys] L; try discriminate; [reflexivity|].
  simpl. f_equal. apply IH. simpl in L. lia.
Qed.

Lemma all_some (row : list cell) : (forall i, i < length row -> exists x, nth i row None = Some x) ->
  exists xs, row = map (@Some Qc) xs.
Proof.
  induction row as [|c t IH]; intros H; [exists []; reflexivity|].
  destruct (H 0) as [x Ex]; [simpl; lia|]. simpl in Ex. subst c.
  destruct IH as [xs ->]; [intros i Hi; apply (H (S i)); simpl; lia|].
  exists (x :: xs). reflexivity.
Qed.

Lemma In_combine_nth (xs ys : list Qc) x y : In (x, y) (combine xs ys) ->
  exists i, i < length ys /\ nth i ys 0%Qc = y.
Proof.
  revert ys. induction xs as [|a xs IH]; intros [|b ys] H; simpl in H; try contradiction.
  destruct H as [H|H].
  - injection H as _ <-. exists 0. simpl. split; [lia | reflexivity].
  - destruct (IH ys H) as [i [Hi E]]. exists (S i). simpl. split; [lia | exact E].
Qed.

Section Density.
  Variable usqrt : Qc -> Qc.

  (* strictly increasing edges, the current histogram finite: after make_density sum_i content_i * width_i = 1 *)
  Lemma density_unit h h' : Shape h ->
    (forall i, i < nbins h -> (nth i (edges h) 0 < nth (S i) (edges h) 0)%Qc) ->
    (forall i, i < nbins h -> exists x, content h i = Some x) ->
    make_density usqrt h = Ok h' ->
    csum (map2 cmul (cur (hH h')) (map (@Some Qc) (widths (edges h')))) = Some 1%Qc
    /\ edges h' = edges h /\ hRAW h' = hRAW h /\ Shape h'.
  Proof.
    intros Sh Inc Fin E.
    pose proof Sh as [Hn [He [SH _]]].
    destruct (nhist h) as [|m] eqn:Nh; [lia|].
    destruct (Shape2_snoc _ _ _ SH) as [pre [row [EH [Lp [Lr _]]]]].
    assert (Cur : cur (hH h) = row) by (rewrite EH; apply cur_snoc).
    destruct (all_some row) as [xs Exs].
    { intros i Hi. destruct (Fin i) as [x Ex]; [lia|]. exists x. unfold content in Ex. now rewrite Cur in Ex. }
    set (wq := widths (edges h)) in *.
    destruct (geometry_length (edges h)) as [_ [Lw _]]. fold wq in Lw. rewrite He in Lw. simpl in Lw. rewrite Nat.sub_0_r in Lw.
    assert (Lxs : length xs = nbins h) by (rewrite <- Lr, Exs, map_length; reflexivity).
    assert (Wnz : forall x w, In (x, w) (combine xs wq) -> w <> 0%Qc).
    { intros x w Hin. destruct (In_combine_nth _ _ _ _ Hin) as [i [Hi <-]]. rewrite Lw in Hi.
      destruct (geometry (edges h) i) as [_ [Gw _]]; [lia|]. fold wq in Gw. rewrite Gw.
      intros Z. specialize (Inc i Hi). apply Qclt_not_eq in Inc. apply Inc. symmetry.
      transitivity (nth (S i) (edges h) 0 - nth i (edges h) 0 + nth i (edges h) 0)%Qc; [ring|]. rewrite Z. ring. }
    unfold make_density in E. fold wq in E. rewrite Nh in E. cbn [Nat.eqb] in E.
    rewrite EH, last_row_snoc in E. cbn [bind] in E.
    rewrite Exs in E.
    rewrite zipw_eq in E by (rewrite !map_length; lia). cbn [bind] in E.
    rewrite (map2_some cdiv Qcdiv) in E.
    2:{ intros x w Hin. simpl. destruct (Qc_eq_bool w 0) eqn:Z; [|reflexivity].
        apply Qc_eq_bool_true in Z. exfalso. eapply Wnz; eauto. }
    rewrite zipw_eq in E by (rewrite !map_length, map2_length; lia). cbn [bind] in E.
    rewrite (map2_some cmul Qcmult) in E by reflexivity.
    (* (x / w) * w = x *)
    assert (DW : map2 Qcmult (map2 Qcdiv xs wq) wq = xs).
    { clear E. revert Wnz. generalize wq Lxs Lw. clear. intros wq Lxs Lw.
      assert (L : length xs = length wq) by lia. clear Lxs Lw.
      revert wq L. unfold map2. induction xs as [|x xs IH]; intros [|w wq] L Wnz; try discriminate; [reflexivity|].
      simpl. f_equal.
      - assert (w <> 0%Qc) by (apply (Wnz x w); left; reflexivity). field. assumption.
      - apply IH; [simpl in L; lia|]. intros a b Hin. apply (Wnz a b). right. exact Hin. }
    rewrite DW, csum_some in E. set (I := qsum xs) in *.
    cbn [c_is0] in E. destruct (Qc_eq_bool I 0) eqn:Iz; [discriminate|].
    assert (Inz : I <> 0%Qc) by (intros Z; apply Qc_eq_bool_true in Z; congruence).
    cbn [cdiv c1] in E. rewrite Iz in E.
    inv_bind E. rename a into h1.
    destruct (statistical_error_spec usqrt h Sh) as [rows [EHr R1]]. rewrite R1 in E0. injection E0 as <-.
    pose proof (statistical_error_Shape usqrt h _ Sh R1) as Sh1.
    set (h1 := mkH _ _ _ _ _ _ _ _) in *.
    assert (V : valid_scale (nbins h1) (SList (map (fun w => cdiv (Some (1 / I)%Qc) w) (map (@Some Qc) wq))) = true)
      by (eapply scale_ok_valid; eauto).
    destruct (scale_spec h1 _ Sh1 V) as [h2 [E2 [Sh2 [F2 [CH _]]]]].
    rewrite E in E2. injection E2 as <-.
    split; [|split; [apply (s_edges _ _ F2) | split; [apply (s_raw _ _ F2) | exact Sh2]]].
    rewrite CH, (s_edges _ _ F2). cbn [h1 hH edges]. rewrite Cur, Exs. cbn [apply_factor]. fold wq.
    rewrite map_map.
    replace (map (fun w => cdiv (Some (1 / I)%Qc) (Some w)) wq) with (map (@Some Qc) (map (fun w => (1 / I / w)%Qc) wq)).
    2:{ rewrite map_map. apply map_ext_in. intros w Hw. simpl.
        destruct (Qc_eq_bool w 0) eqn:Z; [|reflexivity]. exfalso. apply Qc_eq_bool_true in Z.
        destruct (In_nth _ _ 0%Qc Hw) as [i [Hi Ei]].
        assert (Hc : In (nth i xs 0%Qc, w) (combine xs wq)).
        { rewrite <- Ei. rewrite <- combine_nth by lia. apply nth_In. rewrite combine_length. lia. }
        eapply Wnz; eauto. }
    rewrite (map2_some cmul Qcmult) by reflexivity.
    rewrite (map2_some cmul Qcmult) by reflexivity.
    rewrite csum_some. f_equal.
    (* sum_i x_i * (1/I/w_i) * w_i = (sum_i x_i) / I = 1 *)
    assert (P : map2 Qcmult (map2 Qcmult xs (map (fun w => (1 / I / w)%Qc) wq)) wq = map (fun x => (x * (1 / I))%Qc) xs).
    { clear - Wnz Lxs Lw Inz. clearbody wq I. assert (L : length xs = length wq) by lia. clear Lxs Lw.
      revert wq L Wnz. unfold map2. induction xs as [|x xs IH]; intros [|w wq] L Wnz; try discriminate; [reflexivity|].
      simpl. f_equal.
      - assert (w <> 0%Qc) by (apply (Wnz x w); left; reflexivity). field. split; assumption.
      - apply IH; [simpl in L; lia|]. intros a b Hin. apply (Wnz a b). right. exact Hin. }
    rewrite P, qsum_scale. fold I. field. exact Inz.
  Qed.
End Density.

(* C06: one particle line written and read back - generic in the column scheme.
   Oracle laws (hypotheses of the section, DESIGN.md 4.4): what Python's % formatting prints is parsed back by
   float()/int() to the value rounded to the printed precision, and printing that rounded value again gives
   the same text. *)
From Coq Require Import List String ZArith QArith Bool Arith Lia.
From SX Require Import Lib.Strs Lib.StrLemmas Gen.GenParticleMap Gen.GenFormats Model.Oscar Model.Writer
  Proofs.C01_Columns.
Import ListNotations.
Local Open Scope string_scope.

Section Row.
  Variable tok_float : string -> option Q.
  Variable tok_int : string -> option Q.
  Variable fmt : colfmt -> Q -> string.
  Variable rnd : colfmt -> Q -> Q.                 (* the value the printed text denotes *)

  Definition is_int_fmt (f : colfmt) : bool := match f with FD => true | _ => false end.
  Hypothesis parse_float : forall f v, is_int_fmt f = false -> tok_float (fmt f v) = Some (rnd f v).
  Hypothesis parse_int : forall v, tok_int (fmt FD v) = Some (rnd FD v).
  Hypothesis fmt_idem : forall f v, fmt f (rnd f v) = fmt f v.

  (* a column scheme: loader attribute name, slot, print format; column j is the j-th entry *)
  Definition scheme := list (string * nat * colfmt).
  Definition s_attr (c : string * nat * colfmt) := fst (fst c).
  Definition s_slot (c : string * nat * colfmt) := snd (fst c).
  Definition s_fmt (c : string * nat * colfmt) := snd c.

  Definition cast_ok (ascii : bool) (c : string * nat * colfmt) : bool :=
    Bool.eqb (mem_str (if ascii then s_attr c ++ "_" else s_attr c) gen_float_fields) (negb (is_int_fmt (s_fmt c))).

  Definition mapping_from (i : nat) (cs : scheme) : list (string * (nat * nat)) :=
    map (fun ci => (s_attr (fst ci), (s_slot (fst ci), snd ci))) (enum_from i cs).

  Definition vals (cs : scheme) (p : particle) : list (option Q) := map (fun c => get_slot (s_slot c) p) cs.
  Definition toks_of (cs : scheme) (vs : list Q) : list string := map (fun cv => fmt (s_fmt (fst cv)) (snd cv)) (combine cs vs).

  Lemma cast_tok ascii c v : cast_ok ascii c = true ->
    cast tok_float tok_int (if ascii then s_attr c ++ "_" else s_attr c) (fmt (s_fmt c) v) = Some (rnd (s_fmt c) v).
  Proof.
    unfold cast_ok, cast. intros H. apply eqb_prop in H. rewrite H.
    destruct (s_fmt c) eqn:E; cbn [is_int_fmt negb]; [apply parse_float; reflexivity|apply parse_float; reflexivity|apply parse_int].
  Qed.

  (* filling from the printed tokens: column j of the row lands, rounded, in its slot *)
  Lemma fill_row ascii : forall (cs : scheme) (pre : list string) (vs : list Q) (p : particle),
    List.length vs = List.length cs ->
    forallb (cast_ok ascii) cs = true ->
    exists p', fill tok_float tok_int ascii (mapping_from (List.length pre) cs) (pre ++ toks_of cs vs) p = Ok p'.
  Proof.
    induction cs as [|c cs IH]; intros pre vs p Hl Hc.
    - exists p. reflexivity.
    - destruct vs as [|v vs]; [discriminate|]. cbn in Hl. injection Hl as Hl.
      cbn in Hc. apply andb_true_iff in Hc. destruct Hc as [Hc1 Hc2].
      unfold mapping_from. cbn [enum_from map fst snd fill]. fold (mapping_from (S (List.length pre)) cs).
      rewrite app_length. cbn [toks_of combine map List.length].
      replace (List.length pre + S (List.length (map (fun cv => fmt (s_fmt (fst cv)) (snd cv)) (combine cs vs))) <=? List.length pre)%nat
        with false by (symmetry; apply Nat.leb_gt; lia).
      rewrite app_nth2 by lia. rewrite Nat.sub_diag. cbn [nth fst snd].
      rewrite (cast_tok ascii c v Hc1).
      specialize (IH (pre ++ [fmt (s_fmt c) v])%list vs (set_slot (s_slot c) (Some (rnd (s_fmt c) v)) p) Hl Hc2).
      rewrite app_length in IH. cbn [List.length] in IH. rewrite Nat.add_1_r in IH.
      rewrite <- app_assoc in IH. exact IH.
  Qed.

  Lemma mapping_slots i cs : map (fun e => fst (snd e)) (mapping_from i cs) = map s_slot cs.
  Proof.
    revert i. induction cs as [|c cs IH]; intros i; [reflexivity|].
    unfold mapping_from. cbn [enum_from map fst snd]. f_equal. apply IH.
  Qed.

  Lemma mapping_in i cs : forall a s c, In (a, (s, c)) (mapping_from i cs) ->
    exists j x, c = (i + j)%nat /\ nth_error cs j = Some x /\ a = s_attr x /\ s = s_slot x.
  Proof.
    revert i. induction cs as [|c0 cs IH]; intros i a s c H; [destruct H|].
    unfold mapping_from in H. cbn [enum_from map fst snd] in H. destruct H as [H|H].
    - inversion H; subst. exists 0%nat, c0. repeat split; try reflexivity. lia.
    - destruct (IH (S i) a s c H) as (j & x & -> & Hn & -> & ->).
      exists (S j), x. repeat split; try assumption; try reflexivity. lia.
  Qed.

  Lemma nth_toks : forall cs vs j x v, List.length vs = List.length cs ->
    nth_error cs j = Some x -> nth_error vs j = Some v -> nth j (toks_of cs vs) "" = fmt (s_fmt x) v.
  Proof.
    induction cs as [|c cs IH]; intros vs j x v Hl Hc Hv; [destruct j; discriminate|].
    destruct vs as [|v0 vs]; [discriminate|]. destruct j; cbn in *.
    - inversion Hc; inversion Hv; subst. reflexivity.
    - apply IH; try assumption. lia.
  Qed.

  Lemma toks_length cs vs : List.length vs = List.length cs -> List.length (toks_of cs vs) = List.length cs.
  Proof. intros H. unfold toks_of. rewrite map_length, combine_length. lia. Qed.

  (* the particle read back from a printed row: the printed columns rounded, every other slot as in [p0] *)
  Theorem row_roundtrip ascii (cs : scheme) (vs : list Q) (p0 : particle) :
    List.length vs = List.length cs -> forallb (cast_ok ascii) cs = true ->
    NoDup (map s_slot cs) -> Forall (fun c => (s_slot c < 25)%nat) cs -> List.length p0 = 25%nat ->
    exists p',
      fill tok_float tok_int ascii (mapping_from 0 cs) (toks_of cs vs) p0 = Ok p' /\
      (forall j x v, nth_error cs j = Some x -> nth_error vs j = Some v ->
                     get_slot (s_slot x) p' = Some (rnd (s_fmt x) v)) /\
      (forall s, ~ In s (map s_slot cs) -> get_slot s p' = get_slot s p0) /\
      List.length p' = 25%nat.
  Proof.
    intros Hl Hc Hnd Hlt Hp0.
    destruct (fill_row ascii cs [] vs p0 Hl Hc) as (p' & Hf). cbn [List.length app] in Hf.
    exists p'. split; [exact Hf|].
    pose proof (fill_spec tok_float tok_int ascii (mapping_from 0 cs) (toks_of cs vs) p0 p' Hf) as Hs.
    rewrite mapping_slots in Hs. specialize (Hs Hnd Hp0).
    assert (Hlt' : Forall (fun e : string * (nat * nat) => (fst (snd e) < 25)%nat) (mapping_from 0 cs)).
    { apply Forall_forall. intros [a [s c]] Hin. destruct (mapping_in 0 cs a s c Hin) as (j & x & _ & Hn & _ & ->).
      rewrite Forall_forall in Hlt. apply Hlt. eapply nth_error_In; eauto. }
    destruct (Hs Hlt') as (A & B & L). repeat split; [| |exact L].
    - intros j x v Hx Hv.
      assert (Hin : In (s_attr x, (s_slot x, j)) (mapping_from 0 cs)).
      { assert (G : forall cs0 i j0, nth_error cs0 j0 = Some x ->
                          In (s_attr x, (s_slot x, (i + j0)%nat)) (mapping_from i cs0)).
        { induction cs0 as [|c cs0 IH]; intros i j0 Hx0; [destruct j0; discriminate|].
          unfold mapping_from. cbn [enum_from map fst snd]. destruct j0; cbn in Hx0.
          - inversion Hx0; subst. left. rewrite Nat.add_0_r. reflexivity.
          - right. replace (i + S j0)%nat with (S i + j0)%nat by lia. apply (IH (S i) j0 Hx0). }
        exact (G cs 0%nat j Hx). }
      cbn [Nat.add] in Hin.
      assert (Hj : (j < List.length (toks_of cs vs))%nat).
      { rewrite toks_length by exact Hl. apply nth_error_Some. congruence. }
      rewrite (A _ _ _ Hin Hj). rewrite (nth_toks cs vs j x v Hl Hx Hv).
      apply cast_tok. rewrite forallb_forall in Hc. apply Hc. eapply nth_error_In; eauto.
    - intros s Hs'. apply B. intros Hin. apply Hs'.
      apply in_map_iff in Hin. destruct Hin as ([a [s' c]] & <- & Hf').
      apply filter_In in Hf'. destruct Hf' as [Hin _]. cbn [fst snd].
      destruct (mapping_in 0 cs a s' c Hin) as (j & x & _ & Hn & _ & ->).
      apply in_map. eapply nth_error_In; eauto.
  Qed.

  (* printing the read-back values again gives the same tokens *)
  Lemma toks_idem : forall cs vs, List.length vs = List.length cs ->
    toks_of cs (map (fun cv => rnd (s_fmt (fst cv)) (snd cv)) (combine cs vs)) = toks_of cs vs.
  Proof.
    induction cs as [|c cs IH]; intros vs Hl; [reflexivity|].
    destruct vs as [|v vs]; [discriminate|]. cbn in Hl. injection Hl as Hl.
    unfold toks_of. cbn [combine map fst snd]. rewrite fmt_idem. f_equal. apply IH, Hl.
  Qed.

  (* mapping entries for columns the line does not have are skipped by the loader *)
  Lemma mapping_from_app i a b :
    mapping_from i (a ++ b)%list = (mapping_from i a ++ mapping_from (i + List.length a) b)%list.
  Proof.
    revert i. induction a as [|c a IH]; intros i.
    - cbn [app List.length]. rewrite Nat.add_0_r. reflexivity.
    - unfold mapping_from. cbn [app enum_from map List.length]. f_equal.
      fold (mapping_from (S i) (a ++ b)%list). rewrite IH. unfold mapping_from.
      replace (i + S (List.length a))%nat with (S i + List.length a)%nat by lia. reflexivity.
  Qed.

  Lemma fill_app ascii : forall m1 m2 toks p,
    fill tok_float tok_int ascii (m1 ++ m2)%list toks p
    = (p1 <- fill tok_float tok_int ascii m1 toks p ;; fill tok_float tok_int ascii m2 toks p1).
  Proof.
    induction m1 as [|[a [s c]] m1 IH]; intros m2 toks p; [reflexivity|].
    cbn [app fill]. destruct (List.length toks <=? c)%nat; [apply IH|].
    destruct (cast tok_float tok_int (if ascii then a ++ "_" else a) (nth c toks "")); [apply IH|reflexivity].
  Qed.

  Lemma fill_skip ascii : forall i ex toks p, (List.length toks <= i)%nat ->
    fill tok_float tok_int ascii (mapping_from i ex) toks p = Ok p.
  Proof.
    intros i ex. revert i. induction ex as [|c ex IH]; intros i toks p H; [reflexivity|].
    unfold mapping_from. cbn [enum_from map fst snd fill]. fold (mapping_from (S i) ex).
    replace (List.length toks <=? i)%nat with true by (symmetry; apply Nat.leb_le; exact H).
    apply IH. lia.
  Qed.

  Lemma fill_extra ascii cs ex vs p : List.length vs = List.length cs ->
    fill tok_float tok_int ascii (mapping_from 0 (cs ++ ex)%list) (toks_of cs vs) p
    = fill tok_float tok_int ascii (mapping_from 0 cs) (toks_of cs vs) p.
  Proof.
    intros Hl. rewrite mapping_from_app, fill_app.
    destruct (fill tok_float tok_int ascii (mapping_from 0 cs) (toks_of cs vs) p) as [p1|]; [|reflexivity].
    cbn [bind]. apply fill_skip. rewrite toks_length by exact Hl. cbn. lia.
  Qed.
End Row.

(* C02 for the particle-object storer: an event selection equals loading everything and keeping the
   selected events; constructor filters are applied after the selection, event by event. *)
From Coq Require Import List ZArith Bool Arith Lia.
From SX Require Import Lib.Py Model.PObj.
Import ListNotations.

Section PObjProofs.
  Variable P : Type.

  Lemma mapr_length {A B} (f : A -> result B) l r : mapr f l = Ok r -> length r = length l.
  Proof.
    revert r; induction l as [|x t IH]; intros r H; cbn in H.
    - inversion H; reflexivity.
    - destruct (f x) as [y|e]; cbn in H; [|discriminate].
      destruct (mapr f t) as [ys|e]; cbn in H; [|discriminate].
      inversion H; subst; cbn; f_equal; apply IH; reflexivity.
  Qed.

  Lemma mapr_skipn {A B} (f : A -> result B) n l r :
    mapr f l = Ok r -> mapr f (skipn n l) = Ok (skipn n r).
  Proof.
    revert l r; induction n as [|n IH]; intros l r H; [exact H|].
    destruct l as [|x t]; cbn in H.
    - inversion H; reflexivity.
    - destruct (f x) as [y|e]; cbn in H; [|discriminate].
      destruct (mapr f t) as [ys|e] eqn:E; cbn in H; [|discriminate].
      inversion H; subst; cbn [skipn]; apply IH; exact E.
  Qed.

  Lemma mapr_firstn {A B} (f : A -> result B) n l r :
    mapr f l = Ok r -> mapr f (firstn n l) = Ok (firstn n r).
  Proof.
    revert l r; induction n as [|n IH]; intros l r H; [reflexivity|].
    destruct l as [|x t]; cbn in H.
    - inversion H; reflexivity.
    - destruct (f x) as [y|e] eqn:Ex; cbn in H; [|discriminate].
      destruct (mapr f t) as [ys|e] eqn:E; cbn in H; [|discriminate].
      inversion H; subst; cbn [firstn mapr]; rewrite Ex; cbn.
      rewrite (IH t ys E); reflexivity.
  Qed.

  Lemma mapr_slice {A B} (f : A -> result B) a b l r :
    mapr f l = Ok r -> mapr f (pslice a b l) = Ok (pslice a b r).
  Proof. intros H; unfold pslice; apply mapr_firstn, mapr_skipn, H. Qed.

  Lemma mapr_nth {A B} (f : A -> result B) l r k x :
    mapr f l = Ok r -> nth_error l k = Some x -> exists y, f x = Ok y /\ nth_error r k = Some y.
  Proof.
    revert r k; induction l as [|h t IH]; intros r k H Hk; [destruct k; discriminate|].
    cbn in H. destruct (f h) as [y|e] eqn:Eh; cbn in H; [|discriminate].
    destruct (mapr f t) as [ys|e] eqn:E; cbn in H; [|discriminate].
    inversion H; subst. destruct k as [|k]; cbn in Hk |- *.
    - inversion Hk; subst; exists y; split; [exact Eh|reflexivity].
    - exact (IH ys k eq_refl Hk).
  Qed.

  Lemma label_from_skipn n : forall z (l : list (list P)),
    skipn n (label_from P z l) = label_from P (z + Z.of_nat n) (skipn n l).
  Proof.
    induction n as [|n IH]; intros z l.
    - cbn [skipn Z.of_nat]; rewrite Z.add_0_r; reflexivity.
    - destruct l as [|e t]; [reflexivity|].
      cbn [skipn label_from]. rewrite IH. f_equal. lia.
  Qed.

  Lemma label_from_firstn n : forall z (l : list (list P)),
    firstn n (label_from P z l) = label_from P z (firstn n l).
  Proof.
    induction n as [|n IH]; intros z l; [reflexivity|].
    destruct l as [|e t]; [reflexivity|].
    cbn [firstn label_from]. rewrite IH. reflexivity.
  Qed.

  Lemma label_from_slice a b (l : list (list P)) :
    (0 <= a)%Z -> pslice a b (label_from P 0 l) = label_from P a (pslice a b l).
  Proof.
    intros Ha; unfold pslice. rewrite label_from_skipn, label_from_firstn.
    f_equal. lia.
  Qed.

  Lemma label_from_sizes z (l : list (list P)) :
    map snd (label_from P z l) = map (fun e => Z.of_nat (length e)) l.
  Proof. revert z; induction l as [|e t IH]; intros z; cbn; [reflexivity|]. f_equal; apply IH. Qed.

  Lemma label_from_labels (l : list (list P)) : forall z i c,
    nth_error (label_from P z l) i = Some c -> fst c = (z + Z.of_nat i)%Z.
  Proof.
    induction l as [|e t IH]; intros z i c H; [destruct i; discriminate|].
    destruct i as [|i]; cbn in H.
    - inversion H; subst; cbn; lia.
    - apply IH in H. rewrite H. lia.
  Qed.

  Lemma length_pslice {A} a b (l : list A) :
    (0 <= a <= b)%Z -> (b < Z.of_nat (length l))%Z -> length (pslice a b l) = Z.to_nat (b + 1 - a).
  Proof.
    intros H1 H2; unfold pslice. rewrite firstn_length, skipn_length. lia.
  Qed.

  Variable flt : option (list P -> result (list P)).

  (* loading everything first *)
  Definition full_held (evs held : list (list P)) : Prop :=
    match flt with None => held = evs | Some f => mapr f evs = Ok held end.

  Lemma pload_all evs st :
    pload P flt PAll evs = Ok st ->
    full_held evs (p_events P st) /\ p_nevents P st = Z.of_nat (length evs) /\
    p_counts P st = label_from P 0 (p_events P st).
  Proof.
    unfold pload, full_held; cbn. destruct flt as [f|].
    - destruct (mapr f evs) as [held|e] eqn:E; cbn; [|discriminate].
      intros H; inversion H; subst; cbn. rewrite (mapr_length f evs held E). auto.
    - cbn. intros H; inversion H; subst; cbn; auto.
  Qed.

  (* events=(a,b): exactly the slice a..b of the unrestricted load - same events in the same order, the number of
     selected events, the selected rows of the count table under their original labels *)
  Theorem pobj_range_is_slice evs full a b :
    pload P flt PAll evs = Ok full -> (0 <= a <= b)%Z -> (b < Z.of_nat (length evs))%Z ->
    pload P flt (PRange a b) evs =
      Ok {| p_events := pslice a b (p_events P full);
            p_nevents := (b + 1 - a)%Z;
            p_counts := pslice a b (p_counts P full) |}.
  Proof.
    intros Hf Hab Hb. destruct (pload_all evs full Hf) as (Hh & Hn & Hc).
    unfold pload. cbn [pvalidate pselect pfirst].
    replace (b <? a)%Z with false by lia.
    replace ((a <? 0) || (b <? 0))%Z with false by lia. cbn [rbind].
    unfold full_held in Hh. destruct flt as [f|].
    - rewrite (mapr_slice f a b evs _ Hh). cbn [rbind]. f_equal.
      assert (HL : length (p_events P full) = length evs) by (apply (mapr_length f); exact Hh).
      rewrite length_pslice by lia. rewrite Hc, label_from_slice by lia.
      f_equal. lia.
    - cbn [rbind]. rewrite Hc, Hh. f_equal.
      rewrite length_pslice by lia. rewrite label_from_slice by lia.
      f_equal. lia.
  Qed.

  Lemma pslice_single {A} k (l : list A) x :
    (0 <= k)%Z -> nth_error l (Z.to_nat k) = Some x -> pslice k k l = [x].
  Proof.
    intros Hk H; unfold pslice. replace (Z.to_nat (k + 1 - k)) with 1%nat by lia.
    revert H; generalize (Z.to_nat k) as n; intros n; revert l.
    induction n as [|n IH]; intros l H; destruct l as [|h t]; try discriminate.
    - cbn in H; inversion H; subst; reflexivity.
    - cbn in H. cbn [skipn]. apply IH, H.
  Qed.

  (* events=k is events=(k,k) *)
  Theorem pobj_single_is_range evs k :
    (0 <= k)%Z -> (k < Z.of_nat (length evs))%Z ->
    pload P flt (POne k) evs = pload P flt (PRange k k) evs.
  Proof.
    intros H0 Hk. unfold pload. cbn [pvalidate pselect pfirst].
    replace (k <? 0)%Z with false by lia. replace (k <? k)%Z with false by lia.
    replace ((k <? 0) || (k <? 0))%Z with false by lia. cbn [rbind].
    destruct (nth_error evs (Z.to_nat k)) as [e|] eqn:E.
    - rewrite (pslice_single k evs e H0 E). reflexivity.
    - apply nth_error_None in E. lia.
  Qed.

  (* the label of the i-th held event is first + i, its count is the size of the event held: counts always
     agree with the lists, whatever the selection and the filter *)
  Theorem pobj_counts_consistent s evs st :
    pload P flt s evs = Ok st ->
    p_nevents P st = Z.of_nat (length (p_events P st)) /\
    map snd (p_counts P st) = map (fun e => Z.of_nat (length e)) (p_events P st) /\
    (forall i c, nth_error (p_counts P st) i = Some c -> fst c = (pfirst s + Z.of_nat i)%Z).
  Proof.
    unfold pload. destruct (pvalidate s); cbn [rbind]; [|discriminate].
    destruct (pselect P s evs) as [sel|]; cbn [rbind]; [|discriminate].
    destruct (match flt with None => Ok sel | Some f => mapr f sel end) as [held|]; cbn [rbind]; [|discriminate].
    intros H; inversion H; subst; cbn.
    split; [reflexivity|]. split; [apply label_from_sizes|].
    intros i c Hc; eapply label_from_labels; exact Hc.
  Qed.

  (* invalid selectors are rejected before anything is selected *)
  Theorem pobj_invalid_selector evs :
    (forall k, (k < 0)%Z -> pload P flt (POne k) evs = Err ValueError) /\
    (forall a b, (b < a \/ a < 0 \/ b < 0)%Z -> pload P flt (PRange a b) evs = Err ValueError) /\
    (forall k, (Z.of_nat (length evs) <= k)%Z -> pload P flt (POne k) evs = Err IndexError).
  Proof.
    split; [|split].
    - intros k Hk; unfold pload; cbn. replace (k <? 0)%Z with true by lia. reflexivity.
    - intros a b H; unfold pload; cbn.
      destruct (b <? a)%Z eqn:E1; [reflexivity|].
      replace ((a <? 0) || (b <? 0))%Z with true by lia. reflexivity.
    - intros k Hk; unfold pload; cbn [pvalidate pselect].
      replace (k <? 0)%Z with false by lia. cbn [rbind].
      destruct (nth_error evs (Z.to_nat k)) as [e|] eqn:E; [|reflexivity].
      assert (nth_error evs (Z.to_nat k) <> None) by congruence.
      apply nth_error_Some in H. lia.
  Qed.
End PObjProofs.

(* select, then filter: with a constructor filter the object holds the filter's image of each selected event *)
Theorem pobj_select_then_filter (P : Type) (f : list P -> result (list P)) s evs st0 :
  pload P None s evs = Ok st0 ->
  pload P (Some f) s evs =
    rbind (mapr f (p_events P st0)) (fun held =>
      Ok {| p_events := held; p_nevents := Z.of_nat (length held); p_counts := label_from P (pfirst s) held |}).
Proof.
  unfold pload. destruct (pvalidate s); cbn [rbind]; [|discriminate].
  destruct (pselect P s evs) as [sel|]; cbn [rbind]; [|discriminate].
  intros H; inversion H; subst; cbn. reflexivity.
Qed.

Example pobj_example :
  pload nat (Some (fun e => Ok (filter Nat.even e))) (PRange 1 2) [[1;2]; [3;4;6]; []; [8]]%nat
  = Ok {| p_events := [[4;6]; []]%nat; p_nevents := 2; p_counts := [(1, 2); (2, 0)]%Z |}.
Proof. reflexivity. Qed.

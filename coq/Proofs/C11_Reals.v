(* C11 over the reals: the bridge between the pairs and the angles.  With z = (cos t, sin t):
   products and conjugates add and negate angles, so Re(z1 z2 conj z3 conj z4) = cos(t1+t2-t3-t4),
   and z^h = (cos(h t), sin(h t)) (De Moivre), which is how __Qn(phi, h*n) is read by the translator. *)
From Coq Require Import Reals RealField Lra List.
From SX Require Import Lib.KRing Lib.Cpx.
Import ListNotations.
Local Open Scope R_scope.

Definition cis (t : R) : cpx R := (cos t, sin t).
Notation Rcmul := (cmul R Rplus Rmult Rminus).
Notation Rconj := (@conj R Ropp).

Lemma cis_mul a b : Rcmul (cis a) (cis b) = cis (a + b).
Proof. unfold cis, cmul, re, im; simpl. rewrite cos_plus, sin_plus. f_equal; ring. Qed.

Lemma cis_conj a : Rconj (cis a) = cis (- a).
Proof. unfold cis, conj, re, im; simpl. rewrite cos_neg, sin_neg. reflexivity. Qed.

Lemma cis_unit a : cunit R 0 1 Rplus Rmult Rminus Ropp (cis a).
Proof.
  unfold cunit. rewrite cis_conj, cis_mul. unfold cis, c1. replace (a + - a) with 0 by ring.
  rewrite cos_0, sin_0. reflexivity.
Qed.

Lemma cis_pow t n : cpow R 0 1 Rplus Rmult Rminus (cis t) n = cis (INR n * t).
Proof.
  unfold cpow. induction n as [|n IH].
  - cbn [kpow INR]. unfold cis, c1. replace (0 * t) with 0 by ring. rewrite cos_0, sin_0. reflexivity.
  - cbn [kpow]. rewrite IH, cis_mul. f_equal. rewrite S_INR. ring.
Qed.

Lemma bridge2 a b : re (Rcmul (cis a) (Rconj (cis b))) = cos (a - b).
Proof. rewrite cis_conj, cis_mul. reflexivity. Qed.

Lemma bridge4 a1 a2 a3 a4 :
  re (Rcmul (cis a1) (Rcmul (cis a2) (Rcmul (Rconj (cis a3)) (Rconj (cis a4))))) = cos (a1 + a2 - a3 - a4).
Proof. rewrite !cis_conj, !cis_mul. unfold cis, re; simpl. f_equal. ring. Qed.

Lemma bridge6 a1 a2 a3 a4 a5 a6 :
  re (Rcmul (cis a1) (Rcmul (cis a2) (Rcmul (cis a3)
       (Rcmul (Rconj (cis a4)) (Rcmul (Rconj (cis a5)) (Rconj (cis a6))))))) = cos (a1 + a2 + a3 - a4 - a5 - a6).
Proof. rewrite !cis_conj, !cis_mul. unfold cis, re; simpl. f_equal. ring. Qed.

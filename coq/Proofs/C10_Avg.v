(* C10: averaging leaves exactly one well-shaped histogram holding the weighted mean, with the weighted
   population standard deviation as error; the shape invariant over whole histories. *)
From Coq Require Import List ZArith QArith Qcanon Bool Arith Lia.
From SX Require Import Model.Histogram Lib.HistBase Proofs.C09_Count Proofs.C09_Scale Proofs.C10_Shape.
Import ListNotations.
Local Open Scope nat_scope.

(* ---------------------------------------------------------------- specification vocabulary *)
(* column i of a 2-D array: the values of bin i over the histograms *)
Definition col (i : nat) (rows : list (list cell)) : list cell := map (fun r => nth i r None) rows.
(* weighted mean  sum_k w_k x_k / sum_k w_k  (non-finite when the weights sum to zero) *)
Definition wmean (ws xs : list cell) : cell := cdiv (csum (map2 cmul ws xs)) (csum ws).

(* ---------------------------------------------------------------- column sums *)
Lemma colsum_fold_nth n i : forall rows, Forall (fun r => length r = n) rows -> i < n ->
  nth i (fold_right (fun r acc => map2 cadd r acc) (zeros n) rows) None = csum (col i rows).
Proof.
  induction 1 as [|r t Hr Ft IH]; intros Hi.
  - simpl. unfold zeros. rewrite (nth_indep _ None c0) by (rewrite repeat_length; exact Hi). apply nth_repeat.
  - cbn [fold_right col map]. rewrite (nth_map2 cadd (None : cell) (None : cell) (None : cell)) by (rewrite ?colsum_fold_length; auto; lia).
    rewrite IH by exact Hi. reflexivity.
Qed.

Lemma colsum_nth n i rows : rows <> [] -> Forall (fun r => length r = n) rows -> i < n ->
  nth i (colsum rows) None = csum (col i rows).
Proof. intros Ne F Hi. unfold colsum. rewrite (ncols_of n) by assumption. now apply colsum_fold_nth. Qed.

Lemma col_weighted i : forall ws rows,
  col i (map2 (fun w r => map (cmul w) r) ws rows) = map2 cmul ws (col i rows).
Proof.
  unfold col, map2. induction ws as [|w ws IH]; intros [|r rows]; simpl; try reflexivity.
  rewrite IH. f_equal. rewrite <- (map_nth (cmul w)). destruct w; reflexivity.
Qed.

Lemma average0_nth n rows ws v i : rows <> [] -> Forall (fun r => length r = n) rows -> i < n ->
  average0 rows ws = Ok v -> nth i v None = wmean ws (col i rows) /\ length ws = length rows.
Proof.
  intros Ne F Hi E. unfold average0 in E.
  destruct (negb (rect rows)); [discriminate|].
  destruct (Nat.eqb (length ws) (length rows)) eqn:L; [|discriminate]. cbn [negb] in E. apply Nat.eqb_eq in L.
  destruct (c_is0 (csum ws)); [discriminate|]. injection E as <-. split; [|exact L].
  change None with ((fun c => cdiv c (csum ws)) None) at 1. rewrite map_nth.
  unfold wmean. f_equal. rewrite (colsum_nth n).
  - now rewrite col_weighted.
  - intros Z. apply (f_equal (@length _)) in Z. rewrite map2_length in Z. simpl in Z. destruct rows; [congruence|]. simpl in *. lia.
  - apply Forall_map2_len; [|exact F]. intros w r Lr. now rewrite map_length.
  - exact Hi.
Qed.

Lemma average0_ws_length rows ws v : average0 rows ws = Ok v -> length ws = length rows.
Proof.
  unfold average0. intros E. destruct (negb (rect rows)); [discriminate|].
  destruct (Nat.eqb (length ws) (length rows)) eqn:L; [|discriminate]. now apply Nat.eqb_eq in L.
Qed.

Section WithSqrt.
  Variable usqrt : Qc -> Qc.

  (* ---------------------------------------------------------------- average_weighted *)
  Lemma average_weighted_spec h ws h' : Shape h -> average_weighted usqrt h ws = Ok h' ->
    Shape h' /\ nhist h' = 1 /\ nbins h' = nbins h /\ edges h' = edges h /\
    exists rows raws avg err raw,
      hH h = A2 rows /\ hRAW h = A2 raws /\ hH h' = A2 [avg] /\ hERR h' = A2 [err] /\ hRAW h' = A2 [raw] /\
      length ws = nhist h /\
      forall i, i < nbins h ->
        nth i avg None = wmean ws (col i rows)
        /\ nth i err None = csqrt usqrt (wmean ws (map (fun x => csq (csub x (wmean ws (col i rows)))) (col i rows)))
        /\ nth i raw None = csum (col i raws).
  Proof.
    intros [Hn [He [SH [SR [SE [SS SY]]]]]] E. unfold average_weighted in E.
    destruct SH as [rows [EH [LH FH]]]. destruct SR as [raws [ER [LR FR]]].
    destruct SY as [srows [EY [LY FY]]]. destruct SS as [crows [ES [LS FS]]].
    rewrite EH, ER, EY, ES in E. cbn [rows_of bind] in E.
    assert (Nr : rows <> []) by (destruct rows; [simpl in LH; lia | congruence]).
    assert (Nw : raws <> []) by (destruct raws; [simpl in LR; lia | congruence]).
    assert (Ns : srows <> []) by (destruct srows; [simpl in LY; lia | congruence]).
    destruct (average0 rows ws) as [avg|] eqn:Ea; [|discriminate]. cbn [bind] in E.
    pose proof (average0_length (nbins h) _ _ _ Nr FH Ea) as La.
    set (vrows := map (fun r => map2 (fun x a => csq (csub x a)) r avg) rows) in *.
    assert (Fv : Forall (fun r => length r = nbins h) vrows).
    { apply Forall_map. eapply Forall_impl; [|exact FH]. intros r Lr. cbv beta in Lr. rewrite map2_length. lia. }
    assert (Nv : vrows <> []) by (unfold vrows; destruct rows; [congruence | discriminate]).
    destruct (average0 vrows ws) as [variance|] eqn:Ev; [|discriminate]. cbn [bind] in E.
    pose proof (average0_length (nbins h) _ _ _ Nv Fv Ev) as Lv.
    assert (Fq : Forall (fun r => length r = nbins h) (map (map csq) srows)).
    { apply Forall_map. eapply Forall_impl; [|exact FY]. intros r Lr. now rewrite map_length. }
    assert (Nq : map (map csq) srows <> []) by (destruct srows; [congruence | discriminate]).
    destruct (average0 (map (map csq) srows) ws) as [savg|] eqn:Es; [|discriminate]. cbn [bind] in E.
    pose proof (average0_length (nbins h) _ _ _ Nq Fq Es) as Ls.
    destruct crows as [|c0row crest]; [simpl in LS; lia|]. cbn [first_row_2d bind] in E.
    injection E as <-. cbn [reshape_row].
    split.
    { unfold Shape; cbn. inversion FS; subst. repeat split; auto; apply Shape2_single;
      rewrite ?map_length; auto. apply colsum_length; auto. }
    cbn. repeat split.
    exists rows, raws, avg, (map (csqrt usqrt) variance), (colsum raws).
    repeat split; auto.
    - rewrite (average0_ws_length _ _ _ Ea). exact LH.
    - destruct (average0_nth (nbins h) _ _ _ i Nr FH H Ea) as [X _]. exact X.
    - change None with (csqrt usqrt None) at 1. rewrite map_nth. f_equal.
      destruct (average0_nth (nbins h) _ _ _ i Nv Fv H Ev) as [X _]. rewrite X. f_equal.
      destruct (average0_nth (nbins h) _ _ _ i Nr FH H Ea) as [Y _]. rewrite <- Y.
      unfold vrows, col. rewrite !map_map. apply map_ext_in. intros r Hr.
      rewrite Forall_forall in FH.
      apply (nth_map2 (fun x a => csq (csub x a)) (None : cell) (None : cell) (None : cell)); [rewrite (FH r Hr) | rewrite La]; exact H.
    - apply (colsum_nth (nbins h)); auto.
  Qed.
End WithSqrt.

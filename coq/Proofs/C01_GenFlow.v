(* C01, clause "including files written by SPARKX's own flow generators":
   the text the GenerateFlow writers emit (Model/GenFlowDoc.v interpreting the templates regenerated from
   GenerateFlow.py) is the rendering of a well-formed Oscar2013 / JETSCAPE document, hence loads to exactly
   its content (C01_oscar_load / C01_jetscape_load).
   Oracles (universally quantified, DESIGN.md 4.4): [dec] = str(int) / "%d" % int, [vals] = "%g" % float,
   tok_float / tok_int = Python float() / int().  Laws assumed of them are hypotheses of the theorems. *)
From Coq Require Import List String Ascii ZArith QArith Bool Arith Lia.
From SX Require Import Lib.Strs Lib.StrLemmas Gen.GenParticleMap Gen.GenGenFlow Model.Oscar Model.OscarDoc
  Model.Jetscape Model.JetscapeDoc Model.GenFlowDoc Proofs.C01_Oscar Proofs.C01_Shapes Proofs.C01_Jetscape.
Import ListNotations.
Local Open Scope string_scope.

(* ------------------------------------------------------------------ lines of a stream of complete writes *)
Definition nlsym : sym := Ch "010"%char.
Definition nlfree (l : list sym) : bool := forallb (fun x => negb (is_nl x)) l.
Definition addnl (b : list sym) : list sym := (b ++ [nlsym])%list.
(* a write that ends its line: exactly one newline, at the end *)
Definition complete (l : list sym) : bool :=
  match rev l with x :: r => is_nl x && nlfree r | [] => false end.

Lemma is_nl_eq x : is_nl x = true -> x = nlsym.
Proof.
  destruct x as [c|s]; cbn; [|discriminate]. intros H. apply Ascii.eqb_eq in H. subst. reflexivity.
Qed.

Lemma forallb_rev {A} (f : A -> bool) l : forallb f (rev l) = forallb f l.
Proof.
  induction l as [|x l IH]; [reflexivity|]. cbn [rev forallb]. rewrite forallb_app, IH. cbn.
  rewrite andb_true_r. apply andb_comm.
Qed.

Lemma complete_split l : complete l = true -> l = addnl (removelast l) /\ nlfree (removelast l) = true.
Proof.
  unfold complete. destruct (rev l) as [|x r] eqn:E; [discriminate|]. intros H.
  apply andb_true_iff in H. destruct H as [Hx Hr]. apply is_nl_eq in Hx. subst x.
  assert (L : l = (rev r ++ [nlsym])%list).
  { rewrite <- (rev_involutive l), E. reflexivity. }
  rewrite L, removelast_last. split; [reflexivity|]. unfold nlfree. rewrite forallb_rev. exact Hr.
Qed.

Lemma lines_acc_line a : forall cur b, nlfree a = true ->
  lines_acc cur (a ++ nlsym :: b)%list = (rev cur ++ a)%list :: lines_acc [] b.
Proof.
  induction a as [|x a IH]; intros cur b H.
  - cbn. rewrite app_nil_r. reflexivity.
  - cbn in H. apply andb_true_iff in H. destruct H as [Hx Ha]. apply negb_true_iff in Hx.
    cbn [app lines_acc]. rewrite Hx. rewrite IH by exact Ha. cbn [rev]. rewrite <- app_assoc. reflexivity.
Qed.

Lemma lines_acc_end a : forall cur, nlfree a = true -> (cur <> [] \/ a <> []) ->
  lines_acc cur a = [(rev cur ++ a)%list].
Proof.
  induction a as [|x a IH]; intros cur H Hne.
  - destruct cur as [|c cur]; [destruct Hne; congruence|]. cbn [lines_acc]. rewrite app_nil_r. reflexivity.
  - cbn in H. apply andb_true_iff in H. destruct H as [Hx Ha]. apply negb_true_iff in Hx.
    cbn [lines_acc]. rewrite Hx. rewrite IH by (try exact Ha; left; discriminate).
    cbn [rev]. rewrite <- app_assoc. reflexivity.
Qed.

Lemma lines_of_writes : forall ws tail, forallb complete ws = true ->
  file_lines (List.concat ws ++ tail)%list = (map (@removelast sym) ws ++ file_lines tail)%list.
Proof.
  induction ws as [|w ws IH]; intros tail H; [reflexivity|].
  cbn in H. apply andb_true_iff in H. destruct H as [Hw Hws].
  destruct (complete_split w Hw) as (Ew & Hf).
  cbn [List.concat map app]. rewrite Ew at 1. unfold addnl, file_lines. rewrite <- !app_assoc. cbn [app].
  rewrite lines_acc_line by exact Hf. cbn [rev app]. f_equal. apply IH, Hws.
Qed.

(* ------------------------------------------------------------------ the stream as a list of writes *)
Section Writes.
  Variable dec : nat -> string.
  Variable vals : nat -> nat -> string -> string.

  Definition event_writes (w : writer) (mult i : nat) : list (list sym) :=
    (map (write (ev_env dec i mult) []) (w_event_pre w)
     ++ map (row_syms dec vals w i) (seq 0 mult)
     ++ map (write (ev_env dec i mult) []) (w_event_post w))%list.

  Lemma flat_map_concat {A B} (f : A -> list B) l : flat_map f l = List.concat (map f l).
  Proof. induction l as [|x l IH]; [reflexivity|]. cbn. rewrite IH. reflexivity. Qed.

  Lemma concat_flat_map {A B} (g : A -> list (list B)) l :
    List.concat (flat_map g l) = flat_map (fun x => List.concat (g x)) l.
  Proof. induction l as [|x l IH]; [reflexivity|]. cbn. rewrite concat_app, IH. reflexivity. Qed.

  Lemma event_syms_writes w mult i : event_syms dec vals w mult i = List.concat (event_writes w mult i).
  Proof.
    unfold event_syms, event_writes, writes. rewrite !concat_app, !flat_map_concat. reflexivity.
  Qed.

  Lemma file_syms_writes w nev mult :
    file_syms dec vals w nev mult
    = (List.concat (map (write no_env []) (w_header w) ++ flat_map (event_writes w mult) (seq 0 nev))
       ++ writes no_env [] (w_trailer w))%list.
  Proof.
    unfold file_syms. rewrite concat_app, concat_flat_map, <- app_assoc. unfold writes at 1.
    rewrite flat_map_concat. f_equal. f_equal.
    apply flat_map_ext. intros i. apply event_syms_writes.
  Qed.
End Writes.

Lemma forallb_flat_map {A B} (p : B -> bool) (g : A -> list B) l :
  (forall x, In x l -> forallb p (g x) = true) -> forallb p (flat_map g l) = true.
Proof.
  induction l as [|x l IH]; intros H; [reflexivity|]. cbn. rewrite forallb_app.
  rewrite H by (left; reflexivity). apply IH. intros y Hy. apply H. right; exact Hy.
Qed.

Lemma forallb_map_seq {B} (p : B -> bool) (g : nat -> B) s n :
  (forall j, (s <= j < s + n)%nat -> p (g j) = true) -> forallb p (map g (seq s n)) = true.
Proof.
  revert s. induction n as [|n IH]; intros s H; [reflexivity|]. cbn. rewrite H by lia. apply IH.
  intros j Hj. apply H. lia.
Qed.

Lemma map_flat_map {A B C} (f : B -> C) (g : A -> list B) l :
  map f (flat_map g l) = flat_map (fun x => map f (g x)) l.
Proof. induction l as [|x l IH]; [reflexivity|]. cbn. rewrite map_app, IH. reflexivity. Qed.

Lemma flat_map_map {A B C} (f : A -> B) (g : B -> list C) l :
  flat_map g (map f l) = flat_map (fun x => g (f x)) l.
Proof. induction l as [|x l IH]; [reflexivity|]. cbn. rewrite IH. reflexivity. Qed.

(* ------------------------------------------------------------------ Oscar2013 writers *)
Definition no_writer : writer := Build_writer "" "" 0 0 [] [] [] [] [] [].
Definition wo : writer := match find (fun w => w_family w =? "Oscar2013") gen_writers with Some w => w | None => no_writer end.
Definition rename (n : string) (w : writer) : writer :=
  {| w_name := n; w_family := w_family w; w_min_events := w_min_events w; w_min_mult := w_min_mult w;
     w_header := w_header w; w_event_pre := w_event_pre w; w_row := w_row w; w_row_args := w_row_args w;
     w_event_post := w_event_post w; w_trailer := w_trailer w |}.

Lemma oscar_all w : In w gen_writers -> w_family w = "Oscar2013" -> w = rename (w_name w) wo.
Proof.
  intros H F. unfold gen_writers in H.
  repeat (destruct H as [H|H]; [subst w; first [discriminate F | reflexivity]|]). destruct H.
Qed.

Lemma render_rename dec vals n w nev mult : gen_render dec vals (rename n w) nev mult = gen_render dec vals w nev mult.
Proof. reflexivity. Qed.

Section O.
  Variable dec : nat -> string.
  Variable vals : nat -> nat -> string -> string.
  Definition o_head (mult i : nat) : line := ["#"; "event"; dec i; "out"; dec mult].
  Definition o_row (i j : nat) : line :=
    ["1"; "1"; "1"; "1"; "0.138"; vals i j "energy"; vals i j "px_"; vals i j "py_"; vals i j "pz_"; "211"; dec j; "1"].
  Definition o_foot (i : nat) : line :=
    ["#"; "event"; dec i; "end"; "0"; "impact"; ""; "-1.000"; "scattering_projectile_target"; "no"].
  Definition o_event (mult i : nat) : event :=
    {| e_head := o_head mult i; e_rows := map (o_row i) (seq 0 mult); e_foot := o_foot i |}.

  Lemma o_event_writes mult i :
    forallb complete (event_writes dec vals wo mult i) = true /\
    map (tokens [" "%char]) (map (@removelast sym) (event_writes dec vals wo mult i)) = render_event (o_event mult i).
  Proof.
    unfold event_writes. split.
    - rewrite !forallb_app. repeat (apply andb_true_iff; split); try reflexivity.
      apply forallb_map_seq. intros j _. reflexivity.
    - rewrite !map_app, !map_map. unfold render_event, o_event. cbn [e_head e_rows e_foot].
      change (o_head mult i :: (map (o_row i) (seq 0 mult) ++ [o_foot i]))%list
        with ([o_head mult i] ++ map (o_row i) (seq 0 mult) ++ [o_foot i])%list.
      apply f_equal2; [reflexivity|]. apply f_equal2; [|reflexivity].
      apply map_ext. intros j. reflexivity.
  Qed.
End O.

Definition oh1 : line := ["#!OSCAR2013"; "particle_lists"; "t"; "x"; "y"; "z"; "mass"; "p0"; "px"; "py"; "pz"; "pdg"; "ID"; "charge"].
Definition oh2 : line := ["#"; "Units:"; "fm"; "fm"; "fm"; "fm"; "GeV"; "GeV"; "GeV"; "GeV"; "GeV"; "none"; "none"; "e"].
Definition oh3 : line := ["#"; "SMASH-2.2"].

Section O2.
  Variable dec : nat -> string.
  Variable vals : nat -> nat -> string -> string.
  Definition o_doc (nev mult : nat) : doc :=
    {| d_h1 := oh1; d_h2 := oh2; d_h3 := oh3; d_events := map (o_event dec vals mult) (seq 0 nev) |}.

  Lemma oscar_render nev mult : gen_render dec vals wo nev mult = render (o_doc nev mult).
  Proof.
    unfold gen_render. rewrite file_syms_writes.
    change (writes no_env [] (w_trailer wo)) with (@nil sym).
    change (seps_of (w_family wo)) with [" "%char].
    rewrite lines_of_writes.
    2:{ rewrite forallb_app. apply andb_true_iff. split; [reflexivity|].
        apply forallb_flat_map. intros i _. apply (o_event_writes dec vals mult i). }
    change (file_lines []) with (@nil (list sym)). rewrite app_nil_r.
    rewrite !map_app. unfold render, o_doc. cbn [d_h1 d_h2 d_h3 d_events].
    change (oh1 :: oh2 :: oh3 :: render_events (map (o_event dec vals mult) (seq 0 nev)))
      with ([oh1; oh2; oh3] ++ render_events (map (o_event dec vals mult) (seq 0 nev)))%list.
    apply f_equal2; [reflexivity|].
    rewrite !map_flat_map. unfold render_events. rewrite flat_map_map.
    apply flat_map_ext. intros i. apply (o_event_writes dec vals mult i).
  Qed.
End O2.

(* "# event <label> end 0 impact  <b> scattering_projectile_target no" - the writers put two blanks before b *)
Definition gen_footer (lt b yn : string) : line :=
  ["#"; "event"; lt; "end"; "0"; "impact"; ""; b; "scattering_projectile_target"; yn].

Lemma gen_footer_kinds lt b yn : numeric lt = true -> numeric b = true -> (yn = "yes" \/ yn = "no") -> b <> "" ->
  let f := gen_footer lt b yn in
  kind_scan f = SEnd /\ kind_loop f = KEnd /\
  nth 0 f "" = "#" /\ (2 <= List.length f)%nat /\ mem_str "event" (removelast_s f) = true /\
  nth_error f 2 = Some lt /\
  (forall tok_float, impact_of tok_float f = match tok_float b with Some v => Ok v | None => Err ValueError end).
Proof.
  intros Hl Hb Hyn Hbne f. unfold f, gen_footer.
  assert (O1 := numeric_contains_out lt Hl). assert (O2 := numeric_contains_out b Hb).
  assert (S1 := numeric_suffix_in lt Hl). assert (S2 := numeric_suffix_in b Hb).
  assert (P1 := numeric_prefix_start lt Hl). assert (P2 := numeric_prefix_start b Hb).
  assert (Eb : (b =? "") = false) by (destruct (String.eqb_spec b ""); [contradiction|reflexivity]).
  repeat split.
  - unfold kind_scan, has, has_mid. cbn [existsb tl removelast_s]. consts. cbn [orb andb]. vars; reflexivity.
  - unfold kind_loop, has, has_suffix_sp, has_sp_prefix. cbn [existsb tl removelast_s].
    rewrite O1, O2, S1, S2, P1, P2.
    destruct Hyn as [-> | ->]; consts; cbn [orb andb]; vars; reflexivity.
  - cbn. lia.
  - intros tok_float. unfold impact_of. cbn [filter]. rewrite Eb.
    destruct Hyn as [-> | ->]; consts; cbn [negb]; destruct (lt =? ""); cbn [negb rev app nth_error]; reflexivity.
Qed.

Section Fill.
  Variable tok_float : string -> option Q.
  Variable tok_int : string -> option Q.
  Variable pdg_valid : Q -> bool.

  Lemma fill_ok : forall m toks p,
    (forall attr slot col, In (attr, (slot, col)) m -> (col < List.length toks)%nat ->
       exists v, cast tok_float tok_int attr (nth col toks "") = Some v) ->
    exists p', fill tok_float tok_int false m toks p = Ok p'.
  Proof.
    induction m as [|[attr [slot col]] m IH]; intros toks p H; [exists p; reflexivity|].
    cbn [fill]. destruct (List.length toks <=? col)%nat eqn:E.
    - apply IH. intros a s c Hin Hlt. exact (H a s c (or_intror Hin) Hlt).
    - apply Nat.leb_gt in E. destruct (H attr slot col (or_introl eq_refl) E) as (v & Hv). rewrite Hv.
      apply IH. intros a s c Hin Hlt. exact (H a s c (or_intror Hin) Hlt).
  Qed.
End Fill.


Section OscarMain.
  Variable tok_float : string -> option Q.
  Variable tok_int : string -> option Q.
  Variable pdg_valid : Q -> bool.
  Variable dec : nat -> string.
  Variable vals : nat -> nat -> string -> string.
  Variables nev mult : nat.
  Hypothesis Hnev : (1 <= nev)%nat.
  Hypothesis Hdec : forall n, (n <= Nat.max nev mult)%nat ->
    numeric (dec n) = true /\ tok_int (dec n) = Some (zq (Z.of_nat n)).
  Hypothesis Hv : forall i j name, (i < nev)%nat -> (j < mult)%nat -> In name (row_holes "%g" wo) ->
    numeric (vals i j name) = true /\ exists v, tok_float (vals i j name) = Some v.
  Hypothesis Hg : forall t, In t (row_lits "%g" wo) -> exists v, tok_float t = Some v.
  Hypothesis Hd : forall t, In t (row_lits "%d" wo) -> exists v, tok_int t = Some v.
  Hypothesis Hb : exists v, tok_float (impact_lit wo) = Some v.

  Definition m2013 : list (string * (nat * nat)) :=
    match assoc "Oscar2013" gen_mapping with Some m => m | None => [] end.

  Lemma o_row_parses i j : (i < nev)%nat -> (j < mult)%nat ->
    exists p, mk_particle tok_float tok_int pdg_valid "Oscar2013" [] (o_row dec vals i j) = Ok p.
  Proof.
    intros Hi Hj.
    replace (mk_particle tok_float tok_int pdg_valid "Oscar2013" [] (o_row dec vals i j))
      with (p <- fill tok_float tok_int false m2013 (o_row dec vals i j) blank ;; Ok (set_pdg_valid pdg_valid p))
      by reflexivity.
    destruct (fill_ok tok_float tok_int m2013 (o_row dec vals i j) blank) as (p' & Hp').
    2:{ rewrite Hp'. eexists. reflexivity. }
    intros attr slot col Hin _. vm_compute in Hin.
    assert (Hvv : forall name, In name (row_holes "%g" wo) -> exists v, tok_float (vals i j name) = Some v)
      by (intros name Hn; exact (proj2 (Hv i j name Hi Hj Hn))).
    assert (Hdj : exists v, tok_int (dec j) = Some v)
      by (eexists; apply (Hdec j); lia).
    repeat (destruct Hin as [Hin|Hin];
            [injection Hin as <- <- <-; unfold cast; cbn [nth o_row];
             first [ apply Hg; vm_compute; tauto | apply Hd; vm_compute; tauto
                   | apply Hvv; vm_compute; tauto | exact Hdj ] |]).
    destruct Hin.
  Qed.

  Notation WFE := (wf_event tok_float tok_int pdg_valid "Oscar2013" []).

  Lemma o_event_wf i : (i < nev)%nat -> WFE i (o_event dec vals mult i).
  Proof.
    intros Hi.
    destruct (Hdec i ltac:(lia)) as (Ni & Ti). destruct (Hdec mult ltac:(lia)) as (Nm & Tm).
    destruct (header_kinds (dec i) (dec mult) Ni Nm) as (H1 & H2 & H3 & H4).
    destruct (gen_footer_kinds (dec i) "-1.000" "no" Ni eq_refl (or_intror eq_refl) ltac:(discriminate))
      as (F1 & F2 & _ & _ & _ & _ & F7).
    unfold wf_event, o_event. cbn [e_head e_rows e_foot].
    repeat split; try assumption.
    - exists (dec i), (dec mult). repeat split; try assumption.
      rewrite map_length, seq_length. exact Tm.
    - apply Forall_forall. intros r Hr. apply in_map_iff in Hr. destruct Hr as (j & <- & Hj).
      apply in_seq in Hj. assert (Hj' : (j < mult)%nat) by lia.
      assert (Hn : forallb numeric (o_row dec vals i j) = true).
      { unfold o_row. cbn [forallb].
        rewrite (proj1 (Hv i j "energy" Hi Hj' ltac:(vm_compute; tauto))),
                (proj1 (Hv i j "px_" Hi Hj' ltac:(vm_compute; tauto))),
                (proj1 (Hv i j "py_" Hi Hj' ltac:(vm_compute; tauto))),
                (proj1 (Hv i j "pz_" Hi Hj' ltac:(vm_compute; tauto))),
                (proj1 (Hdec j ltac:(lia))). reflexivity. }
      destruct (row_kinds _ Hn) as (K1 & K2). repeat split; try assumption.
      apply o_row_parses; assumption.
    - destruct Hb as (v & Hbv). exists v. change (o_foot dec i) with (gen_footer (dec i) "-1.000" "no").
      rewrite F7. change (impact_lit wo) with "-1.000" in Hbv. rewrite Hbv. reflexivity.
  Qed.

  Lemma o_events_wf : forall n s, (s + n <= nev)%nat ->
    wf_events tok_float tok_int pdg_valid "Oscar2013" [] s (map (o_event dec vals mult) (seq s n)).
  Proof.
    induction n as [|n IH]; intros s H; [exact I|].
    cbn [seq map wf_events]. split; [apply o_event_wf; lia|apply IH; lia].
  Qed.

  Lemma o_doc_wf : wf tok_float tok_int pdg_valid (o_doc dec vals nev mult) "Oscar2013" [].
  Proof.
    unfold wf, o_doc. cbn [d_h1 d_h2 d_h3 d_events].
    refine (conj eq_refl (conj (or_introl eq_refl) (conj eq_refl (conj eq_refl (conj eq_refl (conj _ (conj _ _))))))).
    - destruct nev; [lia|discriminate].
    - apply o_events_wf. lia.
    - rewrite map_length, seq_length.
      assert (E : seq 0 nev = (seq 0 (nev - 1) ++ [(nev - 1)%nat])%list).
      { replace nev with (S (nev - 1)) at 1 by lia. rewrite seq_S. reflexivity. }
      rewrite E, map_app. cbn [map]. rewrite last_last. cbn [e_foot o_event].
      destruct (Hdec (nev - 1)%nat ltac:(lia)) as (Nl & Tl).
      destruct (gen_footer_kinds (dec (nev - 1)) "-1.000" "no" Nl eq_refl (or_intror eq_refl) ltac:(discriminate))
        as (_ & _ & G3 & G4 & G5 & G6 & _).
      change (o_foot dec (nev - 1)) with (gen_footer (dec (nev - 1)) "-1.000" "no").
      unfold wf_last. repeat split; try assumption.
      exists (dec (nev - 1)). split; [exact G6|]. rewrite Tl. f_equal. f_equal. lia.
  Qed.
End OscarMain.

(* ------------------------------------------------------------------ JETSCAPE writers *)
Definition wj : writer := match find (fun w => w_family w =? "JETSCAPE") gen_writers with Some w => w | None => no_writer end.

Lemma jetscape_all w : In w gen_writers -> w_family w = "JETSCAPE" -> w = rename (w_name w) wj.
Proof.
  intros H F. unfold gen_writers in H.
  repeat (destruct H as [H|H]; [subst w; first [discriminate F | reflexivity]|]). destruct H.
Qed.

Lemma numeric_contains_sigmaGen t : numeric t = true -> contains "sigmaGen" t = false.
Proof. apply (numeric_no contains "sigmaGen" "s"%char); [apply contains_chars|cbn; tauto|reflexivity]. Qed.
Lemma numeric_contains_Event t : numeric t = true -> contains "Event" t = false.
Proof. apply (numeric_no contains "Event" "v"%char); [apply contains_chars|cbn; tauto|reflexivity]. Qed.
Lemma numeric_contains_Nhadrons t : numeric t = true -> contains "N_hadrons" t = false.
Proof. apply (numeric_no contains "N_hadrons" "N"%char); [apply contains_chars|cbn; tauto|reflexivity]. Qed.

Definition jh0 : line := ["#"; "JETSCAPE_FINAL_STATE"; "v2"; "|"; "N"; "pid"; "status"; "E"; "Px"; "Py"; "Pz"].
Definition jtrail : line := ["#"; "sigmaGen"; "0.0"; "sigmaErr"; "0.0"].
Definition jseps : list ascii := [" "%char; "009"%char].

Section J.
  Variable dec : nat -> string.
  Variable vals : nat -> nat -> string -> string.
  Definition j_head (mult i : nat) : line :=
    ["#"; "Event"; dec (S i); "weight"; "1"; "EPangle"; "0"; "N_hadrons"; dec mult].
  Definition j_row (i j : nat) : line :=
    [dec j; "211"; "27"; vals i j "energy"; vals i j "px_"; vals i j "py_"; vals i j "pz_"].
  Definition j_event (mult i : nat) : jevent :=
    {| je_head := j_head mult i; je_rows := map (j_row i) (seq 0 mult) |}.
  Definition j_doc (nev mult : nat) : jdoc :=
    {| jd_h0 := jh0; jd_events := map (j_event mult) (seq 0 nev); jd_trailer := jtrail |}.

  Lemma j_event_writes mult i :
    forallb complete (event_writes dec vals wj mult i) = true /\
    map (tokens jseps) (map (@removelast sym) (event_writes dec vals wj mult i)) = jrender_event (j_event mult i).
  Proof.
    unfold event_writes. split.
    - rewrite !forallb_app. repeat (apply andb_true_iff; split); try reflexivity.
      apply forallb_map_seq. intros j _. reflexivity.
    - rewrite !map_app, !map_map. unfold jrender_event, j_event. cbn [je_head je_rows].
      change (w_event_post wj) with (@nil (list piece)). cbn [map]. rewrite app_nil_r.
      change (j_head mult i :: map (j_row i) (seq 0 mult))
        with ([j_head mult i] ++ map (j_row i) (seq 0 mult))%list.
      apply f_equal2; [reflexivity|].
      apply map_ext. intros j. reflexivity.
  Qed.

  Lemma jetscape_render nev mult : gen_render dec vals wj nev mult = jrender (j_doc nev mult).
  Proof.
    unfold gen_render. rewrite file_syms_writes.
    change (seps_of (w_family wj)) with jseps.
    rewrite lines_of_writes.
    2:{ rewrite forallb_app. apply andb_true_iff. split; [reflexivity|].
        apply forallb_flat_map. intros i _. apply (j_event_writes mult i). }
    rewrite !map_app. unfold jrender, j_doc. cbn [jd_h0 jd_events jd_trailer].
    change (jh0 :: (jrender_events (map (j_event mult) (seq 0 nev)) ++ [jtrail]))%list
      with ([jh0] ++ (jrender_events (map (j_event mult) (seq 0 nev)) ++ [jtrail]))%list.
    rewrite <- app_assoc.
    apply f_equal2; [reflexivity|]. apply f_equal2; [|reflexivity].
    rewrite !map_flat_map. unfold jrender_events. rewrite flat_map_map.
    apply flat_map_ext. intros i. apply (j_event_writes mult i).
  Qed.
End J.

Lemma jhead_kinds lt ct : numeric lt = true -> numeric ct = true ->
  let h := ["#"; "Event"; lt; "weight"; "1"; "EPangle"; "0"; "N_hadrons"; ct] in
  is_count_line "N_hadrons" h = true /\ is_trailer h = false /\ is_evhead h = true.
Proof.
  intros Hl Hc h. unfold h.
  assert (A1 := numeric_contains_sigmaGen _ Hl). assert (A2 := numeric_contains_sigmaGen _ Hc).
  assert (B1 := numeric_contains_Nhadrons _ Hl).
  repeat split.
  - unfold is_count_line, has. cbn [existsb]. rewrite B1. consts. reflexivity.
  - unfold is_trailer, has. cbn [existsb]. rewrite A1, A2. consts. reflexivity.
  - unfold is_evhead, has. cbn [existsb]. consts. cbn [orb andb]. vars; reflexivity.
Qed.

Section JetMain.
  Variable tok_float : string -> option Q.
  Variable tok_int : string -> option Q.
  Variable pdg_valid : Q -> bool.
  Variable pdg_charge : Q -> Q.
  Variable usqrt : Q -> Q.
  Variable dec : nat -> string.
  Variable vals : nat -> nat -> string -> string.
  Variables nev mult : nat.
  Variables s1 s2 : Q.
  Hypothesis Hnev : (1 <= nev)%nat.
  Hypothesis Hdec : forall n, (n <= Nat.max nev mult)%nat ->
    numeric (dec n) = true /\ tok_int (dec n) = Some (zq (Z.of_nat n)).
  Hypothesis Hv : forall i j name, (i < nev)%nat -> (j < mult)%nat -> In name (row_holes "%g" wj) ->
    numeric (vals i j name) = true /\ exists v, tok_float (vals i j name) = Some v.
  Hypothesis Hg : forall t, In t (row_lits "%g" wj) -> exists v, tok_float t = Some v.
  Hypothesis Hd : forall t, In t (row_lits "%d" wj) -> exists v, tok_int t = Some v.
  Hypothesis Hs : first_floats tok_float 2 (nonempty (trailer_line wj)) = [s1; s2].

  Notation MKJ := (mk_jet_particle tok_float tok_int pdg_valid pdg_charge usqrt).
  Notation DEF := "N_hadrons".

  Lemma jet_row_ok t0 t1 t2 t3 t4 t5 t6 v0 v1 v2 v3 v4 v5 v6 :
    tok_int t0 = Some v0 -> tok_int t1 = Some v1 -> tok_int t2 = Some v2 ->
    tok_float t3 = Some v3 -> tok_float t4 = Some v4 -> tok_float t5 = Some v5 -> tok_float t6 = Some v6 ->
    exists p, MKJ [t0; t1; t2; t3; t4; t5; t6] = Ok p.
  Proof.
    intros H0 H1 H2 H3 H4 H5 H6.
    unfold mk_jet_particle, mk_particle.
    change (mapping_of "JETSCAPE" []) with
      (Ok [("ID_", (11, 0)); ("pdg_", (9, 1)); ("status_", (21, 2)); ("E_", (5, 3)); ("px_", (6, 4)); ("py_", (7, 5)); ("pz_", (8, 6))]%nat
       : result (list (string * (nat * nat)))).
    cbn [bind List.length Nat.eqb orb String.eqb Ascii.eqb Bool.eqb].
    unfold fill, cast. cbn [List.length Nat.leb nth].
    change (mem_str "ID_" gen_float_fields) with false. change (mem_str "pdg_" gen_float_fields) with false.
    change (mem_str "status_" gen_float_fields) with false. change (mem_str "E_" gen_float_fields) with true.
    change (mem_str "px_" gen_float_fields) with true. change (mem_str "py_" gen_float_fields) with true.
    change (mem_str "pz_" gen_float_fields) with true.
    cbn iota. rewrite H0, H1, H2, H3, H4, H5, H6.
    cbn [bind]. eexists. unfold set_pdg_valid, blank. cbn [repeat app set_slot get_slot nth]. reflexivity.
  Qed.

  Notation JWFE := (jwf_event tok_float tok_int pdg_valid pdg_charge usqrt DEF).

  Lemma j_row_wf i j : (i < nev)%nat -> (j < mult)%nat ->
    jwf_row tok_float tok_int pdg_valid pdg_charge usqrt DEF (j_row dec vals i j).
  Proof.
    intros Hi Hj.
    assert (Hvv : forall name, In name (row_holes "%g" wj) ->
              numeric (vals i j name) = true /\ exists v, tok_float (vals i j name) = Some v)
      by (intros name Hn; exact (Hv i j name Hi Hj Hn)).
    destruct (Hvv "energy" ltac:(vm_compute; tauto)) as (N3 & v3 & T3).
    destruct (Hvv "px_" ltac:(vm_compute; tauto)) as (N4 & v4 & T4).
    destruct (Hvv "py_" ltac:(vm_compute; tauto)) as (N5 & v5 & T5).
    destruct (Hvv "pz_" ltac:(vm_compute; tauto)) as (N6 & v6 & T6).
    destruct (Hdec j ltac:(lia)) as (N0 & T0).
    destruct (Hd "211" ltac:(vm_compute; tauto)) as (v1 & T1).
    destruct (Hd "27" ltac:(vm_compute; tauto)) as (v2 & T2).
    assert (Hn : forallb numeric (j_row dec vals i j) = true).
    { unfold j_row. cbn [forallb]. rewrite N0, N3, N4, N5, N6. reflexivity. }
    assert (Hh : has "#" (j_row dec vals i j) = false) by (apply has_numeric; [exact numeric_contains_hash|exact Hn]).
    assert (He : has "Event" (j_row dec vals i j) = false) by (apply has_numeric; [exact numeric_contains_Event|exact Hn]).
    unfold jwf_row, is_count_line, is_trailer, is_evhead. rewrite Hh, He. cbn [andb].
    repeat split. unfold j_row. eapply jet_row_ok; eassumption.
  Qed.

  Lemma j_event_wf i : (i < nev)%nat -> JWFE i (j_event dec vals mult i).
  Proof.
    intros Hi.
    destruct (Hdec (S i) ltac:(lia)) as (Ni & Ti). destruct (Hdec mult ltac:(lia)) as (Nm & Tm).
    destruct (jhead_kinds (dec (S i)) (dec mult) Ni Nm) as (K1 & K2 & K3).
    unfold jwf_event, j_event. cbn [je_head je_rows].
    repeat split; try assumption.
    - exists (dec (S i)), (dec mult). repeat split.
      + rewrite Ti. f_equal. f_equal. lia.
      + rewrite map_length, seq_length. exact Tm.
    - apply Forall_forall. intros r Hr. apply in_map_iff in Hr. destruct Hr as (j & <- & Hj).
      apply in_seq in Hj. apply j_row_wf; [exact Hi|lia].
  Qed.

  Lemma j_events_wf : forall n s, (s + n <= nev)%nat ->
    jwf_events tok_float tok_int pdg_valid pdg_charge usqrt DEF s (map (j_event dec vals mult) (seq s n)).
  Proof.
    induction n as [|n IH]; intros s H; [exact I|].
    cbn [seq map jwf_events]. split; [apply j_event_wf; lia|apply IH; lia].
  Qed.

  Lemma j_doc_wf : jwf tok_float tok_int pdg_valid pdg_charge usqrt DEF (j_doc dec vals nev mult) s1 s2.
  Proof.
    unfold jwf, j_doc. cbn [jd_h0 jd_events jd_trailer].
    refine (conj eq_refl (conj _ (conj _ (conj eq_refl (conj eq_refl _))))).
    - destruct nev; [lia|discriminate].
    - apply j_events_wf. lia.
    - exact Hs.
  Qed.
End JetMain.

(* ------------------------------------------------------------------ the theorems *)
Lemma parse_rows_length tok_float tok_int pdg_valid fmt attrs : forall rows,
  Forall (wf_row tok_float tok_int pdg_valid fmt attrs) rows ->
  List.length (parse_rows tok_float tok_int pdg_valid fmt attrs rows) = List.length rows.
Proof.
  induction 1 as [|r rows (_ & _ & p & Hp) _ IH]; [reflexivity|].
  cbn [parse_rows]. rewrite Hp. cbn [List.length]. rewrite IH. reflexivity.
Qed.

Lemma jparse_rows_length tok_float tok_int pdg_valid pdg_charge usqrt defstr : forall rows,
  Forall (jwf_row tok_float tok_int pdg_valid pdg_charge usqrt defstr) rows ->
  List.length (jparse_rows tok_float tok_int pdg_valid pdg_charge usqrt rows) = List.length rows.
Proof.
  induction 1 as [|r rows (_ & _ & _ & p & Hp) _ IH]; [reflexivity|].
  cbn [jparse_rows]. rewrite Hp. cbn [List.length]. rewrite IH. reflexivity.
Qed.

Lemma o_counts_eq dec vals mult : forall n s,
  counts_from s (map (o_event dec vals mult) (seq s n)) = map (fun i => (Z.of_nat i, Z.of_nat mult)) (seq s n).
Proof.
  induction n as [|n IH]; intros s; [reflexivity|].
  cbn [seq map counts_from o_event e_rows]. rewrite map_length, seq_length, IH. reflexivity.
Qed.

Lemma j_counts_eq dec vals mult : forall n s,
  jcounts_from s (map (j_event dec vals mult) (seq s n))
  = map (fun i => (Z.of_nat i + 1, Z.of_nat mult)%Z) (seq s n).
Proof.
  induction n as [|n IH]; intros s; [reflexivity|].
  cbn [seq map jcounts_from j_event je_rows]. rewrite map_length, seq_length, IH. reflexivity.
Qed.

Lemma wf_events_rows tok_float tok_int pdg_valid fmt attrs : forall evs i,
  wf_events tok_float tok_int pdg_valid fmt attrs i evs ->
  Forall (fun e => Forall (wf_row tok_float tok_int pdg_valid fmt attrs) (e_rows e)) evs.
Proof.
  induction evs as [|e t IH]; intros i H; [constructor|].
  destruct H as ((_ & _ & _ & Hr & _) & Ht). constructor; [exact Hr|exact (IH (S i) Ht)].
Qed.

Lemma jwf_events_rows tok_float tok_int pdg_valid pdg_charge usqrt defstr : forall evs i,
  jwf_events tok_float tok_int pdg_valid pdg_charge usqrt defstr i evs ->
  Forall (fun e => Forall (jwf_row tok_float tok_int pdg_valid pdg_charge usqrt defstr) (je_rows e)) evs.
Proof.
  induction evs as [|e t IH]; intros i H; [constructor|].
  destruct H as ((_ & _ & _ & _ & Hr) & Ht). constructor; [exact Hr|exact (IH (S i) Ht)].
Qed.

(* Every Oscar2013 writer of GenerateFlow, any number of events >= 1 (the writers raise ValueError below
   w_min_events = 1), any multiplicity (the writers refuse multiplicity < w_min_mult = 1; the statement
   holds for 0 as well), any %g texts: the written file is the rendering of a well-formed Oscar2013
   document with nev events of mult particle lines each. *)
Theorem generators_oscar :
  forall tok_float tok_int pdg_valid dec vals w nev mult,
  In w gen_writers -> w_family w = "Oscar2013" -> (w_min_events w <= nev)%nat ->
  (forall n, (n <= Nat.max nev mult)%nat -> numeric (dec n) = true /\ tok_int (dec n) = Some (zq (Z.of_nat n))) ->
  (forall i j name, (i < nev)%nat -> (j < mult)%nat -> In name (row_holes "%g" w) ->
     numeric (vals i j name) = true /\ exists v, tok_float (vals i j name) = Some v) ->
  (forall t, In t (row_lits "%g" w) -> exists v, tok_float t = Some v) ->
  (forall t, In t (row_lits "%d" w) -> exists v, tok_int t = Some v) ->
  (exists v, tok_float (impact_lit w) = Some v) ->
  exists d, wf tok_float tok_int pdg_valid d "Oscar2013" [] /\
            gen_render dec vals w nev mult = render d /\
            List.length (d_events d) = nev /\
            Forall (fun e => List.length (e_rows e) = mult) (d_events d).
Proof.
  intros tf ti pv dec vals w nev mult Hin Hfam Hnev Hdec Hv Hg Hd Hb.
  rewrite (oscar_all w Hin Hfam) in *.
  exists (o_doc dec vals nev mult). split; [|split; [|split]].
  - apply o_doc_wf; assumption.
  - rewrite render_rename. apply oscar_render.
  - unfold o_doc. cbn [d_events]. rewrite map_length, seq_length. reflexivity.
  - unfold o_doc. cbn [d_events]. apply Forall_forall. intros e He. apply in_map_iff in He.
    destruct He as (i & <- & _). cbn [o_event e_rows]. rewrite map_length, seq_length. reflexivity.
Qed.

(* composition with C01_oscar_load: loading the written file gives nev events of mult particles each,
   counts [(i, mult)] under the labels 0.., format Oscar2013 *)
Theorem generators_oscar_load :
  forall tok_float tok_int pdg_valid dec vals w nev mult,
  In w gen_writers -> w_family w = "Oscar2013" -> (w_min_events w <= nev)%nat ->
  (forall n, (n <= Nat.max nev mult)%nat -> numeric (dec n) = true /\ tok_int (dec n) = Some (zq (Z.of_nat n))) ->
  (forall i j name, (i < nev)%nat -> (j < mult)%nat -> In name (row_holes "%g" w) ->
     numeric (vals i j name) = true /\ exists v, tok_float (vals i j name) = Some v) ->
  (forall t, In t (row_lits "%g" w) -> exists v, tok_float t = Some v) ->
  (forall t, In t (row_lits "%d" w) -> exists v, tok_int t = Some v) ->
  (exists v, tok_float (impact_lit w) = Some v) ->
  exists d ld, wf tok_float tok_int pdg_valid d "Oscar2013" [] /\
    gen_render dec vals w nev mult = render d /\
    load tok_float tok_int pdg_valid None (gen_render dec vals w nev mult) SelAll = Ok ld /\
    ld = expected tok_float tok_int pdg_valid d "Oscar2013" [] /\
    l_nevents ld = Z.of_nat nev /\
    l_counts ld = map (fun i => (Z.of_nat i, Z.of_nat mult)) (seq 0 nev) /\
    l_format ld = "Oscar2013" /\
    List.length (l_events ld) = nev /\
    Forall (fun ev => List.length ev = mult) (l_events ld).
Proof.
  intros tf ti pv dec vals w nev mult Hin Hfam Hnev Hdec Hv Hg Hd Hb.
  rewrite (oscar_all w Hin Hfam) in *.
  assert (W := o_doc_wf tf ti pv dec vals nev mult Hnev Hdec Hv Hg Hd Hb).
  exists (o_doc dec vals nev mult), (expected tf ti pv (o_doc dec vals nev mult) "Oscar2013" []).
  rewrite render_rename, oscar_render.
  split; [exact W|]. split; [reflexivity|]. split; [apply load_render; exact W|]. split; [reflexivity|].
  split; [|split; [|split; [reflexivity|split]]].
  - unfold expected, o_doc. cbn [l_nevents d_events]. rewrite map_length, seq_length. reflexivity.
  - unfold expected, o_doc. cbn [l_counts d_events]. apply o_counts_eq.
  - unfold expected, o_doc. cbn [l_events d_events]. rewrite !map_length, seq_length. reflexivity.
  - unfold expected. cbn [l_events]. apply Forall_forall. intros ev Hev. apply in_map_iff in Hev.
    destruct Hev as (e & <- & He).
    destruct W as (_ & _ & _ & _ & _ & _ & Hev & _).
    pose proof (wf_events_rows _ _ _ _ _ _ _ Hev) as Hrows. rewrite Forall_forall in Hrows.
    rewrite (parse_rows_length _ _ _ _ _ _ (Hrows e He)).
    unfold o_doc in He. cbn [d_events] in He. apply in_map_iff in He. destruct He as (i & <- & _).
    cbn [o_event e_rows]. rewrite map_length, seq_length. reflexivity.
Qed.

(* Every JETSCAPE writer of GenerateFlow (hadron files: N_hadrons): the written file - header line with tabs,
   blank-separated event headers labelled 1.., rows, trailer without final newline - is the rendering of a
   well-formed JETSCAPE document; loading it gives nev events of mult particles each and the stated sigmaGen. *)
Theorem generators_jetscape :
  forall tok_float tok_int pdg_valid pdg_charge usqrt dec vals w nev mult s1 s2,
  In w gen_writers -> w_family w = "JETSCAPE" -> (w_min_events w <= nev)%nat ->
  (forall n, (n <= Nat.max nev mult)%nat -> numeric (dec n) = true /\ tok_int (dec n) = Some (zq (Z.of_nat n))) ->
  (forall i j name, (i < nev)%nat -> (j < mult)%nat -> In name (row_holes "%g" w) ->
     numeric (vals i j name) = true /\ exists v, tok_float (vals i j name) = Some v) ->
  (forall t, In t (row_lits "%g" w) -> exists v, tok_float t = Some v) ->
  (forall t, In t (row_lits "%d" w) -> exists v, tok_int t = Some v) ->
  first_floats tok_float 2 (nonempty (trailer_line w)) = [s1; s2] ->
  exists d, jwf tok_float tok_int pdg_valid pdg_charge usqrt "N_hadrons" d s1 s2 /\
            gen_render dec vals w nev mult = jrender d /\
            List.length (jd_events d) = nev /\
            Forall (fun e => List.length (je_rows e) = mult) (jd_events d).
Proof.
  intros tf ti pv pc sq dec vals w nev mult s1 s2 Hin Hfam Hnev Hdec Hv Hg Hd Hs.
  rewrite (jetscape_all w Hin Hfam) in *.
  exists (j_doc dec vals nev mult). split; [|split; [|split]].
  - apply j_doc_wf; assumption.
  - rewrite render_rename. apply jetscape_render.
  - unfold j_doc. cbn [jd_events]. rewrite map_length, seq_length. reflexivity.
  - unfold j_doc. cbn [jd_events]. apply Forall_forall. intros e He. apply in_map_iff in He.
    destruct He as (i & <- & _). cbn [j_event je_rows]. rewrite map_length, seq_length. reflexivity.
Qed.

Theorem generators_jetscape_load :
  forall tok_float tok_int pdg_valid pdg_charge usqrt dec vals w nev mult s1 s2,
  In w gen_writers -> w_family w = "JETSCAPE" -> (w_min_events w <= nev)%nat ->
  (forall n, (n <= Nat.max nev mult)%nat -> numeric (dec n) = true /\ tok_int (dec n) = Some (zq (Z.of_nat n))) ->
  (forall i j name, (i < nev)%nat -> (j < mult)%nat -> In name (row_holes "%g" w) ->
     numeric (vals i j name) = true /\ exists v, tok_float (vals i j name) = Some v) ->
  (forall t, In t (row_lits "%g" w) -> exists v, tok_float t = Some v) ->
  (forall t, In t (row_lits "%d" w) -> exists v, tok_int t = Some v) ->
  first_floats tok_float 2 (nonempty (trailer_line w)) = [s1; s2] ->
  exists d ld, jwf tok_float tok_int pdg_valid pdg_charge usqrt "N_hadrons" d s1 s2 /\
    gen_render dec vals w nev mult = jrender d /\
    jload tok_float tok_int pdg_valid pdg_charge usqrt None (gen_render dec vals w nev mult) "N_hadrons" SelAll = Ok ld /\
    ld = jexpected tok_float tok_int pdg_valid pdg_charge usqrt d s1 s2 /\
    j_nevents ld = Z.of_nat nev /\
    j_counts ld = map (fun i => (Z.of_nat i + 1, Z.of_nat mult)%Z) (seq 0 nev) /\
    j_sigma ld = (s1, s2) /\
    List.length (j_events ld) = nev /\
    Forall (fun ev => List.length ev = mult) (j_events ld).
Proof.
  intros tf ti pv pc sq dec vals w nev mult s1 s2 Hin Hfam Hnev Hdec Hv Hg Hd Hs.
  rewrite (jetscape_all w Hin Hfam) in *.
  assert (W := j_doc_wf tf ti pv pc sq dec vals nev mult s1 s2 Hnev Hdec Hv Hd Hs).
  exists (j_doc dec vals nev mult), (jexpected tf ti pv pc sq (j_doc dec vals nev mult) s1 s2).
  rewrite render_rename, jetscape_render.
  split; [exact W|]. split; [reflexivity|]. split; [apply jload_render; exact W|]. split; [reflexivity|].
  split; [|split; [|split; [reflexivity|split]]].
  - unfold jexpected, j_doc. cbn [j_nevents jd_events]. rewrite map_length, seq_length. reflexivity.
  - unfold jexpected, j_doc. cbn [j_counts jd_events]. apply j_counts_eq.
  - unfold jexpected, j_doc. cbn [j_events jd_events]. rewrite !map_length, seq_length. reflexivity.
  - unfold jexpected. cbn [j_events]. apply Forall_forall. intros ev Hev. apply in_map_iff in Hev.
    destruct Hev as (e & <- & He).
    destruct W as (_ & _ & Hev & _).
    pose proof (jwf_events_rows _ _ _ _ _ _ _ _ Hev) as Hrows. rewrite Forall_forall in Hrows.
    rewrite (jparse_rows_length _ _ _ _ _ _ _ (Hrows e He)).
    unfold j_doc in He. cbn [jd_events] in He. apply in_map_iff in He. destruct He as (i & <- & _).
    cbn [j_event je_rows]. rewrite map_length, seq_length. reflexivity.
Qed.

(* ------------------------------------------------------------------ non-vacuity: concrete oracles meet every
   hypothesis (two events of one particle), for the first Oscar and the first JETSCAPE writer *)
Definition gx_dec (n : nat) : string := match n with 0 => "0" | 1 => "1" | _ => "2" end%nat.
Definition gx_vals (i j : nat) (name : string) : string := if name =? "energy" then "1.5" else "0.5".
Definition gx_tf := table [("1", Some 1); ("0.138", Some (69#500)); ("0.5", Some (1#2)); ("1.5", Some (3#2));
                           ("-1.000", Some (-1#1)); ("0.0", Some 0)]%Q.
Definition gx_ti := table [("0", Some 0); ("1", Some 1); ("2", Some (2#1)); ("211", Some (211#1)); ("27", Some (27#1))]%Q.
Definition gx_pv := pvtable [((211#1)%Q, true)].

Lemma gx_dec_ok n : (n <= Nat.max 2 1)%nat -> numeric (gx_dec n) = true /\ gx_ti (gx_dec n) = Some (zq (Z.of_nat n)).
Proof.
  intros H. destruct n as [|[|[|n]]]; [split; reflexivity|split; reflexivity|split; reflexivity|cbn in H; lia].
Qed.

Lemma gx_vals_ok (w : writer) i j name : numeric (gx_vals i j name) = true /\ exists v, gx_tf (gx_vals i j name) = Some v.
Proof. unfold gx_vals. destruct (name =? "energy"); split; try reflexivity; eexists; reflexivity. Qed.

Ltac in_cases H := repeat (destruct H as [<-|H]; [eexists; reflexivity|]); destruct H.

Lemma generators_example :
  (exists d ld, wf gx_tf gx_ti gx_pv d "Oscar2013" [] /\
     load gx_tf gx_ti gx_pv None (gen_render gx_dec gx_vals wo 2 1) SelAll = Ok ld /\
     l_nevents ld = 2%Z /\ l_counts ld = [(0, 1); (1, 1)]%Z) /\
  (exists d ld, jwf gx_tf gx_ti gx_pv (fun _ => 1%Q) (fun x => x) "N_hadrons" d 0%Q 0%Q /\
     jload gx_tf gx_ti gx_pv (fun _ => 1%Q) (fun x => x) None (gen_render gx_dec gx_vals wj 2 1) "N_hadrons" SelAll = Ok ld /\
     j_nevents ld = 2%Z /\ j_counts ld = [(1, 1); (2, 1)]%Z).
Proof.
  split.
  - destruct (generators_oscar_load gx_tf gx_ti gx_pv gx_dec gx_vals wo 2 1) as (d & ld & W & _ & L & _ & N & C & _).
    + unfold gen_writers. repeat (first [left; reflexivity | right]).
    + reflexivity.
    + apply le_S, le_n.
    + exact gx_dec_ok.
    + intros i j name _ _ _. exact (gx_vals_ok wo i j name).
    + intros t H. vm_compute in H. in_cases H.
    + intros t H. vm_compute in H. in_cases H.
    + eexists. reflexivity.
    + exists d, ld. split; [exact W|]. split; [exact L|]. split; [exact N|exact C].
  - destruct (generators_jetscape_load gx_tf gx_ti gx_pv (fun _ => 1%Q) (fun x => x) gx_dec gx_vals wj 2 1 0%Q 0%Q)
      as (d & ld & W & _ & L & _ & N & C & _).
    + unfold gen_writers. repeat (first [left; reflexivity | right]).
    + reflexivity.
    + apply le_S, le_n.
    + exact gx_dec_ok.
    + intros i j name _ _ _. exact (gx_vals_ok wj i j name).
    + intros t H. vm_compute in H. in_cases H.
    + intros t H. vm_compute in H. in_cases H.
    + reflexivity.
    + exists d, ld. split; [exact W|]. split; [exact L|]. split; [exact N|exact C].
Qed.

Lemma generators_families :
  map w_family gen_writers = ["JETSCAPE"; "JETSCAPE"; "JETSCAPE"; "JETSCAPE"; "Oscar2013"; "Oscar2013"; "Oscar2013"; "Oscar2013"].
Proof. reflexivity. Qed.

(* C15: what happens to the estimate when the DATA are multiplied by c (homogeneous statistic) or shifted (mean).
   The deleted indices depend on (seed+index, n, d) only, so the same rows are removed from the transformed data. *)
From Coq Require Import List ZArith QArith Qround Bool Ring Ring_theory Field Field_theory Lia Lqa Permutation.
From SX Require Import Lib.Py Lib.PyLemmas Lib.KRing Gen.GenJackknife Model.Pool Proofs.C15_Sched Proofs.C15_Formula.
Import ListNotations.

(* ---- np.delete ------------------------------------------------------------------------------------------- *)
Lemma delete_from_map {A B} (g : A -> B) idx : forall data i,
  delete_from B i idx (map g data) = map g (delete_from A i idx data).
Proof.
  induction data as [|a t IH]; intros i; [reflexivity|]. cbn.
  destruct (existsb (Nat.eqb i) idx); rewrite IH; reflexivity.
Qed.

Ltac leb_cases := repeat match goal with
  | H : (_ <=? _)%nat = true |- _ => apply Nat.leb_le in H
  | H : (_ <=? _)%nat = false |- _ => apply Nat.leb_gt in H end.

Lemma filter_len_mono idx i : (length (filter (fun j => S i <=? j)%nat idx) <= length (filter (fun j => i <=? j)%nat idx))%nat.
Proof.
  induction idx as [|a t IH]; [reflexivity|]. cbn [filter].
  destruct (S i <=? a)%nat eqn:E1, (i <=? a)%nat eqn:E2; cbn [length]; leb_cases; lia.
Qed.

Lemma filter_len_step idx i : existsb (Nat.eqb i) idx = true ->
  (S (length (filter (fun j => S i <=? j)%nat idx)) <= length (filter (fun j => i <=? j)%nat idx))%nat.
Proof.
  induction idx as [|a t IH]; [discriminate|]. cbn [existsb filter]. intros H.
  destruct (Nat.eqb_spec i a) as [->|Hne].
  - pose proof (filter_len_mono t a).
    destruct (S a <=? a)%nat eqn:E1, (a <=? a)%nat eqn:E2; cbn [length]; leb_cases; lia.
  - cbn [orb] in H. specialize (IH H).
    destruct (S i <=? a)%nat eqn:E1, (i <=? a)%nat eqn:E2; cbn [length]; leb_cases; lia.
Qed.

Lemma delete_from_length {A} idx : forall (data : list A) i,
  (length data <= length (delete_from A i idx data) + length (filter (fun j => i <=? j)%nat idx))%nat.
Proof.
  induction data as [|a t IH]; intros i; [cbn; lia|]. cbn [delete_from length].
  specialize (IH (S i)).
  destruct (existsb (Nat.eqb i) idx) eqn:E.
  - pose proof (filter_len_step idx i E). lia.
  - pose proof (filter_len_mono idx i). cbn [length]. lia.
Qed.

Lemma filter_len_le {B} (f : B -> bool) l : (length (filter f l) <= length l)%nat.
Proof. induction l as [|a t IH]; [reflexivity|]. cbn. destruct (f a); cbn; lia. Qed.

(* fewer indices than data points: something remains *)
Lemma np_delete_nonempty {A} idx (data : list A) : (length idx < length data)%nat -> np_delete A idx data <> [].
Proof.
  intros H E. pose proof (delete_from_length idx data 0) as L. unfold np_delete in E. rewrite E in L.
  pose proof (filter_len_le (fun j => 0 <=? j)%nat idx). cbn [length] in L. lia.
Qed.

(* ---- the number of deleted points ------------------------------------------------------------------------ *)
Lemma delete_n_lt f n : (0 <= f)%Q -> (f < 1)%Q -> (0 < n)%Z ->
  (0 <= gen_jk_delete_n f n < n)%Z.
Proof.
  intros H0 H1 Hn. unfold gen_jk_delete_n.
  assert (Hn' : (0 < inject_Z n)%Q) by (change 0%Q with (inject_Z 0); rewrite <- Zlt_Qlt; exact Hn).
  match goal with |- (0 <= Qtrunc ?a < n)%Z =>
    assert (E : Qtrunc a = Qtrunc (f * inject_Z n)%Q) by (apply Qtrunc_comp; first [reflexivity | ring]); try rewrite E; clear E end.
  assert (Hp : (0 <= f * inject_Z n)%Q) by (apply Qmult_le_0_compat; [exact H0 | apply Qlt_le_weak, Hn']).
  rewrite Qtrunc_nonneg by exact Hp. split.
  - transitivity (Qfloor (inject_Z 0)); [rewrite Qfloor_Z; reflexivity | apply Qfloor_resp_le, Hp].
  - rewrite Zlt_Qlt. eapply Qle_lt_trans; [apply Qfloor_le|].
    rewrite <- (Qmult_1_l (inject_Z n)) at 2. apply Qmult_lt_compat_r; assumption.
Qed.

Section Data.
  Variable K : Type.
  Variables (k0 k1 : K) (kadd kmul ksub kdiv : K -> K -> K) (kopp kinv : K -> K).
  Hypothesis Fth : field_theory k0 k1 kadd kmul ksub kopp kdiv kinv (@eq K).
  Add Field Kfield15d : Fth.
  Variable ksqrt : K -> K.
  Variable St A : Type.
  Variable reseed : Z -> St.
  Variable draw : St -> nat -> nat -> list nat * St.

  Notation ofZ := (kz k0 k1 kadd kmul kopp).
  Notation spec_sq := (jackknife_spec_sq K k0 k1 kadd kmul ksub kdiv kopp St A reseed draw).
  Notation spec := (jackknife_spec K k0 k1 kadd kmul ksub kdiv kopp ksqrt St A reseed draw).
  Notation tv := (task_value St A K reseed draw).

  Lemma task_value_map (g : A -> A) (h : K -> K) (stat : list A -> K) seed dfrac data i :
    (forall l, stat (map g l) = h (stat l)) ->
    tv stat seed dfrac (map g data) i = h (tv stat seed dfrac data i).
  Proof.
    intros H. unfold task_value. rewrite map_length. unfold np_delete. rewrite delete_from_map. apply H.
  Qed.

  (* data multiplied by c, statistic homogeneous of degree one: samples times c, radicand times c^2 *)
  Theorem spec_sq_scale (g : A -> A) (c : K) (stat : list A -> K) dfrac N seed data :
    (forall l, stat (map g l) = kmul c (stat l)) ->
    spec_sq dfrac N seed (map g data) stat =
    rmap (fun p => (map (kmul c) (fst p), kmul (kmul c c) (snd p))) (spec_sq dfrac N seed data stat).
  Proof.
    intros H. unfold jackknife_spec_sq. rewrite map_length.
    destruct (negb (Qle_bool 0 dfrac) || Qle_bool 1 dfrac); [reflexivity|].
    destruct (N <? 1)%Z; [reflexivity|].
    destruct (gen_jk_delete_n dfrac (Z.of_nat (length data)) <? gen_jk_min_delete)%Z; [reflexivity|].
    cbn [rmap fst snd].
    assert (E : map (tv stat seed dfrac (map g data)) (seq 0 (Z.to_nat N)) =
                map (kmul c) (map (tv stat seed dfrac data) (seq 0 (Z.to_nat N)))).
    { rewrite map_map. apply map_ext. intros i. apply (task_value_map g (kmul c)), H. }
    rewrite E. rewrite (estimate_sq_scale K k0 k1 kadd kmul ksub kdiv kopp kinv Fth). reflexivity.
  Qed.

  Theorem spec_scale (kabs : K -> K) (g : A -> A) (c : K) (stat : list A -> K) dfrac N seed data :
    (forall w, ksqrt (kmul (kmul c c) w) = kmul (kabs c) (ksqrt w)) ->
    (forall l, stat (map g l) = kmul c (stat l)) ->
    spec dfrac N seed (map g data) stat = rmap (kmul (kabs c)) (spec dfrac N seed data stat).
  Proof.
    intros Hs H. unfold jackknife_spec. rewrite (spec_sq_scale g c stat) by exact H.
    destruct (spec_sq dfrac N seed data stat) as [[th v]|e]; [|reflexivity]. cbn. rewrite Hs. reflexivity.
  Qed.

  (* data shifted, statistic moves with the data on every non-empty sub-sample: radicand unchanged *)
  Theorem spec_sq_shift (g : A -> A) (a : K) (stat : list A -> K) dfrac N seed data :
    (forall z, z <> 0%Z -> ofZ z <> k0) ->
    (forall s n d, length (fst (draw s n d)) = d) ->
    (forall l, l <> [] -> stat (map g l) = kadd (stat l) a) ->
    spec_sq dfrac N seed (map g data) stat =
    rmap (fun p => (map (fun t => kadd t a) (fst p), snd p)) (spec_sq dfrac N seed data stat).
  Proof.
    intros Hchar Hdraw H. unfold jackknife_spec_sq. rewrite map_length.
    destruct (negb (Qle_bool 0 dfrac) || Qle_bool 1 dfrac) eqn:E1; [reflexivity|].
    destruct (N <? 1)%Z eqn:E2; [reflexivity|].
    destruct (gen_jk_delete_n dfrac (Z.of_nat (length data)) <? gen_jk_min_delete)%Z eqn:E3; [reflexivity|].
    cbn [rmap fst snd].
    apply orb_false_iff in E1. destruct E1 as [E1a E1b]. apply negb_false_iff in E1a. apply Qle_bool_iff in E1a.
    assert (F1 : (dfrac < 1)%Q).
    { destruct (Qlt_le_dec dfrac 1) as [L|L]; [exact L|]. apply Qle_bool_iff in L. congruence. }
    apply Z.ltb_ge in E2, E3. unfold gen_jk_min_delete in E3.
    assert (Hn : (0 < Z.of_nat (length data))%Z).
    { destruct data as [|x t]; [|cbn [length]; lia]. exfalso. cbn [length] in E3.
      unfold gen_jk_delete_n in E3.
      match type of E3 with (1 <= Qtrunc ?q)%Z => assert (Z0 : Qtrunc q = Qtrunc 0%Q) by (apply Qtrunc_comp; ring) end.
      rewrite Z0 in E3. cbn in E3. lia. }
    pose proof (delete_n_lt dfrac _ E1a F1 Hn) as [D0 D1].
    assert (E : map (tv stat seed dfrac (map g data)) (seq 0 (Z.to_nat N)) =
                map (fun t => kadd t a) (map (tv stat seed dfrac data) (seq 0 (Z.to_nat N)))).
    { rewrite map_map. apply map_ext. intros i. unfold task_value. rewrite map_length.
      unfold np_delete. rewrite delete_from_map. apply H. apply np_delete_nonempty. rewrite Hdraw. lia. }
    rewrite E. rewrite (estimate_sq_shift K k0 k1 kadd kmul ksub kdiv kopp kinv Fth); [reflexivity|].
    rewrite map_length, seq_length. apply Hchar. lia.
  Qed.

  Theorem spec_shift (g : A -> A) (a : K) (stat : list A -> K) dfrac N seed data :
    (forall z, z <> 0%Z -> ofZ z <> k0) ->
    (forall s n d, length (fst (draw s n d)) = d) ->
    (forall l, l <> [] -> stat (map g l) = kadd (stat l) a) ->
    spec dfrac N seed (map g data) stat = spec dfrac N seed data stat.
  Proof.
    intros Hchar Hdraw H. unfold jackknife_spec. rewrite (spec_sq_shift g a stat) by assumption.
    destruct (spec_sq dfrac N seed data stat) as [[th v]|e]; reflexivity.
  Qed.

  (* the formula, for every configuration that is not rejected *)
  Theorem spec_formula (stat : list A -> K) dfrac N seed data th v :
    (forall z, z <> 0%Z -> ofZ z <> k0) ->
    spec_sq dfrac N seed data stat = Ok (th, v) ->
    let n := Z.of_nat (length data) in
    let d := gen_jk_delete_n dfrac n in
    (1 <= d)%Z /\ (1 <= N)%Z /\ length th = Z.to_nat N /\
    th = map (tv stat seed dfrac data) (seq 0 (Z.to_nat N)) /\
    v = kmul (kdiv (ksub (ofZ n) (ofZ d)) (kmul (ofZ d) (ofZ N)))
             (ksum k0 kadd (map (sqdev K kmul ksub (mean_samples K k0 k1 kadd kmul kdiv kopp th)) th)).
  Proof.
    intros Hchar H. unfold jackknife_spec_sq in H.
    destruct (negb (Qle_bool 0 dfrac) || Qle_bool 1 dfrac); [discriminate|].
    destruct (N <? 1)%Z eqn:E2; [discriminate|].
    destruct (gen_jk_delete_n dfrac (Z.of_nat (length data)) <? gen_jk_min_delete)%Z eqn:E3; [discriminate|].
    apply Z.ltb_ge in E2, E3. unfold gen_jk_min_delete in E3. injection H as <- <-.
    cbn zeta. split; [exact E3|]. split; [exact E2|].
    split; [rewrite map_length, seq_length; reflexivity|]. split; [reflexivity|].
    rewrite (estimate_sq_formula K k0 k1 kadd kmul ksub kdiv kopp kinv Fth).
    - rewrite map_length, seq_length, Z2Nat.id by lia. reflexivity.
    - apply Hchar. lia.
    - rewrite map_length, seq_length. apply Hchar. lia.
  Qed.
End Data.

(* ---- the real numbers ------------------------------------------------------------------------------------- *)
From Coq Require Import Reals RealField.

Lemma kpos_R p : kpos 1%R Rplus Rmult p = IZR (Z.pos p).
Proof.
  induction p as [p IH|p IH|]; cbn [kpos]; [rewrite IH | rewrite IH | reflexivity].
  - rewrite Pos2Z.inj_xI, plus_IZR, mult_IZR. ring.
  - rewrite Pos2Z.inj_xO, mult_IZR. ring.
Qed.

Lemma kz_R z : kz 0%R 1%R Rplus Rmult Ropp z = IZR z.
Proof.
  destruct z as [|p|p]; cbn [kz]; [reflexivity | apply kpos_R |].
  rewrite kpos_R. rewrite <- opp_IZR. reflexivity.
Qed.

Lemma char0_R z : z <> 0%Z -> kz 0%R 1%R Rplus Rmult Ropp z <> 0%R.
Proof. intros H. rewrite kz_R. apply not_0_IZR, H. Qed.

Lemma sqrt_scale_R c w : sqrt (c * c * w) = (Rabs c * sqrt w)%R.
Proof.
  rewrite sqrt_mult_alt by (apply Rle_0_sqr). f_equal. apply sqrt_Rsqr_abs.
Qed.

(* ---- end-to-end statements: any two schedules / worker states, the real numbers ---------------------------- *)
Section EndToEnd.
  Variable K : Type.
  Variables (k0 k1 : K) (kadd kmul ksub kdiv : K -> K -> K) (kopp kinv : K -> K).
  Hypothesis Fth : field_theory k0 k1 kadd kmul ksub kopp kdiv kinv (@eq K).
  Variable ksqrt : K -> K.
  Variable St A : Type.
  Variable reseed : Z -> St.
  Variable draw : St -> nat -> nat -> list nat * St.
  Notation ofZ := (kz k0 k1 kadd kmul kopp).
  Notation jk := (jackknife K k0 k1 kadd kmul ksub kdiv kopp ksqrt St A reseed draw).

  Theorem jackknife_formula (stat : list A -> K) dfrac N seed data sched init e :
    (forall z, z <> 0%Z -> ofZ z <> k0) ->
    Permutation (map snd sched) (seq 0 (Z.to_nat N)) ->
    jk dfrac N seed data stat sched init = Ok e ->
    let n := Z.of_nat (length data) in
    let d := gen_jk_delete_n dfrac n in
    let th := map (task_value St A K reseed draw stat seed dfrac data) (seq 0 (Z.to_nat N)) in
    (1 <= d)%Z /\ (1 <= N)%Z /\
    e = ksqrt (kmul (kdiv (ksub (ofZ n) (ofZ d)) (kmul (ofZ d) (ofZ N)))
                    (ksum k0 kadd (map (sqdev K kmul ksub (mean_samples K k0 k1 kadd kmul kdiv kopp th)) th))).
  Proof.
    intros Hchar P H. rewrite (jackknife_schedule_free K k0 k1 kadd kmul ksub kdiv kopp ksqrt St A reseed draw) in H by exact P.
    unfold jackknife_spec in H.
    destruct (jackknife_spec_sq K k0 k1 kadd kmul ksub kdiv kopp St A reseed draw dfrac N seed data stat) as [[th v]|er] eqn:E;
      [|discriminate].
    cbn in H. injection H as <-.
    destruct (spec_formula K k0 k1 kadd kmul ksub kdiv kopp kinv Fth St A reseed draw stat dfrac N seed data th v Hchar E)
      as (Hd & HN & _ & Hth & Hv).
    cbn zeta. split; [exact Hd|]. split; [exact HN|]. rewrite Hv, Hth. reflexivity.
  Qed.

  Theorem jackknife_deterministic (stat : list A -> K) dfrac N seed data sched init sched' init' :
    Permutation (map snd sched) (seq 0 (Z.to_nat N)) -> Permutation (map snd sched') (seq 0 (Z.to_nat N)) ->
    jk dfrac N seed data stat sched init = jk dfrac N seed data stat sched' init'.
  Proof.
    intros P P'. rewrite !(jackknife_schedule_free K k0 k1 kadd kmul ksub kdiv kopp ksqrt St A reseed draw) by assumption.
    reflexivity.
  Qed.
End EndToEnd.

Section RealInstance.
  Variable St A : Type.
  Variable reseed : Z -> St.
  Variable draw : St -> nat -> nat -> list nat * St.
  Notation jkR := (jackknife R 0%R 1%R Rplus Rmult Rminus Rdiv Ropp sqrt St).

  Theorem jackknife_scale_R (g : A -> A) (c : R) (stat : list A -> R) dfrac N seed data sched init sched' init' :
    Permutation (map snd sched) (seq 0 (Z.to_nat N)) -> Permutation (map snd sched') (seq 0 (Z.to_nat N)) ->
    (forall l, stat (map g l) = (c * stat l)%R) ->
    jkR A reseed draw dfrac N seed (map g data) stat sched' init'
    = rmap (Rmult (Rabs c)) (jkR A reseed draw dfrac N seed data stat sched init).
  Proof.
    intros P P' H.
    rewrite !(jackknife_schedule_free R 0%R 1%R Rplus Rmult Rminus Rdiv Ropp sqrt St A reseed draw) by assumption.
    apply (spec_scale R 0%R 1%R Rplus Rmult Rminus Rdiv Ropp Rinv Rfield sqrt St A reseed draw Rabs g c stat);
      [intros w; apply sqrt_scale_R | exact H].
  Qed.
End RealInstance.

Section RealMean.
  Variable St : Type.
  Variable reseed : Z -> St.
  Variable draw : St -> nat -> nat -> list nat * St.
  Notation jkR := (jackknife R 0%R 1%R Rplus Rmult Rminus Rdiv Ropp sqrt St R reseed draw).
  Notation meanR := (kmean R 0%R 1%R Rplus Rmult Rdiv Ropp).

  Theorem jackknife_shift_mean_R (a : R) dfrac N seed (data : list R) sched init sched' init' :
    Permutation (map snd sched) (seq 0 (Z.to_nat N)) -> Permutation (map snd sched') (seq 0 (Z.to_nat N)) ->
    (forall s n d, length (fst (draw s n d)) = d) ->
    jkR dfrac N seed (map (fun x => x + a)%R data) meanR sched' init' = jkR dfrac N seed data meanR sched init.
  Proof.
    intros P P' Hdraw.
    rewrite !(jackknife_schedule_free R 0%R 1%R Rplus Rmult Rminus Rdiv Ropp sqrt St R reseed draw) by assumption.
    apply (spec_shift R 0%R 1%R Rplus Rmult Rminus Rdiv Ropp Rinv Rfield sqrt St R reseed draw (fun x => x + a)%R a meanR);
      [exact char0_R | exact Hdraw |].
    intros l Hl. apply (kmean_shift R 0%R 1%R Rplus Rmult Rminus Rdiv Ropp Rinv Rfield). apply char0_R.
    destruct l; [congruence | cbn [length]; lia].
  Qed.
End RealMean.

(* C08 - the generated kinematic methods (Gen/GenKinematics.v) satisfy their definitions on
   finite inputs away from the regulated directions.  All statements are about the definitions
   regenerated from Particle.py; the domain bounds (1e-9, 1e-6) are the PROPERTY's, the code's
   own thresholds (1e-10, 1e-6) come with the generated text, so a changed threshold that lets
   the regulation reach into the domain breaks these proofs. *)
From Coq Require Import Reals List Bool ZArith Lra Psatz.
From SX Require Import Lib.RealAux Lib.ExtReal Gen.GenKinematics.
Local Open Scope R_scope.

(* ---------------------------------------------------------------- small real facts *)
Lemma div_pos_same_sign a b : 0 < a * b -> 0 < a / b.
Proof.
  intros H. assert (Hb : b <> 0) by (intros ->; lra).
  replace (a / b) with ((a * b) * / (b * b)) by (field; exact Hb).
  apply Rmult_lt_0_compat; [exact H | apply Rinv_0_lt_compat; nra].
Qed.

Lemma div_neg_opp_sign a b : a * b < 0 -> a / b < 0.
Proof.
  intros H. assert (Hb : b <> 0) by (intros ->; lra).
  replace (a / b) with (- ((- (a * b)) * / (b * b))) by (field; exact Hb).
  assert (0 < - (a * b) * / (b * b)); [| lra].
  apply Rmult_lt_0_compat; [lra | apply Rinv_0_lt_compat; nra].
Qed.

Lemma abs_sq_le a b : Rabs a <= Rabs b -> a * a <= b * b.
Proof. unfold Rabs. destruct (Rcase_abs a), (Rcase_abs b); intros; nra. Qed.
Lemma abs_sq_lt a b : Rabs a < Rabs b -> a * a < b * b.
Proof. unfold Rabs. destruct (Rcase_abs a), (Rcase_abs b); intros; nra. Qed.
Lemma abs_sub_ge a b : Rabs a - Rabs b <= Rabs (a - b).
Proof. apply Rabs_triang_inv. Qed.
Lemma abs_sub_ge' a b : Rabs b - Rabs a <= Rabs (a - b).
Proof. rewrite Rabs_minus_sym. apply Rabs_triang_inv. Qed.

Definition S3 (px py pz : R) : R := px * px + py * py + pz * pz.
Definition S2 (px py : R) : R := px * px + py * py.

(* ---------------------------------------------------------------- p_abs, pT_abs *)
Lemma pT_abs_fin p px py : p A_px = Fin px -> p A_py = Fin py ->
  pT_abs p = Fin (sqrt (S2 px py)).
Proof.
  intros Hx Hy. unfold pT_abs, S2. rewrite Hx, Hy. cbn [is_nan orb esqr eadd].
  apply esqrt_fin. nra.
Qed.

Lemma p_abs_fin p px py pz : p A_px = Fin px -> p A_py = Fin py -> p A_pz = Fin pz ->
  p_abs p = Fin (sqrt (S3 px py pz)).
Proof.
  intros Hx Hy Hz. unfold p_abs, S3. rewrite Hx, Hy, Hz. cbn [is_nan orb esqr eadd].
  apply esqrt_fin. nra.
Qed.

Lemma pT_def p px py : p A_px = Fin px -> p A_py = Fin py ->
  exists v, pT_abs p = Fin v /\ 0 <= v /\ v * v = px * px + py * py.
Proof.
  intros Hx Hy. exists (sqrt (S2 px py)). split; [apply pT_abs_fin; assumption |].
  split; [apply sqrt_pos | apply sqrt_sqrt; unfold S2; nra].
Qed.

Lemma p_def p px py pz : p A_px = Fin px -> p A_py = Fin py -> p A_pz = Fin pz ->
  exists v w, p_abs p = Fin v /\ pT_abs p = Fin w /\ 0 <= v /\ v * v = w * w + pz * pz
              /\ v * v = px * px + py * py + pz * pz.
Proof.
  intros Hx Hy Hz. exists (sqrt (S3 px py pz)), (sqrt (S2 px py)).
  split; [apply p_abs_fin; assumption |]. split; [apply pT_abs_fin; assumption |].
  split; [apply sqrt_pos |].
  rewrite !sqrt_sqrt by (unfold S2, S3; nra). unfold S2, S3. split; ring.
Qed.

(* ---------------------------------------------------------------- theta *)
Lemma ratio_bounds px py pz : 0 < S3 px py pz -> -1 <= pz / sqrt (S3 px py pz) <= 1.
Proof.
  intros Hs. assert (HP : 0 < sqrt (S3 px py pz)) by (apply sqrt_lt_R0; exact Hs).
  pose proof (Rabs_le_sqrt3 px py pz) as Hle. fold (S3 px py pz) in Hle.
  assert (Hinv : 0 < / sqrt (S3 px py pz)) by (apply Rinv_0_lt_compat; exact HP).
  assert (H1 : sqrt (S3 px py pz) * / sqrt (S3 px py pz) = 1) by (apply Rinv_r; lra).
  unfold Rdiv. unfold Rabs in Hle. destruct (Rcase_abs pz); split; nra.
Qed.

Lemma ratio_bounds_strict px py pz : 0 < S2 px py -> -1 < pz / sqrt (S3 px py pz) < 1.
Proof.
  intros Hs. assert (Hs3 : 0 < S3 px py pz) by (unfold S2, S3 in *; nra).
  assert (HP : 0 < sqrt (S3 px py pz)) by (apply sqrt_lt_R0; exact Hs3).
  pose proof (Rabs_lt_sqrt3 px py pz Hs) as Hlt. fold (S3 px py pz) in Hlt.
  assert (Hinv : 0 < / sqrt (S3 px py pz)) by (apply Rinv_0_lt_compat; exact HP).
  assert (H1 : sqrt (S3 px py pz) * / sqrt (S3 px py pz) = 1) by (apply Rinv_r; lra).
  unfold Rdiv. unfold Rabs in Hlt. destruct (Rcase_abs pz); split; nra.
Qed.

Lemma theta_fin p px py pz : p A_px = Fin px -> p A_py = Fin py -> p A_pz = Fin pz ->
  0 < S3 px py pz ->
  theta p = Fin (acos (pz / sqrt (S3 px py pz))).
Proof.
  intros Hx Hy Hz Hs. unfold theta. rewrite (p_abs_fin p px py pz Hx Hy Hz). rewrite Hx, Hy, Hz.
  assert (HP : 0 < sqrt (S3 px py pz)) by (apply sqrt_lt_R0; exact Hs).
  cbn [is_nan orb eeq]. rewrite Reqb_false_gt by exact HP.
  rewrite ediv_fin by lra. apply eacos_fin. apply ratio_bounds. exact Hs.
Qed.

Lemma theta_def p px py pz : p A_px = Fin px -> p A_py = Fin py -> p A_pz = Fin pz ->
  0 < px * px + py * py + pz * pz ->
  exists th v, theta p = Fin th /\ p_abs p = Fin v /\ 0 < v /\ 0 <= th <= PI /\ cos th = pz / v.
Proof.
  intros Hx Hy Hz Hs. fold (S3 px py pz) in Hs.
  exists (acos (pz / sqrt (S3 px py pz))), (sqrt (S3 px py pz)).
  split; [apply theta_fin; assumption |]. split; [apply p_abs_fin; assumption |].
  split; [apply sqrt_lt_R0; exact Hs |].
  apply acos_range_cos. apply ratio_bounds. exact Hs.
Qed.

(* ---------------------------------------------------------------- rapidity-like expressions *)
(* 0.5 * log ((a + b) / (a - b)) evaluated on finite a, b with |b| < |a| *)
Lemma half_log_fin a b : Rabs b < Rabs a ->
  emul (Fin (1 / 2)) (elog (ediv (Fin (a + b)) (Fin (a - b)))) = Fin (atanh (b / a)).
Proof.
  intros H. pose proof (abs_sq_lt _ _ H) as Hsq.
  assert (Ha : a <> 0) by (intros ->; rewrite Rabs_R0 in H; pose proof (Rabs_pos b); lra).
  assert (Hd : a - b <> 0) by (intros Hd; assert (a = b) by lra; subst; lra).
  rewrite ediv_fin by exact Hd.
  rewrite elog_fin by (apply div_pos_same_sign; nra).
  cbn [emul]. rewrite half_ln_ratio by assumption. reflexivity.
Qed.

(* the same expression when |b| > |a| : log of a negative number *)
Lemma half_log_nan a b : Rabs a < Rabs b ->
  emul (Fin (1 / 2)) (elog (ediv (Fin (a + b)) (Fin (a - b)))) = NaN.
Proof.
  intros H. pose proof (abs_sq_lt _ _ H) as Hsq.
  assert (Hd : a - b <> 0) by (intros Hd; assert (a = b) by lra; subst; lra).
  rewrite ediv_fin by exact Hd.
  rewrite elog_neg by (apply div_neg_opp_sign; nra).
  reflexivity.
Qed.

Lemma rapidity_unreg p E pz : p A_E = Fin E -> p A_pz = Fin pz ->
  1 / 10000000000 <= Rabs (E - pz) ->
  rapidity p = emul (Fin (1 / 2)) (elog (ediv (Fin (E + pz)) (Fin (E - pz)))).
Proof.
  intros HE Hz Hreg. unfold rapidity. rewrite HE, Hz.
  cbn [is_nan orb esub eadd eabs elt]. rewrite Rltb_false by exact Hreg. reflexivity.
Qed.

Lemma rapidity_def p E pz : p A_E = Fin E -> p A_pz = Fin pz ->
  1 / 1000000000 < Rabs E - Rabs pz ->
  rapidity p = Fin (atanh (pz / E)).
Proof.
  intros HE Hz Hdom. pose proof (abs_sub_ge E pz).
  rewrite (rapidity_unreg p E pz HE Hz) by lra. apply half_log_fin. lra.
Qed.

Lemma pseudorapidity_unreg p px py pz : p A_px = Fin px -> p A_py = Fin py -> p A_pz = Fin pz ->
  1 / 10000000000 <= Rabs (sqrt (S3 px py pz) - pz) ->
  pseudorapidity p =
  emul (Fin (1 / 2)) (elog (ediv (Fin (sqrt (S3 px py pz) + pz)) (Fin (sqrt (S3 px py pz) - pz)))).
Proof.
  intros Hx Hy Hz Hreg. unfold pseudorapidity. rewrite (p_abs_fin p px py pz Hx Hy Hz). rewrite Hx, Hy, Hz.
  cbn [is_nan orb esub eadd eabs elt]. rewrite Rltb_false by exact Hreg. reflexivity.
Qed.

Lemma pseudorapidity_def p px py pz : p A_px = Fin px -> p A_py = Fin py -> p A_pz = Fin pz ->
  1 / 1000000000 < sqrt (S3 px py pz) - Rabs pz ->
  pseudorapidity p = Fin (atanh (pz / sqrt (S3 px py pz))).
Proof.
  intros Hx Hy Hz Hdom.
  assert (HP : Rabs (sqrt (S3 px py pz)) = sqrt (S3 px py pz)) by (apply Rabs_pos_eq, sqrt_pos).
  pose proof (abs_sub_ge (sqrt (S3 px py pz)) pz) as Hge. rewrite HP in Hge.
  rewrite (pseudorapidity_unreg p px py pz Hx Hy Hz) by lra.
  apply half_log_fin. rewrite HP. lra.
Qed.

(* eta = atanh (pz / p) = - ln tan (theta / 2), theta being what theta() returns *)
Lemma pseudorapidity_theta p px py pz : p A_px = Fin px -> p A_py = Fin py -> p A_pz = Fin pz ->
  1 / 1000000000 < sqrt (S3 px py pz) - Rabs pz ->
  exists eta th, pseudorapidity p = Fin eta /\ theta p = Fin th /\ 0 < th < PI /\
                 eta = - ln (tan (th / 2)).
Proof.
  intros Hx Hy Hz Hdom.
  assert (Hs2 : 0 < S2 px py).
  { destruct (Rle_lt_dec (S2 px py) 0) as [Hle | Hlt]; [| exact Hlt]. exfalso.
    assert (Hz0 : S3 px py pz = pz * pz) by (unfold S2, S3 in *; nra).
    rewrite Hz0 in Hdom. replace (pz * pz) with (Rsqr pz) in Hdom by reflexivity.
    rewrite sqrt_Rsqr_abs in Hdom. lra. }
  assert (Hs3 : 0 < S3 px py pz) by (unfold S2, S3 in *; nra).
  pose proof (ratio_bounds_strict px py pz Hs2) as Hc.
  exists (atanh (pz / sqrt (S3 px py pz))), (acos (pz / sqrt (S3 px py pz))).
  split; [apply pseudorapidity_def; assumption |].
  split; [apply theta_fin; assumption |].
  split; [apply acos_bound_lt; exact Hc | apply atanh_acos; exact Hc].
Qed.

(* ---------------------------------------------------------------- mT, mass *)
Lemma mT_def p E pz : p A_E = Fin E -> p A_pz = Fin pz -> Rabs pz <= Rabs E ->
  exists v, mT p = Fin v /\ 0 <= v /\ v * v = E * E - pz * pz.
Proof.
  intros HE Hz Hph. exists (sqrt (E * E - pz * pz)).
  pose proof (abs_sq_le _ _ Hph).
  split; [| split; [apply sqrt_pos | apply sqrt_sqrt; lra]].
  unfold mT. rewrite HE, Hz. cbn [is_nan orb eabs ege ele]. rewrite Rleb_true by exact Hph.
  cbn [esqr esub]. apply esqrt_fin. lra.
Qed.

Lemma mass_massless p : is_nan (p A_E) || is_nan (p A_px) || is_nan (p A_py) || is_nan (p A_pz) = false ->
  ein (p A_pdg) mass_from_energy_momentum_massless_pdg = true ->
  mass_from_energy_momentum p = Fin 0.
Proof. intros Hg Hm. unfold mass_from_energy_momentum. rewrite Hg, Hm. reflexivity. Qed.

Lemma mass_def p E px py pz : p A_E = Fin E -> p A_px = Fin px -> p A_py = Fin py -> p A_pz = Fin pz ->
  ein (p A_pdg) mass_from_energy_momentum_massless_pdg = false ->
  px * px + py * py + pz * pz <= E * E ->
  exists v, mass_from_energy_momentum p = Fin v /\ 0 <= v /\
            v * v = E * E - (px * px + py * py + pz * pz).
Proof.
  intros HE Hx Hy Hz Hm Hph. fold (S3 px py pz) in Hph.
  assert (Hs : 0 <= S3 px py pz) by (unfold S3; nra).
  exists (sqrt (E * E - S3 px py pz)).
  split; [| split; [apply sqrt_pos | rewrite sqrt_sqrt by lra; reflexivity]].
  unfold mass_from_energy_momentum. rewrite Hm, (p_abs_fin p px py pz Hx Hy Hz). rewrite HE, Hx, Hy, Hz.
  cbn [is_nan orb eabs ege ele].
  rewrite Rleb_true.
  - cbn [esqr esub]. rewrite sqrt_sqrt by exact Hs. apply esqrt_fin. lra.
  - rewrite (Rabs_pos_eq (sqrt _)) by apply sqrt_pos.
    rewrite <- (sqrt_Rsqr_abs E). apply sqrt_le_1_alt. unfold Rsqr. exact Hph.
Qed.

(* ---------------------------------------------------------------- proper time, space-time rapidity *)
Lemma proper_time_def p t z : p A_t = Fin t -> p A_z = Fin z -> Rabs z < t ->
  exists v, proper_time p = Fin v /\ 0 <= v /\ v * v = t * t - z * z.
Proof.
  intros Ht Hz Hph. exists (sqrt (t * t - z * z)).
  assert (Hsq : z * z < t * t).
  { apply abs_sq_lt. rewrite (Rabs_pos_eq t); [exact Hph | pose proof (Rabs_pos z); lra]. }
  split; [| split; [apply sqrt_pos | apply sqrt_sqrt; lra]].
  unfold proper_time. rewrite Ht, Hz. cbn [is_nan orb eabs egt elt]. rewrite Rltb_true by exact Hph.
  cbn [esqr esub]. apply esqrt_fin. lra.
Qed.

Lemma spacetime_rapidity_def p t z : p A_t = Fin t -> p A_z = Fin z -> Rabs z < t ->
  spacetime_rapidity p = Fin (atanh (z / t)).
Proof.
  intros Ht Hz Hph. unfold spacetime_rapidity. rewrite Ht, Hz.
  cbn [is_nan orb eabs egt elt]. rewrite Rltb_true by exact Hph.
  cbn [eadd esub]. apply half_log_fin.
  rewrite (Rabs_pos_eq t); [exact Hph | pose proof (Rabs_pos z); lra].
Qed.

(* ---------------------------------------------------------------- angular momentum *)
Lemma angular_momentum_def p x y z px py pz :
  p A_x = Fin x -> p A_y = Fin y -> p A_z = Fin z ->
  p A_px = Fin px -> p A_py = Fin py -> p A_pz = Fin pz ->
  angular_momentum_0 p = Fin (y * pz - z * py) /\
  angular_momentum_1 p = Fin (z * px - x * pz) /\
  angular_momentum_2 p = Fin (x * py - y * px).
Proof.
  intros Hx Hy Hz Hpx Hpy Hpz. unfold angular_momentum_0, angular_momentum_1, angular_momentum_2.
  rewrite Hx, Hy, Hz, Hpx, Hpy, Hpz. cbn [is_nan orb emul esub]. repeat split; reflexivity.
Qed.

(* ---------------------------------------------------------------- phi *)
Lemma phi_def p px py : p A_px = Fin px -> p A_py = Fin py ->
  (1 / 1000000) * (1 / 1000000) < px * px + py * py ->
  phi p = Fin (atan2 py px) /\ - PI < atan2 py px <= PI /\
  cos (atan2 py px) = px / sqrt (px * px + py * py) /\
  sin (atan2 py px) = py / sqrt (px * px + py * py).
Proof.
  intros Hx Hy Hdom. split; [| split; [apply atan2_bound | apply atan2_cos_sin; lra]].
  unfold phi. rewrite (pT_abs_fin p px py Hx Hy). rewrite Hx, Hy.
  cbn [is_nan orb elt]. rewrite Rltb_false.
  - reflexivity.
  - rewrite <- (sqrt_square (1 / 1000000)) by lra. apply sqrt_le_1_alt. unfold S2. lra.
Qed.

(* C03: what follows for every filter from "result = map (filter pred)" / "result = filter epred":
   survivors, order, identity, no duplication, one output event per input event, undefined quantities dropped,
   scalar / list / tuple / array arguments agree. *)
From Coq Require Import List ZArith QArith Qabs Bool String Lia Lqa.
From SX Require Import Model.PyRt Model.FilterSpec Lib.PyRtLemmas Lib.FilterTac Lib.Subseq Gen.GenFilters
  Proofs.C03_Class.
Import ListNotations.
Local Notation length := List.length.

Theorem particle_level_length pred evs : length (particle_level pred evs) = length evs.
Proof. unfold particle_level. apply map_length. Qed.

(* event by event: the survivors are exactly the particles satisfying the predicate, in their original
   order, as the same objects (an order-preserving sub-list of the input event) *)
Theorem particle_level_events pred evs :
  Forall2 (fun out inp => out = filter pred inp /\ subseq out inp) (particle_level pred evs) evs.
Proof.
  unfold particle_level. induction evs as [|ev t IH]; cbn; constructor; [|exact IH].
  split; [reflexivity|apply subseq_filter].
Qed.

Theorem particle_level_survivor pred evs k inp out p :
  nth_error evs k = Some inp -> nth_error (particle_level pred evs) k = Some out ->
  (In p out <-> In p inp /\ pred p = true).
Proof.
  unfold particle_level. intros Hi Ho. rewrite nth_error_map, Hi in Ho. cbn in Ho. injection Ho as <-.
  apply filter_In.
Qed.

(* no particle is duplicated: distinct identities stay distinct *)
Theorem particle_level_nodup pred evs k inp out :
  nth_error evs k = Some inp -> nth_error (particle_level pred evs) k = Some out ->
  NoDup (map pid inp) -> NoDup (map pid out).
Proof.
  unfold particle_level. intros Hi Ho. rewrite nth_error_map, Hi in Ho. cbn in Ho. injection Ho as <-.
  apply subseq_NoDup, subseq_map, subseq_filter.
Qed.

(* event-level cuts: the kept events are an order-preserving sub-list of the input events, each unchanged;
   when none is kept the result is the list with one empty event *)
Theorem event_level_events epred evs :
  (filter epred evs = [] /\ event_level epred evs = [[]]) \/
  (event_level epred evs = filter epred evs /\ subseq (event_level epred evs) evs).
Proof.
  unfold event_level. destruct (filter epred evs) eqn:E; [left; auto|right]. split; [reflexivity|].
  rewrite <- E. apply subseq_filter.
Qed.

(* an undefined (NaN) quantity never passes *)
Lemma fle_nan_l v : fle NaN v = false. Proof. destruct v; reflexivity. Qed.
Lemma fle_nan_r v : fle v NaN = false. Proof. destruct v; reflexivity. Qed.
Theorem between_nan a b : between a b NaN = false.
Proof. unfold between. rewrite !fle_nan_l, !fle_nan_r. destruct (fle a NaN), (fle b NaN); reflexivity. Qed.
Theorem window_nan a lo hi p : oval p a = NaN -> window a lo hi p = false.
Proof. unfold window. intros ->. apply between_nan. Qed.
Theorem window2_nan a c1 c2 p : oval p a = NaN -> window2 a c1 c2 p = false.
Proof. unfold window2. intros ->. apply between_nan. Qed.
Theorem window_sym_nan a c p : oval p a = NaN -> window_sym a c p = false.
Proof. unfold window_sym. intros ->. apply between_nan. Qed.
Theorem holds_nan a p : oval p a = NaN -> holds a p = false /\ vanishes a p = false.
Proof. unfold holds, vanishes. intros ->. split; reflexivity. Qed.
Theorem ids_nan ids p :
  (oval p A_pdg = NaN -> pdg_in ids p = false /\ pdg_notin ids p = false) /\
  (oval p A_status = NaN -> status_in ids p = false).
Proof. unfold pdg_in, pdg_notin, status_in. split; intros ->; auto. Qed.

(* the answer does not depend on how the ids are passed *)
Theorem species_shapes evs s1 s2 ids : shape_ok s1 ids -> shape_ok s2 ids -> all_int64 ids -> int_or_nan A_pdg evs ->
  gen_particle_species evs (v_ids s1 ids) = gen_particle_species evs (v_ids s2 ids) /\
  gen_remove_particle_species evs (v_ids s1 ids) = gen_remove_particle_species evs (v_ids s2 ids).
Proof.
  intros H1 H2 H64 Hnr. rewrite !particle_species_ok, !remove_particle_species_ok by assumption. auto.
Qed.
Theorem status_shapes evs s1 s2 ids : shape_ok s1 ids -> shape_ok s2 ids -> all_int64 ids -> no_raise [A_status] evs ->
  gen_particle_status evs (v_ids s1 ids) = gen_particle_status evs (v_ids s2 ids).
Proof. intros H1 H2 H64 Hnr. rewrite !particle_status_ok by assumption. reflexivity. Qed.

(* data of the non-vacuity example in Properties/C03.v: a particle with identity i and status st, nothing else set *)
Definition ex_p (i : Z) (st : Fval) : pobs := mkP i (fun a => match a with A_status => Ret st | _ => Ret NaN end).
Lemma example_status_list :
  match gen_particle_status [[ex_p 1 (Fin 1); ex_p 2 NaN; ex_p 3 (Fin 0)]; []; [ex_p 4 (Fin 2); ex_p 5 (Fin 1)]]
                            (VList [VInt 1; VInt 0]) with
  | Ok out => map (map pid) out = [[1; 3]; []; [5]]%Z
  | Err _ => False
  end.
Proof. vm_compute. reflexivity. Qed.

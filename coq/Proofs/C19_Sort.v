(* C19: the descending insertion sort of the model is a sorted permutation; order facts on the sorted record. *)
From Coq Require Import List ZArith QArith Bool Sorted Permutation Lia.
From SX Require Import Lib.Py Gen.GenCentrality Model.Centrality.
Import ListNotations.

Section Sort.
  Variable T : Type.
  Variable leb : T -> T -> bool.
  Hypothesis leb_total : forall a b, leb a b = true \/ leb b a = true.
  Hypothesis leb_trans : forall a b c, leb a b = true -> leb b c = true -> leb a c = true.

  Lemma leb_refl a : leb a a = true.
  Proof. destruct (leb_total a a); assumption. Qed.

  Definition desc (l : list T) : Prop := StronglySorted (fun a b => leb b a = true) l.

  Lemma ins_desc_perm x l : Permutation (ins_desc T leb x l) (x :: l).
  Proof.
    induction l as [|y t IH]; cbn; [apply Permutation_refl|].
    destruct (leb y x); [apply Permutation_refl|].
    eapply perm_trans; [apply perm_skip, IH | apply perm_swap].
  Qed.

  Lemma ins_desc_sorted x l : desc l -> desc (ins_desc T leb x l).
  Proof.
    induction l as [|y t IH]; intros Hs; cbn.
    - constructor; constructor.
    - inversion Hs as [|? ? Ht Hall]; subst.
      destruct (leb y x) eqn:E.
      + constructor; [exact Hs|]. constructor; [exact E|].
        rewrite Forall_forall in *. intros b Hb. eapply leb_trans; [apply Hall, Hb | exact E].
      + constructor; [apply IH, Ht|].
        assert (Hxy : leb x y = true) by (destruct (leb_total x y) as [H|H]; [exact H | congruence]).
        rewrite Forall_forall in *. intros b Hb.
        apply (Permutation_in _ (ins_desc_perm x t)) in Hb. destruct Hb as [<-|Hb]; [exact Hxy | apply Hall, Hb].
  Qed.

  Lemma sort_desc_perm l : Permutation (sort_desc T leb l) l.
  Proof.
    induction l as [|x t IH]; cbn; [constructor|].
    eapply perm_trans; [apply ins_desc_perm | apply perm_skip, IH].
  Qed.

  Lemma sort_desc_sorted l : desc (sort_desc T leb l).
  Proof. induction l as [|x t IH]; cbn; [constructor | apply ins_desc_sorted, IH]. Qed.

  Lemma sort_desc_length l : length (sort_desc T leb l) = length l.
  Proof. apply Permutation_length, sort_desc_perm. Qed.

  (* a later rank never holds a larger multiplicity *)
  Lemma desc_nth l : desc l -> forall i j a b, (i <= j)%nat ->
    nth_error l i = Some a -> nth_error l j = Some b -> leb b a = true.
  Proof.
    induction 1 as [|x t Ht IH Hall]; intros i j a b Hij Ha Hb.
    - destruct i; discriminate.
    - destruct i as [|i]; destruct j as [|j]; cbn in Ha, Hb.
      + injection Ha as <-. injection Hb as <-. apply leb_refl.
      + injection Ha as <-. rewrite Forall_forall in Hall. apply Hall. eapply nth_error_In, Hb.
      + lia.
      + eapply IH; [|exact Ha|exact Hb]. lia.
  Qed.
End Sort.

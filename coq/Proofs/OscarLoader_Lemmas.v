(* Facts about the run-time fragment Model/OscarLoaderRt.v used by Proofs/OscarLoader_Source.v: what the raw-string
   tests of the loader (`"#" in line`, `" end " in line`, `"in " in line`, line.replace("\n","").split(" "),
   readline) say about a line that is the join of its tokens, and the list operations behind the numpy calls. *)
From Coq Require Import List String Ascii ZArith QArith Bool Arith Lia.
From SX Require Import Lib.Strs Lib.StrLemmas Lib.Split Lib.DecStr Lib.CutSplit Model.Oscar Model.OscarLoaderRt.
Import ListNotations.
Local Open Scope string_scope.

(* ------------------------------------------------------------------ rendered lines *)
Lemma line_ok_sp l : line_ok l -> forallb (no_char sp) l = true.
Proof.
  intros (_ & H). rewrite forallb_forall in *. intros t Ht. specialize (H t Ht).
  apply andb_true_iff in H. tauto.
Qed.
Lemma line_ok_nl l : line_ok l -> no_char nlc (join sp l) = true.
Proof.
  intros (_ & H). apply no_char_join; [discriminate|]. rewrite forallb_forall in *. intros t Ht.
  specialize (H t Ht). apply andb_true_iff in H. tauto.
Qed.

Lemma append_assoc a b c : (a ++ b) ++ c = a ++ (b ++ c).
Proof. induction a as [|x a IH]; cbn; [reflexivity|now rewrite IH]. Qed.
Lemma append_nil_r a : a ++ "" = a.
Proof. induction a as [|x a IH]; cbn; [reflexivity|now rewrite IH]. Qed.

Lemma render_lines_cons l t : render_lines (l :: t) = render_line l ++ render_lines t.
Proof. unfold render_line. rewrite append_assoc. reflexivity. Qed.
Lemma render_lines_app a b : render_lines (a ++ b) = render_lines a ++ render_lines b.
Proof.
  induction a as [|l a IH]; [reflexivity|]. cbn [app render_lines]. rewrite IH, !append_assoc. reflexivity.
Qed.

(* readline *)
Lemma read_line_app x rest : no_char nlc x = true -> read_line (x ++ String nlc rest) = (x ++ String nlc "", rest).
Proof.
  induction x as [|a x IH]; intros H.
  - cbn. reflexivity.
  - cbn in H. apply andb_true_iff in H. destruct H as [Ha Hx]. apply negb_true_iff in Ha.
    cbn [append read_line]. rewrite Ha, (IH Hx). reflexivity.
Qed.
Lemma read_line_lines l t : line_ok l -> read_line (render_lines (l :: t)) = (render_line l, render_lines t).
Proof. intros H. cbn [render_lines]. apply read_line_app, line_ok_nl, H. Qed.

Lemma length_append a b : String.length (a ++ b) = (String.length a + String.length b)%nat.
Proof. induction a as [|x a IH]; cbn; [reflexivity|now rewrite IH]. Qed.

(* line.replace("\n", "") *)
Lemma replace_nl x : no_char nlc x = true -> replace_char nlc "" (x ++ String nlc "") = x.
Proof.
  induction x as [|a x IH]; intros H; [reflexivity|].
  cbn in H. apply andb_true_iff in H. destruct H as [Ha Hx]. apply negb_true_iff in Ha.
  cbn [append replace_char]. rewrite Ha, (IH Hx). reflexivity.
Qed.
Lemma tokens_of_line l : line_ok l ->
  split_on sp (replace_char nlc "" (render_line l)) = l.
Proof.
  intros H. unfold render_line. rewrite (replace_nl _ (line_ok_nl l H)).
  apply split_join; [apply H|apply line_ok_sp, H].
Qed.

(* ------------------------------------------------------------------ `p in line` *)
Lemma in_plain p l : no_char sp p = true -> no_char nlc p = true -> p <> "" -> line_ok l ->
  contains p (render_line l) = has p l.
Proof.
  intros Hs Hn Hne Hl. unfold render_line. rewrite (contains_line p Hn Hne). apply contains_join; assumption.
Qed.
Lemma in_word p l : no_char sp p = true -> no_char nlc p = true -> line_ok l ->
  contains (word p) (render_line l) = has_mid p l.
Proof.
  intros Hs Hn Hl. unfold render_line. rewrite contains_line.
  - apply contains_word_join; [exact Hs|apply line_ok_sp, Hl].
  - change (word p) with (String sp "" ++ (p ++ String sp "")). rewrite !no_char_app. unfold nlc in Hn. rewrite Hn. reflexivity.
  - discriminate.
Qed.

(* " p": a token that is not the first one starts with p *)
Lemma contains_sp_prefix_step p : forall t R, no_char sp t = true ->
  contains (String sp p) (t ++ String sp R) = prefix p R || contains (String sp p) R.
Proof.
  induction t as [|b t IH]; intros R Ht.
  - cbn [append contains prefix]. destruct (Ascii.ascii_dec sp sp); [reflexivity|congruence].
  - cbn in Ht. apply andb_true_iff in Ht. destruct Ht as [Hb Ht]. apply negb_true_iff in Hb.
    change (String b t ++ String sp R) with (String b (t ++ String sp R)). cbn [contains].
    rewrite (IH R Ht). cbn [prefix].
    destruct (Ascii.ascii_dec sp b) as [E|_]; [subst; rewrite Ascii.eqb_refl in Hb; discriminate|reflexivity].
Qed.
Lemma contains_sp_prefix_join p : no_char sp p = true -> p <> "" ->
  forall l, forallb (no_char sp) l = true -> contains (String sp p) (join sp l) = has_sp_prefix p l.
Proof.
  intros Hp Hne. assert (Hq : In sp (chars (String sp p))) by (left; reflexivity).
  induction l as [|t l IH]; intros Hl; [reflexivity|].
  cbn in Hl. apply andb_true_iff in Hl. destruct Hl as [Ht Hl].
  destruct l as [|t' l'].
  - cbn [join]. unfold has_sp_prefix. cbn. apply blankfree_no_contains; assumption.
  - change (join sp (t :: t' :: l')) with (t ++ String sp (join sp (t' :: l'))).
    rewrite (contains_sp_prefix_step p t _ Ht), (IH Hl).
    unfold has_sp_prefix. cbn [tl existsb]. f_equal.
    destruct l' as [|t'' l'']; [reflexivity|].
    change (join sp (t' :: t'' :: l'')) with (t' ++ String sp (join sp (t'' :: l''))).
    apply prefix_app_sep; assumption.
Qed.
Lemma in_sp_prefix p l : no_char sp p = true -> no_char nlc p = true -> p <> "" -> line_ok l ->
  contains (String sp p) (render_line l) = has_sp_prefix p l.
Proof.
  intros Hs Hn Hne Hl. unfold render_line. rewrite contains_line.
  - apply contains_sp_prefix_join; [exact Hs|exact Hne|apply line_ok_sp, Hl].
  - change (String sp p) with (String sp "" ++ p). rewrite no_char_app. unfold nlc in Hn. rewrite Hn. reflexivity.
  - discriminate.
Qed.

(* "p ": a token that is not the last one ends with p *)
Lemma chars_inj a : forall b, chars a = chars b -> a = b.
Proof.
  induction a as [|x a IH]; intros [|y b] H; cbn in H; try discriminate; [reflexivity|].
  injection H as -> H. f_equal. apply IH, H.
Qed.
Lemma srev_app a b : srev (a ++ b) = srev b ++ srev a.
Proof. apply chars_inj. rewrite chars_app, !srev_chars, chars_app. apply rev_app_distr. Qed.
Lemma srev_involutive a : srev (srev a) = a.
Proof. apply chars_inj. rewrite !srev_chars. apply rev_involutive. Qed.

Lemma suffix_iff p s : suffix p s = true <-> exists x, s = x ++ p.
Proof.
  unfold suffix. split.
  - intros H. destruct (prefix_split _ _ H) as (r & Hr). exists (srev r).
    rewrite <- (srev_involutive s), Hr, srev_app, srev_involutive. reflexivity.
  - intros (x & ->). rewrite srev_app. apply prefix_app.
Qed.
Lemma suffix_cons p b t : suffix p (String b t) = String.eqb p (String b t) || suffix p t.
Proof.
  apply eq_true_iff_eq. rewrite orb_true_iff, !suffix_iff, String.eqb_eq. split.
  - intros ([|c x] & H); [left; symmetry; exact H|]. right. cbn in H. injection H as _ H. exists x. exact H.
  - intros [->|(x & ->)]; [exists ""; reflexivity|exists (String b x); reflexivity].
Qed.
Lemma suffix_empty p : p <> "" -> suffix p "" = false.
Proof.
  intros Hne. destruct (suffix p "") eqn:E; [|reflexivity]. apply suffix_iff in E. destruct E as (x & H).
  destruct x; cbn in H; [congruence|discriminate].
Qed.

Lemma prefix_sp_first p r R : no_char sp p = true -> p <> "" -> prefix (p ++ r) (String sp R) = false.
Proof.
  intros Hp Hne. destruct p as [|a p]; [congruence|]. cbn in Hp. apply andb_true_iff in Hp.
  destruct Hp as [Ha _]. apply negb_true_iff in Ha. cbn.
  destruct (Ascii.ascii_dec a sp) as [E|_]; [subst; rewrite Ascii.eqb_refl in Ha; discriminate|reflexivity].
Qed.

Lemma contains_suffix_sp_step p : no_char sp p = true -> p <> "" -> forall t R, no_char sp t = true ->
  contains (p ++ String sp "") (t ++ String sp R) = suffix p t || contains (p ++ String sp "") R.
Proof.
  intros Hp Hne. induction t as [|b t IH]; intros R Ht.
  - cbn [append contains]. rewrite (prefix_sp_first p _ R Hp Hne), (suffix_empty p Hne). reflexivity.
  - pose proof Ht as Ht'. cbn in Ht. apply andb_true_iff in Ht. destruct Ht as [Hb Ht].
    change (String b t ++ String sp R) with (String b (t ++ String sp R)). cbn [contains].
    rewrite (IH R Ht).
    change (String b (t ++ String sp R)) with (String b t ++ String sp R).
    rewrite (prefix_word p (String b t) R Hp Ht'), suffix_cons, orb_assoc. reflexivity.
Qed.
Lemma contains_suffix_sp_join p : no_char sp p = true -> p <> "" ->
  forall l, forallb (no_char sp) l = true -> contains (p ++ String sp "") (join sp l) = has_suffix_sp p l.
Proof.
  intros Hp Hne. assert (Hq : In sp (chars (p ++ String sp ""))).
  { rewrite chars_app. apply in_or_app. right. left. reflexivity. }
  induction l as [|t l IH]; intros Hl.
  - cbn. destruct p; [congruence|reflexivity].
  - cbn in Hl. apply andb_true_iff in Hl. destruct Hl as [Ht Hl].
    destruct l as [|t' l'].
    + cbn [join]. unfold has_suffix_sp. cbn. apply blankfree_no_contains; assumption.
    + change (join sp (t :: t' :: l')) with (t ++ String sp (join sp (t' :: l'))).
      rewrite (contains_suffix_sp_step p Hp Hne t _ Ht), (IH Hl). reflexivity.
Qed.
Lemma in_suffix_sp p l : no_char sp p = true -> no_char nlc p = true -> p <> "" -> line_ok l ->
  contains (p ++ String sp "") (render_line l) = has_suffix_sp p l.
Proof.
  intros Hs Hn Hne Hl. unfold render_line. rewrite contains_line.
  - apply contains_suffix_sp_join; [exact Hs|exact Hne|apply line_ok_sp, Hl].
  - rewrite no_char_app. unfold nlc in Hn. rewrite Hn. reflexivity.
  - destruct p; [congruence|discriminate].
Qed.

(* the tests of the two loops on a rendered line *)
Lemma raw_kind_loop l : line_ok l ->
  (contains "event" (render_line l) && (contains "out" (render_line l) || (contains "in " (render_line l) || contains " start" (render_line l))),
   contains "#" (render_line l), contains "end" (render_line l), contains "out" (render_line l))
  = (has "event" l && (has "out" l || (has_suffix_sp "in" l || has_sp_prefix "start" l)), has "#" l, has "end" l, has "out" l).
Proof.
  intros H.
  rewrite (in_plain "event" l), (in_plain "out" l), (in_plain "#" l), (in_plain "end" l)
    by (reflexivity || discriminate || exact H).
  change "in " with ("in" ++ String sp ""). rewrite (in_suffix_sp "in" l) by (reflexivity || discriminate || exact H).
  change " start" with (String sp "start"). rewrite (in_sp_prefix "start" l) by (reflexivity || discriminate || exact H).
  reflexivity.
Qed.
Lemma raw_kind_scan l : line_ok l ->
  (contains "#" (render_line l), contains " end " (render_line l), contains " out " (render_line l))
  = (has "#" l, has_mid "end" l, has_mid "out" l).
Proof.
  intros H. rewrite (in_plain "#" l) by (reflexivity || discriminate || exact H).
  change " end " with (word "end"). change " out " with (word "out").
  rewrite !(in_word _ l) by (reflexivity || exact H). reflexivity.
Qed.

(* ------------------------------------------------------------------ sequences *)
Lemma zlen_nonneg {A} (l : list A) : (0 <= zlen l)%Z.
Proof. unfold zlen. lia. Qed.
Lemma pyget_nat {A} (l : list A) (k : nat) :
  pyget l (Z.of_nat k) = match nth_error l k with Some x => Ok x | None => Err IndexError end.
Proof.
  unfold pyget. assert (H : (Z.of_nat k <? 0)%Z = false) by (apply Z.ltb_ge; lia).
  rewrite H, H, Nat2Z.id. reflexivity.
Qed.
Lemma pyget_pos {A} (l : list A) (z : Z) : (0 <= z)%Z ->
  pyget l z = match nth_error l (Z.to_nat z) with Some x => Ok x | None => Err IndexError end.
Proof. intros H. rewrite <- (Z2Nat.id z H) at 1. apply pyget_nat. Qed.

Lemma nth_error_map_some {A B} (f : A -> B) l k :
  nth_error (map f l) k = option_map f (nth_error l k).
Proof. revert k; induction l as [|x l IH]; intros [|k]; cbn; auto. Qed.

Lemma strs_of_enc l : strs_of (map OStr l) = Some l.
Proof. induction l as [|x l IH]; cbn; [reflexivity|]. unfold strs_of in IH. rewrite IH. reflexivity. Qed.
Lemma parts_of_enc l : parts_of (map OPart l) = Some l.
Proof. induction l as [|x l IH]; cbn; [reflexivity|]. unfold parts_of in IH. rewrite IH. reflexivity. Qed.

Lemma py_in_strs p l : py_in (OStr p) (OList (map OStr l)) = Ok (mem_str p l).
Proof.
  cbn [py_in]. induction l as [|x l IH]; [reflexivity|]. cbn [map existsM py_eq bind].
  rewrite String.eqb_sym. cbn [mem_str existsb]. destruct (String.eqb p x); [reflexivity|]. exact IH.
Qed.

Lemma zrange_n_app a n m : zrange_n a (n + m) = (zrange_n a n ++ zrange_n (a + Z.of_nat n) m)%list.
Proof.
  revert a; induction n as [|n IH]; intros a.
  - cbn. rewrite Z.add_0_r. reflexivity.
  - cbn [Nat.add zrange_n app]. rewrite IH. do 3 f_equal. lia.
Qed.

Lemma fold_leftM_app {S A} (f : S -> A -> result S) l1 l2 s :
  fold_leftM f (l1 ++ l2)%list s = (s' <- fold_leftM f l1 s ;; fold_leftM f l2 s').
Proof.
  revert s; induction l1 as [|x l1 IH]; intros s; [reflexivity|].
  cbn [app fold_leftM]. destruct (f s x); cbn [bind]; [apply IH|reflexivity].
Qed.

(* C04: the hand model Model/Storer.v equals what tools/py2coq/gen_storer.py regenerates from the source of
   BaseStorer.py / Oscar.py / Jetscape.py / ParticleObjectStorer.py on every run (Gen/GenStorer.v, Gallina over
   the Python/numpy fragment Model/StorerRt.v).  Loops are handled through the behaviour of their bodies on
   one index (proved by computation from the generated text), so the proofs do not depend on how the
   translator names or nests its intermediate bindings. *)
From Coq Require Import String List ZArith Bool QArith Lia.
From SX Require Import Lib.Py Model.Storer Model.StorerSpec Model.StorerRt Gen.GenStorer Proofs.C04_Core Proofs.C04_Add Proofs.C04_Run.
Import ListNotations.
Local Open Scope Z_scope.

(* ------------------------------------------------------------------ sequences *)
Lemma zlen_cons {A} (a : A) l : zlen (a :: l) = zlen l + 1.
Proof. unfold zlen. cbn [length]. rewrite Nat2Z.inj_succ. lia. Qed.
Lemma zlen_ge0 {A} (l : list A) : 0 <= zlen l.
Proof. unfold zlen. lia. Qed.
Lemma zlen_ltb0 {A} (l : list A) : (zlen l <? 0) = false.
Proof. apply Z.ltb_ge, zlen_ge0. Qed.
Lemma zlen_to_nat {A} (l : list A) : Z.to_nat (zlen l) = length l.
Proof. unfold zlen. lia. Qed.

(* l[k] for k >= 0 is the head of what is left after k elements *)
Lemma pyget_skipn {A} (l : list A) (k : nat) :
  pyget l (Z.of_nat k) = match skipn k l with x :: _ => Ok x | [] => Err IndexError end.
Proof.
  unfold pyget.
  assert (H1 : (Z.of_nat k <? 0) = false) by (apply Z.ltb_ge; lia).
  rewrite H1, H1, Nat2Z.id. clear H1.
  revert l; induction k as [|k IH]; intros [|a l]; cbn [nth_error skipn]; try reflexivity. apply IH.
Qed.

Lemma pyset_at {A} (pre : list A) x suf v :
  pyset (pre ++ x :: suf) (Z.of_nat (length pre)) v = Ok (pre ++ v :: suf).
Proof.
  unfold pyset.
  assert (H1 : (Z.of_nat (length pre) <? 0) = false) by (apply Z.ltb_ge; lia).
  rewrite H1, H1. rewrite app_length. simpl length.
  assert (H2 : (Z.of_nat (length pre + S (length suf)) <=? Z.of_nat (length pre)) = false) by (apply Z.leb_gt; lia).
  rewrite H2. simpl orb. cbv iota. rewrite Nat2Z.id.
  rewrite firstn_app, Nat.sub_diag, firstn_all. simpl firstn. rewrite app_nil_r.
  replace (S (length pre)) with (length pre + 1)%nat by lia.
  rewrite skipn_app. rewrite skipn_all2 by lia.
  replace (length pre + 1 - length pre)%nat with 1%nat by lia. reflexivity.
Qed.

Lemma pyget_at' {A} (pre : list A) x suf k : length pre = k -> pyget (pre ++ x :: suf) (Z.of_nat k) = Ok x.
Proof. intros <-. rewrite pyget_skipn, skipn_app, skipn_all, Nat.sub_diag. reflexivity. Qed.
Lemma pyset_at' {A} (pre : list A) x suf v k : length pre = k -> pyset (pre ++ x :: suf) (Z.of_nat k) v = Ok (pre ++ v :: suf).
Proof. intros <-. apply pyset_at. Qed.
Lemma pyset_1 {A} (a b : A) t v : pyset (a :: b :: t) 1 v = Ok (a :: v :: t).
Proof. exact (pyset_at [a] b t v). Qed.
(* a loop that fills row i of an (n,2) array with (lab i, size of event i), i = 0 .. n-1 *)
Lemma fold_fill (body : pv -> pv -> result pv) (l0 : Z) (ev : list event) :
  (forall pre e suf P Q, ev = pre ++ e :: suf -> length P = length pre ->
     body (VArr (A2 (P ++ (0, 0) :: Q))) (VInt (Z.of_nat (length pre)))
     = Ok (VArr (A2 (P ++ (Z.of_nat (length pre) + l0, zlen e) :: Q)))) ->
  fold_leftM body (map VInt (zrange 0 (zlen ev))) (VArr (A2 (repeat (0, 0) (length ev))))
  = Ok (VArr (A2 (recount l0 ev))).
Proof.
  intros Hb. unfold zrange. rewrite Z.sub_0_r, zlen_to_nat.
  assert (G : forall suf pre P, ev = pre ++ suf -> length P = length pre ->
     fold_leftM body (map VInt (zrange_n (Z.of_nat (length pre)) (length suf))) (VArr (A2 (P ++ repeat (0, 0) (length suf))))
     = Ok (VArr (A2 (P ++ recount (Z.of_nat (length pre) + l0) suf)))).
  { induction suf as [|e suf IH]; intros pre P He HP.
    - reflexivity.
    - cbn [length zrange_n map fold_leftM repeat recount].
      rewrite (Hb pre e suf P _ He HP). cbn [rbind].
      specialize (IH (pre ++ [e]) (P ++ [(Z.of_nat (length pre) + l0, zlen e)])).
      rewrite !app_length in IH. cbn [length] in IH.
      replace (Z.of_nat (length pre + 1)) with (Z.of_nat (length pre) + 1) in IH by lia.
      rewrite <- !app_assoc in IH. cbn [app] in IH.
      replace (Z.of_nat (length pre) + 1 + l0) with (Z.of_nat (length pre) + l0 + 1) in IH by lia. apply IH; [exact He | lia]. }
  specialize (G ev [] [] eq_refl eq_refl). cbn [length app] in G. rewrite Z.add_0_l in G. exact G.
Qed.

Lemma source_update_after_filter s : gen_update_after_filter (VObj s) = rmap VObj (update_after_filter s).
Proof.
  destruct s as [c ev cnt n xe xf xp xs]. unfold gen_update_after_filter, update_after_filter.
  destruct cnt as [rows|vals|vals].
  - destruct rows as [|[l0 c0] rows].
    + cbn. destruct ev; reflexivity.
    + cbn -[zrange]. rewrite zlen_ltb0, zlen_to_nat. cbn [rbind].
      rewrite (fold_fill _ l0).
      * cbn. destruct ev; reflexivity.
      * intros pre e suf P Q He HP. subst ev. cbn.
        rewrite (pyget_at' P), (pyget_at' pre) by auto. cbn.
        rewrite (pyset_at' P) by auto. cbn.
        rewrite (pyget_at' P) by auto. cbn. rewrite (pyset_at' P) by auto. reflexivity.
  - destruct vals as [|a vals].
    + cbn. destruct ev; reflexivity.
    + destruct ev as [|e0 ev]; [reflexivity|].
      destruct vals as [|b vals]; [reflexivity|].
      cbn. rewrite pyset_1. reflexivity.
  - reflexivity.
Qed.

Lemma source_filter_method s o : gen_filter_method (gfun o) (VObj s) = rmap VObj (apply_filter s o).
Proof.
  unfold gen_filter_method, apply_filter. cbn [py_getattr rbind py_apply_filter py_setattr].
  rewrite source_update_after_filter. destruct (update_after_filter _); reflexivity.
Qed.

Lemma source_accessors s :
  gen_num_events (VObj s) = Ok (VInt (nevents s)) /\
  gen_num_output_per_event (VObj s) = Ok (VArr (counts s)) /\
  gen_particle_objects_list (VObj s) = Ok (VEvs (events s)).
Proof. repeat split. Qed.

Lemma skipn_S_tl {A} (l : list A) : forall k, skipn (S k) l = tl (skipn k l).
Proof. induction l as [|x l IH]; intros [|k]; try reflexivity. cbn [skipn] in *. apply IH. Qed.

Definition rows_pv (l : list pid) : pv := plres_pv (Flat l).

Lemma append_row a p : py_append (rows_pv a) (VRow p) = Ok (rows_pv (a ++ [p])).
Proof. destruct a as [|x a]; [reflexivity|]. cbn. destruct (a ++ [p]) eqn:E; [destruct a; discriminate|reflexivity]. Qed.

(* the inner loop of particle_list(): rows of the first c particles of one event *)
Lemma fold_take (body : pv -> pv -> result pv) (oe : option event) (c : Z) :
  (forall acc i, body acc (VInt i) =
     (p <- match oe with Some e => pyget e i | None => Err IndexError end ;; py_append acc (VRow p))) ->
  fold_leftM body (map VInt (zrange 0 c)) VL0 = rmap rows_pv (take_event c oe).
Proof.
  intros Hb. unfold take_event, zrange. rewrite Z.sub_0_r.
  destruct (c <=? 0) eqn:Ec.
  { apply Z.leb_le in Ec. replace (Z.to_nat c) with 0%nat by lia. reflexivity. }
  apply Z.leb_gt in Ec.
  destruct oe as [e|].
  2:{ destruct (Z.to_nat c) eqn:En; [lia|]. cbn. rewrite Hb. reflexivity. }
  assert (G : forall m k a, (k <= length e)%nat ->
             fold_leftM body (map VInt (zrange_n (Z.of_nat k) m)) (rows_pv a)
             = if (Z.of_nat (k + m) <=? zlen e) then Ok (rows_pv (a ++ firstn m (skipn k e))) else Err IndexError).
  { induction m as [|m IH]; intros k a Hk.
    - cbn [zrange_n map fold_leftM firstn]. rewrite app_nil_r.
      replace (Z.of_nat (k + 0) <=? zlen e) with true; [reflexivity|].
      symmetry. apply Z.leb_le. unfold zlen. lia.
    - cbn [zrange_n map fold_leftM]. rewrite Hb, pyget_skipn.
      destruct (skipn k e) as [|x r] eqn:Es.
      + cbn [rbind]. replace (Z.of_nat (k + S m) <=? zlen e) with false; [reflexivity|].
        symmetry. apply Z.leb_gt. unfold zlen.
        assert (length (skipn k e) = 0%nat) by (rewrite Es; reflexivity). rewrite skipn_length in H. lia.
      + cbn [rbind]. rewrite append_row. cbn [rbind].
        assert (Hl : (S k <= length e)%nat).
        { assert (length (skipn k e) = S (length r)) by (rewrite Es; reflexivity). rewrite skipn_length in H. lia. }
        replace (Z.of_nat k + 1) with (Z.of_nat (S k)) by lia.
        rewrite (IH (S k) (a ++ [x]) Hl).
        replace (S k + m)%nat with (k + S m)%nat by lia.
        assert (Hs : skipn (S k) e = r).
        { rewrite skipn_S_tl, Es. reflexivity. }
        rewrite Hs. cbn [firstn]. rewrite <- app_assoc. reflexivity. }
  specialize (G (Z.to_nat c) 0%nat [] (Nat.le_0_l _)). cbn [Z.of_nat rows_pv plres_pv] in G.
  cbn [rows_pv plres_pv]. rewrite G. cbn [app skipn Nat.add].
  replace (Z.of_nat (Z.to_nat c)) with c by lia.
  destruct (c <=? zlen e); reflexivity.
Qed.

Definition rowss_pv (l : list (list pid)) : pv := plres_pv (Nested l).

Lemma append_rows a r : py_append (rowss_pv a) (rows_pv r) = Ok (rowss_pv (a ++ [r])).
Proof.
  destruct a as [|x a]; destruct r as [|y r]; reflexivity.
Qed.

(* the outer loop of particle_list() *)
Lemma fold_plist (body : pv -> pv -> result pv) (cnts : list Z) (evs : list event) (n : Z) :
  (forall acc (j : nat), body acc (VInt (Z.of_nat j)) =
     (c <- pyget cnts (Z.of_nat j) ;; r <- take_event c (hd_error (skipn j evs)) ;; py_append acc (rows_pv r))) ->
  fold_leftM body (map VInt (zrange 0 n)) VL0 = rmap rowss_pv (plist_loop (Z.to_nat n) cnts evs).
Proof.
  intros Hb. unfold zrange. rewrite Z.sub_0_r.
  assert (G : forall m j acc,
     fold_leftM body (map VInt (zrange_n (Z.of_nat j) m)) (rowss_pv acc)
     = rmap (fun rest => rowss_pv (acc ++ rest)) (plist_loop m (skipn j cnts) (skipn j evs))).
  { induction m as [|m IH]; intros j acc.
    - cbn. rewrite app_nil_r. reflexivity.
    - cbn [zrange_n map fold_leftM plist_loop]. rewrite Hb, pyget_skipn.
      destruct (skipn j cnts) as [|c cs] eqn:Ec; [reflexivity|]. cbn [rbind].
      destruct (take_event c (hd_error (skipn j evs))) as [r|e]; [|reflexivity]. cbn [rbind].
      rewrite append_rows. cbn [rbind].
      replace (Z.of_nat j + 1) with (Z.of_nat (S j)) by lia.
      rewrite IH, !skipn_S_tl, Ec. cbn [tl].
      destruct (plist_loop m cs (tl (skipn j evs))) as [rest|e]; [|reflexivity].
      cbn [rbind rmap]. rewrite <- app_assoc. reflexivity. }
  specialize (G (Z.to_nat n) 0%nat []). cbn [Z.of_nat skipn rowss_pv plres_pv app] in G.
  rewrite G. destruct (plist_loop _ _ _); reflexivity.
Qed.

Lemma source_particle_list s : gen_particle_list (VObj s) = rmap plres_pv (particle_list s).
Proof.
  destruct s as [c ev cnt n xe xf xp xs]. unfold gen_particle_list, particle_list.
  cbn [py_getattr rbind py_is_none nevents counts events py_eq as_int].
  destruct (n =? 0) eqn:E0; [reflexivity|].
  destruct (n =? 1) eqn:E1.
  - destruct cnt as [[|[l0 c0] rows]|[|a vals]|[|a vals]]; try reflexivity.
    cbn -[zrange]. change (Pos.to_nat 1) with 1%nat. cbn -[zrange]. rewrite (fold_take _ (hd_error ev)).
    + destruct (take_event c0 (hd_error ev)); reflexivity.
    + intros acc i. destruct ev as [|e0 ev]; [reflexivity|]. cbn.
      destruct (pyget e0 i); cbn; [destruct (py_append _ _); reflexivity | reflexivity].
  - destruct cnt as [rows|vals|vals]; try reflexivity.
    cbn -[zrange]. rewrite (fold_plist _ (map snd rows) ev).
    + destruct (plist_loop _ _ _); reflexivity.
    + intros acc j. cbn -[zrange pyget]. change (fun r : Z * Z => snd r) with (@snd Z Z).
      destruct (pyget (map snd rows) (Z.of_nat j)) as [cj|e]; [|reflexivity]. cbn -[zrange pyget].
      rewrite (fold_take _ (hd_error (skipn j ev))).
      * destruct (take_event cj _); cbn; [destruct (py_append _ _); reflexivity | reflexivity].
      * intros a i. rewrite pyget_skipn. destruct (skipn j ev) as [|e0 r]; [reflexivity|]. cbn -[pyget].
        destruct (pyget e0 i); cbn; [destruct (py_append _ _); reflexivity | reflexivity].
Qed.

Lemma cls_eqb_eq a b : cls_eqb a b = true -> a = b.
Proof. destruct a, b; simpl; congruence. Qed.
Lemma cls_eqb_refl a : cls_eqb a a = true.
Proof. destruct a; reflexivity. Qed.

(* what the hook does to the copy of the left operand *)
Definition merged (a : storer) (x : list Z * Q) : pv := VObj (set_xsigma (set_xend a (fst x)) (snd x)).

Lemma source_update_after_merge a b : scls a = scls b ->
  gen_update_after_merge (VObj a) (VObj b) = rmap (merged a) (update_after_merge a b).
Proof.
  destruct a as [ca eva cnta na xea xfa xpa xsa], b as [cb evb cntb nb xeb xfb xpb xsb]. cbn [scls]. intros <-.
  unfold gen_update_after_merge, update_after_merge, merged. destruct ca; cbn -[Qred Qplus Qdiv].
  - destruct (xfa =? xfb); reflexivity.
  - destruct (xpa =? xpb); [|reflexivity]. cbn -[Qred Qplus Qdiv].
    unfold set_xsigma, set_xend. cbn -[Qred Qplus Qdiv]. do 2 f_equal. f_equal.
    apply Qred_complete. rewrite Qred_correct. reflexivity.
  - reflexivity.
Qed.

Lemma firstn_min {A} (l : list A) n : 0 <= n -> firstn (Z.to_nat (Z.min n (zlen l))) l = firstn (Z.to_nat n) l.
Proof.
  intros Hn. destruct (Z.le_gt_cases n (zlen l)).
  - rewrite Z.min_l by lia. reflexivity.
  - rewrite Z.min_r by lia. rewrite zlen_to_nat, firstn_all, firstn_all2; [reflexivity|]. unfold zlen in *. lia.
Qed.
Lemma skipn_min {A} (l : list A) n : 0 <= n -> skipn (Z.to_nat (Z.min n (zlen l))) l = skipn (Z.to_nat n) l.
Proof.
  intros Hn. destruct (Z.le_gt_cases n (zlen l)).
  - rewrite Z.min_l by lia. reflexivity.
  - rewrite Z.min_r by lia. rewrite zlen_to_nat, skipn_all, skipn_all2; [reflexivity|]. unfold zlen in *. lia.
Qed.

Lemma source_add a b : gen_add (VObj a) (VObj b) = rmap VObj (add a b).
Proof.
  destruct a as [ca eva cnta na xea xfa xpa xsa], b as [cb evb cntb nb xeb xfb xpb xsb].
  unfold gen_add, add.
  cbn [py_is_storer notM rbind negb py_same_type scls py_getattr py_is_none counts nevents events py_gt py_cmp as_int andM].
  rewrite !Z.gtb_ltb.
  destruct (cls_eqb ca cb) eqn:Ec; [|reflexivity]. apply cls_eqb_eq in Ec. subst cb.
  cbn [negb rbind py_shallow_copy]. rewrite source_update_after_merge by reflexivity.
  unfold py_reshape_m1_2, held, continue_labels. cbn [nevents events].
  destruct (reshape2 cnta) as [ra|e]; [|destruct (0 <? na), (0 <? nb); reflexivity].
  destruct (reshape2 cntb) as [rb|e]; [|destruct (0 <? na), (0 <? nb); reflexivity].
  destruct (0 <? na) eqn:Ha; destruct (0 <? nb) eqn:Hb;
    cbn -[pyget update_after_merge firstn skipn Z.min Z.max]; rewrite ?app_nil_r.
  - destruct (pyget (ra ++ rb) (na - 1)) as [r1|e]; [|reflexivity].
    cbn -[pyget update_after_merge firstn skipn Z.min Z.max].
    destruct (pyget (ra ++ rb) na) as [r2|e]; [|reflexivity].
    cbn -[pyget update_after_merge firstn skipn Z.min Z.max].
    unfold slice_start. apply Z.ltb_lt in Ha.
    replace (na <? 0) with false by (symmetry; apply Z.ltb_ge; lia).
    rewrite firstn_min, skipn_min by lia.
    destruct (update_after_merge _ _) as [x|e]; reflexivity.
  - destruct (update_after_merge _ _) as [x|e]; reflexivity.
  - destruct (update_after_merge _ _) as [x|e]; reflexivity.
  - destruct (update_after_merge _ _) as [x|e]; reflexivity.
Qed.

(* the same filling loop written over enumerate(events) *)
Lemma fold_fill_enum (body : pv -> pv * pv -> result pv) (first : Z) (ev : list event) :
  (forall pre e suf P Q, ev = pre ++ e :: suf -> length P = length pre ->
     body (VArr (A2 (P ++ (0, 0) :: Q))) (VInt (Z.of_nat (length pre)), VEv e)
     = Ok (VArr (A2 (P ++ (first + Z.of_nat (length pre), zlen e) :: Q)))) ->
  fold_leftM body (combine (map VInt (zrange 0 (zlen (map VEv ev)))) (map VEv ev)) (VArr (A2 (repeat (0, 0) (length ev))))
  = Ok (VArr (A2 (recount first ev))).
Proof.
  intros Hb. unfold zrange. rewrite Z.sub_0_r, zlen_to_nat, map_length.
  assert (G : forall suf pre P, ev = pre ++ suf -> length P = length pre ->
     fold_leftM body (combine (map VInt (zrange_n (Z.of_nat (length pre)) (length suf))) (map VEv suf))
                (VArr (A2 (P ++ repeat (0, 0) (length suf))))
     = Ok (VArr (A2 (P ++ recount (first + Z.of_nat (length pre)) suf)))).
  { induction suf as [|e suf IH]; intros pre P He HP.
    - reflexivity.
    - cbn [length zrange_n map combine fold_leftM repeat recount].
      rewrite (Hb pre e suf P _ He HP). cbn [rbind].
      specialize (IH (pre ++ [e]) (P ++ [(first + Z.of_nat (length pre), zlen e)])).
      rewrite !app_length in IH. cbn [length] in IH.
      replace (Z.of_nat (length pre + 1)) with (Z.of_nat (length pre) + 1) in IH by lia.
      rewrite <- !app_assoc in IH. cbn [app] in IH.
      rewrite Z.add_assoc in IH. apply IH; [exact He | lia]. }
  specialize (G ev [] [] eq_refl eq_refl). cbn [length app] in G. rewrite Z.add_0_r in G. exact G.
Qed.

Lemma source_pobj_init first s :
  gen_pobj_init_recount (VInt first) (VObj s)
  = Ok (VObj (set_counts (set_nevents s (zlen (events s))) (A2 (recount first (events s))))).
Proof.
  destruct s as [c ev cnt n xe xf xp xs]. unfold gen_pobj_init_recount.
  cbn -[zrange]. rewrite zlen_ltb0, zlen_to_nat. cbn [rbind].
  rewrite (fold_fill_enum _ first).
  - reflexivity.
  - intros pre e suf P Q He HP. cbn.
    rewrite (pyget_at' P) by auto. cbn. rewrite (pyset_at' P) by auto. cbn.
    rewrite (pyget_at' P) by auto. cbn. rewrite (pyset_at' P) by auto. reflexivity.
Qed.

(* ParticleObjectStorer(...): BaseStorer.__init__ stores the loader's tuple, then the recount above *)
Lemma source_load_pobj evs sel filt st :
  load_pobj evs sel filt = Ok st ->
  exists first l n c, pobj_loader evs sel filt = Ok (first, l, n, c) /\
    gen_pobj_init_recount (VInt first) (VObj (mkS CPobj l c n [] 0 0 0%Q)) = Ok (VObj st).
Proof.
  unfold load_pobj. destruct (pobj_loader evs sel filt) as [[[[first l] n] c]|e]; [|discriminate].
  cbn [rbind]. intros H. injection H as <-. exists first, l, n, c. split; [reflexivity|].
  rewrite source_pobj_init. reflexivity.
Qed.

(* ------------------------------------------------------------------ tables *)
Lemma source_add_assigned :
  gen_add_assigned = [("loader_", true); ("num_events_", true); ("num_output_per_event_", true); ("particle_list_", true)]%string.
Proof. reflexivity. Qed.

Lemma source_handover :
  gen_handover_targets = ["particle_list_"; "num_events_"; "num_output_per_event_"; "custom_attr_list"]%string /\
  map (fun r => (fst r, firstn 3 (snd r))) gen_loader_returns
  = [("Oscar", ["self.set_particle_list(kwargs)"; "self.num_events_"; "self.num_output_per_event_"]);
     ("Jetscape", ["self.set_particle_list(kwargs)"; "self.num_events_"; "self.num_output_per_event_"]);
     ("PObj", ["self.set_particle_list(kwargs)"; "self.num_events_"; "self.num_output_per_event_"])]%string.
Proof. split; reflexivity. Qed.

(* ------------------------------------------------------------------ histories on the translated methods *)
Definition src_step (v : pv) (o : op) : result pv :=
  match o with F f => gen_filter_method (gfun f) v | ADD b => gen_add v (VObj b) end.
Fixpoint src_run (v : pv) (ops : list op) : result pv :=
  match ops with [] => Ok v | o :: t => v' <- src_step v o ;; src_run v' t end.

Lemma source_run s ops : src_run (VObj s) ops = rmap VObj (run s ops).
Proof.
  revert s; induction ops as [|o ops IH]; intros s; [reflexivity|].
  cbn [src_run run]. assert (H : src_step (VObj s) o = rmap VObj (step s o)).
  { destruct o; [apply source_filter_method | apply source_add]. }
  rewrite H. destruct (step s o); cbn [rbind rmap]; [apply IH | reflexivity].
Qed.

(* ------------------------------------------------------------------ a run of the translated methods *)
Definition ex_j1 := mkS CJetscape [[1; 2]] (A2 [(1, 2)]) 1 [] 0 0 (1 # 2)%Q.
Definition ex_j2 := mkS CJetscape [[3; 4]; [5]] (A2 [(7, 2); (8, 1)]) 2 [] 0 0 (1 # 4)%Q.
Lemma source_example :
  gen_add (VObj ex_j1) (VObj ex_j2)
  = Ok (VObj (mkS CJetscape [[1; 2]; [3; 4]; [5]] (A2 [(1, 2); (2, 2); (3, 1)]) 3 [] 0 0 (3 # 8)%Q)) /\
  gen_particle_list (VObj ex_j1) = Ok (VRows [1; 2]) /\
  gen_particle_list (VObj ex_j2) = Ok (VRowss [[3; 4]; [5]]) /\
  gen_filter_method (map (filter Z.even)) (VObj ex_j2)
  = Ok (VObj (mkS CJetscape [[4]; []] (A2 [(7, 1); (8, 0)]) 2 [] 0 0 (1 # 4)%Q)) /\
  gen_filter_method (fun l => norm (filter (fun _ => false) l)) (VObj ex_j2)
  = Ok (VObj (mkS CJetscape [[]] (A2 [(7, 0)]) 1 [] 0 0 (1 # 4)%Q)).
Proof. repeat split; vm_compute; reflexivity. Qed.

(* the property theorems, read on the translated source *)
Lemma source_history s0 ops :
  Inv s0 -> Forall (adm_op s0) ops ->
  exists s, src_run (VObj s0) ops = Ok (VObj s) /\ Inv s /\ held s = run_spec (held s0) ops.
Proof.
  intros Hi Ha. destruct (history_total s0 ops Hi Ha) as [s Hs]. exists s.
  rewrite source_run, Hs. split; [reflexivity|]. split; [exact (history_inv s0 ops s Hi Ha Hs)|].
  pose proof (history_refine s0 ops Hi Ha) as Hr. rewrite Hs in Hr. cbn [rmap] in Hr. congruence.
Qed.

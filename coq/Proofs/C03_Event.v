(* C03: event-level cuts (total energy threshold, multiplicity window) of Gen/GenFilters.v *)
From Coq Require Import List ZArith QArith Qabs Bool String Lia Lqa.
From SX Require Import Model.PyRt Model.FilterSpec Lib.PyRtLemmas Lib.FilterTac Gen.GenFilters Proofs.C03_Args.
Import ListNotations.
Local Notation length := List.length.
#[local] Opaque gen_ensure_tuple_is_valid_else_raise_error.

(* the running value of sum(...): the int 0 it starts from, or a float *)
Definition num_acc (acc : pyv) (a : Fval) : Prop :=
  num_of acc = Some a /\ match acc with VInt _ | VFloat _ => True | _ => False end.

Lemma sum_loop_spec (sumstep : pyv -> pobs -> result pyv) (val : pobs -> Fval) ev :
  (forall acc a p, In p ev -> num_acc acc a ->
     sumstep acc p = Ok (if negb (fisnan (val p)) then VFloat (fadd a (val p)) else acc)) ->
  forall acc a, num_acc acc a ->
  exists r, fold_leftM sumstep ev acc = Ok r /\
            num_acc r (fold_left fadd (filter (fun v => negb (fisnan v)) (map val ev)) a).
Proof.
  induction ev as [|p t IH]; intros H acc a Ha; cbn [fold_leftM map filter fold_left].
  - exists acc. auto.
  - rewrite (H acc a p (or_introl eq_refl) Ha). cbn [bind].
    destruct (negb (fisnan (val p))); cbn [fold_left].
    + apply IH; [intros; apply H; [right|]; assumption|]. split; [reflexivity|exact I].
    + apply IH; [intros; apply H; [right|]; assumption|exact Ha].
Qed.

Theorem lower_event_energy_cut_ok : forall evs thr, num_pos thr -> no_raise [A_E] evs ->
  gen_lower_event_energy_cut evs (v_num thr) = Ok (spec_lower_event_energy_cut evs thr).
Proof.
  intros evs thr Hpos Hnr. unfold gen_lower_event_energy_cut, spec_lower_event_energy_cut.
  rewrite (keep_loop_spec _ (fun ev => fle (num_val thr) (total_energy ev))).
  - destruct thr; simpl in *; qcases; try qdone; unfold event_level;
      match goal with |- context [filter ?f evs] => destruct (filter f evs) end; reflexivity.
  - intros upd ev Hev.
    destruct (sum_loop_spec
                (fun acc7_ particle => v10_ <- notM (v9_ <- get_obs particle A_E;; py_isnan v9_);;
                   if v10_ then (v8_ <- get_obs particle A_E;; py_add acc7_ v8_) else Ok acc7_)
                (fun p => oval p A_E) ev) with (acc := VInt 0) (a := fofZ 0) as [r [Er [Hn Hs]]].
    + intros acc a p Hp [Ha Hsh].
      destruct (no_raise_obs _ _ _ p A_E Hnr Hev Hp ltac:(simpl; tauto)) as [v [E1 E2]].
      unfold get_obs. rewrite E1, E2. simpl.
      destruct v; simpl; try reflexivity.
      all: destruct acc; try contradiction; simpl in Ha; injection Ha as <-; reflexivity.
    + split; [reflexivity|exact I].
    + rewrite Er. cbn [bind]. unfold total_energy.
      unfold py_ge, py_ord. rewrite Hn. destruct thr; simpl.
      all: match goal with |- context [fold_left fadd ?l ?a] => destruct (fold_left fadd l a) end; simpl; qcases; reflexivity.
Qed.

Theorem multiplicity_cut_ok : forall evs lo hi,
  (lo <> LNone \/ hi <> LNone) -> lim_nonneg lo -> lim_nonneg hi ->
  gen_multiplicity_cut evs (v_pair (v_lim lo) (v_lim hi)) = Ok (spec_multiplicity_cut evs lo hi).
Proof.
  intros evs lo hi Hs Hlo Hhi. unfold gen_multiplicity_cut, spec_multiplicity_cut.
  rewrite ensure_tuple_ok by (auto; discriminate).
  unfold v_pair; destruct lo, hi; simpl in *;
    try (exfalso; destruct Hs; congruence);
    qcases; try qdone;
    match goal with |- _ = Ok (event_level ?keep _) => rewrite (enum_loop_spec _ keep) end;
    try (simpl; rewrite pick_kept; simpl; unfold event_level;
         match goal with |- context [filter ?f evs] => destruct (filter f evs) end; reflexivity);
    intros idxs k ev Hk; unfold vnat, between_excl, lo_of, hi_of, lim_val, vlen; simpl; qcases; qdone.
Qed.

(* C11 - differential Q-cumulants: the generated <<2'>>, <<4'>> (from __compute_differential_flow_bin) equal the sums
   over tuples of distinct particles whose FIRST particle is a particle of interest in the bin and whose other
   particles are drawn from the whole event, divided by the number of such tuples; d_n{4}, c_n{4}; the
   cumulant -> differential-flow decision tree. *)
From Coq Require Import String ZArith Ring Ring_theory Arith Lia Bool List.
From SX Require Import Lib.KRing Lib.Cpx Lib.Distinct Proofs.C11_Closed Proofs.C11_Aux Gen.GenQCumulant Model.QCumulant
  Proofs.C11_Corr.
Import ListNotations.

Section Diff.
  Variable K : Type.
  Variables (k0 k1 : K) (kadd kmul ksub : K -> K -> K) (kopp : K -> K) (kdiv : K -> K -> K).
  Variables (kleb kltb : K -> K -> bool).
  Variable krpow : nat -> nat -> K -> K.
  Hypothesis Kth : ring_theory k0 k1 kadd kmul ksub kopp (@eq K).
  Add Ring KringDiff : Kth.
  Variable P : Type.
  Variable zof : P -> cpx K.
  Variables inbin ispoi : P -> bool.

  Notation C := (cpx K).
  Notation C0 := (c0 K k0). Notation C1 := (c1 K k0 k1).
  Notation Cadd := (cadd K kadd). Notation Cmul := (cmul K kadd kmul ksub).
  Notation Csub := (csub K ksub). Notation Copp := (copp K kopp).
  Notation Conj := (@conj K kopp).
  Notation Cth := (cpx_ring K k0 k1 kadd kmul ksub kopp Kth).
  Notation KN := (knat k0 k1 kadd).
  Notation KZ n := (kz k0 k1 kadd kmul kopp n%Z).
  Notation DS := (dsum2 C0 C1 Cadd Cmul Conj).
  Notation PD := (pdsum2 C0 C1 Cadd Cmul Conj).
  Notation Unit := (cunit K k0 k1 kadd kmul ksub kopp).
  Notation event := (event K P).
  Notation good := (good K k0 k1 kadd kmul ksub kopp P zof).
  Notation M f := (f K k0 k1 kadd kmul ksub kopp kdiv kleb kltb krpow P zof inbin ispoi).
  Notation Qf := (Qof K k0 k1 kadd kmul ksub kopp kdiv kleb kltb krpow P zof).
  Notation Mf := (Mof K k0 k1 kadd P).
  Notation Zs := (zs K kadd kmul ksub P zof).
  Notation SelP := (sel_poi K P inbin ispoi).
  Notation Flg := (flagged K P zof inbin ispoi).
  Notation Sdn := (spec_dnum K k0 k1 kadd kmul ksub kopp P zof inbin ispoi).
  Notation Sdd := (spec_dden K k0 k1 kadd P inbin ispoi).

  (* the flagged list after the random rotation of the event *)
  Definition flaggedR (e : event) : list (C * bool) :=
    map (fun p => (rotz K kadd kmul ksub P zof (fst e) p, inbin p && ispoi p)) (snd e).

  Lemma flaggedR_rot e : flaggedR e = map (fun q : C * bool => (Cmul (fst e) (fst q), snd q)) (Flg e).
  Proof. unfold flaggedR, flagged, rotz. rewrite map_map. reflexivity. Qed.

  Lemma fl_map {A} (g : A -> C) (f : A -> bool) l : fl C (map (fun p => (g p, f p)) l) = map g (filter f l).
  Proof.
    unfold fl. induction l as [|x l IH]; [reflexivity|]. cbn [map filter snd]. destruct (f x); cbn [map fst]; rewrite IH; reflexivity.
  Qed.

  Lemma flaggedR_fst e : map fst (flaggedR e) = Zs e.
  Proof. unfold flaggedR, zs. rewrite map_map. reflexivity. Qed.

  Lemma flaggedR_fl e : fl C (flaggedR e) = Zs (SelP e).
  Proof. unfold flaggedR. rewrite fl_map. reflexivity. Qed.

  Lemma unit_sq rho : Unit rho -> Cmul rho (Conj rho) = C1.
  Proof. intros H; exact H. Qed.

  Lemma pd01_rot e : good e -> PD 0 1 (flaggedR e) = PD 0 1 (Flg e).
  Proof.
    intros [Hr _]. rewrite flaggedR_rot.
    rewrite (pdsum2_scale C C0 C1 Cadd Cmul Csub Copp Conj Cth (conj_mul K k0 k1 kadd kmul ksub kopp Kth)).
    cbn [kpow]. set (r := fst e) in *. set (X := PD 0 1 (Flg e)).
    transitivity (Cmul (Cmul r (Conj r)) X); [|rewrite (unit_sq r Hr)]; generalize X; intros x;
      apply (cpx_ext K); cbv beta iota delta [Cpx.cmul Cpx.conj Cpx.c1 Cpx.re Cpx.im fst snd]; ring.
  Qed.

  Lemma pd12_rot e : good e -> PD 1 2 (flaggedR e) = PD 1 2 (Flg e).
  Proof.
    intros [Hr _]. rewrite flaggedR_rot.
    rewrite (pdsum2_scale C C0 C1 Cadd Cmul Csub Copp Conj Cth (conj_mul K k0 k1 kadd kmul ksub kopp Kth)).
    cbn [kpow]. set (r := fst e) in *. set (X := PD 1 2 (Flg e)).
    transitivity (Cmul (Cmul (Cmul r (Conj r)) (Cmul r (Conj r))) X); [|rewrite (unit_sq r Hr)]; generalize X; intros x;
      apply (cpx_ext K); cbv beta iota delta [Cpx.cmul Cpx.conj Cpx.c1 Cpx.re Cpx.im fst snd]; ring.
  Qed.

  Definition EP (e : event) (f : C -> C -> C -> C -> C -> C -> C -> C -> C -> C -> C -> C) : C :=
    f (Qf 1%nat (SelP e)) (Qf 2%nat (SelP e)) (Conj (Qf 1%nat (SelP e))) (ofK k0 (Mf (SelP e)))
      (Qf 1%nat e) (Qf 2%nat e) (Qf 3%nat e) (Conj (Qf 1%nat e)) (Conj (Qf 2%nat e)) (Conj (Qf 3%nat e)) (ofK k0 (Mf e)).

  Lemma PSc_EP e f : PSc K k0 k1 kadd kmul ksub kopp (flaggedR e) f = EP e f.
  Proof.
    unfold PSc, EP. cbv zeta. rewrite flaggedR_fl, flaggedR_fst.
    unfold Qof, Mof, gen_Qh, psum, csum, cpow, zs. cbv zeta. rewrite !map_length. reflexivity.
  Qed.

  Lemma evp01 e : good e -> PD 0 1 (Flg e) = EP e (PF_0_1 C C0 C1 Cadd Cmul Csub Copp).
  Proof.
    intros H. rewrite <- (pd01_rot e H), (pclosed01 K k0 k1 kadd kmul ksub kopp Kth).
    - apply PSc_EP.
    - rewrite flaggedR_fst. apply (good_units K k0 k1 kadd kmul ksub kopp Kth). exact H.
  Qed.
  Lemma evp12 e : good e -> PD 1 2 (Flg e) = EP e (PF_1_2 C C0 C1 Cadd Cmul Csub Copp).
  Proof.
    intros H. rewrite <- (pd12_rot e H), (pclosed12 K k0 k1 kadd kmul ksub kopp Kth).
    - apply PSc_EP.
    - rewrite flaggedR_fst. apply (good_units K k0 k1 kadd kmul ksub kopp Kth). exact H.
  Qed.

  Lemma filter_le {A} (f : A -> bool) l : (length (filter f l) <= length l)%nat.
  Proof. induction l as [|x l IH]; cbn [filter length]; [lia | destruct (f x); cbn [length]; lia]. Qed.

  Lemma den_ev k e : KN (length (snd (SelP e)) * ffact k (pred (length (snd e))))
                     = kmul (Mf (SelP e)) (kff K k1 kmul ksub k (ksub (Mf e) k1)).
  Proof. unfold Mof. apply (poi_ffact K k0 k1 kadd kmul ksub kopp Kth). cbn [sel_poi snd]. apply filter_le. Qed.

  Lemma Sdn_cons a b e evs : Sdn a b (e :: evs) = Cadd (PD a b (Flg e)) (Sdn a b evs).
  Proof. reflexivity. Qed.
  Lemma Sdd_cons k e evs :
    Sdd k (e :: evs) = kadd (KN (length (snd (SelP e)) * ffact k (pred (length (snd e))))) (Sdd k evs).
  Proof. reflexivity. Qed.

  Ltac gen_sums :=
    repeat match goal with
           | |- context [ksum ?z ?a (map ?f ?l)] => generalize (ksum z a (map f l)); intro
           | |- context [csum ?k ?z ?a (map ?f ?l)] => generalize (csum k z a (map f l)); intro
           end.
  Ltac k_ring :=
    cbv beta iota zeta delta [kpow kff kz kpos knat Nat.mul Nat.add Cpx.cpow Cpx.cscale Cpx.csub Cpx.cadd Cpx.cmul
                              Cpx.copp Cpx.conj Cpx.ofK Cpx.c0 Cpx.c1 Cpx.re Cpx.im fst snd];
    ring.
  Ltac cpx_ring := gen_sums; first [ apply (cpx_ext K); k_ring | k_ring ].

  Lemma dcorr2_ok evs : Forall good evs ->
    M dcorr2 evs = cdivr K kdiv (Sdn 0%nat 1%nat evs) (Sdd 1%nat evs).
  Proof.
    intros H. unfold dcorr2, gen_dcorr2. cbv zeta. cbv beta. f_equal.
    - induction H as [|e evs He Hl IH]; [reflexivity|].
      rewrite Sdn_cons, <- IH, ?map_cons, ?ksum_cons, ?csum_cons, (evp01 e He).
      unfold EP, PF_0_1. cbv zeta.
      generalize (Qf 1%nat (SelP e)) (Mf (SelP e)) (Qf 1%nat e) (Mf e). intros p1 mp q1 m.
      cpx_ring.
    - induction H as [|e evs He Hl IH]; [reflexivity|].
      rewrite Sdd_cons, <- IH, ?map_cons, ?ksum_cons, den_ev.
      generalize (Mf (SelP e)) (Mf e). intros mp m. cpx_ring.
  Qed.

  (* Eq. (32) of the reference is written in a form whose REAL part is the tuple sum (its imaginary part differs
     from the one of the tuple sum by 6 Im(p_n conj Q_n)); the flow only uses the real part *)
  Lemma dcorr4_ok evs : Forall good evs ->
    re (M dcorr4 evs) = kdiv (re (Sdn 1%nat 2%nat evs)) (Sdd 3%nat evs).
  Proof.
    intros H. unfold dcorr4, gen_dcorr4. cbv zeta. cbv beta.
    match goal with |- re (cdivr _ _ ?x ?d) = _ => change (re (cdivr K kdiv x d)) with (kdiv (re x) d) end.
    f_equal.
    - induction H as [|e evs He Hl IH]; [reflexivity|].
      rewrite Sdn_cons, ?map_cons, ?csum_cons.
      rewrite !(re_add K kadd), <- IH, (evp12 e He).
      unfold EP, PF_1_2. cbv zeta.
      generalize (Qf 1%nat (SelP e)) (Qf 2%nat (SelP e)) (Mf (SelP e)) (Qf 1%nat e) (Qf 2%nat e) (Mf e).
      intros p1 p2 mp q1 q2 m.
      gen_sums. k_ring.
    - induction H as [|e evs He Hl IH]; [reflexivity|].
      rewrite Sdd_cons, <- IH, ?map_cons, ?ksum_cons, den_ev.
      generalize (Mf (SelP e)) (Mf e). intros mp m. cpx_ring.
  Qed.

  (* d_n{4} = <<4'>> - 2 <<2'>> <<2>>,   c_n{4} = <<4>> - 2 <<2>>^2 *)
  Lemma dn4_ok evs :
    M dn4 evs = csub K ksub (M dcorr4 evs) (cscale K kmul (kmul (KZ 2) (M corr2 evs)) (M dcorr2 evs)).
  Proof.
    unfold dn4, dcorr4, dcorr2, corr2, gen_dn4, gen_dcorr4, gen_dcorr2. cbv zeta. cbv beta.
    gen_sums. match goal with |- context [gen_corr_2 ?a ?b ?c ?d ?e ?f ?g ?h ?i ?j ?k ?l ?m ?n ?o ?p ?q ?r ?s] =>
      generalize (gen_corr_2 a b c d e f g h i j k l m n o p q r s); intro end.
    apply (cpx_ext K);
    cbv beta iota zeta delta [kz kpos Cpx.cscale Cpx.csub Cpx.cdivr Cpx.re Cpx.im fst snd]; ring.
  Qed.
  Lemma cn4_ok evs : M cn4 evs = M cumulant4 evs.
  Proof.
    unfold cn4, cumulant4, gen_cn4, gen_cumulant_4. cbv zeta. reflexivity.
  Qed.

  (* ---- the flow values ---- *)
  Notation FFCD := (gen_ffcd K k0 k1 kadd kmul ksub kopp kdiv kleb kltb krpow).
  Notation FAC := (gen_factor K k0 k1 kadd kmul ksub kopp kdiv kleb kltb krpow).
  Notation G f evs := (f K k0 k1 kadd kmul ksub kopp kdiv kleb kltb krpow event evs
                       Mf (fun e => Mf (sel_bin K P inbin e)) (fun e => Mf (SelP e))
                       Qf (fun h e => Qf h (sel_bin K P inbin e)) (fun h e => Qf h (SelP e))).

  Lemma diff2_ok evs imag :
    G gen_diff_2 evs imag = option_map re (FFCD 2%nat imag (M corr2 evs) (M dcorr2 evs)).
  Proof. reflexivity. Qed.
  Lemma diff4_ok evs imag :
    G gen_diff_4 evs imag = option_map re (FFCD 4%nat imag (M cn4 evs) (M dn4 evs)).
  Proof. reflexivity. Qed.

  (* v'_n{2} = d_n{2} / sqrt(c_n{2});  v'_n{4} = - d_n{4} / (-c_n{4})^(3/4);  the `imaginary` modes on the other sign *)
  Lemma ffcd2 imag c d :
    FFCD 2%nat imag c d =
      if kltb k0 c then Some (cdivr K kdiv d (krpow 1%nat 2%nat (kmul k1 c)))
      else if String.eqb imag "negative" then Some (cdivr K kdiv d (krpow 1%nat 2%nat (kmul (kopp k1) c)))
      else if String.eqb imag "zero" then Some (ofK k0 k0) else None.
  Proof. reflexivity. Qed.
  Lemma ffcd4 imag c d :
    FFCD 4%nat imag c d =
      if kltb c k0 then Some (cdivr K kdiv (Copp d) (krpow 3%nat 4%nat (kmul (kopp k1) c)))
      else if String.eqb imag "negative" then Some (cdivr K kdiv (Copp d) (krpow 3%nat 4%nat (kmul (kopp (kopp k1)) c)))
      else if String.eqb imag "zero" then Some (ofK k0 k0) else None.
  Proof. reflexivity. Qed.

  Lemma re_cdivr (d : C) x : re (cdivr K kdiv d x) = kdiv (re d) x.
  Proof. reflexivity. Qed.

  (* the guard of differential_flow and the rejected order *)
  Lemma differential_bin_ok evs k imag : In imag gen_imag_allowed ->
    M differential_bin evs k imag =
      match k with
      | 2%nat => if ((0 <? length evs) && (0 <? total K P evs (sel_bin K P inbin)) && (0 <? total K P evs SelP))%nat
                 then DVal K (G gen_diff_2 evs imag) else DEmpty K
      | 4%nat => if ((0 <? length evs) && (0 <? total K P evs (sel_bin K P inbin)) && (0 <? total K P evs SelP))%nat
                 then DVal K (G gen_diff_4 evs imag) else DEmpty K
      | _ => DErr K
      end.
  Proof.
    intros Hi. unfold differential_bin.
    assert (Hb : existsb (String.eqb imag) gen_imag_allowed = true).
    { apply existsb_exists. exists imag. split; [exact Hi | apply String.eqb_refl]. }
    rewrite Hb, Bool.andb_true_r.
    do 7 (destruct k as [|k]; [reflexivity|]). reflexivity.
  Qed.
End Diff.

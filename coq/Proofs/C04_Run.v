(* C04: histories - invariant, totality, refinement of the plain-list semantics; statement forms of
   the addition theorems (labels, associativity). *)
From Coq Require Import List ZArith Bool Lia QArith.
From SX Require Import Lib.Py Model.Storer Model.StorerSpec Proofs.C04_Core Proofs.C04_Add.
Import ListNotations.
Local Open Scope Z_scope.

(* ------------------------------------------------------------------ one step *)
Lemma step_Inv s0 s o :
  Inv s -> adm_op s0 o -> scls s = scls s0 -> xptype s = xptype s0 ->
  exists s', step s o = Ok s' /\ Inv s' /\ held s' = spec_step (held s) o /\
             scls s' = scls s0 /\ xptype s' = xptype s0 /\
             (forall l0, RegR s l0 -> RegR s' l0).
Proof.
  intros HI Ha Hc Hp. destruct o as [f|b].
  - (* a filter *)
    destruct HI as [HR|HE].
    + pose proof HR as HR'. apply Reg_iff in HR'. destruct HR' as (l0 & R0).
      destruct (filter_Reg s l0 f R0) as (s' & Hs & R' & He & Hc' & Hp').
      assert (HR2 : Reg s') by (apply Reg_iff; eauto).
      exists s'. split; [exact Hs|]. split; [now left|].
      rewrite (held_Reg s' HR2), (held_Reg s HR), He.
      split.
      { destruct f as [f|keep]; simpl; [reflexivity|].
        destruct R0 as (_ & Hne & _). destruct (events s); [congruence|reflexivity]. }
      split; [congruence|]. split; [congruence|].
      intros l1 R1. now rewrite (RegR_unique s l1 l0 R1 R0).
    + assert (Ha' : match f with PL g => g [] = [] | EV _ => True end) by (destruct f; exact Ha).
      destruct (filter_Emp s f Ha' HE) as (s' & Hs & E' & He & Hc' & Hp').
      exists s'. split; [exact Hs|]. split; [now right|].
      rewrite (held_Emp s' E'), (held_Emp s HE).
      split; [destruct f; reflexivity|]. split; [congruence|]. split; [congruence|].
      intros l1 R1. exfalso. assert (H : Reg s) by (apply Reg_iff; eauto).
      apply Reg_pos in H. destruct HE as (Hn & _). lia.
  - (* + *)
    destruct Ha as (Hb & Hcl & Hpt).
    assert (Hcomp : compatible s b) by (split; [congruence|intros H; rewrite Hp; apply Hpt; congruence]).
    destruct (add_Inv s b HI Hb Hcomp) as (c & Hadd & Ic & Hh & _ & Hs & Hx & Hl & _).
    exists c. split; [exact Hadd|]. split; [exact Ic|]. split; [exact Hh|].
    split; [congruence|]. split; [congruence|]. exact Hl.
Qed.

(* ------------------------------------------------------------------ all finite histories *)
Lemma run_Inv s0 ops : forall s,
  Inv s -> Forall (adm_op s0) ops -> scls s = scls s0 -> xptype s = xptype s0 ->
  exists s', run s ops = Ok s' /\ Inv s' /\ held s' = run_spec (held s) ops /\
             (forall l0, RegR s l0 -> RegR s' l0).
Proof.
  induction ops as [|o t IH]; intros s HI Hadm Hc Hp.
  - exists s. simpl. auto.
  - inversion Hadm as [|? ? Ho Ht]; subst.
    destruct (step_Inv s0 s o HI Ho Hc Hp) as (s1 & Hs & I1 & Hh & Hc1 & Hp1 & Hl1).
    destruct (IH s1 I1 Ht Hc1 Hp1) as (s' & Hr & I' & Hh' & Hl').
    exists s'. simpl. rewrite Hs. simpl. split; [exact Hr|]. split; [exact I'|].
    split; [now rewrite Hh', Hh|]. intros l0 R0. apply Hl'. now apply Hl1.
Qed.

Theorem history_total s0 ops : Inv s0 -> Forall (adm_op s0) ops -> exists s, run s0 ops = Ok s.
Proof. intros HI Ha. destruct (run_Inv s0 ops s0 HI Ha eq_refl eq_refl) as (s & H & _). eauto. Qed.

Theorem history_inv s0 ops s :
  Inv s0 -> Forall (adm_op s0) ops -> run s0 ops = Ok s -> Inv s.
Proof.
  intros HI Ha Hr. destruct (run_Inv s0 ops s0 HI Ha eq_refl eq_refl) as (s' & H & I' & _).
  rewrite Hr in H. injection H as <-. exact I'.
Qed.

Theorem history_refine s0 ops :
  Inv s0 -> Forall (adm_op s0) ops -> rmap held (run s0 ops) = Ok (run_spec (held s0) ops).
Proof.
  intros HI Ha. destruct (run_Inv s0 ops s0 HI Ha eq_refl eq_refl) as (s' & H & _ & Hh & _).
  rewrite H. simpl. now rewrite Hh.
Qed.

(* labels keep counting from the first label the object had, through any history *)
Theorem history_first_label s0 ops s l0 :
  Inv s0 -> Forall (adm_op s0) ops -> run s0 ops = Ok s ->
  counts s0 = A2 (recount l0 (events s0)) -> events s0 <> [] -> nevents s0 = zlen (events s0) ->
  counts s = A2 (recount l0 (events s)) /\ events s <> [].
Proof.
  intros HI Ha Hr H1 H2 H3. destruct (run_Inv s0 ops s0 HI Ha eq_refl eq_refl) as (s' & H & _ & _ & Hl).
  rewrite Hr in H. injection H as <-. destruct (Hl l0 (conj H1 (conj H2 H3))) as (A & B & _). auto.
Qed.

(* ------------------------------------------------------------------ a + b in statement form *)
Lemma add_shape a b c : add a b = Ok c ->
  events c = held a ++ held b /\ (exists rows, counts c = A2 rows) /\
  nevents c = nevents a + nevents b /\ scls c = scls a /\ xptype c = xptype a.
Proof.
  unfold add. destruct (negb _); [discriminate|].
  destruct (reshape2 (counts a)); simpl; [|discriminate].
  destruct (reshape2 (counts b)); simpl; [|discriminate].
  destruct (continue_labels _ _ _); simpl; [|discriminate].
  destruct (update_after_merge a b); simpl; [|discriminate].
  intros H. injection H as <-. simpl. eauto 8.
Qed.

Lemma labels_from_app l0 n m : labels_from l0 (n + m) = labels_from l0 n ++ labels_from (l0 + Z.of_nat n) m.
Proof.
  revert l0. induction n as [|n IH]; intros l0.
  - simpl. now rewrite Z.add_0_r.
  - change (S n + m)%nat with (S (n + m)). rewrite !labels_from_S, IH. simpl. do 3 f_equal. lia.
Qed.

Lemma recount_combine l0 evs : recount l0 evs = combine (labels_from l0 (length evs)) (map zlen evs).
Proof.
  revert l0. induction evs as [|e t IH]; intros l0; [reflexivity|].
  simpl length. rewrite labels_from_S. simpl. now rewrite IH.
Qed.

Lemma last_label_RegR s l0 : RegR s l0 -> last_label s = l0 + nevents s - 1.
Proof.
  intros (Hc & Hne & Hn). unfold last_label, rows_of. rewrite Hc, Hn.
  destruct (split_last (events s) Hne) as (l' & x & ->).
  rewrite recount_app. simpl recount. rewrite last_last. simpl.
  unfold zlen. rewrite app_length. simpl. lia.
Qed.

Lemma relabel_recount l1 l0 evs : relabel_rows l1 (recount l0 evs) = recount l1 evs.
Proof. unfold relabel_rows. now rewrite recount_length, recount_snd, recount_combine. Qed.

Lemma rows_of_RegR s l0 : RegR s l0 -> rows_of s = recount l0 (events s).
Proof. intros (Hc & _). unfold rows_of. now rewrite Hc. Qed.
Lemma rows_of_Emp s : Emp s -> rows_of s = [].
Proof. intros (_ & [Hc|Hc] & _); unfold rows_of; now rewrite Hc. Qed.

(* the count array of a + b: a's rows, then b's counts under labels continuing after a's last *)
Theorem add_rows a b : Inv a -> Inv b -> compatible a b ->
  exists c, add a b = Ok c /\ Inv c /\
    events c = held a ++ held b /\ held c = held a ++ held b /\
    nevents c = nevents a + nevents b /\
    counts c = A2 (rows_of a ++ (if 0 <? nevents a then relabel_rows (last_label a + 1) (rows_of b)
                                 else rows_of b)).
Proof.
  intros Ia Ib Hcomp.
  destruct (add_Inv a b Ia Ib Hcomp) as (c & Hadd & Ic & Hh & Hn & _ & _ & Hl & Hr).
  destruct (add_shape a b c Hadd) as (He & (rows & Hrows) & _).
  exists c. split; [exact Hadd|]. split; [exact Ic|]. split; [exact He|]. split; [exact Hh|].
  split; [exact Hn|].
  destruct Ia as [Ra|Ea].
  - pose proof (Reg_pos a Ra) as Pa. pose proof Ra as Ra'. apply Reg_iff in Ra'. destruct Ra' as (la & RA).
    destruct (0 <? nevents a) eqn:E; [|apply Z.ltb_ge in E; lia].
    pose proof (Hl la RA) as (Hc & _ & _). rewrite Hc, He.
    rewrite (held_Reg a Ra), (rows_of_RegR a la RA), (last_label_RegR a la RA).
    f_equal. rewrite recount_app. f_equal.
    destruct RA as (_ & _ & Hna). rewrite Hna.
    destruct Ib as [Rb|Eb].
    + pose proof Rb as Rb'. apply Reg_iff in Rb'. destruct Rb' as (lb & RB).
      rewrite (held_Reg b Rb), (rows_of_RegR b lb RB), relabel_recount. f_equal. lia.
    + now rewrite (held_Emp b Eb), (rows_of_Emp b Eb).
  - pose proof Ea as (Hna & _). rewrite Hna. simpl. rewrite (rows_of_Emp a Ea). simpl.
    destruct Ib as [Rb|Eb].
    + pose proof Rb as Rb'. apply Reg_iff in Rb'. destruct Rb' as (lb & RB).
      pose proof (Hr Ea lb RB) as (Hc & _ & _). rewrite Hc, He, (held_Emp a Ea), (held_Reg b Rb).
      now rewrite (rows_of_RegR b lb RB).
    + rewrite (rows_of_Emp b Eb).
      assert (Ec : Emp c).
      { destruct Ic as [Rc|Ec]; [|exact Ec]. apply Reg_pos in Rc. destruct Eb as (Hnb & _). lia. }
      destruct Ec as (_ & [Hc|Hc] & _); rewrite Hc in Hrows; [discriminate|]. now rewrite Hc.
Qed.

(* the same with the events next to their labels *)
Lemma combine_app {A B} (l1 l1' : list A) (l2 l2' : list B) :
  length l1 = length l2 -> combine (l1 ++ l1') (l2 ++ l2') = combine l1 l2 ++ combine l1' l2'.
Proof.
  revert l2. induction l1 as [|a t IH]; intros [|b t2] H; simpl in *; try discriminate; [reflexivity|].
  f_equal. apply IH. lia.
Qed.
Lemma map_snd_combine {A B} (l1 : list A) (l2 : list B) :
  length l1 = length l2 -> map snd (combine l1 l2) = l2.
Proof.
  revert l2. induction l1 as [|a t IH]; intros [|b t2] H; simpl in *; try discriminate; [reflexivity|].
  f_equal. apply IH. lia.
Qed.
Lemma map_fst_combine {A B} (l1 : list A) (l2 : list B) :
  length l1 = length l2 -> map fst (combine l1 l2) = l1.
Proof.
  revert l2. induction l1 as [|a t IH]; intros [|b t2] H; simpl in *; try discriminate; [reflexivity|].
  f_equal. apply IH. lia.
Qed.

Lemma rows_held_length s : Inv s -> length (rows_of s) = length (held s).
Proof.
  intros [R|E].
  - rewrite (held_Reg s R). apply Reg_iff in R. destruct R as (l0 & R).
    now rewrite (rows_of_RegR s l0 R), recount_length.
  - now rewrite (held_Emp s E), (rows_of_Emp s E).
Qed.

Theorem add_labelled a b : Inv a -> Inv b -> compatible a b ->
  exists c, add a b = Ok c /\
    labelled c = labelled a ++ (if 0 <? nevents a then relabel (last_label a + 1) (labelled b)
                                else labelled b).
Proof.
  intros Ia Ib Hcomp.
  destruct (add_rows a b Ia Ib Hcomp) as (c & Hadd & Ic & _ & Hh & _ & Hc).
  exists c. split; [exact Hadd|].
  unfold labelled at 1. unfold rows_of at 1. rewrite Hc, Hh, map_app.
  pose proof (rows_held_length a Ia) as La. pose proof (rows_held_length b Ib) as Lb.
  rewrite combine_app by (now rewrite map_length).
  f_equal. destruct (0 <? nevents a).
  - unfold relabel, relabel_rows, labelled.
    rewrite map_fst_combine by (now rewrite labels_from_length, map_length).
    rewrite combine_length, map_length, Lb, Nat.min_id.
    now rewrite map_snd_combine by (now rewrite map_length).
  - reflexivity.
Qed.

(* ------------------------------------------------------------------ associativity *)
Lemma compatible_trans a b c : compatible a b -> compatible a c -> compatible b c.
Proof.
  intros (H1 & P1) (H2 & P2). split; [congruence|].
  intros Hb. rewrite <- P1, <- P2; congruence.
Qed.

Lemma counts_determined x y :
  Inv x -> Inv y -> events x = events y -> nevents x = nevents y ->
  (exists r, counts x = A2 r) -> (exists r, counts y = A2 r) ->
  (forall l, RegR x l -> RegR y l) -> counts x = counts y.
Proof.
  intros [Rx|Ex] Iy He Hn (rx & Hx) (ry & Hy) Hl.
  - apply Reg_iff in Rx. destruct Rx as (l & R). destruct (Hl l R) as (Cy & _). destruct R as (Cx & _).
    now rewrite Cx, Cy, He.
  - assert (Ey : Emp y).
    { destruct Iy as [Ry|Ey]; [|exact Ey]. apply Reg_pos in Ry. destruct Ex as (H0 & _). lia. }
    destruct Ex as (_ & [C|C] & _); rewrite C in Hx; [discriminate|].
    destruct Ey as (_ & [C'|C'] & _); rewrite C' in Hy; [discriminate|]. now rewrite C, C'.
Qed.

Theorem add_assoc a b c :
  Inv a -> Inv b -> Inv c -> compatible a b -> compatible a c ->
  exists ab bc x y, add a b = Ok ab /\ add ab c = Ok x /\ add b c = Ok bc /\ add a bc = Ok y /\
                    core x = core y.
Proof.
  intros Ia Ib Ic Hab Hac.
  pose proof (compatible_trans a b c Hab Hac) as Hbc.
  destruct (add_Inv a b Ia Ib Hab) as (ab & Aab & Iab & Hhab & Hnab & Hsab & Hpab & Lab & Rab).
  destruct (add_Inv b c Ib Ic Hbc) as (bc & Abc & Ibc & Hhbc & Hnbc & Hsbc & Hpbc & Lbc & Rbc).
  assert (Cabc : compatible ab c).
  { destruct Hac as (H1 & H2). split; [congruence|]. intros H. rewrite Hpab. apply H2. congruence. }
  assert (Cabc' : compatible a bc).
  { destruct Hab as (H1 & H2). split; [congruence|]. intros H. rewrite Hpbc. now apply H2. }
  destruct (add_Inv ab c Iab Ic Cabc) as (x & Ax & Ix & Hhx & Hnx & _ & _ & Lx & Rx).
  destruct (add_Inv a bc Ia Ibc Cabc') as (y & Ay & Iy & Hhy & Hny & _ & _ & Ly & Ry).
  exists ab, bc, x, y. repeat (split; [assumption|]).
  destruct (add_shape ab c x Ax) as (Ex & Sx & _). destruct (add_shape a bc y Ay) as (Ey & Sy & _).
  assert (Hev : events x = events y) by (rewrite Ex, Ey, Hhab, Hhbc; now rewrite app_assoc).
  assert (Hnn : nevents x = nevents y) by lia.
  unfold core. rewrite Hev, Hnn. f_equal. f_equal.
  apply counts_determined; try assumption.
  intros l Rxl.
  (* where does the first label of x come from? *)
  destruct Ia as [Ra|Ea].
  - apply Reg_iff in Ra. destruct Ra as (la & RA).
    pose proof (Lx la (Lab la RA)) as Rx'. rewrite (RegR_unique x l la Rxl Rx'). now apply Ly.
  - destruct Ib as [Rb|Eb].
    + apply Reg_iff in Rb. destruct Rb as (lb & RB).
      pose proof (Lx lb (Rab Ea lb RB)) as Rx'. rewrite (RegR_unique x l lb Rxl Rx').
      apply (Ry Ea). now apply Lbc.
    + assert (Eab : Emp ab).
      { destruct Iab as [R|E]; [|exact E]. apply Reg_pos in R.
        destruct Ea as (H1 & _). destruct Eb as (H2 & _). lia. }
      destruct Ic as [Rc|Ec].
      * apply Reg_iff in Rc. destruct Rc as (lc & RC).
        pose proof (Rx Eab lc RC) as Rx'. rewrite (RegR_unique x l lc Rxl Rx').
        apply (Ry Ea). now apply (Rbc Eb).
      * exfalso. assert (H : Reg x) by (apply Reg_iff; eauto). apply Reg_pos in H.
        destruct Eab as (H1 & _). destruct Ec as (H2 & _). lia.
Qed.

(* ------------------------------------------------------------------ everything at once *)
Theorem history_all s0 ops :
  Inv s0 -> Forall (adm_op s0) ops ->
  exists s, run s0 ops = Ok s /\ Inv s /\ held s = run_spec (held s0) ops /\
            nevents s = zlen (held s) /\ particle_list s = Ok (plist_spec s).
Proof.
  intros HI Ha. destruct (run_Inv s0 ops s0 HI Ha eq_refl eq_refl) as (s & Hr & Is & Hh & _).
  exists s. repeat split; try assumption.
  - now destruct (counts_Inv s Is).
  - now apply plist_Inv.
Qed.

(* JetscapeLoader: the hand model Model/Jetscape.v equals loader/JetscapeLoader.py (+ the inherited helpers of
   loader/BaseLoader.py) as regenerated into Gen/GenJetscapeLoader.v on every run (tools/py2coq/gen_jetscapeloader.py,
   runtime Model/JetscapeLoaderRt.v).

   The regenerated methods work on RAW lines (str): `"#" in line`, line.replace(..).replace(..).split(" ").  The hand
   model works on token lists.  Every theorem is stated for an arbitrary list [raw] of raw lines under [lines_ok raw]
   (every line is non-empty and contains a newline at most as its last character: what readline() returns), and
   the hand model is run on [map toks raw], [toks] being exactly the tokenisation the source applies.
   [toks_join] shows that for a line that is the join by single blanks or tabs of blank-, tab- and newline-free
   tokens, followed by a newline or not, [toks] gives these tokens back (the lines of Model/JetscapeDoc.v jrender). *)
From Coq Require Import List String Ascii ZArith QArith Bool Arith Lia.
From SX Require Import Lib.Strs Lib.StrLemmas Lib.Split Model.Oscar Model.Jetscape Model.JetscapeLoaderRt
     Gen.GenJetscapeLoader.
Import ListNotations.
Local Open Scope string_scope.

(* ================================================================================================ strings *)
Notation nl := "010"%char (only parsing).
Notation tab := "009"%char (only parsing).
Definition tab2sp (s : string) : string := str_replace_char tab " " s.
(* the tokenisation of the source: line.replace("\n", "").replace("\t", " ").split(" ") *)
Definition toks (s : string) : list string := split_on sp (tab2sp (str_replace_char nl "" s)).

Definition line_ok (s : string) : Prop :=
  s <> "" /\ exists b, no_char nl b = true /\ (s = b ++ String nl "" \/ s = b).
Definition lines_ok (raw : list string) : Prop := Forall line_ok raw.
(* a pattern of an `in` test: not empty, no blank, tab or newline *)
Definition pat_ok (p : string) : Prop :=
  p <> "" /\ no_char sp p = true /\ no_char tab p = true /\ no_char nl p = true.

Lemma sapp_assoc (a b c : string) : (a ++ b) ++ c = a ++ (b ++ c).
Proof. induction a as [|x a IH]; [reflexivity|]. cbn. rewrite IH. reflexivity. Qed.

Lemma replace_app c r a b : str_replace_char c r (a ++ b) = str_replace_char c r a ++ str_replace_char c r b.
Proof.
  induction a as [|x a IH]; [reflexivity|]. cbn [append str_replace_char].
  destruct (Ascii.eqb x c); rewrite IH; [rewrite sapp_assoc|]; reflexivity.
Qed.

Lemma replace_free c r a : no_char c a = true -> str_replace_char c r a = a.
Proof.
  induction a as [|x a IH]; intros H; [reflexivity|]. cbn in H. apply andb_true_iff in H. destruct H as [Hx Ha].
  apply negb_true_iff in Hx. cbn [str_replace_char]. rewrite Hx, (IH Ha). reflexivity.
Qed.

Lemma app_empty_r (s : string) : s ++ "" = s.
Proof. induction s as [|c s IH]; [reflexivity|]. cbn. rewrite IH. reflexivity. Qed.

Lemma toks_body b : no_char nl b = true -> toks (b ++ String nl "") = split_on sp (tab2sp b) /\ toks b = split_on sp (tab2sp b).
Proof.
  intros H. unfold toks. rewrite replace_app, (replace_free nl "" b H). cbn [str_replace_char].
  rewrite Ascii.eqb_refl. cbn [append]. rewrite app_empty_r. split; reflexivity.
Qed.

Lemma tab2sp_cons a t : tab2sp (String a t) = String (if Ascii.eqb a tab then sp else a) (tab2sp t).
Proof. unfold tab2sp. cbn [str_replace_char]. destruct (Ascii.eqb a tab); reflexivity. Qed.

Lemma prefix_tab2sp p : forall x, no_char sp p = true -> no_char tab p = true -> prefix p (tab2sp x) = prefix p x.
Proof.
  induction p as [|a p IH]; intros x Hs Ht; [destruct x; [reflexivity|rewrite tab2sp_cons; reflexivity]|].
  cbn in Hs, Ht. apply andb_true_iff in Hs, Ht. destruct Hs as [Has Hs], Ht as [Hat Ht].
  apply negb_true_iff in Has, Hat.
  destruct x as [|b x]; [reflexivity|]. rewrite tab2sp_cons. cbn [prefix].
  destruct (Ascii.eqb b tab) eqn:Eb.
  - apply Ascii.eqb_eq in Eb. subst b.
    destruct (ascii_dec a sp) as [->|_]; [rewrite Ascii.eqb_refl in Has; discriminate|].
    destruct (ascii_dec a tab) as [->|_]; [rewrite Ascii.eqb_refl in Hat; discriminate|]. reflexivity.
  - destruct (ascii_dec a b); [apply IH; assumption|reflexivity].
Qed.

Lemma contains_tab2sp p : forall x, no_char sp p = true -> no_char tab p = true -> contains p (tab2sp x) = contains p x.
Proof.
  intros x Hs Ht. induction x as [|b x IH].
  - reflexivity.
  - pose proof (prefix_tab2sp p (String b x) Hs Ht) as P. rewrite tab2sp_cons in *. cbn [contains]. rewrite P, IH. reflexivity.
Qed.

Lemma split_on_ne c s : split_on c s <> [].
Proof. destruct s as [|a s]; cbn; [discriminate|]. destruct (Ascii.eqb a c); [discriminate|]. destruct (split_on c s); discriminate. Qed.

Lemma join_split c : forall s, join c (split_on c s) = s.
Proof.
  induction s as [|a s IH]; [reflexivity|]. cbn [split_on].
  destruct (Ascii.eqb a c) eqn:E.
  - apply Ascii.eqb_eq in E. subst a. pose proof (split_on_ne c s) as N.
    destruct (split_on c s) as [|t ts]; [congruence|]. cbn [join append] in *. rewrite IH. reflexivity.
  - pose proof (split_on_ne c s) as N. destruct (split_on c s) as [|t ts]; [congruence|].
    destruct ts as [|t' ts]; cbn [join append] in *; rewrite IH; reflexivity.
Qed.

Lemma split_on_free c : forall s, forallb (no_char c) (split_on c s) = true.
Proof.
  induction s as [|a s IH]; [reflexivity|]. cbn [split_on].
  destruct (Ascii.eqb a c) eqn:E.
  - cbn. exact IH.
  - pose proof (split_on_ne c s) as N. destruct (split_on c s) as [|t ts]; [congruence|].
    cbn in *. rewrite E. cbn. exact IH.
Qed.

Lemma contains_split p x : no_char sp p = true -> p <> "" -> contains p x = has p (split_on sp x).
Proof. intros Hs Hne. rewrite <- (contains_join p Hs Hne (split_on sp x)), join_split. reflexivity. Qed.

(* `p in line` on the raw line is the token-level test of the hand model *)
Theorem contains_toks p s : pat_ok p -> line_ok s -> contains p s = has p (toks s).
Proof.
  intros (Hne & Hs & Ht & Hn) (_ & b & Hb & [->| ->]).
  - rewrite (contains_line p Hn Hne b). destruct (toks_body b Hb) as [-> _].
    rewrite <- (contains_split p _ Hs Hne). symmetry. apply contains_tab2sp; assumption.
  - destruct (toks_body b Hb) as [_ ->].
    rewrite <- (contains_split p _ Hs Hne). symmetry. apply contains_tab2sp; assumption.
Qed.

Lemma pat_hash : pat_ok "#". Proof. repeat split; discriminate. Qed.
Lemma pat_sigmaGen : pat_ok "sigmaGen". Proof. repeat split; discriminate. Qed.
Lemma pat_weight : pat_ok "weight". Proof. repeat split; discriminate. Qed.
Lemma pat_Event : pat_ok "Event". Proof. repeat split; discriminate. Qed.
Lemma pat_N_hadrons : pat_ok "N_hadrons". Proof. repeat split; discriminate. Qed.
Lemma pat_N_partons : pat_ok "N_partons". Proof. repeat split; discriminate. Qed.

Lemma line_ok_truthy s : line_ok s -> str_truthy s = true.
Proof. intros [H _]. unfold str_truthy. destruct (String.eqb_spec s ""); [contradiction|reflexivity]. Qed.

(* ================================================================================================ lists, ranges, the count array *)
Definition arr_rows (a : arr) : list (Z * Z) := match a with A1 => [] | A2 r => r end.
Definition arr_of (l : list (Z * Z)) : arr := match l with [] => A1 | _ => A2 l end.
(* the 1-D empty array, or a 2-D array with at least one row: what set_num_output_per_event stores *)
Definition arr_std (a : arr) : Prop := a = arr_of (arr_rows a).

Lemma list_get_nat {A} (l : list A) (k : nat) :
  list_get l (Z.of_nat k) = match nth_error l k with Some a => Ok a | None => Err IndexError end.
Proof.
  unfold list_get, py_nth. destruct (Z.of_nat k <? 0)%Z eqn:E; [apply Z.ltb_lt in E; lia|].
  rewrite Nat2Z.id. reflexivity.
Qed.

Lemma list_get_0 {A} (x : A) l : list_get (x :: l) 0 = Ok x. Proof. reflexivity. Qed.
Lemma list_get_1 {A} (x y : A) l : list_get (x :: y :: l) 1 = Ok y. Proof. reflexivity. Qed.

Lemma zrange_nil a b : (b <= a)%Z -> zrange a b = [].
Proof. intros H. unfold zrange. replace (Z.to_nat (b - a)) with 0%nat by lia. reflexivity. Qed.

Lemma zrange_cons a b : (a < b)%Z -> zrange a b = a :: zrange (a + 1) b.
Proof.
  intros H. unfold zrange. replace (Z.to_nat (b - a)) with (S (Z.to_nat (b - (a + 1)))) by lia.
  cbn [seq map]. f_equal; [lia|]. rewrite <- seq_shift, map_map. apply map_ext. intros k. lia.
Qed.

Lemma arr_get2_count a (i : nat) : arr_get2 a (Z.of_nat i) 1 = zcount (arr_rows a) i.
Proof.
  unfold zcount. destruct a as [|r]; cbn [arr_get2 arr_rows].
  - destruct i; reflexivity.
  - rewrite list_get_nat. destruct (nth_error r i) as [c|]; reflexivity.
Qed.

Ltac sum_loop_tac body :=
  let n := fresh "n" in let IH := fresh "IH" in let from := fresh "from" in let acc := fresh "acc" in
  intros n; induction n as [|n IH]; intros from acc;
  [ rewrite zrange_nil by lia; cbn; f_equal; lia
  | rewrite zrange_cons by lia; cbn [loopC]; unfold body at 1;
    rewrite arr_get2_count; cbn [jsum];
    destruct (zcount _ from) as [c|e]; cbn [bind]; [|reflexivity];
    replace (Z.of_nat from + 1)%Z with (Z.of_nat (S from)) by lia;
    replace (Z.of_nat from + Z.of_nat (S n))%Z with (Z.of_nat (S from) + Z.of_nat n)%Z by lia;
    rewrite IH; destruct (jsum _ (S from) n) as [r|e]; cbn [bind]; [f_equal; lia|reflexivity] ].

Lemma read_loop_sum self : forall n (from : nat) acc,
  loopC (gen_get_num_read_lines_loop1 self) (zrange (Z.of_nat from) (Z.of_nat from + Z.of_nat n)) acc
  = bind (jsum (arr_rows (num_output_per_event_ self)) from n) (fun r => Ok (acc + r)%Z).
Proof. sum_loop_tac gen_get_num_read_lines_loop1. Qed.

Lemma skip_loop1_sum self : forall n (from : nat) acc,
  loopC (gen_get_num_skip_lines_loop1 self) (zrange (Z.of_nat from) (Z.of_nat from + Z.of_nat n)) acc
  = bind (jsum (arr_rows (num_output_per_event_ self)) from n) (fun r => Ok (acc + r)%Z).
Proof. sum_loop_tac gen_get_num_skip_lines_loop1. Qed.

Lemma skip_loop2_sum self : forall n (from : nat) acc,
  loopC (gen_get_num_skip_lines_loop2 self) (zrange (Z.of_nat from) (Z.of_nat from + Z.of_nat n)) acc
  = bind (jsum (arr_rows (num_output_per_event_ self)) from n) (fun r => Ok (acc + r)%Z).
Proof. sum_loop_tac gen_get_num_skip_lines_loop2. Qed.

(* which keyword dictionaries the selectors of the hand model stand for *)
Definition kw_sel (kw : kwargs) (sel : selector) : Prop :=
  match sel with
  | SelAll => assoc "events" kw = None
  | SelOne k => assoc "events" kw = Some (VInt k) /\ (0 <= k)%Z
  | SelRange a b => assoc "events" kw = Some (VTuple [VInt a; VInt b]) /\ (0 <= a <= b)%Z
  end.

Lemma zrange_from0 (k : Z) : (0 <= k)%Z -> zrange 0 k = zrange (Z.of_nat 0) (Z.of_nat 0 + Z.of_nat (Z.to_nat k)).
Proof. intros H. f_equal. lia. Qed.

(* ---- __get_num_read_lines ---------------------------------------------------------------------------------------- *)
Theorem source_get_num_read_lines self sel :
  kw_sel (optional_arguments_ self) sel -> arr_std (num_output_per_event_ self) ->
  gen_get_num_read_lines self = jnum_read sel (arr_rows (num_output_per_event_ self)).
Proof.
  intros K S. unfold gen_get_num_read_lines, dict_mem, dict_get.
  destruct sel as [|k|a b]; cbn [kw_sel] in K.
  - rewrite K. rewrite orb_true_r. cbn [jnum_read].
    red in S. destruct (num_output_per_event_ self) as [|r]; [reflexivity|].
    cbn [arr_rows] in *. destruct r as [|c r]; [discriminate S|].
    cbn [np_sum_axis0 npv_index]. change 1%Z with (Z.of_nat 1). rewrite list_get_nat. cbn [nth_error bind arr_len].
    unfold zlen. f_equal.
  - destruct K as [K K0]. rewrite K. cbn [negb orb andb dict_truthy bind isinstance_int as_int jnum_read].
    replace (negb _ || false) with false by (destruct (optional_arguments_ self); [discriminate K|reflexivity]).
    rewrite <- (Z2Nat.id k K0) at 1.
    unfold zcount. destruct (num_output_per_event_ self) as [|r]; cbn [arr_row arr_rows].
    + destruct (Z.to_nat k); reflexivity.
    + rewrite list_get_nat. destruct (nth_error r (Z.to_nat k)) as [c|]; cbn; [f_equal; lia|reflexivity].
  - destruct K as [K K0]. rewrite K.
    replace (negb _ || negb true) with false by (destruct (optional_arguments_ self); [discriminate K|reflexivity]).
    cbn [bind isinstance_int isinstance_tuple dyn_index]. rewrite list_get_0, list_get_1. cbn [bind as_int jnum_read].
    replace (zrange a (b + 1)) with (zrange (Z.of_nat (Z.to_nat a)) (Z.of_nat (Z.to_nat a) + Z.of_nat (Z.to_nat (b - a + 1))))
      by (f_equal; lia).
    rewrite read_loop_sum. destruct (jsum _ _ _) as [r|e]; cbn [bind]; [f_equal; lia|reflexivity].
Qed.

(* ---- _get_num_skip_lines ---------------------------------------------------------------------------------------------- *)
Theorem source_get_num_skip_lines self sel :
  kw_sel (optional_arguments_ self) sel ->
  gen_get_num_skip_lines self = jnum_skip sel (arr_rows (num_output_per_event_ self)).
Proof.
  intros K. unfold gen_get_num_skip_lines, dict_mem, dict_get.
  destruct sel as [|k|a b]; cbn [kw_sel] in K.
  - rewrite K. rewrite orb_true_r. reflexivity.
  - destruct K as [K K0]. rewrite K.
    replace (negb _ || negb true) with false by (destruct (optional_arguments_ self); [discriminate K|reflexivity]).
    cbn [bind isinstance_int dyn_eq as_int jnum_skip].
    destruct (k =? 0)%Z eqn:E.
    + apply Z.eqb_eq in E. subst k. reflexivity.
    + rewrite (zrange_from0 k K0), skip_loop1_sum.
      destruct (jsum _ _ _) as [r|e]; cbn [bind]; [f_equal; lia|reflexivity].
  - destruct K as [K K0]. rewrite K.
    replace (negb _ || negb true) with false by (destruct (optional_arguments_ self); [discriminate K|reflexivity]).
    cbn [bind isinstance_int isinstance_tuple dyn_index]. rewrite list_get_0. cbn [bind as_int dyn_eq jnum_skip].
    destruct (a =? 0)%Z eqn:E.
    + apply Z.eqb_eq in E. subst a. reflexivity.
    + rewrite (zrange_from0 a) by lia. rewrite skip_loop2_sum.
      destruct (jsum _ _ _) as [r|e]; cbn [bind]; [f_equal; lia|reflexivity].
Qed.

(* ================================================================================================ the methods *)
Section Src.
  (* oracles of the hand model *)
  Variable tok_float : string -> option Q.
  Variable tok_int : string -> option Q.
  Variable pdg_valid : Q -> bool.
  Variable pdg_charge : Q -> Q.
  Variable usqrt : Q -> Q.
  (* the files, the filter chain *)
  Variable fs : string -> list string.
  Variable o_apply : list (list particle) -> pyval -> result (list (list particle)).

  (* int(str) and the str -> int32 conversion of np.array are both read as tok_int, float(str) as tok_float,
     Particle("JETSCAPE", tokens) as mk_jet_particle (any other format string: not the hand model) *)
  Definition zint (s : string) : option Z := option_map to_Z (tok_int s).
  Notation MKJ := (mk_jet_particle tok_float tok_int pdg_valid pdg_charge usqrt).
  Definition mkp (fmt : string) (tk : list string) : result particle :=
    if (fmt =? "JETSCAPE")%string then MKJ tk else Err OtherError.

  (* ---- set_num_output_per_event ------------------------------------------------------------------------------------ *)
  (* the [event, num_output] pairs the while loop collects *)
  Fixpoint scan_rows (defstr : string) (ls : list string) : result (list (list string)) :=
    match ls with
    | [] => Ok []
    | l :: t =>
      if contains "#" l && contains defstr l then
        e <- list_get (toks l) 2 ;; c <- list_get (toks l) 8 ;; r <- scan_rows defstr t ;; Ok ([e; c] :: r)
      else scan_rows defstr t
    end.

  Lemma scan_loop self : forall raw fuel acc, lines_ok raw -> (List.length raw < fuel)%nat ->
    whileC fuel (gen_set_num_output_per_event_loop1 self) (raw, acc)
    = bind (scan_rows (particle_type_defining_string_ self) raw) (fun r => Ok ([], (acc ++ r)%list)).
  Proof.
    induction raw as [|l t IH]; intros fuel acc Hok Hf; (destruct fuel as [|fuel]; [cbn in Hf; lia|]).
    - cbn. rewrite app_nil_r. reflexivity.
    - inversion Hok as [|? ? Hl Ht]; subst. cbn [whileC]. unfold gen_set_num_output_per_event_loop1 at 1.
      cbn [rt_readline]. rewrite (line_ok_truthy l Hl). cbn [negb scan_rows].
      change (split_on "032"%char (str_replace_char "009"%char " " (str_replace_char "010"%char "" l))) with (toks l).
      destruct (contains "#" l && contains (particle_type_defining_string_ self) l).
      + destruct (list_get (toks l) 2) as [e|x]; cbn [bind]; [|reflexivity].
        destruct (list_get (toks l) 8) as [c|x]; cbn [bind]; [|reflexivity].
        rewrite IH by (try assumption; cbn in Hf; lia).
        destruct (scan_rows _ t) as [r|x]; cbn [bind]; [|reflexivity]. rewrite <- app_assoc. reflexivity.
      + apply IH; [assumption|cbn in Hf; lia].
  Qed.

  Definition count_line (defstr : string) (l : line) : bool := has "#" l && has defstr l.
  (* a count line with fewer than nine tokens *)
  Definition has_short (defstr : string) (file : list line) : bool :=
    existsb (fun l => count_line defstr l && (List.length l <? 9)%nat) file.
  Definition lift_arr (r : result (list (Z * Z))) : result arr :=
    match r with Ok c => Ok (arr_of c) | Err e => Err e end.

  Lemma nth_short {A} (l : list A) : (List.length l <? 9)%nat = true -> nth_error l 8 = None.
  Proof. intros H. apply Nat.ltb_lt in H. apply nth_error_None. lia. Qed.
  Lemma nth_long {A} (l : list A) : (List.length l <? 9)%nat = false ->
    exists e c, nth_error l 2 = Some e /\ nth_error l 8 = Some c.
  Proof.
    intros H. apply Nat.ltb_ge in H.
    destruct (nth_error l 2) as [e|] eqn:E2; [|apply nth_error_None in E2; lia].
    destruct (nth_error l 8) as [c|] eqn:E8; [|apply nth_error_None in E8; lia].
    exists e, c. split; reflexivity.
  Qed.

  Lemma count_line_toks defstr l : pat_ok defstr -> line_ok l ->
    contains "#" l && contains defstr l = count_line defstr (toks l).
  Proof. intros P L. unfold count_line. rewrite (contains_toks "#" l pat_hash L), (contains_toks defstr l P L). reflexivity. Qed.

  Lemma scan_rows_short defstr : pat_ok defstr -> forall raw, lines_ok raw ->
    if has_short defstr (map toks raw) then scan_rows defstr raw = Err IndexError
    else exists r, scan_rows defstr raw = Ok r.
  Proof.
    intros P. induction raw as [|l t IH]; intros Hok; [exists []; reflexivity|].
    inversion Hok as [|? ? Hl Ht]; subst. specialize (IH Ht).
    cbn [map has_short existsb scan_rows]. fold (has_short defstr (map toks t)).
    rewrite (count_line_toks defstr l P Hl).
    destruct (count_line defstr (toks l)); cbn [andb]; [|exact IH].
    change 2%Z with (Z.of_nat 2). change 8%Z with (Z.of_nat 8). rewrite !list_get_nat.
    destruct (List.length (toks l) <? 9)%nat eqn:E; cbn [orb].
    - rewrite (nth_short _ E). destruct (nth_error (toks l) 2); reflexivity.
    - destruct (nth_long _ E) as (e & c & -> & ->). cbn [bind].
      destruct (has_short defstr (map toks t)); [rewrite IH; reflexivity|].
      destruct IH as (r & ->). eexists. reflexivity.
  Qed.

  Lemma scan_rows_int32 defstr : pat_ok defstr -> forall raw, lines_ok raw ->
    bind (scan_rows defstr raw) (rows_int32 zint)
    = if has_short defstr (map toks raw) then Err IndexError else jscan tok_int defstr (map toks raw).
  Proof.
    intros P. induction raw as [|l t IH]; intros Hok; [reflexivity|].
    inversion Hok as [|? ? Hl Ht]; subst. specialize (IH Ht). pose proof (scan_rows_short defstr P t Ht) as SH.
    cbn [map has_short existsb scan_rows jscan]. fold (has_short defstr (map toks t)).
    rewrite (count_line_toks defstr l P Hl). fold (count_line defstr (toks l)).
    destruct (count_line defstr (toks l)); cbn [andb orb]; [|exact IH].
    change 2%Z with (Z.of_nat 2). change 8%Z with (Z.of_nat 8). rewrite !list_get_nat.
    destruct (List.length (toks l) <? 9)%nat eqn:E; cbn [orb].
    - rewrite (nth_short _ E). destruct (nth_error (toks l) 2); reflexivity.
    - destruct (nth_long _ E) as (e & c & -> & ->). cbn [bind].
      destruct (has_short defstr (map toks t)).
      + rewrite SH. reflexivity.
      + destruct SH as (r & SH). rewrite SH in *. cbn [bind] in *. cbn [rows_int32]. unfold zint at 1 2.
        destruct (tok_int e) as [ev|]; cbn [option_map]; [|reflexivity].
        destruct (tok_int c) as [cn|]; cbn [option_map]; [|reflexivity].
        rewrite IH. reflexivity.
  Qed.

  Lemma rows_int32_length : forall r c, rows_int32 zint r = Ok c -> List.length c = List.length r.
  Proof.
    induction r as [|x r IH]; intros c H; [inversion H; reflexivity|].
    cbn [rows_int32] in H. destruct x as [|a [|b [|? ?]]]; try discriminate H.
    destruct (zint a); [|discriminate H]. destruct (zint b); [|discriminate H].
    destruct (rows_int32 zint r) as [c'|]; [|discriminate H]. inversion H; subst. cbn. rewrite (IH c' eq_refl). reflexivity.
  Qed.

  Lemma np_array_rows r : np_array_int32 zint r = bind (rows_int32 zint r) (fun c => Ok (arr_of c)).
  Proof.
    destruct r as [|x r]; [reflexivity|]. cbn [np_array_int32].
    destruct (rows_int32 zint (x :: r)) as [c|e] eqn:E; [|reflexivity].
    apply rows_int32_length in E. destruct c; [discriminate E|reflexivity].
  Qed.

  (* the count array and the number of events after the header scan.  jscan stops at the first count line it cannot
     read; the source first collects the label / count strings of ALL count lines (IndexError at the first line with
     fewer than nine tokens) and converts them afterwards (ValueError): with a count line that is too short the
     source raises IndexError even if an earlier count line has a label or count that is not an integer *)
  Theorem source_set_num_output_per_event self raw fuel :
    lines_ok raw -> fs (PATH_JETSCAPE_ self) = raw -> (List.length raw < fuel)%nat ->
    pat_ok (particle_type_defining_string_ self) ->
    gen_set_num_output_per_event fs zint fuel self
    = if has_short (particle_type_defining_string_ self) (map toks raw) then Err IndexError
      else match jscan tok_int (particle_type_defining_string_ self) (map toks raw) with
           | Ok c => Ok (set_num_events_ (set_num_output_per_event_ self (arr_of c)) (zlen c), tt)
           | Err e => Err e
           end.
  Proof.
    intros Hok Hfs Hf P. unfold gen_set_num_output_per_event. rewrite Hfs. unfold rt_open_text. cbv zeta.
    rewrite (scan_loop self raw fuel [] Hok Hf). cbn [app].
    pose proof (scan_rows_int32 _ P raw Hok) as S.
    destruct (scan_rows _ raw) as [r|e]; cbn [bind] in *.
    - rewrite np_array_rows. rewrite S.
      destruct (has_short _ _); [reflexivity|].
      destruct (jscan _ _ _) as [c|e] eqn:J; cbn [bind]; [|reflexivity].
      apply rows_int32_length in S. unfold zlen. rewrite S. reflexivity.
    - destruct (has_short _ _); [inversion S; reflexivity|rewrite <- S; reflexivity].
  Qed.

  (* where the two agree: always, unless jscan = Err ValueError *)
  Lemma has_short_jscan defstr : forall file, has_short defstr file = true ->
    jscan tok_int defstr file = Err IndexError \/ jscan tok_int defstr file = Err ValueError.
  Proof.
    induction file as [|l t IH]; intros H; [discriminate H|].
    cbn [has_short existsb] in H. fold (has_short defstr t) in H. cbn [jscan]. fold (count_line defstr l).
    destruct (count_line defstr l); cbn [andb] in H; [|exact (IH H)].
    destruct (List.length l <? 9)%nat eqn:E.
    - rewrite (nth_short _ E). left. destruct (nth_error l 2); reflexivity.
    - destruct (nth_long _ E) as (e & c & -> & ->). cbn [orb] in H.
      destruct (tok_int e); [|right; reflexivity]. destruct (tok_int c); [|right; reflexivity].
      destruct (IH H) as [-> | ->]; [left|right]; reflexivity.
  Qed.

  Corollary source_set_num_output_per_event_eq self raw fuel :
    lines_ok raw -> fs (PATH_JETSCAPE_ self) = raw -> (List.length raw < fuel)%nat ->
    pat_ok (particle_type_defining_string_ self) ->
    jscan tok_int (particle_type_defining_string_ self) (map toks raw) <> Err ValueError ->
    gen_set_num_output_per_event fs zint fuel self
    = match jscan tok_int (particle_type_defining_string_ self) (map toks raw) with
      | Ok c => Ok (set_num_events_ (set_num_output_per_event_ self (arr_of c)) (zlen c), tt)
      | Err e => Err e
      end.
  Proof.
    intros Hok Hfs Hf P NV. rewrite (source_set_num_output_per_event self raw fuel Hok Hfs Hf P).
    destruct (has_short _ _) eqn:E; [|reflexivity].
    destruct (has_short_jscan _ _ E) as [-> | H]; [reflexivity|contradiction].
  Qed.

  (* ---- _skip_lines ---------------------------------------------------------------------------------------------------- *)
  Lemma skip_loop : forall k a (f : list string),
    loopC gen_skip_lines_loop1 (zrange a (a + Z.of_nat k)) f = Ok (skipn k f).
  Proof.
    induction k as [|k IH]; intros a f.
    - rewrite zrange_nil by lia. reflexivity.
    - rewrite zrange_cons by lia. cbn [loopC]. unfold gen_skip_lines_loop1 at 1.
      replace (a + Z.of_nat (S k))%Z with (a + 1 + Z.of_nat k)%Z by lia.
      destruct f as [|l t]; cbn [rt_readline]; rewrite IH; [destruct k; reflexivity|reflexivity].
  Qed.

  Theorem source_skip_lines self sel (f : list string) :
    kw_sel (optional_arguments_ self) sel ->
    gen_skip_lines self f
    = bind (jnum_skip sel (arr_rows (num_output_per_event_ self))) (fun ns => Ok (skipn (Z.to_nat ns) f, tt)).
  Proof.
    intros K. unfold gen_skip_lines. rewrite (source_get_num_skip_lines self sel K).
    destruct (jnum_skip _ _) as [ns|e]; cbn [bind]; [|reflexivity]. cbv zeta.
    destruct (Z.leb_spec 0 ns).
    - replace (zrange 0 ns) with (zrange 0 (0 + Z.of_nat (Z.to_nat ns))) by (f_equal; lia).
      rewrite skip_loop. reflexivity.
    - rewrite zrange_nil by lia. replace (Z.to_nat ns) with 0%nat by lia. reflexivity.
  Qed.

  (* ---- the operations on the count rows --------------------------------------------------------------------------------- *)
  Lemma set_row_spec {A} (v : A) : forall (l : list A) k,
    set_row k v l = if (k <? List.length l)%nat then Ok (firstn k l ++ v :: skipn (S k) l)%list else Err IndexError.
  Proof.
    induction l as [|x l IH]; intros k; [destruct k; reflexivity|].
    destruct k as [|k]; [reflexivity|]. cbn [set_row]. rewrite IH.
    change (S k <? List.length (x :: l))%nat with (k <? List.length l)%nat.
    destruct (k <? List.length l)%nat; reflexivity.
  Qed.
  Lemma delete_row_spec {A} : forall (l : list A) k, delete_row k l = (firstn k l ++ skipn (S k) l)%list.
  Proof.
    induction l as [|x l IH]; intros k; [destruct k; reflexivity|].
    destruct k as [|k]; [reflexivity|]. cbn [delete_row firstn skipn app]. rewrite IH. reflexivity.
  Qed.
  Lemma zlen_eqb0 {A} (l : list A) : (zlen l =? 0)%Z = (List.length l =? 0)%nat.
  Proof. destruct l; reflexivity. Qed.
  Lemma norm_index_nat n (k : nat) : norm_index (Z.of_nat n) (Z.of_nat k) = if (k <? n)%nat then Some k else None.
  Proof.
    unfold norm_index. replace (Z.of_nat k <? 0)%Z with false by (symmetry; apply Z.ltb_ge; lia).
    replace (0 <=? Z.of_nat k)%Z with true by (symmetry; apply Z.leb_le; lia). cbn [andb].
    destruct (Nat.ltb_spec k n).
    - replace (Z.of_nat k <? Z.of_nat n)%Z with true by (symmetry; apply Z.ltb_lt; lia). rewrite Nat2Z.id. reflexivity.
    - replace (Z.of_nat k <? Z.of_nat n)%Z with false by (symmetry; apply Z.ltb_ge; lia). reflexivity.
  Qed.

  (* ---- set_particle_list: the read loop ------------------------------------------------------------------------------- *)
  (* the filter chain as the hand model sees it: absent, or a function applied to one event *)
  Definition flt_rel (kw : kwargs) (flt : option (list particle -> list particle)) : Prop :=
    match flt with
    | None => assoc "filters" kw = None
    | Some f => exists fv, assoc "filters" kw = Some fv /\ forall d, o_apply [d] fv = Ok [f d]
    end.
  Definition st_of (self : jself) (pl : list (list particle)) (dat : list particle) (c : Z) : lstate :=
    {| plist := pl; data := dat; counts := arr_rows (num_output_per_event_ self); cut := c |}.
  (* the attributes other than the count array are not touched *)
  Definition same_but_counts (s s' : jself) : Prop := s' = set_num_output_per_event_ s (num_output_per_event_ s').
  Lemma same_refl s : same_but_counts s s. Proof. destruct s; reflexivity. Qed.
  Lemma same_trans s1 s2 s3 : same_but_counts s1 s2 -> same_but_counts s2 s3 -> same_but_counts s1 s3.
  Proof. unfold same_but_counts. intros H1 H2. rewrite H2, H1. destruct s1; reflexivity. Qed.
  Lemma same_set s a : same_but_counts s (set_num_output_per_event_ s a). Proof. destruct s; reflexivity. Qed.

  Notation JREAD := (jread tok_float tok_int pdg_valid pdg_charge usqrt).
  Notation LOOP1 := (gen_set_particle_list_loop1 zint mkp o_apply).

  Notation JCLOSE := (jclose).

  (* one iteration of jread *)
  Definition jstep (flt : option (list particle -> list particle)) (sel : selector) (first : bool) (l : line)
             (st : lstate) : result lstate :=
    if has "#" l && has "sigmaGen" l then jclose flt (sel_first sel) st
    else if first && negb (has "#" l) && negb (has "weight" l) then Err ValueError
    else if has "Event" l && has "weight" l then
      match nth_error l 2 with
      | None => Err IndexError
      | Some e =>
        match tok_int e with
        | None => Err ValueError
        | Some ev =>
          if (to_Z ev =? first_header sel)%Z then Ok st
          else st' <- jclose flt (sel_first sel) st ;;
               Ok {| plist := plist st'; data := []; counts := counts st'; cut := cut st' |}
        end
      end
    else p <- MKJ l ;; Ok {| plist := plist st; data := (data st ++ [p])%list; counts := counts st; cut := cut st |}.

  Lemma jread_step flt sel first m l t st :
    JREAD flt sel first (S m) (l :: t) st = bind (jstep flt sel first l st) (fun st' => JREAD flt sel false m t st').
  Proof.
    unfold jstep. cbn [jread].
    destruct (has "#" l && has "sigmaGen" l); [reflexivity|].
    destruct (first && negb (has "#" l) && negb (has "weight" l)); [reflexivity|].
    destruct (has "Event" l && has "weight" l).
    - destruct (nth_error l 2) as [e|]; [|reflexivity]. destruct (tok_int e) as [ev|]; [|reflexivity].
      destruct (to_Z ev =? first_header sel)%Z; [reflexivity|].
      destruct (jclose flt (sel_first sel) st); reflexivity.
    - destruct (MKJ l); reflexivity.
  Qed.

  Lemma arr_set_row_spec a (k : nat) v :
    arr_set_row a (Z.of_nat k) v
    = match set_row k v (arr_rows a) with Ok r => Ok (A2 r) | Err e => Err e end.
  Proof.
    destruct a as [|r]; cbn [arr_set_row arr_rows]; [destruct k; reflexivity|].
    unfold zlen. rewrite norm_index_nat, set_row_spec. destruct (k <? List.length r)%nat; reflexivity.
  Qed.
  Lemma np_delete_row_spec a (k : nat) :
    np_delete_row a (Z.of_nat k)
    = if (k <? List.length (arr_rows a))%nat then Ok (A2 (delete_row k (arr_rows a))) else Err IndexError.
  Proof.
    destruct a as [|r]; cbn [np_delete_row arr_rows]; [destruct k; reflexivity|].
    unfold zlen. rewrite norm_index_nat, delete_row_spec. destruct (k <? List.length r)%nat; reflexivity.
  Qed.
  Lemma arr_sub_col_spec r (k : nat) : arr_sub_col_from (A2 r) (Z.of_nat k) 0 1 = Ok (A2 (dec_labels_from k r)).
  Proof.
    cbn [arr_sub_col_from Z.eqb orb]. unfold dec_labels_from, slice_bound, zlen.
    replace (Z.of_nat k <? 0)%Z with false by (symmetry; apply Z.ltb_ge; lia).
    destruct (Nat.leb_spec k (List.length r)).
    - replace (Z.to_nat (Z.min (Z.of_nat k) (Z.of_nat (List.length r)))) with k by lia. reflexivity.
    - replace (Z.to_nat (Z.min (Z.of_nat k) (Z.of_nat (List.length r)))) with (List.length r) by lia.
      rewrite !firstn_all2, !skipn_all2 by lia. reflexivity.
  Qed.
  Lemma dec_labels_all r k : (List.length r <= k)%nat -> dec_labels_from k r = r.
  Proof. intros H. unfold dec_labels_from. rewrite firstn_all2, skipn_all2 by lia. cbn. apply app_nil_r. Qed.

  Definition step_ok (flt : option (list particle -> list particle)) (sel : selector) (first : bool) (l : string)
             (raw : list string) (self : jself) pl dat c
             (r : result (ctl (jself * list (list particle) * list particle * Z * list string))) : Prop :=
    match r with
    | Ok (Next (self', pl', dat', c', raw')) =>
      jstep flt sel first (toks l) (st_of self pl dat c) = Ok (st_of self' pl' dat' c')
      /\ raw' = raw /\ same_but_counts self self'
    | Ok (Break _) => False
    | Err e => jstep flt sel first (toks l) (st_of self pl dat c) = Err e
    end.

  Lemma close_ok flt sel self pl dat c (tail : list particle -> list particle) (raw : list string) :
    flt_rel (optional_arguments_ self) flt ->
    match
     (pat <-
      (if match assoc "filters" (optional_arguments_ self) with Some _ => true | None => false end
       then
        t563 <- match assoc "filters" (optional_arguments_ self) with Some v => Ok v | None => Err KeyError end;;
        t564 <- o_apply [dat] t563;;
        t565 <- list_get t564 0;;
        self0 <-
        (if negb (zlen t565 =? 0)%Z || (zlen dat =? 0)%Z
         then
          t574 <- as_int (VInt (sel_first sel));;
          t575 <- arr_set_row (num_output_per_event_ self) (zlen pl) ((t574 + zlen pl + 1)%Z, zlen t565);;
          Ok (set_num_output_per_event_ self t575)
         else
          t576 <- np_delete_row (num_output_per_event_ self) (zlen pl);;
          t577 <- np_atleast_2d t576;;
          self0 <-
          (if (arr_shape0 (num_output_per_event_ (set_num_output_per_event_ self t577)) =? 0)%Z
           then Ok (set_num_output_per_event_ (set_num_output_per_event_ self t577) A1)
           else
            self0 <-
            (if (zlen pl <? arr_shape0 (num_output_per_event_ (set_num_output_per_event_ self t577)))%Z
             then
              t581 <- arr_sub_col_from (num_output_per_event_ (set_num_output_per_event_ self t577)) (zlen pl) 0 1;;
              Ok (set_num_output_per_event_ (set_num_output_per_event_ self t577) t581)
             else Ok (set_num_output_per_event_ self t577));;
            Ok self0);; Ok self0);; Ok (self0, t565)
       else Ok (self, dat));;
      (let '(self0, v_data) := pat in
        pat0 <- (if negb (zlen v_data =? 0)%Z || (zlen dat =? 0)%Z then Ok ((pl ++ [v_data])%list, c) else Ok (pl, (c + 1)%Z));;
        (let '(v_particle_list, v_cut_events) := pat0 in
          Ok (Next (self0, v_particle_list, tail v_data, v_cut_events, raw)))))
    with
    | Ok (Next (self', pl', dat', c', raw')) =>
      exists st', jclose flt (sel_first sel) (st_of self pl dat c) = Ok st'
        /\ plist st' = pl' /\ tail (data st') = dat' /\ counts st' = arr_rows (num_output_per_event_ self') /\ cut st' = c'
        /\ raw' = raw /\ same_but_counts self self'
    | Ok (Break _) => False
    | Err e => jclose flt (sel_first sel) (st_of self pl dat c) = Err e
    end.
  Proof.
    intros F. unfold jclose, st_of. cbn [plist data counts cut]. rewrite <- !zlen_eqb0.
    change (zlen pl) with (Z.of_nat (List.length pl)).
    pose proof (same_set self) as SS.
    assert (SE : forall a, num_output_per_event_ (set_num_output_per_event_ self a) = a) by (destruct self; reflexivity).
    assert (ST : forall a b, set_num_output_per_event_ (set_num_output_per_event_ self a) b = set_num_output_per_event_ self b)
      by (destruct self; reflexivity).
    destruct flt as [f|]; cbn [flt_rel] in F.
    - destruct F as (fv & -> & Hf). cbn [bind]. rewrite Hf. cbn [bind]. rewrite list_get_0. cbn [bind as_int].
      destruct (negb (zlen (f dat) =? 0)%Z || (zlen dat =? 0)%Z) eqn:C.
      + rewrite arr_set_row_spec. change (zlen (f dat)) with (Z.of_nat (List.length (f dat))).
        destruct (set_row (List.length pl) _ (arr_rows (num_output_per_event_ self))) as [r|e]; cbn [bind]; [|reflexivity].
        rewrite C. cbn [bind].
        eexists. split; [reflexivity|]. cbn [plist data counts cut]. rewrite SE. repeat split; try apply SS.
      + rewrite np_delete_row_spec.
        destruct (List.length pl <? List.length (arr_rows (num_output_per_event_ self)))%nat; cbn [bind]; [|reflexivity].
        cbn [np_atleast_2d bind]. rewrite !SE, !ST.
        set (r' := delete_row (List.length pl) (arr_rows (num_output_per_event_ self))).
        cbn [arr_shape0 arr_len]. rewrite zlen_eqb0.
        destruct r' as [|x r2] eqn:R; cbn [List.length Nat.eqb bind].
        * rewrite C. cbn [bind]. eexists. split; [reflexivity|]. cbn [plist data counts cut]. rewrite SE. repeat split; try apply SS.
          unfold dec_labels_from. destruct (List.length pl); reflexivity.
        * rewrite <- R. rewrite arr_sub_col_spec.
          destruct (Z.ltb_spec (Z.of_nat (List.length pl)) (zlen r')) as [L|L]; cbn [bind]; rewrite ?ST, C; cbn [bind];
            (eexists; split; [reflexivity|]; cbn [plist data counts cut]; rewrite SE; repeat split; try apply SS).
          cbn [arr_rows]. apply dec_labels_all. unfold zlen in L. lia.
    - rewrite F. cbn [bind].
      destruct (negb (zlen dat =? 0)%Z || (zlen dat =? 0)%Z); cbn [bind];
        (eexists; split; [reflexivity|]; cbn [plist data counts cut]; repeat split; try apply same_refl).
  Qed.

  Lemma same_kw s s' : same_but_counts s s' -> optional_arguments_ s' = optional_arguments_ s.
  Proof. intros ->. destruct s; reflexivity. Qed.
  Lemma same_nev s s' : same_but_counts s s' -> num_events_ s' = num_events_ s.
  Proof. intros ->. destruct s; reflexivity. Qed.

  Lemma lstate_eta st pl dat cs c : plist st = pl -> data st = dat -> counts st = cs -> cut st = c ->
    st = {| plist := pl; data := dat; counts := cs; cut := c |}.
  Proof. destruct st; cbn; intros; subst; reflexivity. Qed.

  (* one iteration of the read loop is one step of jread *)
  Lemma step_spec flt sel : forall i l (raw : list string) self pl dat c,
    kw_sel (optional_arguments_ self) sel -> flt_rel (optional_arguments_ self) flt -> line_ok l ->
    step_ok flt sel (i =? 0)%Z l raw self pl dat c
            (LOOP1 (optional_arguments_ self) (VInt (sel_first sel)) (self, pl, dat, c, l :: raw) i).
  Proof.
    intros i l raw self pl dat c K F Hl.
    unfold gen_set_particle_list_loop1, step_ok, jstep. cbn [rt_readline]. rewrite (line_ok_truthy l Hl). cbn [negb].
    change (split_on "032"%char (str_replace_char "009"%char " " (str_replace_char "010"%char "" l))) with (toks l).
    rewrite (contains_toks "#" l pat_hash Hl), (contains_toks "sigmaGen" l pat_sigmaGen Hl),
            (contains_toks "weight" l pat_weight Hl), (contains_toks "Event" l pat_Event Hl).
    destruct (has "#" (toks l) && has "sigmaGen" (toks l)).
    { cbv zeta. unfold dict_mem, dict_get.
      pose proof (close_ok flt sel self pl dat c (fun d => d) raw F) as CL. cbv beta in CL.
      match type of CL with match ?X with _ => _ end => destruct X as [[[[[[s' pl'] d'] c'] r']|?]|e] end; [|exact CL|exact CL].
      destruct CL as (st' & J & E1 & E2 & E3 & E4 & E5 & E6). rewrite J. split; [|split; assumption].
      f_equal. apply lstate_eta; assumption. }
    destruct ((i =? 0)%Z && negb (has "#" (toks l)) && negb (has "weight" (toks l))); [reflexivity|].
    destruct (has "Event" (toks l) && has "weight" (toks l)).
    { cbv zeta. unfold dict_mem, dict_get.
      assert (FE : forall X (k : Z -> result X),
        bind (if match assoc "events" (optional_arguments_ self) with Some _ => true | None => false end
              then
               t525 <- match assoc "events" (optional_arguments_ self) with Some v => Ok v | None => Err KeyError end;;
               v <- (if isinstance_int t525
                     then t534 <- match assoc "events" (optional_arguments_ self) with Some v => Ok v | None => Err KeyError end;;
                          t535 <- dyn_int zint t534;; Ok (1 + t535)%Z
                     else t536 <- match assoc "events" (optional_arguments_ self) with Some v => Ok v | None => Err KeyError end;;
                          t538 <- (if isinstance_tuple t536 then Ok true
                                   else t537 <- match assoc "events" (optional_arguments_ self) with Some v => Ok v | None => Err KeyError end;;
                                        Ok (isinstance_int t537));;
                          _ <- (if negb t538 then Err ValueError else Ok tt);;
                          t539 <- match assoc "events" (optional_arguments_ self) with Some v => Ok v | None => Err KeyError end;;
                          t540 <- dyn_index t539 0;; t541 <- dyn_int zint t540;; Ok (1 + t541)%Z);;
               Ok v
              else Ok 1%Z) k = k (first_header sel)).
      { intros X k. destruct sel as [|q|a b]; cbn [kw_sel] in K.
        - rewrite K. reflexivity.
        - destruct K as [-> _]. reflexivity.
        - destruct K as [-> _]. reflexivity. }
      rewrite FE. clear FE.
      change 2%Z with (Z.of_nat 2). rewrite list_get_nat.
      destruct (nth_error (toks l) 2) as [e|]; cbn [bind]; [|reflexivity].
      unfold str_to_int, zint. destruct (tok_int e) as [ev|]; cbn [option_map bind]; [|reflexivity].
      destruct (to_Z ev =? first_header sel)%Z; [split; [reflexivity|split; [reflexivity|apply same_refl]]|].
      pose proof (close_ok flt sel self pl dat c (fun _ => []) raw F) as CL. cbv beta in CL.
      match type of CL with match ?X with _ => _ end => destruct X as [[[[[[s' pl'] d'] c'] r']|?]|e0] end;
        [|exact CL|rewrite CL; reflexivity].
      destruct CL as (st' & J & E1 & E2 & E3 & E4 & E5 & E6). rewrite J. cbn [bind]. split; [|split; assumption].
      unfold st_of. subst. rewrite E3. reflexivity. }
    cbv zeta. unfold mkp. cbn [String.eqb Ascii.eqb Bool.eqb].
    destruct (MKJ (toks l)) as [p|e]; cbn [bind]; [|reflexivity].
    split; [reflexivity|split; [reflexivity|apply same_refl]].
  Qed.

  Definition loop_ok (flt : option (list particle -> list particle)) (sel : selector) (first : bool) (n : nat)
             (raw : list string) (self : jself) pl dat c
             (r : result (jself * list (list particle) * list particle * Z * list string)) : Prop :=
    match r with
    | Ok (self', pl', dat', c', _) =>
      JREAD flt sel first n (map toks raw) (st_of self pl dat c) = Ok (st_of self' pl' dat' c')
      /\ same_but_counts self self'
    | Err e => JREAD flt sel first n (map toks raw) (st_of self pl dat c) = Err e
    end.

  Lemma loop_spec flt sel kw : forall n i0 (raw : list string) self pl dat c,
    optional_arguments_ self = kw -> kw_sel kw sel -> flt_rel kw flt -> lines_ok raw -> (0 <= i0)%Z ->
    loop_ok flt sel (i0 =? 0)%Z n raw self pl dat c
            (loopC (LOOP1 kw (VInt (sel_first sel))) (zrange i0 (i0 + Z.of_nat n)) (self, pl, dat, c, raw)).
  Proof.
    induction n as [|n IH]; intros i0 raw self pl dat c Hkw K F Hok Hi.
    - rewrite zrange_nil by lia. cbn. split; [reflexivity|apply same_refl].
    - rewrite zrange_cons by lia. cbn [loopC]. destruct raw as [|l t].
      + unfold gen_set_particle_list_loop1 at 1. cbn. reflexivity.
      + inversion Hok as [|? ? Hl Ht]; subst kw.
        pose proof (step_spec flt sel i0 l t self pl dat c K F Hl) as ST. unfold step_ok in ST.
        unfold loop_ok. cbn [map]. rewrite jread_step.
        destruct (LOOP1 _ _ _ i0) as [[[[[[s' pl'] d'] c'] r']|?]|e]; [|contradiction|rewrite ST; reflexivity].
        destruct ST as (J & -> & SB). rewrite J. cbn [bind].
        replace (i0 + Z.of_nat (S n))%Z with (i0 + 1 + Z.of_nat n)%Z by lia.
        pose proof (same_kw _ _ SB) as KW.
        specialize (IH (i0 + 1)%Z t s' pl' d' c' KW K F Ht ltac:(lia)).
        replace (i0 + 1 =? 0)%Z with false in IH by (symmetry; apply Z.eqb_neq; lia).
        unfold loop_ok in IH.
        destruct (loopC _ _ _) as [[[[[s2 pl2] d2] c2] r2]|e]; [|exact IH].
        destruct IH as [J2 SB2]. split; [exact J2|exact (same_trans _ _ _ SB SB2)].
  Qed.

  (* ---- set_particle_list ---------------------------------------------------------------------------------------------- *)
  Lemma py_slice_nonneg {A} (l : list A) a b : (0 <= a <= b)%Z ->
    py_slice l (Some a) (Some b) = firstn (Z.to_nat (b - a)) (skipn (Z.to_nat a) l).
  Proof.
    intros H. unfold py_slice, slice_bound, zlen.
    replace (a <? 0)%Z with false by (symmetry; apply Z.ltb_ge; lia).
    replace (b <? 0)%Z with false by (symmetry; apply Z.ltb_ge; lia).
    set (n := List.length l).
    destruct (Z.le_gt_cases (Z.of_nat n) a) as [L|L].
    - rewrite !Z.min_r by lia. rewrite Z.sub_diag. cbn [Z.to_nat firstn].
      rewrite (@skipn_all2 _ (Z.to_nat a) l) by (fold n; lia). destruct (Z.to_nat (b - a)); reflexivity.
    - rewrite (Z.min_l a) by lia. destruct (Z.le_gt_cases b (Z.of_nat n)) as [M|M].
      + rewrite Z.min_l by lia. reflexivity.
      + rewrite Z.min_r by lia.
        rewrite !firstn_all2; [reflexivity| |]; rewrite skipn_length; fold n; lia.
  Qed.

  Definition sel_arr (sel : selector) (a : arr) : arr :=
    match sel with
    | SelAll => a
    | SelOne k => arr_slice a (Some k) (Some (k + 1)%Z)
    | SelRange x y => arr_slice a (Some x) (Some (y + 1)%Z)
    end.
  Definition sel_ok (sel : selector) : Prop :=
    match sel with SelAll => True | SelOne k => (0 <= k)%Z | SelRange a b => (0 <= a <= b)%Z end.
  Lemma kw_sel_ok kw sel : kw_sel kw sel -> sel_ok sel.
  Proof. destruct sel; cbn; tauto. Qed.
  Lemma sel_arr_rows sel a : sel_ok sel -> arr_rows (sel_arr sel a) = sel_counts sel (arr_rows a).
  Proof.
    intros H. destruct sel as [|k|x y]; cbn [sel_arr sel_counts sel_ok] in *; [reflexivity| |];
      (destruct a as [|r]; cbn [arr_slice arr_rows]; unfold slice;
       [match goal with |- [] = firstn ?n (skipn ?m []) => destruct n, m; reflexivity end|]).
    - rewrite py_slice_nonneg by lia. replace (Z.to_nat (k + 1 - k)) with 1%nat by lia. reflexivity.
    - rewrite py_slice_nonneg by lia. replace (Z.to_nat (y + 1 - x)) with (Z.to_nat (y - x + 1)) by lia. reflexivity.
  Qed.

  Lemma jsum_err cnts : forall n from e, jsum cnts from n = Err e -> e = IndexError.
  Proof.
    induction n as [|n IH]; intros from e H; [discriminate H|]. cbn [jsum] in H. unfold zcount in H.
    destruct (nth_error cnts from); cbn [bind] in H; [|congruence].
    destruct (jsum cnts (S from) n) eqn:E; cbn [bind] in H; [discriminate H|]. inversion H; subst. exact (IH _ _ E).
  Qed.
  Lemma jnum_skip_err sel cnts e : jnum_skip sel cnts = Err e -> e = IndexError.
  Proof.
    destruct sel; cbn [jnum_skip]; intros H; [discriminate H| |];
      (destruct (jsum cnts 0 _) eqn:E; cbn [bind] in H; [discriminate H|inversion H; subst; exact (jsum_err _ _ _ _ E)]).
  Qed.
  Lemma jnum_read_err sel cnts e : jnum_read sel cnts = Err e -> e = IndexError.
  Proof.
    destruct sel; cbn [jnum_read]; intros H.
    - destruct cnts; [congruence|discriminate H].
    - unfold zcount in H. destruct (nth_error cnts _); cbn [bind] in H; congruence.
    - destruct (jsum cnts _ _) eqn:E; cbn [bind] in H; [discriminate H|inversion H; subst; exact (jsum_err _ _ _ _ E)].
  Qed.

  (* what jload does between the header scan and get_sigmaGen *)
  Definition jload_tail (flt : option (list particle -> list particle)) (file : list (list string)) (cnts : list (Z * Z))
             (nev : Z) (sel : selector) : result (list (list particle) * Z * list (Z * Z)) :=
    ns <- jnum_skip sel cnts ;;
    nr <- jnum_read sel cnts ;;
    st <- JREAD flt sel true (Z.to_nat nr) (skipn (Z.to_nat ns) file)
               {| plist := []; data := []; counts := sel_counts sel cnts; cut := 0 |} ;;
    let nev' := (nev - cut st)%Z in
    fin <- match sel with
           | SelAll => if (Z.of_nat (List.length (plist st)) =? nev')%Z then Ok (nev', counts st) else Err IndexError
           | _ => Ok (Z.of_nat (List.length (plist st)), counts st)
           end ;;
    Ok (match plist st with [] => [[]] | pl => pl end, fst fin, snd fin).

  Lemma events_if self sel X (k : jself * pyval -> result X) :
    kw_sel (optional_arguments_ self) sel ->
    bind (if dict_mem "events" (optional_arguments_ self)
          then
           t234 <- dict_get (optional_arguments_ self) "events";;
           pat <-
           (if isinstance_int t234
            then t237 <- dict_get (optional_arguments_ self) "events";; Ok (t237, t237)
            else t238 <- dict_get (optional_arguments_ self) "events";; pat <- dyn_unpack2 t238;; (let '(a, b) := pat in Ok (a, b)));;
           (let '(v_first_event, v_last_event) := pat in
             t239 <- as_int v_first_event;;
             t240 <- as_int v_last_event;;
             Ok (set_num_output_per_event_ self (arr_slice (num_output_per_event_ self) (Some t239) (Some (t240 + 1)%Z)), v_first_event))
          else Ok (self, VInt 0)) k
    = k (match sel with SelAll => self | _ => set_num_output_per_event_ self (sel_arr sel (num_output_per_event_ self)) end,
         VInt (sel_first sel)).
  Proof.
    intros K. unfold dict_mem, dict_get. destruct sel as [|q|a b]; cbn [kw_sel] in K.
    - rewrite K. reflexivity.
    - destruct K as [-> _]. reflexivity.
    - destruct K as [-> _]. reflexivity.
  Qed.

  Lemma zrange_nat nr : zrange 0 nr = zrange 0 (0 + Z.of_nat (Z.to_nat nr)).
  Proof. unfold zrange. f_equal. f_equal. lia. Qed.

  Lemma skipn_map' {A B} (f : A -> B) : forall n l, skipn n (map f l) = map f (skipn n l).
  Proof. induction n as [|n IH]; intros l; [reflexivity|]. destruct l; [reflexivity|]. cbn. apply IH. Qed.
  Lemma lines_ok_skipn n : forall raw, lines_ok raw -> lines_ok (skipn n raw).
  Proof.
    induction n as [|n IH]; intros raw H; [exact H|]. destruct raw; [exact H|]. inversion H; subst. cbn. apply IH. assumption.
  Qed.

  Theorem source_set_particle_list self raw sel flt :
    lines_ok raw -> fs (PATH_JETSCAPE_ self) = raw ->
    kw_sel (optional_arguments_ self) sel -> flt_rel (optional_arguments_ self) flt ->
    arr_std (num_output_per_event_ self) ->
    match gen_set_particle_list fs zint mkp o_apply self (optional_arguments_ self) with
    | Ok (self', pl) =>
      jload_tail flt (map toks raw) (arr_rows (num_output_per_event_ self)) (num_events_ self) sel
      = Ok (pl, num_events_ self', arr_rows (num_output_per_event_ self'))
      /\ self' = set_num_events_ (set_num_output_per_event_ self (num_output_per_event_ self')) (num_events_ self')
    | Err e => jload_tail flt (map toks raw) (arr_rows (num_output_per_event_ self)) (num_events_ self) sel = Err e
    end.
  Proof.
    intros Hok Hfs K F S. unfold gen_set_particle_list, jload_tail. cbv zeta.
    rewrite (source_get_num_read_lines self sel K S), Hfs. unfold rt_open_text.
    rewrite (source_skip_lines self sel raw K).
    destruct (jnum_read sel _) as [nr|e1] eqn:NR; cbn [bind].
    2:{ apply jnum_read_err in NR. subst e1. destruct (jnum_skip sel _) as [ns|e2] eqn:NS; cbn [bind]; [reflexivity|].
        apply jnum_skip_err in NS. subst. reflexivity. }
    destruct (jnum_skip sel _) as [ns|e2]; cbn [bind]; [|reflexivity].
    rewrite (events_if self sel _ _ K). cbv beta iota.
    set (self1 := match sel with SelAll => self | _ => set_num_output_per_event_ self (sel_arr sel (num_output_per_event_ self)) end).
    assert (SB1 : same_but_counts self self1) by (destruct sel; [apply same_refl|apply same_set|apply same_set]).
    assert (R1 : arr_rows (num_output_per_event_ self1) = sel_counts sel (arr_rows (num_output_per_event_ self))).
    { subst self1. destruct sel; [reflexivity| |]; rewrite <- (sel_arr_rows _ _ (kw_sel_ok _ _ K)); destruct self; reflexivity. }
    rewrite zrange_nat.
    pose proof (loop_spec flt sel (optional_arguments_ self) (Z.to_nat nr) 0 (skipn (Z.to_nat ns) raw) self1 [] [] 0
                          (same_kw _ _ SB1) K F (lines_ok_skipn _ _ Hok) ltac:(lia)) as L.
    unfold loop_ok in L. cbn [Z.eqb] in L. unfold st_of in L. rewrite R1 in L. rewrite <- skipn_map' in L.
    destruct (loopC _ _ _) as [[[[[s2 pl2] d2] c2] r2]|e]; cbn [bind]; [|rewrite L; reflexivity].
    destruct L as [J SB2]. rewrite J. cbn [bind plist cut counts].
    pose proof (same_trans _ _ _ SB1 SB2) as SB. red in SB. clear SB1 SB2 R1 J self1.
    destruct self as [p pt pd oa ee a ne]. destruct s2 as [p2 pt2 pd2 oa2 ee2 a2 ne2].
    cbn [set_num_output_per_event_ PATH_JETSCAPE_ particle_type_ particle_type_defining_string_ optional_arguments_
         event_end_lines_ num_output_per_event_ num_events_] in SB.
    injection SB as -> -> -> -> -> ->.
    cbn [set_num_output_per_event_ set_num_events_ PATH_JETSCAPE_ particle_type_ particle_type_defining_string_
         optional_arguments_ event_end_lines_ num_output_per_event_ num_events_] in *.
    unfold dict_mem, zlen.
    assert (LE : forall pl : list (list particle), (if list_is_empty pl then Ok [[]] else Ok pl)
                 = (Ok (match pl with [] => [[]] | x :: t => x :: t end) : result (list (list particle))))
      by (intros [|? ?]; reflexivity).
    destruct sel as [|q|x y]; cbn [kw_sel] in K.
    - rewrite K. rewrite orb_true_r.
      destruct (Z.of_nat (List.length pl2) =? ne - c2)%Z; cbn [negb bind]; [|reflexivity].
      rewrite LE. cbn [bind fst snd]. split; reflexivity.
    - destruct K as [K _]. rewrite K.
      replace (negb (dict_truthy oa)) with false by (destruct oa; [discriminate K|reflexivity]).
      cbn [negb orb bind]. rewrite LE. cbn [bind fst snd]. split; reflexivity.
    - destruct K as [K _]. rewrite K.
      replace (negb (dict_truthy oa)) with false by (destruct oa; [discriminate K|reflexivity]).
      cbn [negb orb bind]. rewrite LE. cbn [bind fst snd]. split; reflexivity.
  Qed.

  (* ---- _check_that_tuple_contains_integers_only, load ---------------------------------------------------------------- *)
  Theorem source_check_tuple (l : list pyval) :
    gen_check_that_tuple_contains_integers_only (VTuple l)
    = if forallb isinstance_int l then Ok tt else Err TypeError.
  Proof. unfold gen_check_that_tuple_contains_integers_only. cbn [dyn_iter bind]. destruct (forallb _ l); reflexivity. Qed.

  Definition known_key (k : string) : bool := mem_str k ["events"; "filters"; "particletype"].

  Lemma keys_loop : forall ks, loopC gen_load_loop1 ks tt = if forallb known_key ks then Ok tt else Err ValueError.
  Proof.
    induction ks as [|k ks IH]; [reflexivity|]. cbn [loopC forallb]. unfold gen_load_loop1 at 1. fold (known_key k).
    destruct (known_key k); cbn [negb bind andb]; [exact IH|reflexivity].
  Qed.

  (* the checks load makes on the `events` and `particletype` values, in this order (a bool inside `events` is outside
     the runtime: OtherError) *)
  Definition check_events (v : option pyval) : result unit :=
    match v with
    | Some (VTuple l) =>
      if negb (forallb isinstance_int l) then Err TypeError else
      match l with
      | VInt a :: VInt b :: _ =>
        if (a >? b)%Z then Err ValueError else if (a <? 0)%Z || (b <? 0)%Z then Err ValueError else Ok tt
      | _ :: _ :: _ => Err OtherError
      | _ => Err IndexError
      end
    | Some (VInt k) => if (k <? 0)%Z then Err ValueError else Ok tt
    | Some (VBool _) => Err OtherError
    | _ => Ok tt
    end.
  Definition check_ptype (v : option pyval) (cur : string) : result string :=
    match v with
    | Some (VStr s) => if (s =? "hadron")%string || (s =? "parton")%string then Ok s else Err ValueError
    | Some _ => Err TypeError
    | None => Ok cur
    end.
  Definition defstr_of (pt : string) : string := if (pt =? "hadron")%string then "N_hadrons" else "N_partons".

  (* load: the checks in source order, then the header scan, then the read loop *)
  Theorem source_load self kw fuel :
    gen_load fs zint zint mkp o_apply fuel self kw
    = if negb (forallb known_key (dict_keys kw)) then Err ValueError else
      _ <- check_events (assoc "events" kw) ;;
      pt <- check_ptype (assoc "particletype" kw) (particle_type_ self) ;;
      let self1 := set_particle_type_defining_string_
                     (set_particle_type_ (set_event_end_lines_ (set_optional_arguments_ self kw) []) pt) (defstr_of pt) in
      bind (gen_set_num_output_per_event fs zint fuel self1) (fun '(self2, _) =>
      bind (gen_set_particle_list fs zint mkp o_apply self2 kw) (fun '(self3, pl) =>
      Ok (self3, (pl, num_events_ self3, num_output_per_event_ self3, [])))).
  Proof.
    unfold gen_load. destruct self as [p pt pd oa ee a ne].
    cbn [set_optional_arguments_ set_event_end_lines_ set_particle_type_ set_particle_type_defining_string_
         PATH_JETSCAPE_ particle_type_ particle_type_defining_string_ optional_arguments_ event_end_lines_
         num_output_per_event_ num_events_].
    rewrite keys_loop. destruct (forallb known_key (dict_keys kw)); cbn [negb bind]; [|reflexivity].
    generalize (gen_set_num_output_per_event fs zint fuel) as G1.
    generalize (gen_set_particle_list fs zint mkp o_apply) as G2. intros G2 G1.
    unfold dict_mem, dict_get, defstr_of.
    assert (PT : forall (s0 : string) X (k : jself -> result X),
      bind (if (s0 =? "hadron")%string
            then Ok (JSelf p s0 "N_hadrons" kw [] a ne) else Ok (JSelf p s0 "N_partons" kw [] a ne)) k
      = k (JSelf p s0 (if (s0 =? "hadron")%string then "N_hadrons" else "N_partons") kw [] a ne))
      by (intros s0 X k; destruct (s0 =? "hadron")%string; reflexivity).
    destruct (assoc "events" kw) as [[z|b|s|l|]|]; cbn [bind isinstance_tuple isinstance_int check_events];
      try (cbn [dyn_lt dyn_cmp bind]; try destruct (z <? 0)%Z; cbn [bind]; try reflexivity);
      try (rewrite source_check_tuple; destruct (forallb isinstance_int l); cbn [negb bind]; [|reflexivity];
           destruct l as [|[x| | | |] [|[y| | | |] t]]; try reflexivity; try discriminate;
           cbn [dyn_index bind]; rewrite ?list_get_0, ?list_get_1; cbn [bind dyn_gt dyn_lt dyn_cmp];
           try reflexivity;
           destruct (x >? y)%Z; cbn [bind]; [reflexivity|];
           destruct (x <? 0)%Z; cbn [bind orb]; [reflexivity|]; destruct (y <? 0)%Z; cbn [bind]; [reflexivity|]);
      (destruct (assoc "particletype" kw) as [[z'|b'|s'|l'|]|];
       cbn [bind isinstance_str negb check_ptype dyn_eq particle_type_]; try reflexivity;
       [destruct (s' =? "hadron")%string; cbn [bind orb as_str];
        [rewrite PT; reflexivity|destruct (s' =? "parton")%string; cbn [bind as_str]; [rewrite PT; reflexivity|reflexivity]]
       |rewrite PT; reflexivity]).
  Qed.
End Src.

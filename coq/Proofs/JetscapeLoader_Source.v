(* JetscapeLoader: the hand model Model/Jetscape.v equals loader/JetscapeLoader.py (+ the inherited helpers of
   loader/BaseLoader.py) as regenerated into Gen/GenJetscapeLoader.v on every run (tools/py2coq/gen_jetscapeloader.py,
   runtime Model/JetscapeLoaderRt.v).

   The regenerated methods work on RAW lines (str): `"#" in line`, line.replace(..).replace(..).split(" ").  The hand
   model works on token lists.  Every theorem is stated for an arbitrary list [raw] of raw lines under [lines_ok raw]
   (every line is non-empty and contains a newline at most as its last character: what readline() returns), and
   the hand model is run on [map toks raw], [toks] being exactly the tokenisation the source applies.
   [toks_join] shows that for a line that is the join by single blanks or tabs of blank-, tab- and newline-free
   tokens, followed by a newline or not, [toks] gives these tokens back (the lines of Model/JetscapeDoc.v jrender).

   Where the hand model and the source differ (each stated by a theorem or excluded by a named hypothesis):
   - header scan: jscan stops at the first count line it cannot read, the source collects all count lines first
     (IndexError for a short one) and converts afterwards (ValueError): [source_set_num_output_per_event];
   - a line with '#' and 'sigmaGen' that is not the last line: the source keeps appending particles to the list object
     it has already put into particle_list (hypothesis [trailer_last]);
   - get_sigmaGen splits at every whitespace character, the hand model at blanks and tabs (hypothesis [plain_ws]);
   - a one-line file makes get_last_line fail with OSError, which jload does not model
     ([source_get_last_line_one_line]; the other theorems take a file of at least two lines);
   - the shape of the count array (1-D empty after every event was dropped by a filter) is not in the hand model's
     j_counts_2d (constantly true): the theorems compare the rows ([arr_rows]). *)
From Coq Require Import List String Ascii ZArith QArith Bool Arith Lia.
From SX Require Import Lib.Strs Lib.StrLemmas Lib.Split Model.Oscar Model.Jetscape Model.JetscapeDoc Model.JetscapeLoaderRt
     Gen.GenJetscapeLoader Proofs.C02_JetscapeExample.
Import ListNotations.
Local Open Scope string_scope.

(* ================================================================================================ strings *)
Notation nl := "010"%char (only parsing).
Notation tab := "009"%char (only parsing).
Definition tab2sp (s : string) : string := str_replace_char tab " " s.
(* the tokenisation of the source: line.replace("\n", "").replace("\t", " ").split(" ") *)
Definition toks (s : string) : list string := split_on sp (tab2sp (str_replace_char nl "" s)).

Definition line_ok (s : string) : Prop :=
  s <> "" /\ exists b, no_char nl b = true /\ (s = b ++ String nl "" \/ s = b).
Definition lines_ok (raw : list string) : Prop := Forall line_ok raw.
(* a pattern of an `in` test: not empty, no blank, tab or newline *)
Definition pat_ok (p : string) : Prop :=
  p <> "" /\ no_char sp p = true /\ no_char tab p = true /\ no_char nl p = true.

Lemma sapp_assoc (a b c : string) : (a ++ b) ++ c = a ++ (b ++ c).
Proof. induction a as [|x a IH]; [reflexivity|]. cbn. rewrite IH. reflexivity. Qed.

Lemma replace_app c r a b : str_replace_char c r (a ++ b) = str_replace_char c r a ++ str_replace_char c r b.
Proof.
  induction a as [|x a IH]; [reflexivity|]. cbn [append str_replace_char].
  destruct (Ascii.eqb x c); rewrite IH; [rewrite sapp_assoc|]; reflexivity.
Qed.

Lemma replace_free c r a : no_char c a = true -> str_replace_char c r a = a.
Proof.
  induction a as [|x a IH]; intros H; [reflexivity|]. cbn in H. apply andb_true_iff in H. destruct H as [Hx Ha].
  apply negb_true_iff in Hx. cbn [str_replace_char]. rewrite Hx, (IH Ha). reflexivity.
Qed.

Lemma app_empty_r (s : string) : s ++ "" = s.
Proof. induction s as [|c s IH]; [reflexivity|]. cbn. rewrite IH. reflexivity. Qed.

Lemma toks_body b : no_char nl b = true -> toks (b ++ String nl "") = split_on sp (tab2sp b) /\ toks b = split_on sp (tab2sp b).
Proof.
  intros H. unfold toks. rewrite replace_app, (replace_free nl "" b H). cbn [str_replace_char].
  rewrite Ascii.eqb_refl. cbn [append]. rewrite app_empty_r. split; reflexivity.
Qed.

Lemma tab2sp_cons a t : tab2sp (String a t) = String (if Ascii.eqb a tab then sp else a) (tab2sp t).
Proof. unfold tab2sp. cbn [str_replace_char]. destruct (Ascii.eqb a tab); reflexivity. Qed.

Lemma prefix_tab2sp p : forall x, no_char sp p = true -> no_char tab p = true -> prefix p (tab2sp x) = prefix p x.
Proof.
  induction p as [|a p IH]; intros x Hs Ht; [destruct x; [reflexivity|rewrite tab2sp_cons; reflexivity]|].
  cbn in Hs, Ht. apply andb_true_iff in Hs, Ht. destruct Hs as [Has Hs], Ht as [Hat Ht].
  apply negb_true_iff in Has, Hat.
  destruct x as [|b x]; [reflexivity|]. rewrite tab2sp_cons. cbn [prefix].
  destruct (Ascii.eqb b tab) eqn:Eb.
  - apply Ascii.eqb_eq in Eb. subst b.
    destruct (ascii_dec a sp) as [->|_]; [rewrite Ascii.eqb_refl in Has; discriminate|].
    destruct (ascii_dec a tab) as [->|_]; [rewrite Ascii.eqb_refl in Hat; discriminate|]. reflexivity.
  - destruct (ascii_dec a b); [apply IH; assumption|reflexivity].
Qed.

Lemma contains_tab2sp p : forall x, no_char sp p = true -> no_char tab p = true -> contains p (tab2sp x) = contains p x.
Proof.
  intros x Hs Ht. induction x as [|b x IH].
  - reflexivity.
  - pose proof (prefix_tab2sp p (String b x) Hs Ht) as P. rewrite tab2sp_cons in *. cbn [contains]. rewrite P, IH. reflexivity.
Qed.

Lemma split_on_ne c s : split_on c s <> [].
Proof. destruct s as [|a s]; cbn; [discriminate|]. destruct (Ascii.eqb a c); [discriminate|]. destruct (split_on c s); discriminate. Qed.

Lemma join_split c : forall s, join c (split_on c s) = s.
Proof.
  induction s as [|a s IH]; [reflexivity|]. cbn [split_on].
  destruct (Ascii.eqb a c) eqn:E.
  - apply Ascii.eqb_eq in E. subst a. pose proof (split_on_ne c s) as N.
    destruct (split_on c s) as [|t ts]; [congruence|]. cbn [join append] in *. rewrite IH. reflexivity.
  - pose proof (split_on_ne c s) as N. destruct (split_on c s) as [|t ts]; [congruence|].
    destruct ts as [|t' ts]; cbn [join append] in *; rewrite IH; reflexivity.
Qed.

Lemma split_on_free c : forall s, forallb (no_char c) (split_on c s) = true.
Proof.
  induction s as [|a s IH]; [reflexivity|]. cbn [split_on].
  destruct (Ascii.eqb a c) eqn:E.
  - cbn. exact IH.
  - pose proof (split_on_ne c s) as N. destruct (split_on c s) as [|t ts]; [congruence|].
    cbn in *. rewrite E. cbn. exact IH.
Qed.

Lemma contains_split p x : no_char sp p = true -> p <> "" -> contains p x = has p (split_on sp x).
Proof. intros Hs Hne. rewrite <- (contains_join p Hs Hne (split_on sp x)), join_split. reflexivity. Qed.

(* `p in line` on the raw line is the token-level test of the hand model *)
Theorem contains_toks p s : pat_ok p -> line_ok s -> contains p s = has p (toks s).
Proof.
  intros (Hne & Hs & Ht & Hn) (_ & b & Hb & [->| ->]).
  - rewrite (contains_line p Hn Hne b). destruct (toks_body b Hb) as [-> _].
    rewrite <- (contains_split p _ Hs Hne). symmetry. apply contains_tab2sp; assumption.
  - destruct (toks_body b Hb) as [_ ->].
    rewrite <- (contains_split p _ Hs Hne). symmetry. apply contains_tab2sp; assumption.
Qed.

Lemma pat_hash : pat_ok "#". Proof. repeat split; discriminate. Qed.
Lemma pat_sigmaGen : pat_ok "sigmaGen". Proof. repeat split; discriminate. Qed.
Lemma pat_weight : pat_ok "weight". Proof. repeat split; discriminate. Qed.
Lemma pat_Event : pat_ok "Event". Proof. repeat split; discriminate. Qed.
Lemma pat_N_hadrons : pat_ok "N_hadrons". Proof. repeat split; discriminate. Qed.
Lemma pat_N_partons : pat_ok "N_partons". Proof. repeat split; discriminate. Qed.

Lemma line_ok_truthy s : line_ok s -> str_truthy s = true.
Proof. intros [H _]. unfold str_truthy. destruct (String.eqb_spec s ""); [contradiction|reflexivity]. Qed.

(* ================================================================================================ lists, ranges, the count array *)
Definition arr_rows (a : arr) : list (Z * Z) := match a with A1 => [] | A2 r => r end.
Definition arr_of (l : list (Z * Z)) : arr := match l with [] => A1 | _ => A2 l end.
(* the 1-D empty array, or a 2-D array with at least one row: what set_num_output_per_event stores *)
Definition arr_std (a : arr) : Prop := a = arr_of (arr_rows a).

Lemma list_get_nat {A} (l : list A) (k : nat) :
  list_get l (Z.of_nat k) = match nth_error l k with Some a => Ok a | None => Err IndexError end.
Proof.
  unfold list_get, py_nth. destruct (Z.of_nat k <? 0)%Z eqn:E; [apply Z.ltb_lt in E; lia|].
  rewrite Nat2Z.id. reflexivity.
Qed.

Lemma list_get_0 {A} (x : A) l : list_get (x :: l) 0 = Ok x. Proof. reflexivity. Qed.
Lemma list_get_1 {A} (x y : A) l : list_get (x :: y :: l) 1 = Ok y. Proof. reflexivity. Qed.

Lemma zrange_nil a b : (b <= a)%Z -> zrange a b = [].
Proof. intros H. unfold zrange. replace (Z.to_nat (b - a)) with 0%nat by lia. reflexivity. Qed.

Lemma zrange_cons a b : (a < b)%Z -> zrange a b = a :: zrange (a + 1) b.
Proof.
  intros H. unfold zrange. replace (Z.to_nat (b - a)) with (S (Z.to_nat (b - (a + 1)))) by lia.
  cbn [seq map]. f_equal; [lia|]. rewrite <- seq_shift, map_map. apply map_ext. intros k. lia.
Qed.

Lemma arr_get2_count a (i : nat) : arr_get2 a (Z.of_nat i) 1 = zcount (arr_rows a) i.
Proof.
  unfold zcount. destruct a as [|r]; cbn [arr_get2 arr_rows].
  - destruct i; reflexivity.
  - rewrite list_get_nat. destruct (nth_error r i) as [c|]; reflexivity.
Qed.

Ltac sum_loop_tac body :=
  let n := fresh "n" in let IH := fresh "IH" in let from := fresh "from" in let acc := fresh "acc" in
  intros n; induction n as [|n IH]; intros from acc;
  [ rewrite zrange_nil by lia; cbn; f_equal; lia
  | rewrite zrange_cons by lia; cbn [loopC]; unfold body at 1;
    rewrite arr_get2_count; cbn [jsum];
    destruct (zcount _ from) as [c|e]; cbn [bind]; [|reflexivity];
    replace (Z.of_nat from + 1)%Z with (Z.of_nat (S from)) by lia;
    replace (Z.of_nat from + Z.of_nat (S n))%Z with (Z.of_nat (S from) + Z.of_nat n)%Z by lia;
    rewrite IH; destruct (jsum _ (S from) n) as [r|e]; cbn [bind]; [f_equal; lia|reflexivity] ].

Lemma read_loop_sum self : forall n (from : nat) acc,
  loopC (gen_get_num_read_lines_loop1 self) (zrange (Z.of_nat from) (Z.of_nat from + Z.of_nat n)) acc
  = bind (jsum (arr_rows (num_output_per_event_ self)) from n) (fun r => Ok (acc + r)%Z).
Proof. sum_loop_tac gen_get_num_read_lines_loop1. Qed.

Lemma skip_loop1_sum self : forall n (from : nat) acc,
  loopC (gen_get_num_skip_lines_loop1 self) (zrange (Z.of_nat from) (Z.of_nat from + Z.of_nat n)) acc
  = bind (jsum (arr_rows (num_output_per_event_ self)) from n) (fun r => Ok (acc + r)%Z).
Proof. sum_loop_tac gen_get_num_skip_lines_loop1. Qed.

Lemma skip_loop2_sum self : forall n (from : nat) acc,
  loopC (gen_get_num_skip_lines_loop2 self) (zrange (Z.of_nat from) (Z.of_nat from + Z.of_nat n)) acc
  = bind (jsum (arr_rows (num_output_per_event_ self)) from n) (fun r => Ok (acc + r)%Z).
Proof. sum_loop_tac gen_get_num_skip_lines_loop2. Qed.

(* which keyword dictionaries the selectors of the hand model stand for *)
Definition kw_sel (kw : kwargs) (sel : selector) : Prop :=
  match sel with
  | SelAll => assoc "events" kw = None
  | SelOne k => assoc "events" kw = Some (VInt k) /\ (0 <= k)%Z
  | SelRange a b => assoc "events" kw = Some (VTuple [VInt a; VInt b]) /\ (0 <= a <= b)%Z
  end.

Lemma zrange_from0 (k : Z) : (0 <= k)%Z -> zrange 0 k = zrange (Z.of_nat 0) (Z.of_nat 0 + Z.of_nat (Z.to_nat k)).
Proof. intros H. f_equal. lia. Qed.

(* ---- __get_num_read_lines ---------------------------------------------------------------------------------------- *)
Theorem source_get_num_read_lines self sel :
  kw_sel (optional_arguments_ self) sel -> arr_std (num_output_per_event_ self) ->
  gen_get_num_read_lines self = jnum_read sel (arr_rows (num_output_per_event_ self)).
Proof.
  intros K S. unfold gen_get_num_read_lines, dict_mem, dict_get.
  destruct sel as [|k|a b]; cbn [kw_sel] in K.
  - rewrite K. rewrite orb_true_r. cbn [jnum_read].
    red in S. destruct (num_output_per_event_ self) as [|r]; [reflexivity|].
    cbn [arr_rows] in *. destruct r as [|c r]; [discriminate S|].
    cbn [np_sum_axis0 npv_index]. change 1%Z with (Z.of_nat 1). rewrite list_get_nat. cbn [nth_error bind arr_len].
    unfold zlen. f_equal.
  - destruct K as [K K0]. rewrite K. cbn [negb orb andb dict_truthy bind isinstance_int as_int jnum_read].
    replace (negb _ || false) with false by (destruct (optional_arguments_ self); [discriminate K|reflexivity]).
    rewrite <- (Z2Nat.id k K0) at 1.
    unfold zcount. destruct (num_output_per_event_ self) as [|r]; cbn [arr_row arr_rows].
    + destruct (Z.to_nat k); reflexivity.
    + rewrite list_get_nat. destruct (nth_error r (Z.to_nat k)) as [c|]; cbn; [f_equal; lia|reflexivity].
  - destruct K as [K K0]. rewrite K.
    replace (negb _ || negb true) with false by (destruct (optional_arguments_ self); [discriminate K|reflexivity]).
    cbn [bind isinstance_int isinstance_tuple dyn_index]. rewrite list_get_0, list_get_1. cbn [bind as_int jnum_read].
    replace (zrange a (b + 1)) with (zrange (Z.of_nat (Z.to_nat a)) (Z.of_nat (Z.to_nat a) + Z.of_nat (Z.to_nat (b - a + 1))))
      by (f_equal; lia).
    rewrite read_loop_sum. destruct (jsum _ _ _) as [r|e]; cbn [bind]; [f_equal; lia|reflexivity].
Qed.

(* ---- _get_num_skip_lines ---------------------------------------------------------------------------------------------- *)
Theorem source_get_num_skip_lines self sel :
  kw_sel (optional_arguments_ self) sel ->
  gen_get_num_skip_lines self = jnum_skip sel (arr_rows (num_output_per_event_ self)).
Proof.
  intros K. unfold gen_get_num_skip_lines, dict_mem, dict_get.
  destruct sel as [|k|a b]; cbn [kw_sel] in K.
  - rewrite K. rewrite orb_true_r. reflexivity.
  - destruct K as [K K0]. rewrite K.
    replace (negb _ || negb true) with false by (destruct (optional_arguments_ self); [discriminate K|reflexivity]).
    cbn [bind isinstance_int dyn_eq as_int jnum_skip].
    destruct (k =? 0)%Z eqn:E.
    + apply Z.eqb_eq in E. subst k. reflexivity.
    + rewrite (zrange_from0 k K0), skip_loop1_sum.
      destruct (jsum _ _ _) as [r|e]; cbn [bind]; [f_equal; lia|reflexivity].
  - destruct K as [K K0]. rewrite K.
    replace (negb _ || negb true) with false by (destruct (optional_arguments_ self); [discriminate K|reflexivity]).
    cbn [bind isinstance_int isinstance_tuple dyn_index]. rewrite list_get_0. cbn [bind as_int dyn_eq jnum_skip].
    destruct (a =? 0)%Z eqn:E.
    + apply Z.eqb_eq in E. subst a. reflexivity.
    + rewrite (zrange_from0 a) by lia. rewrite skip_loop2_sum.
      destruct (jsum _ _ _) as [r|e]; cbn [bind]; [f_equal; lia|reflexivity].
Qed.

(* a line with '#' and 'sigmaGen' is the last line (otherwise the list appended at that line would be changed in place
   by a later particle line while it sits inside particle_list: the runtime abstains there) *)
Fixpoint trailer_last (raw : list string) : Prop :=
  match raw with
  | [] => True
  | l :: t => (has "#" (toks l) && has "sigmaGen" (toks l) = true -> t = []) /\ trailer_last t
  end.
Lemma trailer_last_skipn n : forall raw, trailer_last raw -> trailer_last (skipn n raw).
Proof. induction n as [|n IH]; intros raw H; [exact H|]. destruct raw; [exact H|]. cbn. apply IH. apply H. Qed.
Lemma trailer_last_of_forall : forall raw,
  Forall (fun l => has "#" (toks l) && has "sigmaGen" (toks l) = false) (removelast raw) -> trailer_last raw.
Proof.
  induction raw as [|l t IH]; intros H; [exact I|]. destruct t as [|l' t']; [cbn; tauto|].
  change (removelast (l :: l' :: t')) with (l :: removelast (l' :: t')) in H. inversion H as [|? ? Hl Ht]; subst.
  split; [rewrite Hl; discriminate|exact (IH Ht)].
Qed.


(* ================================================================================================ the methods *)
Section Src.
  (* oracles of the hand model *)
  Variable tok_float : string -> option Q.
  Variable tok_int : string -> option Q.
  Variable pdg_valid : Q -> bool.
  Variable pdg_charge : Q -> Q.
  Variable usqrt : Q -> Q.
  (* the files, the filter chain *)
  Variable fs : string -> list string.
  Variable o_apply : list (list particle) -> pyval -> result (list (list particle)).

  (* int(str) and the str -> int32 conversion of np.array are both read as tok_int, float(str) as tok_float,
     Particle("JETSCAPE", tokens) as mk_jet_particle (any other format string: not the hand model) *)
  Definition zint (s : string) : option Z := option_map to_Z (tok_int s).
  Notation MKJ := (mk_jet_particle tok_float tok_int pdg_valid pdg_charge usqrt).
  Definition mkp (fmt : string) (tk : list string) : result particle :=
    if (fmt =? "JETSCAPE")%string then MKJ tk else Err OtherError.

  (* ---- set_num_output_per_event ------------------------------------------------------------------------------------ *)
  (* the [event, num_output] pairs the while loop collects *)
  Fixpoint scan_rows (defstr : string) (ls : list string) : result (list (list string)) :=
    match ls with
    | [] => Ok []
    | l :: t =>
      if contains "#" l && contains defstr l then
        e <- list_get (toks l) 2 ;; c <- list_get (toks l) 8 ;; r <- scan_rows defstr t ;; Ok ([e; c] :: r)
      else scan_rows defstr t
    end.

  Lemma scan_loop self : forall raw fuel acc, lines_ok raw -> (List.length raw < fuel)%nat ->
    whileC fuel (gen_set_num_output_per_event_loop1 self) (raw, acc)
    = bind (scan_rows (particle_type_defining_string_ self) raw) (fun r => Ok ([], (acc ++ r)%list)).
  Proof.
    induction raw as [|l t IH]; intros fuel acc Hok Hf; (destruct fuel as [|fuel]; [cbn in Hf; lia|]).
    - cbn. rewrite app_nil_r. reflexivity.
    - inversion Hok as [|? ? Hl Ht]; subst. cbn [whileC]. unfold gen_set_num_output_per_event_loop1 at 1.
      cbn [rt_readline]. rewrite (line_ok_truthy l Hl). cbn [negb scan_rows].
      change (split_on "032"%char (str_replace_char "009"%char " " (str_replace_char "010"%char "" l))) with (toks l).
      destruct (contains "#" l && contains (particle_type_defining_string_ self) l).
      + destruct (list_get (toks l) 2) as [e|x]; cbn [bind]; [|reflexivity].
        destruct (list_get (toks l) 8) as [c|x]; cbn [bind]; [|reflexivity].
        rewrite IH by (try assumption; cbn in Hf; lia).
        destruct (scan_rows _ t) as [r|x]; cbn [bind]; [|reflexivity]. rewrite <- app_assoc. reflexivity.
      + apply IH; [assumption|cbn in Hf; lia].
  Qed.

  Definition count_line (defstr : string) (l : line) : bool := has "#" l && has defstr l.
  (* a count line with fewer than nine tokens *)
  Definition has_short (defstr : string) (file : list line) : bool :=
    existsb (fun l => count_line defstr l && (List.length l <? 9)%nat) file.
  Definition lift_arr (r : result (list (Z * Z))) : result arr :=
    match r with Ok c => Ok (arr_of c) | Err e => Err e end.

  Lemma nth_short {A} (l : list A) : (List.length l <? 9)%nat = true -> nth_error l 8 = None.
  Proof. intros H. apply Nat.ltb_lt in H. apply nth_error_None. lia. Qed.
  Lemma nth_long {A} (l : list A) : (List.length l <? 9)%nat = false ->
    exists e c, nth_error l 2 = Some e /\ nth_error l 8 = Some c.
  Proof.
    intros H. apply Nat.ltb_ge in H.
    destruct (nth_error l 2) as [e|] eqn:E2; [|apply nth_error_None in E2; lia].
    destruct (nth_error l 8) as [c|] eqn:E8; [|apply nth_error_None in E8; lia].
    exists e, c. split; reflexivity.
  Qed.

  Lemma count_line_toks defstr l : pat_ok defstr -> line_ok l ->
    contains "#" l && contains defstr l = count_line defstr (toks l).
  Proof. intros P L. unfold count_line. rewrite (contains_toks "#" l pat_hash L), (contains_toks defstr l P L). reflexivity. Qed.

  Lemma scan_rows_short defstr : pat_ok defstr -> forall raw, lines_ok raw ->
    if has_short defstr (map toks raw) then scan_rows defstr raw = Err IndexError
    else exists r, scan_rows defstr raw = Ok r.
  Proof.
    intros P. induction raw as [|l t IH]; intros Hok; [exists []; reflexivity|].
    inversion Hok as [|? ? Hl Ht]; subst. specialize (IH Ht).
    cbn [map has_short existsb scan_rows]. fold (has_short defstr (map toks t)).
    rewrite (count_line_toks defstr l P Hl).
    destruct (count_line defstr (toks l)); cbn [andb]; [|exact IH].
    change 2%Z with (Z.of_nat 2). change 8%Z with (Z.of_nat 8). rewrite !list_get_nat.
    destruct (List.length (toks l) <? 9)%nat eqn:E; cbn [orb].
    - rewrite (nth_short _ E). destruct (nth_error (toks l) 2); reflexivity.
    - destruct (nth_long _ E) as (e & c & -> & ->). cbn [bind].
      destruct (has_short defstr (map toks t)); [rewrite IH; reflexivity|].
      destruct IH as (r & ->). eexists. reflexivity.
  Qed.

  Lemma scan_rows_int32 defstr : pat_ok defstr -> forall raw, lines_ok raw ->
    bind (scan_rows defstr raw) (rows_int32 zint)
    = if has_short defstr (map toks raw) then Err IndexError else jscan tok_int defstr (map toks raw).
  Proof.
    intros P. induction raw as [|l t IH]; intros Hok; [reflexivity|].
    inversion Hok as [|? ? Hl Ht]; subst. specialize (IH Ht). pose proof (scan_rows_short defstr P t Ht) as SH.
    cbn [map has_short existsb scan_rows jscan]. fold (has_short defstr (map toks t)).
    rewrite (count_line_toks defstr l P Hl). fold (count_line defstr (toks l)).
    destruct (count_line defstr (toks l)); cbn [andb orb]; [|exact IH].
    change 2%Z with (Z.of_nat 2). change 8%Z with (Z.of_nat 8). rewrite !list_get_nat.
    destruct (List.length (toks l) <? 9)%nat eqn:E; cbn [orb].
    - rewrite (nth_short _ E). destruct (nth_error (toks l) 2); reflexivity.
    - destruct (nth_long _ E) as (e & c & -> & ->). cbn [bind].
      destruct (has_short defstr (map toks t)).
      + rewrite SH. reflexivity.
      + destruct SH as (r & SH). rewrite SH in *. cbn [bind] in *. cbn [rows_int32]. unfold zint at 1 2.
        destruct (tok_int e) as [ev|]; cbn [option_map]; [|reflexivity].
        destruct (tok_int c) as [cn|]; cbn [option_map]; [|reflexivity].
        rewrite IH. reflexivity.
  Qed.

  Lemma rows_int32_length : forall r c, rows_int32 zint r = Ok c -> List.length c = List.length r.
  Proof.
    induction r as [|x r IH]; intros c H; [inversion H; reflexivity|].
    cbn [rows_int32] in H. destruct x as [|a [|b [|? ?]]]; try discriminate H.
    destruct (zint a); [|discriminate H]. destruct (zint b); [|discriminate H].
    destruct (rows_int32 zint r) as [c'|]; [|discriminate H]. inversion H; subst. cbn. rewrite (IH c' eq_refl). reflexivity.
  Qed.

  Lemma np_array_rows r : np_array_int32 zint r = bind (rows_int32 zint r) (fun c => Ok (arr_of c)).
  Proof.
    destruct r as [|x r]; [reflexivity|]. cbn [np_array_int32].
    destruct (rows_int32 zint (x :: r)) as [c|e] eqn:E; [|reflexivity].
    apply rows_int32_length in E. destruct c; [discriminate E|reflexivity].
  Qed.

  (* the count array and the number of events after the header scan.  jscan stops at the first count line it cannot
     read; the source first collects the label / count strings of ALL count lines (IndexError at the first line with
     fewer than nine tokens) and converts them afterwards (ValueError): with a count line that is too short the
     source raises IndexError even if an earlier count line has a label or count that is not an integer *)
  Theorem source_set_num_output_per_event self raw fuel :
    lines_ok raw -> fs (PATH_JETSCAPE_ self) = raw -> (List.length raw < fuel)%nat ->
    pat_ok (particle_type_defining_string_ self) ->
    gen_set_num_output_per_event fs zint fuel self
    = if has_short (particle_type_defining_string_ self) (map toks raw) then Err IndexError
      else match jscan tok_int (particle_type_defining_string_ self) (map toks raw) with
           | Ok c => Ok (set_num_events_ (set_num_output_per_event_ self (arr_of c)) (zlen c), tt)
           | Err e => Err e
           end.
  Proof.
    intros Hok Hfs Hf P. unfold gen_set_num_output_per_event. rewrite Hfs. unfold rt_open_text. cbv zeta.
    rewrite (scan_loop self raw fuel [] Hok Hf). cbn [app].
    pose proof (scan_rows_int32 _ P raw Hok) as S.
    destruct (scan_rows _ raw) as [r|e]; cbn [bind] in *.
    - rewrite np_array_rows. rewrite S.
      destruct (has_short _ _); [reflexivity|].
      destruct (jscan _ _ _) as [c|e] eqn:J; cbn [bind]; [|reflexivity].
      apply rows_int32_length in S. unfold zlen. rewrite S. reflexivity.
    - destruct (has_short _ _); [inversion S; reflexivity|rewrite <- S; reflexivity].
  Qed.

  (* where the two agree: always, unless jscan = Err ValueError *)
  Lemma has_short_jscan defstr : forall file, has_short defstr file = true ->
    jscan tok_int defstr file = Err IndexError \/ jscan tok_int defstr file = Err ValueError.
  Proof.
    induction file as [|l t IH]; intros H; [discriminate H|].
    cbn [has_short existsb] in H. fold (has_short defstr t) in H. cbn [jscan]. fold (count_line defstr l).
    destruct (count_line defstr l); cbn [andb] in H; [|exact (IH H)].
    destruct (List.length l <? 9)%nat eqn:E.
    - rewrite (nth_short _ E). left. destruct (nth_error l 2); reflexivity.
    - destruct (nth_long _ E) as (e & c & -> & ->). cbn [orb] in H.
      destruct (tok_int e); [|right; reflexivity]. destruct (tok_int c); [|right; reflexivity].
      destruct (IH H) as [-> | ->]; [left|right]; reflexivity.
  Qed.

  Corollary source_set_num_output_per_event_eq self raw fuel :
    lines_ok raw -> fs (PATH_JETSCAPE_ self) = raw -> (List.length raw < fuel)%nat ->
    pat_ok (particle_type_defining_string_ self) ->
    jscan tok_int (particle_type_defining_string_ self) (map toks raw) <> Err ValueError ->
    gen_set_num_output_per_event fs zint fuel self
    = match jscan tok_int (particle_type_defining_string_ self) (map toks raw) with
      | Ok c => Ok (set_num_events_ (set_num_output_per_event_ self (arr_of c)) (zlen c), tt)
      | Err e => Err e
      end.
  Proof.
    intros Hok Hfs Hf P NV. rewrite (source_set_num_output_per_event self raw fuel Hok Hfs Hf P).
    destruct (has_short _ _) eqn:E; [|reflexivity].
    destruct (has_short_jscan _ _ E) as [-> | H]; [reflexivity|contradiction].
  Qed.

  (* ---- _skip_lines ---------------------------------------------------------------------------------------------------- *)
  Lemma skip_loop : forall k a (f : list string),
    loopC gen_skip_lines_loop1 (zrange a (a + Z.of_nat k)) f = Ok (skipn k f).
  Proof.
    induction k as [|k IH]; intros a f.
    - rewrite zrange_nil by lia. reflexivity.
    - rewrite zrange_cons by lia. cbn [loopC]. unfold gen_skip_lines_loop1 at 1.
      replace (a + Z.of_nat (S k))%Z with (a + 1 + Z.of_nat k)%Z by lia.
      destruct f as [|l t]; cbn [rt_readline]; rewrite IH; [destruct k; reflexivity|reflexivity].
  Qed.

  Theorem source_skip_lines self sel (f : list string) :
    kw_sel (optional_arguments_ self) sel ->
    gen_skip_lines self f
    = bind (jnum_skip sel (arr_rows (num_output_per_event_ self))) (fun ns => Ok (skipn (Z.to_nat ns) f, tt)).
  Proof.
    intros K. unfold gen_skip_lines. rewrite (source_get_num_skip_lines self sel K).
    destruct (jnum_skip _ _) as [ns|e]; cbn [bind]; [|reflexivity]. cbv zeta.
    destruct (Z.leb_spec 0 ns).
    - replace (zrange 0 ns) with (zrange 0 (0 + Z.of_nat (Z.to_nat ns))) by (f_equal; lia).
      rewrite skip_loop. reflexivity.
    - rewrite zrange_nil by lia. replace (Z.to_nat ns) with 0%nat by lia. reflexivity.
  Qed.

  (* ---- the operations on the count rows --------------------------------------------------------------------------------- *)
  Lemma set_row_spec {A} (v : A) : forall (l : list A) k,
    set_row k v l = if (k <? List.length l)%nat then Ok (firstn k l ++ v :: skipn (S k) l)%list else Err IndexError.
  Proof.
    induction l as [|x l IH]; intros k; [destruct k; reflexivity|].
    destruct k as [|k]; [reflexivity|]. cbn [set_row]. rewrite IH.
    change (S k <? List.length (x :: l))%nat with (k <? List.length l)%nat.
    destruct (k <? List.length l)%nat; reflexivity.
  Qed.
  Lemma delete_row_spec {A} : forall (l : list A) k, delete_row k l = (firstn k l ++ skipn (S k) l)%list.
  Proof.
    induction l as [|x l IH]; intros k; [destruct k; reflexivity|].
    destruct k as [|k]; [reflexivity|]. cbn [delete_row firstn skipn app]. rewrite IH. reflexivity.
  Qed.
  Lemma zlen_eqb0 {A} (l : list A) : (zlen l =? 0)%Z = (List.length l =? 0)%nat.
  Proof. destruct l; reflexivity. Qed.
  Lemma norm_index_nat n (k : nat) : norm_index (Z.of_nat n) (Z.of_nat k) = if (k <? n)%nat then Some k else None.
  Proof.
    unfold norm_index. replace (Z.of_nat k <? 0)%Z with false by (symmetry; apply Z.ltb_ge; lia).
    replace (0 <=? Z.of_nat k)%Z with true by (symmetry; apply Z.leb_le; lia). cbn [andb].
    destruct (Nat.ltb_spec k n).
    - replace (Z.of_nat k <? Z.of_nat n)%Z with true by (symmetry; apply Z.ltb_lt; lia). rewrite Nat2Z.id. reflexivity.
    - replace (Z.of_nat k <? Z.of_nat n)%Z with false by (symmetry; apply Z.ltb_ge; lia). reflexivity.
  Qed.

  (* ---- set_particle_list: the read loop ------------------------------------------------------------------------------- *)
  (* the filter chain as the hand model sees it: absent, or a function applied to one event *)
  Definition flt_rel (kw : kwargs) (flt : option (list particle -> list particle)) : Prop :=
    match flt with
    | None => assoc "filters" kw = None
    | Some f => exists fv, assoc "filters" kw = Some fv /\ forall d, o_apply [d] fv = Ok [f d]
    end.
  Definition st_of (self : jself) (pl : list (list particle)) (dat : list particle) (c : Z) : lstate :=
    {| plist := pl; data := dat; counts := arr_rows (num_output_per_event_ self); cut := c |}.
  (* the attributes other than the count array are not touched *)
  Definition same_but_counts (s s' : jself) : Prop := s' = set_num_output_per_event_ s (num_output_per_event_ s').
  Lemma same_refl s : same_but_counts s s. Proof. destruct s; reflexivity. Qed.
  Lemma same_trans s1 s2 s3 : same_but_counts s1 s2 -> same_but_counts s2 s3 -> same_but_counts s1 s3.
  Proof. unfold same_but_counts. intros H1 H2. rewrite H2, H1. destruct s1; reflexivity. Qed.
  Lemma same_set s a : same_but_counts s (set_num_output_per_event_ s a). Proof. destruct s; reflexivity. Qed.

  Notation JREAD := (jread tok_float tok_int pdg_valid pdg_charge usqrt).
  Notation LOOP1 := (gen_set_particle_list_loop1 zint mkp o_apply).

  Notation JCLOSE := (jclose).

  (* one iteration of jread *)
  Definition jstep (flt : option (list particle -> list particle)) (sel : selector) (first : bool) (l : line)
             (st : lstate) : result lstate :=
    if has "#" l && has "sigmaGen" l then jclose flt (sel_first sel) st
    else if first && negb (has "#" l) && negb (has "weight" l) then Err ValueError
    else if has "Event" l && has "weight" l then
      match nth_error l 2 with
      | None => Err IndexError
      | Some e =>
        match tok_int e with
        | None => Err ValueError
        | Some ev =>
          if (to_Z ev =? first_header sel)%Z then Ok st
          else st' <- jclose flt (sel_first sel) st ;;
               Ok {| plist := plist st'; data := []; counts := counts st'; cut := cut st' |}
        end
      end
    else p <- MKJ l ;; Ok {| plist := plist st; data := (data st ++ [p])%list; counts := counts st; cut := cut st |}.

  Lemma jread_step flt sel first m l t st :
    JREAD flt sel first (S m) (l :: t) st = bind (jstep flt sel first l st) (fun st' => JREAD flt sel false m t st').
  Proof.
    unfold jstep. cbn [jread].
    destruct (has "#" l && has "sigmaGen" l); [reflexivity|].
    destruct (first && negb (has "#" l) && negb (has "weight" l)); [reflexivity|].
    destruct (has "Event" l && has "weight" l).
    - destruct (nth_error l 2) as [e|]; [|reflexivity]. destruct (tok_int e) as [ev|]; [|reflexivity].
      destruct (to_Z ev =? first_header sel)%Z; [reflexivity|].
      destruct (jclose flt (sel_first sel) st); reflexivity.
    - destruct (MKJ l); reflexivity.
  Qed.

  Lemma arr_set_row_spec a (k : nat) v :
    arr_set_row a (Z.of_nat k) v
    = match set_row k v (arr_rows a) with Ok r => Ok (A2 r) | Err e => Err e end.
  Proof.
    destruct a as [|r]; cbn [arr_set_row arr_rows]; [destruct k; reflexivity|].
    unfold zlen. rewrite norm_index_nat, set_row_spec. destruct (k <? List.length r)%nat; reflexivity.
  Qed.
  Lemma np_delete_row_spec a (k : nat) :
    np_delete_row a (Z.of_nat k)
    = if (k <? List.length (arr_rows a))%nat then Ok (A2 (delete_row k (arr_rows a))) else Err IndexError.
  Proof.
    destruct a as [|r]; cbn [np_delete_row arr_rows]; [destruct k; reflexivity|].
    unfold zlen. rewrite norm_index_nat, delete_row_spec. destruct (k <? List.length r)%nat; reflexivity.
  Qed.
  Lemma arr_sub_col_spec r (k : nat) : arr_sub_col_from (A2 r) (Z.of_nat k) 0 1 = Ok (A2 (dec_labels_from k r)).
  Proof.
    cbn [arr_sub_col_from Z.eqb orb]. unfold dec_labels_from, slice_bound, zlen.
    replace (Z.of_nat k <? 0)%Z with false by (symmetry; apply Z.ltb_ge; lia).
    destruct (Nat.leb_spec k (List.length r)).
    - replace (Z.to_nat (Z.min (Z.of_nat k) (Z.of_nat (List.length r)))) with k by lia. reflexivity.
    - replace (Z.to_nat (Z.min (Z.of_nat k) (Z.of_nat (List.length r)))) with (List.length r) by lia.
      rewrite !firstn_all2, !skipn_all2 by lia. reflexivity.
  Qed.
  Lemma dec_labels_all r k : (List.length r <= k)%nat -> dec_labels_from k r = r.
  Proof. intros H. unfold dec_labels_from. rewrite firstn_all2, skipn_all2 by lia. cbn. apply app_nil_r. Qed.

  (* [al]: the list held by `data` also sits inside particle_list (the translator's alias flag: the runtime has value
     semantics for lists and abstains when such a list is changed in place) *)
  Definition step_ok (flt : option (list particle -> list particle)) (sel : selector) (first : bool) (l : string)
             (raw : list string) (self : jself) pl dat c
             (r : result (ctl (jself * list (list particle) * list particle * bool * Z * list string))) : Prop :=
    match r with
    | Ok (Next (self', pl', dat', al', c', raw')) =>
      jstep flt sel first (toks l) (st_of self pl dat c) = Ok (st_of self' pl' dat' c')
      /\ raw' = raw /\ same_but_counts self self'
      /\ (al' = true -> has "#" (toks l) && has "sigmaGen" (toks l) = true)
    | Ok (Break _) => False
    | Err e => jstep flt sel first (toks l) (st_of self pl dat c) = Err e
    end.

  Lemma close_ok flt sel self pl dat c (tail : list particle -> list particle) (tailf : bool -> bool) (raw : list string) :
    flt_rel (optional_arguments_ self) flt ->
    match
     (pat <-
      (if match assoc "filters" (optional_arguments_ self) with Some _ => true | None => false end
       then
        t563 <- match assoc "filters" (optional_arguments_ self) with Some v => Ok v | None => Err KeyError end;;
        t564 <- o_apply [dat] t563;;
        t565 <- list_get t564 0;;
        self0 <-
        (if negb (zlen t565 =? 0)%Z || (zlen dat =? 0)%Z
         then
          t574 <- as_int (VInt (sel_first sel));;
          t575 <- arr_set_row (num_output_per_event_ self) (zlen pl) ((t574 + zlen pl + 1)%Z, zlen t565);;
          Ok (set_num_output_per_event_ self t575)
         else
          t576 <- np_delete_row (num_output_per_event_ self) (zlen pl);;
          t577 <- np_atleast_2d t576;;
          self0 <-
          (if (arr_shape0 (num_output_per_event_ (set_num_output_per_event_ self t577)) =? 0)%Z
           then Ok (set_num_output_per_event_ (set_num_output_per_event_ self t577) A1)
           else
            self0 <-
            (if (zlen pl <? arr_shape0 (num_output_per_event_ (set_num_output_per_event_ self t577)))%Z
             then
              t581 <- arr_sub_col_from (num_output_per_event_ (set_num_output_per_event_ self t577)) (zlen pl) 0 1;;
              Ok (set_num_output_per_event_ (set_num_output_per_event_ self t577) t581)
             else Ok (set_num_output_per_event_ self t577));;
            Ok self0);; Ok self0);; Ok (self0, t565, false)
       else Ok (self, dat, false));;
      (let '(self0, v_data, v_al_data) := pat in
        pat0 <- (if negb (zlen v_data =? 0)%Z || (zlen dat =? 0)%Z then Ok ((pl ++ [v_data])%list, true, c)
                 else Ok (pl, v_al_data, (c + 1)%Z));;
        (let '(v_particle_list, v_al_data0, v_cut_events) := pat0 in
          Ok (Next (self0, v_particle_list, tail v_data, tailf v_al_data0, v_cut_events, raw)))))
    with
    | Ok (Next (self', pl', dat', al', c', raw')) =>
      exists st', jclose flt (sel_first sel) (st_of self pl dat c) = Ok st'
        /\ plist st' = pl' /\ tail (data st') = dat' /\ counts st' = arr_rows (num_output_per_event_ self') /\ cut st' = c'
        /\ raw' = raw /\ same_but_counts self self' /\ (al' = tailf true \/ al' = tailf false)
    | Ok (Break _) => False
    | Err e => jclose flt (sel_first sel) (st_of self pl dat c) = Err e
    end.
  Proof.
    intros F. unfold jclose, st_of. cbn [plist data counts cut]. rewrite <- !zlen_eqb0.
    change (zlen pl) with (Z.of_nat (List.length pl)).
    pose proof (same_set self) as SS.
    assert (SE : forall a, num_output_per_event_ (set_num_output_per_event_ self a) = a) by (destruct self; reflexivity).
    assert (ST : forall a b, set_num_output_per_event_ (set_num_output_per_event_ self a) b = set_num_output_per_event_ self b)
      by (destruct self; reflexivity).
    destruct flt as [f|]; cbn [flt_rel] in F.
    - destruct F as (fv & -> & Hf). cbn [bind]. rewrite Hf. cbn [bind]. rewrite list_get_0. cbn [bind as_int].
      destruct (negb (zlen (f dat) =? 0)%Z || (zlen dat =? 0)%Z) eqn:C.
      + rewrite arr_set_row_spec. change (zlen (f dat)) with (Z.of_nat (List.length (f dat))).
        destruct (set_row (List.length pl) _ (arr_rows (num_output_per_event_ self))) as [r|e]; cbn [bind]; [|reflexivity].
        rewrite C. cbn [bind].
        eexists. split; [reflexivity|]. cbn [plist data counts cut]. rewrite SE. repeat split; try apply SS; auto.
      + rewrite np_delete_row_spec.
        destruct (List.length pl <? List.length (arr_rows (num_output_per_event_ self)))%nat; cbn [bind]; [|reflexivity].
        cbn [np_atleast_2d bind]. rewrite !SE, !ST.
        set (r' := delete_row (List.length pl) (arr_rows (num_output_per_event_ self))).
        cbn [arr_shape0 arr_len]. rewrite zlen_eqb0.
        destruct r' as [|x r2] eqn:R; cbn [List.length Nat.eqb bind].
        * rewrite C. cbn [bind]. eexists. split; [reflexivity|]. cbn [plist data counts cut]. rewrite SE. repeat split; try apply SS; auto.
          unfold dec_labels_from. destruct (List.length pl); reflexivity.
        * rewrite <- R. rewrite arr_sub_col_spec.
          destruct (Z.ltb_spec (Z.of_nat (List.length pl)) (zlen r')) as [L|L]; cbn [bind]; rewrite ?ST, C; cbn [bind];
            (eexists; split; [reflexivity|]; cbn [plist data counts cut]; rewrite SE; repeat split; try apply SS; auto).
          cbn [arr_rows]. apply dec_labels_all. unfold zlen in L. lia.
    - rewrite F. cbn [bind].
      destruct (negb (zlen dat =? 0)%Z || (zlen dat =? 0)%Z); cbn [bind];
        (eexists; split; [reflexivity|]; cbn [plist data counts cut]; repeat split; try apply same_refl; auto).
  Qed.

  Lemma same_kw s s' : same_but_counts s s' -> optional_arguments_ s' = optional_arguments_ s.
  Proof. intros ->. destruct s; reflexivity. Qed.
  Lemma same_nev s s' : same_but_counts s s' -> num_events_ s' = num_events_ s.
  Proof. intros ->. destruct s; reflexivity. Qed.

  Lemma lstate_eta st pl dat cs c : plist st = pl -> data st = dat -> counts st = cs -> cut st = c ->
    st = {| plist := pl; data := dat; counts := cs; cut := c |}.
  Proof. destruct st; cbn; intros; subst; reflexivity. Qed.

  (* one iteration of the read loop is one step of jread *)
  Lemma step_spec flt sel : forall i l (raw : list string) self pl dat c,
    kw_sel (optional_arguments_ self) sel -> flt_rel (optional_arguments_ self) flt -> line_ok l ->
    step_ok flt sel (i =? 0)%Z l raw self pl dat c
            (LOOP1 (optional_arguments_ self) (VInt (sel_first sel)) (self, pl, dat, false, c, l :: raw) i).
  Proof.
    intros i l raw self pl dat c K F Hl.
    unfold gen_set_particle_list_loop1, step_ok, jstep. cbn [rt_readline]. rewrite (line_ok_truthy l Hl). cbn [negb].
    change (split_on "032"%char (str_replace_char "009"%char " " (str_replace_char "010"%char "" l))) with (toks l).
    rewrite (contains_toks "#" l pat_hash Hl), (contains_toks "sigmaGen" l pat_sigmaGen Hl),
            (contains_toks "weight" l pat_weight Hl), (contains_toks "Event" l pat_Event Hl).
    destruct (has "#" (toks l) && has "sigmaGen" (toks l)).
    { cbv zeta. unfold dict_mem, dict_get.
      pose proof (close_ok flt sel self pl dat c (fun d => d) (fun b => b) raw F) as CL. cbv beta in CL.
      match type of CL with match ?X with _ => _ end => destruct X as [[[[[[[s' pl'] d'] al'] c'] r']|?]|e] end; [|exact CL|exact CL].
      destruct CL as (st' & J & E1 & E2 & E3 & E4 & E5 & E6 & E7). rewrite J. split; [|split; [assumption|split; [assumption|reflexivity]]].
      f_equal. apply lstate_eta; assumption. }
    destruct ((i =? 0)%Z && negb (has "#" (toks l)) && negb (has "weight" (toks l))); [reflexivity|].
    destruct (has "Event" (toks l) && has "weight" (toks l)).
    { cbv zeta. unfold dict_mem, dict_get.
      assert (FE : forall X (k : Z -> result X),
        bind (if match assoc "events" (optional_arguments_ self) with Some _ => true | None => false end
              then
               t525 <- match assoc "events" (optional_arguments_ self) with Some v => Ok v | None => Err KeyError end;;
               v <- (if isinstance_int t525
                     then t534 <- match assoc "events" (optional_arguments_ self) with Some v => Ok v | None => Err KeyError end;;
                          t535 <- dyn_int zint t534;; Ok (1 + t535)%Z
                     else t536 <- match assoc "events" (optional_arguments_ self) with Some v => Ok v | None => Err KeyError end;;
                          t538 <- (if isinstance_tuple t536 then Ok true
                                   else t537 <- match assoc "events" (optional_arguments_ self) with Some v => Ok v | None => Err KeyError end;;
                                        Ok (isinstance_int t537));;
                          _ <- (if negb t538 then Err ValueError else Ok tt);;
                          t539 <- match assoc "events" (optional_arguments_ self) with Some v => Ok v | None => Err KeyError end;;
                          t540 <- dyn_index t539 0;; t541 <- dyn_int zint t540;; Ok (1 + t541)%Z);;
               Ok v
              else Ok 1%Z) k = k (first_header sel)).
      { intros X k. destruct sel as [|q|a b]; cbn [kw_sel] in K.
        - rewrite K. reflexivity.
        - destruct K as [-> _]. reflexivity.
        - destruct K as [-> _]. reflexivity. }
      rewrite FE. clear FE.
      change 2%Z with (Z.of_nat 2). rewrite list_get_nat.
      destruct (nth_error (toks l) 2) as [e|]; cbn [bind]; [|reflexivity].
      unfold str_to_int, zint. destruct (tok_int e) as [ev|]; cbn [option_map bind]; [|reflexivity].
      destruct (to_Z ev =? first_header sel)%Z; [split; [reflexivity|split; [reflexivity|split; [apply same_refl|discriminate]]]|].
      pose proof (close_ok flt sel self pl dat c (fun _ => []) (fun _ => false) raw F) as CL. cbv beta in CL.
      match type of CL with match ?X with _ => _ end => destruct X as [[[[[[[s' pl'] d'] al'] c'] r']|?]|e0] end;
        [|exact CL|rewrite CL; reflexivity].
      destruct CL as (st' & J & E1 & E2 & E3 & E4 & E5 & E6 & E7). rewrite J. cbn [bind].
      split; [|split; [assumption|split; [assumption|destruct E7 as [-> | ->]; discriminate]]].
      unfold st_of. subst. rewrite E3. reflexivity. }
    cbv zeta. unfold mkp. cbn [String.eqb Ascii.eqb Bool.eqb].
    destruct (MKJ (toks l)) as [p|e]; cbn [bind]; [|reflexivity].
    split; [reflexivity|split; [reflexivity|split; [apply same_refl|discriminate]]].
  Qed.

  Definition loop_ok (flt : option (list particle -> list particle)) (sel : selector) (first : bool) (n : nat)
             (raw : list string) (self : jself) pl dat c
             (r : result (jself * list (list particle) * list particle * bool * Z * list string)) : Prop :=
    match r with
    | Ok (self', pl', dat', _, c', _) =>
      JREAD flt sel first n (map toks raw) (st_of self pl dat c) = Ok (st_of self' pl' dat' c')
      /\ same_but_counts self self'
    | Err e => JREAD flt sel first n (map toks raw) (st_of self pl dat c) = Err e
    end.

  Lemma loop_spec flt sel kw : forall n i0 (raw : list string) self pl dat al c,
    optional_arguments_ self = kw -> kw_sel kw sel -> flt_rel kw flt -> lines_ok raw -> (0 <= i0)%Z ->
    trailer_last raw -> (al = true -> raw = []) ->
    loop_ok flt sel (i0 =? 0)%Z n raw self pl dat c
            (loopC (LOOP1 kw (VInt (sel_first sel))) (zrange i0 (i0 + Z.of_nat n)) (self, pl, dat, al, c, raw)).
  Proof.
    induction n as [|n IH]; intros i0 raw self pl dat al c Hkw K F Hok Hi TL AL.
    - rewrite zrange_nil by lia. cbn. split; [reflexivity|apply same_refl].
    - rewrite zrange_cons by lia. cbn [loopC]. destruct raw as [|l t].
      + unfold gen_set_particle_list_loop1 at 1. cbn. reflexivity.
      + inversion Hok as [|? ? Hl Ht]; subst kw.
        assert (al = false) by (destruct al; [discriminate (AL eq_refl)|reflexivity]). subst al.
        pose proof (step_spec flt sel i0 l t self pl dat c K F Hl) as ST. unfold step_ok in ST.
        unfold loop_ok. cbn [map]. rewrite jread_step.
        destruct (LOOP1 _ _ _ i0) as [[[[[[[s' pl'] d'] al'] c'] r']|?]|e]; [|contradiction|rewrite ST; reflexivity].
        destruct ST as (J & -> & SB & AT). rewrite J. cbn [bind]. destruct TL as [TL1 TL2].
        replace (i0 + Z.of_nat (S n))%Z with (i0 + 1 + Z.of_nat n)%Z by lia.
        pose proof (same_kw _ _ SB) as KW.
        specialize (IH (i0 + 1)%Z t s' pl' d' al' c' KW K F Ht ltac:(lia) TL2 (fun E => TL1 (AT E))).
        replace (i0 + 1 =? 0)%Z with false in IH by (symmetry; apply Z.eqb_neq; lia).
        unfold loop_ok in IH.
        destruct (loopC _ _ _) as [[[[[[s2 pl2] d2] al2] c2] r2]|e]; [|exact IH].
        destruct IH as [J2 SB2]. split; [exact J2|exact (same_trans _ _ _ SB SB2)].
  Qed.

  (* ---- set_particle_list ---------------------------------------------------------------------------------------------- *)
  Lemma py_slice_nonneg {A} (l : list A) a b : (0 <= a <= b)%Z ->
    py_slice l (Some a) (Some b) = firstn (Z.to_nat (b - a)) (skipn (Z.to_nat a) l).
  Proof.
    intros H. unfold py_slice, slice_bound, zlen.
    replace (a <? 0)%Z with false by (symmetry; apply Z.ltb_ge; lia).
    replace (b <? 0)%Z with false by (symmetry; apply Z.ltb_ge; lia).
    set (n := List.length l).
    destruct (Z.le_gt_cases (Z.of_nat n) a) as [L|L].
    - rewrite !Z.min_r by lia. rewrite Z.sub_diag. cbn [Z.to_nat firstn].
      rewrite (@skipn_all2 _ (Z.to_nat a) l) by (fold n; lia). destruct (Z.to_nat (b - a)); reflexivity.
    - rewrite (Z.min_l a) by lia. destruct (Z.le_gt_cases b (Z.of_nat n)) as [M|M].
      + rewrite Z.min_l by lia. reflexivity.
      + rewrite Z.min_r by lia.
        rewrite !firstn_all2; [reflexivity| |]; rewrite skipn_length; fold n; lia.
  Qed.

  Definition sel_arr (sel : selector) (a : arr) : arr :=
    match sel with
    | SelAll => a
    | SelOne k => arr_slice a (Some k) (Some (k + 1)%Z)
    | SelRange x y => arr_slice a (Some x) (Some (y + 1)%Z)
    end.
  Definition sel_ok (sel : selector) : Prop :=
    match sel with SelAll => True | SelOne k => (0 <= k)%Z | SelRange a b => (0 <= a <= b)%Z end.
  Lemma kw_sel_ok kw sel : kw_sel kw sel -> sel_ok sel.
  Proof. destruct sel; cbn; tauto. Qed.
  Lemma sel_arr_rows sel a : sel_ok sel -> arr_rows (sel_arr sel a) = sel_counts sel (arr_rows a).
  Proof.
    intros H. destruct sel as [|k|x y]; cbn [sel_arr sel_counts sel_ok] in *; [reflexivity| |];
      (destruct a as [|r]; cbn [arr_slice arr_rows]; unfold slice;
       [match goal with |- [] = firstn ?n (skipn ?m []) => destruct n, m; reflexivity end|]).
    - rewrite py_slice_nonneg by lia. replace (Z.to_nat (k + 1 - k)) with 1%nat by lia. reflexivity.
    - rewrite py_slice_nonneg by lia. replace (Z.to_nat (y + 1 - x)) with (Z.to_nat (y - x + 1)) by lia. reflexivity.
  Qed.

  Lemma jsum_err cnts : forall n from e, jsum cnts from n = Err e -> e = IndexError.
  Proof.
    induction n as [|n IH]; intros from e H; [discriminate H|]. cbn [jsum] in H. unfold zcount in H.
    destruct (nth_error cnts from); cbn [bind] in H; [|congruence].
    destruct (jsum cnts (S from) n) eqn:E; cbn [bind] in H; [discriminate H|]. inversion H; subst. exact (IH _ _ E).
  Qed.
  Lemma jnum_skip_err sel cnts e : jnum_skip sel cnts = Err e -> e = IndexError.
  Proof.
    destruct sel; cbn [jnum_skip]; intros H; [discriminate H| |];
      (destruct (jsum cnts 0 _) eqn:E; cbn [bind] in H; [discriminate H|inversion H; subst; exact (jsum_err _ _ _ _ E)]).
  Qed.
  Lemma jnum_read_err sel cnts e : jnum_read sel cnts = Err e -> e = IndexError.
  Proof.
    destruct sel; cbn [jnum_read]; intros H.
    - destruct cnts; [congruence|discriminate H].
    - unfold zcount in H. destruct (nth_error cnts _); cbn [bind] in H; congruence.
    - destruct (jsum cnts _ _) eqn:E; cbn [bind] in H; [discriminate H|inversion H; subst; exact (jsum_err _ _ _ _ E)].
  Qed.

  (* what jload does between the header scan and get_sigmaGen *)
  Definition jload_tail (flt : option (list particle -> list particle)) (file : list (list string)) (cnts : list (Z * Z))
             (nev : Z) (sel : selector) : result (list (list particle) * Z * list (Z * Z)) :=
    ns <- jnum_skip sel cnts ;;
    nr <- jnum_read sel cnts ;;
    st <- JREAD flt sel true (Z.to_nat nr) (skipn (Z.to_nat ns) file)
               {| plist := []; data := []; counts := sel_counts sel cnts; cut := 0 |} ;;
    let nev' := (nev - cut st)%Z in
    fin <- match sel with
           | SelAll => if (Z.of_nat (List.length (plist st)) =? nev')%Z then Ok (nev', counts st) else Err IndexError
           | _ => Ok (Z.of_nat (List.length (plist st)), counts st)
           end ;;
    Ok (match plist st with [] => [[]] | pl => pl end, fst fin, snd fin).

  Lemma events_if self sel X (k : jself * pyval -> result X) :
    kw_sel (optional_arguments_ self) sel ->
    bind (if dict_mem "events" (optional_arguments_ self)
          then
           t234 <- dict_get (optional_arguments_ self) "events";;
           pat <-
           (if isinstance_int t234
            then t237 <- dict_get (optional_arguments_ self) "events";; Ok (t237, t237)
            else t238 <- dict_get (optional_arguments_ self) "events";; pat <- dyn_unpack2 t238;; (let '(a, b) := pat in Ok (a, b)));;
           (let '(v_first_event, v_last_event) := pat in
             t239 <- as_int v_first_event;;
             t240 <- as_int v_last_event;;
             Ok (set_num_output_per_event_ self (arr_slice (num_output_per_event_ self) (Some t239) (Some (t240 + 1)%Z)), v_first_event))
          else Ok (self, VInt 0)) k
    = k (match sel with SelAll => self | _ => set_num_output_per_event_ self (sel_arr sel (num_output_per_event_ self)) end,
         VInt (sel_first sel)).
  Proof.
    intros K. unfold dict_mem, dict_get. destruct sel as [|q|a b]; cbn [kw_sel] in K.
    - rewrite K. reflexivity.
    - destruct K as [-> _]. reflexivity.
    - destruct K as [-> _]. reflexivity.
  Qed.

  Lemma zrange_nat nr : zrange 0 nr = zrange 0 (0 + Z.of_nat (Z.to_nat nr)).
  Proof. unfold zrange. f_equal. f_equal. lia. Qed.

  Lemma skipn_map' {A B} (f : A -> B) : forall n l, skipn n (map f l) = map f (skipn n l).
  Proof. induction n as [|n IH]; intros l; [reflexivity|]. destruct l; [reflexivity|]. cbn. apply IH. Qed.
  Lemma lines_ok_skipn n : forall raw, lines_ok raw -> lines_ok (skipn n raw).
  Proof.
    induction n as [|n IH]; intros raw H; [exact H|]. destruct raw; [exact H|]. inversion H; subst. cbn. apply IH. assumption.
  Qed.

  Theorem source_set_particle_list self raw sel flt :
    lines_ok raw -> trailer_last raw -> fs (PATH_JETSCAPE_ self) = raw ->
    kw_sel (optional_arguments_ self) sel -> flt_rel (optional_arguments_ self) flt ->
    arr_std (num_output_per_event_ self) ->
    match gen_set_particle_list fs zint mkp o_apply self (optional_arguments_ self) with
    | Ok (self', pl) =>
      jload_tail flt (map toks raw) (arr_rows (num_output_per_event_ self)) (num_events_ self) sel
      = Ok (pl, num_events_ self', arr_rows (num_output_per_event_ self'))
      /\ self' = set_num_events_ (set_num_output_per_event_ self (num_output_per_event_ self')) (num_events_ self')
    | Err e => jload_tail flt (map toks raw) (arr_rows (num_output_per_event_ self)) (num_events_ self) sel = Err e
    end.
  Proof.
    intros Hok TL Hfs K F S. unfold gen_set_particle_list, jload_tail. cbv zeta.
    rewrite (source_get_num_read_lines self sel K S), Hfs. unfold rt_open_text.
    rewrite (source_skip_lines self sel raw K).
    destruct (jnum_read sel _) as [nr|e1] eqn:NR; cbn [bind].
    2:{ apply jnum_read_err in NR. subst e1. destruct (jnum_skip sel _) as [ns|e2] eqn:NS; cbn [bind]; [reflexivity|].
        apply jnum_skip_err in NS. subst. reflexivity. }
    destruct (jnum_skip sel _) as [ns|e2]; cbn [bind]; [|reflexivity].
    rewrite (events_if self sel _ _ K). cbv beta iota.
    set (self1 := match sel with SelAll => self | _ => set_num_output_per_event_ self (sel_arr sel (num_output_per_event_ self)) end).
    assert (SB1 : same_but_counts self self1) by (destruct sel; [apply same_refl|apply same_set|apply same_set]).
    assert (R1 : arr_rows (num_output_per_event_ self1) = sel_counts sel (arr_rows (num_output_per_event_ self))).
    { subst self1. destruct sel; [reflexivity| |]; rewrite <- (sel_arr_rows _ _ (kw_sel_ok _ _ K)); destruct self; reflexivity. }
    rewrite zrange_nat.
    pose proof (loop_spec flt sel (optional_arguments_ self) (Z.to_nat nr) 0 (skipn (Z.to_nat ns) raw) self1 [] [] false 0
                          (same_kw _ _ SB1) K F (lines_ok_skipn _ _ Hok) ltac:(lia) (trailer_last_skipn _ _ TL)
                          ltac:(discriminate)) as L.
    unfold loop_ok in L. cbn [Z.eqb] in L. unfold st_of in L. rewrite R1 in L. rewrite <- skipn_map' in L.
    destruct (loopC _ _ _) as [[[[[[s2 pl2] d2] al2] c2] r2]|e]; cbn [bind]; [|rewrite L; reflexivity].
    destruct L as [J SB2]. rewrite J. cbn [bind plist cut counts].
    pose proof (same_trans _ _ _ SB1 SB2) as SB. red in SB. clear SB1 SB2 R1 J self1.
    destruct self as [p pt pd oa ee a ne]. destruct s2 as [p2 pt2 pd2 oa2 ee2 a2 ne2].
    cbn [set_num_output_per_event_ PATH_JETSCAPE_ particle_type_ particle_type_defining_string_ optional_arguments_
         event_end_lines_ num_output_per_event_ num_events_] in SB.
    injection SB as -> -> -> -> -> ->.
    cbn [set_num_output_per_event_ set_num_events_ PATH_JETSCAPE_ particle_type_ particle_type_defining_string_
         optional_arguments_ event_end_lines_ num_output_per_event_ num_events_] in *.
    unfold dict_mem, zlen.
    assert (LE : forall pl : list (list particle), (if list_is_empty pl then Ok [[]] else Ok pl)
                 = (Ok (match pl with [] => [[]] | x :: t => x :: t end) : result (list (list particle))))
      by (intros [|? ?]; reflexivity).
    destruct sel as [|q|x y]; cbn [kw_sel] in K.
    - rewrite K. rewrite orb_true_r.
      destruct (Z.of_nat (List.length pl2) =? ne - c2)%Z; cbn [negb bind]; [|reflexivity].
      rewrite LE. cbn [bind fst snd]. split; reflexivity.
    - destruct K as [K _]. rewrite K.
      replace (negb (dict_truthy oa)) with false by (destruct oa; [discriminate K|reflexivity]).
      cbn [negb orb bind]. rewrite LE. cbn [bind fst snd]. split; reflexivity.
    - destruct K as [K _]. rewrite K.
      replace (negb (dict_truthy oa)) with false by (destruct oa; [discriminate K|reflexivity]).
      cbn [negb orb bind]. rewrite LE. cbn [bind fst snd]. split; reflexivity.
  Qed.

  (* ---- _check_that_tuple_contains_integers_only, load ---------------------------------------------------------------- *)
  Theorem source_check_tuple (l : list pyval) :
    gen_check_that_tuple_contains_integers_only (VTuple l)
    = if forallb isinstance_int l then Ok tt else Err TypeError.
  Proof. unfold gen_check_that_tuple_contains_integers_only. cbn [dyn_iter bind]. destruct (forallb _ l); reflexivity. Qed.

  Definition known_key (k : string) : bool := mem_str k ["events"; "filters"; "particletype"].

  Lemma keys_loop : forall ks, loopC gen_load_loop1 ks tt = if forallb known_key ks then Ok tt else Err ValueError.
  Proof.
    induction ks as [|k ks IH]; [reflexivity|]. cbn [loopC forallb]. unfold gen_load_loop1 at 1. fold (known_key k).
    destruct (known_key k); cbn [negb bind andb]; [exact IH|reflexivity].
  Qed.

  (* the checks load makes on the `events` and `particletype` values, in this order (a bool inside `events` is outside
     the runtime: OtherError) *)
  Definition check_events (v : option pyval) : result unit :=
    match v with
    | Some (VTuple l) =>
      if negb (forallb isinstance_int l) then Err TypeError else
      match l with
      | VInt a :: VInt b :: _ =>
        if (a >? b)%Z then Err ValueError else if (a <? 0)%Z || (b <? 0)%Z then Err ValueError else Ok tt
      | _ :: _ :: _ => Err OtherError
      | _ => Err IndexError
      end
    | Some (VInt k) => if (k <? 0)%Z then Err ValueError else Ok tt
    | Some (VBool _) => Err OtherError
    | _ => Ok tt
    end.
  Definition check_ptype (v : option pyval) (cur : string) : result string :=
    match v with
    | Some (VStr s) => if (s =? "hadron")%string || (s =? "parton")%string then Ok s else Err ValueError
    | Some _ => Err TypeError
    | None => Ok cur
    end.
  Definition defstr_of (pt : string) : string := if (pt =? "hadron")%string then "N_hadrons" else "N_partons".

  (* load: the checks in source order, then the header scan, then the read loop *)
  Theorem source_load self kw fuel :
    gen_load fs zint zint mkp o_apply fuel self kw
    = if negb (forallb known_key (dict_keys kw)) then Err ValueError else
      _ <- check_events (assoc "events" kw) ;;
      pt <- check_ptype (assoc "particletype" kw) (particle_type_ self) ;;
      let self1 := set_particle_type_defining_string_
                     (set_particle_type_ (set_event_end_lines_ (set_optional_arguments_ self kw) []) pt) (defstr_of pt) in
      bind (gen_set_num_output_per_event fs zint fuel self1) (fun '(self2, _) =>
      bind (gen_set_particle_list fs zint mkp o_apply self2 kw) (fun '(self3, pl) =>
      Ok (self3, (pl, num_events_ self3, num_output_per_event_ self3, [])))).
  Proof.
    unfold gen_load. destruct self as [p pt pd oa ee a ne].
    cbn [set_optional_arguments_ set_event_end_lines_ set_particle_type_ set_particle_type_defining_string_
         PATH_JETSCAPE_ particle_type_ particle_type_defining_string_ optional_arguments_ event_end_lines_
         num_output_per_event_ num_events_].
    rewrite keys_loop. destruct (forallb known_key (dict_keys kw)); cbn [negb bind]; [|reflexivity].
    generalize (gen_set_num_output_per_event fs zint fuel) as G1.
    generalize (gen_set_particle_list fs zint mkp o_apply) as G2. intros G2 G1.
    unfold dict_mem, dict_get, defstr_of.
    assert (PT : forall (s0 : string) X (k : jself -> result X),
      bind (if (s0 =? "hadron")%string
            then Ok (JSelf p s0 "N_hadrons" kw [] a ne) else Ok (JSelf p s0 "N_partons" kw [] a ne)) k
      = k (JSelf p s0 (if (s0 =? "hadron")%string then "N_hadrons" else "N_partons") kw [] a ne))
      by (intros s0 X k; destruct (s0 =? "hadron")%string; reflexivity).
    destruct (assoc "events" kw) as [[z|b|s|l|]|]; cbn [bind isinstance_tuple isinstance_int check_events];
      try (cbn [dyn_lt dyn_cmp bind]; try destruct (z <? 0)%Z; cbn [bind]; try reflexivity);
      try (rewrite source_check_tuple; destruct (forallb isinstance_int l); cbn [negb bind]; [|reflexivity];
           destruct l as [|[x| | | |] [|[y| | | |] t]]; try reflexivity; try discriminate;
           cbn [dyn_index bind]; rewrite ?list_get_0, ?list_get_1; cbn [bind dyn_gt dyn_lt dyn_cmp];
           try reflexivity;
           destruct (x >? y)%Z; cbn [bind]; [reflexivity|];
           destruct (x <? 0)%Z; cbn [bind orb]; [reflexivity|]; destruct (y <? 0)%Z; cbn [bind]; [reflexivity|]);
      (destruct (assoc "particletype" kw) as [[z'|b'|s'|l'|]|];
       cbn [bind isinstance_str negb check_ptype dyn_eq particle_type_]; try reflexivity;
       [destruct (s' =? "hadron")%string; cbn [bind orb as_str];
        [rewrite PT; reflexivity|destruct (s' =? "parton")%string; cbn [bind as_str]; [rewrite PT; reflexivity|reflexivity]]
       |rewrite PT; reflexivity]).
  Qed.

  Lemma check_events_sel kw sel : kw_sel kw sel -> check_events (assoc "events" kw) = Ok tt.
  Proof.
    destruct sel as [|k|a b]; cbn [kw_sel].
    - intros ->. reflexivity.
    - intros [-> H]. cbn. replace (k <? 0)%Z with false by (symmetry; apply Z.ltb_ge; lia). reflexivity.
    - intros [-> H]. cbn [check_events forallb isinstance_int andb negb].
      replace (a >? b)%Z with false by (symmetry; rewrite Z.gtb_ltb; apply Z.ltb_ge; lia).
      replace (a <? 0)%Z with false by (symmetry; apply Z.ltb_ge; lia).
      replace (b <? 0)%Z with false by (symmetry; apply Z.ltb_ge; lia). reflexivity.
  Qed.
  Lemma pat_defstr pt : pat_ok (defstr_of pt).
  Proof. unfold defstr_of. destruct (pt =? "hadron")%string; [apply pat_N_hadrons|apply pat_N_partons]. Qed.
  Lemma arr_of_std c : arr_std (arr_of c). Proof. destruct c; reflexivity. Qed.
  Lemma arr_of_rows c : arr_rows (arr_of c) = c. Proof. destruct c; reflexivity. Qed.

  (* load on a keyword dictionary that stands for a selector of the hand model: the part of jload between the
     sigmaGen test of the constructor and get_sigmaGen *)
  Definition jload_mid (flt : option (list particle -> list particle)) (file : list (list string)) (defstr : string)
             (sel : selector) : result (list (list particle) * Z * list (Z * Z)) :=
    cnts <- jscan tok_int defstr file ;; jload_tail flt file cnts (Z.of_nat (List.length cnts)) sel.

  Theorem source_load_model self raw kw sel flt pt fuel :
    lines_ok raw -> trailer_last raw -> fs (PATH_JETSCAPE_ self) = raw -> (List.length raw < fuel)%nat ->
    forallb known_key (dict_keys kw) = true -> kw_sel kw sel -> flt_rel kw flt ->
    check_ptype (assoc "particletype" kw) (particle_type_ self) = Ok pt ->
    jscan tok_int (defstr_of pt) (map toks raw) <> Err ValueError ->
    match gen_load fs zint zint mkp o_apply fuel self kw with
    | Ok (self', (pl, nev, a, ends)) =>
      jload_mid flt (map toks raw) (defstr_of pt) sel = Ok (pl, nev, arr_rows a)
      /\ ends = [] /\ nev = num_events_ self' /\ a = num_output_per_event_ self'
      /\ self' = JSelf (PATH_JETSCAPE_ self) pt (defstr_of pt) kw [] a nev
    | Err e => jload_mid flt (map toks raw) (defstr_of pt) sel = Err e
    end.
  Proof.
    intros Hok TL Hfs Hf KK K F PT NV. rewrite source_load, KK. cbn [negb].
    rewrite (check_events_sel kw sel K), PT. cbn [bind]. cbv zeta.
    set (self1 := set_particle_type_defining_string_ _ _).
    assert (E1 : self1 = JSelf (PATH_JETSCAPE_ self) pt (defstr_of pt) kw [] (num_output_per_event_ self) (num_events_ self))
      by (destruct self; reflexivity).
    rewrite E1. clear E1 self1. set (s1 := JSelf _ _ _ _ _ _ _).
    assert (H1 : gen_set_num_output_per_event fs zint fuel s1
                 = match jscan tok_int (defstr_of pt) (map toks raw) with
                   | Ok c => Ok (set_num_events_ (set_num_output_per_event_ s1 (arr_of c)) (zlen c), tt)
                   | Err e => Err e
                   end)
      by (apply (source_set_num_output_per_event_eq s1 raw fuel Hok); [exact Hfs|exact Hf|apply pat_defstr|exact NV]).
    rewrite H1. clear H1.
    unfold jload_mid. destruct (jscan tok_int (defstr_of pt) (map toks raw)) as [c|e]; cbn [bind]; [|reflexivity].
    unfold s1, set_num_events_, set_num_output_per_event_. clear s1.
    cbn [set_num_output_per_event_ set_num_events_ PATH_JETSCAPE_ particle_type_ particle_type_defining_string_
         optional_arguments_ event_end_lines_ num_output_per_event_ num_events_].
    set (self2 := JSelf _ _ _ _ _ _ _).
    pose proof (source_set_particle_list self2 raw sel flt Hok TL Hfs K F (arr_of_std c)) as SP.
    change (optional_arguments_ self2) with kw in SP.
    cbn [self2 num_output_per_event_ num_events_] in SP. rewrite arr_of_rows in SP.
    destruct (gen_set_particle_list _ _ _ _ self2 kw) as [[s3 pl]|e]; cbn [bind]; [|exact SP].
    destruct SP as [J E3]. unfold zlen in J. rewrite J. repeat split.
    rewrite E3. reflexivity.
  Qed.

  (* ---- get_last_line --------------------------------------------------------------------------------------------------- *)
  Lemma substring_00 s : substring 0 0 s = "". Proof. destruct s; reflexivity. Qed.
  Lemma substring_app_skip a : forall b n m, substring (String.length a + n) m (a ++ b) = substring n m b.
  Proof. induction a as [|c a IH]; intros b n m; [reflexivity|]. cbn. apply IH. Qed.
  Lemma substring_all s : forall m, (String.length s <= m)%nat -> substring 0 m s = s.
  Proof.
    induction s as [|c s IH]; intros m H; [destruct m; reflexivity|].
    destruct m as [|m]; [cbn in H; lia|]. cbn. rewrite IH by (cbn in H; lia). reflexivity.
  Qed.
  Lemma substring_get : forall k s c, get k s = Some c -> substring k 1 s = String c "".
  Proof.
    induction k as [|k IH]; intros s c H; destruct s as [|d s]; try discriminate H.
    - cbn in H. inversion H; subst. cbn. rewrite substring_00. reflexivity.
    - cbn in H. cbn. apply IH. exact H.
  Qed.
  Lemma get_app_l a : forall b k, (k < String.length a)%nat -> get k (a ++ b) = get k a.
  Proof.
    induction a as [|c a IH]; intros b k H; [cbn in H; lia|]. destruct k as [|k]; [reflexivity|].
    cbn. apply IH. cbn in H. lia.
  Qed.
  Lemma get_lt s : forall k, (k < String.length s)%nat -> exists c, get k s = Some c /\ In c (chars s).
  Proof.
    induction s as [|d s IH]; intros k H; [cbn in H; lia|]. destruct k as [|k].
    - exists d. split; [reflexivity|left; reflexivity].
    - destruct (IH k ltac:(cbn in H; lia)) as (c & G & I). exists c. split; [exact G|right; exact I].
  Qed.
  Lemma slength_app a b : String.length (a ++ b) = (String.length a + String.length b)%nat.
  Proof. induction a as [|c a IH]; [reflexivity|]. cbn. rewrite IH. reflexivity. Qed.
  Lemma no_char_in c s x : no_char c s = true -> In x (chars s) -> x <> c.
  Proof.
    unfold no_char. rewrite forallb_forall. intros H I E. subst x. specialize (H c I).
    rewrite Ascii.eqb_refl in H. discriminate H.
  Qed.

  (* the characters of a line before its last one are not newlines *)
  Lemma line_ok_inner l : line_ok l -> forall j, (S j < String.length l)%nat -> exists c, get j l = Some c /\ c <> nl.
  Proof.
    intros (_ & b & Hb & [->| ->]) j H.
    - rewrite slength_app in H. cbn in H. rewrite get_app_l by lia.
      destruct (get_lt b j ltac:(lia)) as (c & G & I). exists c. split; [exact G|exact (no_char_in _ _ _ Hb I)].
    - destruct (get_lt b j ltac:(lia)) as (c & G & I). exists c. split; [exact G|exact (no_char_in _ _ _ Hb I)].
  Qed.

  Lemma upto_nl_line l : line_ok l -> upto_nl l = l.
  Proof.
    intros (_ & b & Hb & H).
    assert (U : forall t, no_char nl t = true -> upto_nl t = t /\ upto_nl (t ++ String nl "") = t ++ String nl "").
    { induction t as [|c t IH]; intros Ht; [split; reflexivity|].
      cbn in Ht. apply andb_true_iff in Ht. destruct Ht as [Hc Ht]. apply negb_true_iff in Hc.
      destruct (IH Ht) as [I1 I2]. cbn [upto_nl append]. rewrite Hc, I1, I2. split; reflexivity. }
    destruct (U b Hb) as [U1 U2]. destruct H as [->| ->]; assumption.
  Qed.

  Lemma back_loop (Q L : string) : forall k fuel, (k < fuel)%nat ->
    (forall j, (j < k)%nat -> exists c, get j L = Some c /\ c <> nl) ->
    whileC fuel gen_get_last_line_loop1 (Q ++ String nl L, Z.of_nat (String.length Q + k))
    = Ok (Q ++ String nl L, Z.of_nat (String.length Q + 1)).
  Proof.
    induction k as [|k IH]; intros fuel Hf HL; (destruct fuel as [|fuel]; [lia|]).
    - cbn [whileC]. unfold gen_get_last_line_loop1 at 1. unfold fb_read. cbn [fst snd].
      rewrite Nat2Z.id. rewrite substring_app_skip. change (Z.to_nat 1) with 1%nat. cbn [substring].
      rewrite substring_00. cbn [String.eqb Ascii.eqb Bool.eqb negb andb slen String.length].
      f_equal. f_equal. unfold slen. cbn [String.length]. lia.
    - cbn [whileC]. unfold gen_get_last_line_loop1 at 1. unfold fb_read. cbn [fst snd].
      rewrite Nat2Z.id. rewrite substring_app_skip. change (Z.to_nat 1) with 1%nat. cbn [substring].
      destruct (HL k ltac:(lia)) as (c & G & Hc). rewrite (substring_get k L c G).
      assert (E : (String c "" =? String nl "")%string = false).
      { cbn [String.eqb]. destruct (Ascii.eqb_spec c nl); [contradiction|reflexivity]. }
      rewrite E. cbn [negb]. unfold slen. cbn [String.length]. unfold fb_seek. cbn [Z.eqb Pos.eqb fst snd].
      replace (Z.of_nat (String.length Q + S k) + Z.of_nat 1 + -2 <? 0)%Z with false by (symmetry; apply Z.ltb_ge; lia).
      cbn [bind]. replace (Z.of_nat (String.length Q + S k) + Z.of_nat 1 + -2)%Z with (Z.of_nat (String.length Q + k)) by lia.
      apply IH; [lia|]. intros j Hj. apply HL. lia.
  Qed.

  Lemma concat_last : forall pre L, pre <> [] -> String.concat "" (pre ++ [L]) = String.concat "" pre ++ L.
  Proof.
    induction pre as [|x pre IH]; intros L H; [congruence|]. destruct pre as [|y pre]; [reflexivity|].
    change (String.concat "" ((x :: y :: pre) ++ [L])) with (x ++ "" ++ String.concat "" ((y :: pre) ++ [L])).
    rewrite IH by discriminate. cbn [String.concat append]. rewrite sapp_assoc. reflexivity.
  Qed.
  Definition ends_nl (l : string) : Prop := exists b, l = b ++ String nl "".
  Lemma concat_ends_nl : forall pre, pre <> [] -> Forall ends_nl pre -> exists Q, String.concat "" pre = Q ++ String nl "".
  Proof.
    induction pre as [|x pre IH]; intros H F; [congruence|]. inversion F as [|? ? (b & ->) Fp]; subst.
    destruct pre as [|y pre]; [exists b; reflexivity|].
    destruct (IH ltac:(discriminate) Fp) as (Q & E). exists (b ++ String nl "" ++ Q).
    change (String.concat "" ((b ++ String nl "") :: y :: pre)) with ((b ++ String nl "") ++ "" ++ String.concat "" (y :: pre)).
    rewrite E. cbn [append]. rewrite !sapp_assoc. reflexivity.
  Qed.

  (* a file of at least two lines, all but possibly the last newline-terminated: the stripped last line *)
  Theorem source_get_last_line path pre L fuel :
    fs path = (pre ++ [L])%list -> pre <> [] -> Forall ends_nl pre -> line_ok L -> (String.length L < fuel)%nat ->
    gen_get_last_line fs fuel path = Ok (py_strip L).
  Proof.
    intros Hfs Hpre Hnl HL Hf. unfold gen_get_last_line, rt_open_bin. rewrite Hfs, (concat_last pre L Hpre).
    destruct (concat_ends_nl pre Hpre Hnl) as (Q & ->). rewrite sapp_assoc. cbn [append].
    assert (LL : (1 <= String.length L)%nat) by (destruct HL as [N _]; destruct L; [congruence|cbn; lia]).
    unfold fb_seek at 1. cbn [Z.eqb Pos.eqb fst snd]. unfold slen. rewrite slength_app. cbn [String.length].
    replace (Z.of_nat (String.length Q + S (String.length L)) + -2 <? 0)%Z with false by (symmetry; apply Z.ltb_ge; lia).
    cbn [bind].
    replace (Z.of_nat (String.length Q + S (String.length L)) + -2)%Z
      with (Z.of_nat (String.length Q + (String.length L - 1))) by lia.
    rewrite (back_loop Q L (String.length L - 1) fuel ltac:(lia)).
    2:{ intros j Hj. apply (line_ok_inner L HL). lia. }
    cbn [bind]. unfold fb_readline. cbn [fst snd]. rewrite Nat2Z.id.
    replace (String.length Q + 1)%nat with (String.length (Q ++ String nl "") + 0)%nat by (rewrite slength_app; cbn; lia).
    replace (Q ++ String nl L) with ((Q ++ String nl "") ++ L) by (rewrite sapp_assoc; reflexivity).
    rewrite substring_app_skip, substring_all by (rewrite !slength_app; cbn; lia).
    rewrite (upto_nl_line L HL). reflexivity.
  Qed.

  (* a file that is one line: the backward seek fails (OSError) *)
  Theorem source_get_last_line_one_line path L fuel :
    fs path = [L] -> line_ok L -> (String.length L < fuel)%nat ->
    gen_get_last_line fs fuel path = Err OtherError.
  Proof.
    intros Hfs HL Hf. unfold gen_get_last_line, rt_open_bin. rewrite Hfs. cbn [String.concat].
    unfold fb_seek at 1. cbn [Z.eqb Pos.eqb fst snd]. unfold slen.
    destruct (Nat.le_gt_cases (String.length L) 1) as [H1|H1].
    - replace (Z.of_nat (String.length L) + -2 <? 0)%Z with true by (symmetry; apply Z.ltb_lt; lia). reflexivity.
    - replace (Z.of_nat (String.length L) + -2 <? 0)%Z with false by (symmetry; apply Z.ltb_ge; lia). cbn [bind].
      replace (Z.of_nat (String.length L) + -2)%Z with (Z.of_nat (String.length L - 2)) by lia.
      assert (B : forall k fuel', (k < fuel')%nat -> (S k < String.length L)%nat ->
                  whileC fuel' gen_get_last_line_loop1 (L, Z.of_nat k) = Err OtherError).
      { induction k as [|k IH]; intros fuel' Hf' Hk; (destruct fuel' as [|fuel']; [lia|]);
          cbn [whileC]; unfold gen_get_last_line_loop1 at 1; unfold fb_read; cbn [fst snd]; rewrite Nat2Z.id;
          change (Z.to_nat 1) with 1%nat;
          (match goal with |- context [substring ?k 1 L] =>
             destruct (line_ok_inner L HL k ltac:(lia)) as (c & G & Hc); rewrite (substring_get k L c G) end);
          (assert (E : (String c "" =? String nl "")%string = false)
             by (cbn [String.eqb]; destruct (Ascii.eqb_spec c nl); [contradiction|reflexivity]));
          rewrite E; cbn [negb]; unfold slen; cbn [String.length]; unfold fb_seek; cbn [Z.eqb Pos.eqb fst snd].
        - reflexivity.
        - replace (Z.of_nat (S k) + Z.of_nat 1 + -2 <? 0)%Z with false by (symmetry; apply Z.ltb_ge; lia).
          cbn [bind]. replace (Z.of_nat (S k) + Z.of_nat 1 + -2)%Z with (Z.of_nat k) by lia.
          apply IH; lia. }
      rewrite (B (String.length L - 2)%nat fuel) by lia. reflexivity.
  Qed.

  (* ---- strip / split() -------------------------------------------------------------------------------------------------- *)
  Definition ws_free (p : string) : Prop := forall c, In c (chars p) -> is_ws c = false.
  Lemma prefix_ws_head p a t : ws_free p -> p <> "" -> is_ws a = true -> prefix p (String a t) = false.
  Proof.
    intros W N A. destruct p as [|c p]; [congruence|]. cbn. destruct (ascii_dec c a) as [->|]; [|reflexivity].
    rewrite (W a (or_introl eq_refl)) in A. discriminate A.
  Qed.
  Lemma ws_free_tl c p : ws_free (String c p) -> ws_free p.
  Proof. intros W x I. apply W. right. exact I. Qed.

  Lemma contains_lstrip p : ws_free p -> p <> "" -> forall s, contains p (py_lstrip s) = contains p s.
  Proof.
    intros W N. induction s as [|a t IH]; [reflexivity|]. cbn [py_lstrip].
    destruct (is_ws a) eqn:A; [|reflexivity]. rewrite IH. cbn [contains]. rewrite (prefix_ws_head p a t W N A). reflexivity.
  Qed.
  Lemma prefix_rstrip : forall t p, ws_free p -> prefix p (py_rstrip t) = prefix p t.
  Proof.
    induction t as [|a t IH]; intros p W; [reflexivity|]. cbn [py_rstrip].
    destruct (is_ws a && (py_rstrip t =? "")%string) eqn:C.
    - destruct p as [|c p]; [reflexivity|]. cbn. apply andb_true_iff in C. destruct C as [A _].
      destruct (ascii_dec c a) as [->|]; [|reflexivity]. rewrite (W a (or_introl eq_refl)) in A. discriminate A.
    - destruct p as [|c p]; [reflexivity|]. cbn. destruct (ascii_dec c a); [|reflexivity]. apply IH. exact (ws_free_tl _ _ W).
  Qed.
  Lemma contains_rstrip p : ws_free p -> p <> "" -> forall s, contains p (py_rstrip s) = contains p s.
  Proof.
    intros W N. induction s as [|a t IH]; [reflexivity|].
    pose proof (prefix_rstrip (String a t) p W) as P. cbn [py_rstrip] in *.
    destruct (is_ws a && (py_rstrip t =? "")%string) eqn:C.
    - apply andb_true_iff in C. destruct C as [A R]. apply String.eqb_eq in R. rewrite R in IH.
      cbn [contains]. rewrite (prefix_ws_head p a t W N A), <- IH. destruct p; [congruence|reflexivity].
    - cbn [contains]. rewrite P, IH. reflexivity.
  Qed.
  Lemma contains_strip p s : ws_free p -> p <> "" -> contains p (py_strip s) = contains p s.
  Proof. intros W N. unfold py_strip. rewrite (contains_lstrip p W N), (contains_rstrip p W N). reflexivity. Qed.

  (* two lists of pieces with the same first piece and the same non-empty later pieces *)
  Definition sp_eq (l1 l2 : list string) : Prop :=
    hd "" l1 = hd "" l2 /\ filter str_truthy (tl l1) = filter str_truthy (tl l2).
  Lemma split_pred_ne p s : split_pred p s <> [].
  Proof. destruct s as [|a s]; cbn; [discriminate|]. destruct (p a); [discriminate|]. destruct (split_pred p s); discriminate. Qed.
  Lemma sp_eq_filter l1 l2 : l1 <> [] -> l2 <> [] -> sp_eq l1 l2 -> filter str_truthy l1 = filter str_truthy l2.
  Proof.
    intros N1 N2 [H T]. destruct l1 as [|x l1]; [congruence|]. destruct l2 as [|y l2]; [congruence|].
    cbn in *. subst y. rewrite T. reflexivity.
  Qed.
  Lemma sp_eq_cons p a x1 x2 : sp_eq (split_pred p x1) (split_pred p x2) ->
    sp_eq (split_pred p (String a x1)) (split_pred p (String a x2)).
  Proof.
    intros E. pose proof (split_pred_ne p x1) as N1. pose proof (split_pred_ne p x2) as N2.
    cbn [split_pred]. destruct (p a).
    - split; [reflexivity|]. cbn [tl]. apply sp_eq_filter; assumption.
    - destruct E as [H T]. destruct (split_pred p x1) as [|h1 t1]; [congruence|].
      destruct (split_pred p x2) as [|h2 t2]; [congruence|]. cbn in *. subst h2. split; [reflexivity|exact T].
  Qed.
  Lemma sp_eq_refl l : sp_eq l l. Proof. split; reflexivity. Qed.

  Lemma split_rstrip : forall s, sp_eq (split_pred is_ws (py_rstrip s)) (split_pred is_ws s).
  Proof.
    induction s as [|a t IH]; [apply sp_eq_refl|]. cbn [py_rstrip].
    destruct (is_ws a && (py_rstrip t =? "")%string) eqn:C.
    - apply andb_true_iff in C. destruct C as [A R]. apply String.eqb_eq in R. rewrite R in IH.
      cbn [split_pred]. rewrite A. split; [reflexivity|]. cbn [tl filter].
      pose proof (split_pred_ne is_ws t) as N. destruct IH as [H T].
      destruct (split_pred is_ws t) as [|h ts]; [congruence|]. cbn in *. subst h. cbn. exact T.
    - apply sp_eq_cons. exact IH.
  Qed.
  Lemma split_lstrip : forall s, filter str_truthy (split_pred is_ws (py_lstrip s)) = filter str_truthy (split_pred is_ws s).
  Proof.
    induction s as [|a t IH]; [reflexivity|]. cbn [py_lstrip]. destruct (is_ws a) eqn:A; [|reflexivity].
    cbn [split_pred]. rewrite A. cbn. exact IH.
  Qed.
  Lemma split_strip s : py_split_ws (py_strip s) = py_split_ws s.
  Proof.
    unfold py_split_ws, py_strip. rewrite split_lstrip.
    apply sp_eq_filter; [apply split_pred_ne|apply split_pred_ne|apply split_rstrip].
  Qed.

  (* no whitespace other than blank, tab, newline *)
  Definition plain_ws (s : string) : Prop := forall c, In c (chars s) -> is_ws c = true -> c = sp \/ c = tab \/ c = nl.

  Lemma split_plain : forall b, no_char nl b = true -> plain_ws b -> split_pred is_ws b = split_on sp (tab2sp b).
  Proof.
    induction b as [|a b IH]; intros Hn Hp; [reflexivity|].
    cbn in Hn. apply andb_true_iff in Hn. destruct Hn as [Ha Hn]. apply negb_true_iff in Ha.
    assert (Hp' : plain_ws b) by (intros c I; apply Hp; right; exact I).
    rewrite tab2sp_cons. cbn [split_pred split_on]. rewrite (IH Hn Hp').
    destruct (Ascii.eqb a tab) eqn:T.
    - apply Ascii.eqb_eq in T. subst a. reflexivity.
    - destruct (is_ws a) eqn:W.
      + destruct (Hp a (or_introl eq_refl) W) as [->|[->| ->]]; [reflexivity|discriminate T|discriminate Ha].
      + destruct (Ascii.eqb a sp) eqn:S; [apply Ascii.eqb_eq in S; subst a; discriminate W|reflexivity].
  Qed.
  Lemma split_app_nl : forall b, sp_eq (split_pred is_ws (b ++ String nl "")) (split_pred is_ws b).
  Proof. induction b as [|a b IH]; [split; reflexivity|]. cbn [append]. apply sp_eq_cons. exact IH. Qed.

  Lemma plain_app_l a b : plain_ws (a ++ b) -> plain_ws a.
  Proof. intros H c I. apply H. rewrite chars_app. apply in_or_app. left. exact I. Qed.

  (* last_line.split() on the stripped last line: the non-empty tokens of the hand model *)
  Lemma split_ws_toks L : line_ok L -> plain_ws L ->
    py_split_ws (py_strip L) = filter (fun s => negb (s =? "")%string) (toks L).
  Proof.
    intros (_ & b & Hb & H) P. rewrite split_strip. unfold py_split_ws.
    change (fun s => negb (s =? "")%string) with str_truthy.
    destruct H as [->| ->].
    - destruct (toks_body b Hb) as [-> _]. rewrite <- (split_plain b Hb (plain_app_l _ _ P)).
      apply sp_eq_filter; [apply split_pred_ne|apply split_pred_ne|apply split_app_nl].
    - destruct (toks_body b Hb) as [_ ->]. rewrite <- (split_plain b Hb P). reflexivity.
  Qed.

  (* ---- get_sigmaGen ------------------------------------------------------------------------------------------------------- *)
  Notation SLOOP := (gen_get_sigmaGen_loop1 tok_float).
  Lemma sigma_loop1 x : forall ws, loopC SLOOP ws [x] = Ok (x :: first_floats tok_float 1 ws).
  Proof.
    induction ws as [|w ws IH]; [reflexivity|]. cbn [loopC first_floats]. unfold gen_get_sigmaGen_loop1 at 1.
    unfold str_to_float. destruct (tok_float w) as [v|]; cbn [bind]; [|exact IH].
    cbn [app zlen List.length Z.of_nat Pos.of_succ_nat Pos.succ Z.eqb Pos.eqb]. destruct ws; reflexivity.
  Qed.
  Lemma sigma_loop0 : forall ws, loopC SLOOP ws [] = Ok (first_floats tok_float 2 ws).
  Proof.
    induction ws as [|w ws IH]; [reflexivity|]. cbn [loopC first_floats]. unfold gen_get_sigmaGen_loop1 at 1.
    unfold str_to_float. destruct (tok_float w) as [v|]; cbn [bind app]; [|exact IH].
    cbn [zlen List.length Z.of_nat Z.eqb Pos.of_succ_nat Pos.succ Pos.eqb]. apply sigma_loop1.
  Qed.
  Lemma first_floats_le n : forall ws, (List.length (first_floats tok_float n ws) <= n)%nat.
  Proof.
    induction n as [|n IHn]; intros ws; [destruct ws; cbn; lia|].
    induction ws as [|w ws IHw]; [cbn; lia|]. cbn [first_floats]. destruct (tok_float w); [cbn; specialize (IHn ws); lia|exact IHw].
  Qed.

  Theorem source_get_sigmaGen self pre L fuel :
    fs (PATH_JETSCAPE_ self) = (pre ++ [L])%list -> pre <> [] -> Forall ends_nl pre -> line_ok L -> plain_ws L ->
    (String.length L < fuel)%nat ->
    gen_get_sigmaGen fs tok_float fuel self
    = match first_floats tok_float 2 (filter (fun s => negb (s =? "")%string) (toks L)) with
      | [s1; s2] => Ok (s1, s2)
      | _ => Err IndexError
      end.
  Proof.
    intros Hfs Hpre Hnl HL HP Hf. unfold gen_get_sigmaGen.
    rewrite (source_get_last_line _ pre L fuel Hfs Hpre Hnl HL Hf). cbn [bind]. cbv zeta.
    rewrite (split_ws_toks L HL HP), sigma_loop0. cbn [bind].
    pose proof (first_floats_le 2 (filter (fun s => negb (s =? "")%string) (toks L))) as LE.
    destruct (first_floats tok_float 2 _) as [|s1 [|s2 [|s3 r]]]; try reflexivity. cbn in LE. lia.
  Qed.

  (* ---- __init__, the getters ------------------------------------------------------------------------------------------------ *)
  Lemma ws_free_sigmaGen : ws_free "sigmaGen".
  Proof. intros c I. cbn in I. repeat (destruct I as [<-|I]; [reflexivity|]). contradiction. Qed.

  Theorem source_init path pre L fuel :
    fs path = (pre ++ [L])%list -> pre <> [] -> Forall ends_nl pre -> line_ok L -> (String.length L < fuel)%nat ->
    gen_init fs fuel path
    = if negb (contains ".dat" path) then Err OtherError
      else if negb (has "sigmaGen" (toks L)) then Err ValueError
      else Ok (JSelf path "hadron" "N_hadrons" [] [] A1 0).
  Proof.
    intros Hfs Hpre Hnl HL Hf. unfold gen_init. destruct (contains ".dat" path); cbn [negb bind]; [|reflexivity].
    rewrite (source_get_last_line path pre L fuel Hfs Hpre Hnl HL Hf). cbn [bind].
    rewrite (contains_strip "sigmaGen" L ws_free_sigmaGen ltac:(discriminate)), (contains_toks "sigmaGen" L pat_sigmaGen HL).
    destruct (has "sigmaGen" (toks L)); reflexivity.
  Qed.

  Theorem source_getters self :
    gen_get_particle_type self = Ok (particle_type_ self)
    /\ gen_get_particle_type_defining_string self = Ok (particle_type_defining_string_ self)
    /\ gen_event_end_lines self = Ok (event_end_lines_ self).
  Proof. repeat split. Qed.

  (* ---- the whole reader: Jetscape.__init__ calls JetscapeLoader(path), load with the keyword arguments, get_sigmaGen() --------------------- *)
  Notation JLOAD := (jload tok_float tok_int pdg_valid pdg_charge usqrt).

  Lemma jload_decompose flt (file : list (list string)) defstr sel :
    JLOAD flt file defstr sel
    = if negb (has "sigmaGen" (last file [])) then Err ValueError else
      t <- jload_mid flt file defstr sel ;;
      match first_floats tok_float 2 (filter (fun s => negb (s =? "")%string) (last file [])) with
      | [s1; s2] => Ok {| j_events := fst (fst t); j_nevents := snd (fst t); j_counts := snd t;
                          j_counts_2d := true; j_sigma := (s1, s2) |}
      | _ => Err IndexError
      end.
  Proof.
    unfold jload, jload_mid, jload_tail, line.
    destruct (negb (has "sigmaGen" (last file []))); [reflexivity|].
    destruct (jscan tok_int defstr file) as [c|e]; cbn [bind]; [|reflexivity].
    destruct (jnum_skip sel c) as [ns|e]; cbn [bind]; [|reflexivity].
    destruct (jnum_read sel c) as [nr|e]; cbn [bind]; [|reflexivity].
    destruct (JREAD flt sel true _ _ _) as [st|e]; cbn [bind]; [|reflexivity].
    destruct sel; [destruct (_ =? _)%Z|..]; cbn [bind fst snd]; reflexivity.
  Qed.

  (* the composition, written as Jetscape.__init__ makes the three calls (that constructor is not translated) *)
  Definition gen_jetscape (fuel : nat) (path : string) (kw : kwargs)
    : result (list (list particle) * Z * arr * (Q * Q)) :=
    self <- gen_init fs fuel path ;;
    r <- gen_load fs zint zint mkp o_apply fuel self kw ;;
    sg <- gen_get_sigmaGen fs tok_float fuel (fst r) ;;
    Ok (fst (fst (fst (snd r))), snd (fst (fst (snd r))), snd (fst (snd r)), sg).

  Theorem source_jetscape path pre L kw sel flt pt fuel :
    fs path = (pre ++ [L])%list -> pre <> [] -> Forall ends_nl pre -> lines_ok (pre ++ [L]) -> plain_ws L ->
    trailer_last (pre ++ [L]) -> contains ".dat" path = true ->
    (List.length (pre ++ [L]) < fuel)%nat -> (String.length L < fuel)%nat ->
    forallb known_key (dict_keys kw) = true -> kw_sel kw sel -> flt_rel kw flt ->
    check_ptype (assoc "particletype" kw) "hadron" = Ok pt ->
    jscan tok_int (defstr_of pt) (map toks (pre ++ [L])) <> Err ValueError ->
    match gen_jetscape fuel path kw with
    | Ok (pl, nev, a, sg) =>
      exists ld, JLOAD flt (map toks (pre ++ [L])) (defstr_of pt) sel = Ok ld
                 /\ j_events ld = pl /\ j_nevents ld = nev /\ j_counts ld = arr_rows a /\ j_sigma ld = sg
    | Err e => JLOAD flt (map toks (pre ++ [L])) (defstr_of pt) sel = Err e
    end.
  Proof.
    intros Hfs Hpre Hnl Hok HP TL Hdat Hf1 Hf2 KK K F PT NV.
    assert (HL : line_ok L) by (apply Forall_app in Hok; destruct Hok as [_ H]; inversion H; assumption).
    assert (LL : last (map toks (pre ++ [L])) [] = toks L) by (rewrite map_app; cbn [map]; apply last_last).
    rewrite jload_decompose, LL.
    unfold gen_jetscape. rewrite (source_init path pre L fuel Hfs Hpre Hnl HL Hf2), Hdat. cbn [negb].
    destruct (has "sigmaGen" (toks L)); cbn [negb bind]; [|reflexivity].
    set (self0 := JSelf path "hadron" "N_hadrons" [] [] A1 0).
    pose proof (source_load_model self0 (pre ++ [L]) kw sel flt pt fuel Hok TL Hfs Hf1 KK K F PT NV) as LM.
    destruct (gen_load fs zint zint mkp o_apply fuel self0 kw) as [[s' [[[pl nev] a] ends]]|e]; cbn [bind]; [|rewrite LM; reflexivity].
    destruct LM as (J & _ & _ & _ & ES). rewrite J. cbn [bind fst snd].
    assert (PS : PATH_JETSCAPE_ s' = path) by (rewrite ES; reflexivity).
    rewrite (source_get_sigmaGen s' pre L fuel ltac:(rewrite PS; exact Hfs) Hpre Hnl HL HP Hf2).
    destruct (first_floats tok_float 2 _) as [|s1 [|s2 [|s3 r]]]; cbn [bind]; try reflexivity.
    eexists. split; [reflexivity|]. cbn. repeat split.
  Qed.
End Src.

(* ================================================================================================ joined lines *)
(* tokens joined by single blanks or tabs *)
Fixpoint join_seps (l : list string) (seps : list ascii) : string :=
  match l with
  | [] => ""
  | [t] => t
  | t :: ts => t ++ String (hd sp seps) (join_seps ts (tl seps))
  end.
Definition tok_ok (t : string) : Prop := no_char sp t = true /\ no_char tab t = true /\ no_char nl t = true.
Definition sep_ok (c : ascii) : Prop := c = sp \/ c = tab.

Lemma no_char_app' c a b : no_char c (a ++ b) = no_char c a && no_char c b.
Proof. unfold no_char. rewrite chars_app, forallb_app. reflexivity. Qed.

Lemma join_seps_facts : forall l seps, Forall tok_ok l -> Forall sep_ok seps ->
  no_char nl (join_seps l seps) = true /\ tab2sp (join_seps l seps) = join sp l.
Proof.
  induction l as [|t l IH]; intros seps Hl Hs; [split; reflexivity|].
  inversion Hl as [|? ? (T1 & T2 & T3) Hl']; subst.
  destruct l as [|t' l']; [cbn [join_seps join]; split; [exact T3|apply replace_free; exact T2]|].
  assert (Hs' : Forall sep_ok (tl seps)) by (destruct seps; [constructor|inversion Hs; assumption]).
  assert (Hc : sep_ok (hd sp seps)) by (destruct seps; [left; reflexivity|inversion Hs; assumption]).
  destruct (IH (tl seps) Hl' Hs') as [N J].
  change (join_seps (t :: t' :: l') seps) with (t ++ String (hd sp seps) (join_seps (t' :: l') (tl seps))).
  change (join sp (t :: t' :: l')) with (t ++ String sp (join sp (t' :: l'))).
  split.
  - rewrite no_char_app', T3. cbn [andb]. unfold no_char at 1. cbn [chars forallb].
    fold (no_char nl (join_seps (t' :: l') (tl seps))). rewrite N.
    destruct Hc as [-> | ->]; reflexivity.
  - unfold tab2sp in *. rewrite replace_app, (replace_free _ _ t T2). f_equal.
    cbn [str_replace_char]. rewrite J. destruct Hc as [-> | ->]; reflexivity.
Qed.

(* a line that is the join by single blanks or tabs of blank-, tab- and newline-free tokens (empty tokens allowed),
   with or without its newline, is tokenised back into these tokens: the raw lines of Model/JetscapeDoc.v jrender *)
Theorem toks_join (l : list string) (seps : list ascii) :
  l <> [] -> Forall tok_ok l -> Forall sep_ok seps ->
  toks (join_seps l seps ++ String nl "") = l /\ toks (join_seps l seps) = l
  /\ line_ok (join_seps l seps ++ String nl "") /\ (join_seps l seps <> "" -> line_ok (join_seps l seps)).
Proof.
  intros Hne Hl Hs. destruct (join_seps_facts l seps Hl Hs) as [N J].
  destruct (toks_body _ N) as [-> ->]. rewrite J.
  assert (SJ : split_on sp (join sp l) = l).
  { apply split_join; [exact Hne|]. apply forallb_forall. intros x Hx. rewrite Forall_forall in Hl. apply (Hl x Hx). }
  repeat split; try exact SJ.
  - destruct (join_seps l seps); discriminate.
  - exists (join_seps l seps). split; [exact N|left; reflexivity].
  - exact H.
  - exists (join_seps l seps). split; [exact N|right; reflexivity].
Qed.

(* ================================================================================================ example *)
(* non-vacuity: the four-event document of Proofs/C02_JetscapeExample.v written with tabs, last line without newline,
   read with events=(1, 3) and a filter chain that keeps the charged particles: the hypotheses of [source_jetscape]
   hold, and the regenerated reader computes what the hand model computes *)
Definition exs_seps : list ascii := repeat "009"%char 12.
Definition exs_pre : list string :=
  map (fun l => join_seps l exs_seps ++ String "010"%char "") (removelast (jrender C02_JetscapeExample.exj_doc)).
Definition exs_last : string := join_seps (jd_trailer C02_JetscapeExample.exj_doc) exs_seps.
Definition exs_fs (p : string) : list string := (exs_pre ++ [exs_last])%list.
Definition exs_kw : kwargs := [("events", VTuple [VInt 1; VInt 3]); ("filters", VOther)].
Definition exs_apply (evs : list (list particle)) (fv : pyval) : result (list (list particle)) :=
  Ok (map C02_JetscapeExample.exj_charged evs).

Lemma exs_example :
  let tf := C02_JetscapeExample.exj_tf in let ti := C02_JetscapeExample.exj_ti in
  let pv := C02_JetscapeExample.exj_pv in let pc := C02_JetscapeExample.exj_pc in
  let sq := C02_JetscapeExample.exj_sqrt in
  exs_pre <> [] /\ Forall ends_nl exs_pre /\ lines_ok (exs_pre ++ [exs_last]) /\ plain_ws exs_last
  /\ trailer_last (exs_pre ++ [exs_last])
  /\ contains ".dat" "events.dat" = true
  /\ forallb known_key (dict_keys exs_kw) = true /\ kw_sel exs_kw (SelRange 1 3)
  /\ flt_rel exs_apply exs_kw (Some C02_JetscapeExample.exj_charged)
  /\ check_ptype (assoc "particletype" exs_kw) "hadron" = Ok "hadron"
  /\ jscan ti (defstr_of "hadron") (map toks (exs_pre ++ [exs_last])) <> Err ValueError
  /\ map toks (exs_pre ++ [exs_last]) = jrender C02_JetscapeExample.exj_doc
  /\ match gen_jetscape tf ti pv pc sq exs_fs exs_apply 100 "events.dat" exs_kw with
     | Ok (pl, nev, a, sg) => Some (map (@List.length particle) pl, nev, a, sg)
     | Err _ => None
     end = Some ([0; 1]%nat, 2%Z, A2 [(2, 0); (3, 1)]%Z, ((3#2)%Q, (1#8)%Q)).
Proof.
  cbv zeta.
  assert (TK : Forall (fun l => l <> [] /\ Forall tok_ok l) (jrender C02_JetscapeExample.exj_doc)).
  { vm_compute jrender. repeat (constructor; [split; [discriminate|repeat (constructor; [repeat split; reflexivity|])]; constructor|]). constructor. }
  assert (SO : Forall sep_ok exs_seps) by (repeat (constructor; [right; reflexivity|]); constructor).
  split; [discriminate|]. split.
  { unfold exs_pre. apply Forall_forall. intros x Hx. apply in_map_iff in Hx. destruct Hx as (l & <- & _). eexists. reflexivity. }
  split.
  { apply Forall_app. split.
    - unfold exs_pre. apply Forall_forall. intros x Hx. apply in_map_iff in Hx. destruct Hx as (l & <- & Hl).
      assert (Hl' : In l (jrender C02_JetscapeExample.exj_doc)) by (vm_compute in Hl |- *; tauto).
      rewrite Forall_forall in TK. destruct (TK l Hl') as [N T]. apply (toks_join l exs_seps N T SO).
    - constructor; [|constructor]. rewrite Forall_forall in TK.
      destruct (TK (jd_trailer C02_JetscapeExample.exj_doc) ltac:(vm_compute; tauto)) as [N T].
      apply (toks_join _ exs_seps N T SO). discriminate. }
  split.
  { intros c I W. vm_compute in I. repeat (destruct I as [<-|I]; [first [discriminate W|right; left; reflexivity]|]). contradiction. }
  split.
  { apply trailer_last_of_forall. vm_compute removelast. repeat (constructor; [vm_compute; reflexivity|]). constructor. }
  split; [reflexivity|]. split; [reflexivity|]. split; [split; [reflexivity|lia]|].
  split; [exists VOther; split; [reflexivity|intros d; reflexivity]|].
  split; [reflexivity|]. split; [vm_compute; discriminate|]. split; vm_compute; reflexivity.
Qed.

(* C17: order lemmas on strictly increasing axes - searchsorted, argmin, cells. *)
From Coq Require Import List ZArith QArith Qabs Bool Lia Lqa.
From SX Require Import Lib.Py Lib.QCheck Model.Lattice.
Import ListNotations.
Local Open Scope Q_scope.

Fixpoint increasing (vs : list Q) : Prop :=
  match vs with [] => True | a :: t => (forall b, In b t -> a < b) /\ increasing t end.

Lemma Qlt_bool_iff a b : Qlt_bool a b = true <-> a < b.
Proof.
  unfold Qlt_bool. rewrite negb_true_iff. split; intros H.
  - apply Qnot_le_lt. intros C. apply Qle_bool_iff in C. congruence.
  - destruct (Qle_bool b a) eqn:E; [|reflexivity]. apply Qle_bool_iff in E. lra.
Qed.
Lemma Qlt_bool_false a b : Qlt_bool a b = false <-> b <= a.
Proof.
  unfold Qlt_bool. rewrite negb_false_iff. apply Qle_bool_iff.
Qed.
Lemma Qle_bool_false a b : Qle_bool a b = false <-> b < a.
Proof.
  split; intros H.
  - apply Qnot_le_lt. intros C. apply Qle_bool_iff in C. congruence.
  - destruct (Qle_bool a b) eqn:E; [|reflexivity]. apply Qle_bool_iff in E. lra.
Qed.

Lemma incr_nth vs : increasing vs -> forall i j, (i < j < length vs)%nat -> nth i vs 0 < nth j vs 0.
Proof.
  induction vs as [|a t IH]; simpl; intros H i j Hij; [lia|].
  destruct H as [Ha Ht]. destruct j as [|j]; [lia|]. destruct i as [|i].
  - apply Ha. apply nth_In. lia.
  - apply IH; [assumption | lia].
Qed.

Lemma incr_nth_le vs : increasing vs -> forall i j, (i <= j < length vs)%nat -> nth i vs 0 <= nth j vs 0.
Proof.
  intros H i j Hij. destruct (Nat.eq_dec i j) as [->|Hne]; [lra|].
  apply Qlt_le_weak, incr_nth; [assumption | lia].
Qed.

Lemma incr_inj vs : increasing vs -> forall i j, (i < length vs)%nat -> (j < length vs)%nat ->
  nth i vs 0 == nth j vs 0 -> i = j.
Proof.
  intros H i j Hi Hj E.
  destruct (Nat.lt_trichotomy i j) as [L|[L|L]]; [|assumption|].
  - pose proof (incr_nth vs H i j ltac:(lia)). lra.
  - pose proof (incr_nth vs H j i ltac:(lia)). lra.
Qed.

Lemma last_nth (vs : list Q) d : vs <> [] -> last vs d = nth (length vs - 1) vs 0.
Proof.
  induction vs as [|a t IH]; [congruence|]. intros _. destruct t as [|b t']; [reflexivity|].
  change (last (a :: b :: t') d) with (last (b :: t') d). rewrite IH by congruence.
  simpl length. replace (S (S (length t')) - 1)%nat with (S (length t')) by lia.
  simpl. now rewrite Nat.sub_0_r.
Qed.

(* searchsorted(side="right") on an increasing list: the count of entries <= x *)
Lemma ssr_spec vs x : increasing vs ->
  (ssr vs x <= length vs)%nat
  /\ (forall i, (i < ssr vs x)%nat -> nth i vs 0 <= x)
  /\ (forall i, (ssr vs x <= i < length vs)%nat -> x < nth i vs 0).
Proof.
  induction vs as [|a t IH]; simpl; intros H.
  - repeat split; intros; lia.
  - destruct H as [Ha Ht]. destruct (IH Ht) as (L & B & A).
    destruct (Qle_bool a x) eqn:E.
    + apply Qle_bool_iff in E. repeat split.
      * lia.
      * intros [|i] Hi; [assumption | apply B; lia].
      * intros [|i] Hi; [lia | apply A; lia].
    + apply Qle_bool_false in E. repeat split.
      * lia.
      * intros; lia.
      * intros [|i] Hi; [assumption|]. apply Qlt_trans with a; [assumption|].
        apply Ha, nth_In. lia.
Qed.

Definition cell (vs : list Q) (i : nat) (x : Q) : Prop :=
  (i < length vs)%nat /\ nth i vs 0 <= x /\ ((S i < length vs)%nat -> x < nth (S i) vs 0) /\ x <= last vs 0.

Lemma get_index_unfold vs x v0 t : vs = v0 :: t ->
  get_index (Fin x) vs =
  if negb (Qle_bool v0 x && Qle_bool x (last vs v0)) then Err ValueError
  else Ok ((if Nat.eqb (ssr vs x) 0 then S (ssr vs x) else ssr vs x) - 1)%nat.
Proof. intros ->. reflexivity. Qed.

Lemma last_indep (vs : list Q) d d' : vs <> [] -> last vs d = last vs d'.
Proof.
  induction vs as [|a t IH]; [congruence|]. intros _. destruct t; [reflexivity|].
  change (last (a :: q :: t) d) with (last (q :: t) d). change (last (a :: q :: t) d') with (last (q :: t) d').
  apply IH. congruence.
Qed.

(* the index found is the cell of x, and only inside [v_0, v_last] *)
Lemma get_index_sound vs x i : increasing vs -> get_index (Fin x) vs = Ok i -> cell vs i x /\ nth 0 vs 0 <= x.
Proof.
  intros H G. destruct vs as [|v0 t]; [discriminate|].
  rewrite (get_index_unfold _ x v0 t eq_refl) in G.
  destruct (Qle_bool v0 x && Qle_bool x (last (v0 :: t) v0)) eqn:R; simpl negb in G; cbv iota in G; [|discriminate].
  apply andb_true_iff in R. destruct R as [R1 R2]. apply Qle_bool_iff in R1, R2.
  rewrite (last_indep (v0 :: t) v0 0) in R2 by congruence.
  destruct (ssr_spec (v0 :: t) x H) as (L & B & A).
  assert (P : (1 <= ssr (v0 :: t) x)%nat).
  { simpl. apply Qle_bool_iff in R1. rewrite R1. lia. }
  remember (ssr (v0 :: t) x) as k eqn:Hk. clear Hk.
  destruct (Nat.eqb k 0) eqn:Z; [apply Nat.eqb_eq in Z; lia|].
  injection G as <-. split; [|exact R1]. unfold cell. repeat split.
  - lia.
  - apply B. lia.
  - intros Hs. apply A. lia.
  - exact R2.
Qed.

Lemma get_index_complete vs x i : increasing vs -> cell vs i x -> get_index (Fin x) vs = Ok i.
Proof.
  intros H (Hi & Lo & Hi' & La). destruct vs as [|v0 t]; [simpl in Hi; lia|].
  rewrite (get_index_unfold _ x v0 t eq_refl).
  assert (R1 : v0 <= x).
  { apply Qle_trans with (nth i (v0 :: t) 0); [|assumption].
    apply (incr_nth_le (v0 :: t) H 0%nat i). lia. }
  rewrite (last_indep (v0 :: t) v0 0) by congruence.
  assert (E1 : Qle_bool v0 x = true) by now apply Qle_bool_iff.
  assert (E2 : Qle_bool x (last (v0 :: t) 0) = true) by now apply Qle_bool_iff.
  rewrite E1, E2. simpl negb. cbv iota.
  destruct (ssr_spec (v0 :: t) x H) as (L & B & A).
  assert (K : ssr (v0 :: t) x = S i).
  { destruct (Nat.lt_trichotomy (ssr (v0 :: t) x) (S i)) as [C|[C|C]]; [|assumption|].
    - pose proof (A i ltac:(lia)). lra.
    - pose proof (B (S i) ltac:(lia)). pose proof (Hi' ltac:(lia)). lra. }
  rewrite K. simpl. now rewrite Nat.sub_0_r.
Qed.

Lemma get_index_outside vs x : vs <> [] -> x < nth 0 vs 0 \/ last vs 0 < x -> get_index (Fin x) vs = Err ValueError.
Proof.
  intros Hne Ho. destruct vs as [|v0 t]; [congruence|].
  rewrite (get_index_unfold _ x v0 t eq_refl). rewrite (last_indep (v0 :: t) v0 0) by congruence.
  change (nth 0 (v0 :: t) 0) with v0 in Ho. destruct Ho as [Ho|Ho].
  - apply Qle_bool_false in Ho. now rewrite Ho.
  - apply Qle_bool_false in Ho. rewrite Ho. now rewrite andb_false_r.
Qed.

Definition nonfinite (v : fv) : Prop := match v with Fin _ => False | _ => True end.

Lemma get_index_unfold' vs v v0 t : vs = v0 :: t ->
  get_index v vs =
  if negb (q_le_fv v0 v && fv_le_q v (last vs v0)) then Err ValueError
  else match v with
       | Fin x => Ok ((if Nat.eqb (ssr vs x) 0 then S (ssr vs x) else ssr vs x) - 1)%nat
       | _ => Err OtherError
       end.
Proof. intros ->. reflexivity. Qed.

Lemma get_index_nn_unfold vs v v0 t : vs = v0 :: t ->
  get_index_nn v vs =
  if negb (q_le_fv v0 v && fv_le_q v (last vs v0)) then Err ValueError else find_closest_index v vs.
Proof. intros ->. reflexivity. Qed.

Lemma get_index_nonfinite vs v : vs <> [] -> nonfinite v -> get_index v vs = Err ValueError.
Proof.
  intros Hne Hv. destruct vs as [|v0 t]; [congruence|].
  rewrite (get_index_unfold' _ v v0 t eq_refl).
  destruct v; simpl in Hv; try contradiction; unfold q_le_fv, fv_le_q; rewrite ?andb_false_r; reflexivity.
Qed.

Lemma get_index_nn_nonfinite vs v : vs <> [] -> nonfinite v -> get_index_nn v vs = Err ValueError.
Proof.
  intros Hne Hv. destruct vs as [|v0 t]; [congruence|].
  rewrite (get_index_nn_unfold _ v v0 t eq_refl).
  destruct v; simpl in Hv; try contradiction; unfold q_le_fv, fv_le_q; rewrite ?andb_false_r; reflexivity.
Qed.

Lemma get_index_nn_outside vs x : vs <> [] -> x < nth 0 vs 0 \/ last vs 0 < x -> get_index_nn (Fin x) vs = Err ValueError.
Proof.
  intros Hne Ho. destruct vs as [|v0 t]; [congruence|].
  rewrite (get_index_nn_unfold _ (Fin x) v0 t eq_refl). unfold q_le_fv, fv_le_q.
  rewrite (last_indep (v0 :: t) v0 0) by congruence.
  change (nth 0 (v0 :: t) 0) with v0 in Ho. destruct Ho as [Ho|Ho].
  - apply Qle_bool_false in Ho. now rewrite Ho.
  - apply Qle_bool_false in Ho. rewrite Ho. now rewrite andb_false_r.
Qed.

(* ---- argmin --------------------------------------------------------------------------------------------- *)
Definition is_first_min (ds : list Q) (m : nat) : Prop :=
  (m < length ds)%nat
  /\ (forall j, (j < length ds)%nat -> nth m ds 0 <= nth j ds 0)
  /\ (forall j, (j < m)%nat -> nth m ds 0 < nth j ds 0).

Lemma argmin_from_spec : forall ds pre best,
  (best < length pre)%nat ->
  (forall j, (j < length pre)%nat -> nth best pre 0 <= nth j pre 0) ->
  (forall j, (j < best)%nat -> nth best pre 0 < nth j pre 0) ->
  is_first_min (pre ++ ds) (argmin_from best (nth best pre 0) (length pre) ds).
Proof.
  induction ds as [|d t IH]; intros pre best Hb Hmin Hfirst.
  - simpl. rewrite app_nil_r. repeat split; assumption.
  - simpl. replace (pre ++ d :: t) with ((pre ++ [d]) ++ t) by (rewrite <- app_assoc; reflexivity).
    assert (Ld : length (pre ++ [d]) = S (length pre)) by (rewrite app_length; simpl; lia).
    destruct (Qlt_bool d (nth best pre 0)) eqn:E.
    + apply Qlt_bool_iff in E.
      assert (N : nth (length pre) (pre ++ [d]) 0 = d).
      { rewrite app_nth2 by lia. now rewrite Nat.sub_diag. }
      assert (Q : is_first_min ((pre ++ [d]) ++ t) (argmin_from (length pre) (nth (length pre) (pre ++ [d]) 0) (length (pre ++ [d])) t));
        [|rewrite N, Ld in Q; exact Q].
      apply IH.
      * lia.
      * intros j Hj. rewrite N. destruct (Nat.eq_dec j (length pre)) as [->|Hne].
        -- rewrite N. lra.
        -- rewrite app_nth1 by lia. apply Qle_trans with (nth best pre 0); [lra | apply Hmin; lia].
      * intros j Hj. rewrite N. rewrite app_nth1 by lia.
        apply Qlt_le_trans with (nth best pre 0); [assumption | apply Hmin; lia].
    + apply Qlt_bool_false in E.
      assert (N : nth best (pre ++ [d]) 0 = nth best pre 0) by (apply app_nth1; lia).
      assert (Q : is_first_min ((pre ++ [d]) ++ t) (argmin_from best (nth best (pre ++ [d]) 0) (length (pre ++ [d])) t));
        [|rewrite N, Ld in Q; exact Q].
      apply IH.
      * lia.
      * intros j Hj. rewrite N. destruct (Nat.eq_dec j (length pre)) as [->|Hne].
        -- rewrite app_nth2 by lia. rewrite Nat.sub_diag. simpl. assumption.
        -- rewrite app_nth1 by lia. apply Hmin. lia.
      * intros j Hj. rewrite N. rewrite app_nth1 by lia. now apply Hfirst.
Qed.

Lemma argmin_spec ds m : argmin ds = Ok m -> is_first_min ds m.
Proof.
  destruct ds as [|d t]; [discriminate|]. simpl. intros [= <-].
  apply (argmin_from_spec t [d] 0%nat); simpl.
  - lia.
  - intros j Hj. assert (j = 0)%nat by lia. subst. lra.
  - intros; lia.
Qed.

Lemma argmin_total ds : ds <> [] -> exists m, argmin ds = Ok m.
Proof. destruct ds; [congruence|]. intros _. eexists. reflexivity. Qed.

Lemma dists_nth x vs j : (j < length vs)%nat -> nth j (dists x vs) 0 = Qabs (nth j vs 0 - x).
Proof.
  intros Hj. unfold dists.
  rewrite (nth_indep _ 0 (Qabs (0 - x))) by (rewrite map_length; assumption).
  apply (map_nth (fun v => Qabs (v - x))).
Qed.

(* find_closest_index returns the first node of minimal distance *)
Definition closest (vs : list Q) (x : Q) (m : nat) : Prop :=
  (m < length vs)%nat
  /\ (forall j, (j < length vs)%nat -> Qabs (nth m vs 0 - x) <= Qabs (nth j vs 0 - x))
  /\ (forall j, (j < m)%nat -> Qabs (nth m vs 0 - x) < Qabs (nth j vs 0 - x)).

Lemma find_closest_spec vs x m : find_closest_index (Fin x) vs = Ok m -> closest vs x m.
Proof.
  simpl. intros G. apply argmin_spec in G. destruct G as (L & Mn & Fi).
  unfold dists in L. rewrite map_length in L.
  repeat split.
  - assumption.
  - intros j Hj. rewrite <- !dists_nth by assumption. apply Mn. unfold dists. now rewrite map_length.
  - intros j Hj. rewrite <- !dists_nth by lia. now apply Fi.
Qed.

Lemma find_closest_total vs x : vs <> [] -> exists m, find_closest_index (Fin x) vs = Ok m.
Proof. intros H. simpl. apply argmin_total. destruct vs; [congruence | discriminate]. Qed.

(* inverse of the coordinate lookup at every node *)
Lemma find_closest_at_node vs i : increasing vs -> (i < length vs)%nat ->
  find_closest_index (Fin (nth i vs 0)) vs = Ok i.
Proof.
  intros H Hi. destruct (find_closest_total vs (nth i vs 0)) as [m G].
  { destruct vs; [simpl in Hi; lia | congruence]. }
  rewrite G. f_equal. apply find_closest_spec in G. destruct G as (L & Mn & _).
  specialize (Mn i Hi).
  assert (Z : Qabs (nth i vs 0 - nth i vs 0) == 0).
  { setoid_replace (nth i vs 0 - nth i vs 0) with 0 by ring. reflexivity. }
  rewrite Z in Mn.
  assert (E : nth m vs 0 - nth i vs 0 == 0).
  { pose proof (Qabs_nonneg (nth m vs 0 - nth i vs 0)).
    assert (A0 : Qabs (nth m vs 0 - nth i vs 0) == 0) by lra.
    pose proof (Qle_Qabs (nth m vs 0 - nth i vs 0)) as U1.
    pose proof (Qle_Qabs (- (nth m vs 0 - nth i vs 0))) as U2.
    rewrite Qabs_opp in U2. lra. }
  apply (incr_inj vs H); [assumption | assumption | lra].
Qed.

(* the nearest-neighbour lookup addresses find_closest inside the range *)
Lemma get_index_nn_inside vs x : vs <> [] -> nth 0 vs 0 <= x -> x <= last vs 0 ->
  get_index_nn (Fin x) vs = find_closest_index (Fin x) vs.
Proof.
  intros Hne Lo Hi. destruct vs as [|v0 t]; [congruence|].
  rewrite (get_index_nn_unfold _ (Fin x) v0 t eq_refl). unfold q_le_fv, fv_le_q.
  rewrite (last_indep (v0 :: t) v0 0) by congruence. change (nth 0 (v0 :: t) 0) with v0 in Lo.
  apply Qle_bool_iff in Lo, Hi. rewrite Lo, Hi. reflexivity.
Qed.

(* C12 - what arctan2 provides.  Over the reals, with any function atan2 such that
     cos(atan2 y x) = x / sqrt(x^2+y^2),  sin(atan2 y x) = y / sqrt(x^2+y^2)   for (x,y) <> (0,0),
   the event-plane observable cos(n (phi - Psi(Q))), Psi(Q) = atan2(Im Q, Re Q)/n, and the sub-event term
   cos(n (Psi(A) - Psi(B))) have closed forms in u = exp(i n phi), Q, A, B that are invariant under a common unit
   rotation - the two hypotheses [obs_rot] and [cosAB_rot] of Proofs/C12_SP.v. *)
From Coq Require Import Reals RealField Lra List.
From SX Require Import Lib.KRing Lib.Cpx Proofs.C11_Reals.
Local Open Scope R_scope.

Section EPReal.
  Variable atan2 : R -> R -> R.
  Hypothesis atan2_spec : forall x y, x * x + y * y <> 0 ->
    cos (atan2 y x) = x / sqrt (x * x + y * y) /\ sin (atan2 y x) = y / sqrt (x * x + y * y).
  Variable n : nat.
  Hypothesis npos : (0 < n)%nat.

  Notation N2 := (norm2 R Rplus Rmult).
  Definition psi (Q : cpx R) : R := atan2 (im Q) (re Q) / INR n.
  Definition obsR (phi : R) (Q : cpx R) : R := cos (INR n * (phi - psi Q)).
  Definition cosABR (A B : cpx R) : R := cos (INR n * (psi A - psi B)).

  Lemma n_nz : INR n <> 0.
  Proof. apply not_0_INR. intro H; rewrite H in npos; inversion npos. Qed.

  Lemma sqrt_nz x : x <> 0 -> 0 <= x -> sqrt x <> 0.
  Proof. intros H1 H2 H. apply sqrt_eq_0 in H; auto. Qed.

  Lemma n2_nonneg (Q : cpx R) : 0 <= N2 Q.
  Proof. unfold norm2. nra. Qed.

  (* cos(n (phi - Psi(Q))) = Re(conj u Q) / |Q| with u = exp(i n phi) *)
  Lemma obsR_closed phi Q : N2 Q <> 0 ->
    obsR phi Q = re (Rcmul (Rconj (cis (INR n * phi))) Q) / sqrt (N2 Q).
  Proof.
    intros H. unfold obsR, psi.
    replace (INR n * (phi - atan2 (im Q) (re Q) / INR n)) with (INR n * phi - atan2 (im Q) (re Q)) by (field; apply n_nz).
    rewrite cos_minus. destruct (atan2_spec (re Q) (im Q) H) as [-> ->].
    unfold norm2; unfold cis, cmul, conj, re, im; simpl. field. apply sqrt_nz; [exact H | nra].
  Qed.

  Lemma cosABR_closed A B : N2 A <> 0 -> N2 B <> 0 ->
    cosABR A B = re (Rcmul A (Rconj B)) / (sqrt (N2 A) * sqrt (N2 B)).
  Proof.
    intros HA HB. unfold cosABR, psi.
    replace (INR n * (atan2 (im A) (re A) / INR n - atan2 (im B) (re B) / INR n))
      with (atan2 (im A) (re A) - atan2 (im B) (re B)) by (field; apply n_nz).
    rewrite cos_minus. destruct (atan2_spec (re A) (im A) HA) as [-> ->]. destruct (atan2_spec (re B) (im B) HB) as [-> ->].
    unfold norm2; unfold cmul, conj, re, im; simpl. field. split; apply sqrt_nz; try assumption; nra.
  Qed.

  (* the closed forms only depend on the relative orientation *)
  Lemma n2_rot rho Q : cunit R 0 1 Rplus Rmult Rminus Ropp rho -> N2 (Rcmul rho Q) = N2 Q.
  Proof.
    intros H. apply (cunit_iff R 0 1 Rplus Rmult Rminus Ropp RTheory) in H.
    unfold norm2, cmul, re, im in *; simpl in *.
    transitivity ((fst rho * fst rho + snd rho * snd rho) * (fst Q * fst Q + snd Q * snd Q)); [ring | rewrite H; ring].
  Qed.

  Lemma re_rot rho a b : cunit R 0 1 Rplus Rmult Rminus Ropp rho ->
    re (Rcmul (Rconj (Rcmul rho a)) (Rcmul rho b)) = re (Rcmul (Rconj a) b).
  Proof.
    intros H. apply (cunit_iff R 0 1 Rplus Rmult Rminus Ropp RTheory) in H.
    unfold cmul, conj, re, im in *; simpl in *.
    transitivity ((fst rho * fst rho + snd rho * snd rho) * (fst a * fst b - - snd a * snd b)); [ring | rewrite H; ring].
  Qed.

  Theorem obs_closed_rot rho u Q : cunit R 0 1 Rplus Rmult Rminus Ropp rho ->
    re (Rcmul (Rconj (Rcmul rho u)) (Rcmul rho Q)) / sqrt (N2 (Rcmul rho Q)) = re (Rcmul (Rconj u) Q) / sqrt (N2 Q).
  Proof. intros H. rewrite (n2_rot rho Q H), (re_rot rho u Q H). reflexivity. Qed.

  Theorem cosAB_closed_rot rho A B : cunit R 0 1 Rplus Rmult Rminus Ropp rho ->
    re (Rcmul (Rcmul rho A) (Rconj (Rcmul rho B))) / (sqrt (N2 (Rcmul rho A)) * sqrt (N2 (Rcmul rho B)))
    = re (Rcmul A (Rconj B)) / (sqrt (N2 A) * sqrt (N2 B)).
  Proof.
    intros H. rewrite (n2_rot rho A H), (n2_rot rho B H). f_equal.
    apply (cunit_iff R 0 1 Rplus Rmult Rminus Ropp RTheory) in H.
    unfold cmul, conj, re, im in *; simpl in *.
    transitivity ((fst rho * fst rho + snd rho * snd rho) * (fst A * fst B - snd A * - snd B)); [ring | rewrite H; ring].
  Qed.
End EPReal.

(* GENERATED at development time by tools/dev/gen_c11_closed.py - static file, every lemma checked by coqc.
   Closed forms (inclusion-exclusion over set partitions) of the distinct-tuple sums of Lib/Distinct.v for
   unit-modulus elements, in terms of the power sums Q_h = sum z^h, their conjugates and the length M. *)
From Coq Require Import List ZArith Ring Ring_theory Arith Lia Bool.
From SX Require Import Lib.KRing Lib.Distinct.
Import ListNotations.

Section Forms.
  Variable C : Type.
  Variables (c0 c1 : C) (cadd cmul csub : C -> C -> C) (copp : C -> C).
  Notation "0" := c0. Notation "1" := c1.
  Infix "+" := cadd. Infix "*" := cmul. Infix "-" := csub.
  Notation N n := (kz c0 c1 cadd cmul copp n%Z).
  (* every form takes all ring operations as arguments, used or not *)
  Notation USE := (c0, c1, cadd, cmul, csub, copp).

  Definition CF_0_0 (q1 q2 q3 r1 r2 r3 m : C) : C :=
    let _ := USE in N 1.
  Definition CF_0_1 (q1 q2 q3 r1 r2 r3 m : C) : C :=
    let _ := USE in r1.
  Definition CF_0_2 (q1 q2 q3 r1 r2 r3 m : C) : C :=
    let _ := USE in r1 * r1 - r2.
  Definition CF_0_3 (q1 q2 q3 r1 r2 r3 m : C) : C :=
    let _ := USE in r1 * r1 * r1 - N 3 * r1 * r2 + N 2 * r3.
  Definition CF_1_0 (q1 q2 q3 r1 r2 r3 m : C) : C :=
    let _ := USE in q1.
  Definition CF_1_1 (q1 q2 q3 r1 r2 r3 m : C) : C :=
    let _ := USE in q1 * r1 - m.
  Definition CF_1_2 (q1 q2 q3 r1 r2 r3 m : C) : C :=
    let _ := USE in q1 * r1 * r1 - q1 * r2 - N 2 * r1 * m + N 2 * r1.
  Definition CF_1_3 (q1 q2 q3 r1 r2 r3 m : C) : C :=
    let _ := USE in q1 * r1 * r1 * r1 - N 3 * q1 * r1 * r2 + N 2 * q1 * r3 - N 3 * r1 * r1 * m + N 6 * r1 * r1 + N 3 * r2 * m - N 6 * r2.
  Definition CF_2_0 (q1 q2 q3 r1 r2 r3 m : C) : C :=
    let _ := USE in q1 * q1 - q2.
  Definition CF_2_1 (q1 q2 q3 r1 r2 r3 m : C) : C :=
    let _ := USE in q1 * q1 * r1 - N 2 * q1 * m + N 2 * q1 - q2 * r1.
  Definition CF_2_2 (q1 q2 q3 r1 r2 r3 m : C) : C :=
    let _ := USE in q1 * q1 * r1 * r1 - q1 * q1 * r2 - N 4 * q1 * r1 * m + N 8 * q1 * r1 - q2 * r1 * r1 + q2 * r2 + N 2 * m * m - N 6 * m.
  Definition CF_2_3 (q1 q2 q3 r1 r2 r3 m : C) : C :=
    let _ := USE in q1 * q1 * r1 * r1 * r1 - N 3 * q1 * q1 * r1 * r2 + N 2 * q1 * q1 * r3 - N 6 * q1 * r1 * r1 * m + N 18 * q1 * r1 * r1 + N 6 * q1 * r2 * m - N 18 * q1 * r2 - q2 * r1 * r1 * r1 + N 3 * q2 * r1 * r2 - N 2 * q2 * r3 + N 6 * r1 * m * m - N 30 * r1 * m + N 24 * r1.
  Definition CF_3_0 (q1 q2 q3 r1 r2 r3 m : C) : C :=
    let _ := USE in q1 * q1 * q1 - N 3 * q1 * q2 + N 2 * q3.
  Definition CF_3_1 (q1 q2 q3 r1 r2 r3 m : C) : C :=
    let _ := USE in q1 * q1 * q1 * r1 - N 3 * q1 * q1 * m + N 6 * q1 * q1 - N 3 * q1 * q2 * r1 + N 3 * q2 * m - N 6 * q2 + N 2 * q3 * r1.
  Definition CF_3_2 (q1 q2 q3 r1 r2 r3 m : C) : C :=
    let _ := USE in q1 * q1 * q1 * r1 * r1 - q1 * q1 * q1 * r2 - N 6 * q1 * q1 * r1 * m + N 18 * q1 * q1 * r1 - N 3 * q1 * q2 * r1 * r1 + N 3 * q1 * q2 * r2 + N 6 * q1 * m * m - N 30 * q1 * m + N 24 * q1 + N 6 * q2 * r1 * m - N 18 * q2 * r1 + N 2 * q3 * r1 * r1 - N 2 * q3 * r2.
  Definition CF_3_3 (q1 q2 q3 r1 r2 r3 m : C) : C :=
    let _ := USE in q1 * q1 * q1 * r1 * r1 * r1 - N 3 * q1 * q1 * q1 * r1 * r2 + N 2 * q1 * q1 * q1 * r3 - N 9 * q1 * q1 * r1 * r1 * m + N 36 * q1 * q1 * r1 * r1 + N 9 * q1 * q1 * r2 * m - N 36 * q1 * q1 * r2 - N 3 * q1 * q2 * r1 * r1 * r1 + N 9 * q1 * q2 * r1 * r2 - N 6 * q1 * q2 * r3 + N 18 * q1 * r1 * m * m - N 126 * q1 * r1 * m + N 180 * q1 * r1 + N 9 * q2 * r1 * r1 * m - N 36 * q2 * r1 * r1 - N 9 * q2 * r2 * m + N 36 * q2 * r2 + N 2 * q3 * r1 * r1 * r1 - N 6 * q3 * r1 * r2 + N 4 * q3 * r3 - N 6 * m * m * m + N 54 * m * m - N 120 * m.
  Definition PF_0_0 (p1 p2 s1 mp q1 q2 q3 r1 r2 r3 m : C) : C :=
    let _ := USE in p1.
  Definition PF_0_1 (p1 p2 s1 mp q1 q2 q3 r1 r2 r3 m : C) : C :=
    let _ := USE in p1 * r1 - mp.
  Definition PF_0_2 (p1 p2 s1 mp q1 q2 q3 r1 r2 r3 m : C) : C :=
    let _ := USE in p1 * r1 * r1 - p1 * r2 + N 2 * s1 - N 2 * mp * r1.
  Definition PF_1_0 (p1 p2 s1 mp q1 q2 q3 r1 r2 r3 m : C) : C :=
    let _ := USE in p1 * q1 - p2.
  Definition PF_1_1 (p1 p2 s1 mp q1 q2 q3 r1 r2 r3 m : C) : C :=
    let _ := USE in p1 * q1 * r1 - p1 * m + N 2 * p1 - p2 * r1 - mp * q1.
  Definition PF_1_2 (p1 p2 s1 mp q1 q2 q3 r1 r2 r3 m : C) : C :=
    let _ := USE in p1 * q1 * r1 * r1 - p1 * q1 * r2 - N 2 * p1 * r1 * m + N 6 * p1 * r1 - p2 * r1 * r1 + p2 * r2 + N 2 * s1 * q1 - N 2 * mp * q1 * r1 + N 2 * mp * m - N 6 * mp.
End Forms.

Section Closed.
  Variable C : Type.
  Variables (c0 c1 : C) (cadd cmul csub : C -> C -> C) (copp : C -> C) (cj : C -> C).
  Hypothesis Cth : ring_theory c0 c1 cadd cmul csub copp (@eq C).
  Add Ring CringF : Cth.
  Notation "0" := c0. Notation "1" := c1.
  Infix "+" := cadd. Infix "*" := cmul. Infix "-" := csub.
  Notation N n := (kz c0 c1 cadd cmul copp n%Z).
  Notation DS := (dsum2 c0 c1 cadd cmul cj).
  Notation PD := (pdsum2 c0 c1 cadd cmul cj).
  Notation KN := (knat c0 c1 cadd).
  Notation Q h l := (psum c0 c1 cadd cmul h l).
  Notation Qb h l := (psum c0 c1 cadd cmul h (map cj l)).
  Definition U (z : C) : Prop := z * cj z = 1.
  (* the flagged sub-list *)
  Definition fl (l : list (C * bool)) : list C := map fst (filter snd l).

  Lemma fl_cons z f l : fl ((z, f) :: l) = if f then z :: fl l else fl l.
  Proof. unfold fl; destruct f; reflexivity. Qed.

  Notation cf_0_0 := (CF_0_0 C c0 c1 cadd cmul csub copp).
  Notation cf_0_1 := (CF_0_1 C c0 c1 cadd cmul csub copp).
  Notation cf_0_2 := (CF_0_2 C c0 c1 cadd cmul csub copp).
  Notation cf_0_3 := (CF_0_3 C c0 c1 cadd cmul csub copp).
  Notation cf_1_0 := (CF_1_0 C c0 c1 cadd cmul csub copp).
  Notation cf_1_1 := (CF_1_1 C c0 c1 cadd cmul csub copp).
  Notation cf_1_2 := (CF_1_2 C c0 c1 cadd cmul csub copp).
  Notation cf_1_3 := (CF_1_3 C c0 c1 cadd cmul csub copp).
  Notation cf_2_0 := (CF_2_0 C c0 c1 cadd cmul csub copp).
  Notation cf_2_1 := (CF_2_1 C c0 c1 cadd cmul csub copp).
  Notation cf_2_2 := (CF_2_2 C c0 c1 cadd cmul csub copp).
  Notation cf_2_3 := (CF_2_3 C c0 c1 cadd cmul csub copp).
  Notation cf_3_0 := (CF_3_0 C c0 c1 cadd cmul csub copp).
  Notation cf_3_1 := (CF_3_1 C c0 c1 cadd cmul csub copp).
  Notation cf_3_2 := (CF_3_2 C c0 c1 cadd cmul csub copp).
  Notation cf_3_3 := (CF_3_3 C c0 c1 cadd cmul csub copp).
  Notation pf_0_0 := (PF_0_0 C c0 c1 cadd cmul csub copp).
  Notation pf_0_1 := (PF_0_1 C c0 c1 cadd cmul csub copp).
  Notation pf_0_2 := (PF_0_2 C c0 c1 cadd cmul csub copp).
  Notation pf_1_0 := (PF_1_0 C c0 c1 cadd cmul csub copp).
  Notation pf_1_1 := (PF_1_1 C c0 c1 cadd cmul csub copp).
  Notation pf_1_2 := (PF_1_2 C c0 c1 cadd cmul csub copp).

  Lemma step_0_1 q1 q2 q3 r1 r2 r3 m z w : z * w = 1 ->
    cf_0_1 (z + q1) (z * z + q2) (z * z * z + q3) (w + r1) (w * w + r2) (w * w * w + r3) (1 + m)
    = cf_0_1 q1 q2 q3 r1 r2 r3 m + KN 0 * z * cf_0_1 q1 q2 q3 r1 r2 r3 m + KN 1 * w * cf_0_0 q1 q2 q3 r1 r2 r3 m.
  Proof.
    intros H. apply (csub_eq0 C c0 c1 cadd cmul csub copp Cth).
    assert (E : (cf_0_1 (z + q1) (z * z + q2) (z * z * z + q3) (w + r1) (w * w + r2) (w * w * w + r3) (1 + m)) - (cf_0_1 q1 q2 q3 r1 r2 r3 m + KN 0 * z * cf_0_1 q1 q2 q3 r1 r2 r3 m + KN 1 * w * cf_0_0 q1 q2 q3 r1 r2 r3 m)
               = (z * w - 1) * (0)).
    { unfold CF_0_1, CF_0_1, CF_0_0; cbn [kz kpos knat]; ring. }
    rewrite E, H. ring.
  Qed.

  Lemma step_1_0 q1 q2 q3 r1 r2 r3 m z w : z * w = 1 ->
    cf_1_0 (z + q1) (z * z + q2) (z * z * z + q3) (w + r1) (w * w + r2) (w * w * w + r3) (1 + m)
    = cf_1_0 q1 q2 q3 r1 r2 r3 m + KN 1 * z * cf_0_0 q1 q2 q3 r1 r2 r3 m + KN 0 * w * cf_1_0 q1 q2 q3 r1 r2 r3 m.
  Proof.
    intros H. apply (csub_eq0 C c0 c1 cadd cmul csub copp Cth).
    assert (E : (cf_1_0 (z + q1) (z * z + q2) (z * z * z + q3) (w + r1) (w * w + r2) (w * w * w + r3) (1 + m)) - (cf_1_0 q1 q2 q3 r1 r2 r3 m + KN 1 * z * cf_0_0 q1 q2 q3 r1 r2 r3 m + KN 0 * w * cf_1_0 q1 q2 q3 r1 r2 r3 m)
               = (z * w - 1) * (0)).
    { unfold CF_1_0, CF_0_0, CF_1_0; cbn [kz kpos knat]; ring. }
    rewrite E, H. ring.
  Qed.

  Lemma step_0_2 q1 q2 q3 r1 r2 r3 m z w : z * w = 1 ->
    cf_0_2 (z + q1) (z * z + q2) (z * z * z + q3) (w + r1) (w * w + r2) (w * w * w + r3) (1 + m)
    = cf_0_2 q1 q2 q3 r1 r2 r3 m + KN 0 * z * cf_0_2 q1 q2 q3 r1 r2 r3 m + KN 2 * w * cf_0_1 q1 q2 q3 r1 r2 r3 m.
  Proof.
    intros H. apply (csub_eq0 C c0 c1 cadd cmul csub copp Cth).
    assert (E : (cf_0_2 (z + q1) (z * z + q2) (z * z * z + q3) (w + r1) (w * w + r2) (w * w * w + r3) (1 + m)) - (cf_0_2 q1 q2 q3 r1 r2 r3 m + KN 0 * z * cf_0_2 q1 q2 q3 r1 r2 r3 m + KN 2 * w * cf_0_1 q1 q2 q3 r1 r2 r3 m)
               = (z * w - 1) * (0)).
    { unfold CF_0_2, CF_0_2, CF_0_1; cbn [kz kpos knat]; ring. }
    rewrite E, H. ring.
  Qed.

  Lemma step_1_1 q1 q2 q3 r1 r2 r3 m z w : z * w = 1 ->
    cf_1_1 (z + q1) (z * z + q2) (z * z * z + q3) (w + r1) (w * w + r2) (w * w * w + r3) (1 + m)
    = cf_1_1 q1 q2 q3 r1 r2 r3 m + KN 1 * z * cf_0_1 q1 q2 q3 r1 r2 r3 m + KN 1 * w * cf_1_0 q1 q2 q3 r1 r2 r3 m.
  Proof.
    intros H. apply (csub_eq0 C c0 c1 cadd cmul csub copp Cth).
    assert (E : (cf_1_1 (z + q1) (z * z + q2) (z * z * z + q3) (w + r1) (w * w + r2) (w * w * w + r3) (1 + m)) - (cf_1_1 q1 q2 q3 r1 r2 r3 m + KN 1 * z * cf_0_1 q1 q2 q3 r1 r2 r3 m + KN 1 * w * cf_1_0 q1 q2 q3 r1 r2 r3 m)
               = (z * w - 1) * (N 1)).
    { unfold CF_1_1, CF_0_1, CF_1_0; cbn [kz kpos knat]; ring. }
    rewrite E, H. ring.
  Qed.

  Lemma step_2_0 q1 q2 q3 r1 r2 r3 m z w : z * w = 1 ->
    cf_2_0 (z + q1) (z * z + q2) (z * z * z + q3) (w + r1) (w * w + r2) (w * w * w + r3) (1 + m)
    = cf_2_0 q1 q2 q3 r1 r2 r3 m + KN 2 * z * cf_1_0 q1 q2 q3 r1 r2 r3 m + KN 0 * w * cf_2_0 q1 q2 q3 r1 r2 r3 m.
  Proof.
    intros H. apply (csub_eq0 C c0 c1 cadd cmul csub copp Cth).
    assert (E : (cf_2_0 (z + q1) (z * z + q2) (z * z * z + q3) (w + r1) (w * w + r2) (w * w * w + r3) (1 + m)) - (cf_2_0 q1 q2 q3 r1 r2 r3 m + KN 2 * z * cf_1_0 q1 q2 q3 r1 r2 r3 m + KN 0 * w * cf_2_0 q1 q2 q3 r1 r2 r3 m)
               = (z * w - 1) * (0)).
    { unfold CF_2_0, CF_1_0, CF_2_0; cbn [kz kpos knat]; ring. }
    rewrite E, H. ring.
  Qed.

  Lemma step_0_3 q1 q2 q3 r1 r2 r3 m z w : z * w = 1 ->
    cf_0_3 (z + q1) (z * z + q2) (z * z * z + q3) (w + r1) (w * w + r2) (w * w * w + r3) (1 + m)
    = cf_0_3 q1 q2 q3 r1 r2 r3 m + KN 0 * z * cf_0_3 q1 q2 q3 r1 r2 r3 m + KN 3 * w * cf_0_2 q1 q2 q3 r1 r2 r3 m.
  Proof.
    intros H. apply (csub_eq0 C c0 c1 cadd cmul csub copp Cth).
    assert (E : (cf_0_3 (z + q1) (z * z + q2) (z * z * z + q3) (w + r1) (w * w + r2) (w * w * w + r3) (1 + m)) - (cf_0_3 q1 q2 q3 r1 r2 r3 m + KN 0 * z * cf_0_3 q1 q2 q3 r1 r2 r3 m + KN 3 * w * cf_0_2 q1 q2 q3 r1 r2 r3 m)
               = (z * w - 1) * (0)).
    { unfold CF_0_3, CF_0_3, CF_0_2; cbn [kz kpos knat]; ring. }
    rewrite E, H. ring.
  Qed.

  Lemma step_1_2 q1 q2 q3 r1 r2 r3 m z w : z * w = 1 ->
    cf_1_2 (z + q1) (z * z + q2) (z * z * z + q3) (w + r1) (w * w + r2) (w * w * w + r3) (1 + m)
    = cf_1_2 q1 q2 q3 r1 r2 r3 m + KN 1 * z * cf_0_2 q1 q2 q3 r1 r2 r3 m + KN 2 * w * cf_1_1 q1 q2 q3 r1 r2 r3 m.
  Proof.
    intros H. apply (csub_eq0 C c0 c1 cadd cmul csub copp Cth).
    assert (E : (cf_1_2 (z + q1) (z * z + q2) (z * z * z + q3) (w + r1) (w * w + r2) (w * w * w + r3) (1 + m)) - (cf_1_2 q1 q2 q3 r1 r2 r3 m + KN 1 * z * cf_0_2 q1 q2 q3 r1 r2 r3 m + KN 2 * w * cf_1_1 q1 q2 q3 r1 r2 r3 m)
               = (z * w - 1) * (N 2 * r1)).
    { unfold CF_1_2, CF_0_2, CF_1_1; cbn [kz kpos knat]; ring. }
    rewrite E, H. ring.
  Qed.

  Lemma step_2_1 q1 q2 q3 r1 r2 r3 m z w : z * w = 1 ->
    cf_2_1 (z + q1) (z * z + q2) (z * z * z + q3) (w + r1) (w * w + r2) (w * w * w + r3) (1 + m)
    = cf_2_1 q1 q2 q3 r1 r2 r3 m + KN 2 * z * cf_1_1 q1 q2 q3 r1 r2 r3 m + KN 1 * w * cf_2_0 q1 q2 q3 r1 r2 r3 m.
  Proof.
    intros H. apply (csub_eq0 C c0 c1 cadd cmul csub copp Cth).
    assert (E : (cf_2_1 (z + q1) (z * z + q2) (z * z * z + q3) (w + r1) (w * w + r2) (w * w * w + r3) (1 + m)) - (cf_2_1 q1 q2 q3 r1 r2 r3 m + KN 2 * z * cf_1_1 q1 q2 q3 r1 r2 r3 m + KN 1 * w * cf_2_0 q1 q2 q3 r1 r2 r3 m)
               = (z * w - 1) * (N 2 * q1)).
    { unfold CF_2_1, CF_1_1, CF_2_0; cbn [kz kpos knat]; ring. }
    rewrite E, H. ring.
  Qed.

  Lemma step_3_0 q1 q2 q3 r1 r2 r3 m z w : z * w = 1 ->
    cf_3_0 (z + q1) (z * z + q2) (z * z * z + q3) (w + r1) (w * w + r2) (w * w * w + r3) (1 + m)
    = cf_3_0 q1 q2 q3 r1 r2 r3 m + KN 3 * z * cf_2_0 q1 q2 q3 r1 r2 r3 m + KN 0 * w * cf_3_0 q1 q2 q3 r1 r2 r3 m.
  Proof.
    intros H. apply (csub_eq0 C c0 c1 cadd cmul csub copp Cth).
    assert (E : (cf_3_0 (z + q1) (z * z + q2) (z * z * z + q3) (w + r1) (w * w + r2) (w * w * w + r3) (1 + m)) - (cf_3_0 q1 q2 q3 r1 r2 r3 m + KN 3 * z * cf_2_0 q1 q2 q3 r1 r2 r3 m + KN 0 * w * cf_3_0 q1 q2 q3 r1 r2 r3 m)
               = (z * w - 1) * (0)).
    { unfold CF_3_0, CF_2_0, CF_3_0; cbn [kz kpos knat]; ring. }
    rewrite E, H. ring.
  Qed.

  Lemma step_1_3 q1 q2 q3 r1 r2 r3 m z w : z * w = 1 ->
    cf_1_3 (z + q1) (z * z + q2) (z * z * z + q3) (w + r1) (w * w + r2) (w * w * w + r3) (1 + m)
    = cf_1_3 q1 q2 q3 r1 r2 r3 m + KN 1 * z * cf_0_3 q1 q2 q3 r1 r2 r3 m + KN 3 * w * cf_1_2 q1 q2 q3 r1 r2 r3 m.
  Proof.
    intros H. apply (csub_eq0 C c0 c1 cadd cmul csub copp Cth).
    assert (E : (cf_1_3 (z + q1) (z * z + q2) (z * z * z + q3) (w + r1) (w * w + r2) (w * w * w + r3) (1 + m)) - (cf_1_3 q1 q2 q3 r1 r2 r3 m + KN 1 * z * cf_0_3 q1 q2 q3 r1 r2 r3 m + KN 3 * w * cf_1_2 q1 q2 q3 r1 r2 r3 m)
               = (z * w - 1) * (N 3 * r1 * r1 - N 3 * r2)).
    { unfold CF_1_3, CF_0_3, CF_1_2; cbn [kz kpos knat]; ring. }
    rewrite E, H. ring.
  Qed.

  Lemma step_2_2 q1 q2 q3 r1 r2 r3 m z w : z * w = 1 ->
    cf_2_2 (z + q1) (z * z + q2) (z * z * z + q3) (w + r1) (w * w + r2) (w * w * w + r3) (1 + m)
    = cf_2_2 q1 q2 q3 r1 r2 r3 m + KN 2 * z * cf_1_2 q1 q2 q3 r1 r2 r3 m + KN 2 * w * cf_2_1 q1 q2 q3 r1 r2 r3 m.
  Proof.
    intros H. apply (csub_eq0 C c0 c1 cadd cmul csub copp Cth).
    assert (E : (cf_2_2 (z + q1) (z * z + q2) (z * z * z + q3) (w + r1) (w * w + r2) (w * w * w + r3) (1 + m)) - (cf_2_2 q1 q2 q3 r1 r2 r3 m + KN 2 * z * cf_1_2 q1 q2 q3 r1 r2 r3 m + KN 2 * w * cf_2_1 q1 q2 q3 r1 r2 r3 m)
               = (z * w - 1) * (N 4 * q1 * r1 - N 4 * m + N 4)).
    { unfold CF_2_2, CF_1_2, CF_2_1; cbn [kz kpos knat]; ring. }
    rewrite E, H. ring.
  Qed.

  Lemma step_3_1 q1 q2 q3 r1 r2 r3 m z w : z * w = 1 ->
    cf_3_1 (z + q1) (z * z + q2) (z * z * z + q3) (w + r1) (w * w + r2) (w * w * w + r3) (1 + m)
    = cf_3_1 q1 q2 q3 r1 r2 r3 m + KN 3 * z * cf_2_1 q1 q2 q3 r1 r2 r3 m + KN 1 * w * cf_3_0 q1 q2 q3 r1 r2 r3 m.
  Proof.
    intros H. apply (csub_eq0 C c0 c1 cadd cmul csub copp Cth).
    assert (E : (cf_3_1 (z + q1) (z * z + q2) (z * z * z + q3) (w + r1) (w * w + r2) (w * w * w + r3) (1 + m)) - (cf_3_1 q1 q2 q3 r1 r2 r3 m + KN 3 * z * cf_2_1 q1 q2 q3 r1 r2 r3 m + KN 1 * w * cf_3_0 q1 q2 q3 r1 r2 r3 m)
               = (z * w - 1) * (N 3 * q1 * q1 - N 3 * q2)).
    { unfold CF_3_1, CF_2_1, CF_3_0; cbn [kz kpos knat]; ring. }
    rewrite E, H. ring.
  Qed.

  Lemma step_2_3 q1 q2 q3 r1 r2 r3 m z w : z * w = 1 ->
    cf_2_3 (z + q1) (z * z + q2) (z * z * z + q3) (w + r1) (w * w + r2) (w * w * w + r3) (1 + m)
    = cf_2_3 q1 q2 q3 r1 r2 r3 m + KN 2 * z * cf_1_3 q1 q2 q3 r1 r2 r3 m + KN 3 * w * cf_2_2 q1 q2 q3 r1 r2 r3 m.
  Proof.
    intros H. apply (csub_eq0 C c0 c1 cadd cmul csub copp Cth).
    assert (E : (cf_2_3 (z + q1) (z * z + q2) (z * z * z + q3) (w + r1) (w * w + r2) (w * w * w + r3) (1 + m)) - (cf_2_3 q1 q2 q3 r1 r2 r3 m + KN 2 * z * cf_1_3 q1 q2 q3 r1 r2 r3 m + KN 3 * w * cf_2_2 q1 q2 q3 r1 r2 r3 m)
               = (z * w - 1) * (N 6 * q1 * r1 * r1 - N 6 * q1 * r2 - N 12 * r1 * m + N 24 * r1)).
    { unfold CF_2_3, CF_1_3, CF_2_2; cbn [kz kpos knat]; ring. }
    rewrite E, H. ring.
  Qed.

  Lemma step_3_2 q1 q2 q3 r1 r2 r3 m z w : z * w = 1 ->
    cf_3_2 (z + q1) (z * z + q2) (z * z * z + q3) (w + r1) (w * w + r2) (w * w * w + r3) (1 + m)
    = cf_3_2 q1 q2 q3 r1 r2 r3 m + KN 3 * z * cf_2_2 q1 q2 q3 r1 r2 r3 m + KN 2 * w * cf_3_1 q1 q2 q3 r1 r2 r3 m.
  Proof.
    intros H. apply (csub_eq0 C c0 c1 cadd cmul csub copp Cth).
    assert (E : (cf_3_2 (z + q1) (z * z + q2) (z * z * z + q3) (w + r1) (w * w + r2) (w * w * w + r3) (1 + m)) - (cf_3_2 q1 q2 q3 r1 r2 r3 m + KN 3 * z * cf_2_2 q1 q2 q3 r1 r2 r3 m + KN 2 * w * cf_3_1 q1 q2 q3 r1 r2 r3 m)
               = (z * w - 1) * (N 6 * q1 * q1 * r1 - N 12 * q1 * m + N 24 * q1 - N 6 * q2 * r1)).
    { unfold CF_3_2, CF_2_2, CF_3_1; cbn [kz kpos knat]; ring. }
    rewrite E, H. ring.
  Qed.

  Lemma step_3_3 q1 q2 q3 r1 r2 r3 m z w : z * w = 1 ->
    cf_3_3 (z + q1) (z * z + q2) (z * z * z + q3) (w + r1) (w * w + r2) (w * w * w + r3) (1 + m)
    = cf_3_3 q1 q2 q3 r1 r2 r3 m + KN 3 * z * cf_2_3 q1 q2 q3 r1 r2 r3 m + KN 3 * w * cf_3_2 q1 q2 q3 r1 r2 r3 m.
  Proof.
    intros H. apply (csub_eq0 C c0 c1 cadd cmul csub copp Cth).
    assert (E : (cf_3_3 (z + q1) (z * z + q2) (z * z * z + q3) (w + r1) (w * w + r2) (w * w * w + r3) (1 + m)) - (cf_3_3 q1 q2 q3 r1 r2 r3 m + KN 3 * z * cf_2_3 q1 q2 q3 r1 r2 r3 m + KN 3 * w * cf_3_2 q1 q2 q3 r1 r2 r3 m)
               = (z * w - 1) * (N 9 * q1 * q1 * r1 * r1 - N 9 * q1 * q1 * r2 - N 36 * q1 * r1 * m + N 108 * q1 * r1 - N 9 * q2 * r1 * r1 + N 9 * q2 * r2 + N 18 * m * m - N 90 * m + N 72)).
    { unfold CF_3_3, CF_2_3, CF_3_2; cbn [kz kpos knat]; ring. }
    rewrite E, H. ring.
  Qed.

  Definition QS (l : list C) (f : C -> C -> C -> C -> C -> C -> C -> C) : C :=
    f (Q 1%nat l) (Q 2%nat l) (Q 3%nat l) (Qb 1%nat l) (Qb 2%nat l) (Qb 3%nat l) (KN (length l)).

  Lemma closed_0_0 : forall l, Forall U l -> DS 0 0 l = QS l cf_0_0.
  Proof. intros l _. unfold QS, CF_0_0. cbn [kz kpos]. reflexivity. Qed.

  Lemma closed_0_1 : forall l, Forall U l -> DS 0 1 l = QS l cf_0_1.
  Proof.
    induction l as [|z l IH]; intros H.
    - rewrite (dsum2_nil C c0 c1 cadd cmul cj). unfold QS, CF_0_1. cbn [psum map ksum length kz kpos knat]. ring.
    - inversion H as [|? ? Hz Hl]; subst. specialize (IH Hl).
      rewrite (dsum2_cons C c0 c1 cadd cmul csub copp cj Cth). cbn [pred]. rewrite !IH, (closed_0_0 l Hl).
      unfold QS. cbn [map length]. rewrite !(psum_cons C c0 c1 cadd cmul).
      symmetry. etransitivity; [| apply (step_0_1 _ _ _ _ _ _ _ z (cj z) Hz)].
      f_equal; cbn [kpow knat]; ring.
  Qed.

  Lemma closed_1_0 : forall l, Forall U l -> DS 1 0 l = QS l cf_1_0.
  Proof.
    induction l as [|z l IH]; intros H.
    - rewrite (dsum2_nil C c0 c1 cadd cmul cj). unfold QS, CF_1_0. cbn [psum map ksum length kz kpos knat]. ring.
    - inversion H as [|? ? Hz Hl]; subst. specialize (IH Hl).
      rewrite (dsum2_cons C c0 c1 cadd cmul csub copp cj Cth). cbn [pred]. rewrite !IH, (closed_0_0 l Hl).
      unfold QS. cbn [map length]. rewrite !(psum_cons C c0 c1 cadd cmul).
      symmetry. etransitivity; [| apply (step_1_0 _ _ _ _ _ _ _ z (cj z) Hz)].
      f_equal; cbn [kpow knat]; ring.
  Qed.

  Lemma closed_0_2 : forall l, Forall U l -> DS 0 2 l = QS l cf_0_2.
  Proof.
    induction l as [|z l IH]; intros H.
    - rewrite (dsum2_nil C c0 c1 cadd cmul cj). unfold QS, CF_0_2. cbn [psum map ksum length kz kpos knat]. ring.
    - inversion H as [|? ? Hz Hl]; subst. specialize (IH Hl).
      rewrite (dsum2_cons C c0 c1 cadd cmul csub copp cj Cth). cbn [pred]. rewrite !IH, (closed_0_1 l Hl).
      unfold QS. cbn [map length]. rewrite !(psum_cons C c0 c1 cadd cmul).
      symmetry. etransitivity; [| apply (step_0_2 _ _ _ _ _ _ _ z (cj z) Hz)].
      f_equal; cbn [kpow knat]; ring.
  Qed.

  Lemma closed_1_1 : forall l, Forall U l -> DS 1 1 l = QS l cf_1_1.
  Proof.
    induction l as [|z l IH]; intros H.
    - rewrite (dsum2_nil C c0 c1 cadd cmul cj). unfold QS, CF_1_1. cbn [psum map ksum length kz kpos knat]. ring.
    - inversion H as [|? ? Hz Hl]; subst. specialize (IH Hl).
      rewrite (dsum2_cons C c0 c1 cadd cmul csub copp cj Cth). cbn [pred]. rewrite !IH, (closed_0_1 l Hl), (closed_1_0 l Hl).
      unfold QS. cbn [map length]. rewrite !(psum_cons C c0 c1 cadd cmul).
      symmetry. etransitivity; [| apply (step_1_1 _ _ _ _ _ _ _ z (cj z) Hz)].
      f_equal; cbn [kpow knat]; ring.
  Qed.

  Lemma closed_2_0 : forall l, Forall U l -> DS 2 0 l = QS l cf_2_0.
  Proof.
    induction l as [|z l IH]; intros H.
    - rewrite (dsum2_nil C c0 c1 cadd cmul cj). unfold QS, CF_2_0. cbn [psum map ksum length kz kpos knat]. ring.
    - inversion H as [|? ? Hz Hl]; subst. specialize (IH Hl).
      rewrite (dsum2_cons C c0 c1 cadd cmul csub copp cj Cth). cbn [pred]. rewrite !IH, (closed_1_0 l Hl).
      unfold QS. cbn [map length]. rewrite !(psum_cons C c0 c1 cadd cmul).
      symmetry. etransitivity; [| apply (step_2_0 _ _ _ _ _ _ _ z (cj z) Hz)].
      f_equal; cbn [kpow knat]; ring.
  Qed.

  Lemma closed_0_3 : forall l, Forall U l -> DS 0 3 l = QS l cf_0_3.
  Proof.
    induction l as [|z l IH]; intros H.
    - rewrite (dsum2_nil C c0 c1 cadd cmul cj). unfold QS, CF_0_3. cbn [psum map ksum length kz kpos knat]. ring.
    - inversion H as [|? ? Hz Hl]; subst. specialize (IH Hl).
      rewrite (dsum2_cons C c0 c1 cadd cmul csub copp cj Cth). cbn [pred]. rewrite !IH, (closed_0_2 l Hl).
      unfold QS. cbn [map length]. rewrite !(psum_cons C c0 c1 cadd cmul).
      symmetry. etransitivity; [| apply (step_0_3 _ _ _ _ _ _ _ z (cj z) Hz)].
      f_equal; cbn [kpow knat]; ring.
  Qed.

  Lemma closed_1_2 : forall l, Forall U l -> DS 1 2 l = QS l cf_1_2.
  Proof.
    induction l as [|z l IH]; intros H.
    - rewrite (dsum2_nil C c0 c1 cadd cmul cj). unfold QS, CF_1_2. cbn [psum map ksum length kz kpos knat]. ring.
    - inversion H as [|? ? Hz Hl]; subst. specialize (IH Hl).
      rewrite (dsum2_cons C c0 c1 cadd cmul csub copp cj Cth). cbn [pred]. rewrite !IH, (closed_0_2 l Hl), (closed_1_1 l Hl).
      unfold QS. cbn [map length]. rewrite !(psum_cons C c0 c1 cadd cmul).
      symmetry. etransitivity; [| apply (step_1_2 _ _ _ _ _ _ _ z (cj z) Hz)].
      f_equal; cbn [kpow knat]; ring.
  Qed.

  Lemma closed_2_1 : forall l, Forall U l -> DS 2 1 l = QS l cf_2_1.
  Proof.
    induction l as [|z l IH]; intros H.
    - rewrite (dsum2_nil C c0 c1 cadd cmul cj). unfold QS, CF_2_1. cbn [psum map ksum length kz kpos knat]. ring.
    - inversion H as [|? ? Hz Hl]; subst. specialize (IH Hl).
      rewrite (dsum2_cons C c0 c1 cadd cmul csub copp cj Cth). cbn [pred]. rewrite !IH, (closed_1_1 l Hl), (closed_2_0 l Hl).
      unfold QS. cbn [map length]. rewrite !(psum_cons C c0 c1 cadd cmul).
      symmetry. etransitivity; [| apply (step_2_1 _ _ _ _ _ _ _ z (cj z) Hz)].
      f_equal; cbn [kpow knat]; ring.
  Qed.

  Lemma closed_3_0 : forall l, Forall U l -> DS 3 0 l = QS l cf_3_0.
  Proof.
    induction l as [|z l IH]; intros H.
    - rewrite (dsum2_nil C c0 c1 cadd cmul cj). unfold QS, CF_3_0. cbn [psum map ksum length kz kpos knat]. ring.
    - inversion H as [|? ? Hz Hl]; subst. specialize (IH Hl).
      rewrite (dsum2_cons C c0 c1 cadd cmul csub copp cj Cth). cbn [pred]. rewrite !IH, (closed_2_0 l Hl).
      unfold QS. cbn [map length]. rewrite !(psum_cons C c0 c1 cadd cmul).
      symmetry. etransitivity; [| apply (step_3_0 _ _ _ _ _ _ _ z (cj z) Hz)].
      f_equal; cbn [kpow knat]; ring.
  Qed.

  Lemma closed_1_3 : forall l, Forall U l -> DS 1 3 l = QS l cf_1_3.
  Proof.
    induction l as [|z l IH]; intros H.
    - rewrite (dsum2_nil C c0 c1 cadd cmul cj). unfold QS, CF_1_3. cbn [psum map ksum length kz kpos knat]. ring.
    - inversion H as [|? ? Hz Hl]; subst. specialize (IH Hl).
      rewrite (dsum2_cons C c0 c1 cadd cmul csub copp cj Cth). cbn [pred]. rewrite !IH, (closed_0_3 l Hl), (closed_1_2 l Hl).
      unfold QS. cbn [map length]. rewrite !(psum_cons C c0 c1 cadd cmul).
      symmetry. etransitivity; [| apply (step_1_3 _ _ _ _ _ _ _ z (cj z) Hz)].
      f_equal; cbn [kpow knat]; ring.
  Qed.

  Lemma closed_2_2 : forall l, Forall U l -> DS 2 2 l = QS l cf_2_2.
  Proof.
    induction l as [|z l IH]; intros H.
    - rewrite (dsum2_nil C c0 c1 cadd cmul cj). unfold QS, CF_2_2. cbn [psum map ksum length kz kpos knat]. ring.
    - inversion H as [|? ? Hz Hl]; subst. specialize (IH Hl).
      rewrite (dsum2_cons C c0 c1 cadd cmul csub copp cj Cth). cbn [pred]. rewrite !IH, (closed_1_2 l Hl), (closed_2_1 l Hl).
      unfold QS. cbn [map length]. rewrite !(psum_cons C c0 c1 cadd cmul).
      symmetry. etransitivity; [| apply (step_2_2 _ _ _ _ _ _ _ z (cj z) Hz)].
      f_equal; cbn [kpow knat]; ring.
  Qed.

  Lemma closed_3_1 : forall l, Forall U l -> DS 3 1 l = QS l cf_3_1.
  Proof.
    induction l as [|z l IH]; intros H.
    - rewrite (dsum2_nil C c0 c1 cadd cmul cj). unfold QS, CF_3_1. cbn [psum map ksum length kz kpos knat]. ring.
    - inversion H as [|? ? Hz Hl]; subst. specialize (IH Hl).
      rewrite (dsum2_cons C c0 c1 cadd cmul csub copp cj Cth). cbn [pred]. rewrite !IH, (closed_2_1 l Hl), (closed_3_0 l Hl).
      unfold QS. cbn [map length]. rewrite !(psum_cons C c0 c1 cadd cmul).
      symmetry. etransitivity; [| apply (step_3_1 _ _ _ _ _ _ _ z (cj z) Hz)].
      f_equal; cbn [kpow knat]; ring.
  Qed.

  Lemma closed_2_3 : forall l, Forall U l -> DS 2 3 l = QS l cf_2_3.
  Proof.
    induction l as [|z l IH]; intros H.
    - rewrite (dsum2_nil C c0 c1 cadd cmul cj). unfold QS, CF_2_3. cbn [psum map ksum length kz kpos knat]. ring.
    - inversion H as [|? ? Hz Hl]; subst. specialize (IH Hl).
      rewrite (dsum2_cons C c0 c1 cadd cmul csub copp cj Cth). cbn [pred]. rewrite !IH, (closed_1_3 l Hl), (closed_2_2 l Hl).
      unfold QS. cbn [map length]. rewrite !(psum_cons C c0 c1 cadd cmul).
      symmetry. etransitivity; [| apply (step_2_3 _ _ _ _ _ _ _ z (cj z) Hz)].
      f_equal; cbn [kpow knat]; ring.
  Qed.

  Lemma closed_3_2 : forall l, Forall U l -> DS 3 2 l = QS l cf_3_2.
  Proof.
    induction l as [|z l IH]; intros H.
    - rewrite (dsum2_nil C c0 c1 cadd cmul cj). unfold QS, CF_3_2. cbn [psum map ksum length kz kpos knat]. ring.
    - inversion H as [|? ? Hz Hl]; subst. specialize (IH Hl).
      rewrite (dsum2_cons C c0 c1 cadd cmul csub copp cj Cth). cbn [pred]. rewrite !IH, (closed_2_2 l Hl), (closed_3_1 l Hl).
      unfold QS. cbn [map length]. rewrite !(psum_cons C c0 c1 cadd cmul).
      symmetry. etransitivity; [| apply (step_3_2 _ _ _ _ _ _ _ z (cj z) Hz)].
      f_equal; cbn [kpow knat]; ring.
  Qed.

  Lemma closed_3_3 : forall l, Forall U l -> DS 3 3 l = QS l cf_3_3.
  Proof.
    induction l as [|z l IH]; intros H.
    - rewrite (dsum2_nil C c0 c1 cadd cmul cj). unfold QS, CF_3_3. cbn [psum map ksum length kz kpos knat]. ring.
    - inversion H as [|? ? Hz Hl]; subst. specialize (IH Hl).
      rewrite (dsum2_cons C c0 c1 cadd cmul csub copp cj Cth). cbn [pred]. rewrite !IH, (closed_2_3 l Hl), (closed_3_2 l Hl).
      unfold QS. cbn [map length]. rewrite !(psum_cons C c0 c1 cadd cmul).
      symmetry. etransitivity; [| apply (step_3_3 _ _ _ _ _ _ _ z (cj z) Hz)].
      f_equal; cbn [kpow knat]; ring.
  Qed.

  Lemma pstep_0_0_t p1 p2 s1 mp q1 q2 q3 r1 r2 r3 m z w : z * w = 1 ->
    pf_0_0 (z + p1) (z * z + p2) (w + s1) (1 + mp) (z + q1) (z * z + q2) (z * z * z + q3) (w + r1) (w * w + r2) (w * w * w + r3) (1 + m)
    = z * cf_0_0 q1 q2 q3 r1 r2 r3 m + pf_0_0 p1 p2 s1 mp q1 q2 q3 r1 r2 r3 m + KN 0 * z * pf_0_0 p1 p2 s1 mp q1 q2 q3 r1 r2 r3 m + KN 0 * w * pf_0_0 p1 p2 s1 mp q1 q2 q3 r1 r2 r3 m.
  Proof.
    intros H. apply (csub_eq0 C c0 c1 cadd cmul csub copp Cth).
    assert (E : (pf_0_0 (z + p1) (z * z + p2) (w + s1) (1 + mp) (z + q1) (z * z + q2) (z * z * z + q3) (w + r1) (w * w + r2) (w * w * w + r3) (1 + m)) - (z * cf_0_0 q1 q2 q3 r1 r2 r3 m + pf_0_0 p1 p2 s1 mp q1 q2 q3 r1 r2 r3 m + KN 0 * z * pf_0_0 p1 p2 s1 mp q1 q2 q3 r1 r2 r3 m + KN 0 * w * pf_0_0 p1 p2 s1 mp q1 q2 q3 r1 r2 r3 m)
               = (z * w - 1) * (0)).
    { unfold PF_0_0, PF_0_0, PF_0_0, CF_0_0; cbn [kz kpos knat]; ring. }
    rewrite E, H. ring.
  Qed.

  Lemma pstep_0_0_f p1 p2 s1 mp q1 q2 q3 r1 r2 r3 m z w : z * w = 1 ->
    pf_0_0 p1 p2 s1 mp (z + q1) (z * z + q2) (z * z * z + q3) (w + r1) (w * w + r2) (w * w * w + r3) (1 + m)
    = 0 + pf_0_0 p1 p2 s1 mp q1 q2 q3 r1 r2 r3 m + KN 0 * z * pf_0_0 p1 p2 s1 mp q1 q2 q3 r1 r2 r3 m + KN 0 * w * pf_0_0 p1 p2 s1 mp q1 q2 q3 r1 r2 r3 m.
  Proof.
    intros H. apply (csub_eq0 C c0 c1 cadd cmul csub copp Cth).
    assert (E : (pf_0_0 p1 p2 s1 mp (z + q1) (z * z + q2) (z * z * z + q3) (w + r1) (w * w + r2) (w * w * w + r3) (1 + m)) - (0 + pf_0_0 p1 p2 s1 mp q1 q2 q3 r1 r2 r3 m + KN 0 * z * pf_0_0 p1 p2 s1 mp q1 q2 q3 r1 r2 r3 m + KN 0 * w * pf_0_0 p1 p2 s1 mp q1 q2 q3 r1 r2 r3 m)
               = (z * w - 1) * (0)).
    { unfold PF_0_0, PF_0_0, PF_0_0, CF_0_0; cbn [kz kpos knat]; ring. }
    rewrite E, H. ring.
  Qed.

  Lemma pstep_0_1_t p1 p2 s1 mp q1 q2 q3 r1 r2 r3 m z w : z * w = 1 ->
    pf_0_1 (z + p1) (z * z + p2) (w + s1) (1 + mp) (z + q1) (z * z + q2) (z * z * z + q3) (w + r1) (w * w + r2) (w * w * w + r3) (1 + m)
    = z * cf_0_1 q1 q2 q3 r1 r2 r3 m + pf_0_1 p1 p2 s1 mp q1 q2 q3 r1 r2 r3 m + KN 0 * z * pf_0_1 p1 p2 s1 mp q1 q2 q3 r1 r2 r3 m + KN 1 * w * pf_0_0 p1 p2 s1 mp q1 q2 q3 r1 r2 r3 m.
  Proof.
    intros H. apply (csub_eq0 C c0 c1 cadd cmul csub copp Cth).
    assert (E : (pf_0_1 (z + p1) (z * z + p2) (w + s1) (1 + mp) (z + q1) (z * z + q2) (z * z * z + q3) (w + r1) (w * w + r2) (w * w * w + r3) (1 + m)) - (z * cf_0_1 q1 q2 q3 r1 r2 r3 m + pf_0_1 p1 p2 s1 mp q1 q2 q3 r1 r2 r3 m + KN 0 * z * pf_0_1 p1 p2 s1 mp q1 q2 q3 r1 r2 r3 m + KN 1 * w * pf_0_0 p1 p2 s1 mp q1 q2 q3 r1 r2 r3 m)
               = (z * w - 1) * (N 1)).
    { unfold PF_0_1, PF_0_1, PF_0_0, CF_0_1; cbn [kz kpos knat]; ring. }
    rewrite E, H. ring.
  Qed.

  Lemma pstep_0_1_f p1 p2 s1 mp q1 q2 q3 r1 r2 r3 m z w : z * w = 1 ->
    pf_0_1 p1 p2 s1 mp (z + q1) (z * z + q2) (z * z * z + q3) (w + r1) (w * w + r2) (w * w * w + r3) (1 + m)
    = 0 + pf_0_1 p1 p2 s1 mp q1 q2 q3 r1 r2 r3 m + KN 0 * z * pf_0_1 p1 p2 s1 mp q1 q2 q3 r1 r2 r3 m + KN 1 * w * pf_0_0 p1 p2 s1 mp q1 q2 q3 r1 r2 r3 m.
  Proof.
    intros H. apply (csub_eq0 C c0 c1 cadd cmul csub copp Cth).
    assert (E : (pf_0_1 p1 p2 s1 mp (z + q1) (z * z + q2) (z * z * z + q3) (w + r1) (w * w + r2) (w * w * w + r3) (1 + m)) - (0 + pf_0_1 p1 p2 s1 mp q1 q2 q3 r1 r2 r3 m + KN 0 * z * pf_0_1 p1 p2 s1 mp q1 q2 q3 r1 r2 r3 m + KN 1 * w * pf_0_0 p1 p2 s1 mp q1 q2 q3 r1 r2 r3 m)
               = (z * w - 1) * (0)).
    { unfold PF_0_1, PF_0_1, PF_0_0, CF_0_1; cbn [kz kpos knat]; ring. }
    rewrite E, H. ring.
  Qed.

  Lemma pstep_1_0_t p1 p2 s1 mp q1 q2 q3 r1 r2 r3 m z w : z * w = 1 ->
    pf_1_0 (z + p1) (z * z + p2) (w + s1) (1 + mp) (z + q1) (z * z + q2) (z * z * z + q3) (w + r1) (w * w + r2) (w * w * w + r3) (1 + m)
    = z * cf_1_0 q1 q2 q3 r1 r2 r3 m + pf_1_0 p1 p2 s1 mp q1 q2 q3 r1 r2 r3 m + KN 1 * z * pf_0_0 p1 p2 s1 mp q1 q2 q3 r1 r2 r3 m + KN 0 * w * pf_1_0 p1 p2 s1 mp q1 q2 q3 r1 r2 r3 m.
  Proof.
    intros H. apply (csub_eq0 C c0 c1 cadd cmul csub copp Cth).
    assert (E : (pf_1_0 (z + p1) (z * z + p2) (w + s1) (1 + mp) (z + q1) (z * z + q2) (z * z * z + q3) (w + r1) (w * w + r2) (w * w * w + r3) (1 + m)) - (z * cf_1_0 q1 q2 q3 r1 r2 r3 m + pf_1_0 p1 p2 s1 mp q1 q2 q3 r1 r2 r3 m + KN 1 * z * pf_0_0 p1 p2 s1 mp q1 q2 q3 r1 r2 r3 m + KN 0 * w * pf_1_0 p1 p2 s1 mp q1 q2 q3 r1 r2 r3 m)
               = (z * w - 1) * (0)).
    { unfold PF_1_0, PF_0_0, PF_1_0, CF_1_0; cbn [kz kpos knat]; ring. }
    rewrite E, H. ring.
  Qed.

  Lemma pstep_1_0_f p1 p2 s1 mp q1 q2 q3 r1 r2 r3 m z w : z * w = 1 ->
    pf_1_0 p1 p2 s1 mp (z + q1) (z * z + q2) (z * z * z + q3) (w + r1) (w * w + r2) (w * w * w + r3) (1 + m)
    = 0 + pf_1_0 p1 p2 s1 mp q1 q2 q3 r1 r2 r3 m + KN 1 * z * pf_0_0 p1 p2 s1 mp q1 q2 q3 r1 r2 r3 m + KN 0 * w * pf_1_0 p1 p2 s1 mp q1 q2 q3 r1 r2 r3 m.
  Proof.
    intros H. apply (csub_eq0 C c0 c1 cadd cmul csub copp Cth).
    assert (E : (pf_1_0 p1 p2 s1 mp (z + q1) (z * z + q2) (z * z * z + q3) (w + r1) (w * w + r2) (w * w * w + r3) (1 + m)) - (0 + pf_1_0 p1 p2 s1 mp q1 q2 q3 r1 r2 r3 m + KN 1 * z * pf_0_0 p1 p2 s1 mp q1 q2 q3 r1 r2 r3 m + KN 0 * w * pf_1_0 p1 p2 s1 mp q1 q2 q3 r1 r2 r3 m)
               = (z * w - 1) * (0)).
    { unfold PF_1_0, PF_0_0, PF_1_0, CF_1_0; cbn [kz kpos knat]; ring. }
    rewrite E, H. ring.
  Qed.

  Lemma pstep_0_2_t p1 p2 s1 mp q1 q2 q3 r1 r2 r3 m z w : z * w = 1 ->
    pf_0_2 (z + p1) (z * z + p2) (w + s1) (1 + mp) (z + q1) (z * z + q2) (z * z * z + q3) (w + r1) (w * w + r2) (w * w * w + r3) (1 + m)
    = z * cf_0_2 q1 q2 q3 r1 r2 r3 m + pf_0_2 p1 p2 s1 mp q1 q2 q3 r1 r2 r3 m + KN 0 * z * pf_0_2 p1 p2 s1 mp q1 q2 q3 r1 r2 r3 m + KN 2 * w * pf_0_1 p1 p2 s1 mp q1 q2 q3 r1 r2 r3 m.
  Proof.
    intros H. apply (csub_eq0 C c0 c1 cadd cmul csub copp Cth).
    assert (E : (pf_0_2 (z + p1) (z * z + p2) (w + s1) (1 + mp) (z + q1) (z * z + q2) (z * z * z + q3) (w + r1) (w * w + r2) (w * w * w + r3) (1 + m)) - (z * cf_0_2 q1 q2 q3 r1 r2 r3 m + pf_0_2 p1 p2 s1 mp q1 q2 q3 r1 r2 r3 m + KN 0 * z * pf_0_2 p1 p2 s1 mp q1 q2 q3 r1 r2 r3 m + KN 2 * w * pf_0_1 p1 p2 s1 mp q1 q2 q3 r1 r2 r3 m)
               = (z * w - 1) * (N 2 * r1)).
    { unfold PF_0_2, PF_0_2, PF_0_1, CF_0_2; cbn [kz kpos knat]; ring. }
    rewrite E, H. ring.
  Qed.

  Lemma pstep_0_2_f p1 p2 s1 mp q1 q2 q3 r1 r2 r3 m z w : z * w = 1 ->
    pf_0_2 p1 p2 s1 mp (z + q1) (z * z + q2) (z * z * z + q3) (w + r1) (w * w + r2) (w * w * w + r3) (1 + m)
    = 0 + pf_0_2 p1 p2 s1 mp q1 q2 q3 r1 r2 r3 m + KN 0 * z * pf_0_2 p1 p2 s1 mp q1 q2 q3 r1 r2 r3 m + KN 2 * w * pf_0_1 p1 p2 s1 mp q1 q2 q3 r1 r2 r3 m.
  Proof.
    intros H. apply (csub_eq0 C c0 c1 cadd cmul csub copp Cth).
    assert (E : (pf_0_2 p1 p2 s1 mp (z + q1) (z * z + q2) (z * z * z + q3) (w + r1) (w * w + r2) (w * w * w + r3) (1 + m)) - (0 + pf_0_2 p1 p2 s1 mp q1 q2 q3 r1 r2 r3 m + KN 0 * z * pf_0_2 p1 p2 s1 mp q1 q2 q3 r1 r2 r3 m + KN 2 * w * pf_0_1 p1 p2 s1 mp q1 q2 q3 r1 r2 r3 m)
               = (z * w - 1) * (0)).
    { unfold PF_0_2, PF_0_2, PF_0_1, CF_0_2; cbn [kz kpos knat]; ring. }
    rewrite E, H. ring.
  Qed.

  Lemma pstep_1_1_t p1 p2 s1 mp q1 q2 q3 r1 r2 r3 m z w : z * w = 1 ->
    pf_1_1 (z + p1) (z * z + p2) (w + s1) (1 + mp) (z + q1) (z * z + q2) (z * z * z + q3) (w + r1) (w * w + r2) (w * w * w + r3) (1 + m)
    = z * cf_1_1 q1 q2 q3 r1 r2 r3 m + pf_1_1 p1 p2 s1 mp q1 q2 q3 r1 r2 r3 m + KN 1 * z * pf_0_1 p1 p2 s1 mp q1 q2 q3 r1 r2 r3 m + KN 1 * w * pf_1_0 p1 p2 s1 mp q1 q2 q3 r1 r2 r3 m.
  Proof.
    intros H. apply (csub_eq0 C c0 c1 cadd cmul csub copp Cth).
    assert (E : (pf_1_1 (z + p1) (z * z + p2) (w + s1) (1 + mp) (z + q1) (z * z + q2) (z * z * z + q3) (w + r1) (w * w + r2) (w * w * w + r3) (1 + m)) - (z * cf_1_1 q1 q2 q3 r1 r2 r3 m + pf_1_1 p1 p2 s1 mp q1 q2 q3 r1 r2 r3 m + KN 1 * z * pf_0_1 p1 p2 s1 mp q1 q2 q3 r1 r2 r3 m + KN 1 * w * pf_1_0 p1 p2 s1 mp q1 q2 q3 r1 r2 r3 m)
               = (z * w - 1) * (p1 + q1)).
    { unfold PF_1_1, PF_0_1, PF_1_0, CF_1_1; cbn [kz kpos knat]; ring. }
    rewrite E, H. ring.
  Qed.

  Lemma pstep_1_1_f p1 p2 s1 mp q1 q2 q3 r1 r2 r3 m z w : z * w = 1 ->
    pf_1_1 p1 p2 s1 mp (z + q1) (z * z + q2) (z * z * z + q3) (w + r1) (w * w + r2) (w * w * w + r3) (1 + m)
    = 0 + pf_1_1 p1 p2 s1 mp q1 q2 q3 r1 r2 r3 m + KN 1 * z * pf_0_1 p1 p2 s1 mp q1 q2 q3 r1 r2 r3 m + KN 1 * w * pf_1_0 p1 p2 s1 mp q1 q2 q3 r1 r2 r3 m.
  Proof.
    intros H. apply (csub_eq0 C c0 c1 cadd cmul csub copp Cth).
    assert (E : (pf_1_1 p1 p2 s1 mp (z + q1) (z * z + q2) (z * z * z + q3) (w + r1) (w * w + r2) (w * w * w + r3) (1 + m)) - (0 + pf_1_1 p1 p2 s1 mp q1 q2 q3 r1 r2 r3 m + KN 1 * z * pf_0_1 p1 p2 s1 mp q1 q2 q3 r1 r2 r3 m + KN 1 * w * pf_1_0 p1 p2 s1 mp q1 q2 q3 r1 r2 r3 m)
               = (z * w - 1) * (p1)).
    { unfold PF_1_1, PF_0_1, PF_1_0, CF_1_1; cbn [kz kpos knat]; ring. }
    rewrite E, H. ring.
  Qed.

  Lemma pstep_1_2_t p1 p2 s1 mp q1 q2 q3 r1 r2 r3 m z w : z * w = 1 ->
    pf_1_2 (z + p1) (z * z + p2) (w + s1) (1 + mp) (z + q1) (z * z + q2) (z * z * z + q3) (w + r1) (w * w + r2) (w * w * w + r3) (1 + m)
    = z * cf_1_2 q1 q2 q3 r1 r2 r3 m + pf_1_2 p1 p2 s1 mp q1 q2 q3 r1 r2 r3 m + KN 1 * z * pf_0_2 p1 p2 s1 mp q1 q2 q3 r1 r2 r3 m + KN 2 * w * pf_1_1 p1 p2 s1 mp q1 q2 q3 r1 r2 r3 m.
  Proof.
    intros H. apply (csub_eq0 C c0 c1 cadd cmul csub copp Cth).
    assert (E : (pf_1_2 (z + p1) (z * z + p2) (w + s1) (1 + mp) (z + q1) (z * z + q2) (z * z * z + q3) (w + r1) (w * w + r2) (w * w * w + r3) (1 + m)) - (z * cf_1_2 q1 q2 q3 r1 r2 r3 m + pf_1_2 p1 p2 s1 mp q1 q2 q3 r1 r2 r3 m + KN 1 * z * pf_0_2 p1 p2 s1 mp q1 q2 q3 r1 r2 r3 m + KN 2 * w * pf_1_1 p1 p2 s1 mp q1 q2 q3 r1 r2 r3 m)
               = (z * w - 1) * (N 2 * p1 * r1 - N 2 * mp + N 2 * q1 * r1 - N 2 * m + N 4)).
    { unfold PF_1_2, PF_0_2, PF_1_1, CF_1_2; cbn [kz kpos knat]; ring. }
    rewrite E, H. ring.
  Qed.

  Lemma pstep_1_2_f p1 p2 s1 mp q1 q2 q3 r1 r2 r3 m z w : z * w = 1 ->
    pf_1_2 p1 p2 s1 mp (z + q1) (z * z + q2) (z * z * z + q3) (w + r1) (w * w + r2) (w * w * w + r3) (1 + m)
    = 0 + pf_1_2 p1 p2 s1 mp q1 q2 q3 r1 r2 r3 m + KN 1 * z * pf_0_2 p1 p2 s1 mp q1 q2 q3 r1 r2 r3 m + KN 2 * w * pf_1_1 p1 p2 s1 mp q1 q2 q3 r1 r2 r3 m.
  Proof.
    intros H. apply (csub_eq0 C c0 c1 cadd cmul csub copp Cth).
    assert (E : (pf_1_2 p1 p2 s1 mp (z + q1) (z * z + q2) (z * z * z + q3) (w + r1) (w * w + r2) (w * w * w + r3) (1 + m)) - (0 + pf_1_2 p1 p2 s1 mp q1 q2 q3 r1 r2 r3 m + KN 1 * z * pf_0_2 p1 p2 s1 mp q1 q2 q3 r1 r2 r3 m + KN 2 * w * pf_1_1 p1 p2 s1 mp q1 q2 q3 r1 r2 r3 m)
               = (z * w - 1) * (N 2 * p1 * r1 - N 2 * mp)).
    { unfold PF_1_2, PF_0_2, PF_1_1, CF_1_2; cbn [kz kpos knat]; ring. }
    rewrite E, H. ring.
  Qed.

  Definition PS (l : list (C * bool)) (f : C -> C -> C -> C -> C -> C -> C -> C -> C -> C -> C -> C) : C :=
    f (Q 1%nat (fl l)) (Q 2%nat (fl l)) (Qb 1%nat (fl l)) (KN (length (fl l)))
      (Q 1%nat (map fst l)) (Q 2%nat (map fst l)) (Q 3%nat (map fst l))
      (Qb 1%nat (map fst l)) (Qb 2%nat (map fst l)) (Qb 3%nat (map fst l)) (KN (length (map fst l))).

  Lemma pclosed_0_0 : forall l, Forall U (map fst l) -> PD 0 0 l = PS l pf_0_0.
  Proof.
    induction l as [|[z f] l IH]; intros H.
    - rewrite (pdsum2_nil C c0 c1 cadd cmul cj). unfold PS, PF_0_0, fl. cbn [psum map filter ksum length kz kpos knat]. ring.
    - cbn [map fst] in H. inversion H as [|? ? Hz Hl]; subst. specialize (IH Hl).
      rewrite (pdsum2_cons C c0 c1 cadd cmul csub copp cj Cth). cbn [pred]. rewrite !IH.
      rewrite (closed_0_0 (map fst l) Hl).
      unfold PS, QS. rewrite fl_cons. destruct f; cbn [map fst length]; rewrite !(psum_cons C c0 c1 cadd cmul); symmetry.
      + etransitivity; [| apply (pstep_0_0_t _ _ _ _ _ _ _ _ _ _ _ z (cj z) Hz)].
        f_equal; cbn [kpow knat]; ring.
      + etransitivity; [| apply (pstep_0_0_f _ _ _ _ _ _ _ _ _ _ _ z (cj z) Hz)].
        f_equal; cbn [kpow knat]; ring.
  Qed.

  Lemma pclosed_0_1 : forall l, Forall U (map fst l) -> PD 0 1 l = PS l pf_0_1.
  Proof.
    induction l as [|[z f] l IH]; intros H.
    - rewrite (pdsum2_nil C c0 c1 cadd cmul cj). unfold PS, PF_0_1, fl. cbn [psum map filter ksum length kz kpos knat]. ring.
    - cbn [map fst] in H. inversion H as [|? ? Hz Hl]; subst. specialize (IH Hl).
      rewrite (pdsum2_cons C c0 c1 cadd cmul csub copp cj Cth). cbn [pred]. rewrite !IH, (pclosed_0_0 l Hl).
      rewrite (closed_0_1 (map fst l) Hl).
      unfold PS, QS. rewrite fl_cons. destruct f; cbn [map fst length]; rewrite !(psum_cons C c0 c1 cadd cmul); symmetry.
      + etransitivity; [| apply (pstep_0_1_t _ _ _ _ _ _ _ _ _ _ _ z (cj z) Hz)].
        f_equal; cbn [kpow knat]; ring.
      + etransitivity; [| apply (pstep_0_1_f _ _ _ _ _ _ _ _ _ _ _ z (cj z) Hz)].
        f_equal; cbn [kpow knat]; ring.
  Qed.

  Lemma pclosed_1_0 : forall l, Forall U (map fst l) -> PD 1 0 l = PS l pf_1_0.
  Proof.
    induction l as [|[z f] l IH]; intros H.
    - rewrite (pdsum2_nil C c0 c1 cadd cmul cj). unfold PS, PF_1_0, fl. cbn [psum map filter ksum length kz kpos knat]. ring.
    - cbn [map fst] in H. inversion H as [|? ? Hz Hl]; subst. specialize (IH Hl).
      rewrite (pdsum2_cons C c0 c1 cadd cmul csub copp cj Cth). cbn [pred]. rewrite !IH, (pclosed_0_0 l Hl).
      rewrite (closed_1_0 (map fst l) Hl).
      unfold PS, QS. rewrite fl_cons. destruct f; cbn [map fst length]; rewrite !(psum_cons C c0 c1 cadd cmul); symmetry.
      + etransitivity; [| apply (pstep_1_0_t _ _ _ _ _ _ _ _ _ _ _ z (cj z) Hz)].
        f_equal; cbn [kpow knat]; ring.
      + etransitivity; [| apply (pstep_1_0_f _ _ _ _ _ _ _ _ _ _ _ z (cj z) Hz)].
        f_equal; cbn [kpow knat]; ring.
  Qed.

  Lemma pclosed_0_2 : forall l, Forall U (map fst l) -> PD 0 2 l = PS l pf_0_2.
  Proof.
    induction l as [|[z f] l IH]; intros H.
    - rewrite (pdsum2_nil C c0 c1 cadd cmul cj). unfold PS, PF_0_2, fl. cbn [psum map filter ksum length kz kpos knat]. ring.
    - cbn [map fst] in H. inversion H as [|? ? Hz Hl]; subst. specialize (IH Hl).
      rewrite (pdsum2_cons C c0 c1 cadd cmul csub copp cj Cth). cbn [pred]. rewrite !IH, (pclosed_0_1 l Hl).
      rewrite (closed_0_2 (map fst l) Hl).
      unfold PS, QS. rewrite fl_cons. destruct f; cbn [map fst length]; rewrite !(psum_cons C c0 c1 cadd cmul); symmetry.
      + etransitivity; [| apply (pstep_0_2_t _ _ _ _ _ _ _ _ _ _ _ z (cj z) Hz)].
        f_equal; cbn [kpow knat]; ring.
      + etransitivity; [| apply (pstep_0_2_f _ _ _ _ _ _ _ _ _ _ _ z (cj z) Hz)].
        f_equal; cbn [kpow knat]; ring.
  Qed.

  Lemma pclosed_1_1 : forall l, Forall U (map fst l) -> PD 1 1 l = PS l pf_1_1.
  Proof.
    induction l as [|[z f] l IH]; intros H.
    - rewrite (pdsum2_nil C c0 c1 cadd cmul cj). unfold PS, PF_1_1, fl. cbn [psum map filter ksum length kz kpos knat]. ring.
    - cbn [map fst] in H. inversion H as [|? ? Hz Hl]; subst. specialize (IH Hl).
      rewrite (pdsum2_cons C c0 c1 cadd cmul csub copp cj Cth). cbn [pred]. rewrite !IH, (pclosed_0_1 l Hl), (pclosed_1_0 l Hl).
      rewrite (closed_1_1 (map fst l) Hl).
      unfold PS, QS. rewrite fl_cons. destruct f; cbn [map fst length]; rewrite !(psum_cons C c0 c1 cadd cmul); symmetry.
      + etransitivity; [| apply (pstep_1_1_t _ _ _ _ _ _ _ _ _ _ _ z (cj z) Hz)].
        f_equal; cbn [kpow knat]; ring.
      + etransitivity; [| apply (pstep_1_1_f _ _ _ _ _ _ _ _ _ _ _ z (cj z) Hz)].
        f_equal; cbn [kpow knat]; ring.
  Qed.

  Lemma pclosed_1_2 : forall l, Forall U (map fst l) -> PD 1 2 l = PS l pf_1_2.
  Proof.
    induction l as [|[z f] l IH]; intros H.
    - rewrite (pdsum2_nil C c0 c1 cadd cmul cj). unfold PS, PF_1_2, fl. cbn [psum map filter ksum length kz kpos knat]. ring.
    - cbn [map fst] in H. inversion H as [|? ? Hz Hl]; subst. specialize (IH Hl).
      rewrite (pdsum2_cons C c0 c1 cadd cmul csub copp cj Cth). cbn [pred]. rewrite !IH, (pclosed_0_2 l Hl), (pclosed_1_1 l Hl).
      rewrite (closed_1_2 (map fst l) Hl).
      unfold PS, QS. rewrite fl_cons. destruct f; cbn [map fst length]; rewrite !(psum_cons C c0 c1 cadd cmul); symmetry.
      + etransitivity; [| apply (pstep_1_2_t _ _ _ _ _ _ _ _ _ _ _ z (cj z) Hz)].
        f_equal; cbn [kpow knat]; ring.
      + etransitivity; [| apply (pstep_1_2_f _ _ _ _ _ _ _ _ _ _ _ z (cj z) Hz)].
        f_equal; cbn [kpow knat]; ring.
  Qed.

End Closed.

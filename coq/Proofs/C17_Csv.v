(* C17: load_from_csv (save_to_csv L) = L from the round-trip law of the number format. *)
From Coq Require Import List ZArith QArith Qround Bool Lia.
From SX Require Import Lib.Py Lib.QCheck Model.Lattice.
Import ListNotations.
Local Open Scope nat_scope.

Lemma flat_map_length_const {A B} (f : A -> list B) m l :
  (forall a, length (f a) = m) -> length (flat_map f l) = length l * m.
Proof.
  intros H. induction l as [|a t IH]; [reflexivity|]. simpl. rewrite app_length, H, IH. reflexivity.
Qed.

Lemma nth_flat_map_seq {A} (f : nat -> list A) m d : (forall i, length (f i) = m) ->
  forall n s i j, i < n -> j < m -> nth (i * m + j) (flat_map f (seq s n)) d = nth j (f (s + i)) d.
Proof.
  intros H. induction n as [|n IH]; intros s i j Hi Hj; [lia|].
  simpl. destruct i as [|i].
  - rewrite app_nth1 by (rewrite H; lia). now rewrite Nat.add_0_r.
  - rewrite app_nth2 by (rewrite H; lia). rewrite H.
    replace (S i * m + j - m) with (i * m + j) by lia.
    rewrite IH by lia. f_equal. f_equal. lia.
Qed.

Lemma flatten_length nx ny nz g : length (flatten (nx, ny, nz) g) = nx * ny * nz.
Proof.
  unfold flatten. rewrite (flat_map_length_const _ (ny * nz)).
  - rewrite seq_length. lia.
  - intros i. rewrite (flat_map_length_const _ nz).
    + now rewrite seq_length.
    + intros j. now rewrite map_length, seq_length.
Qed.

Lemma flatten_nth nx ny nz g i j k : i < nx -> j < ny -> k < nz ->
  nth ((i * ny + j) * nz + k) (flatten (nx, ny, nz) g) NaN = g i j k.
Proof.
  intros Hi Hj Hk. unfold flatten.
  replace ((i * ny + j) * nz + k) with (i * (ny * nz) + (j * nz + k)) by lia.
  rewrite (nth_flat_map_seq _ (ny * nz)).
  - rewrite (nth_flat_map_seq _ nz).
    + simpl. rewrite (nth_indep _ NaN (g i j 0)) by (rewrite map_length, seq_length; lia).
      rewrite (map_nth (fun k => g i j k)). now rewrite seq_nth.
    + intros a. now rewrite map_length, seq_length.
    + assumption.
    + assumption.
  - intros a. rewrite (flat_map_length_const _ nz).
    + now rewrite seq_length.
    + intros b. now rewrite map_length, seq_length.
  - assumption.
  - nia.
Qed.

Lemma to_int_of_nat n : to_int (of_nat n) = Ok (Z.of_nat n).
Proof.
  unfold to_int, of_nat, Qtrunc.
  assert (E : Qle_bool 0 (inject_Z (Z.of_nat n)) = true).
  { apply Qle_bool_iff. change 0%Q with (inject_Z 0). rewrite <- Zle_Qle. lia. }
  rewrite E. now rewrite Qfloor_Z.
Qed.

Section CsvProofs.
  Variable tok : Type.
  Variable fmt : fv -> tok.
  Variable parse : tok -> fv.
  (* the law of savetxt's "%.18e" and loadtxt's float(): 19 significant digits identify a double *)
  Hypothesis roundtrip : forall d, parse (fmt d) = d.

  Lemma parse_fmt l : map parse (map fmt l) = l.
  Proof. rewrite map_map. rewrite (map_ext _ (fun x => x)) by apply roundtrip. apply map_id. Qed.

  Theorem csv_roundtrip (s : pstate) : length (ext s) = 6 ->
    exists s', load tok parse (save tok fmt s) = Ok s'
      /\ ext s' = ext s /\ cnt s' = cnt s
      /\ forall i j k, i < fst (fst (cnt s)) -> j < snd (fst (cnt s)) -> k < snd (cnt s) ->
           pgrid s' i j k = pgrid s i j k.
  Proof.
    destruct s as [e [[nx ny] nz] g]. cbn [ext cnt pgrid fst snd]. intros He.
    destruct e as [|a [|b [|c [|d [|e' [|f [|? ?]]]]]]]; try discriminate.
    unfold load, save. cbn [ext cnt pgrid]. rewrite parse_fmt.
    cbn [app firstn skipn].
    rewrite !to_int_of_nat. simpl rbind.
    assert (N : ((Z.of_nat nx <? 0)%Z || (Z.of_nat ny <? 0)%Z || (Z.of_nat nz <? 0)%Z) = false).
    { rewrite !orb_false_iff. repeat split; apply Z.ltb_ge; lia. }
    rewrite N, !Nat2Z.id.
    pose proof (flatten_length nx ny nz g) as FL. unfold flatten in FL. rewrite FL, Nat.eqb_refl.
    simpl negb. cbv iota.
    eexists. split; [reflexivity|]. cbn [ext cnt pgrid]. repeat split.
    intros i j k Hi Hj Hk. exact (flatten_nth nx ny nz g i j k Hi Hj Hk).
  Qed.
End CsvProofs.

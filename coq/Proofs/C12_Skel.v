(* C12 - invariance of the common estimator skeleton (Model/FlowSP.v, Section Skeleton):
   if corresponding events have the same resolution ingredient [qual] and the same multiset of
   (particle weight, observable) pairs, and the events are reordered, the result is the same. *)
From Coq Require Import List ZArith Ring Ring_theory Arith Lia Bool Permutation.
From SX Require Import Lib.KRing Lib.Cpx Model.FlowRP Model.FlowSP.
Import ListNotations.

Section Common.
  Variable K : Type.
  Variables (k0 k1 : K) (kadd kmul ksub : K -> K -> K) (kopp : K -> K).
  Hypothesis Kth : ring_theory k0 k1 kadd kmul ksub kopp (@eq K).
  Add Ring KringC12 : Kth.
  Notation sum := (ksum k0 kadd).
  Notation C := (cpx K).
  Notation Csum := (csum K k0 kadd).
  Notation Cadd := (cadd K kadd).
  Notation Cmul := (cmul K kadd kmul ksub).

  Lemma ksum_perm l l' : Permutation l l' -> sum l = sum l'.
  Proof. induction 1; cbn [ksum]; [reflexivity | rewrite IHPermutation; reflexivity | ring | congruence]. Qed.

  Lemma ksum_map_perm {A} (f : A -> K) l l' : Permutation l l' -> sum (map f l) = sum (map f l').
  Proof. intros H. apply ksum_perm, Permutation_map, H. Qed.

  Lemma cadd_comm3 (a b c : C) : Cadd a (Cadd b c) = Cadd b (Cadd a c).
  Proof. apply (cpx_ext K); cbv [Cpx.cadd Cpx.re Cpx.im fst snd]; ring. Qed.

  Lemma csum_perm l l' : Permutation l l' -> Csum l = Csum l'.
  Proof.
    unfold csum. induction 1; cbn [ksum]; [reflexivity | rewrite IHPermutation; reflexivity | apply cadd_comm3 | congruence].
  Qed.

  Lemma csum_map_perm {A} (f : A -> C) l l' : Permutation l l' -> Csum (map f l) = Csum (map f l').
  Proof. intros H. apply csum_perm, Permutation_map, H. Qed.

  Lemma perm_filter {A} (f : A -> bool) l l' : Permutation l l' -> Permutation (filter f l) (filter f l').
  Proof.
    induction 1; cbn [filter].
    - constructor.
    - destruct (f x); [constructor|]; assumption.
    - destruct (f x), (f y); try reflexivity. constructor.
    - etransitivity; eassumption.
  Qed.

  Lemma filter_all {A} (f : A -> bool) l : (forall x, f x = true) -> filter f l = l.
  Proof. intros H. induction l as [|x l IH]; cbn [filter]; [reflexivity | rewrite H, IH; reflexivity]. Qed.

  Lemma map_forall2 {A B} (R : A -> A -> Prop) (f f' : A -> B) l l' :
    Forall2 R l l' -> (forall x y, R x y -> f x = f' y) -> map f l = map f' l'.
  Proof. intros H Hf. induction H; cbn [map]; [reflexivity | rewrite (Hf _ _ H), IHForall2; reflexivity]. Qed.

  Lemma forall2_length {A} (R : A -> A -> Prop) l l' : Forall2 R l l' -> length l = length l'.
  Proof. induction 1; cbn [length]; congruence. Qed.
End Common.

Section Skel.
  Variable K : Type.
  Variables (k0 k1 : K) (kadd kmul ksub : K -> K -> K) (kopp : K -> K).
  Variables (kinv ksqrt : K -> K) (kis0 : K -> bool) (kltb : K -> K -> bool).
  Hypothesis Kth : ring_theory k0 k1 kadd kmul ksub kopp (@eq K).
  Add Ring KringSk : Kth.
  Variable D : Type.
  Variable pwt : D -> K.
  Notation part := (part K D).
  Notation event := (event K D).
  Notation sum := (ksum k0 kadd).

  Section One.
    (* the two samples may be looked at through different observables (e.g. before/after a rotation) *)
    Variables qual qual' : event -> K.
    Variables ob ob' : event -> part -> K.
    Variable resf : K -> option K.
    Notation WV := (wv K D pwt ob).
    Notation WV' := (wv K D pwt ob').
    Notation Skel := (skel K k0 k1 kadd kmul ksub kinv ksqrt kis0 kltb D pwt qual ob resf).
    Notation Skel' := (skel K k0 k1 kadd kmul ksub kinv ksqrt kis0 kltb D pwt qual' ob' resf).

    (* corresponding events: same resolution ingredient, same (weight, observable) pairs up to order *)
    Definition evrel (e e' : event) : Prop := qual e = qual' e' /\ Permutation (WV e) (WV' e').

    Lemma values_rel res evs evs1 evs' :
      Forall2 evrel evs evs1 -> Permutation evs1 evs' ->
      sums K k0 kadd kmul (values K kmul kinv D pwt ob res evs) = sums K k0 kadd kmul (values K kmul kinv D pwt ob' res evs').
    Proof.
      intros H1 H2. unfold sums, values. rewrite !map_map.
      assert (E : forall (g : K * K -> K) ,
        sum (map (fun e : event => sum (map g (map (fun x : K * K => (fst x, kmul (snd x) (kinv res))) (WV e)))) evs)
        = sum (map (fun e : event => sum (map g (map (fun x : K * K => (fst x, kmul (snd x) (kinv res))) (WV' e)))) evs')).
      { intros g. transitivity (sum (map (fun e : event => sum (map g (map (fun x : K * K => (fst x, kmul (snd x) (kinv res))) (WV' e)))) evs1)).
        - f_equal. apply (map_forall2 evrel); [exact H1|]. intros x y [_ Hp].
          apply (ksum_perm K k0 k1 kadd kmul ksub kopp Kth). do 2 apply Permutation_map. exact Hp.
        - apply (ksum_map_perm K k0 k1 kadd kmul ksub kopp Kth). exact H2. }
      rewrite (E (fun wv => fst wv)), (E (fun wv => kmul (snd wv) (fst wv))),
              (E (fun wv => kmul (kmul (snd wv) (snd wv)) (kmul (fst wv) (fst wv)))). reflexivity.
    Qed.

    Lemma mean_rel evs evs1 evs' :
      Forall2 evrel evs evs1 -> Permutation evs1 evs' ->
      mean K k0 k1 kadd kmul kinv (map qual evs) = mean K k0 k1 kadd kmul kinv (map qual' evs').
    Proof.
      intros H1 H2. unfold mean. rewrite !map_length.
      rewrite (forall2_length evrel _ _ H1), (Permutation_length H2). f_equal.
      transitivity (sum (map qual' evs1)).
      - f_equal. apply (map_forall2 evrel); [exact H1|]. intros x y [Hq _]. exact Hq.
      - apply (ksum_map_perm K k0 k1 kadd kmul ksub kopp Kth). exact H2.
    Qed.

    Theorem skel_invariant evs evs1 evs' :
      Forall2 evrel evs evs1 -> Permutation evs1 evs' -> Skel evs = Skel' evs'.
    Proof.
      intros H1 H2. unfold skel. rewrite (mean_rel evs evs1 evs' H1 H2).
      destruct (resf _) as [r|].
      - rewrite (values_rel r evs evs1 evs' H1 H2). reflexivity.
      - rewrite (values_rel k1 evs evs1 evs' H1 H2). reflexivity.
    Qed.
  End One.
End Skel.

(* C15: schedule independence of the pool model.  A task reseeds before it draws, so its value does not depend on
   the state its worker was in; results are stored by index, so the order of execution does not matter. *)
From Coq Require Import List ZArith QArith Bool Permutation Lia.
From SX Require Import Lib.Py Lib.KRing Gen.GenJackknife Model.Pool.
Import ListNotations.

Section Sched.
  Variable St A R : Type.
  Variable reseed : Z -> St.
  Variable draw : St -> nat -> nat -> list nat * St.
  Variable stat : list A -> R.
  Variable seed : Z.
  Variable dfrac : Q.
  Variable data : list A.

  Notation run_task := (run_task St A R reseed draw stat seed dfrac data).
  Notation step := (step St A R reseed draw stat seed dfrac data).
  Notation run_pool := (run_pool St A R reseed draw stat seed dfrac data).
  Notation pool_samples := (pool_samples St A R reseed draw stat seed dfrac data).

  (* the value of task i, written without any worker state *)
  Definition task_value (i : nat) : R :=
    let n := length data in
    let d := Z.to_nat (gen_jk_delete_n dfrac (Z.of_nat n)) in
    stat (np_delete A (fst (draw (reseed (gen_jk_task_seed seed (Z.of_nat i))) n d)) data).

  Lemma run_task_value s i : fst (run_task s i) = task_value i.
  Proof. reflexivity. Qed.

  Lemma fold_results : forall sched ps j,
    results St R (fold_left step sched ps) j =
    if existsb (Nat.eqb j) (map snd sched) then Some (task_value j) else results St R ps j.
  Proof.
    induction sched as [|ev t IH]; intros ps j; [reflexivity|].
    cbn [fold_left map existsb]. rewrite IH.
    destruct (existsb (Nat.eqb j) (map snd t)); [rewrite orb_true_r; reflexivity|].
    rewrite orb_false_r. cbn [step results].
    destruct (Nat.eqb j (snd ev)) eqn:E; [|reflexivity].
    apply Nat.eqb_eq in E. subst j. rewrite run_task_value. reflexivity.
  Qed.

  Lemma collect_some (res : nat -> option R) (f : nat -> R) : forall cnt i0,
    (forall i, (i0 <= i < i0 + cnt)%nat -> res i = Some (f i)) ->
    collect_from R res i0 cnt = Some (map f (seq i0 cnt)).
  Proof.
    induction cnt as [|c IH]; intros i0 H; [reflexivity|].
    cbn [collect_from seq map]. rewrite (H i0) by lia. rewrite IH; [reflexivity|].
    intros i Hi. apply H. lia.
  Qed.

  (* every task is started at least once - by any worker, in any order, possibly more than once *)
  Theorem pool_any_schedule N sched init :
    (forall i, (i < N)%nat -> In i (map snd sched)) ->
    pool_samples N sched init = Some (map task_value (seq 0 N)).
  Proof.
    intros Hcov. unfold Pool.pool_samples, Pool.run_pool. apply collect_some.
    intros i Hi. rewrite fold_results.
    assert (E : existsb (Nat.eqb i) (map snd sched) = true).
    { apply existsb_exists. exists i. split; [apply Hcov; lia | apply Nat.eqb_refl]. }
    rewrite E. reflexivity.
  Qed.

  Theorem pool_permutation N sched init :
    Permutation (map snd sched) (seq 0 N) ->
    pool_samples N sched init = Some (map task_value (seq 0 N)).
  Proof.
    intros P. apply pool_any_schedule. intros i Hi.
    eapply Permutation_in; [apply Permutation_sym, P | apply in_seq; lia].
  Qed.
End Sched.

Section Driver.
  Variable K : Type.
  Variables (k0 k1 : K) (kadd kmul ksub kdiv : K -> K -> K) (kopp : K -> K).
  Variable ksqrt : K -> K.
  Variable St A : Type.
  Variable reseed : Z -> St.
  Variable draw : St -> nat -> nat -> list nat * St.

  (* compute_jackknife_estimates as a function of (data, statistic, fraction, number of samples, seed) only *)
  Definition jackknife_spec_sq (dfrac : Q) (number_samples seed : Z) (data : list A) (stat : list A -> K)
    : result (list K * K) :=
    if negb (Qle_bool 0 dfrac) || Qle_bool 1 dfrac then Err ValueError else
    if (number_samples <? 1)%Z then Err ValueError else
    let n := Z.of_nat (length data) in
    let d := gen_jk_delete_n dfrac n in
    if (d <? gen_jk_min_delete)%Z then Err ValueError else
    let th := map (task_value St A K reseed draw stat seed dfrac data) (seq 0 (Z.to_nat number_samples)) in
    Ok (th, estimate_sq K k0 k1 kadd kmul ksub kdiv kopp n d th).

  Definition jackknife_spec dfrac number_samples seed data stat : result K :=
    rmap (fun p => ksqrt (snd p)) (jackknife_spec_sq dfrac number_samples seed data stat).

  Theorem jackknife_sq_schedule_free dfrac number_samples seed data stat sched init :
    Permutation (map snd sched) (seq 0 (Z.to_nat number_samples)) ->
    jackknife_sq K k0 k1 kadd kmul ksub kdiv kopp St A reseed draw dfrac number_samples seed data stat sched init
    = jackknife_spec_sq dfrac number_samples seed data stat.
  Proof.
    intros P. unfold jackknife_sq, jackknife_spec_sq.
    destruct (negb (Qle_bool 0 dfrac) || Qle_bool 1 dfrac); [reflexivity|].
    destruct (number_samples <? 1)%Z; [reflexivity|].
    destruct (gen_jk_delete_n dfrac (Z.of_nat (length data)) <? gen_jk_min_delete)%Z; [reflexivity|].
    rewrite (pool_permutation St A K reseed draw stat seed dfrac data _ sched init P). reflexivity.
  Qed.

  Theorem jackknife_schedule_free dfrac number_samples seed data stat sched init :
    Permutation (map snd sched) (seq 0 (Z.to_nat number_samples)) ->
    jackknife K k0 k1 kadd kmul ksub kdiv kopp ksqrt St A reseed draw dfrac number_samples seed data stat sched init
    = jackknife_spec dfrac number_samples seed data stat.
  Proof.
    intros P. unfold jackknife, jackknife_spec. rewrite jackknife_sq_schedule_free by exact P. reflexivity.
  Qed.

  (* which configurations are rejected *)
  Theorem jackknife_rejects dfrac number_samples seed data stat sched init :
    (~ (0 <= dfrac)%Q \/ (1 <= dfrac)%Q \/ (number_samples < 1)%Z \/
     (gen_jk_delete_n dfrac (Z.of_nat (length data)) < 1)%Z) ->
    jackknife K k0 k1 kadd kmul ksub kdiv kopp ksqrt St A reseed draw dfrac number_samples seed data stat sched init
    = Err ValueError.
  Proof.
    intros H. unfold jackknife, jackknife_sq.
    destruct (negb (Qle_bool 0 dfrac) || Qle_bool 1 dfrac) eqn:E1; [reflexivity|].
    destruct (number_samples <? 1)%Z eqn:E2; [reflexivity|].
    destruct (gen_jk_delete_n dfrac (Z.of_nat (length data)) <? gen_jk_min_delete)%Z eqn:E3; [reflexivity|].
    exfalso. apply orb_false_iff in E1. destruct E1 as [E1a E1b]. apply negb_false_iff in E1a.
    apply Qle_bool_iff in E1a. apply Z.ltb_ge in E2, E3. unfold gen_jk_min_delete in E3.
    destruct H as [H|[H|[H|H]]]; [contradiction | apply Qle_bool_iff in H; congruence | lia | lia].
  Qed.
End Driver.

(* C03: inclusive-window cuts (pT, mT, t/x/y/z, rapidity, pseudorapidity, space-time rapidity) of
   Gen/GenFilters.v against the documented window on the extended line. *)
From Coq Require Import List ZArith QArith Qabs Bool String Lia Lqa.
From SX Require Import Model.PyRt Model.FilterSpec Lib.PyRtLemmas Lib.FilterTac Gen.GenFilters Proofs.C03_Args.
Import ListNotations.
#[local] Opaque gen_ensure_tuple_is_valid_else_raise_error.

(* (lo, hi) with None = unbounded, non-negative limits (pT, mT) *)
Ltac lim_window gen spec :=
  let Hs := fresh "Hs" in let Hlo := fresh "Hlo" in let Hhi := fresh "Hhi" in let Hnr := fresh "Hnr" in
  intros evs lo hi Hs Hlo Hhi Hnr; unfold gen, spec, particle_level;
  rewrite ensure_tuple_ok by (auto; discriminate);
  unfold v_pair; destruct lo, hi; simpl in *;
  try (exfalso; destruct Hs; congruence);
  qcases; try qdone;
  append_loop Hnr.

Theorem pT_cut_ok : forall evs lo hi,
  (lo <> LNone \/ hi <> LNone) -> lim_nonneg lo -> lim_nonneg hi -> no_raise [M_pT_abs] evs ->
  gen_pT_cut evs (v_pair (v_lim lo) (v_lim hi)) = Ok (spec_pT_cut evs lo hi).
Proof. lim_window gen_pT_cut spec_pT_cut. Qed.

Theorem mT_cut_ok : forall evs lo hi,
  (lo <> LNone \/ hi <> LNone) -> lim_nonneg lo -> lim_nonneg hi -> no_raise [M_mT] evs ->
  gen_mT_cut evs (v_pair (v_lim lo) (v_lim hi)) = Ok (spec_mT_cut evs lo hi).
Proof. lim_window gen_mT_cut spec_mT_cut. Qed.

Theorem spacetime_cut_ok : forall evs d lo hi,
  (lo <> LNone \/ hi <> LNone) -> no_raise [dim_acc d] evs ->
  gen_spacetime_cut evs (v_dim d) (v_pair (v_lim lo) (v_lim hi)) = Ok (spec_spacetime_cut evs d lo hi).
Proof.
  intros evs d lo hi Hs Hnr. unfold gen_spacetime_cut, spec_spacetime_cut, particle_level.
  rewrite ensure_tuple_ok by (auto; discriminate).
  unfold v_pair, py_not_in, py_in.
  destruct d; destruct lo, hi; simpl in *.
  all: try (exfalso; destruct Hs; congruence).
  all: qcases; try qdone.
  all: append_loop Hnr.
Qed.

(* (c1, c2): two numbers in either order *)
Ltac num_window gen spec :=
  let Hnr := fresh "Hnr" in
  intros evs c1 c2 Hnr; unfold gen, spec, particle_level;
  rewrite !v_num_lim;
  rewrite (ensure_tuple_ok (lim_of_num c1) (lim_of_num c2) false)
    by (intros; auto using lim_of_num_set);
  unfold v_pair; destruct c1, c2; simpl in *;
  qcases; try qdone;
  append_loop Hnr.

Theorem rapidity_cut_ok : forall evs c1 c2, no_raise [M_rapidity] evs ->
  gen_rapidity_cut evs (v_pair (v_num c1) (v_num c2)) = Ok (spec_rapidity_cut evs c1 c2).
Proof. num_window gen_rapidity_cut spec_rapidity_cut. Qed.
Theorem pseudorapidity_cut_ok : forall evs c1 c2, no_raise [M_pseudorapidity] evs ->
  gen_pseudorapidity_cut evs (v_pair (v_num c1) (v_num c2)) = Ok (spec_pseudorapidity_cut evs c1 c2).
Proof. num_window gen_pseudorapidity_cut spec_pseudorapidity_cut. Qed.
Theorem spacetime_rapidity_cut_ok : forall evs c1 c2, no_raise [M_spacetime_rapidity] evs ->
  gen_spacetime_rapidity_cut evs (v_pair (v_num c1) (v_num c2)) = Ok (spec_spacetime_rapidity_cut evs c1 c2).
Proof. num_window gen_spacetime_rapidity_cut spec_spacetime_rapidity_cut. Qed.

(* a single number c: the window [-|c|, |c|] *)
Lemma abs_int_cases z : (0 <= z /\ Z.abs z = z)%Z \/ (z < 0 /\ Z.abs z = - z)%Z.
Proof. lia. Qed.
Lemma abs_q_cases q : (0 <= q /\ Qabs q == q) \/ (q < 0 /\ Qabs q == - q).
Proof.
  destruct (Qlt_le_dec q 0) as [H|H].
  - right. split; [exact H|]. apply Qabs_neg. apply Qlt_le_weak. exact H.
  - left. split; [exact H|]. apply Qabs_pos. exact H.
Qed.

Ltac sym_window gen spec :=
  let Hnr := fresh "Hnr" in
  intros evs c Hnr; unfold gen, spec, particle_level;
  destruct c as [z|q]; simpl;
  [ destruct (abs_int_cases z) as [[Hz Ha]|[Hz Ha]]; rewrite Ha; clear Ha
  | destruct (abs_q_cases q) as [[Hq Ha]|[Hq Ha]] ];
  append_loop Hnr.

Theorem rapidity_cut_sym_ok : forall evs c, no_raise [M_rapidity] evs ->
  gen_rapidity_cut evs (v_num c) = Ok (spec_rapidity_cut_sym evs c).
Proof. sym_window gen_rapidity_cut spec_rapidity_cut_sym. Qed.
Theorem pseudorapidity_cut_sym_ok : forall evs c, no_raise [M_pseudorapidity] evs ->
  gen_pseudorapidity_cut evs (v_num c) = Ok (spec_pseudorapidity_cut_sym evs c).
Proof. sym_window gen_pseudorapidity_cut spec_pseudorapidity_cut_sym. Qed.
Theorem spacetime_rapidity_cut_sym_ok : forall evs c, no_raise [M_spacetime_rapidity] evs ->
  gen_spacetime_rapidity_cut evs (v_num c) = Ok (spec_spacetime_rapidity_cut_sym evs c).
Proof. sym_window gen_spacetime_rapidity_cut spec_spacetime_rapidity_cut_sym. Qed.

(* C08 - missing data gives NaN (for every method, from the regenerated guard / read sets and the
   shape of the generated definitions) and unphysical inputs never give a finite value. *)
From Coq Require Import Reals List Bool ZArith Lra Psatz.
From SX Require Import Lib.RealAux Lib.ExtReal Gen.GenKinematics Proofs.C08_Defs.
Import ListNotations.
Local Open Scope R_scope.

(* ---------------------------------------------------------------- shape of the definitions *)
(* every generated method starts with `if <or of is_nan over guards m> then NaN` *)
Lemma guard_shape : forall m p a, In a (guards m) -> p a = NaN -> run m p = NaN.
Proof.
  intros m p a Hin Ha.
  destruct m; cbn [guards In] in Hin;
    repeat (destruct Hin as [<- | Hin];
            [ cbn [run];
              unfold angular_momentum_0, angular_momentum_1, angular_momentum_2, rapidity, p_abs, pT_abs, phi,
                theta, pseudorapidity, spacetime_rapidity, proper_time, mass_from_energy_momentum, mT;
              rewrite Ha; cbn [is_nan orb]; rewrite ?orb_true_r; reflexivity |]);
    contradiction.
Qed.

(* ---------------------------------------------------------------- reads within guards *)
Definition mem (a : attr) (l : list attr) : bool := existsb (attr_beq a) l.

Lemma mem_In a l : mem a l = true <-> In a l.
Proof.
  unfold mem. rewrite existsb_exists. split.
  - intros (b & Hb & He). apply internal_attr_dec_bl in He. subst. exact Hb.
  - intros H. exists a. split; [exact H | apply internal_attr_dec_lb; reflexivity].
Qed.

(* decided by computation on the regenerated sets *)
Definition reads_covered (m : method) : bool :=
  forallb (fun a => mem a (guards m) || mem a (classifiers m)) (reads m).

Lemma reads_covered_all : forallb reads_covered all_methods = true.
Proof. vm_compute. reflexivity. Qed.

Lemma all_methods_complete m : In m all_methods.
Proof. destruct m; cbn; tauto. Qed.

Lemma reads_in_guards m a : In a (reads m) -> ~ In a (classifiers m) -> In a (guards m).
Proof.
  intros Hr Hc.
  pose proof reads_covered_all as H. rewrite forallb_forall in H.
  specialize (H m (all_methods_complete m)). unfold reads_covered in H. rewrite forallb_forall in H.
  specialize (H a Hr). apply orb_true_iff in H. destruct H as [H | H]; apply mem_In in H.
  - exact H.
  - contradiction.
Qed.

Theorem nan_total m p a :
  In a (reads m) -> ~ In a (classifiers m) -> p a = NaN -> run m p = NaN.
Proof. intros Hr Hc Ha. apply (guard_shape m p a); [apply reads_in_guards; assumption | exact Ha]. Qed.

(* only the mass method has an attribute that is merely classified (pdg in the massless list) *)
Lemma classifiers_only_mass m : m <> M_mass_from_energy_momentum -> classifiers m = [].
Proof. destruct m; intros H; try reflexivity. contradiction H; reflexivity. Qed.

Lemma classifiers_mass : classifiers M_mass_from_energy_momentum = [A_pdg].
Proof. reflexivity. Qed.

(* an unset pdg is "not massless": the mass is then the plain energy-momentum relation *)
Lemma unset_pdg_not_massless p : p A_pdg = NaN ->
  ein (p A_pdg) mass_from_energy_momentum_massless_pdg = false.
Proof. intros ->. reflexivity. Qed.

(* ---------------------------------------------------------------- unphysical inputs *)
Lemma rapidity_unphysical p E pz : p A_E = Fin E -> p A_pz = Fin pz ->
  1 / 1000000000 < Rabs pz - Rabs E -> rapidity p = NaN.
Proof.
  intros HE Hz Hdom. pose proof (abs_sub_ge' E pz).
  rewrite (rapidity_unreg p E pz HE Hz) by lra. apply half_log_nan. lra.
Qed.

Lemma mT_unphysical p E pz : p A_E = Fin E -> p A_pz = Fin pz -> Rabs E < Rabs pz -> mT p = NaN.
Proof.
  intros HE Hz Hu. unfold mT. rewrite HE, Hz. cbn [is_nan orb eabs ege ele].
  rewrite Rleb_false by exact Hu. reflexivity.
Qed.

Lemma mass_unphysical p E px py pz :
  p A_E = Fin E -> p A_px = Fin px -> p A_py = Fin py -> p A_pz = Fin pz ->
  ein (p A_pdg) mass_from_energy_momentum_massless_pdg = false ->
  E * E < px * px + py * py + pz * pz ->
  mass_from_energy_momentum p = NaN.
Proof.
  intros HE Hx Hy Hz Hm Hu. fold (S3 px py pz) in Hu.
  unfold mass_from_energy_momentum. rewrite Hm, (p_abs_fin p px py pz Hx Hy Hz). rewrite HE, Hx, Hy, Hz.
  cbn [is_nan orb eabs ege ele]. rewrite Rleb_false; [reflexivity |].
  rewrite (Rabs_pos_eq (sqrt _)) by apply sqrt_pos.
  rewrite <- (sqrt_Rsqr_abs E). apply sqrt_lt_1_alt. unfold Rsqr. split; [nra | exact Hu].
Qed.

Lemma spacetime_rapidity_unphysical p t z : p A_t = Fin t -> p A_z = Fin z -> t <= Rabs z ->
  spacetime_rapidity p = Raise ValueError.
Proof.
  intros Ht Hz Hu. unfold spacetime_rapidity. rewrite Ht, Hz. cbn [is_nan orb eabs egt elt].
  rewrite Rltb_false by exact Hu. reflexivity.
Qed.

Lemma proper_time_unphysical p t z : p A_t = Fin t -> p A_z = Fin z -> t <= Rabs z ->
  proper_time p = Raise ValueError.
Proof.
  intros Ht Hz Hu. unfold proper_time. rewrite Ht, Hz. cbn [is_nan orb eabs egt elt].
  rewrite Rltb_false by exact Hu. reflexivity.
Qed.

Theorem unphysical p :
  (forall E pz, p A_E = Fin E -> p A_pz = Fin pz ->
     (1 / 1000000000 < Rabs pz - Rabs E -> rapidity p = NaN) /\
     (Rabs E < Rabs pz -> mT p = NaN) /\
     (forall px py, p A_px = Fin px -> p A_py = Fin py ->
        ein (p A_pdg) mass_from_energy_momentum_massless_pdg = false ->
        E * E < px * px + py * py + pz * pz -> mass_from_energy_momentum p = NaN)) /\
  (forall t z, p A_t = Fin t -> p A_z = Fin z -> t <= Rabs z ->
     spacetime_rapidity p = Raise ValueError /\ proper_time p = Raise ValueError).
Proof.
  split.
  - intros E pz HE Hz. split; [| split].
    + apply rapidity_unphysical; assumption.
    + apply mT_unphysical; assumption.
    + intros px py Hx Hy Hm Hu. apply (mass_unphysical p E px py pz); assumption.
  - intros t z Ht Hz Hu. split; [apply (spacetime_rapidity_unphysical p t z) | apply (proper_time_unphysical p t z)];
      assumption.
Qed.

(* ... hence never a finite value *)
Theorem unphysical_not_fin p :
  (forall E pz, p A_E = Fin E -> p A_pz = Fin pz ->
     (1 / 1000000000 < Rabs pz - Rabs E -> not_fin (rapidity p)) /\
     (Rabs E < Rabs pz -> not_fin (mT p)) /\
     (forall px py, p A_px = Fin px -> p A_py = Fin py ->
        ein (p A_pdg) mass_from_energy_momentum_massless_pdg = false ->
        E * E < px * px + py * py + pz * pz -> not_fin (mass_from_energy_momentum p))) /\
  (forall t z, p A_t = Fin t -> p A_z = Fin z -> t <= Rabs z ->
     not_fin (spacetime_rapidity p) /\ not_fin (proper_time p)).
Proof.
  destruct (unphysical p) as [H1 H2]. split.
  - intros E pz HE Hz. destruct (H1 E pz HE Hz) as (A & B & C). split; [| split].
    + intros H. rewrite (A H). apply not_fin_nan.
    + intros H. rewrite (B H). apply not_fin_nan.
    + intros px py Hx Hy Hm Hu. rewrite (C px py Hx Hy Hm Hu). apply not_fin_nan.
  - intros t z Ht Hz Hu. destruct (H2 t z Ht Hz Hu) as [A B]. rewrite A, B. split; apply not_fin_raise.
Qed.

(* the pseudorapidity cannot be unphysical: |pz| <= |p| always *)
Lemma pz_le_p px py pz : Rabs pz <= sqrt (S3 px py pz).
Proof. apply Rabs_le_sqrt3. Qed.

(* ---------------------------------------------------------------- a concrete particle *)
Definition ex_particle : prec :=
  fun a => match a with
           | A_t => Fin 5 | A_x => Fin 1 | A_y => Fin 2 | A_z => Fin 3
           | A_E => Fin 13 | A_px => Fin 3 | A_py => Fin 4 | A_pz => Fin 12
           | _ => NaN
           end.

Lemma sqrt_of_square n m : 0 <= n -> m = n * n -> sqrt m = n.
Proof. intros Hn ->. apply sqrt_square. exact Hn. Qed.

Lemma example :
  pT_abs ex_particle = Fin 5 /\ p_abs ex_particle = Fin 13 /\ mT ex_particle = Fin 5 /\
  mass_from_energy_momentum ex_particle = Fin 0 /\ proper_time ex_particle = Fin 4 /\
  rapidity ex_particle = Fin (atanh (12 / 13)) /\ spacetime_rapidity ex_particle = Fin (atanh (3 / 5)) /\
  angular_momentum_2 ex_particle = Fin (-2) /\
  mass_from_energy_momentum (fun a => match a with A_px => NaN | _ => ex_particle a end) = NaN /\
  1 / 1000000000 < Rabs 13 - Rabs 12.
Proof.
  assert (H13 : Rabs 13 = 13) by (apply Rabs_pos_eq; lra).
  assert (H12 : Rabs 12 = 12) by (apply Rabs_pos_eq; lra).
  assert (H3 : Rabs 3 = 3) by (apply Rabs_pos_eq; lra).
  repeat split.
  - rewrite (pT_abs_fin ex_particle 3 4) by reflexivity. f_equal. apply sqrt_of_square; [lra | unfold S2; ring].
  - rewrite (p_abs_fin ex_particle 3 4 12) by reflexivity. f_equal. apply sqrt_of_square; [lra | unfold S3; ring].
  - destruct (mT_def ex_particle 13 12) as (v & Hv & Hp & Hsq); try reflexivity; [rewrite H13, H12; lra |].
    rewrite Hv. f_equal. nra.
  - destruct (mass_def ex_particle 13 3 4 12) as (v & Hv & Hp & Hsq); try reflexivity; [lra |].
    rewrite Hv. f_equal. nra.
  - destruct (proper_time_def ex_particle 5 3) as (v & Hv & Hp & Hsq); try reflexivity; [rewrite H3; lra |].
    rewrite Hv. f_equal. nra.
  - apply rapidity_def; try reflexivity. rewrite H13, H12. lra.
  - apply spacetime_rapidity_def; try reflexivity. rewrite H3. lra.
  - destruct (angular_momentum_def ex_particle 1 2 3 3 4 12) as (_ & _ & E2); try reflexivity.
    rewrite E2. f_equal. ring.
  - rewrite H13, H12. lra.
Qed.

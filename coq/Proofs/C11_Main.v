(* C11 - statements assembled from the lemmas of C11_Corr / C11_Diff / C11_Reals (so that Properties/C11.v only
   contains `exact`). *)
From Coq Require Import String ZArith Ring_theory Reals RealField Bool List.
From SX Require Import Lib.KRing Lib.Cpx Lib.Distinct Gen.GenQCumulant Model.QCumulant
  Proofs.C11_Closed Proofs.C11_Aux Proofs.C11_Corr Proofs.C11_Diff Proofs.C11_Reals.
Import ListNotations.

Lemma p_C11_cumulant4 :
  forall K k0 k1 kadd kmul ksub kopp kdiv kleb kltb krpow, ring_theory k0 k1 kadd kmul ksub kopp (@eq K) ->
  forall P zof inbin ispoi evs,
  let c2 := corr2 K k0 k1 kadd kmul ksub kopp kdiv kleb kltb krpow P zof inbin ispoi evs in
  let c4 := corr4 K k0 k1 kadd kmul ksub kopp kdiv kleb kltb krpow P zof inbin ispoi evs in
  cumulant2 K k0 k1 kadd kmul ksub kopp kdiv kleb kltb krpow P zof inbin ispoi evs = c2 /\
  cumulant4 K k0 k1 kadd kmul ksub kopp kdiv kleb kltb krpow P zof inbin ispoi evs
  = ksub c4 (kmul (kz k0 k1 kadd kmul kopp 2) (kmul c2 c2)).
Proof. intros; split; [apply cumulant2_ok | apply cumulant4_ok; assumption]. Qed.

Lemma p_C11_dn4 :
  forall K k0 k1 kadd kmul ksub kopp kdiv kleb kltb krpow, ring_theory k0 k1 kadd kmul ksub kopp (@eq K) ->
  forall P zof inbin ispoi evs,
  dn4 K k0 k1 kadd kmul ksub kopp kdiv kleb kltb krpow P zof inbin ispoi evs
  = csub K ksub (dcorr4 K k0 k1 kadd kmul ksub kopp kdiv kleb kltb krpow P zof inbin ispoi evs)
      (cscale K kmul (kmul (kz k0 k1 kadd kmul kopp 2) (corr2 K k0 k1 kadd kmul ksub kopp kdiv kleb kltb krpow P zof inbin ispoi evs))
         (dcorr2 K k0 k1 kadd kmul ksub kopp kdiv kleb kltb krpow P zof inbin ispoi evs))
  /\ cn4 K k0 k1 kadd kmul ksub kopp kdiv kleb kltb krpow P zof inbin ispoi evs
     = cumulant4 K k0 k1 kadd kmul ksub kopp kdiv kleb kltb krpow P zof inbin ispoi evs.
Proof. intros; split; [apply dn4_ok; assumption | apply cn4_ok]. Qed.

Lemma p_C11_vn_diff2 :
  forall K k0 k1 kadd kmul ksub kopp kdiv kleb kltb krpow imag c d,
  option_map re (gen_ffcd K k0 k1 kadd kmul ksub kopp kdiv kleb kltb krpow 2 imag c d) =
    if kltb k0 c then Some (kdiv (re d) (krpow 1%nat 2%nat (kmul k1 c)))
    else if String.eqb imag "negative" then Some (kdiv (re d) (krpow 1%nat 2%nat (kmul (kopp k1) c)))
    else if String.eqb imag "zero" then Some k0 else None.
Proof. intros. rewrite ffcd2. destruct (kltb k0 c); [reflexivity|]. destruct (String.eqb imag "negative"); [reflexivity|].
  destruct (String.eqb imag "zero"); reflexivity. Qed.

Lemma p_C11_vn_diff4 :
  forall K k0 k1 kadd kmul ksub kopp kdiv kleb kltb krpow imag c d,
  option_map re (gen_ffcd K k0 k1 kadd kmul ksub kopp kdiv kleb kltb krpow 4 imag c d) =
    if kltb c k0 then Some (kdiv (kopp (re d)) (krpow 3%nat 4%nat (kmul (kopp k1) c)))
    else if String.eqb imag "negative" then Some (kdiv (kopp (re d)) (krpow 3%nat 4%nat (kmul (kopp (kopp k1)) c)))
    else if String.eqb imag "zero" then Some k0 else None.
Proof. intros. rewrite ffcd4. destruct (kltb c k0); [reflexivity|]. destruct (String.eqb imag "negative"); [reflexivity|].
  destruct (String.eqb imag "zero"); reflexivity. Qed.

Lemma p_C11_selectors :
  gen_selectors_validated = ["pT"; "rapidity"; "pseudorapidity"]%string /\
  gen_selectors_dispatched = ["pT"; "rapidity"; "pseudorapidity"]%string /\
  gen_k_allowed = [2; 4; 6]%nat /\ gen_imag_allowed = ["zero"; "negative"; "nan"]%string /\
  In gen_default_k gen_k_allowed /\ In gen_default_imag gen_imag_allowed.
Proof. repeat split; try reflexivity; simpl; auto. Qed.

Lemma p_C11_cos_bridge :
  (forall t, cunit R 0%R 1%R Rplus Rmult Rminus Ropp (cis t)) /\
  (forall t h, cpow R 0%R 1%R Rplus Rmult Rminus (cis t) h = cis (INR h * t)) /\
  (forall a b, re (cmul R Rplus Rmult Rminus (cis a) (Rconj (cis b))) = cos (a - b)) /\
  (forall a1 a2 a3 a4,
     re (cmul R Rplus Rmult Rminus (cis a1) (cmul R Rplus Rmult Rminus (cis a2)
        (cmul R Rplus Rmult Rminus (Rconj (cis a3)) (Rconj (cis a4))))) = cos (a1 + a2 - a3 - a4)) /\
  (forall a1 a2 a3 a4 a5 a6,
     re (cmul R Rplus Rmult Rminus (cis a1) (cmul R Rplus Rmult Rminus (cis a2) (cmul R Rplus Rmult Rminus (cis a3)
        (cmul R Rplus Rmult Rminus (Rconj (cis a4)) (cmul R Rplus Rmult Rminus (Rconj (cis a5)) (Rconj (cis a6)))))))
     = cos (a1 + a2 + a3 - a4 - a5 - a6)).
Proof. repeat split; [apply cis_unit | apply cis_pow | apply bridge2 | apply bridge4 | apply bridge6]. Qed.

Definition ex_evs : list (event Z (cpx Z)) :=
  [ ((0, 1), [(1, 0); (0, 1); (-1, 0); (0, 1); (1, 0)]) ; ((-1, 0), [(0, -1); (0, 1); (1, 0); (1, 0)]) ]%Z.

Lemma p_C11_example :
  Forall (good Z 0%Z 1%Z Z.add Z.mul Z.sub Z.opp (cpx Z) (fun z => z)) ex_evs /\
  spec_num Z 0%Z 1%Z Z.add Z.mul Z.sub Z.opp (cpx Z) (fun z => z) 2 ex_evs = (-16)%Z /\
  spec_den Z 0%Z 1%Z Z.add (cpx Z) 2 ex_evs = 144%Z /\
  corr4 Z 0%Z 1%Z Z.add Z.mul Z.sub Z.opp (fun a b => (a * 1000 / b)%Z) Z.leb Z.ltb (fun _ _ x => x)
        (cpx Z) (fun z => z) (fun _ => true) (fun _ => true) ex_evs = (-112)%Z.
Proof. split; [repeat constructor | vm_compute; repeat split]. Qed.


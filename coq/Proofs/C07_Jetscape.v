(* C07 (JETSCAPE): a file whose last line does not mention sigmaGen is rejected - this covers every truncation
   point before the word "sigmaGen" of the trailer, whatever precedes it. *)
From Coq Require Import List String ZArith QArith Bool Arith.
From SX Require Import Lib.Strs Gen.GenParticleMap Model.Oscar Model.Jetscape.
Import ListNotations.
Local Open Scope string_scope.

Theorem jet_last_line_without_sigmaGen :
  forall tok_float tok_int pdg_valid pdg_charge usqrt flt (file : list line) defstr sel,
  has "sigmaGen" (last file []) = false ->
  jload tok_float tok_int pdg_valid pdg_charge usqrt flt file defstr sel = Err ValueError.
Proof. intros. unfold jload. rewrite H. reflexivity. Qed.

(* a proper prefix of the trailer that stops before the word is such a last line: tokens of a numeric or
   '#'-only prefix never contain it; stated for the shapes a cut can leave: a particle line (numeric tokens),
   an event header, or the first tokens of the trailer *)
Lemma has_app p a b : has p (a ++ b) = has p a || has p b.
Proof. unfold has. apply existsb_app. Qed.

From Coq Require Import Lia.
From SX Require Import Model.OscarDoc Model.JetscapeDoc Proofs.C01_Oscar Proofs.C01_Jetscape.

Section P.
  Variable tok_float : string -> option Q.
  Variable tok_int : string -> option Q.
  Variable pdg_valid : Q -> bool.
  Variable pdg_charge : Q -> Q.
  Variable usqrt : Q -> Q.
  Variable defstr : string.

  Notation jwf_row := (jwf_row tok_float tok_int pdg_valid pdg_charge usqrt defstr).
  Notation PARSE := (jparse_rows tok_float tok_int pdg_valid pdg_charge usqrt).
  Notation JSCAN := (jscan tok_int defstr).
  Notation JR := (jread tok_float tok_int pdg_valid pdg_charge usqrt None SelAll).
  Notation JLOAD := (jload tok_float tok_int pdg_valid pdg_charge usqrt None).
  Notation JFOLD := (jfold tok_float tok_int pdg_valid pdg_charge usqrt).

  (* events whose DECLARED particle count need not be the number of lines present *)
  Definition jl_event (i decl : nat) (e : jevent) : Prop :=
    is_count_line defstr (je_head e) = true /\ is_trailer (je_head e) = false /\ is_evhead (je_head e) = true /\
    (exists lt ct, nth_error (je_head e) 2 = Some lt /\ nth_error (je_head e) 8 = Some ct /\
                   tok_int lt = Some (zq (Z.of_nat i + 1)) /\ tok_int ct = Some (zq (Z.of_nat decl))) /\
    Forall jwf_row (je_rows e).
  Fixpoint jl_events (i : nat) (decls : list nat) (evs : list jevent) : Prop :=
    match decls, evs with
    | [], [] => True
    | dc :: ds, e :: t => jl_event i dc e /\ jl_events (S i) ds t
    | _, _ => False
    end.
  Fixpoint jcounts_decl (i : nat) (decls : list nat) : list (Z * Z) :=
    match decls with [] => [] | dc :: ds => (Z.of_nat i + 1, Z.of_nat dc)%Z :: jcounts_decl (S i) ds end.
  Definition jtotal (decls : list nat) : nat := fold_right (fun dc acc => (dc + 1 + acc)%nat) 0%nat decls.

  Lemma jscan_events_g : forall evs decls i rest,
    jl_events i decls evs ->
    JSCAN (jrender_events evs ++ rest)%list = (r <- JSCAN rest ;; Ok (jcounts_decl i decls ++ r)%list).
  Proof.
    induction evs as [|e evs IH]; intros decls i rest H.
    - destruct decls; [|contradiction]. cbn. destruct (JSCAN rest); reflexivity.
    - destruct decls as [|dc ds]; [contradiction|].
      destruct H as ((Hc & _ & _ & (lt & ct & H2 & H8 & Hl & Hn) & Hrows) & Ht).
      unfold jrender_events. cbn [flat_map]. fold (jrender_events evs).
      unfold jrender_event. rewrite <- app_assoc. cbn [app jscan].
      unfold is_count_line in Hc. rewrite Hc, H2, H8, Hl, Hn.
      rewrite (jscan_rows tok_float tok_int pdg_valid pdg_charge usqrt defstr) by exact Hrows.
      rewrite (IH ds (S i) rest Ht). destruct (JSCAN rest); cbn [bind jcounts_decl app]; [|reflexivity].
      rewrite !to_Z_zq. reflexivity.
  Qed.

  Lemma jr_events_g : forall evs decls i n rest pl cur cnts c,
    jl_events (S i) decls evs ->
    JR false (List.length (jrender_events evs) + n) (jrender_events evs ++ rest)%list
       {| plist := pl; data := cur; counts := cnts; cut := c |}
    = JR false n rest {| plist := fst (JFOLD pl cur evs); data := snd (JFOLD pl cur evs); counts := cnts; cut := c |}.
  Proof.
    induction evs as [|e evs IH]; intros decls i n rest pl cur cnts c H.
    - destruct decls; [reflexivity|contradiction].
    - destruct decls as [|dc ds]; [contradiction|].
      destruct H as ((_ & Htr & Hev & (lt & ct & H2 & _ & Hl & _) & Hrows) & Ht).
      unfold jrender_events. cbn [flat_map]. fold (jrender_events evs).
      unfold jrender_event. rewrite <- app_assoc. cbn [app List.length]. rewrite app_length.
      match goal with |- jread _ _ _ _ _ _ _ _ ?k _ _ = _ =>
        replace k with (S (List.length (je_rows e) + (List.length (jrender_events evs) + n)))%nat by lia end.
      cbn [jread]. unfold is_trailer in Htr. unfold is_evhead in Hev. rewrite Htr, Hev, H2, Hl.
      cbn [andb first_header]. rewrite to_Z_zq.
      replace (Z.of_nat (S i) + 1 =? 1)%Z with false by (symmetry; apply Z.eqb_neq; lia).
      rewrite jclose_none. cbn [bind plist counts cut].
      rewrite (jr_rows tok_float tok_int pdg_valid pdg_charge usqrt defstr) by exact Hrows.
      unfold jadd_data. cbn [plist data counts cut app].
      rewrite (IH ds (S i)) by exact Ht. reflexivity.
  Qed.

  Lemma jcounts_len_decl i decls : List.length (jcounts_decl i decls) = List.length decls.
  Proof. revert i; induction decls as [|d t IH]; intros i; cbn; [reflexivity|now rewrite IH]. Qed.

  Lemma jread_all_decl : forall decls i,
    (fold_right (fun c acc => snd c + acc) 0 (jcounts_decl i decls) + Z.of_nat (List.length (jcounts_decl i decls)))%Z
    = Z.of_nat (jtotal decls).
  Proof.
    induction decls as [|dc ds IH]; intros i; [reflexivity|].
    specialize (IH (S i)). unfold jtotal in *. cbn [jcounts_decl fold_right List.length snd]. lia.
  Qed.

  (* a header, events declaring [dc :: ds] and a trailer: the load fails as soon as the read loop fails, or ends
     with a number of closed events different from the number of event headers *)
  Lemma jload_prefix h0 e0 evs trailer dc ds :
    is_count_line defstr h0 = false ->
    jl_events 0 (dc :: ds) (e0 :: evs) ->
    is_trailer trailer = true -> is_count_line defstr trailer = false ->
    (S (List.length (je_rows e0)) + List.length (jrender_events evs) <= S (jtotal (dc :: ds)))%nat ->
    let loop := JR false (List.length (jrender_events evs) + (S (jtotal (dc :: ds)) - S (List.length (je_rows e0)) - List.length (jrender_events evs)))
                  (jrender_events evs ++ [trailer])%list
                  {| plist := []; data := PARSE (je_rows e0); counts := jcounts_decl 0 (dc :: ds); cut := 0 |} in
    (forall e, loop = Err e -> JLOAD (h0 :: jrender_events (e0 :: evs) ++ [trailer])%list defstr SelAll = Err e) /\
    (forall st, loop = Ok st -> Z.of_nat (List.length (plist st)) <> (Z.of_nat (S (List.length ds)) - cut st)%Z ->
                JLOAD (h0 :: jrender_events (e0 :: evs) ++ [trailer])%list defstr SelAll = Err IndexError).
  Proof.
    intros Hh0 Hev Htr Htc Hle loop.
    assert (Hgen : JLOAD (h0 :: jrender_events (e0 :: evs) ++ [trailer])%list defstr SelAll
                   = (st <- loop ;;
                      fin <- (if (Z.of_nat (List.length (plist st)) =? Z.of_nat (S (List.length ds)) - cut st)%Z
                              then Ok ((Z.of_nat (S (List.length ds)) - cut st)%Z, counts st, true) else Err IndexError) ;;
                      match first_floats tok_float 2 (filter (fun s => negb (s =? "")) trailer) with
                      | [s1; s2] => Ok {| j_events := match plist st with [] => [[]] | pl => pl end;
                                          j_nevents := fst (fst fin); j_counts := snd (fst fin); j_counts_2d := snd fin;
                                          j_sigma := (s1, s2) |}
                      | _ => Err IndexError
                      end)).
    { unfold loop, jload.
      assert (Hl : last (h0 :: jrender_events (e0 :: evs) ++ [trailer])%list [] = trailer).
      { change (h0 :: jrender_events (e0 :: evs) ++ [trailer])%list with ((h0 :: jrender_events (e0 :: evs)) ++ [trailer])%list.
        apply last_last. }
      rewrite Hl. unfold is_trailer in Htr. apply andb_true_iff in Htr. destruct Htr as [Htr1 Htr2].
      rewrite Htr2. cbn [negb].
      cbn [jscan]. unfold is_count_line in Hh0. rewrite Hh0.
      rewrite (jscan_events_g (e0 :: evs) (dc :: ds) 0 [trailer] Hev).
      cbn [jscan]. unfold is_count_line in Htc. rewrite Htc. cbn [jscan bind]. rewrite app_nil_r.
      cbn [jnum_skip jnum_read bind sel_first sel_counts].
      pose proof (jcounts_len_decl 0 (dc :: ds)) as Hlen.
      destruct (jcounts_decl 0 (dc :: ds)) eqn:Ec; [discriminate|]. rewrite <- Ec in *. cbn [bind].
      rewrite jread_all_decl, Hlen.
      replace (Z.to_nat (Z.of_nat (jtotal (dc :: ds)) + 1)) with (S (jtotal (dc :: ds))) by lia.
      change (Z.to_nat 1) with 1%nat. cbn [skipn].
      destruct Hev as ((Hc0 & Ht0 & He0 & (lt & ct & H2 & _ & Hlt & _) & Hrows0) & Hrest).
      unfold jrender_events at 1. cbn [flat_map]. fold (jrender_events evs).
      unfold jrender_event at 1. rewrite <- !app_assoc. cbn [app].
      replace (S (jtotal (dc :: ds)))
        with (S (List.length (je_rows e0) + (List.length (jrender_events evs) +
                (S (jtotal (dc :: ds)) - S (List.length (je_rows e0)) - List.length (jrender_events evs)))))%nat at 1 by lia.
      cbn [jread]. unfold is_trailer in Ht0. unfold is_evhead in He0. unfold is_count_line in Hc0.
      rewrite Ht0. apply andb_true_iff in Hc0. destruct Hc0 as [Hh _]. rewrite Hh. cbn [negb andb].
      rewrite He0, H2, Hlt. cbn [first_header]. rewrite to_Z_zq. cbn [Z.of_nat Z.add Z.eqb Pos.eqb].
      rewrite (jr_rows tok_float tok_int pdg_valid pdg_charge usqrt defstr) by exact Hrows0.
      unfold jadd_data. cbn [plist data counts cut app List.length]. reflexivity. }
    split.
    - intros e He. rewrite Hgen, He. reflexivity.
    - intros st Hst Hne. rewrite Hgen, Hst. cbn [bind].
      replace (Z.of_nat (List.length (plist st)) =? Z.of_nat (S (List.length ds)) - cut st)%Z with false
        by (symmetry; apply Z.eqb_neq; exact Hne).
      reflexivity.
  Qed.

  (* one particle line lost: fewer lines than declared -> the reader runs off the end of the file *)
  Theorem jet_lost_line h0 e0 evs trailer dc ds :
    is_count_line defstr h0 = false -> jl_events 0 (dc :: ds) (e0 :: evs) ->
    is_trailer trailer = true -> is_count_line defstr trailer = false ->
    (S (List.length (je_rows e0)) + List.length (jrender_events evs) < jtotal (dc :: ds))%nat ->
    JLOAD (h0 :: jrender_events (e0 :: evs) ++ [trailer])%list defstr SelAll = Err IndexError.
  Proof.
    intros Hh0 Hev Htr Htc Hlt.
    destruct (jload_prefix h0 e0 evs trailer dc ds Hh0 Hev Htr Htc ltac:(lia)) as (A & _).
    apply A. destruct Hev as (_ & Hrest).
    set (k := (S (jtotal (dc :: ds)) - S (List.length (je_rows e0)) - List.length (jrender_events evs))%nat).
    assert (Hk : exists k', k = S (S k')) by (exists (k - 2)%nat; unfold k; lia).
    destruct Hk as (k' & ->).
    rewrite (jr_events_g evs ds 0 (S (S k')) [trailer] [] (PARSE (je_rows e0)) _ 0%Z Hrest).
    cbn [jread]. unfold is_trailer in Htr. rewrite Htr. rewrite jclose_none. cbn [bind jread]. reflexivity.
  Qed.

  (* one particle line duplicated: one line more than declared -> the trailer is never reached, the last event
     is not closed and the number of events disagrees with the headers *)
  Theorem jet_extra_line h0 e0 evs trailer dc ds :
    is_count_line defstr h0 = false -> jl_events 0 (dc :: ds) (e0 :: evs) ->
    is_trailer trailer = true -> is_count_line defstr trailer = false ->
    (S (List.length (je_rows e0)) + List.length (jrender_events evs) = S (jtotal (dc :: ds)))%nat ->
    JLOAD (h0 :: jrender_events (e0 :: evs) ++ [trailer])%list defstr SelAll = Err IndexError.
  Proof.
    intros Hh0 Hev Htr Htc Heq.
    destruct (jload_prefix h0 e0 evs trailer dc ds Hh0 Hev Htr Htc ltac:(lia)) as (_ & B).
    destruct Hev as (_ & Hrest).
    replace (S (jtotal (dc :: ds)) - S (List.length (je_rows e0)) - List.length (jrender_events evs))%nat with 0%nat in B by lia.
    rewrite (jr_events_g evs ds 0 0 [trailer] [] (PARSE (je_rows e0)) _ 0%Z Hrest) in B.
    cbn [jread] in B. eapply B; [reflexivity|].
    cbn [plist cut]. rewrite Z.sub_0_r.
    (* one closed event per header after the first: |plist| = |evs| = |ds| < |ds| + 1 *)
    assert (Hlen : forall evs0 ds0 i pl cur, jl_events i ds0 evs0 ->
                   List.length (fst (JFOLD pl cur evs0)) = (List.length pl + List.length ds0)%nat).
    { induction evs0 as [|e t IH]; intros [|d0 ds0] i pl cur H; try contradiction; [cbn; lia|].
      destruct H as (_ & Ht). cbn [jfold]. rewrite (IH ds0 (S i) _ _ Ht). rewrite app_length. cbn. lia. }
    rewrite (Hlen evs ds 1%nat [] (PARSE (je_rows e0)) Hrest). cbn [List.length]. lia.
  Qed.
End P.

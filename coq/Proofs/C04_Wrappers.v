(* C04: the wrapper tables regenerated from the source cover Filter.py *)
From Coq Require Import List String Bool.
From SX Require Import Gen.GenStorerWrappers Model.StorerWrappers.

Lemma wrappers_cover : wrappers_ok = true.
Proof. vm_compute. reflexivity. Qed.

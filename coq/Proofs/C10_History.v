(* C10: the shape invariant over whole histories. *)
From Coq Require Import List ZArith QArith Qcanon Bool Arith Lia.
From SX Require Import Model.Histogram Lib.HistBase Proofs.C09_Count Proofs.C09_Scale Proofs.C10_Shape Proofs.C10_Avg.
Import ListNotations.
Local Open Scope nat_scope.

Section WithSqrt.
  Variable usqrt : Qc -> Qc.

  Lemma average_weighted_shape h ws h' : Shape h -> average_weighted usqrt h ws = Ok h' -> Shape h' /\ nhist h' = 1.
  Proof. intros Sh E. destruct (average_weighted_spec usqrt h ws h' Sh E) as [S' [N' _]]. auto. Qed.

  Lemma average_by_error_shape h h' : Shape h -> average_weighted_by_error usqrt h = Ok h' -> Shape h' /\ nhist h' = 1.
  Proof.
    intros [Hn [He [SH [SR [SE [SS SY]]]]]] E. unfold average_weighted_by_error in E.
    destruct SH as [rows [EH [LH FH]]]. destruct SR as [raws [ER [LR FR]]]. destruct SE as [erows [EE [LE FE]]].
    destruct SY as [srows [EY [LY FY]]]. destruct SS as [crows [ES [LS FS]]].
    rewrite EH, ER, EE, EY, ES in E. cbn [rows_of bind] in E.
    destruct (existsb (existsb c_is0) erows); [discriminate|].
    assert (Nr : rows <> []) by (destruct rows; [simpl in LH; lia | congruence]).
    assert (Nw : raws <> []) by (destruct raws; [simpl in LR; lia | congruence]).
    assert (Ne : erows <> []) by (destruct erows; [simpl in LE; lia | congruence]).
    assert (Ns : srows <> []) by (destruct srows; [simpl in LY; lia | congruence]).
    set (W := map (map (fun e => cdiv c1 (csq e))) erows) in *.
    assert (FW : Forall (fun r => length r = nbins h) W).
    { apply Forall_map. eapply Forall_impl; [|exact FE]. intros r Lr. now rewrite map_length. }
    assert (NW : W <> []) by (unfold W; destruct erows; [congruence | discriminate]).
    destruct (average0_2d rows W) as [avg|] eqn:Ea; [|discriminate]. cbn [bind] in E.
    pose proof (average0_2d_length (nbins h) _ _ _ Nr FH Ea) as La.
    assert (Fq : Forall (fun r => length r = nbins h) (map (map csq) srows)).
    { apply Forall_map. eapply Forall_impl; [|exact FY]. intros r Lr. now rewrite map_length. }
    assert (Nq : map (map csq) srows <> []) by (destruct srows; [congruence | discriminate]).
    destruct (average0_2d (map (map csq) srows) W) as [savg|] eqn:Es; [|discriminate]. cbn [bind] in E.
    pose proof (average0_2d_length (nbins h) _ _ _ Nq Fq Es) as Ls.
    destruct crows as [|c0row crest]; [simpl in LS; lia|]. cbn [first_row_2d bind] in E.
    injection E as <-. cbn [reshape_row]. split; [|reflexivity].
    unfold Shape; cbn. inversion FS; subst. repeat split; auto; apply Shape2_single;
    rewrite ?map_length; auto; apply colsum_length; auto.
  Qed.

  (* every operation that returns preserves the invariant *)
  Lemma step_shape h o h' : Shape h -> step usqrt h o = Ok h' -> Shape h'.
  Proof.
    intros Sh E. destruct o; cbn [step] in E.
    - eapply add_value_shape; eauto.
    - eapply add_histogram_shape; eauto.
    - eapply scale_shape; eauto.
    - eapply set_error_shape; eauto.
    - eapply set_systematic_error_shape; eauto.
    - eapply statistical_error_Shape; eauto.
    - eapply make_density_shape; eauto.
    - eapply add_bin_shape; eauto.
    - eapply remove_bin_shape; eauto.
    - unfold average in E. eapply average_weighted_shape; eauto.
    - eapply average_weighted_shape; eauto.
    - eapply average_by_error_shape; eauto.
  Qed.

  Lemma run_shape : forall ops h h', Shape h -> run usqrt h ops = Ok h' -> Shape h'.
  Proof.
    induction ops as [|o t IH]; intros h h' Sh E.
    - injection E as <-. exact Sh.
    - cbn [run] in E. inv_bind E. eapply IH; [|exact E]. eapply step_shape; eauto.
  Qed.

  (* averaging leaves exactly one histogram *)
  Lemma average_one h o h' : Shape h -> (o = OAverage \/ (exists ws, o = OAvgW ws) \/ o = OAvgErr) ->
    step usqrt h o = Ok h' -> nhist h' = 1.
  Proof.
    intros Sh [->|[[ws ->]| ->]] E; cbn [step] in E.
    - unfold average in E. eapply average_weighted_shape; eauto.
    - eapply average_weighted_shape; eauto.
    - eapply average_by_error_shape; eauto.
  Qed.
End WithSqrt.

(* the constructors establish the invariant *)
Lemma init_list_shape es h : init_list es = Ok h -> Shape h.
Proof.
  unfold init_list. destruct es as [|e t]; [discriminate|]. intros E. injection E as <-.
  apply fresh_Shape. simpl. lia.
Qed.

Lemma init_tuple_shape ul lo hi b n h :
  (forall lo hi n, length (ul lo hi n) = S n) -> init_tuple ul lo hi b n = Ok h -> Shape h.
Proof.
  intros L E. unfold init_tuple in E.
  destruct (_ || _); [discriminate|]. destruct (_ || _); [discriminate|]. injection E as <-.
  apply fresh_Shape, L.
Qed.

(* C19 source tie: the hand model Model/Centrality.v equals CentralityClasses.py as regenerated into
   Gen/GenCentralityMethods.v on every run (tools/py2coq/gen_centrality_methods.py, runtime Model/CentralityRt.v).
   One theorem per translated method.  Model/Centrality.v has no counterpart for dNchdetaAvg_/dNchdetaAvgErr_, the
   warnings and the output file; their closed forms are stated here ([avgs], [warns_model], [out_row]) and proved
   equal to the regenerated methods as well. *)
From Coq Require Import List ZArith QArith Qround Bool String Lia.
From SX Require Import Lib.Py Lib.PyLemmas Gen.GenCentrality Model.Centrality Model.CentralityRt
  Gen.GenCentralityMethods.
Import ListNotations.

(* ---- lists, ranges --------------------------------------------------------------------------------------- *)
Lemma py_range_nil a b : (b <= a)%Z -> py_range a b = [].
Proof. intros H. unfold py_range. replace (Z.to_nat (b - a)) with 0%nat by lia. reflexivity. Qed.

Lemma py_range_cons a b : (a < b)%Z -> py_range a b = a :: py_range (a + 1) b.
Proof.
  intros H. unfold py_range.
  replace (Z.to_nat (b - a)) with (S (Z.to_nat (b - (a + 1)))) by lia.
  cbn [seq map]. f_equal; [lia|].
  rewrite <- seq_shift, map_map. apply map_ext. intros k. lia.
Qed.

Lemma zlen_app {A} (l1 l2 : list A) : zlen (l1 ++ l2) = (zlen l1 + zlen l2)%Z.
Proof. unfold zlen. rewrite app_length. lia. Qed.

Lemma zlen_cons {A} (a : A) l : zlen (a :: l) = (zlen l + 1)%Z.
Proof. unfold zlen. cbn [List.length]. lia. Qed.

Lemma zlen_nonneg {A} (l : list A) : (0 <= zlen l)%Z.
Proof. unfold zlen. lia. Qed.

Lemma pyget_nth {A} (l : list A) (i : nat) a : nth_error l i = Some a -> pyget l (Z.of_nat i) = Ok a.
Proof.
  intros H. unfold pyget.
  assert (E : (Z.of_nat i <? 0)%Z = false) by (apply Z.ltb_ge; lia).
  rewrite E, E, Nat2Z.id, H. reflexivity.
Qed.

Lemma pyget_mid {A} (pre : list A) x post : pyget (pre ++ x :: post) (zlen pre) = Ok x.
Proof. apply pyget_nth. rewrite nth_error_app2, Nat.sub_diag by lia. reflexivity. Qed.

(* ---- the primitives of the runtime are those of the hand model -------------------------------------------- *)
Lemma q_sort_eq l : q_sort l = sort_asc l.
Proof.
  unfold q_sort, sort_asc. induction l as [|x l IH]; [reflexivity|]. cbn [fold_right]. rewrite IH.
  generalize (fold_right ins_asc [] l). intros m. induction m as [|y m IHm]; [reflexivity|].
  cbn [q_insert ins_asc]. rewrite IHm. reflexivity.
Qed.

Section Src.
Variables T F : Type.
Variable leb : T -> T -> bool.
Variable t0 : T.
Variable f_mean : list T -> F.
Variable f_sqrt : F -> F.
Variables f_add f_sub f_mul f_div : F -> F -> F.
Variable f_pow : F -> Z -> F.
Variable f_lit : Q -> F.

Local Notation g_create := (gen_create_centrality_classes T F leb t0 f_mean f_sqrt f_add f_sub f_div f_pow f_lit).
Local Notation g_init := (gen_init T F leb t0 f_mean f_sqrt f_add f_sub f_div f_pow f_lit).
Local Notation g_get := (gen_get_centrality_class T F leb).
Local Notation g_out := (gen_output_centrality_classes T F).

Lemma sorted_rev_eq l : py_sorted_rev leb l = sort_desc T leb l.
Proof.
  unfold py_sorted_rev, sort_desc. induction l as [|x l IH]; [reflexivity|]. cbn [fold_right]. rewrite IH.
  generalize (fold_right (ins_desc T leb) [] l). intros m. induction m as [|y m IHm]; [reflexivity|].
  cbn [t_insert_desc ins_desc]. rewrite IHm. reflexivity.
Qed.

Lemma te_ge_eq x m : te_ge leb x m = ge_ext T leb x m.
Proof. destruct m; reflexivity. Qed.
Lemma te_lt_eq x m : te_lt leb x m = lt_ext T leb x m.
Proof. destruct m; reflexivity. Qed.

(* ================= closed forms of what Model/Centrality.v does not contain ================================ *)
(* the four sub-samples: events 0,4,8,.. / 1,5,9,.. / 2,6,.. / 3,7,.. in input order *)
Definition sub_from (i k : Z) (l : list T) : list T :=
  map snd (filter (fun p => (fst p mod 4 =? k)%Z) (enumerate_from i l)).
Definition subsample (k : Z) (l : list T) : list T := sub_from 0 k l.
(* int(number_events / 4 * edge / 100.0) *)
Definition rank4 (N : Z) (e : Q) : Z := Qtrunc (Qdiv (Qmult (Qdiv (inject_Z N) (4 # 1)) e) (100 # 1)).
Definition avg4 (a b c d : F) : F := f_div (f_add (f_add (f_add a b) c) d) (f_lit (4 # 1)).
Definition err4 (a b c d : F) : F :=
  let m := avg4 a b c d in
  f_sqrt (f_div (f_add (f_add (f_add (f_pow (f_sub a m) 2) (f_pow (f_sub b m) 2)) (f_pow (f_sub c m) 2))
                       (f_pow (f_sub d m) 2)) (f_lit (3 # 1))).
(* dNchdetaAvg_ / dNchdetaAvgErr_: per class the mean of the four sub-sample means over the sub-sample ranks
   MinRecord..MaxRecord-1 (Python slice), and their spread *)
Fixpoint avgs (N : Z) (sA sB sC sD : list T) (MinRecord : Z) (es : list Q) : list F * list F :=
  match es with
  | [] => ([], [])
  | e :: es' =>
    let MaxRecord := rank4 N e in
    let a := f_mean (py_slice sA MinRecord MaxRecord) in
    let b := f_mean (py_slice sB MinRecord MaxRecord) in
    let c := f_mean (py_slice sC MinRecord MaxRecord) in
    let d := f_mean (py_slice sD MinRecord MaxRecord) in
    let r := avgs N sA sB sC sD MaxRecord es' in
    (avg4 a b c d :: fst r, err4 a b c d :: snd r)
  end.
Definition avgs_of (sample : list T) (bs : list Q) : list F * list F :=
  match bs with
  | [] => ([], [])
  | e0 :: rest =>
    avgs (zlen sample) (sort_desc T leb (subsample 0 sample)) (sort_desc T leb (subsample 1 sample))
         (sort_desc T leb (subsample 2 sample)) (sort_desc T leb (subsample 3 sample)) (rank4 (zlen sample) e0) rest
  end.
(* the object __init__ leaves behind *)
Definition self_of (sample : list T) (st : cstate T) : cself T F :=
  CSelf (Some sample) (Some (bins st)) (Some (dmin st)) (Some (dmax st))
        (Some (fst (avgs_of sample (bins st)))) (Some (snd (avgs_of sample (bins st)))).
(* the object on which __init__ calls __create_centrality_classes *)
Definition self_before (sample : list T) (bs : list Q) : cself T F :=
  CSelf (Some sample) (Some bs) (Some []) (Some []) (Some []) (Some []).
(* __create_centrality_classes on that object (the range check of the edges is in __init__) *)
Definition create_model (sample : list T) (bs : list Q) : result (cself T F) :=
  let N := zlen sample in
  if (N <? 4)%Z then Err ValueError else
  if existsb (fun m => negb (leb t0 m)) sample then Err ValueError else
  match bs with
  | [] => Err IndexError
  | e0 :: rest =>
    rbind (bounds T N (sort_desc T leb sample) (gen_rank N e0) rest) (fun r =>
    Ok (CSelf (Some sample) (Some bs) (Some (fst r)) (Some (snd r))
              (Some (fst (avgs_of sample bs))) (Some (snd (avgs_of sample bs)))))
  end.
(* warnings of __init__: 0 = "not sorted", 1 = "duplicate values" (ordinals of the warn statements) *)
Fixpoint has_dup (seen : list Q) (l : list Q) : bool :=
  match l with
  | [] => false
  | x :: t => if existsb (Qeq_bool x) seen then true else has_dup (x :: seen) t
  end.
Definition warns_model (edges : list Q) : list nat :=
  ((if sorted_q edges then [] else [0]) ++ (if has_dup [] (sorted_edges edges) then [1] else []))%nat.
Definition arg_seq {A} (a : pyarg A) : option (list A) :=
  match a with PyList l | PyArray l => Some l | PyOther => None end.
(* the output file: a header, then one line per class EXCEPT THE LAST ONE (the loop of the source is
   range(1, len(dNchdetaMin_))): edges j, j+1 and the entries j *)
Definition out_header : line T F :=
  [PS "# CentralityMin CentralityMax dNchdEtaMin dNchdEtaMax dNchdEtaAvg dNchdEtaAvgErr"%string].
Definition out_line (ea eb : Q) (mn : ext T) (mx : T) (av er : F) : line T F :=
  [PQ ea; PS " - "%string; PQ eb; PS " "%string; PE mn; PS " "%string; PT mx; PS " "%string; PF av; PS " "%string; PF er].
Definition out_row (bs : list Q) (mn : list (ext T)) (mx : list T) (av er : list F) (j : nat) : line T F :=
  out_line (nth j bs 0) (nth (S j) bs 0) (nth j mn Inf) (nth j mx t0) (nth j av (f_lit 0)) (nth j er (f_lit 0)).
Definition out_model (bs : list Q) (mn : list (ext T)) (mx : list T) (av er : list F) : list (line T F) :=
  out_header :: map (out_row bs mn mx av er) (seq 0 (List.length mn - 1)).

(* ================= __create_centrality_classes ============================================================ *)
(* the distribution loop *)
Lemma split_loop (body : list T * list T * list T * list T -> Z * T -> result (list T * list T * list T * list T)) :
  (forall A B C D i m, body (A, B, C, D) (i, m) =
     if negb (leb t0 m) then Err ValueError
     else Ok (if (i mod 4 =? 0)%Z then ((A ++ [m])%list, B, C, D)
              else if (i mod 4 =? 1)%Z then (A, (B ++ [m])%list, C, D)
              else if (i mod 4 =? 2)%Z then (A, B, (C ++ [m])%list, D)
              else if (i mod 4 =? 3)%Z then (A, B, C, (D ++ [m])%list) else (A, B, C, D))) ->
  forall l i A B C D,
  loopE body (enumerate_from i l) (A, B, C, D) =
    if existsb (fun m => negb (leb t0 m)) l then Err ValueError
    else Ok ((A ++ sub_from i 0 l)%list, (B ++ sub_from i 1 l)%list, (C ++ sub_from i 2 l)%list, (D ++ sub_from i 3 l)%list).
Proof.
  intros H. induction l as [|m l IH]; intros i A B C D.
  - cbn. rewrite !app_nil_r. reflexivity.
  - cbn [enumerate_from loopE existsb]. rewrite H. destruct (negb (leb t0 m)); [reflexivity|]. cbn [orb].
    unfold sub_from. cbn [enumerate_from filter fst].
    destruct (i mod 4 =? 0)%Z eqn:E0.
    { apply Z.eqb_eq in E0. rewrite E0. cbn [Z.eqb Pos.eqb map snd]. rewrite IH. unfold sub_from.
      destruct (existsb _ l); [reflexivity|]. rewrite <- app_assoc. reflexivity. }
    destruct (i mod 4 =? 1)%Z eqn:E1.
    { apply Z.eqb_eq in E1. rewrite E1. cbn [Z.eqb Pos.eqb map snd]. rewrite IH. unfold sub_from.
      destruct (existsb _ l); [reflexivity|]. rewrite <- app_assoc. reflexivity. }
    destruct (i mod 4 =? 2)%Z eqn:E2.
    { apply Z.eqb_eq in E2. rewrite E2. cbn [Z.eqb Pos.eqb map snd]. rewrite IH. unfold sub_from.
      destruct (existsb _ l); [reflexivity|]. rewrite <- app_assoc. reflexivity. }
    destruct (i mod 4 =? 3)%Z eqn:E3.
    { rewrite IH. unfold sub_from. cbn [map snd].
      destruct (existsb _ l); [reflexivity|]. rewrite <- app_assoc. reflexivity. }
    rewrite IH. reflexivity.
Qed.

Definition last_rank4 (N : Z) (m : Z) (es : list Q) : Z := fold_left (fun _ e => rank4 N e) es m.
Definition last_rank (N : Z) (m : Z) (es : list Q) : Z := fold_left (fun _ e => gen_rank N e) es m.

(* the loop over the classes that fills dNchdetaAvg_ / dNchdetaAvgErr_ *)
Lemma avg_loop N sA sB sC sD em bs mn mx (body : cself T F * Z -> Z -> result (cself T F * Z)) :
  (forall Min i e av er, pyget bs i = Ok e ->
     body (CSelf em (Some bs) mn mx (Some av) (Some er), Min) i =
       let Max := rank4 N e in
       let a := f_mean (py_slice sA Min Max) in let b := f_mean (py_slice sB Min Max) in
       let c := f_mean (py_slice sC Min Max) in let d := f_mean (py_slice sD Min Max) in
       Ok (CSelf em (Some bs) mn mx (Some (av ++ [avg4 a b c d])%list) (Some (er ++ [err4 a b c d])%list), Max)) ->
  forall es pre Min av er, bs = (pre ++ es)%list ->
  loopE body (py_range (zlen pre) (zlen bs)) (CSelf em (Some bs) mn mx (Some av) (Some er), Min) =
    Ok (CSelf em (Some bs) mn mx (Some (av ++ fst (avgs N sA sB sC sD Min es))%list)
                                  (Some (er ++ snd (avgs N sA sB sC sD Min es))%list), last_rank4 N Min es).
Proof.
  intros H. induction es as [|e es IH]; intros pre Min av er E.
  - rewrite py_range_nil by (subst bs; rewrite app_nil_r; lia). cbn. rewrite !app_nil_r. reflexivity.
  - rewrite py_range_cons by (subst bs; rewrite zlen_app, zlen_cons; pose proof (zlen_nonneg es); lia).
    cbn [loopE]. rewrite (H Min (zlen pre) e av er) by (subst bs; apply pyget_mid). cbv zeta.
    replace (zlen pre + 1)%Z with (zlen (pre ++ [e])) by (rewrite zlen_app; reflexivity).
    rewrite (IH (pre ++ [e])%list) by (subst bs; rewrite <- app_assoc; reflexivity).
    cbn [avgs fst snd last_rank4 fold_left]. rewrite <- !app_assoc. reflexivity.
Qed.

(* the loop over the classes that fills dNchdetaMax_ / dNchdetaMin_ *)
Lemma bounds_loop N record em bs av er (body : cself T F * Z -> Z -> result (cself T F * Z)) :
  (forall Min i e mn mx, pyget bs i = Ok e ->
     body (CSelf em (Some bs) (Some mn) (Some mx) av er, Min) i =
       rbind (gen_max_entry T record Min (gen_rank N e)) (fun x =>
       rbind (gen_min_entry T record Min (gen_rank N e)) (fun y =>
       Ok (CSelf em (Some bs) (Some (mn ++ [y])%list) (Some (mx ++ [x])%list) av er, gen_rank N e)))) ->
  forall es pre Min mn mx, bs = (pre ++ es)%list ->
  loopE body (py_range (zlen pre) (zlen bs)) (CSelf em (Some bs) (Some mn) (Some mx) av er, Min) =
    rbind (bounds T N record Min es) (fun r =>
    Ok (CSelf em (Some bs) (Some (mn ++ fst r)%list) (Some (mx ++ snd r)%list) av er, last_rank N Min es)).
Proof.
  intros H. induction es as [|e es IH]; intros pre Min mn mx E.
  - rewrite py_range_nil by (subst bs; rewrite app_nil_r; lia). cbn. rewrite !app_nil_r. reflexivity.
  - rewrite py_range_cons by (subst bs; rewrite zlen_app, zlen_cons; pose proof (zlen_nonneg es); lia).
    cbn [loopE bounds]. rewrite (H Min (zlen pre) e mn mx) by (subst bs; apply pyget_mid).
    destruct (gen_max_entry T record Min (gen_rank N e)) as [x|c]; cbn [rbind]; [|reflexivity].
    destruct (gen_min_entry T record Min (gen_rank N e)) as [y|c]; cbn [rbind]; [|reflexivity].
    replace (zlen pre + 1)%Z with (zlen (pre ++ [e])) by (rewrite zlen_app; reflexivity).
    rewrite (IH (pre ++ [e])%list) by (subst bs; rewrite <- app_assoc; reflexivity).
    destruct (bounds T N record (gen_rank N e) es) as [r|c]; cbn [rbind fst snd]; [|reflexivity].
    cbn [last_rank fold_left]. rewrite <- !app_assoc. reflexivity.
Qed.

Theorem source_create : forall sample bs, g_create (self_before sample bs) = create_model sample bs.
Proof.
  intros sample bs. unfold gen_create_centrality_classes, create_model, self_before.
  cbn [rd events_multiplicity_ centrality_bins_]. cbv zeta.
  destruct (zlen sample <? 4)%Z; [reflexivity|].
  rewrite split_loop by (intros A B C D i m; unfold t_lt;
    destruct (negb (leb t0 m)), (i mod 4 =? 0)%Z, (i mod 4 =? 1)%Z, (i mod 4 =? 2)%Z, (i mod 4 =? 3)%Z; reflexivity).
  destruct (existsb (fun m => negb (leb t0 m)) sample); [reflexivity|].
  cbn [app].
  destruct bs as [|e0 rest]; [reflexivity|].
  change (pyget (e0 :: rest) 0) with (Ok e0). cbv iota.
  match goal with |- context [loopE ?b (py_range 1 (zlen (e0 :: rest))) (?s, ?m)] =>
    rewrite (avg_loop (zlen sample) (sort_desc T leb (sub_from 0 0 sample)) (sort_desc T leb (sub_from 0 1 sample))
               (sort_desc T leb (sub_from 0 2 sample)) (sort_desc T leb (sub_from 0 3 sample))
               (Some sample) (e0 :: rest) (Some []) (Some []) b) with (es := rest) (pre := [e0])
  end; [| | reflexivity].
  2:{ intros Min i e av er G. cbn [rd centrality_bins_ dNchdetaAvg_ dNchdetaAvgErr_ set_dNchdetaAvg_ set_dNchdetaAvgErr_
        events_multiplicity_ dNchdetaMin_ dNchdetaMax_]. rewrite G. reflexivity. }
  cbn [rd events_multiplicity_ centrality_bins_ app].
  change (pyget (e0 :: rest) 0) with (Ok e0). cbv iota.
  change (py_sorted_rev leb sample) with (sort_desc T leb sample).
  match goal with |- context [loopE ?b (py_range 1 (zlen (e0 :: rest))) (?s, ?m)] =>
    rewrite (bounds_loop (zlen sample) (sort_desc T leb sample) (Some sample) (e0 :: rest)
               (Some (fst (avgs_of sample (e0 :: rest)))) (Some (snd (avgs_of sample (e0 :: rest)))) b)
      with (es := rest) (pre := [e0])
  end; [| | reflexivity].
  2:{ intros Min i e mn mx G. cbn [rd centrality_bins_ dNchdetaMin_ dNchdetaMax_ set_dNchdetaMin_ set_dNchdetaMax_
        events_multiplicity_ dNchdetaAvg_ dNchdetaAvgErr_]. rewrite G.
      unfold gen_max_entry, gen_min_entry, gen_rank.
      destruct (pyget (sort_desc T leb sample) Min); cbn [rbind]; [|reflexivity].
      match goal with |- context [(0 <? ?r)%Z] => destruct (0 <? r)%Z end; [|reflexivity].
      match goal with |- context [pyget ?l ?r] => destruct (pyget l r) end; reflexivity. }
  unfold gen_rank.
  match goal with |- context [bounds T ?n ?r ?m rest] => destruct (bounds T n r m rest) end; reflexivity.
Qed.

(* an object on which __init__ has not stored the attributes: AttributeError *)
Theorem source_create_unset : g_create cs_new = Err AttributeError.
Proof. reflexivity. Qed.

(* ================= __init__ =============================================================================== *)
Lemma sorted_loop : forall (l pre : list Q),
  all_res (fun i => match pyget (pre ++ l) i with
                    | Err e => Err e
                    | Ok x1 => match pyget (pre ++ l) (i + 1) with Err e => Err e | Ok x2 => Ok (Qle_bool x1 x2) end
                    end) (py_range (zlen pre) (zlen (pre ++ l) - 1)) = Ok (sorted_q l).
Proof.
  induction l as [|a l IH]; intros pre.
  - rewrite py_range_nil by (rewrite app_nil_r; lia). reflexivity.
  - destruct l as [|b l].
    + rewrite py_range_nil by (rewrite zlen_app; unfold zlen; cbn [List.length]; lia). reflexivity.
    + rewrite py_range_cons by (rewrite zlen_app, !zlen_cons; pose proof (zlen_nonneg l); lia).
      cbn [all_res]. rewrite pyget_mid.
      replace (zlen pre + 1)%Z with (zlen (pre ++ [a])) by (rewrite zlen_app; reflexivity).
      replace (pre ++ a :: b :: l)%list with ((pre ++ [a]) ++ b :: l)%list by (rewrite <- app_assoc; reflexivity).
      rewrite pyget_mid. change (sorted_q (a :: b :: l)) with (Qle_bool a b && sorted_q (b :: l)).
      destruct (Qle_bool a b); [|reflexivity]. rewrite IH. reflexivity.
Qed.

Lemma dedup_loop (body : list Q * qset * bool -> Q -> list Q * qset * bool) :
  (forall u s f x, body (u, s, f) x = if negb (set_mem x s) then ((u ++ [x])%list, set_add x s, f) else (u, s, true)) ->
  forall l u s f, exists s', fold_left body l (u, s, f) = ((u ++ dedup s l)%list, s', f || has_dup s l).
Proof.
  intros H. induction l as [|x l IH]; intros u s f.
  - exists s. cbn. rewrite app_nil_r, orb_false_r. reflexivity.
  - cbn [fold_left dedup has_dup]. rewrite H. unfold set_mem, set_add.
    destruct (existsb (Qeq_bool x) s); cbn [negb].
    + destruct (IH u s true) as [s' E]. exists s'. rewrite E, orb_true_r. reflexivity.
    + destruct (IH (u ++ [x])%list (x :: s) f) as [s' E]. exists s'. rewrite E, <- app_assoc. reflexivity.
Qed.

Lemma construct_create sample edges :
  rbind (construct T leb t0 sample edges) (fun st => Ok (self_of sample st)) =
    if existsb out_of_range (sorted_edges edges) then Err ValueError
    else create_model sample (dedup [] (sorted_edges edges)).
Proof.
  unfold construct, create_model, self_of, gen_min_events, zlen.
  destruct (existsb out_of_range (sorted_edges edges)); [reflexivity|].
  destruct (Z.of_nat (List.length sample) <? 4)%Z; [reflexivity|].
  destruct (existsb (fun m => negb (leb t0 m)) sample); [reflexivity|].
  destruct (dedup [] (sorted_edges edges)) as [|e0 rest]; [reflexivity|].
  match goal with |- context [bounds T ?n ?r ?m rest] => destruct (bounds T n r m rest) end; reflexivity.
Qed.

Lemma sorted_loop0 (l : list Q) :
  all_res (fun i => match pyget l i with
                    | Err e => Err e
                    | Ok x1 => match pyget l (i + 1) with Err e => Err e | Ok x2 => Ok (Qle_bool x1 x2) end
                    end) (py_range 0 (zlen l - 1)) = Ok (sorted_q l).
Proof. exact (sorted_loop l []). Qed.

Lemma init_seq (a : pyarg T) (b : pyarg Q) sample edges :
  arg_narrow a [Ty_list; Ty_ndarray] = Some sample -> arg_narrow b [Ty_list; Ty_ndarray] = Some edges ->
  g_init a b = (warns_model edges, rbind (construct T leb t0 sample edges) (fun st => Ok (self_of sample st))).
Proof.
  intros Ha Hb. unfold gen_init. rewrite Ha, Hb. cbv zeta.
  rewrite sorted_loop0, construct_create. unfold warns_model, sorted_edges. rewrite <- (q_sort_eq edges).
  destruct (sorted_q edges); cbn [negb app]; cbv iota.
  all: match goal with |- context [fold_left ?body ?l ([], set_empty, false)] =>
    assert (H : forall u s f x, body (u, s, f) x
                  = if negb (set_mem x s) then ((u ++ [x])%list, set_add x s, f) else (u, s, true))
      by (intros u s f x; destruct (negb (set_mem x s)); reflexivity);
    destruct (dedup_loop body H l [] set_empty false) as [s' E];
    rewrite E; cbn [app orb]; unfold set_empty; cbv iota;
    change (existsb (fun v => q_lt v 0 || q_lt 100 v) l) with (existsb out_of_range l);
    destruct (existsb out_of_range l); [destruct (has_dup [] l); reflexivity|];
    change (set_dNchdetaAvgErr_ _ _) with (self_before sample (dedup [] l));
    rewrite source_create; destruct (create_model sample (dedup [] l)), (has_dup [] l); reflexivity
  end.
Qed.

Theorem source_init : forall (em : pyarg T) (cb : pyarg Q),
  g_init em cb =
    match arg_seq em, arg_seq cb with
    | Some sample, Some edges =>
      (warns_model edges, rbind (construct T leb t0 sample edges) (fun st => Ok (self_of sample st)))
    | _, _ => ([], Err TypeError)
    end.
Proof.
  intros em cb. destruct em as [sample|sample|], cb as [edges|edges|]; cbn [arg_seq];
    first [apply init_seq; reflexivity | reflexivity].
Qed.

(* ================= get_centrality_class ==================================================================== *)
Lemma scan_loop (mins : list (ext T)) (x : T) (body : Z -> result (option Z)) :
  (forall i, body i =
     match pyget mins i with
     | Err e => Err e
     | Ok m => match (if te_ge leb x m
                      then match pyget mins (i - 1) with Err e => Err e | Ok p => Ok (te_lt leb x p) end
                      else Ok false) with
               | Err e => Err e
               | Ok b => if b then Ok (Some i) else Ok None
               end
     end) ->
  forall l pre prev post, mins = (pre ++ prev :: l ++ post)%list ->
  match loopR body (py_range (zlen pre + 1) (zlen pre + 1 + zlen l)) with
  | Err e => Err e
  | Ok (Some r) => Ok r
  | Ok None => Ok (-1)%Z
  end = Ok (scan T leb x prev l (zlen pre + 1)).
Proof.
  intros H. induction l as [|m l IH]; intros pre prev post E.
  - rewrite py_range_nil by (unfold zlen; cbn [List.length]; lia). reflexivity.
  - rewrite py_range_cons by (rewrite zlen_cons; pose proof (zlen_nonneg l); lia).
    cbn [loopR scan]. rewrite H.
    assert (G1 : pyget mins (zlen pre + 1) = Ok m).
    { subst mins. replace (zlen pre + 1)%Z with (zlen (pre ++ [prev])) by (rewrite zlen_app; reflexivity).
      replace (pre ++ prev :: (m :: l) ++ post)%list with ((pre ++ [prev]) ++ m :: l ++ post)%list
        by (rewrite <- app_assoc; reflexivity).
      apply pyget_mid. }
    assert (G0 : pyget mins (zlen pre + 1 - 1) = Ok prev).
    { subst mins. replace (zlen pre + 1 - 1)%Z with (zlen pre) by lia. apply pyget_mid. }
    rewrite G1, G0, te_ge_eq, te_lt_eq.
    destruct (ge_ext T leb x m); cbn [andb]; [destruct (lt_ext T leb x prev); [reflexivity|]|].
    + replace (zlen pre + 1 + 1)%Z with (zlen (pre ++ [prev]) + 1)%Z by (rewrite zlen_app; reflexivity).
      replace (zlen pre + 1 + zlen (m :: l))%Z with (zlen (pre ++ [prev]) + 1 + zlen l)%Z
        by (rewrite zlen_app, !zlen_cons; unfold zlen; cbn [List.length]; lia).
      apply (IH (pre ++ [prev])%list m post). subst mins. rewrite <- app_assoc. reflexivity.
    + replace (zlen pre + 1 + 1)%Z with (zlen (pre ++ [prev]) + 1)%Z by (rewrite zlen_app; reflexivity).
      replace (zlen pre + 1 + zlen (m :: l))%Z with (zlen (pre ++ [prev]) + 1 + zlen l)%Z
        by (rewrite zlen_app, !zlen_cons; unfold zlen; cbn [List.length]; lia).
      apply (IH (pre ++ [prev])%list m post). subst mins. rewrite <- app_assoc. reflexivity.
Qed.

Theorem source_get : forall (self : cself T F) (x : T),
  g_get self x = match dNchdetaMin_ self with
                 | None => Err AttributeError
                 | Some mins => lookup T leb mins x
                 end.
Proof.
  intros [em bs [mins|] mx av er] x; unfold gen_get_centrality_class; cbn [rd dNchdetaMin_]; [|reflexivity].
  unfold lookup. destruct mins as [|m0 tl]; [reflexivity|].
  change (pyget (m0 :: tl) 0) with (Ok m0). cbn [rbind]. rewrite te_ge_eq.
  destruct (ge_ext T leb x m0); [reflexivity|].
  change (Z.of_nat (List.length (m0 :: tl))) with (zlen (m0 :: tl)).
  destruct (pyget (m0 :: tl) (zlen (m0 :: tl) - 2)) as [mk|c]; cbn [rbind]; [|reflexivity].
  rewrite te_lt_eq. destruct (lt_ext T leb x mk); [reflexivity|].
  set (k := zlen (m0 :: tl)). set (l := firstn (Z.to_nat (k - 2)) (List.tl (m0 :: tl))).
  assert (R : py_range 1 (k - 1) = py_range (zlen (@nil (ext T)) + 1) (zlen (@nil (ext T)) + 1 + zlen l)).
  { change (zlen (@nil (ext T))) with 0%Z. change (0 + 1)%Z with 1%Z.
    destruct tl as [|m1 tl'].
    - rewrite !py_range_nil; [reflexivity| |]; subst k l; unfold zlen; cbn; lia.
    - f_equal. subst k l. cbn [List.tl]. unfold zlen. rewrite firstn_length. cbn [List.length]. lia. }
  rewrite R.
  match goal with |- context [loopR ?b _] => apply (scan_loop (m0 :: tl) x b) with (post := skipn (Z.to_nat (k - 2)) tl) end.
  - intros i. reflexivity.
  - cbn [app List.tl]. subst l. cbn [List.tl]. rewrite firstn_skipn. reflexivity.
Qed.

(* ================= output_centrality_classes =============================================================== *)
Lemma rows_loop (row : nat -> line T F) (body : file T F -> unit -> Z -> file T F * result unit) :
  forall (n j0 : nat) (c : list (line T F)),
  (forall j c', (j0 <= j < j0 + n)%nat -> body (Some c') tt (Z.of_nat (S j)) = (Some (c' ++ [row j])%list, Ok tt)) ->
  loopS body (py_range (Z.of_nat (S j0)) (Z.of_nat (S j0) + Z.of_nat n)) (Some c) tt
    = (Some (c ++ map row (seq j0 n))%list, Ok tt).
Proof.
  induction n as [|n IH]; intros j0 c H.
  - rewrite py_range_nil by lia. cbn. rewrite app_nil_r. reflexivity.
  - rewrite py_range_cons by lia. cbn [loopS]. rewrite H by lia.
    replace (Z.of_nat (S j0) + 1)%Z with (Z.of_nat (S (S j0))) by lia.
    replace (Z.of_nat (S j0) + Z.of_nat (S n))%Z with (Z.of_nat (S (S j0)) + Z.of_nat n)%Z by lia.
    rewrite IH by (intros j c' J; apply H; lia).
    cbn [seq map]. rewrite <- app_assoc. reflexivity.
Qed.

(* an object as __init__ leaves it: k >= 1 classes, k+1 edges *)
Definition shaped (bs : list Q) (mn : list (ext T)) (mx : list T) (av er : list F) : Prop :=
  List.length bs = S (List.length mn) /\ List.length mx = List.length mn /\
  List.length av = List.length mn /\ List.length er = List.length mn.

Theorem source_output : forall em bs mn mx av er (fs : file T F) (name : string),
  shaped bs mn mx av er ->
  g_out (CSelf em (Some bs) (Some mn) (Some mx) (Some av) (Some er)) fs (PyStr name)
    = (Some (out_model bs mn mx av er), Ok tt).
Proof.
  intros em bs mn mx av er fs name (Lb & Lx & La & Le).
  unfold gen_output_centrality_classes. cbn [str_narrow has_ty existsb pyty_eqb orb].
  cbn [fs_open fs_write String.eqb Ascii.eqb Bool.eqb content app rd dNchdetaMin_].
  set (k := List.length mn).
  assert (R : py_range 1 (zlen mn) = py_range (Z.of_nat 1) (Z.of_nat 1 + Z.of_nat (k - 1))).
  { destruct mn as [|m mn'].
    - rewrite !py_range_nil; [reflexivity| |]; subst k; unfold zlen; cbn; lia.
    - f_equal. subst k. unfold zlen. cbn [List.length]. lia. }
  rewrite R.
  match goal with |- context [loopS ?b _ (Some ?c) tt] =>
    rewrite (rows_loop (out_row bs mn mx av er) b (k - 1) 0 c) end.
  - reflexivity.
  - intros j c' J.
    cbn [rd centrality_bins_ dNchdetaMin_ dNchdetaMax_ dNchdetaAvg_ dNchdetaAvgErr_].
    replace (Z.of_nat (S j) - 1)%Z with (Z.of_nat j) by lia.
    rewrite (pyget_ok bs (Z.of_nat j) 0) by lia.
    rewrite (pyget_ok bs (Z.of_nat (S j)) 0) by lia.
    rewrite (pyget_ok mn (Z.of_nat j) Inf) by lia.
    rewrite (pyget_ok mx (Z.of_nat j) t0) by lia.
    rewrite (pyget_ok av (Z.of_nat j) (f_lit 0)) by lia.
    rewrite (pyget_ok er (Z.of_nat j) (f_lit 0)) by lia.
    rewrite !Nat2Z.id. reflexivity.
Qed.

Theorem source_output_type : forall self (fs : file T F), g_out self fs PyNoStr = (fs, Err TypeError).
Proof. reflexivity. Qed.

(* the object built by __init__ has that shape *)
Lemma bounds_length N record : forall es Min r, bounds T N record Min es = Ok r ->
  List.length (fst r) = List.length es /\ List.length (snd r) = List.length es.
Proof.
  induction es as [|e es IH]; intros Min r E; cbn [bounds] in E.
  - inversion E. split; reflexivity.
  - destruct (gen_max_entry T record Min (gen_rank N e)); cbn [rbind] in E; [|discriminate].
    destruct (gen_min_entry T record Min (gen_rank N e)); cbn [rbind] in E; [|discriminate].
    destruct (bounds T N record (gen_rank N e) es) as [r'|] eqn:B; cbn [rbind] in E; [|discriminate].
    inversion E. cbn [fst snd List.length]. destruct (IH _ _ B) as [A1 A2]. rewrite A1, A2. split; reflexivity.
Qed.

Lemma avgs_length N sA sB sC sD : forall es Min,
  List.length (fst (avgs N sA sB sC sD Min es)) = List.length es /\
  List.length (snd (avgs N sA sB sC sD Min es)) = List.length es.
Proof.
  induction es as [|e es IH]; intros Min; [split; reflexivity|].
  cbn [avgs fst snd List.length]. destruct (IH (rank4 N e)) as [A1 A2]. rewrite A1, A2. split; reflexivity.
Qed.

Theorem source_init_shaped : forall sample edges st,
  construct T leb t0 sample edges = Ok st ->
  shaped (bins st) (dmin st) (dmax st) (fst (avgs_of sample (bins st))) (snd (avgs_of sample (bins st))).
Proof.
  intros sample edges st E. unfold construct in E.
  destruct (existsb out_of_range (sorted_edges edges)); [discriminate|].
  destruct (Z.of_nat (List.length sample) <? gen_min_events)%Z; [discriminate|].
  destruct (existsb (fun m => negb (leb t0 m)) sample); [discriminate|].
  destruct (dedup [] (sorted_edges edges)) as [|e0 rest]; [discriminate|].
  match type of E with context [bounds T ?n ?r ?m rest] => destruct (bounds T n r m rest) as [r'|] eqn:B end;
    cbn [rbind] in E; [|discriminate].
  inversion E. cbn [bins dmin dmax avgs_of]. destruct (bounds_length _ _ _ _ _ B) as [B1 B2].
  match goal with |- context [avgs ?n ?a ?b ?c ?d ?m rest] => destruct (avgs_length n a b c d rest m) as [A1 A2] end.
  unfold shaped. cbn [List.length]. rewrite B1, B2, A1, A2. repeat split; reflexivity.
Qed.

End Src.

(* ---- the constants and entries extracted by gen_centrality.py (Gen/GenCentrality.v), spelled out -------------- *)
Theorem source_constants :
  gen_min_events = 4%Z
  /\ (forall N e, gen_rank N e = Qtrunc (inject_Z N * e / 100)%Q)
  /\ (forall T (record : list T) a b, gen_max_entry T record a b = pyget record a)
  /\ (forall T (record : list T) a b,
        gen_min_entry T record a b = if (0 <? b)%Z then rmap Val (pyget record (b - 1)) else Ok Inf).
Proof. repeat split. Qed.

(* ---- non-vacuity: the regenerated methods run on a concrete call (multiplicities Z; the averages as exact
   rationals, np.sqrt replaced by the identity, i.e. the last attribute holds the SQUARES of the real entries; the
   mean of an empty slice, NaN in numpy, is 0 in this stand-in) ---- *)
Definition ex_mean (l : list Z) : Q := Qred (inject_Z (fold_right Z.add 0%Z l) / inject_Z (Z.of_nat (List.length l))).
Definition ex_op (f : Q -> Q -> Q) (a b : Q) : Q := Qred (f a b).
Definition ex_init := gen_init Z Q Z.leb 0%Z ex_mean (fun x => x) (ex_op Qplus) (ex_op Qminus) (ex_op Qdiv)
                               (fun a n => Qred (Qpower a n)) (fun q => q).
Definition ex_self : cself Z Q :=
  CSelf (Some [3; 1; 2; 2; 5; 0; 7; 8]%Z) (Some [0; 50; 100]%Q) (Some [Val 3; Val 0]%Z) (Some [8; 2]%Z)
        (Some [21 # 4; 7 # 4]%Q) (Some [115 # 12; 19 # 12]%Q).
Theorem source_example :
  ex_init (PyList [3; 1; 2; 2; 5; 0; 7; 8]%Z) (PyArray [0; 50; 100; 50]%Q) = ([0; 1]%nat, Ok ex_self)
  /\ map (gen_get_centrality_class Z Q Z.leb ex_self) [9; 3; 2; 0]%Z = [Ok 0; Ok 0; Ok 1; Ok 1]%Z
  /\ gen_output_centrality_classes Z Q ex_self None (PyStr "centrality.txt")
     = (Some [ [PS "# CentralityMin CentralityMax dNchdEtaMin dNchdEtaMax dNchdEtaAvg dNchdEtaAvgErr"%string];
               [PQ 0; PS " - "%string; PQ 50; PS " "%string; PE (Val 3%Z); PS " "%string; PT 8%Z; PS " "%string;
                PF (21 # 4); PS " "%string; PF (115 # 12)] ], Ok tt)
  /\ ex_init (PyList [1; 2; 3; 4]%Z) (PyList [0; 10; 100]%Q)
     = ([], Ok (CSelf (Some [1; 2; 3; 4]%Z) (Some [0; 10; 100]%Q) (Some [Inf; Val 1%Z]) (Some [4; 4]%Z)
                      (Some [0; 5 # 2]%Q) (Some [0; 5 # 3]%Q)))
  /\ ex_init (PyList [1; 2; 3]%Z) (PyList [0; 100]%Q) = ([], Err ValueError)
  /\ ex_init (PyList [1; 2; 3; 4]%Z) (PyList [100; 0; 101]%Q) = ([0]%nat, Err ValueError)
  /\ ex_init PyOther (PyList [0; 100]%Q) = ([], Err TypeError).
Proof. vm_compute. repeat split. Qed.

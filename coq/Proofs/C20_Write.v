(* C20: the writer.  Induction over the event list (and, inside an event, over its jets) with the file
   state as the invariant: "the file exists and holds [pre] followed by the rows of the jets written so far". *)
From Coq Require Import List ZArith QArith Bool Lia.
From SX Require Import Model.Jets Model.JetsSpec.
Import ListNotations.

Lemma filter_filter {A} (f g : A -> bool) (l : list A) :
  filter f (filter g l) = filter (fun x => g x && f x) l.
Proof.
  induction l as [|x l IH]; simpl; [reflexivity|].
  destruct (g x); simpl; [destruct (f x); simpl; rewrite IH; reflexivity | exact IH].
Qed.

Section W.
  Variable cluster : alg -> Q -> list vec4 -> list vec4.
  Variables acc_perp acc_eta acc_phi : vec4 -> Q.
  Variable dR : vec4 -> vec4 -> Q.

  Notation fill := (fill dR).
  Notation select := (select cluster acc_eta).
  Notation jets_loop := (jets_loop acc_perp acc_eta acc_phi dR).
  Notation events_loop := (events_loop cluster acc_perp acc_eta acc_phi dR).
  Notation perform := (perform cluster acc_perp acc_eta acc_phi dR).
  Notation candidates := (candidates cluster acc_eta).
  Notation event_jets := (event_jets cluster acc_eta dR).
  Notation jets_from := (jets_from cluster acc_eta dR).
  Notation selected_jets := (selected_jets cluster acc_eta dR).
  Notation jet_group := (jet_group acc_perp acc_eta acc_phi).
  Notation rows_of := (rows_of acc_perp acc_eta acc_phi).
  Notation lines_of := (lines_of acc_perp acc_eta acc_phi).
  Notation event_ok := (event_ok cluster acc_eta).

  (* the cone scan: with every status set it is the filter of the specification *)
  Lemma fill_negative a jet ev :
    Forall status_set ev -> fill (a_R a) jet Negative false ev = Ok (holes dR a jet ev).
  Proof.
    induction 1 as [|p ev Hp Hev IH]; simpl; [reflexivity|].
    unfold status_set in Hp. unfold holes in *. simpl.
    destruct (pstatus p) as [st|] eqn:Est; [|congruence].
    rewrite IH. unfold skipped, is_hole, in_cone. rewrite Est. simpl.
    rewrite orb_false_r.
    replace (st <? 0)%Z with (negb (0 <=? st)%Z) by (destruct (Z.leb_spec 0 st), (Z.ltb_spec st 0); simpl; try reflexivity; lia).
    destruct (0 <=? st)%Z; simpl; [reflexivity|].
    destruct (qlt (dR jet (pmom p)) (a_R a)); reflexivity.
  Qed.

  Lemma fill_positive a jet ev :
    Forall status_set ev -> fill (a_R a) jet Positive (a_charged a) ev = Ok (associated dR a jet ev).
  Proof.
    induction 1 as [|p ev Hp Hev IH]; simpl; [reflexivity|].
    unfold status_set in Hp. unfold associated in *. simpl.
    destruct (pstatus p) as [st|] eqn:Est; [|congruence].
    rewrite IH. unfold skipped, is_hadron, in_cone. rewrite Est.
    replace (st <? 0)%Z with (negb (0 <=? st)%Z) by (destruct (Z.leb_spec 0 st), (Z.ltb_spec st 0); simpl; try reflexivity; lia).
    destruct (0 <=? st)%Z; simpl; [|reflexivity].
    destruct (a_charged a); simpl.
    - destruct (charge_is_zero p); simpl; [reflexivity|].
      destruct (qlt (dR jet (pmom p)) (a_R a)); reflexivity.
    - destruct (qlt (dR jet (pmom p)) (a_R a)); reflexivity.
  Qed.

  (* numbering of the associated rows *)
  Lemma hadron_rows_spec l : forall (k : nat) i,
    hadron_rows acc_perp acc_eta acc_phi (Z.of_nat k) l i
    = map (fun kp => Row (Z.of_nat (fst kp)) (acc_perp (pmom (snd kp))) (acc_eta (pmom (snd kp)))
                         (acc_phi (pmom (snd kp))) (status_of (snd kp)) (ppdg (snd kp)) (ve (pmom (snd kp))) i)
          (combine (seq k (length l)) l).
  Proof.
    induction l as [|p l IH]; intros k i; simpl; [reflexivity|].
    unfold hadron_row at 1. f_equal.
    replace (Z.of_nat k + 1)%Z with (Z.of_nat (S k)) by lia. apply IH.
  Qed.

  Lemma output_list_spec a jet ev i :
    map JetLine (output_list acc_perp acc_eta acc_phi (pt_hi a) (momentum dR a jet ev) (associated dR a jet ev) i)
    = lines_of (if pt_ge (momentum dR a jet ev) (pt_hi a) then []
                else [JetOut i (momentum dR a jet ev) (associated dR a jet ev)]).
  Proof.
    unfold output_list, pt_lt, lines_of, rows_of.
    destruct (pt_ge (momentum dR a jet ev) (pt_hi a)); simpl; [reflexivity|].
    rewrite app_nil_r. unfold jet_row. f_equal. f_equal.
    exact (hadron_rows_spec _ 1%nat i).
  Qed.

  Lemma lines_of_app x y : lines_of (x ++ y) = lines_of x ++ lines_of y.
  Proof. unfold lines_of, rows_of. rewrite flat_map_app, map_app. reflexivity. Qed.

  (* inner loop: the jets of one event, every status set *)
  Lemma jets_loop_spec a ev i (Hset : Forall status_set ev) : forall jets pre,
    jets_loop a (pt_hi a) ev i jets (Some pre)
    = (Some (pre ++ lines_of (flat_map (fun jet => if pt_ge (momentum dR a jet ev) (pt_hi a) then []
                                                   else [JetOut i (momentum dR a jet ev) (associated dR a jet ev)])
                                       jets)), None).
  Proof.
    induction jets as [|jet jets IH]; intros pre.
    - simpl. unfold lines_of. simpl. rewrite app_nil_r. reflexivity.
    - cbn [Jets.jets_loop].
      rewrite (fill_negative a jet ev Hset), (fill_positive a jet ev Hset).
      unfold write_jet_output. cbn [content].
      change (jet_hole_subtraction jet (holes dR a jet ev)) with (momentum dR a jet ev).
      rewrite IH. rewrite output_list_spec. cbn [flat_map].
      rewrite lines_of_app, app_assoc. reflexivity.
  Qed.

  Lemma select_candidates a ev :
    select a (window a) (norm_pt (a_pt a)) ev = candidates a ev.
  Proof. unfold Jets.select, JetsSpec.candidates, pt_lo. apply filter_filter. Qed.

  (* outer loop: invariant over the event list, any starting index, any rows already in the file *)
  Lemma events_loop_spec a : forall evs i pre,
    Forall (event_ok a) evs ->
    events_loop a (window a) (norm_pt (a_pt a)) i evs (Some pre)
    = (Some (pre ++ lines_of (jets_from a i evs)), None).
  Proof.
    induction evs as [|ev evs IH]; intros i pre Hok.
    - simpl. unfold lines_of. simpl. rewrite app_nil_r. reflexivity.
    - inversion Hok as [|? ? Hev Hrest]; subst.
      cbn [Jets.events_loop JetsSpec.jets_from].
      rewrite select_candidates. fold (pt_hi a).
      destruct Hev as [Hnone | Hset].
      + unfold JetsSpec.event_jets. rewrite Hnone. cbn [Jets.jets_loop flat_map app].
        apply IH; assumption.
      + rewrite (jets_loop_spec a ev i Hset). fold (event_jets a i ev).
        rewrite IH by assumption. rewrite lines_of_app, app_assoc. reflexivity.
  Qed.

  Lemma check_params_valid a : valid a -> check_params a = Ok (window a, norm_pt (a_pt a)).
  Proof.
    intros (HR & Hlo & Hhi). unfold check_params. rewrite HR, Hlo, Hhi. reflexivity.
  Qed.

  (* C20_content *)
  Theorem perform_content a (prior : file) evs :
    valid a -> Forall (event_ok a) evs ->
    perform a prior evs = (Some (lines_of (selected_jets a evs)), None).
  Proof.
    intros Hv Hok. unfold Jets.perform. rewrite (check_params_valid a Hv).
    unfold create_empty. rewrite (events_loop_spec a evs 0 [] Hok). reflexivity.
  Qed.

  (* a second call into the same file leaves only the second call's jets *)
  Theorem perform_twice a1 a2 (prior : file) evs1 evs2 :
    valid a2 -> Forall (event_ok a2) evs2 ->
    perform a2 (fst (perform a1 prior evs1)) evs2 = (Some (lines_of (selected_jets a2 evs2)), None).
  Proof. intros Hv Hok. apply perform_content; assumption. Qed.

  (* no event has a jet to write: the file exists and is empty, whatever it held *)
  Theorem perform_no_jets a (prior : file) evs :
    valid a -> Forall (fun ev => candidates a ev = []) evs -> perform a prior evs = (Some [], None).
  Proof.
    intros Hv Hnone.
    rewrite perform_content; [|assumption|].
    - f_equal. f_equal. unfold JetsSpec.selected_jets. generalize 0%Z.
      induction Hnone as [|ev evs Hev Hrest IH]; intros i; simpl; [reflexivity|].
      unfold JetsSpec.event_jets at 1. rewrite Hev. simpl. apply IH.
    - eapply Forall_impl; [|exact Hnone]. intros ev H. left. exact H.
  Qed.

  (* rejected arguments: ValueError before the file is touched *)
  Theorem perform_rejects a (prior : file) evs :
    (Qle_bool (a_R a) 0 = true \/ negative_bound (fst (a_pt a)) = true \/ negative_bound (snd (a_pt a)) = true) ->
    perform a prior evs = (prior, Some EValue).
  Proof.
    intros H. unfold Jets.perform, check_params.
    destruct (Qle_bool (a_R a) 0); [reflexivity|].
    destruct H as [H|[H|H]]; [discriminate| |]; rewrite H; simpl; [reflexivity|].
    rewrite orb_true_r. reflexivity.
  Qed.

  (* an unset status in an event that has a jet to write: ValueError, the earlier events' jets stay written *)
  Lemma fill_unset R jet s oc ev : ~ Forall status_set ev -> fill R jet s oc ev = Err EValue.
  Proof.
    induction ev as [|p ev IH]; intros H; [exfalso; apply H; constructor|].
    simpl. destruct (pstatus p) as [st|] eqn:Est; [|reflexivity].
    rewrite IH; [reflexivity|]. intros Hev. apply H. constructor; [unfold status_set; congruence|exact Hev].
  Qed.

  Lemma events_loop_unset a ev evs2 (Hc : candidates a ev <> []) (Hun : ~ Forall status_set ev) :
    forall evs1 i pre, Forall (event_ok a) evs1 ->
    events_loop a (window a) (norm_pt (a_pt a)) i (evs1 ++ ev :: evs2) (Some pre)
    = (Some (pre ++ lines_of (jets_from a i evs1)), Some EValue).
  Proof.
    induction evs1 as [|e evs1 IH]; intros i pre Hok.
    - cbn [app Jets.events_loop]. rewrite select_candidates.
      destruct (candidates a ev) as [|jet jets] eqn:Ec; [congruence|].
      cbn [Jets.jets_loop]. rewrite (fill_unset _ jet Negative false ev Hun).
      unfold lines_of. simpl. rewrite app_nil_r. reflexivity.
    - inversion Hok as [|? ? He Hrest]; subst.
      cbn [app Jets.events_loop JetsSpec.jets_from]. rewrite select_candidates. fold (pt_hi a).
      destruct He as [Hnone | Hset].
      + unfold JetsSpec.event_jets at 1. rewrite Hnone. cbn [Jets.jets_loop flat_map app]. apply IH; assumption.
      + rewrite (jets_loop_spec a e i Hset). fold (event_jets a i e).
        rewrite IH by assumption. rewrite lines_of_app, app_assoc. reflexivity.
  Qed.

  Theorem perform_unset_status a (prior : file) evs1 ev evs2 :
    valid a -> Forall (event_ok a) evs1 -> candidates a ev <> [] -> ~ Forall status_set ev ->
    perform a prior (evs1 ++ ev :: evs2) = (Some (lines_of (selected_jets a evs1)), Some EValue).
  Proof.
    intros Hv Hok Hc Hun. unfold Jets.perform. rewrite (check_params_valid a Hv). unfold create_empty.
    rewrite (events_loop_unset a ev evs2 Hc Hun evs1 0 [] Hok). reflexivity.
  Qed.
End W.

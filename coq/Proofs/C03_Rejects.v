(* C03: which arguments the filters reject, and what a raising accessor does *)
From Coq Require Import List ZArith QArith Qabs Bool String Lia Lqa.
From SX Require Import Model.PyRt Model.FilterSpec Lib.PyRtLemmas Lib.FilterTac Gen.GenFilters Proofs.C03_Args.
Import ListNotations.

(* both limits None: ValueError; a limit pair that is not a tuple: TypeError; a negative pT limit: ValueError *)
Theorem pT_cut_rejects evs :
  gen_pT_cut evs (v_pair VNone VNone) = Err ValueError /\
  (forall l, gen_pT_cut evs (VList l) = Err TypeError) /\
  (forall z hi, (z < 0)%Z -> gen_pT_cut evs (v_pair (VInt z) (v_lim hi)) = Err ValueError).
Proof.
  split; [|split].
  - reflexivity.
  - reflexivity.
  - intros z hi Hz. unfold gen_pT_cut.
    change (VInt z) with (v_lim (LInt z)).
    rewrite ensure_tuple_ok by (try (left; discriminate); intros; discriminate).
    unfold v_pair. destruct hi; simpl; qcases; try qdone.
Qed.

Theorem spacetime_cut_rejects_dim evs s lo hi : (lo <> LNone \/ hi <> LNone) ->
  s <> "t"%string -> s <> "x"%string -> s <> "y"%string -> s <> "z"%string ->
  gen_spacetime_cut evs (VStr s) (v_pair (v_lim lo) (v_lim hi)) = Err ValueError.
Proof.
  intros Hs Ht Hx Hy Hz. unfold gen_spacetime_cut.
  rewrite ensure_tuple_ok by (auto; discriminate).
  unfold v_pair, py_not_in, py_in. simpl.
  apply String.eqb_neq in Ht, Hx, Hy, Hz. rewrite Ht, Hx, Hy, Hz. reflexivity.
Qed.

Theorem energy_cut_rejects evs :
  (forall z, (z <= 0)%Z -> gen_lower_event_energy_cut evs (VInt z) = Err ValueError) /\
  gen_lower_event_energy_cut evs (VFloat NaN) = Err ValueError /\
  gen_lower_event_energy_cut evs VNone = Err TypeError.
Proof.
  split; [|split]; try reflexivity.
  intros z Hz. unfold gen_lower_event_energy_cut. simpl. qcases; qdone.
Qed.

(* a raising accessor (space-time rapidity of a particle with |z| >= t raises the documented ValueError)
   makes the filter raise that error: shown for the first particle of the first event *)
Theorem raising_accessor_propagates p ev rest e c :
  obs p M_spacetime_rapidity = Raises e ->
  gen_spacetime_rapidity_cut ((p :: ev) :: rest) (v_num c) = Err e.
Proof.
  intros H. unfold gen_spacetime_rapidity_cut. destruct c; simpl.
  all: rewrite py_range_len; cbn [List.length idx_list seq map fold_leftM bind].
  all: rewrite (seq_get_nat _ 0 (p :: ev)) by reflexivity; cbn [bind filterM].
  all: unfold get_obs; rewrite H; reflexivity.
Qed.

(* non-vacuity: a concrete held state (one event with one particle, loaded as event 3 of some file) meets Inv,
   is written by the model, and its written document has the expected shape *)
From Coq Require Import List String ZArith QArith Bool Arith Lia.
From SX Require Import Lib.Strs Gen.GenParticleMap Gen.GenFormats Model.Oscar Model.OscarDoc Model.Writer
  Proofs.C01_Shapes Proofs.C06_Oscar.
Import ListNotations.
Local Open Scope string_scope.

Definition ex_fmt (f : colfmt) (v : Q) : string := if Qeq_bool v 1 then "1" else if Qeq_bool v 2212 then "2212" else "0.5".
Definition ex_dec (z : Z) : string := match z with 0%Z => "0" | 1%Z => "1" | _ => "3" end.
Definition ex_p : particle :=
  [Some 1; Some (1#2); Some (1#2); Some (1#2); Some (1#2); Some 1; Some (1#2); Some (1#2); Some (1#2); Some 2212;
   Some 1; Some 1; Some 1; None; None; None; None; None; None; None; None; None; None; None; None]%Q.
Definition ex_state : ostate :=
  {| os_events := [[ex_p]]; os_nevents := 1; os_counts := [(3, 1)]%Z; os_format := "Oscar2013"; os_attrs := [];
     os_footers := [smash_footer "0" "0.000" "no"; smash_footer "1" "0.000" "no"; smash_footer "2" "0.000" "no";
                    smash_footer "3" "7.125" "yes"];
     os_header := [["#!OSCAR2013"; "particle_lists"]; ["#"; "Units:"]; ["#"; "SMASH"]] |}.

Lemma example_state :
  Inv ex_state /\
  write_oscar ex_fmt ex_dec ex_state
  = Ok [["#!OSCAR2013"; "particle_lists"]; ["#"; "Units:"]; ["#"; "SMASH"];
        ["#"; "event"; "0"; "out"; "1"];
        ["1"; "0.5"; "0.5"; "0.5"; "0.5"; "1"; "0.5"; "0.5"; "0.5"; "2212"; "1"; "1"];
        smash_footer "0" "7.125" "yes"].
Proof.
  split; [|vm_compute; reflexivity].
  unfold Inv, ex_state. cbn [os_nevents os_events os_counts os_footers os_header held_ok List.length].
  repeat split; try lia.
  - eexists. split; [reflexivity|]. cbn. lia.
  - do 3 eexists. reflexivity.
Qed.

(* C18: the eccentricity as an algebraic expression and its symmetry relations, over any field. *)
From Coq Require Import List ZArith Bool Lia Ring Ring_theory Field Field_theory Permutation String.
From SX Require Import Lib.KRing Lib.Py Gen.GenEcc Model.Ecc.
Import ListNotations.

Section EccProofs.
  Variable K : Type.
  Variables (k0 k1 : K) (kadd kmul ksub kdiv : K -> K -> K) (kopp kinv : K -> K).
  Hypothesis Fth : field_theory k0 k1 kadd kmul ksub kopp kdiv kinv (@eq K).
  Add Field Kf : Fth.
  Variable kis0 : K -> bool.
  Hypothesis kis0_spec : forall a, kis0 a = true <-> a = k0.

  Declare Scope K_scope.
  Notation "0" := k0 : K_scope. Notation "1" := k1 : K_scope.
  Infix "+" := kadd : K_scope. Infix "*" := kmul : K_scope. Infix "-" := ksub : K_scope. Infix "/" := kdiv : K_scope.
  Notation "- x" := (kopp x) : K_scope.
  Local Open Scope K_scope.
  Notation sum := (ksum k0 kadd).
  Notation pw_ := (kpow k1 kmul).
  Notation pt := (pt K).
  Notation unitv := (unitv K k0 k1 kdiv kis0).
  Notation cis_pow := (cis_pow K k0 k1 kadd kmul ksub).
  Notation step := (step K k0 k1 kadd kmul ksub kdiv kis0).
  Notation ecc_core := (ecc_core K k0 k1 kadd kmul ksub kdiv kis0).
  Notation weights := (weights K).

  Let Rth : ring_theory k0 k1 kadd kmul ksub kopp (@eq K) := F_R Fth.

  Lemma sum_ext {A} (f g : A -> K) l : (forall x, f x = g x) -> sum (map f l) = sum (map g l).
  Proof. exact (ksum_map_ext K k0 kadd f g l). Qed.
  Lemma sum_add {A} (f g : A -> K) l : sum (map (fun x => f x + g x) l) = sum (map f l) + sum (map g l).
  Proof. exact (ksum_map_add K k0 k1 kadd kmul ksub kopp Rth f g l). Qed.
  Lemma sum_scal {A} c (f : A -> K) l : sum (map (fun x => c * f x) l) = c * sum (map f l).
  Proof. exact (ksum_map_mul K k0 k1 kadd kmul ksub kopp Rth c f l). Qed.
  Lemma sum_perm l l' : Permutation l l' -> sum l = sum l'.
  Proof. induction 1; simpl; try congruence; ring. Qed.

  Lemma no_zero_div a b : a <> 0 -> a * b = 0 -> b = 0.
  Proof. intros Ha H. replace b with (kinv a * (a * b)) by (field; assumption). rewrite H. ring. Qed.
  Lemma pw_mul a b n : pw_ (a * b) n = pw_ a n * pw_ b n.
  Proof. induction n as [|n IH]; simpl; [ring | rewrite IH; ring]. Qed.
  Lemma pw_nz a n : a <> 0 -> pw_ a n <> 0.
  Proof.
    intros Ha. induction n as [|n IH]; simpl.
    - intros H. apply (F_1_neq_0 Fth). exact H.
    - intros H. apply IH. now apply (no_zero_div a).
  Qed.
  Lemma pw_zero n : (1 <= n)%nat -> pw_ 0 n = 0.
  Proof. destruct n; [lia|]. intros _. simpl. ring. Qed.

  (* ---- complex multiplication on pairs ------------------------------------------------------------------------ *)
  Definition cmul (a b : K * K) : K * K := (fst a * fst b - snd a * snd b, fst a * snd b + snd a * fst b).
  Definition cn (p : pt) (n : nat) : K := fst (cis_pow (fst (unitv p)) (snd (unitv p)) n).
  Definition sn (p : pt) (n : nat) : K := snd (cis_pow (fst (unitv p)) (snd (unitv p)) n).

  Lemma cis_S c s n : cis_pow c s (S n) = cmul (c, s) (cis_pow c s n).
  Proof. simpl. destruct (cis_pow c s n) as [a b]. reflexivity. Qed.

  Lemma cis_mul c s a b n :
    cis_pow (c * a - s * b) (s * a + c * b) n = cmul (cis_pow c s n) (cis_pow a b n).
  Proof.
    induction n as [|n IH]; [unfold cmul; simpl; f_equal; ring|].
    rewrite !cis_S, IH. destruct (cis_pow c s n) as [x y], (cis_pow a b n) as [u v]. unfold cmul. simpl. f_equal; ring.
  Qed.

  Definition sgn (n : nat) : K := pw_ (kopp k1) n.
  Lemma cis_reflect c s n : cis_pow (- c) s n = (sgn n * fst (cis_pow c s n), - (sgn n * snd (cis_pow c s n))).
  Proof.
    unfold sgn. induction n as [|n IH]; [simpl; f_equal; ring|].
    rewrite !cis_S, IH. destruct (cis_pow c s n) as [x y]. unfold cmul. simpl. f_equal; ring.
  Qed.

  Lemma cis_one n : cis_pow 1 0 n = (1, 0).
  Proof. induction n as [|n IH]; [reflexivity|]. rewrite cis_S, IH. unfold cmul. simpl. f_equal; ring. Qed.

  (* modulus: (c^2+s^2 = 1) -> |u^n| = 1 *)
  Lemma cis_unit c s n : c * c + s * s = 1 ->
    fst (cis_pow c s n) * fst (cis_pow c s n) + snd (cis_pow c s n) * snd (cis_pow c s n) = 1.
  Proof.
    intros H. induction n as [|n IH]; [simpl; ring|].
    rewrite cis_S. destruct (cis_pow c s n) as [x y]. unfold cmul. simpl in *.
    replace ((c * x - s * y) * (c * x - s * y) + (c * y + s * x) * (c * y + s * x))
      with ((c * c + s * s) * (x * x + y * y)) by ring.
    rewrite H, IH. ring.
  Qed.

  (* ---- the loop as three sums ---------------------------------------------------------------------------------- *)
  Variable B : body K.
  Hypothesis B_real : forall rn c s w, b_real B rn c s w = rn * c * w.
  Hypothesis B_imag : forall rn c s w, b_imag B rn c s w = rn * s * w.
  Hypothesis B_norm : forall rn c s w, b_norm B rn c s w = rn * w.
  Hypothesis B_re : forall re im nrm, b_re B re im nrm = - (re / nrm).
  Hypothesis B_im : forall re im nrm, b_im B re im nrm = - (im / nrm).

  Definition SRe (E n : nat) (l : list (pt * K)) : K := sum (map (fun q => pw_ (pr (fst q)) E * cn (fst q) n * snd q) l).
  Definition SIm (E n : nat) (l : list (pt * K)) : K := sum (map (fun q => pw_ (pr (fst q)) E * sn (fst q) n * snd q) l).
  Definition SN (E : nat) (l : list (pt * K)) : K := sum (map (fun q => pw_ (pr (fst q)) E * snd q) l).

  Lemma step_eq E n re im nrm p w :
    step B E n (re, im, nrm) (p, w)
    = (re + pw_ (pr p) E * cn p n * w, im + pw_ (pr p) E * sn p n * w, nrm + pw_ (pr p) E * w).
  Proof.
    unfold Ecc.step, cn, sn. destruct (unitv p) as [c s]. simpl fst. simpl snd.
    destruct (cis_pow c s n) as [x y]. simpl. now rewrite B_real, B_imag, B_norm.
  Qed.

  Lemma fold_step E n l : forall re im nrm,
    fold_left (step B E n) l (re, im, nrm) = (re + SRe E n l, im + SIm E n l, nrm + SN E l).
  Proof.
    unfold SRe, SIm, SN. induction l as [|[p w] t IH]; intros re im nrm.
    - simpl. f_equal; [f_equal|]; ring.
    - change (fold_left (step B E n) ((p, w) :: t) (re, im, nrm))
        with (fold_left (step B E n) t (step B E n (re, im, nrm) (p, w))).
      rewrite step_eq, IH. cbn [map ksum fst snd]. f_equal; [f_equal|]; ring.
  Qed.

  (* eps = - sum(w r^E u^n) / sum(w r^E) *)
  Definition eps (E n : nat) (l : list (pt * K)) : K * K := (- (SRe E n l / SN E l), - (SIm E n l / SN E l)).

  Theorem ecc_formula E n pts l : pts <> [] -> weights pts = Some l -> SN E l <> 0 ->
    ecc_core B E n pts = Ok (Some (eps E n l)).
  Proof.
    intros Hne Hw Hn. unfold Ecc.ecc_core. destruct pts as [|p t]; [congruence|]. rewrite Hw.
    rewrite fold_step.
    replace (0 + SN E l) with (SN E l) by ring.
    destruct (kis0 (SN E l)) eqn:Z; [apply kis0_spec in Z; contradiction|].
    rewrite B_re, B_im. unfold eps.
    replace (0 + SRe E n l) with (SRe E n l) by ring. replace (0 + SIm E n l) with (SIm E n l) by ring. reflexivity.
  Qed.

  Theorem ecc_zero_norm E n pts l : pts <> [] -> weights pts = Some l -> SN E l = 0 -> ecc_core B E n pts = Ok None.
  Proof.
    intros Hne Hw Hn. unfold Ecc.ecc_core. destruct pts as [|p t]; [congruence|]. rewrite Hw, fold_step.
    replace (0 + SN E l) with (SN E l) by ring. rewrite Hn.
    assert (Z : kis0 0 = true) by now apply kis0_spec. now rewrite Z.
  Qed.

  (* ---- transformations of the points ---------------------------------------------------------------------------- *)
  Definition tmap (f : pt -> pt) (l : list (pt * K)) : list (pt * K) := map (fun q => (f (fst q), snd q)) l.

  Lemma weights_map f pts l : (forall p, pw (f p) = pw p) -> weights pts = Some l ->
    weights (map f pts) = Some (tmap f l).
  Proof.
    intros Hf. revert l. induction pts as [|p t IH]; intros l H; simpl in *.
    - injection H as <-. reflexivity.
    - rewrite Hf. destruct (pw p) as [w|]; [|discriminate]. destruct (weights t) as [r|]; [|discriminate].
      injection H as <-. rewrite (IH r eq_refl). reflexivity.
  Qed.

  Lemma unitv_nz p : pr p <> 0 -> unitv p = (px p / pr p, py p / pr p).
  Proof.
    intros H. unfold Ecc.unitv. destruct (kis0 (pr p)) eqn:Z; [apply kis0_spec in Z; contradiction | reflexivity].
  Qed.
  Lemma unitv_z p : pr p = 0 -> unitv p = (1, 0).
  Proof. intros H. unfold Ecc.unitv. rewrite H. assert (Z : kis0 0 = true) by now apply kis0_spec. now rewrite Z. Qed.

  Lemma r_cases (a : K) : a = 0 \/ a <> 0.
  Proof. destruct (kis0 a) eqn:Z; [left; now apply kis0_spec | right; intros H; apply kis0_spec in H; congruence]. Qed.

  (* rotation by the unit vector (ca, sa):  x' = x ca - y sa,  y' = x sa + y ca,  r unchanged *)
  Definition rot (ca sa : K) (p : pt) : pt :=
    {| px := px p * ca - py p * sa; py := px p * sa + py p * ca; pr := pr p; pw := pw p |}.

  Lemma rot_point ca sa E n p : (1 <= E)%nat ->
    pw_ (pr p) E * cn (rot ca sa p) n = pw_ (pr p) E * fst (cmul (cn p n, sn p n) (cis_pow ca sa n))
    /\ pw_ (pr p) E * sn (rot ca sa p) n = pw_ (pr p) E * snd (cmul (cn p n, sn p n) (cis_pow ca sa n)).
  Proof.
    intros HE. destruct (r_cases (pr p)) as [Hz|Hz].
    - rewrite Hz, pw_zero by assumption. split; ring.
    - unfold cn, sn. rewrite (unitv_nz (rot ca sa p)) by assumption. rewrite (unitv_nz p) by assumption. simpl fst. simpl snd.
      replace ((px p * ca - py p * sa) / pr p) with ((px p / pr p) * ca - (py p / pr p) * sa) by (field; assumption).
      replace ((px p * sa + py p * ca) / pr p) with ((py p / pr p) * ca + (px p / pr p) * sa) by (field; assumption).
      rewrite cis_mul. destruct (cis_pow (px p / pr p) (py p / pr p) n) as [x y]. split; reflexivity.
  Qed.

  Lemma rot_sums ca sa E n l : (1 <= E)%nat ->
    let a := fst (cis_pow ca sa n) in let b := snd (cis_pow ca sa n) in
    SRe E n (tmap (rot ca sa) l) = a * SRe E n l - b * SIm E n l
    /\ SIm E n (tmap (rot ca sa) l) = b * SRe E n l + a * SIm E n l
    /\ SN E (tmap (rot ca sa) l) = SN E l.
  Proof.
    intros HE a b. unfold SRe, SIm, SN, tmap. rewrite !map_map. simpl fst. simpl snd.
    split; [|split].
    - rewrite <- !sum_scal.
      replace (sum (map (fun x => a * (pw_ (pr (fst x)) E * cn (fst x) n * snd x)) l)
               - sum (map (fun x => b * (pw_ (pr (fst x)) E * sn (fst x) n * snd x)) l))
        with (sum (map (fun x => a * (pw_ (pr (fst x)) E * cn (fst x) n * snd x)
                                 + (- b) * (pw_ (pr (fst x)) E * sn (fst x) n * snd x)) l)).
      2:{ rewrite sum_add. rewrite (sum_scal (- b)), (sum_scal b). ring. }
      apply sum_ext. intros [p w]. simpl. destruct (rot_point ca sa E n p HE) as [H1 _].
      rewrite H1. unfold cmul, a, b. simpl. ring.
    - rewrite <- !sum_scal, <- sum_add. apply sum_ext. intros [p w]. simpl.
      destruct (rot_point ca sa E n p HE) as [_ H2]. rewrite H2. unfold cmul, a, b. simpl. ring.
    - apply sum_ext. intros [p w]. reflexivity.
  Qed.

  Theorem ecc_rotation ca sa E n pts l : (1 <= E)%nat -> pts <> [] -> weights pts = Some l -> SN E l <> 0 ->
    ecc_core B E n (map (rot ca sa) pts) = Ok (Some (cmul (eps E n l) (cis_pow ca sa n))).
  Proof.
    intros HE Hne Hw Hn. destruct (rot_sums ca sa E n l HE) as (R1 & R2 & R3).
    rewrite (ecc_formula E n _ (tmap (rot ca sa) l)).
    - unfold eps, cmul. rewrite R1, R2, R3. simpl. do 3 f_equal; field; assumption.
    - destruct pts; [congruence | discriminate].
    - now apply weights_map.
    - now rewrite R3.
  Qed.

  (* reflection x -> -x *)
  Definition refl (p : pt) : pt := {| px := - px p; py := py p; pr := pr p; pw := pw p |}.

  Lemma refl_point E n p : (1 <= E)%nat ->
    pw_ (pr p) E * cn (refl p) n = pw_ (pr p) E * (sgn n * cn p n)
    /\ pw_ (pr p) E * sn (refl p) n = pw_ (pr p) E * (- (sgn n * sn p n)).
  Proof.
    intros HE. destruct (r_cases (pr p)) as [Hz|Hz].
    - rewrite Hz, pw_zero by assumption. split; ring.
    - unfold cn, sn. rewrite (unitv_nz (refl p)) by assumption. rewrite (unitv_nz p) by assumption. simpl fst. simpl snd.
      replace (- px p / pr p) with (- (px p / pr p)) by (field; assumption).
      rewrite cis_reflect. split; reflexivity.
  Qed.

  Theorem ecc_reflection E n pts l : (1 <= E)%nat -> pts <> [] -> weights pts = Some l -> SN E l <> 0 ->
    ecc_core B E n (map refl pts) = Ok (Some (sgn n * fst (eps E n l), - (sgn n * snd (eps E n l)))).
  Proof.
    intros HE Hne Hw Hn.
    assert (R1 : SRe E n (tmap refl l) = sgn n * SRe E n l).
    { unfold SRe, tmap. rewrite map_map, <- sum_scal. apply sum_ext. intros [p w]. simpl.
      destruct (refl_point E n p HE) as [H1 _]. rewrite H1. ring. }
    assert (R2 : SIm E n (tmap refl l) = - (sgn n * SIm E n l)).
    { unfold SIm, tmap. rewrite map_map.
      replace (- (sgn n * sum (map (fun q => pw_ (pr (fst q)) E * sn (fst q) n * snd q) l)))
        with ((- sgn n) * sum (map (fun q => pw_ (pr (fst q)) E * sn (fst q) n * snd q) l)) by ring.
      rewrite <- sum_scal. apply sum_ext. intros [p w]. simpl.
      destruct (refl_point E n p HE) as [_ H2]. rewrite H2. ring. }
    assert (R3 : SN E (tmap refl l) = SN E l).
    { unfold SN, tmap. rewrite map_map. apply sum_ext. intros [p w]. reflexivity. }
    rewrite (ecc_formula E n _ (tmap refl l)).
    - unfold eps. rewrite R1, R2, R3. simpl. do 3 f_equal; field; assumption.
    - destruct pts; [congruence | discriminate].
    - now apply weights_map.
    - now rewrite R3.
  Qed.

  (* scaling all positions by lam <> 0 (the radius scales with them) *)
  Definition scalep (lam : K) (p : pt) : pt :=
    {| px := lam * px p; py := lam * py p; pr := lam * pr p; pw := pw p |}.

  Lemma scalep_unit lam p : lam <> 0 -> unitv (scalep lam p) = unitv p.
  Proof.
    intros Hl. destruct (r_cases (pr p)) as [Hz|Hz].
    - rewrite (unitv_z p Hz). apply unitv_z. simpl. rewrite Hz. ring.
    - rewrite (unitv_nz p Hz). rewrite unitv_nz.
      + simpl. f_equal; field; split; assumption.
      + simpl. intros H. apply Hz. now apply (no_zero_div lam).
  Qed.

  Theorem ecc_scale_positions lam E n pts l : lam <> 0 -> pts <> [] -> weights pts = Some l -> SN E l <> 0 ->
    ecc_core B E n (map (scalep lam) pts) = Ok (Some (eps E n l)).
  Proof.
    intros Hl Hne Hw Hn. pose proof (pw_nz lam E Hl) as HlE.
    assert (R1 : SRe E n (tmap (scalep lam) l) = pw_ lam E * SRe E n l).
    { unfold SRe, tmap. rewrite map_map, <- sum_scal. apply sum_ext. intros [p w]. simpl.
      unfold cn. rewrite scalep_unit by assumption. rewrite pw_mul. ring. }
    assert (R2 : SIm E n (tmap (scalep lam) l) = pw_ lam E * SIm E n l).
    { unfold SIm, tmap. rewrite map_map, <- sum_scal. apply sum_ext. intros [p w]. simpl.
      unfold sn. rewrite scalep_unit by assumption. rewrite pw_mul. ring. }
    assert (R3 : SN E (tmap (scalep lam) l) = pw_ lam E * SN E l).
    { unfold SN, tmap. rewrite map_map, <- sum_scal. apply sum_ext. intros [p w]. simpl. rewrite pw_mul. ring. }
    rewrite (ecc_formula E n _ (tmap (scalep lam) l)).
    - unfold eps. rewrite R1, R2, R3. do 3 f_equal; field; split; assumption.
    - destruct pts; [congruence | discriminate].
    - now apply weights_map.
    - rewrite R3. intros H. apply Hn. now apply (no_zero_div (pw_ lam E)).
  Qed.

  (* scaling all weights by mu <> 0 *)
  Definition scalew (mu : K) (p : pt) : pt :=
    {| px := px p; py := py p; pr := pr p; pw := match pw p with Some w => Some (mu * w) | None => None end |}.

  Lemma weights_scalew mu pts l : weights pts = Some l ->
    weights (map (scalew mu) pts) = Some (map (fun q => (scalew mu (fst q), mu * snd q)) l).
  Proof.
    revert l. induction pts as [|p t IH]; intros l H; simpl in *.
    - injection H as <-. reflexivity.
    - destruct (pw p) as [w|]; [|discriminate]. destruct (weights t) as [r|]; [|discriminate].
      injection H as <-. rewrite (IH r eq_refl). reflexivity.
  Qed.

  Theorem ecc_scale_weights mu E n pts l : mu <> 0 -> pts <> [] -> weights pts = Some l -> SN E l <> 0 ->
    ecc_core B E n (map (scalew mu) pts) = Ok (Some (eps E n l)).
  Proof.
    intros Hm Hne Hw Hn. set (l' := map (fun q => (scalew mu (fst q), mu * snd q)) l).
    assert (R1 : SRe E n l' = mu * SRe E n l).
    { unfold SRe, l'. rewrite map_map, <- sum_scal. apply sum_ext. intros [p w]. simpl. unfold cn, Ecc.unitv. simpl. ring. }
    assert (R2 : SIm E n l' = mu * SIm E n l).
    { unfold SIm, l'. rewrite map_map, <- sum_scal. apply sum_ext. intros [p w]. simpl. unfold sn, Ecc.unitv. simpl. ring. }
    assert (R3 : SN E l' = mu * SN E l).
    { unfold SN, l'. rewrite map_map, <- sum_scal. apply sum_ext. intros [p w]. simpl. ring. }
    rewrite (ecc_formula E n _ l').
    - unfold eps. rewrite R1, R2, R3. do 3 f_equal; field; split; assumption.
    - destruct pts; [congruence | discriminate].
    - now apply weights_scalew.
    - rewrite R3. intros H. apply Hn. now apply (no_zero_div mu).
  Qed.

  (* reordering *)
  Lemma weights_perm pts pts' : Permutation pts pts' -> forall l, weights pts = Some l ->
    exists l', weights pts' = Some l' /\ Permutation l l'.
  Proof.
    induction 1 as [|p t t' P IH|p q t|t t' t'' P1 IH1 P2 IH2]; intros l H.
    - exists l. split; [assumption | apply Permutation_refl].
    - simpl in *. destruct (pw p) as [w|]; [|discriminate]. destruct (weights t) as [r|]; [|discriminate].
      injection H as <-. destruct (IH r eq_refl) as (r' & E' & P'). rewrite E'. eexists. split; [reflexivity | now constructor].
    - simpl in *. destruct (pw q) as [wq|]; [|discriminate]. destruct (pw p) as [wp|]; [|discriminate].
      destruct (weights t) as [r|]; [|discriminate]. injection H as <-.
      eexists. split; [reflexivity | apply perm_swap].
    - destruct (IH1 l H) as (l1 & E1 & Q1). destruct (IH2 l1 E1) as (l2 & E2 & Q2).
      exists l2. split; [assumption | eapply Permutation_trans; eassumption].
  Qed.

  Theorem ecc_permutation E n pts pts' l : Permutation pts pts' -> pts <> [] -> weights pts = Some l -> SN E l <> 0 ->
    ecc_core B E n pts' = Ok (Some (eps E n l)).
  Proof.
    intros P Hne Hw Hn. destruct (weights_perm _ _ P l Hw) as (l' & Hw' & Pl).
    assert (R1 : SRe E n l' = SRe E n l) by (unfold SRe; apply sum_perm, Permutation_map, Permutation_sym, Pl).
    assert (R2 : SIm E n l' = SIm E n l) by (unfold SIm; apply sum_perm, Permutation_map, Permutation_sym, Pl).
    assert (R3 : SN E l' = SN E l) by (unfold SN; apply sum_perm, Permutation_map, Permutation_sym, Pl).
    rewrite (ecc_formula E n pts' l').
    - unfold eps. now rewrite R1, R2, R3.
    - intros H. subst pts'. apply Permutation_sym, Permutation_nil in P. contradiction.
    - assumption.
    - now rewrite R3.
  Qed.
End EccProofs.

(* ---- the generated pieces have the standard shape ------------------------------------------------------------- *)
Section Bodies.
  Variable K : Type.
  Variables (k0 k1 : K) (kadd kmul ksub kdiv : K -> K -> K) (kopp kinv : K -> K).
  Hypothesis Fth : field_theory k0 k1 kadd kmul ksub kopp kdiv kinv (@eq K).

  Definition std_body (B : body K) : Prop :=
    (forall rn c s w, b_real B rn c s w = kmul (kmul rn c) w)
    /\ (forall rn c s w, b_imag B rn c s w = kmul (kmul rn s) w)
    /\ (forall rn c s w, b_norm B rn c s w = kmul rn w)
    /\ (forall re im nrm, b_re B re im nrm = kopp (kdiv re nrm))
    /\ (forall re im nrm, b_im B re im nrm = kopp (kdiv im nrm)).

  Lemma std_particles : std_body (body_particles K kmul kdiv kopp).
  Proof. repeat split. Qed.
  Lemma std_lattice : std_body (body_lattice K kmul kdiv kopp).
  Proof. repeat split. Qed.
End Bodies.

(* ---- the radial power: m = 3 for n = 1, m = n otherwise, the given m when there is one ------------------------- *)
Lemma rpow_particles_spec n m :
  gen_rpow_particles n m = Ok (match m with Some v => v | None => if (n =? 1)%Z then 3%Z else n end).
Proof. unfold gen_rpow_particles. destruct m; simpl; destruct (n =? 1)%Z; reflexivity. Qed.
Lemma rpow_lattice_spec n m :
  gen_rpow_lattice n m = Ok (match m with Some v => v | None => if (n =? 1)%Z then 3%Z else n end).
Proof. unfold gen_rpow_lattice. destruct m; simpl; destruct (n =? 1)%Z; reflexivity. Qed.

Lemma weight_table_spec :
  gen_weight_table = [("energy", WAttr "E"); ("number", WOne); ("charge", WAttr "charge");
                      ("baryon", WAttr "baryon_number"); ("strangeness", WAttr "strangeness")]%string.
Proof. reflexivity. Qed.

(* C05 bridge, second part: the REGENERATED dispatch chains (Gen/GenDispatch.v gen_apply_kwargs_X) with documented
   filter calls are realised by [lift_ops] - so the bridges of Proofs/C05_Bridge.v hold for them without any hypothesis
   about the per-event function - and the non-vacuity example. *)
From Coq Require Import List String ZArith QArith Bool Arith Lia.
From SX Require Import Lib.Strs Gen.GenParticleMap Model.Oscar Model.OscarDoc Model.Jetscape Model.JetscapeDoc
  Proofs.C01_Oscar Proofs.C02_Oscar Proofs.C02_Filter Proofs.C02_Jetscape Proofs.C02_JetscapeSel Proofs.Bridge_Loads.
From SX Require Import Lib.Py Model.PObj Proofs.C02_PObj.
From SX Require Import Model.PyRt Model.FilterSpec Model.CtorFilters Lib.PyRtLemmas Gen.GenFilters Gen.GenDispatch
  Proofs.C05_Tables Proofs.C05_Tables_Oscar Proofs.C05_Tables_Jetscape Proofs.C05_Tables_PObj
  Proofs.C05_Abstract Proofs.C05_Link Proofs.C05_Main Proofs.C05_Bridge.
Import ListNotations.
Local Notation length := List.length.

(* a chain that meets the contract of its class's method table is realised by lift_ops *)
Section Chain.
  Variable arity : string -> option nat.
  Variable method : string -> list pyv -> list (list pobs) -> PyRt.result (list (list pobs)).
  Hypothesis T : table_from_base arity method.
  Variable apply : list (list pobs) -> pyv -> PyRt.result (list (list pobs)).
  Hypothesis apply_spec : forall d ev, NoDup (map fst d) -> spacetime_ok d ->
    apply ev (VDict d) = ctor_spec arity method d ev.

  Lemma chain_realised view cs evs :
    Forall admissible cs -> Forall (available arity) cs -> keys_distinct cs -> obs_total (map (map view) evs) ->
    realises view (fun ev => apply ev (VDict (dict_of cs))) (lift_ops view (map call_op cs)) evs.
  Proof.
    intros A Av N H data Hin.
    rewrite (apply_one_ops arity method T apply apply_spec cs (map (map view) evs) (map view data) A Av N H
               (in_map (map view) evs data Hin)).
    rewrite abs_event_lift. reflexivity.
  Qed.
End Chain.

Section OscarChain.
  Variable tok_float : string -> option Q.
  Variable tok_int : string -> option Q.
  Variable pdg_valid : Q -> bool.
  Variable view : particle -> pobs.
  Notation V := (map (map view)).
  Notation WF := (wf tok_float tok_int pdg_valid).
  Notation LOAD := (load tok_float tok_int pdg_valid).

  (* the generated dispatch chain of OscarLoader with any list of documented filter calls *)
  Theorem bridge_oscar_chain cs d fmt attrs sel ld0 :
    WF d fmt attrs -> sel_in_range sel (length (d_events d)) ->
    LOAD None (render d) sel = Oscar.Ok ld0 ->
    Forall admissible cs -> Forall (available gen_arity_Oscar) cs -> keys_distinct cs -> obs_total (V (l_events ld0)) ->
    exists ld, LOAD (Some (lift_ops view (map call_op cs))) (render d) sel = Oscar.Ok ld /\
      file_loader (fun ev => gen_apply_kwargs_Oscar ev (VDict (dict_of cs))) (V (l_events ld0))
      = PyRt.Ok (V (l_events ld), map snd (l_counts ld)) /\
      consecutive (sel_first sel) (l_counts ld) /\
      l_nevents ld = Z.of_nat (length (l_counts ld)).
  Proof.
    intros Hwf Hr H0 A Av N H.
    destruct (bridge_oscar tok_float tok_int pdg_valid view (fun ev => gen_apply_kwargs_Oscar ev (VDict (dict_of cs))) (lift_ops view (map call_op cs))
                d fmt attrs sel ld0 Hwf Hr H0
                (chain_realised _ _ table_Oscar _ apply_kwargs_Oscar_spec view cs _ A Av N H))
      as (ld & H1 & H2 & H3 & H4 & _).
    exists ld. repeat split; assumption.
  Qed.
End OscarChain.

Section JetChain.
  Variable tok_float : string -> option Q.
  Variable tok_int : string -> option Q.
  Variable pdg_valid : Q -> bool.
  Variable pdg_charge : Q -> Q.
  Variable usqrt : Q -> Q.
  Variable defstr : string.
  Variable view : particle -> pobs.
  Notation V := (map (map view)).
  Notation JWF := (jwf tok_float tok_int pdg_valid pdg_charge usqrt defstr).
  Notation JLOAD := (jload tok_float tok_int pdg_valid pdg_charge usqrt).

  Theorem bridge_jetscape_chain cs d s1 s2 sel ld0 :
    JWF d s1 s2 -> sel_in_range sel (length (jd_events d)) ->
    JLOAD None (jrender d) defstr sel = Oscar.Ok ld0 ->
    Forall admissible cs -> Forall (available gen_arity_Jetscape) cs -> keys_distinct cs -> obs_total (V (j_events ld0)) ->
    exists ld, JLOAD (Some (lift_ops view (map call_op cs))) (jrender d) defstr sel = Oscar.Ok ld /\
      file_loader (fun ev => gen_apply_kwargs_Jetscape ev (VDict (dict_of cs))) (V (j_events ld0))
      = PyRt.Ok (V (j_events ld), map snd (j_counts ld)) /\
      consecutive (sel_first sel + 1) (j_counts ld) /\
      j_nevents ld = Z.of_nat (length (j_counts ld)).
  Proof.
    intros Hwf Hr H0 A Av N H.
    destruct (bridge_jetscape tok_float tok_int pdg_valid pdg_charge usqrt defstr view (fun ev => gen_apply_kwargs_Jetscape ev (VDict (dict_of cs))) (lift_ops view (map call_op cs))
                d s1 s2 sel ld0 Hwf Hr H0
                (chain_realised _ _ table_Jetscape _ apply_kwargs_Jetscape_spec view cs _ A Av N H))
      as (ld & H1 & H2 & H3 & H4 & _).
    exists ld. repeat split; assumption.
  Qed.
End JetChain.

(* the generated dispatch chain of ParticleObjectLoader with documented filter calls: the chain does not raise *)
Theorem bridge_pobj_chain cs s evs st0 :
  pload pobs None s evs = Py.Ok st0 ->
  Forall admissible cs -> Forall (available gen_arity_PObj) cs -> keys_distinct cs -> obs_total (p_events pobs st0) ->
  exists st ctor cnts,
    pload pobs (Some (pobj_flt (fun ev => gen_apply_kwargs_PObj ev (VDict (dict_of cs))))) s evs = Py.Ok st /\
    pobj_loader (fun ev => gen_apply_kwargs_PObj ev (VDict (dict_of cs))) (p_events pobs st0) = PyRt.Ok (ctor, cnts) /\
    p_events pobs st = ctor /\ map snd (p_counts pobs st) = cnts /\
    consecutive (pfirst s) (p_counts pobs st) /\ p_nevents pobs st = Z.of_nat (length ctor).
Proof.
  intros H0 A Av N H.
  pose proof (bridge_pobj (fun ev => gen_apply_kwargs_PObj ev (VDict (dict_of cs))) s evs) as B.
  rewrite H0 in B.
  rewrite (pobj_loader_ops gen_arity_PObj gen_method_PObj table_PObj _ apply_kwargs_PObj_spec cs _ A Av N H) in B |- *.
  destruct B as (st & B1 & B2 & B3 & B4 & B5).
  eexists st, _, _. split; [exact B1|]. split; [reflexivity|]. repeat split; assumption.
Qed.

(* ------------------------------------------------------------------ non-vacuity *)
(* a concrete three-event Oscar2013 document: event 0 = a charged and a neutral particle (IDs 7, 1), event 1 empty,
   event 2 = one neutral particle (ID 1); chain = charged_particles (True), then multiplicity_cut (1, None).
   Per event: [7,1] -> [7] -> kept; [] -> [] -> stays (it was empty in the file); [1] -> [] -> dropped. *)
From SX Require Import Proofs.C01_Shapes Proofs.Bridge_Example.
Local Open Scope string_scope.

(* what the filters see of a loaded particle: its ID, charge and PDG code (every other accessor answers nan) *)
Definition bx_view (p : particle) : pobs :=
  mkP (bx_id p)
      (fun a => match a with
                | A_charge => Ret (match get_slot 12 p with Some q => Fin q | None => NaN end)
                | A_pdg => Ret (match get_slot 9 p with Some q => Fin q | None => NaN end)
                | _ => Ret NaN
                end).
Definition bx_cs : list fcall := [C_switch "charged_particles" A_charge false true; C_mult (LInt 1) LNone].
Definition bx_chain (ev : list (list pobs)) := gen_apply_kwargs_Oscar ev (VDict (dict_of bx_cs)).
Definition bx_flt := lift_ops bx_view (map call_op bx_cs).

Definition bx_selected (sel : selector) : list (list pobs) :=
  match load bx_tf bx_ti bx_pv None (render bx_doc) sel with
  | Oscar.Ok ld0 => map (map bx_view) (l_events ld0)
  | Oscar.Err _ => []
  end.
Definition bx_loaded (sel : selector) :=
  match load bx_tf bx_ti bx_pv (Some bx_flt) (render bx_doc) sel with
  | Oscar.Ok ld => Some (map (map (fun p => pid (bx_view p))) (l_events ld), l_nevents ld, l_counts ld)
  | Oscar.Err _ => None
  end.
Definition bx_ctor (sel : selector) :=
  match file_loader bx_chain (bx_selected sel) with
  | PyRt.Ok (c, n) => Some (map (map pid) c, n)
  | PyRt.Err _ => None
  end.

Lemma bx_view_total evs : obs_total (map (map bx_view) evs).
Proof.
  intros ev p Hev Hp. apply in_map_iff in Hev. destruct Hev as (e0 & <- & _).
  apply in_map_iff in Hp. destruct Hp as (x & <- & _). split.
  - intros a. destruct a; eexists; reflexivity.
  - cbn. split; destruct (get_slot 9 x); discriminate.
Qed.

Lemma bx_hyps :
  Forall admissible bx_cs /\ Forall (available gen_arity_Oscar) bx_cs /\ keys_distinct bx_cs.
Proof.
  split; [|split].
  - constructor; [cbn; left; reflexivity|constructor; [|constructor]].
    cbn. split; [left; discriminate|split; [lia|exact I]].
  - repeat constructor; unfold available; vm_compute; discriminate.
  - unfold keys_distinct. cbn. repeat constructor; cbn; intuition discriminate.
Qed.

(* the hypotheses of bridge_oscar_chain hold, and both sides of its conclusion by computation: the unrestricted load,
   events=(1,2) (only the empty event is left) and events=2 (no event is left: placeholder, no rows) *)
Lemma bridge_example :
  wf bx_tf bx_ti bx_pv bx_doc "Oscar2013" [] /\
  Forall admissible bx_cs /\ Forall (available gen_arity_Oscar) bx_cs /\ keys_distinct bx_cs /\
  (forall sel, obs_total (bx_selected sel)) /\
  map (map pid) (bx_selected SelAll) = [[7; 1]; []; [1]]%Z /\
  bx_loaded SelAll = Some ([[7]; []], 2, [(0, 1); (1, 0)])%Z /\ bx_ctor SelAll = Some ([[7]; []], [1; 0])%Z /\
  bx_loaded (SelRange 1 2) = Some ([[]], 1, [(1, 0)])%Z /\ bx_ctor (SelRange 1 2) = Some ([[]], [0])%Z /\
  bx_loaded (SelOne 2) = Some ([[]], 0, [])%Z /\ bx_ctor (SelOne 2) = Some ([[]], [])%Z.
Proof.
  split; [exact bx_wf|]. destruct bx_hyps as (A & Av & N). repeat (split; [assumption|]).
  split. { intros sel. unfold bx_selected. destruct (load _ _ _ _ _ _); [apply bx_view_total|]. intros ev p []. }
  vm_compute. repeat split.
Qed.

(* the same example through the theorem (not by computation): the load with the lifted chain exists and agrees *)
Lemma bridge_example_by_theorem :
  exists ld0 ld,
    load bx_tf bx_ti bx_pv None (render bx_doc) (SelRange 0 2) = Oscar.Ok ld0 /\
    load bx_tf bx_ti bx_pv (Some bx_flt) (render bx_doc) (SelRange 0 2) = Oscar.Ok ld /\
    file_loader bx_chain (map (map bx_view) (l_events ld0)) = PyRt.Ok (map (map bx_view) (l_events ld), map snd (l_counts ld)) /\
    map snd (l_counts ld) = [1; 0]%Z.
Proof.
  assert (Hr : sel_in_range (SelRange 0 2) (length (d_events bx_doc))) by (cbn; lia).
  destruct (sel_in_range_span _ _ Hr) as (a & n & Hs).
  pose proof (load_sel_none bx_tf bx_ti bx_pv bx_doc "Oscar2013" [] _ a n bx_wf Hs) as H0.
  destruct bx_hyps as (A & Av & N).
  destruct (bridge_oscar_chain bx_tf bx_ti bx_pv bx_view bx_cs bx_doc "Oscar2013" [] _ _ bx_wf Hr H0 A Av N (bx_view_total _))
    as (ld & H1 & H2 & H3 & H4).
  eexists _, ld. split; [exact H0|]. split; [exact H1|]. split; [exact H2|].
  unfold bx_flt in *. fold bx_flt in H1.
  assert (E : load bx_tf bx_ti bx_pv (Some bx_flt) (render bx_doc) (SelRange 0 2) = Oscar.Ok ld) by exact H1.
  vm_compute in E. inversion E. reflexivity.
Qed.

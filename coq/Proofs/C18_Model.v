(* C18: the two public variants reduce to the same core; argument checks; the default radial power. *)
From Coq Require Import List ZArith Bool Lia String.
From SX Require Import Lib.KRing Lib.Py Gen.GenEcc Model.Ecc Proofs.C18_Ecc.
Import ListNotations.

Section ModelProofs.
  Variable K : Type.
  Variables (k0 k1 : K) (kadd kmul ksub kdiv : K -> K -> K) (kopp : K -> K).
  Variable kis0 : K -> bool.
  Notation ecc_from_particles := (ecc_from_particles K k0 k1 kadd kmul ksub kdiv kopp kis0).
  Notation ecc_from_lattice := (ecc_from_lattice K k0 k1 kadd kmul ksub kdiv kopp kis0).
  Notation ecc_core := (ecc_core K k0 k1 kadd kmul ksub kdiv kis0).

  (* m = 3 when n = 1 and no m is given, m = n otherwise, the given m when there is one *)
  Definition radial_power (n : Z) (m : option Z) : Z :=
    match m with Some v => v | None => if (n =? 1)%Z then 3%Z else n end.

  Lemma particles_core n m wq sel (ps : list (pobs K)) :
    (1 <= n)%Z -> match m with Some v => (1 <= v)%Z | None => True end -> ps <> [] ->
    Ecc.lookup wq gen_weight_table = Some sel ->
    ecc_from_particles n m wq ps
    = ecc_core (body_particles K kmul kdiv kopp) (Z.to_nat (radial_power n m)) (Z.to_nat n) (map (to_pt K k1 sel) ps).
  Proof.
    intros Hn Hm Hne Hl. unfold Ecc.ecc_from_particles, arg_check, gen_n_min_particles, gen_m_min_particles.
    assert (E1 : (n <? 1)%Z = false) by (apply Z.ltb_ge; lia).
    assert (E2 : match m with Some v => (v <? 1)%Z | None => false end = false).
    { destruct m; [apply Z.ltb_ge; lia | reflexivity]. }
    rewrite E1, E2. simpl orb. cbv iota. destruct ps as [|p t]; [congruence|].
    rewrite Hl, rpow_particles_spec. reflexivity.
  Qed.

  Lemma particles_errors n m wq (ps : list (pobs K)) :
    ((n < 1)%Z -> ecc_from_particles n m wq ps = Err ValueError)
    /\ ((exists v, m = Some v /\ (v < 1)%Z) -> ecc_from_particles n m wq ps = Err ValueError)
    /\ ((1 <= n)%Z -> match m with Some v => (1 <= v)%Z | None => True end -> ps <> [] ->
        Ecc.lookup wq gen_weight_table = None -> ecc_from_particles n m wq ps = Err ValueError)
    /\ ((1 <= n)%Z -> match m with Some v => (1 <= v)%Z | None => True end ->
        ecc_from_particles n m wq [] = Err ZeroDivisionError).
  Proof.
    unfold Ecc.ecc_from_particles, arg_check, gen_n_min_particles, gen_m_min_particles. repeat split.
    - intros H. assert (E : (n <? 1)%Z = true) by (apply Z.ltb_lt; lia). now rewrite E.
    - intros (v & -> & H). assert (E : (v <? 1)%Z = true) by (apply Z.ltb_lt; lia). rewrite E. now rewrite orb_true_r.
    - intros Hn Hm Hne Hl.
      assert (E1 : (n <? 1)%Z = false) by (apply Z.ltb_ge; lia).
      assert (E2 : match m with Some v => (v <? 1)%Z | None => false end = false).
      { destruct m; [apply Z.ltb_ge; lia | reflexivity]. }
      rewrite E1, E2. simpl orb. cbv iota. destruct ps; [congruence|]. now rewrite Hl.
    - intros Hn Hm.
      assert (E1 : (n <? 1)%Z = false) by (apply Z.ltb_ge; lia).
      assert (E2 : match m with Some v => (v <? 1)%Z | None => false end = false).
      { destruct m; [apply Z.ltb_ge; lia | reflexivity]. }
      now rewrite E1, E2.
  Qed.

  (* the lattice variant: the same core over the nodes (all z), weighted by the node value *)
  Lemma lattice_core n m xs ys nz rad dens :
    (1 <= n)%Z -> match m with Some v => (1 <= v)%Z | None => True end ->
    nodes K k0 xs ys nz rad dens <> [] ->
    ecc_from_lattice n m xs ys nz rad dens
    = ecc_core (body_lattice K kmul kdiv kopp) (Z.to_nat (radial_power n m)) (Z.to_nat n) (nodes K k0 xs ys nz rad dens).
  Proof.
    intros Hn Hm Hne. unfold Ecc.ecc_from_lattice, arg_check, gen_n_min_lattice, gen_m_min_lattice.
    assert (E1 : (n <? 1)%Z = false) by (apply Z.ltb_ge; lia).
    assert (E2 : match m with Some v => (v <? 1)%Z | None => false end = false).
    { destruct m; [apply Z.ltb_ge; lia | reflexivity]. }
    rewrite E1, E2. simpl orb. cbv iota.
    destruct (nodes K k0 xs ys nz rad dens) as [|p t] eqn:N; [congruence|].
    rewrite rpow_lattice_spec. reflexivity.
  Qed.

  Lemma nodes_weights xs ys nz rad dens :
    weights K (nodes K k0 xs ys nz rad dens)
    = Some (map (fun p => (p, match pw p with Some w => w | None => k0 end)) (nodes K k0 xs ys nz rad dens)).
  Proof.
    assert (G : forall l : list (pt K), (forall p, In p l -> pw p <> None) ->
              weights K l = Some (map (fun p => (p, match pw p with Some w => w | None => k0 end)) l)).
    { induction l as [|p t IH]; intros H; [reflexivity|]. simpl.
      destruct (pw p) eqn:E; [|exfalso; apply (H p); [now left | assumption]].
      rewrite IH; [reflexivity|]. intros q Hq. apply H. now right. }
    apply G. intros p Hp. unfold nodes in Hp.
    apply in_flat_map in Hp. destruct Hp as (i & _ & Hp). apply in_flat_map in Hp. destruct Hp as (j & _ & Hp).
    apply in_map_iff in Hp. destruct Hp as (k & <- & _). discriminate.
  Qed.
End ModelProofs.

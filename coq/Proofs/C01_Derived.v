(* C01 (JETSCAPE): the derived mass and charge of a loaded particle *)
From Coq Require Import List String ZArith QArith Qabs Bool Arith Lia.
From SX Require Import Lib.Strs Gen.GenParticleMap Model.Oscar Model.Jetscape Proofs.C01_Columns.
Import ListNotations.
Local Open Scope string_scope.

Section D.
  Variable tok_float : string -> option Q.
  Variable tok_int : string -> option Q.
  Variable pdg_valid : Q -> bool.
  Variable pdg_charge : Q -> Q.
  Variable usqrt : Q -> Q.

  Definition spec_mass (E px py pz pdg : Q) : option Q :=
    if existsb (fun z => Qeq_bool pdg (inject_Z z)) massless_pdg then Some 0%Q
    else if Qle_bool (px * px + py * py + pz * pz) (E * E)
         then Some (usqrt (E * E - (px * px + py * py + pz * pz))) else None.
  Definition spec_charge (pdg : Q) : option Q :=
    if pdg_valid pdg then
      let c := pdg_charge pdg in Some (if Qle_bool 1 (Qabs c) then c else (c * 3)%Q)
    else None.

  Local Opaque set_slot.
  Theorem jet_derived toks p :
    mk_jet_particle tok_float tok_int pdg_valid pdg_charge usqrt toks = Ok p ->
    exists p0 E px py pz pdg,
      mk_particle tok_float tok_int pdg_valid "JETSCAPE" [] toks = Ok p0 /\
      get_slot 5 p0 = Some E /\ get_slot 6 p0 = Some px /\ get_slot 7 p0 = Some py /\
      get_slot 8 p0 = Some pz /\ get_slot 9 p0 = Some pdg /\
      (List.length p0 = 25%nat ->
         get_slot 4 p = spec_mass E px py pz pdg /\ get_slot 12 p = spec_charge pdg /\
         forall s, s <> 4%nat -> s <> 12%nat -> get_slot s p = get_slot s p0).
  Proof.
    unfold mk_jet_particle. destruct (mk_particle _ _ _ "JETSCAPE" [] toks) as [p0|e] eqn:E0; [|discriminate].
    cbn [bind].
    destruct (get_slot 5 p0) as [E|] eqn:G5; [|discriminate].
    destruct (get_slot 6 p0) as [px|] eqn:G6; [|discriminate].
    destruct (get_slot 7 p0) as [py|] eqn:G7; [|discriminate].
    destruct (get_slot 8 p0) as [pz|] eqn:G8; [|discriminate].
    destruct (get_slot 9 p0) as [pdg|] eqn:G9; [|discriminate].
    intros H. injection H as <-.
    exists p0, E, px, py, pz, pdg. do 6 (split; [first [reflexivity|assumption]|]). intros L. split; [|split].
    - rewrite get_set_other by lia. rewrite get_set_same by lia. reflexivity.
    - rewrite get_set_same by (rewrite set_slot_length; lia). reflexivity.
    - intros s H4 H12. rewrite !get_set_other by congruence. reflexivity.
  Qed.
End D.

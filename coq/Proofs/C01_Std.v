(* C01: composition - a file in the documented SMASH layout with numeric tokens is well-formed,
   hence loads to exactly its content.  [dec] prints event labels / counts; its two laws are the
   oracle laws of Python int() on decimal strings (hypotheses of the section, not axioms). *)
From Coq Require Import List String Ascii ZArith QArith Bool Arith Lia.
From SX Require Import Lib.Strs Lib.StrLemmas Gen.GenParticleMap Model.Oscar Model.OscarDoc
  Proofs.C01_Oscar Proofs.C01_Shapes.
Import ListNotations.
Local Open Scope string_scope.

Section Std.
  Variable tok_float : string -> option Q.
  Variable tok_int : string -> option Q.
  Variable pdg_valid : Q -> bool.
  Variable dec : nat -> string.
  Hypothesis dec_numeric : forall n, numeric (dec n) = true.
  Hypothesis dec_int : forall n, tok_int (dec n) = Some (zq (Z.of_nat n)).

  Record sevent := { s_rows : list line; s_b : string; s_yn : string }.
  Definition std_event (i : nat) (e : sevent) : event :=
    {| e_head := ["#"; "event"; dec i; "out"; dec (List.length (s_rows e))];
       e_rows := s_rows e;
       e_foot := smash_footer (dec i) (s_b e) (s_yn e) |}.
  Fixpoint std_events (i : nat) (l : list sevent) : list event :=
    match l with [] => [] | e :: t => std_event i e :: std_events (S i) t end.

  Definition ok_sevent (fmt : string) (attrs : list string) (e : sevent) : Prop :=
    Forall (fun r => forallb numeric r = true /\
                     exists p, mk_particle tok_float tok_int pdg_valid fmt attrs r = Ok p) (s_rows e) /\
    numeric (s_b e) = true /\ s_b e <> "" /\ (exists v, tok_float (s_b e) = Some v) /\
    (s_yn e = "yes" \/ s_yn e = "no").

  Lemma std_event_wf fmt attrs i e :
    ok_sevent fmt attrs e -> wf_event tok_float tok_int pdg_valid fmt attrs i (std_event i e).
  Proof.
    intros (Hrows & Hb & Hbne & (v & Hv) & Hyn).
    destruct (header_kinds (dec i) (dec (List.length (s_rows e))) (dec_numeric _) (dec_numeric _))
      as (H1 & H2 & H3 & H4).
    destruct (footer_kinds (dec i) (s_b e) (s_yn e) (dec_numeric _) Hb Hyn Hbne)
      as (F1 & F2 & _ & _ & _ & _ & F7).
    unfold wf_event, std_event. cbn [e_head e_rows e_foot].
    repeat split; try assumption.
    - exists (dec i), (dec (List.length (s_rows e))). repeat split; try assumption; apply dec_int.
    - eapply Forall_impl; [|exact Hrows]. intros r (Hn & Hp).
      destruct (row_kinds r Hn) as (K1 & K2). repeat split; assumption.
    - exists v. rewrite F7, Hv. reflexivity.
  Qed.

  Lemma std_events_wf fmt attrs : forall l i,
    Forall (ok_sevent fmt attrs) l -> wf_events tok_float tok_int pdg_valid fmt attrs i (std_events i l).
  Proof.
    induction l as [|e t IH]; intros i H; [exact I|].
    inversion H; subst. split; [apply std_event_wf; assumption|apply IH; assumption].
  Qed.

  Lemma std_events_length i l : List.length (std_events i l) = List.length l.
  Proof. revert i; induction l as [|e t IH]; intros i; cbn; [reflexivity|now rewrite IH]. Qed.

  Lemma std_events_last : forall l i d0, l <> [] ->
    exists e, last (std_events i l) d0 = std_event (i + List.length l - 1) e /\ In e l.
  Proof.
    induction l as [|e t IH]; intros i d0 H; [congruence|].
    destruct t as [|e' t'].
    - exists e. cbn. replace (i + 1 - 1)%nat with i by lia. split; [reflexivity|left; reflexivity].
    - destruct (IH (S i) d0 ltac:(congruence)) as (x & Hx & Hin).
      exists x. split; [|right; exact Hin].
      change (last (std_events i (e :: e' :: t')) d0) with (last (std_events (S i) (e' :: t')) d0).
      rewrite Hx. f_equal. cbn [List.length]. lia.
  Qed.

  (* the documented Oscar2013 layout *)
  Definition h2013 : line :=
    ["#!OSCAR2013"; "particle_lists"; "t"; "x"; "y"; "z"; "mass"; "p0"; "px"; "py"; "pz"; "pdg"; "ID"; "charge"].
  Definition std_doc_2013 (h2 h3 : line) (l : list sevent) : doc :=
    {| d_h1 := h2013; d_h2 := h2; d_h3 := h3; d_events := std_events 0 l |}.

  Theorem std_2013_wf h2 h3 l :
    kind_scan h2 = SOther -> kind_scan h3 = SOther -> l <> [] ->
    Forall (ok_sevent "Oscar2013" []) l ->
    wf tok_float tok_int pdg_valid (std_doc_2013 h2 h3 l) "Oscar2013" [].
  Proof.
    intros K2 K3 Hne Hok. unfold wf, std_doc_2013. cbn [d_h1 d_h2 d_h3 d_events].
    refine (conj eq_refl (conj _ (conj eq_refl (conj K2 (conj K3 (conj _ (conj _ _))))))).
    - left; reflexivity.
    - destruct l; [congruence|discriminate].
    - apply std_events_wf, Hok.
    - rewrite std_events_length.
      destruct (std_events_last l 0 {| e_head := []; e_rows := []; e_foot := [] |} Hne) as (e & He & Hin).
      rewrite He. cbn [e_foot std_event].
      rewrite Forall_forall in Hok. destruct (Hok e Hin) as (_ & Hb & Hbne & _ & Hyn).
      destruct (footer_kinds (dec (0 + List.length l - 1)) (s_b e) (s_yn e) (dec_numeric _) Hb Hyn Hbne)
        as (_ & _ & G3 & G4 & G5 & G6 & _).
      unfold wf_last. repeat split; try assumption.
      exists (dec (0 + List.length l - 1)). split; [exact G6|].
      rewrite dec_int. f_equal. f_equal. destruct l; [congruence|]. cbn [List.length]. lia.
  Qed.

  Corollary std_2013_loads h2 h3 l :
    kind_scan h2 = SOther -> kind_scan h3 = SOther -> l <> [] ->
    Forall (ok_sevent "Oscar2013" []) l ->
    load tok_float tok_int pdg_valid None (render (std_doc_2013 h2 h3 l)) SelAll
    = Ok (expected tok_float tok_int pdg_valid (std_doc_2013 h2 h3 l) "Oscar2013" []).
  Proof. intros. apply load_render, std_2013_wf; assumption. Qed.
End Std.

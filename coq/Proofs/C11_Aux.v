(* Auxiliary lemmas for C11: falling factorials in K, power sums of pairs and their conjugates,
   instantiation of the closed forms of Proofs/C11_Closed.v at the pairs over K. *)
From Coq Require Import String ZArith Ring Ring_theory Arith Lia Bool List.
From SX Require Import Lib.KRing Lib.Cpx Lib.Distinct Proofs.C11_Closed.
Import ListNotations.

Section Aux.
  Variable K : Type.
  Variables (k0 k1 : K) (kadd kmul ksub : K -> K -> K) (kopp : K -> K).
  Hypothesis Kth : ring_theory k0 k1 kadd kmul ksub kopp (@eq K).
  Add Ring KringAux : Kth.

  Notation "0" := k0. Notation "1" := k1.
  Infix "+" := kadd. Infix "*" := kmul. Infix "-" := ksub.
  Notation KN := (knat k0 k1 kadd).
  Notation C := (cpx K).
  Notation C0 := (c0 K k0). Notation C1 := (c1 K k0 k1).
  Notation Cadd := (cadd K kadd). Notation Cmul := (cmul K kadd kmul ksub).
  Notation Csub := (csub K ksub). Notation Copp := (copp K kopp).
  Notation Conj := (@conj K kopp).
  Notation Cth := (cpx_ring K k0 k1 kadd kmul ksub kopp Kth).
  Notation DS := (dsum2 C0 C1 Cadd Cmul Conj).
  Notation PD := (pdsum2 C0 C1 Cadd Cmul Conj).
  Notation PSum := (psum C0 C1 Cadd Cmul).
  Notation Unit := (cunit K k0 k1 kadd kmul ksub kopp).

  (* ---- falling factorial ---- *)
  Fixpoint kff (k : nat) (x : K) : K := match k with O => 1 | S k' => x * kff k' (x - 1) end.

  Lemma knat_add m n : KN (m + n) = KN m + KN n.
  Proof. induction m as [|m IH]; cbn [knat Nat.add]; [ring | rewrite IH; ring]. Qed.

  Lemma knat_mul m n : KN (m * n) = KN m * KN n.
  Proof. induction m as [|m IH]; cbn [knat Nat.mul]; [ring | rewrite knat_add, IH; ring]. Qed.

  Lemma ffact_kff k : forall m, KN (ffact k m) = kff k (KN m).
  Proof.
    induction k as [|k IH]; intros m; cbn [ffact kff]; [cbn [knat]; ring|].
    rewrite knat_mul, IH. destruct m as [|m]; cbn [pred knat]; [ring|].
    replace (1 + KN m - 1) with (KN m) by ring. reflexivity.
  Qed.

  (* mp particles of interest among M particles: mp * ffact k (M-1) tuples *)
  Lemma poi_ffact k mp m : (mp <= m)%nat -> KN (mp * ffact k (pred m)) = KN mp * kff k (KN m - 1).
  Proof.
    intros H. rewrite knat_mul, ffact_kff. destruct m as [|m].
    - assert (mp = 0)%nat by lia. subst. cbn [knat]. ring.
    - cbn [pred knat]. replace (1 + KN m - 1) with (KN m) by ring. reflexivity.
  Qed.

  Lemma ksum_cons x (l : list K) : ksum k0 kadd (x :: l) = x + ksum k0 kadd l.
  Proof. reflexivity. Qed.

  (* ---- power sums of pairs ---- *)
  Lemma conj_kpow z h : Conj (kpow C1 Cmul z h) = kpow C1 Cmul (Conj z) h.
  Proof.
    induction h as [|h IH]; cbn [kpow].
    - apply (conj_1 K k0 k1 kadd kmul ksub kopp Kth).
    - rewrite (conj_mul K k0 k1 kadd kmul ksub kopp Kth), IH. reflexivity.
  Qed.

  Lemma psum_conj h l : PSum h (map Conj l) = Conj (PSum h l).
  Proof.
    unfold psum. induction l as [|z l IH]; cbn [map ksum].
    - symmetry. apply (conj_0 K k0 k1 kadd kmul ksub kopp Kth).
    - rewrite (conj_add K k0 k1 kadd kmul ksub kopp Kth), conj_kpow, IH. reflexivity.
  Qed.

  Lemma unit_rot rho l : Unit rho -> Forall Unit l -> Forall Unit (map (Cmul rho) l).
  Proof.
    intros Hr H. induction H as [|z l Hz Hl IH]; cbn [map]; constructor; [|exact IH].
    apply (cunit_mul K k0 k1 kadd kmul ksub kopp Kth); assumption.
  Qed.

  (* the closed forms at the pairs, with the conjugate power sums written as conjugates and M on the real axis *)
  Definition QSc (l : list C) (f : C -> C -> C -> C -> C -> C -> C -> C) : C :=
    f (PSum 1%nat l) (PSum 2%nat l) (PSum 3%nat l) (Conj (PSum 1%nat l)) (Conj (PSum 2%nat l)) (Conj (PSum 3%nat l))
      (ofK k0 (KN (length l))).

  Lemma QS_QSc l f : QS C C0 C1 Cadd Cmul Conj l f = QSc l f.
  Proof. unfold QS, QSc. rewrite !psum_conj, (cknat K k0 k1 kadd kmul ksub kopp Kth). reflexivity. Qed.

  Definition PSc (l : list (C * bool)) (f : C -> C -> C -> C -> C -> C -> C -> C -> C -> C -> C -> C) : C :=
    let p := fl C l in let a := map fst l in
    f (PSum 1%nat p) (PSum 2%nat p) (Conj (PSum 1%nat p)) (ofK k0 (KN (length p)))
      (PSum 1%nat a) (PSum 2%nat a) (PSum 3%nat a) (Conj (PSum 1%nat a)) (Conj (PSum 2%nat a)) (Conj (PSum 3%nat a))
      (ofK k0 (KN (length a))).

  Lemma PS_PSc l f : PS C C0 C1 Cadd Cmul Conj l f = PSc l f.
  Proof. unfold PS, PSc. cbv zeta. rewrite !psum_conj, !(cknat K k0 k1 kadd kmul ksub kopp Kth). reflexivity. Qed.

  Lemma closed22 l : Forall Unit l -> DS 2 2 l = QSc l (CF_2_2 C C0 C1 Cadd Cmul Csub Copp).
  Proof. intros H. rewrite <- QS_QSc. apply (closed_2_2 C C0 C1 Cadd Cmul Csub Copp Conj Cth l H). Qed.
  Lemma closed11 l : Forall Unit l -> DS 1 1 l = QSc l (CF_1_1 C C0 C1 Cadd Cmul Csub Copp).
  Proof. intros H. rewrite <- QS_QSc. apply (closed_1_1 C C0 C1 Cadd Cmul Csub Copp Conj Cth l H). Qed.
  Lemma closed33 l : Forall Unit l -> DS 3 3 l = QSc l (CF_3_3 C C0 C1 Cadd Cmul Csub Copp).
  Proof. intros H. rewrite <- QS_QSc. apply (closed_3_3 C C0 C1 Cadd Cmul Csub Copp Conj Cth l H). Qed.
  Lemma pclosed01 l : Forall Unit (map fst l) -> PD 0 1 l = PSc l (PF_0_1 C C0 C1 Cadd Cmul Csub Copp).
  Proof. intros H. rewrite <- PS_PSc. apply (pclosed_0_1 C C0 C1 Cadd Cmul Csub Copp Conj Cth l H). Qed.
  Lemma pclosed12 l : Forall Unit (map fst l) -> PD 1 2 l = PSc l (PF_1_2 C C0 C1 Cadd Cmul Csub Copp).
  Proof. intros H. rewrite <- PS_PSc. apply (pclosed_1_2 C C0 C1 Cadd Cmul Csub Copp Conj Cth l H). Qed.

  (* rotation invariance of the balanced sums at the pairs *)
  Lemma ds_rot k rho l : Unit rho -> DS k k (map (Cmul rho) l) = DS k k l.
  Proof.
    intros H. apply (dsum2_rot C C0 C1 Cadd Cmul Csub Copp Conj Cth (conj_mul K k0 k1 kadd kmul ksub kopp Kth)). exact H.
  Qed.
End Aux.

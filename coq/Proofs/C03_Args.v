(* C03: the limit-validation helper of Filter.py accepts exactly the documented limit pairs *)
From Coq Require Import List ZArith QArith Qabs Bool String Lia Lqa.
From SX Require Import Model.PyRt Model.FilterSpec Lib.PyRtLemmas Lib.FilterTac Gen.GenFilters.
Import ListNotations.

(* two limits, each None or a number; allow_none=False: both must be numbers; allow_none=True: not both None.
   Limits in the "wrong" order only produce a warning. *)
Lemma ensure_tuple_ok a b an :
  (an = false -> a <> LNone /\ b <> LNone) -> (a <> LNone \/ b <> LNone) ->
  gen_ensure_tuple_is_valid_else_raise_error (v_pair (v_lim a) (v_lim b)) (VBool an) = Ok VNone.
Proof.
  intros H1 H2. unfold gen_ensure_tuple_is_valid_else_raise_error, v_pair.
  destruct a, b; simpl.
  all: try (exfalso; destruct H2; congruence).
  all: destruct an; simpl.
  all: try (exfalso; destruct (H1 eq_refl); congruence).
  all: qcases; qdone.
Qed.

(* what it rejects *)
Lemma ensure_tuple_both_none an :
  gen_ensure_tuple_is_valid_else_raise_error (v_pair VNone VNone) (VBool an) = Err ValueError.
Proof. destruct an; reflexivity. Qed.
Lemma ensure_tuple_none_not_allowed a :
  gen_ensure_tuple_is_valid_else_raise_error (v_pair (v_lim a) VNone) (VBool false) = Err ValueError /\
  gen_ensure_tuple_is_valid_else_raise_error (v_pair VNone (v_lim a)) (VBool false) = Err ValueError.
Proof. destruct a; split; reflexivity. Qed.
Lemma ensure_tuple_not_pair (l : list pyv) an : List.length l <> 2%nat ->
  gen_ensure_tuple_is_valid_else_raise_error (VTuple l) (VBool an) = Err TypeError.
Proof.
  intros H. unfold gen_ensure_tuple_is_valid_else_raise_error. simpl.
  replace (Z.of_nat (List.length l) =? 2)%Z with false; [reflexivity|].
  symmetry. apply Z.eqb_neq. lia.
Qed.

Definition lim_of_num (n : num) : lim := match n with NInt z => LInt z | NFloat q => LFloat q end.
Lemma v_num_lim n : v_num n = v_lim (lim_of_num n).
Proof. destruct n; reflexivity. Qed.
Lemma lim_of_num_set n : lim_of_num n <> LNone.
Proof. destruct n; discriminate. Qed.

(* C09: a concrete history (non-vacuity of the C09 theorems). *)
From Coq Require Import List ZArith QArith Qcanon Bool Arith.
From SX Require Import Model.Histogram Lib.HistBase Proofs.C09_Count.
Import ListNotations.
Local Open Scope nat_scope.

Definition z2 (n : Z) (d : positive) : Qc := Q2Qc (n # d).
Definition obs (r : result hist) : option (list (option Q) * list (option Q)) :=
  match r with
  | Ok h => Some (map (option_map this) (cur (hH h)), map (option_map this) (cur (hRAW h)))
  | Err _ => None
  end.
Definition c09_example_stmt : Prop :=
  obs (run qsqrt (fresh 2 [z2 0 1; z2 1 1; z2 3 1])
         [OFill (VList [Some (z2 0 1); Some (z2 1 1); Some (z2 5 2); Some (z2 3 1); Some (z2 (-1) 2)])
                (WList [Some (z2 1 1); Some (z2 1 2); Some (z2 5 2); Some (z2 7 1); Some (z2 9 1)]);
          OScale (SScalar (Some (z2 2 1))); OFill (VScalar (Some (z2 1 2))) WNone; ODensity])
  = Some ([Some (1 # 3); Some (1 # 3)], [Some (2 # 1); Some (3 # 1)])%Q.

Lemma c09_example : c09_example_stmt.
Proof. vm_compute. reflexivity. Qed.

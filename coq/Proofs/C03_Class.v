(* C03: charge / collision / classification / PDG-id / status filters of Gen/GenFilters.v
   against their documented predicates (Model/FilterSpec.v). *)
From Coq Require Import List ZArith QArith Qabs Bool String Lia Lqa.
From SX Require Import Model.PyRt Model.FilterSpec Lib.PyRtLemmas Lib.FilterTac Gen.GenFilters.
Import ListNotations.
Local Notation length := List.length.

Ltac simple_inplace gen spec :=
  let Hnr := fresh "Hnr" in
  intros evs Hnr; unfold gen, spec, particle_level; inplace_loop Hnr.

Theorem charged_particles_ok : forall evs, no_raise [A_charge] evs ->
  gen_charged_particles evs = Ok (spec_charged_particles evs).
Proof. simple_inplace gen_charged_particles spec_charged_particles. Qed.
Theorem uncharged_particles_ok : forall evs, no_raise [A_charge] evs ->
  gen_uncharged_particles evs = Ok (spec_uncharged_particles evs).
Proof. simple_inplace gen_uncharged_particles spec_uncharged_particles. Qed.
Theorem participants_ok : forall evs, no_raise [A_ncoll] evs ->
  gen_participants evs = Ok (spec_participants evs).
Proof. simple_inplace gen_participants spec_participants. Qed.
Theorem spectators_ok : forall evs, no_raise [A_ncoll] evs ->
  gen_spectators evs = Ok (spec_spectators evs).
Proof. simple_inplace gen_spectators spec_spectators. Qed.
Theorem keep_hadrons_ok : forall evs, no_raise [M_is_hadron] evs -> gen_keep_hadrons evs = Ok (spec_keep_hadrons evs).
Proof. simple_inplace gen_keep_hadrons spec_keep_hadrons. Qed.
Theorem keep_leptons_ok : forall evs, no_raise [M_is_lepton] evs -> gen_keep_leptons evs = Ok (spec_keep_leptons evs).
Proof. simple_inplace gen_keep_leptons spec_keep_leptons. Qed.
Theorem keep_quarks_ok : forall evs, no_raise [M_is_quark] evs -> gen_keep_quarks evs = Ok (spec_keep_quarks evs).
Proof. simple_inplace gen_keep_quarks spec_keep_quarks. Qed.
Theorem keep_mesons_ok : forall evs, no_raise [M_is_meson] evs -> gen_keep_mesons evs = Ok (spec_keep_mesons evs).
Proof. simple_inplace gen_keep_mesons spec_keep_mesons. Qed.
Theorem keep_baryons_ok : forall evs, no_raise [M_is_baryon] evs -> gen_keep_baryons evs = Ok (spec_keep_baryons evs).
Proof. simple_inplace gen_keep_baryons spec_keep_baryons. Qed.
Theorem keep_up_ok : forall evs, no_raise [M_has_up] evs -> gen_keep_up evs = Ok (spec_keep_up evs).
Proof. simple_inplace gen_keep_up spec_keep_up. Qed.
Theorem keep_down_ok : forall evs, no_raise [M_has_down] evs -> gen_keep_down evs = Ok (spec_keep_down evs).
Proof. simple_inplace gen_keep_down spec_keep_down. Qed.
Theorem keep_strange_ok : forall evs, no_raise [M_has_strange] evs -> gen_keep_strange evs = Ok (spec_keep_strange evs).
Proof. simple_inplace gen_keep_strange spec_keep_strange. Qed.
Theorem keep_charm_ok : forall evs, no_raise [M_has_charm] evs -> gen_keep_charm evs = Ok (spec_keep_charm evs).
Proof. simple_inplace gen_keep_charm spec_keep_charm. Qed.
Theorem keep_bottom_ok : forall evs, no_raise [M_has_bottom] evs -> gen_keep_bottom evs = Ok (spec_keep_bottom evs).
Proof. simple_inplace gen_keep_bottom spec_keep_bottom. Qed.
Theorem keep_top_ok : forall evs, no_raise [M_has_top] evs -> gen_keep_top evs = Ok (spec_keep_top evs).
Proof. simple_inplace gen_keep_top spec_keep_top. Qed.

(* ---- PDG ids *)
Ltac pdg_finish :=
  rewrite ?py_in_int_arr, ?py_not_in_int_arr; simpl; rewrite ?orb_false_r;
  solve [ reflexivity | congruence | qcases; qdone ].

Theorem remove_photons_ok : forall evs, int_or_nan A_pdg evs ->
  gen_remove_photons evs = Ok (spec_remove_photons evs).
Proof.
  intros evs Hnr. unfold gen_remove_photons, spec_remove_photons, particle_level.
  inplace_loop_with pdg_finish Hnr.
Qed.

Ltac ids_args s ids Hs :=
  destruct s; unfold v_ids;
  [ destruct ids as [|? [|? ?]]; simpl in Hs; try discriminate Hs | | | ];
  simpl;
  rewrite ?(isnan_any_list VInt), ?(isnan_any_tuple VInt), ?(isnan_any_arr VNpInt)
    by (exact int_ctor_VInt || exact int_ctor_VNpInt);
  simpl;
  rewrite ?asarray_list, ?asarray_tuple, ?asarray_arr by assumption;
  simpl.

Theorem particle_species_ok : forall evs s ids, shape_ok s ids -> all_int64 ids -> int_or_nan A_pdg evs ->
  gen_particle_species evs (v_ids s ids) = Ok (spec_particle_species evs ids).
Proof.
  intros evs s ids Hs H64 Hnr. unfold gen_particle_species, spec_particle_species, particle_level.
  ids_args s ids Hs.
  all: inplace_loop_with pdg_finish Hnr.
Qed.

Theorem remove_particle_species_ok : forall evs s ids, shape_ok s ids -> all_int64 ids -> int_or_nan A_pdg evs ->
  gen_remove_particle_species evs (v_ids s ids) = Ok (spec_remove_particle_species evs ids).
Proof.
  intros evs s ids Hs H64 Hnr. unfold gen_remove_particle_species, spec_remove_particle_species, particle_level.
  ids_args s ids Hs.
  all: inplace_loop_with pdg_finish Hnr.
Qed.

(* ---- status codes *)
Lemma status_typecheck_VInt zs :
  existsM (fun val => Ok (negb (py_isinstance val [T_int; T_np_integer]))) (map VInt zs) = Ok false.
Proof. rewrite existsM_pure, existsb_map. simpl. rewrite existsb_false. reflexivity. Qed.
Lemma status_typecheck_VNpInt zs :
  existsM (fun val => Ok (negb (py_isinstance val [T_int; T_np_integer]))) (map VNpInt zs) = Ok false.
Proof. rewrite existsM_pure, existsb_map. simpl. rewrite existsb_false. reflexivity. Qed.

Ltac status_finish :=
  rewrite ?py_in_float_arr; simpl; rewrite ?orb_false_r, ?existsb_false;
  try match goal with |- context [existsb ?f ?l] => destruct (existsb f l) end;
  solve [ reflexivity | congruence | qcases; qdone ].

Theorem particle_status_ok : forall evs s ids, shape_ok s ids -> all_int64 ids -> no_raise [A_status] evs ->
  gen_particle_status evs (v_ids s ids) = Ok (spec_particle_status evs ids).
Proof.
  intros evs s ids Hs H64 Hnr. unfold gen_particle_status, spec_particle_status, particle_level.
  destruct s; unfold v_ids;
    [ destruct ids as [|? [|? ?]]; simpl in Hs; try discriminate Hs | | | ];
    simpl; rewrite ?status_typecheck_VInt, ?status_typecheck_VNpInt; simpl;
    rewrite ?asarray_list, ?asarray_tuple, ?asarray_arr by assumption; simpl.
  all: append_loop_with status_finish Hnr.
Qed.

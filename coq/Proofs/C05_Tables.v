(* C05 (common part): the three hand-copied dispatch chains (Gen/GenDispatch.v, regenerated from the loaders) apply, for every
   key, the same Filter function with the same argument passing as the filter METHOD of that name
   (gen_method_X, regenerated from BaseStorer and the storer classes), reject every other key with ValueError,
   and do nothing for a switch that is False. *)
From Coq Require Import List ZArith QArith Bool String Lia.
From SX Require Import Model.PyRt Model.FilterSpec Model.CtorFilters Lib.PyRtLemmas Lib.FilterTac
  Gen.GenFilters Gen.GenDispatch.
Import ListNotations.
Local Notation length := List.length.

Lemma lookup_in_nodup k v (d : list (string * pyv)) : NoDup (map fst d) -> In (k, v) d -> lookup k d = Some v.
Proof.
  induction d as [|[k' v'] t IH]; intros N H; [contradiction|].
  cbn [lookup]. inversion N as [|? ? Hn Nt]; subst. destruct H as [H|H].
  - injection H as -> ->. rewrite String.eqb_refl. reflexivity.
  - destruct (String.eqb k k') eqn:E.
    + apply String.eqb_eq in E. subst k'. exfalso. apply Hn. cbn. apply in_map_iff. exists (k, v). auto.
    + apply IH; assumption.
Qed.

Lemma fold_keys {S} (step : S -> pyv -> result S) (f : S -> string * pyv -> result S) (d : list (string * pyv)) :
  (forall s kv, In kv d -> step s (VStr (fst kv)) = f s kv) ->
  forall s, bind (fold_leftM step (map (fun kv => VStr (fst kv)) d) s) (fun e => Ok e) = fold_leftM f d s.
Proof.
  induction d as [|kv t IH]; intros H s; [reflexivity|].
  cbn [map fold_leftM]. rewrite (H s kv (or_introl eq_refl)).
  destruct (f s kv) as [s'|e]; [|reflexivity]. cbn [bind]. apply IH. intros; apply H; right; assumption.
Qed.

Lemma seq_get_0 {A} (a : A) t : seq_get (a :: t) (VInt 0) = Ok a.
Proof. apply (seq_get_nat (a :: t) 0 a). reflexivity. Qed.
Lemma seq_get_1 {A} (a b : A) t : seq_get (a :: b :: t) (VInt 1) = Ok b.
Proof. apply (seq_get_nat (a :: b :: t) 1 b). reflexivity. Qed.

(* spacetime_cut (where the class has it) is given as a list [dim, (lo, hi)] *)
Definition spacetime_ok (d : list (string * pyv)) : Prop :=
  forall v, lookup "spacetime_cut" d = Some v -> exists a b t, v = VList (a :: b :: t).

Lemma bind_ret {A} (m : result A) : bind m (fun x => Ok x) = m.
Proof. destruct m; reflexivity. Qed.

Lemma notin_eqb k (l : list string) x : ~ In k l -> In x l -> String.eqb k x = false.
Proof. intros Hn Hx. apply String.eqb_neq. intros ->. contradiction. Qed.

(* the key is one of the chain's literals: both sides compute *)
Ltac known_key Hl Hst :=
  cbn; cbn in Hl; rewrite ?Hl; cbn;
  try (destruct (Hst _ Hl) as [? [? [? ->]]]; cbn; rewrite ?seq_get_0, ?seq_get_1; cbn);
  rewrite ?bind_ret; reflexivity.

(* any other key: every comparison of the chain fails *)
Ltac unknown_key k keys Hk :=
  repeat match goal with
  | |- context [String.eqb k ?lit] =>
      rewrite (notin_eqb k keys lit Hk) by (simpl; repeat (first [left; reflexivity | right]))
  end;
  cbn;
  repeat match goal with
  | |- context [String.eqb k ?lit] =>
      let E := fresh "E" in destruct (String.eqb k lit) eqn:E; cbn
  end;
  reflexivity.

Ltac tables_proof gen arity method keys :=
  let d := fresh "d" in let ev := fresh "ev" in let N := fresh "N" in let Hst := fresh "Hst" in
  intros d ev N Hst; unfold gen, ctor_spec;
  destruct d as [|kv0 d0]; [reflexivity|];
  remember (kv0 :: d0) as d eqn:Hd;
  simpl; unfold vlen; rewrite map_length;
  replace (Z.of_nat (length d) =? 0)%Z with false by (subst d; reflexivity);
  simpl;
  rewrite (fold_keys _ (fun e kv => entry arity method (fst kv) (snd kv) e)); [reflexivity|];
  let s := fresh "s" in let k := fresh "k" in let v := fresh "v" in let Hin := fresh "Hin" in
  intros s [k v] Hin; cbn [fst snd];
  pose proof (lookup_in_nodup k v d N Hin) as Hl;
  clear Hd Hin; unfold entry; simpl;
  unfold arity, method, gen_arity_Base, gen_method_Base;
  let Hk := fresh "Hk" in
  destruct (in_dec string_dec k keys) as [Hk|Hk];
  [ unfold keys in Hk; simpl in Hk;
    repeat (destruct Hk as [Hk|Hk]; [subst k; known_key Hl Hst|]); contradiction
  | unknown_key k keys Hk ].


(* C10 source tie: the functions of the hand model Model/Histogram.v that C10 is about are equal to the Gallina
   functions regenerated from the current src/sparkx/Histogram.py (Gen/GenHistogram.v, vocabulary Lib/HistRt.v). *)
From Coq Require Import String List ZArith QArith Qcanon Bool Arith Lia.
From SX Require Import Model.Histogram Lib.HistBase Lib.HistRt Gen.GenHistogram Proofs.C09_Source Proofs.C10_History Proofs.C10_Example.
Import ListNotations.
Local Open Scope nat_scope.

Lemma mapM_ext {A B} (f g : A -> result B) : (forall x, f x = g x) -> forall l, mapM f l = mapM g l.
Proof. intros H. induction l as [|x l IH]; [reflexivity|]. cbn [mapM]. now rewrite H, IH. Qed.
Lemma map_rows_ext a f g : (forall x, f x = g x) -> map_rows a f = map_rows a g.
Proof. intros H. destruct a; [reflexivity|]. cbn [map_rows]. now rewrite (mapM_ext f g H). Qed.

Lemma np_delete_nat {A} (l : list A) i :
  np_delete l (Z.of_nat i) = if Nat.ltb i (length l) then Ok (delete_at i l) else Err IndexError.
Proof.
  unfold np_delete. destruct (Nat.ltb i (length l)) eqn:E.
  - apply Nat.ltb_lt in E. now rewrite norm_index_nat.
  - apply Nat.ltb_ge in E. now rewrite norm_index_nat_out.
Qed.
Lemma np_insert_nat {A} (l : list A) i x :
  np_insert l (Z.of_nat i) x = if Nat.leb i (length l) then Ok (insert_at i x l) else Err IndexError.
Proof.
  unfold np_insert, zlen.
  destruct (0 <=? Z.of_nat i)%Z eqn:E0; [|apply Z.leb_gt in E0; lia].
  destruct (Z.of_nat i <? 0)%Z eqn:E1; [apply Z.ltb_lt in E1; lia|]. cbn [andb].
  destruct (Nat.leb i (length l)) eqn:E.
  - apply Nat.leb_le in E. destruct (Z.of_nat i <=? Z.of_nat (length l))%Z eqn:E2; [|apply Z.leb_gt in E2; lia].
    now rewrite Nat2Z.id.
  - apply Nat.leb_gt in E. destruct (Z.of_nat i <=? Z.of_nat (length l))%Z eqn:E2; [apply Z.leb_le in E2; lia|reflexivity].
Qed.
Lemma py_get_nat {A} (l : list A) k d : k < length l -> py_get l (Z.of_nat k) = Ok (nth k l d).
Proof.
  intros H. unfold py_get. rewrite norm_index_nat by exact H. cbn [bind]. unfold nth_res.
  rewrite (nth_error_nth' l d H). reflexivity.
Qed.

(* ---------------------------------------------------------------- remove_bin *)
Theorem source_remove_bin h index : length (edges h) = S (nbins h) ->
  remove_bin h index = gen_remove_bin h index.
Proof.
  intros HL. unfold remove_bin, gen_remove_bin.
  destruct ((index <? 0)%Z || (Z.of_nat (nbins h) <=? index)%Z) eqn:G; [reflexivity|].
  apply orb_false_iff in G. destruct G as [G1 G2]. apply Z.ltb_ge in G1. apply Z.leb_gt in G2.
  rewrite to_count_pos by lia. hsimp.
  rewrite <- (Z2Nat.id index G1). set (i := Z.to_nat index). rewrite Nat2Z.id.
  rewrite np_delete_nat. replace (Nat.ltb i (length (edges h))) with true by (symmetry; apply Nat.ltb_lt; lia). hsimp.
  replace (Z.to_nat (Z.of_nat (nbins h) - 1)) with (nbins h - 1) by lia.
  unfold np_rows_map.
  assert (EXT : forall r : list cell, np_delete r (Z.of_nat i) = del_row i r) by (intros; apply np_delete_nat).
  rewrite !(map_rows_ext _ _ _ EXT).
  destruct (map_rows (hH h) (del_row i)); hsimp; [|reflexivity].
  destruct (map_rows (hERR h) (del_row i)); hsimp; [|reflexivity].
  destruct (map_rows (hRAW h) (del_row i)); hsimp; [|reflexivity].
  destruct (map_rows (hSYS h) (del_row i)); hsimp; [|reflexivity].
  destruct (map_rows (hSCAL h) (del_row i)); hsimp; reflexivity.
Qed.

(* ---------------------------------------------------------------- add_bin *)
Lemma add_bin_tail h i e : i < length (edges h) ->
  (do H' <- map_rows (hH h) (ins_row i c0);
   do E' <- map_rows (hERR h) (ins_row i c0);
   do R' <- map_rows (hRAW h) (ins_row i c0);
   do Y' <- map_rows (hSYS h) (ins_row i c0);
   do S' <- map_rows (hSCAL h) (ins_row i c1);
   Ok (mkH (S (nbins h)) (insert_at i e (edges h)) (nhist h) H' R' E' S' Y')) =
  (do n5_ <- to_count (Z.of_nat (nbins h) + 1);
   let h0 := set_nbins h n5_ in
   do a6_ <- np_insert (edges h0) (Z.of_nat i) e;
   let h1 := set_edges h0 a6_ in
   do a7_ <- np_rows_map (hH h1) (fun v_hist => np_insert v_hist (Z.of_nat i) c0);
   let h2 := set_hH h1 a7_ in
   do a8_ <- np_rows_map (hERR h2) (fun v_err => np_insert v_err (Z.of_nat i) c0);
   let h3 := set_hERR h2 a8_ in
   do a9_ <- np_rows_map (hRAW h3) (fun v_raw_count => np_insert v_raw_count (Z.of_nat i) c0);
   let h4 := set_hRAW h3 a9_ in
   do a10_ <- np_rows_map (hSYS h4) (fun v_sys_err => np_insert v_sys_err (Z.of_nat i) c0);
   let h5 := set_hSYS h4 a10_ in
   do a11_ <- np_rows_map (hSCAL h5) (fun v_scaling => np_insert v_scaling (Z.of_nat i) c1);
   let h6 := set_hSCAL h5 a11_ in Ok h6).
Proof.
  intros Hi. rewrite to_count_pos by lia. hsimp. rewrite np_insert_nat.
  replace (Nat.leb i (length (edges h))) with true by (symmetry; apply Nat.leb_le; lia). hsimp.
  replace (Z.to_nat (Z.of_nat (nbins h) + 1)) with (S (nbins h)) by lia.
  unfold np_rows_map.
  assert (EXT : forall x (r : list cell), np_insert r (Z.of_nat i) x = ins_row i x r) by (intros; apply np_insert_nat).
  rewrite (map_rows_ext (hH h) _ _ (EXT c0)).
  destruct (map_rows (hH h) (ins_row i c0)); hsimp; [|reflexivity].
  rewrite (map_rows_ext (hERR h) _ _ (EXT c0)).
  destruct (map_rows (hERR h) (ins_row i c0)); hsimp; [|reflexivity].
  rewrite (map_rows_ext (hRAW h) _ _ (EXT c0)).
  destruct (map_rows (hRAW h) (ins_row i c0)); hsimp; [|reflexivity].
  rewrite (map_rows_ext (hSYS h) _ _ (EXT c0)).
  destruct (map_rows (hSYS h) (ins_row i c0)); hsimp; [|reflexivity].
  rewrite (map_rows_ext (hSCAL h) _ _ (EXT c1)).
  destruct (map_rows (hSCAL h) (ins_row i c1)); hsimp; reflexivity.
Qed.

Theorem source_add_bin h index e : add_bin h index e = gen_add_bin h index e.
Proof.
  unfold add_bin, gen_add_bin, zlen. cbn [negb].
  destruct ((index <? 0)%Z || (Z.of_nat (length (edges h)) <=? index)%Z) eqn:G; [reflexivity|].
  apply orb_false_iff in G. destruct G as [G1 G2]. apply Z.ltb_ge in G1. apply Z.leb_gt in G2.
  rewrite <- (Z2Nat.id index G1). set (i := Z.to_nat index). rewrite Nat2Z.id.
  assert (Hi : i < length (edges h)) by lia.
  change (0 <? Z.of_nat i)%Z with (Z.of_nat 0 <? Z.of_nat i)%Z. rewrite !zltb_nat.
  replace (Nat.ltb i (length (edges h))) with true by (symmetry; now apply Nat.ltb_lt).
  unfold andM at 2. cbn [bind]. rewrite (py_get_nat _ i 0%Qc Hi). cbn [bind].
  destruct (Nat.ltb 0 i) eqn:E0.
  - apply Nat.ltb_lt in E0. unfold andM. cbn [bind andb].
    replace (Z.of_nat i - 1)%Z with (Z.of_nat (i - 1)) by lia.
    rewrite (py_get_nat _ (i - 1) 0%Qc) by lia. cbn [bind].
    destruct (Qcleb e (nth (i - 1) (edges h) 0%Qc)); [reflexivity|].
    destruct (Qcleb (nth i (edges h) 0%Qc) e); [reflexivity|].
    now apply add_bin_tail.
  - unfold andM. cbn [bind andb].
    destruct (Qcleb (nth i (edges h) 0%Qc) e); [reflexivity|].
    now apply add_bin_tail.
Qed.

(* ---------------------------------------------------------------- averaging *)
Lemma sq_sub_rows rows avg :
  map (map csq) (map (fun row => map2 csub row avg) rows) = map (fun r => map2 (fun x a => csq (csub x a)) r avg) rows.
Proof. rewrite map_map. apply map_ext. intros r. apply map_map2. Qed.

Lemma avg_tail usqrt h (H' E' : arr) (ws : list cell) :
  (do srows <- rows_of (hSYS h);
   do savg <- average0 (map (map csq) srows) ws;
   let Y' := reshape_row (A1 (map (csqrt usqrt) savg)) in
   do rrows <- rows_of (hRAW h);
   let R' := reshape_row (A1 (colsum rrows)) in
   do S' <- first_row_2d (hSCAL h);
   Ok (mkH (nbins h) (edges h) 1 H' R' E' S' Y')) =
  (let h0 := set_hERR (set_hH h H') E' in
   do a5_ <- (do t4_ <- (do t3_ <- np_average0 (np_sq (hSYS h0)) ws; Ok (arr_map (csqrt usqrt) t3_)); Ok (np_reshape_row t4_));
   let h1 := set_hSYS h0 a5_ in
   do a7_ <- (do t6_ <- np_sum0 (hRAW h1); Ok (np_reshape_row t6_));
   let h2 := set_hRAW h1 a7_ in
   do a8_ <- np_getitem (hSCAL h2) 0;
   let h3 := set_hSCAL h2 a8_ in
   do h4 <- (if (arr_ndim (hSCAL h3) =? 1)%Z then let h4 := set_hSCAL h3 (np_reshape_row (hSCAL h3)) in Ok h4 else Ok h3);
   do n9_ <- to_count 1; let h5 := set_nhist h4 n9_ in Ok h5).
Proof.
  hsimp. unfold np_average0, np_sum0, np_getitem.
  destruct (hSYS h) as [v|srows]; [reflexivity|]. cbn [np_sq arr_map rows_of bind].
  destruct (average0 (map (map csq) srows) ws) as [savg|e]; cbn [bind arr_map]; [|reflexivity]. hsimp.
  destruct (hRAW h) as [v|rrows]; [reflexivity|]. cbn [rows_of bind]. hsimp.
  destruct (hSCAL h) as [v|[|r t]]; [reflexivity|reflexivity|]. reflexivity.
Qed.

Theorem source_average_weighted usqrt h ws : average_weighted usqrt h ws = gen_average_weighted usqrt h ws.
Proof.
  unfold average_weighted, gen_average_weighted, np_average0 at 1.
  destruct (hH h) as [v|rows] eqn:EH; [reflexivity|]. cbn [rows_of bind].
  destruct (average0 rows ws) as [avg|e]; cbn [bind]; [|reflexivity].
  cbn [np_sub_rows bind np_sq arr_map]. rewrite sq_sub_rows. unfold np_average0 at 1. cbn [rows_of bind].
  destruct (average0 (map (fun r => map2 (fun x a => csq (csub x a)) r avg) rows) ws) as [variance|e]; cbn [bind]; [|reflexivity].
  cbn [arr_ndim Z.eqb bind arr_map]. apply avg_tail.
Qed.

Theorem source_average usqrt h : average usqrt h = gen_average usqrt h.
Proof.
  unfold average, gen_average. rewrite np_ones_nat. cbn [bind]. rewrite bind_ret. apply source_average_weighted.
Qed.

Lemma rdiv_sq_rows erows :
  map (map (cdiv c1)) (map (map csq) erows) = map (map (fun e => cdiv c1 (csq e))) erows.
Proof. rewrite map_map. apply map_ext. intros r. apply map_map. Qed.

Theorem source_average_weighted_by_error usqrt h :
  average_weighted_by_error usqrt h = gen_average_weighted_by_error usqrt h.
Proof.
  unfold average_weighted_by_error, gen_average_weighted_by_error, np_any_eq0.
  destruct (hERR h) as [v|erows] eqn:EE; [reflexivity|]. cbn [rows_of bind].
  destruct (existsb (existsb c_is0) erows); [reflexivity|].
  cbn [np_sq np_rdiv arr_map]. rewrite rdiv_sq_rows. set (W := map (map (fun e => cdiv c1 (csq e))) erows).
  unfold np_average0_2d at 1.
  destruct (hH h) as [v|rows] eqn:EH; [reflexivity|]. cbn [rows_of bind].
  destruct (average0_2d rows W) as [avg|e]; cbn [bind]; [|reflexivity].
  cbn [arr_ndim Z.eqb Pos.eqb bind]. hsimp. rewrite EE. cbn [np_sq np_rdiv arr_map]. rewrite rdiv_sq_rows. fold W.
  unfold np_sum0 at 1. cbn [rows_of bind np_rdiv arr_map]. hsimp.
  unfold np_average0_2d, np_sum0, np_getitem.
  destruct (hSYS h) as [v|srows]; [reflexivity|]. cbn [np_sq arr_map rows_of bind].
  destruct (average0_2d (map (map csq) srows) W) as [savg|e]; cbn [bind arr_map]; [|reflexivity]. hsimp.
  destruct (hRAW h) as [v|rrows]; [reflexivity|]. cbn [rows_of bind]. hsimp.
  destruct (hSCAL h) as [v|[|r t]]; [reflexivity|reflexivity|].
  cbn. rewrite map_map. reflexivity.
Qed.

(* ---------------------------------------------------------------- write_to_file *)
Theorem source_default_columns :
  gen_column_names_1 = ["bin_center"; "bin_low"; "bin_high"; "distribution"; "stat_err+"; "stat_err-"; "sys_err+"; "sys_err-"]%string
  /\ colkeys gen_column_names_1 = default_columns.
Proof. split; reflexivity. Qed.

Lemma py_get_nat_res {A} (l : list A) k : py_get l (Z.of_nat k) = nth_res l k.
Proof.
  unfold py_get. destruct (Nat.ltb k (length l)) eqn:E.
  - apply Nat.ltb_lt in E. now rewrite norm_index_nat.
  - apply Nat.ltb_ge in E. rewrite norm_index_nat_out by exact E. unfold nth_res.
    now rewrite (proj2 (nth_error_None l k) E).
Qed.
Lemma np_cell2_nat a idx i : np_cell2 a (Z.of_nat idx) (Z.of_nat i) = cell2 a idx i.
Proof.
  unfold np_cell2. destruct (Z.of_nat idx <? 0)%Z eqn:E1; [apply Z.ltb_lt in E1; lia|].
  destruct (Z.of_nat i <? 0)%Z eqn:E2; [apply Z.ltb_lt in E2; lia|]. cbn [orb]. now rewrite !Nat2Z.id.
Qed.

Lemma forallb_const_true {A} (l : list A) : forallb (fun _ => true) l = true.
Proof. induction l; auto. Qed.
Lemma forallM_shared {A D} (r : result D) (g : D -> A -> bool) l : l <> [] ->
  forallM (fun x => do d <- r; Ok (g d x)) l = do d <- r; Ok (forallb (g d) l).
Proof.
  intros HN. destruct r as [d|e]; cbn [bind].
  - clear HN. induction l as [|x l IH]; [reflexivity|]. cbn [forallM forallb bind]. destruct (g d x); [exact IH|reflexivity].
  - destruct l; [congruence|reflexivity].
Qed.
Lemma mapM_shared {A B D} (r : result D) (f : D -> A -> result B) l : l <> [] ->
  mapM (fun x => do d <- r; f d x) l = do d <- r; mapM (f d) l.
Proof.
  intros HN. destruct r as [d|e]; cbn [bind]; [reflexivity|]. destruct l; [congruence|reflexivity].
Qed.
Lemma py_get_0 {A} (l : list A) : py_get l 0 = match l with [] => Err IndexError | d :: _ => Ok d end.
Proof. destruct l; reflexivity. Qed.
Lemma mapM_map {A B C} (f : B -> result C) (g : A -> B) l : mapM f (map g l) = mapM (fun x => f (g x)) l.
Proof. induction l as [|x l IH]; [reflexivity|]. cbn [map mapM]. now rewrite IH. Qed.
Lemma mapM_ext_in {A B} (f g : A -> result B) l : (forall x, In x l -> f x = g x) -> mapM f l = mapM g l.
Proof.
  induction l as [|x l IH]; intros H; [reflexivity|]. cbn [mapM].
  rewrite (H x (or_introl eq_refl)), IH; [reflexivity|]. intros y Hy. apply H. now right.
Qed.
Lemma col_index_default c : col_in c default_columns = true -> col_index default_columns c = Ok c.
Proof. do 8 (destruct c as [|c]; [reflexivity|]). discriminate. Qed.
Lemma bind_congr {A B} (a b : result A) (k : A -> result B) : a = b -> bind a k = bind b k.
Proof. now intros ->. Qed.
Lemma py_range_nat n : py_range (Z.of_nat n) = map Z.of_nat (seq 0 n).
Proof. unfold py_range. now rewrite Nat2Z.id. Qed.
Lemma py_list_repeat_nat {A} (l : list A) n : py_list_repeat l (Z.of_nat n) = concat (repeat l n).
Proof. unfold py_list_repeat. now rewrite Nat2Z.id. Qed.
Lemma zltb_1 n : (1 <? Z.of_nat n)%Z = Nat.ltb 1 n.
Proof. exact (zltb_nat 1 n). Qed.
Lemma zeqb_1 n : (Z.of_nat n =? 1)%Z = Nat.eqb n 1.
Proof. exact (zeqb_nat n 1). Qed.

Ltac tail_tac h HN HIN :=
  let idx := fresh "idx" in let i := fresh "i" in let c := fresh "c" in let Hc := fresh "Hc" in
  rewrite (py_range_nat (nhist h)), mapM_map; apply mapM_ext; intros idx;
  rewrite (mapM_shared _ _ _ HN), py_get_nat_res;
  match goal with |- context [nth_res ?l idx] => destruct (nth_res l idx); cbn [bind]; [|reflexivity] end;
  match goal with |- context [mapM (lookup ?d) ?cs] => destruct (mapM (lookup d) cs); cbn [bind]; [|reflexivity] end;
  apply bind_congr; rewrite (py_range_nat (nbins h)), mapM_map; apply mapM_ext; intros i;
  unfold data_row, qcell; rewrite source_bin_centers;
  destruct (source_bounds h) as [-> [-> _]]; cbn [bind]; rewrite !py_get_nat_res, !np_cell2_nat;
  destruct (nth_res (centers (edges h)) i); cbn [bind]; [|reflexivity];
  destruct (nth_res (bounds_left (edges h)) i); cbn [bind]; [|reflexivity];
  destruct (nth_res (bounds_right (edges h)) i); cbn [bind]; [|reflexivity];
  destruct (cell2 (hH h) idx i); cbn [bind]; [|reflexivity];
  destruct (cell2 (hERR h) idx i); cbn [bind]; [|reflexivity];
  destruct (cell2 (hSYS h) idx i); cbn [bind]; [|reflexivity];
  rewrite bind_ret; apply mapM_ext_in; intros c Hc;
  rewrite col_index_default by (exact (proj1 (forallb_forall _ _) HIN c Hc)); reflexivity.

Theorem source_write_to_file h labels columns : (forall cs, columns = Some cs -> cs <> []) ->
  write_to_file h labels columns = gen_write_to_file h labels columns.
Proof.
  intros HC. unfold write_to_file, gen_write_to_file. rewrite forallb_const_true. cbn [negb orb].
  change (colkeys gen_column_names_1) with default_columns.
  unfold zlen. rewrite zltb_1, zeqb_1, zltb_nat, py_list_repeat_nat.
  destruct columns as [cols|].
  - assert (HN : cols <> []) by (now apply HC). rewrite forallb_const_true. cbn [negb orb].
    rewrite (forallM_shared _ _ _ HN), py_get_0.
    destruct labels as [|d0 ls]; [reflexivity|]. cbn [bind notM].
    destruct (forallb (has_key d0) cols); cbn [negb bind]; [|reflexivity].
    change (fun c : nat => existsb (Nat.eqb c) default_columns) with (fun c : nat => col_in c default_columns).
    destruct (Nat.ltb 1 (nhist h) && Nat.eqb (length (d0 :: ls)) 1); cbn [bind].
    + destruct (forallb (fun c => col_in c default_columns) cols) eqn:HIN; cbn [negb bind]; [|reflexivity].
      tail_tac h HN HIN.
    + change (1 <? Z.of_nat (length (d0 :: ls)))%Z with (Z.of_nat 1 <? Z.of_nat (length (d0 :: ls)))%Z. rewrite zltb_nat.
      destruct (Nat.ltb 1 (nhist h) && (Nat.ltb 1 (length (d0 :: ls)) && Nat.ltb (length (d0 :: ls)) (nhist h))) eqn:E2.
      * rewrite andb_assoc in E2. rewrite E2. reflexivity.
      * rewrite andb_assoc in E2. rewrite E2. cbn [bind].
        destruct (forallb (fun c => col_in c default_columns) cols) eqn:HIN; cbn [negb bind]; [|reflexivity].
        tail_tac h HN HIN.
  - cbn [bind].
    assert (HN : default_columns <> []) by discriminate.
    assert (HIN : forallb (fun c => col_in c default_columns) default_columns = true) by reflexivity.
    destruct (Nat.ltb 1 (nhist h) && Nat.eqb (length labels) 1); cbn [bind].
    + tail_tac h HN HIN.
    + change (1 <? Z.of_nat (length labels))%Z with (Z.of_nat 1 <? Z.of_nat (length labels))%Z. rewrite zltb_nat.
      destruct (Nat.ltb 1 (nhist h) && (Nat.ltb 1 (length labels) && Nat.ltb (length labels) (nhist h))) eqn:E2.
      * rewrite andb_assoc in E2. rewrite E2. reflexivity.
      * rewrite andb_assoc in E2. rewrite E2. cbn [bind]. tail_tac h HN HIN.
Qed.

(* ---------------------------------------------------------------- every operation, every history *)
Definition gen_step (usqrt : Qc -> Qc) (h : hist) (o : op) : result hist :=
  match o with
  | OFill v w => gen_add_value h (of_vals v) (of_wts w)
  | OAddHist => gen_add_histogram h
  | OScale s => gen_scale_histogram h (of_scl s)
  | OSetErr l => gen_set_error h l
  | OSetSys l => gen_set_systematic_error h l
  | OStatErr => gen_statistical_error usqrt h
  | ODensity => gen_make_density usqrt h
  | OAddBin i e => gen_add_bin h i e
  | ORemoveBin i => gen_remove_bin h i
  | OAverage => gen_average usqrt h
  | OAvgW ws => gen_average_weighted usqrt h ws
  | OAvgErr => gen_average_weighted_by_error usqrt h
  end.
Fixpoint gen_run (usqrt : Qc -> Qc) (h : hist) (ops : list op) : result hist :=
  match ops with
  | [] => Ok h
  | o :: t => do h' <- gen_step usqrt h o; gen_run usqrt h' t
  end.

Lemma Shape_edges h : Shape h -> edges h <> [] /\ length (edges h) = S (nbins h) /\ exists erows, hERR h = A2 erows.
Proof.
  intros [_ [HL [_ [_ [[erows [HE _]] _]]]]]. repeat split; [|exact HL|eauto].
  intros E. rewrite E in HL. discriminate.
Qed.

Theorem source_step usqrt h o : Shape h -> step usqrt h o = gen_step usqrt h o.
Proof.
  intros HS. destruct (Shape_edges h HS) as [H1 [H2 H3]]. destruct o; cbn [step gen_step].
  - now apply source_add_value.
  - apply source_add_histogram.
  - apply source_scale_histogram.
  - apply source_set_error.
  - apply source_set_systematic_error.
  - now apply source_statistical_error.
  - now apply source_make_density.
  - apply source_add_bin.
  - now apply source_remove_bin.
  - apply source_average.
  - apply source_average_weighted.
  - apply source_average_weighted_by_error.
Qed.

Theorem source_run usqrt : forall ops h, Shape h -> run usqrt h ops = gen_run usqrt h ops.
Proof.
  induction ops as [|o t IH]; intros h HS; [reflexivity|]. cbn [run gen_run].
  rewrite <- (source_step usqrt h o HS).
  destruct (step usqrt h o) as [h'|e] eqn:E; cbn [bind]; [|reflexivity].
  apply IH. exact (step_shape usqrt h o h' HS E).
Qed.

(* non-vacuity: the regenerated functions compute; on the history of C10_example they give the model's state *)
Theorem source_example :
  gen_run qsqrt (fresh 2 [z2 0 1; z2 1 1; z2 2 1]) ex_ops = run qsqrt (fresh 2 [z2 0 1; z2 1 1; z2 2 1]) ex_ops
  /\ (exists h, gen_run qsqrt (fresh 2 [z2 0 1; z2 1 1; z2 2 1]) ex_ops = Ok h /\ shapeb h = true
       /\ exists t, gen_write_to_file h [[(1, 11); (3, 13); (4, 14)]] (Some [3; 1; 4]) = Ok t
                    /\ write_to_file h [[(1, 11); (3, 13); (4, 14)]] (Some [3; 1; 4]) = Ok t).
Proof.
  split; [vm_compute; reflexivity|].
  eexists. split; [vm_compute; reflexivity|]. split; [vm_compute; reflexivity|].
  eexists. split; vm_compute; reflexivity.
Qed.

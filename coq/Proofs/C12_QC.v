(* C12 - Q-cumulants: <<2>>, <<4>>, <<6>> depend neither on the per-event random rotation, nor on the order of the
   particles in an event, nor on the order of the events (corollary of C11: they equal the tuple sums, and the tuple
   sums of unit-modulus numbers are functions of power sums). *)
From Coq Require Import String ZArith Ring Ring_theory Arith Lia Bool List Permutation.
From SX Require Import Lib.KRing Lib.Cpx Lib.Distinct Proofs.C11_Closed Proofs.C11_Aux Gen.GenQCumulant Model.QCumulant
  Proofs.C11_Corr Proofs.C12_Skel.
Import ListNotations.

Section QC.
  Variable K : Type.
  Variables (k0 k1 : K) (kadd kmul ksub : K -> K -> K) (kopp : K -> K) (kdiv : K -> K -> K).
  Variables (kleb kltb : K -> K -> bool).
  Variable krpow : nat -> nat -> K -> K.
  Hypothesis Kth : ring_theory k0 k1 kadd kmul ksub kopp (@eq K).
  Add Ring KringQC : Kth.
  Variable P : Type.
  Variable zof : P -> cpx K.
  Variables inbin ispoi : P -> bool.

  Notation C := (cpx K).
  Notation C0 := (c0 K k0). Notation C1 := (c1 K k0 k1).
  Notation Cadd := (cadd K kadd). Notation Cmul := (cmul K kadd kmul ksub).
  Notation Conj := (@conj K kopp).
  Notation DS := (dsum2 C0 C1 Cadd Cmul Conj).
  Notation PSum := (psum C0 C1 Cadd Cmul).
  Notation Unit := (cunit K k0 k1 kadd kmul ksub kopp).
  Notation event := (event K P).
  Notation good := (good K k0 k1 kadd kmul ksub kopp P zof).
  Notation M f := (f K k0 k1 kadd kmul ksub kopp kdiv kleb kltb krpow P zof inbin ispoi).
  Notation Sn := (spec_num K k0 k1 kadd kmul ksub kopp P zof).
  Notation Sd := (spec_den K k0 k1 kadd P).
  Notation Zs0 := (zs0 K P zof).

  (* same particles up to order, any rotations *)
  Definition same_particles (e e' : event) : Prop := Permutation (snd e) (snd e').
  Definition qc_related (evs evs' : list event) : Prop :=
    exists evs1, Forall2 same_particles evs evs1 /\ Permutation (map snd evs1) (map snd evs').

  Lemma psum_perm h l l' : Permutation l l' -> PSum h l = PSum h l'.
  Proof. intros H. unfold psum. apply (csum_map_perm K k0 k1 kadd kmul ksub kopp Kth (fun x => kpow C1 Cmul x h)), H. Qed.

  Lemma QSc_perm l l' f : Permutation l l' ->
    QSc K k0 k1 kadd kmul ksub kopp l f = QSc K k0 k1 kadd kmul ksub kopp l' f.
  Proof. intros H. unfold QSc. rewrite !(psum_perm _ l l' H), (Permutation_length H). reflexivity. Qed.

  Lemma units_perm l l' : Permutation l l' -> Forall Unit l -> Forall Unit l'.
  Proof. intros H Hl. apply Forall_forall. intros x Hx. rewrite Forall_forall in Hl. apply Hl. apply Permutation_sym in H. apply (Permutation_in _ H Hx). Qed.

  Lemma ds_perm k l l' : (k = 1 \/ k = 2 \/ k = 3)%nat -> Forall Unit l -> Permutation l l' -> DS k k l = DS k k l'.
  Proof.
    intros Hk Hl H. pose proof (units_perm l l' H Hl) as Hl'.
    destruct Hk as [-> | [-> | ->]].
    - rewrite !(closed11 K k0 k1 kadd kmul ksub kopp Kth) by assumption. apply QSc_perm, H.
    - rewrite !(closed22 K k0 k1 kadd kmul ksub kopp Kth) by assumption. apply QSc_perm, H.
    - rewrite !(closed33 K k0 k1 kadd kmul ksub kopp Kth) by assumption. apply QSc_perm, H.
  Qed.

  Lemma good_zs0 e : good e -> Forall Unit (Zs0 e).
  Proof. intros [_ H]. unfold zs0. induction H; cbn [map]; constructor; assumption. Qed.

  Lemma spec_related k evs evs' : (k = 1 \/ k = 2 \/ k = 3)%nat -> Forall good evs -> qc_related evs evs' ->
    Sn k evs = Sn k evs' /\ Sd k evs = Sd k evs'.
  Proof.
    intros Hk Hg [evs1 [H1 H2]]. unfold spec_num, spec_den.
    set (f := fun l : list P => re (DS k k (map zof l))).
    set (g := fun l : list P => knat k0 k1 kadd (ffact (2 * k) (length l))).
    change (ksum k0 kadd (map (fun e : event => f (snd e)) evs) = ksum k0 kadd (map (fun e : event => f (snd e)) evs')
            /\ ksum k0 kadd (map (fun e : event => g (snd e)) evs) = ksum k0 kadd (map (fun e : event => g (snd e)) evs')).
    assert (Ef : forall l : list event, map (fun e : event => f (snd e)) l = map f (map snd l)) by (intros; rewrite map_map; reflexivity).
    assert (Eg : forall l : list event, map (fun e : event => g (snd e)) l = map g (map snd l)) by (intros; rewrite map_map; reflexivity).
    rewrite (Ef evs'), (Eg evs').
    rewrite <- (ksum_map_perm K k0 k1 kadd kmul ksub kopp Kth f _ _ H2), <- (ksum_map_perm K k0 k1 kadd kmul ksub kopp Kth g _ _ H2).
    rewrite <- (Ef evs1), <- (Eg evs1). clear Ef Eg. split; f_equal.
    - clear H2. induction H1 as [|e e1 l l1 He Hl IH]; [reflexivity|]. cbn [map]. inversion Hg as [|? ? Hge Hgl]; subst. rewrite IH by assumption. f_equal.
      unfold f. f_equal. apply ds_perm; [exact Hk | apply (good_zs0 e); assumption | apply Permutation_map, He].
    - clear H2. induction H1 as [|e e1 l l1 He Hl IH]; [reflexivity|]. cbn [map]. inversion Hg as [|? ? Hge Hgl]; subst. rewrite IH by assumption. f_equal.
      unfold g. rewrite (Permutation_length He). reflexivity.
  Qed.

  Lemma good_related evs evs' : Forall good evs -> qc_related evs evs' -> Forall (fun e => Unit (fst e)) evs' -> Forall good evs'.
  Proof.
    intros Hg [evs1 [H1 H2]] Hr.
    assert (G1 : Forall (fun l => Forall (fun p => Unit (zof p)) l) (map snd evs1)).
    { clear H2. induction H1 as [|e e1 l l1 He Hl IH]; cbn [map]; [constructor|].
      inversion Hg as [|? ? Hge Hgl]; subst. constructor.
      - destruct Hge as [_ Hu]. apply Forall_forall. intros x Hx. rewrite Forall_forall in Hu. apply Hu.
        apply (Permutation_in _ (Permutation_sym He) Hx).
      - apply IH. assumption. }
    assert (G2 : Forall (fun l => Forall (fun p => Unit (zof p)) l) (map snd evs')).
    { apply Forall_forall. intros x Hx. rewrite Forall_forall in G1. apply G1. apply (Permutation_in _ (Permutation_sym H2) Hx). }
    clear -G2 Hr. induction evs' as [|e evs' IH]; [constructor|]. cbn [map] in G2.
    inversion G2 as [|? ? Ga Gb]; inversion Hr as [|? ? Ra Rb]; subst. constructor.
    - split; assumption.
    - apply IH; assumption.
  Qed.

  Theorem qc_invariant evs evs' : Forall good evs -> Forall (fun e => Unit (fst e)) evs' -> qc_related evs evs' ->
    M corr2 evs = M corr2 evs' /\ M corr4 evs = M corr4 evs' /\ M corr6 evs = M corr6 evs'.
  Proof.
    intros Hg Hr H. pose proof (good_related evs evs' Hg H Hr) as Hg'.
    rewrite !(corr2_ok K k0 k1 kadd kmul ksub kopp kdiv kleb kltb krpow Kth P zof inbin ispoi) by assumption.
    rewrite !(corr4_ok K k0 k1 kadd kmul ksub kopp kdiv kleb kltb krpow Kth P zof inbin ispoi) by assumption.
    rewrite !(corr6_ok K k0 k1 kadd kmul ksub kopp kdiv kleb kltb krpow Kth P zof inbin ispoi) by assumption.
    destruct (spec_related 1 evs evs') as [-> ->]; auto.
    destruct (spec_related 2 evs evs') as [-> ->]; auto.
    destruct (spec_related 3 evs evs') as [-> ->]; auto.
  Qed.
End QC.

(* C02 (Oscar family): loading with events=(a,b) or events=k equals loading everything and slicing. *)
From Coq Require Import List String ZArith QArith Bool Arith Lia.
From SX Require Import Lib.Strs Gen.GenParticleMap Model.Oscar Model.OscarDoc Proofs.C01_Oscar.
Import ListNotations.
Local Open Scope string_scope.

Section P.
  Variable tok_float : string -> option Q.
  Variable tok_int : string -> option Q.
  Variable pdg_valid : Q -> bool.

  Notation wf_events := (wf_events tok_float tok_int pdg_valid).
  Notation parse_rows := (parse_rows tok_float tok_int pdg_valid).
  Notation RL := (read_loop tok_float tok_int pdg_valid None).
  Notation LOAD := (load tok_float tok_int pdg_valid None).

  Lemma wf_events_skipn fmt attrs : forall k evs i,
    wf_events fmt attrs i evs -> wf_events fmt attrs (i + k) (skipn k evs).
  Proof.
    induction k as [|k IH]; intros evs i H; [rewrite Nat.add_0_r; exact H|].
    destruct evs as [|e t]; [exact I|]. destruct H as (_ & Ht).
    cbn [skipn]. replace (i + S k)%nat with (S i + k)%nat by lia. apply IH, Ht.
  Qed.
  Lemma wf_events_firstn fmt attrs : forall k evs i,
    wf_events fmt attrs i evs -> wf_events fmt attrs i (firstn k evs).
  Proof.
    induction k as [|k IH]; intros evs i H; [exact I|].
    destruct evs as [|e t]; [exact I|]. destruct H as (He & Ht). split; [exact He|apply IH, Ht].
  Qed.

  Lemma render_events_app l1 l2 : render_events (l1 ++ l2) = (render_events l1 ++ render_events l2)%list.
  Proof. unfold render_events. apply flat_map_app. Qed.

  Lemma counts_from_nth : forall evs i k e,
    nth_error evs k = Some e ->
    nth_error (counts_from i evs) k = Some (Z.of_nat (i + k), Z.of_nat (List.length (e_rows e))).
  Proof.
    induction evs as [|x t IH]; intros i k e H; [destruct k; discriminate|].
    destruct k as [|k]; cbn in H |- *.
    - inversion H; subst. rewrite Nat.add_0_r. reflexivity.
    - rewrite (IH (S i) k e H). replace (S i + k)%nat with (i + S k)%nat by lia. reflexivity.
  Qed.
  Lemma counts_from_none : forall evs i k, (List.length evs <= k)%nat -> nth_error (counts_from i evs) k = None.
  Proof. intros. apply nth_error_None. rewrite counts_len. assumption. Qed.

  (* lines of the events from .. from+n-1, as the skip/read arithmetic computes them *)
  Lemma sum_counts_ok : forall n evs i from,
    (from + n <= List.length evs)%nat ->
    sum_counts (counts_from i evs) from n
    = Ok (Z.of_nat (List.length (render_events (firstn n (skipn from evs))))).
  Proof.
    induction n as [|n IH]; intros evs i from H; [reflexivity|].
    cbn [sum_counts]. unfold zcount.
    destruct (nth_error evs from) as [e|] eqn:E; [|apply nth_error_None in E; lia].
    rewrite (counts_from_nth evs i from e E). cbn [bind snd].
    rewrite (IH evs i (S from)) by lia. cbn [bind].
    assert (Hs : skipn from evs = e :: skipn (S from) evs).
    { clear - E. revert from E. induction evs as [|x t IHt]; intros [|k] E; try discriminate.
      - inversion E; reflexivity.
      - cbn in E |- *. rewrite (IHt k E). reflexivity. }
    rewrite Hs. cbn [firstn]. unfold render_events at 2. cbn [flat_map]. fold (render_events (firstn n (skipn (S from) evs))).
    rewrite app_length. unfold render_event. cbn [List.length]. rewrite app_length. cbn [List.length].
    f_equal. lia.
  Qed.
  Lemma sum_counts_oob : forall n evs i from,
    (from <= List.length evs)%nat -> (List.length evs < from + n)%nat ->
    sum_counts (counts_from i evs) from n = Err IndexError.
  Proof.
    induction n as [|n IH]; intros evs i from H1 H2; [lia|].
    cbn [sum_counts]. unfold zcount.
    destruct (nth_error evs from) as [e|] eqn:E.
    - rewrite (counts_from_nth evs i from e E). cbn [bind snd].
      assert (from < List.length evs)%nat by (apply nth_error_Some; congruence).
      rewrite (IH evs i (S from)) by lia. reflexivity.
    - rewrite counts_from_none by (apply nth_error_None; exact E). reflexivity.
  Qed.

  Definition sliced (d : doc) (fmt : string) (attrs : list string) (a n : nat) : loaded :=
    let evs := firstn n (skipn a (d_events d)) in
    {| l_events := map (fun e => parse_rows fmt attrs (e_rows e)) evs;
       l_nevents := Z.of_nat n;
       l_counts := firstn n (skipn a (counts_from 0 (d_events d)));
       l_format := fmt; l_attrs := attrs;
       l_footers := map e_foot (d_events d) |}.

  (* skipping the header and the first a events *)
  Lemma skip_prefix (h1 h2 h3 : line) A rest :
    skipn (Z.to_nat (3 + Z.of_nat (List.length A))) (h1 :: h2 :: h3 :: A ++ rest)%list = rest.
  Proof.
    replace (Z.to_nat (3 + Z.of_nat (List.length A))) with (3 + List.length A)%nat by lia.
    cbn [Nat.add skipn]. rewrite skipn_app, skipn_all, Nat.sub_diag. reflexivity.
  Qed.

  Theorem load_range d fmt attrs (a b : nat) :
    wf tok_float tok_int pdg_valid d fmt attrs -> (a <= b)%nat -> (b < List.length (d_events d))%nat ->
    LOAD (render d) (SelRange (Z.of_nat a) (Z.of_nat b)) = Ok (sliced d fmt attrs a (b - a + 1)).
  Proof.
    intros Hwf Hab Hb. pose proof Hwf as (Hfmt & Hstd & Hs1 & Hs2 & Hs3 & Hne & Hev & Hlast).
    set (evs := d_events d) in *.
    set (A := firstn a evs). set (B := firstn (b - a + 1) (skipn a evs)). set (C := skipn (b - a + 1) (skipn a evs)).
    assert (Hsplit : evs = (A ++ B ++ C)%list).
    { unfold A, B, C. rewrite firstn_skipn, firstn_skipn. reflexivity. }
    unfold load, render. fold evs. rewrite Hfmt. cbn [bind fst snd].
    assert (Hstd' : ((fmt =? "Oscar2013Extended_IC") || (fmt =? "Oscar2013Extended_Photons")) = false).
    { destruct Hstd as [->|[->| ->]]; reflexivity. }
    rewrite Hstd'. cbn [bind].
    change (d_h1 d :: d_h2 d :: d_h3 d :: render_events evs)
      with ([d_h1 d; d_h2 d] ++ (d_h3 d :: render_events evs))%list.
    assert (Hl : last ([d_h1 d; d_h2 d] ++ d_h3 d :: render_events evs)%list []
                 = e_foot (last evs {| e_head := []; e_rows := []; e_foot := [] |})).
    { cbn [app]. rewrite <- (last_render_events evs _ (d_h3 d) Hne). destruct (render_events evs); reflexivity. }
    rewrite Hl. destruct Hlast as (H0 & Hlen & Hmem & lt & Hlt & Hti).
    unfold num_events_of. fold evs. rewrite H0, Hmem.
    replace (2 <=? List.length (e_foot (last evs {| e_head := []; e_rows := []; e_foot := [] |})))%nat
      with true by (symmetry; apply Nat.leb_le; exact Hlen).
    rewrite String.eqb_refl. cbn [andb]. rewrite Hlt, Hti. cbn [bind].
    cbn [app scan]. rewrite Hs1, Hs2, Hs3.
    rewrite (scan_events tok_float tok_int pdg_valid fmt attrs evs 0 Hev). cbn [bind fst snd num_skip num_read sel_first sel_counts].
    rewrite !Nat2Z.id.
    rewrite (sum_counts_ok a evs 0 0) by lia. cbn [skipn bind]. fold A.
    replace (Z.to_nat (Z.of_nat b - Z.of_nat a + 1)) with (b - a + 1)%nat by lia.
    rewrite (sum_counts_ok (b - a + 1) evs 0 a) by lia. fold B. cbn [bind]. rewrite Nat2Z.id.
    assert (Hbody : skipn (Z.to_nat (3 + Z.of_nat (List.length (render_events A))))
                          (d_h1 d :: d_h2 d :: d_h3 d :: render_events evs)
                    = (render_events B ++ render_events C)%list).
    { rewrite Hsplit at 1. rewrite !render_events_app. apply skip_prefix. }
    rewrite !Hbody.
    (* first line of the selection is an event header *)
    assert (HwB : wf_events fmt attrs a B).
    { unfold B. apply wf_events_firstn. apply (wf_events_skipn fmt attrs a evs 0 Hev). }
    assert (HlenB : List.length B = (b - a + 1)%nat).
    { unfold B. rewrite firstn_length, skipn_length. lia. }
    assert (Hfirst : (match (render_events B ++ render_events C)%list, List.length (render_events B) with
                      | l0 :: _, S _ => if negb (has "#" l0) && negb (has "out" l0) then Err ValueError else Ok tt
                      | _, _ => Ok tt end) = Ok tt).
    { clearbody B. destruct B as [|e0 B']; [cbn in HlenB; lia|].
      destruct HwB as ((Hk & _) & _). unfold kind_scan in Hk.
      unfold render_events at 1 2. cbn [flat_map]. unfold render_event at 1 2. cbn [app List.length].
      destruct (has "#" (e_head e0)); [reflexivity|]. cbn in Hk. discriminate. }
    rewrite Hfirst. cbn [bind].
    pose proof (rl_events tok_float tok_int pdg_valid (Z.of_nat a) fmt attrs B a 0 (render_events C)
                 {| plist := []; data := []; counts := slice a (b - a + 1) (counts_from 0 evs); cut := 0 |} HwB eq_refl) as Hrl.
    rewrite Nat.add_0_r in Hrl. rewrite Hrl.
    cbn [read_loop bind add_events plist cut counts app fst snd].
    unfold sliced, slice. fold evs. fold B. rewrite map_length, HlenB.
    destruct (map (fun e => parse_rows fmt attrs (e_rows e)) B) eqn:EM.
    { apply (f_equal (@List.length _)) in EM. rewrite map_length, HlenB in EM. cbn in EM. lia. }
    reflexivity.
  Qed.

  (* a range that reaches past the last event is rejected, never wrapped *)
  Theorem load_range_oob d fmt attrs (a b : nat) :
    wf tok_float tok_int pdg_valid d fmt attrs -> (a <= b)%nat -> (List.length (d_events d) <= b)%nat ->
    LOAD (render d) (SelRange (Z.of_nat a) (Z.of_nat b)) = Err IndexError.
  Proof.
    intros Hwf Hab Hb. pose proof Hwf as (Hfmt & Hstd & Hs1 & Hs2 & Hs3 & Hne & Hev & Hlast).
    set (evs := d_events d) in *.
    unfold load, render. fold evs. rewrite Hfmt. cbn [bind fst snd].
    assert (Hstd' : ((fmt =? "Oscar2013Extended_IC") || (fmt =? "Oscar2013Extended_Photons")) = false).
    { destruct Hstd as [->|[->| ->]]; reflexivity. }
    rewrite Hstd'. cbn [bind].
    change (d_h1 d :: d_h2 d :: d_h3 d :: render_events evs)
      with ([d_h1 d; d_h2 d] ++ (d_h3 d :: render_events evs))%list.
    assert (Hl : last ([d_h1 d; d_h2 d] ++ d_h3 d :: render_events evs)%list []
                 = e_foot (last evs {| e_head := []; e_rows := []; e_foot := [] |})).
    { cbn [app]. rewrite <- (last_render_events evs _ (d_h3 d) Hne). destruct (render_events evs); reflexivity. }
    rewrite Hl. destruct Hlast as (H0 & Hlen & Hmem & lt & Hlt & Hti).
    unfold num_events_of. fold evs. rewrite H0, Hmem.
    replace (2 <=? List.length (e_foot (last evs {| e_head := []; e_rows := []; e_foot := [] |})))%nat
      with true by (symmetry; apply Nat.leb_le; exact Hlen).
    rewrite String.eqb_refl. cbn [andb]. rewrite Hlt, Hti. cbn [bind].
    cbn [app scan]. rewrite Hs1, Hs2, Hs3.
    rewrite (scan_events tok_float tok_int pdg_valid fmt attrs evs 0 Hev). cbn [bind fst snd num_skip num_read].
    rewrite !Nat2Z.id.
    destruct (Nat.le_gt_cases a (List.length evs)) as [Ha|Ha].
    - rewrite (sum_counts_ok a evs 0 0) by lia. cbn [bind].
      replace (Z.to_nat (Z.of_nat b - Z.of_nat a + 1)) with (b - a + 1)%nat by lia.
      rewrite (sum_counts_oob (b - a + 1) evs 0 a) by lia. reflexivity.
    - rewrite (sum_counts_oob a evs 0 0) by lia. reflexivity.
  Qed.

  (* events=k is events=(k,k) *)
  Lemma num_read_one k cnts : (0 <= k)%Z -> num_read (SelOne k) cnts = num_read (SelRange k k) cnts.
  Proof.
    intros Hk. cbn [num_read]. replace (Z.to_nat (k - k + 1)) with 1%nat by lia.
    cbn [sum_counts]. destruct (zcount cnts (Z.to_nat k)); cbn [bind]; [f_equal; lia|reflexivity].
  Qed.

  Theorem load_single_is_range file k : (0 <= k)%Z ->
    LOAD file (SelOne k) = LOAD file (SelRange k k).
  Proof.
    intros Hk. unfold load. destruct file as [|first rest]; [reflexivity|].
    destruct (oscar_format first) as [fa|]; [|reflexivity]. cbn [bind].
    destruct (if _ : bool then Err OtherError else Ok tt) as [u|]; [|reflexivity]. cbn [bind].
    destruct (num_events_of tok_int (last (first :: rest) [])) as [nev|]; [|reflexivity]. cbn [bind].
    destruct (scan tok_int (first :: rest)) as [sc|]; [|reflexivity]. cbn [bind].
    change (num_skip (SelOne k) (fst sc)) with (num_skip (SelRange k k) (fst sc)).
    rewrite (num_read_one k (fst sc) Hk).
    cbn [sel_first sel_counts]. replace (Z.to_nat (k - k + 1)) with 1%nat by lia. reflexivity.
  Qed.

  Corollary load_single d fmt attrs (k : nat) :
    wf tok_float tok_int pdg_valid d fmt attrs -> (k < List.length (d_events d))%nat ->
    LOAD (render d) (SelOne (Z.of_nat k)) = Ok (sliced d fmt attrs k 1).
  Proof.
    intros Hwf Hk. rewrite load_single_is_range by lia.
    rewrite (load_range d fmt attrs k k Hwf) by lia. replace (k - k + 1)%nat with 1%nat by lia. reflexivity.
  Qed.

  (* the selected events' own impact parameters *)
  Lemma counts_from_skipn : forall a evs i, skipn a (counts_from i evs) = counts_from (i + a) (skipn a evs).
  Proof.
    induction a as [|a IH]; intros evs i; [rewrite Nat.add_0_r; reflexivity|].
    destruct evs as [|e t]; [reflexivity|]. cbn [counts_from skipn]. rewrite IH. f_equal. lia.
  Qed.

  Lemma impacts_lookup_firstn : forall evs pre n,
    mapr (fun c : Z * Z => match nth_error (pre ++ map (spec_impact tok_float) evs)%list (Z.to_nat (fst c)) with
                           | Some v => Ok v | None => Err IndexError end)
         (firstn n (counts_from (List.length pre) evs))
    = Ok (firstn n (map (spec_impact tok_float) evs)).
  Proof.
    induction evs as [|e t IH]; intros pre n; [destruct n; reflexivity|].
    destruct n as [|n]; [reflexivity|].
    cbn [counts_from firstn mapr map fst]. rewrite Nat2Z.id.
    rewrite nth_error_app2 by lia. rewrite Nat.sub_diag. cbn [nth_error bind].
    specialize (IH (pre ++ [spec_impact tok_float e])%list n).
    rewrite app_length in IH. cbn [List.length] in IH. rewrite Nat.add_1_r in IH.
    rewrite <- app_assoc in IH. cbn [app] in IH. rewrite IH. reflexivity.
  Qed.

  Theorem impacts_sliced d fmt attrs a n :
    wf tok_float tok_int pdg_valid d fmt attrs ->
    impact_parameters tok_float (sliced d fmt attrs a n)
    = Ok (firstn n (skipn a (map (spec_impact tok_float) (d_events d)))).
  Proof.
    intros (_ & _ & _ & _ & _ & _ & Hev & _).
    unfold impact_parameters, sliced. cbn [l_footers l_counts].
    rewrite (impacts_parse tok_float tok_int pdg_valid fmt attrs _ 0 Hev). cbn [bind].
    rewrite counts_from_skipn. cbn [Nat.add]. rewrite skipn_map.
    pose proof (impacts_lookup_firstn (skipn a (d_events d)) (map (spec_impact tok_float) (firstn a (d_events d))) n) as H.
    rewrite map_length in H.
    destruct (Nat.le_gt_cases a (List.length (d_events d))) as [Ha|Ha].
    - rewrite firstn_length_le in H by exact Ha.
      replace (map (spec_impact tok_float) (d_events d))
        with (map (spec_impact tok_float) (firstn a (d_events d)) ++ map (spec_impact tok_float) (skipn a (d_events d)))%list
        by (rewrite <- map_app, firstn_skipn; reflexivity).
      exact H.
    - rewrite !skipn_all2 by lia. destruct n; reflexivity.
  Qed.

  Lemma sliced_is_slice d fmt attrs a n :
    l_events (sliced d fmt attrs a n)
    = firstn n (skipn a (l_events (expected tok_float tok_int pdg_valid d fmt attrs))) /\
    l_counts (sliced d fmt attrs a n)
    = firstn n (skipn a (l_counts (expected tok_float tok_int pdg_valid d fmt attrs))).
  Proof.
    unfold sliced, expected. cbn [l_events l_counts]. split; [|reflexivity].
    rewrite skipn_map, firstn_map. reflexivity.
  Qed.
End P.

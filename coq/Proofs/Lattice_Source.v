(* C17 source tie: the hand model Model/Lattice.v equals the addressing / arithmetic / CSV methods of Lattice3D.py as
   regenerated into Gen/GenLatticeMethods.v on every run (tools/py2coq/gen_lattice_methods.py, runtime
   Model/LatticeRt.v).  One theorem per translated method.

   The object of the runtime ([lobj]) is seen as the model's [lattice] by [to_model]; [wf] is the object invariant
   that __init__ establishes (node counts = lengths of the axis arrays = shape of the grid) and that no translated
   method breaks ([source_*_wf]); [made] adds what only the constructor gives (axis arrays = np.linspace of the
   extents, positive node counts) and is needed where a method builds a new object from self's extents. *)
From Coq Require Import List ZArith QArith Qabs Bool String Lia.
From SX Require Import Lib.Py Lib.QCheck Gen.GenLattice Model.Lattice Model.Smear Model.LatticeRt Gen.GenLatticeMethods.
Import ListNotations.

Definition wmap {A B} (f : A -> B) (r : wres A) : wres B :=
  match r with WOk a => WOk (f a) | Warned a => Warned (f a) | WErr e => WErr e end.
Definition zz3 (p : nat * nat * nat) : Z * Z * Z := let '(i, j, k) := p in (Z.of_nat i, Z.of_nat j, Z.of_nat k).

(* ---- general facts about the runtime ------------------------------------------------------------------------------ *)
Lemma wbind_ret : forall A (r : wres A), wbind r (fun x => WOk x) = r.
Proof. intros A [a|a|e]; reflexivity. Qed.

Lemma wbind_wlift : forall A B (r : result A) (f : A -> wres B),
  wbind (wlift r) f = match r with Ok a => f a | Err e => WErr e end.
Proof. intros A B [a|e] f; reflexivity. Qed.

Lemma fv_le_Fin_l : forall a v, fv_le (Fin a) v = q_le_fv a v.
Proof. intros a [x| | |]; reflexivity. Qed.
Lemma fv_le_Fin_r : forall v a, fv_le v (Fin a) = fv_le_q v a.
Proof. intros [x| | |] a; reflexivity. Qed.

Lemma pyget_nil : forall A (i : Z), @pyget A [] i = Err IndexError.
Proof.
  intros A i. unfold pyget. cbn [List.length Z.of_nat].
  destruct (i <? 0)%Z eqn:E.
  - replace (0 + i <? 0)%Z with true by (symmetry; apply Z.ltb_lt; apply Z.ltb_lt in E; lia). reflexivity.
  - rewrite E. destruct (Z.to_nat i); reflexivity.
Qed.
Lemma pyget_first : forall A (a : A) t, pyget (a :: t) 0 = Ok a.
Proof. reflexivity. Qed.
Lemma last_indep_any : forall A (l : list A) d d', l <> [] -> last l d = last l d'.
Proof.
  induction l as [|a [|b t] IH]; intros d d' H; [congruence|reflexivity|].
  change (last (b :: t) d = last (b :: t) d'). apply IH. discriminate.
Qed.
Lemma nth_error_last : forall A (l : list A) a, nth_error (a :: l) (List.length l) = Some (last (a :: l) a).
Proof.
  induction l as [|b t IH]; intros a; [reflexivity|].
  cbn [List.length nth_error]. rewrite IH.
  change (last (a :: b :: t) a) with (last (b :: t) a). f_equal. apply last_indep_any. discriminate.
Qed.
Lemma pyget_last : forall A (a : A) t, pyget (a :: t) (-1) = Ok (last (a :: t) a).
Proof.
  intros A a t. unfold pyget.
  replace (-1 <? 0)%Z with true by reflexivity.
  replace (Z.of_nat (List.length (a :: t)) + -1)%Z with (Z.of_nat (List.length t)) by (cbn [List.length]; lia).
  replace (Z.of_nat (List.length t) <? 0)%Z with false by (symmetry; apply Z.ltb_ge; lia).
  rewrite Nat2Z.id, nth_error_last. reflexivity.
Qed.

(* argmin of the runtime (over float values) on finite entries is the model's argmin *)
Lemma first_nan_fin : forall ds i, first_nan i (map Fin ds) = None.
Proof. induction ds as [|d t IH]; intros i; [reflexivity|]. cbn. apply IH. Qed.
Lemma argmin_fv_fin : forall ds best bestd i,
  argmin_fv_from best (Fin bestd) i (map Fin ds) = argmin_from best bestd i ds.
Proof.
  induction ds as [|d t IH]; intros best bestd i; [reflexivity|].
  cbn [map argmin_fv_from argmin_from fv_lt]. destruct (Qlt_bool d bestd); apply IH.
Qed.
Lemma np_argmin_fin : forall ds, np_argmin (map Fin ds) = rmap Z.of_nat (argmin ds).
Proof.
  intros [|d t]; [reflexivity|]. unfold np_argmin. rewrite first_nan_fin.
  cbn [map]. rewrite argmin_fv_fin. reflexivity.
Qed.
Lemma argmin_fv_const : forall A (l : list A) best i, argmin_fv_from best PInf i (map (fun _ => PInf) l) = best.
Proof. induction l as [|a t IH]; intros best i; [reflexivity|]. cbn. apply IH. Qed.

Lemma Qabs_minus_sym : forall x v : Q, Qabs (x - v) = Qabs (v - x).
Proof.
  intros [a b] [c d]. unfold Qabs, Qminus, Qplus, Qopp. cbn [Qnum Qden].
  f_equal; [lia|apply Pos.mul_comm].
Qed.

(* the closest-node search as written in __find_closest_index: |values - value| *)
Lemma closest_values_minus_value : forall value vs,
  np_argmin (np_abs (np_sub_scalar vs value)) = rmap Z.of_nat (find_closest_index value vs).
Proof.
  intros value vs. unfold np_abs, np_sub_scalar. rewrite map_map.
  destruct value as [x| | |]; cbn [q_minus_fv fv_abs find_closest_index].
  - unfold dists. rewrite <- np_argmin_fin, map_map. reflexivity.
  - destruct vs as [|v t]; [reflexivity|]. unfold np_argmin. cbn [map first_nan is_nan].
    replace (first_nan 1 (map (fun _ : Q => PInf) t)) with (@None nat)
      by (generalize 1%nat; induction t as [|u t IH]; intros n; [reflexivity|apply IH]).
    rewrite argmin_fv_const. reflexivity.
  - destruct vs as [|v t]; [reflexivity|]. unfold np_argmin. cbn [map first_nan is_nan].
    replace (first_nan 1 (map (fun _ : Q => PInf) t)) with (@None nat)
      by (generalize 1%nat; induction t as [|u t IH]; intros n; [reflexivity|apply IH]).
    rewrite argmin_fv_const. reflexivity.
  - destruct vs as [|v t]; reflexivity.
Qed.
(* ... and in __get_index_nearest_neighbor: |value - values| *)
Lemma closest_value_minus_values : forall x vs,
  np_argmin (np_abs (np_rsub_scalar (Fin x) vs)) = rmap Z.of_nat (find_closest_index (Fin x) vs).
Proof.
  intros x vs. rewrite <- closest_values_minus_value. unfold np_abs, np_rsub_scalar, np_sub_scalar.
  rewrite !map_map. f_equal. apply map_ext. intros v. cbn [fv_abs fv_minus_q q_minus_fv]. rewrite Qabs_minus_sym. reflexivity.
Qed.

(* the range test `values[0] <= value <= values[-1]` as translated (the second bound is looked up only when the first
   comparison holds) against in_axis_range *)
Lemma range_test : forall A value vs (ko ok : wres A),
  wbind (wlift (pyget vs 0)) (fun t1 =>
    wbind (if fv_le (Fin t1) value then wbind (wlift (pyget vs (-1))) (fun t2 => WOk (fv_le value (Fin t2))) else WOk false)
          (fun c => if negb c then ko else ok))
  = match in_axis_range value vs with
    | Err e => WErr e
    | Ok inside => if negb inside then ko else ok
    end.
Proof.
  intros A value [|v0 t] ko ok.
  - rewrite pyget_nil. reflexivity.
  - rewrite pyget_first. cbn [wlift wbind in_axis_range]. rewrite fv_le_Fin_l.
    destruct (q_le_fv v0 value); [|reflexivity].
    rewrite pyget_last. cbn [wlift wbind andb]. rewrite fv_le_Fin_r. reflexivity.
Qed.

Lemma in_range_finite : forall value vs, in_axis_range value vs = Ok true -> exists x, value = Fin x.
Proof.
  intros value [|v0 t] H; [discriminate|]. cbn in H. inversion H as [E].
  apply andb_true_iff in E. destruct E as [E1 E2].
  destruct value as [x| | |]; try discriminate. eexists; reflexivity.
Qed.

Section Src.
  Variable V : Type.
  Variable cx : npctx V.

  Definition axis_x (s : lobj V) : axis := {| amin := x_min_ s; amax := x_max_ s; avals := x_values_ s |}.
  Definition axis_y (s : lobj V) : axis := {| amin := y_min_ s; amax := y_max_ s; avals := y_values_ s |}.
  Definition axis_z (s : lobj V) : axis := {| amin := z_min_ s; amax := z_max_ s; avals := z_values_ s |}.
  Definition to_model (s : lobj V) : lattice V :=
    {| ax := axis_x s; ay := axis_y s; az := axis_z s; grid := gcell (grid_ s) |}.
  Definition wf (s : lobj V) : Prop :=
    num_points_x_ s = Z.of_nat (List.length (x_values_ s))
    /\ num_points_y_ s = Z.of_nat (List.length (y_values_ s))
    /\ num_points_z_ s = Z.of_nat (List.length (z_values_ s))
    /\ gshape (grid_ s) = (List.length (x_values_ s), List.length (y_values_ s), List.length (z_values_ s)).
  (* self with other cell values (what a store into self.grid_ makes of self) *)
  Definition with_cells (s : lobj V) (g : nat -> nat -> nat -> V) : lobj V := set_grid_ s (Grid3 (gshape (grid_ s)) g).

  Lemma with_cells_same : forall s, with_cells s (gcell (grid_ s)) = s.
  Proof.
    intros s. destruct s as [? ? ? ? ? ? ? ? ? ? ? ? ? g ? ? ? ? ? ? ? ? ?]. unfold with_cells, set_grid_. cbn.
    destruct g. reflexivity.
  Qed.
  Lemma to_model_with_cells : forall s g, to_model (with_cells s g) = with_grid V (to_model s) g.
  Proof. reflexivity. Qed.
  Lemma wf_with_cells : forall s g, wf s -> wf (with_cells s g).
  Proof. intros s g H. exact H. Qed.

  (* ---- __is_valid_index ------------------------------------------------------------------------------------------- *)
  Theorem source_is_valid_index : forall s i j k, wf s ->
    gen_p_is_valid_index V s i j k = is_valid_index V (to_model s) i j k.
  Proof.
    intros s i j k (Hx & Hy & Hz & _). unfold gen_p_is_valid_index, is_valid_index, valid1, gen_valid1, npts.
    cbn [to_model ax ay az axis_x axis_y axis_z avals]. rewrite Hx, Hy, Hz. reflexivity.
  Qed.

  Lemma norm_index_valid : forall i n, ((0 <=? i) && (i <? Z.of_nat n))%Z = true -> np_norm_index i n = Some (Z.to_nat i).
  Proof. intros i n H. unfold np_norm_index. rewrite H. reflexivity. Qed.

  Lemma index3_valid : forall s i j k, wf s -> is_valid_index V (to_model s) i j k = true ->
    np_index3 (gshape (grid_ s)) i j k = Ok (Z.to_nat i, Z.to_nat j, Z.to_nat k).
  Proof.
    intros s i j k (_ & _ & _ & Hg) H. rewrite Hg.
    unfold is_valid_index, valid1, gen_valid1, npts in H. cbn [to_model ax ay az axis_x axis_y axis_z avals] in H.
    apply andb_true_iff in H. destruct H as [H Hk]. apply andb_true_iff in H. destruct H as [Hi Hj].
    unfold np_index3. rewrite (norm_index_valid _ _ Hi), (norm_index_valid _ _ Hj), (norm_index_valid _ _ Hk).
    reflexivity.
  Qed.

  (* ---- set_value_by_index / get_value_by_index ---------------------------------------------------------------------- *)
  Theorem source_set_value_by_index : forall s i j k v, wf s ->
    gen_set_value_by_index V s i j k v
    = wmap (fun L' => (with_cells s (grid L'), tt)) (set_value_by_index V (to_model s) i j k v).
  Proof.
    intros s i j k v W. unfold gen_set_value_by_index, set_value_by_index.
    rewrite (source_is_valid_index s i j k W).
    destruct (is_valid_index V (to_model s) i j k) eqn:E; cbn [negb].
    - unfold np_set3. rewrite (index3_valid s i j k W E). reflexivity.
    - cbn. rewrite with_cells_same. reflexivity.
  Qed.

  Theorem source_get_value_by_index : forall s i j k, wf s ->
    gen_get_value_by_index V s i j k = get_value_by_index V (to_model s) i j k.
  Proof.
    intros s i j k W. unfold gen_get_value_by_index, get_value_by_index.
    rewrite (source_is_valid_index s i j k W).
    destruct (is_valid_index V (to_model s) i j k) eqn:E; cbn [negb].
    - unfold np_get3. rewrite (index3_valid s i j k W E). reflexivity.
    - reflexivity.
  Qed.

  (* ---- __get_index / __get_index_nearest_neighbor / __find_closest_index (for ANY list, any float value) ------------- *)
  Theorem source_get_index : forall s value values,
    gen_p_get_index V s value values = wlift (rmap Z.of_nat (get_index value values)).
  Proof.
    intros s value values. unfold gen_p_get_index, get_index. rewrite range_test.
    destruct (in_axis_range value values) as [[|]|e] eqn:R; cbn [rbind negb rmap wlift]; try reflexivity.
    destruct (in_range_finite _ _ R) as [x ->]. cbn [np_searchsorted_right].
    destruct (ssr values x) as [|n] eqn:SS.
    - reflexivity.
    - replace (Z.of_nat (S n) =? 0)%Z with false by (symmetry; apply Z.eqb_neq; lia).
      cbn [wbind Nat.eqb rmap wlift]. f_equal. lia.
  Qed.

  Theorem source_get_index_nearest_neighbor : forall s value values,
    gen_p_get_index_nearest_neighbor V s value values = wlift (rmap Z.of_nat (get_index_nn value values)).
  Proof.
    intros s value values. unfold gen_p_get_index_nearest_neighbor, get_index_nn. rewrite range_test.
    destruct (in_axis_range value values) as [[|]|e] eqn:R; cbn [rbind negb rmap wlift]; try reflexivity.
    destruct (in_range_finite _ _ R) as [x ->]. unfold np_array_Q.
    first [rewrite closest_value_minus_values | rewrite closest_values_minus_value].
    destruct (find_closest_index (Fin x) values); reflexivity.
  Qed.

  Theorem source_find_closest_index : forall s value values,
    gen_p_find_closest_index V s value values = wlift (rmap Z.of_nat (find_closest_index value values)).
  Proof.
    intros s value values. unfold gen_p_find_closest_index, py_ndarray_is_list. cbn [wbind].
    unfold np_array_Q. rewrite closest_values_minus_value. destruct (find_closest_index value values); reflexivity.
  Qed.

  (* ---- the three per-axis lookups ------------------------------------------------------------------------------------ *)
  Lemma three_lookups : forall (look : fv -> list Q -> result nat) (g : lobj V -> fv -> list Q -> wres Z) s x y z,
    (forall value values, g s value values = wlift (rmap Z.of_nat (look value values))) ->
    wbind (g s x (x_values_ s)) (fun r1 => let v_i := r1 in
    wbind (g s y (y_values_ s)) (fun r2 => let v_j := r2 in
    wbind (g s z (z_values_ s)) (fun r3 => let v_k := r3 in WOk (v_i, v_j, v_k))))
    = wlift (rmap zz3 (indices3 V look (to_model s) x y z)).
  Proof.
    intros look g s x y z H. rewrite !H. unfold indices3. cbn [to_model ax ay az axis_x axis_y axis_z avals].
    destruct (look x (x_values_ s)); [|reflexivity].
    destruct (look y (y_values_ s)); [|reflexivity].
    destruct (look z (z_values_ s)); reflexivity.
  Qed.

  Theorem source_get_indices : forall s x y z,
    gen_p_get_indices V s x y z = wlift (rmap zz3 (indices3 V get_index (to_model s) x y z)).
  Proof. intros. apply (three_lookups get_index (gen_p_get_index V)). apply source_get_index. Qed.

  Theorem source_get_indices_nearest_neighbor : forall s x y z,
    gen_p_get_indices_nearest_neighbor V s x y z = wlift (rmap zz3 (indices3 V get_index_nn (to_model s) x y z)).
  Proof. intros. apply (three_lookups get_index_nn (gen_p_get_index_nearest_neighbor V)). apply source_get_index_nearest_neighbor. Qed.

  (* ---- set_value / get_value and the nearest-neighbour variants -------------------------------------------------------- *)
  Lemma wmap_unit : forall (s : lobj V) (r : wres (lattice V)),
    wbind (wmap (fun L' => (with_cells s (grid L'), tt)) r) (fun '(self, _) => WOk (self, tt))
    = wmap (fun L' => (with_cells s (grid L'), tt)) r.
  Proof. intros s [a|a|e]; reflexivity. Qed.

  Theorem source_set_value : forall s x y z v, wf s ->
    gen_set_value V s x y z v = wmap (fun L' => (with_cells s (grid L'), tt)) (set_value V (to_model s) x y z v).
  Proof.
    intros s x y z v W. unfold gen_set_value, set_value, set_at. rewrite source_get_indices.
    destruct (indices3 V get_index (to_model s) x y z) as [[[i j] k]|e]; [|reflexivity].
    cbn [rmap wlift wbind zz3]. rewrite (source_set_value_by_index s _ _ _ v W). apply wmap_unit.
  Qed.

  Theorem source_set_value_nearest_neighbor : forall s x y z v, wf s ->
    gen_set_value_nearest_neighbor V s x y z v
    = wmap (fun L' => (with_cells s (grid L'), tt)) (set_value_nearest_neighbor V (to_model s) x y z v).
  Proof.
    intros s x y z v W. unfold gen_set_value_nearest_neighbor, set_value_nearest_neighbor, set_at.
    rewrite source_get_indices_nearest_neighbor.
    destruct (indices3 V get_index_nn (to_model s) x y z) as [[[i j] k]|e]; [|reflexivity].
    cbn [rmap wlift wbind zz3]. rewrite (source_set_value_by_index s _ _ _ v W). apply wmap_unit.
  Qed.

  Theorem source_get_value : forall s x y z, wf s ->
    gen_get_value V s x y z = get_value V (to_model s) x y z.
  Proof.
    intros s x y z W. unfold gen_get_value, get_value, get_at. rewrite source_get_indices.
    destruct (indices3 V get_index (to_model s) x y z) as [[[i j] k]|e]; [|reflexivity].
    cbn [rmap wlift wbind zz3]. rewrite wbind_ret. apply (source_get_value_by_index s _ _ _ W).
  Qed.

  Theorem source_get_value_nearest_neighbor : forall s x y z, wf s ->
    gen_get_value_nearest_neighbor V s x y z = get_value_nearest_neighbor V (to_model s) x y z.
  Proof.
    intros s x y z W. unfold gen_get_value_nearest_neighbor, get_value_nearest_neighbor, get_at.
    rewrite source_get_indices_nearest_neighbor.
    destruct (indices3 V get_index_nn (to_model s) x y z) as [[[i j] k]|e]; [|reflexivity].
    cbn [rmap wlift wbind zz3]. rewrite wbind_ret. apply (source_get_value_by_index s _ _ _ W).
  Qed.

  (* ---- __get_value / get_coordinates ------------------------------------------------------------------------------- *)
  Theorem source_get_value_at : forall s index values num_points lo hi,
    num_points = Z.of_nat (List.length values) ->
    gen_p_get_value V s index values num_points = wlift (coord1 index {| amin := lo; amax := hi; avals := values |}).
  Proof.
    intros s index values num_points lo hi ->. unfold gen_p_get_value, coord1, gen_coord_bad, npts. cbn [avals].
    destruct ((index <? 0)%Z || (Z.of_nat (List.length values) <=? index)%Z) eqn:B; [reflexivity|].
    apply orb_false_iff in B. destruct B as [B1 B2].
    unfold pyget. rewrite B1, B1. destruct (nth_error values (Z.to_nat index)); reflexivity.
  Qed.

  Theorem source_get_coordinates : forall s i j k, wf s ->
    gen_get_coordinates V s i j k = wlift (get_coordinates V (to_model s) i j k).
  Proof.
    intros s i j k (Hx & Hy & Hz & _). unfold gen_get_coordinates, get_coordinates.
    rewrite (source_get_value_at s i _ _ (x_min_ s) (x_max_ s) Hx), (source_get_value_at s j _ _ (y_min_ s) (y_max_ s) Hy),
      (source_get_value_at s k _ _ (z_min_ s) (z_max_ s) Hz).
    cbn [to_model ax ay az]. fold (axis_x s) (axis_y s) (axis_z s).
    destruct (coord1 i (axis_x s)); [|reflexivity].
    destruct (coord1 j (axis_y s)); [|reflexivity].
    destruct (coord1 k (axis_z s)); reflexivity.
  Qed.

  (* ---- __is_within_range / find_closest_indices / interpolate_value ---------------------------------------------------- *)
  Theorem source_is_within_range : forall s x y z,
    gen_p_is_within_range V s x y z = is_within_range V (to_model s) x y z.
  Proof.
    intros s x y z. unfold gen_p_is_within_range, is_within_range, within1. rewrite !fv_le_Fin_l, !fv_le_Fin_r. reflexivity.
  Qed.

  Theorem source_find_closest_indices : forall s x y z,
    gen_find_closest_indices V s x y z = wmap zz3 (find_closest_indices V (to_model s) x y z).
  Proof.
    intros s x y z. unfold gen_find_closest_indices, find_closest_indices. rewrite source_is_within_range.
    pose proof (three_lookups find_closest_index (gen_p_find_closest_index V) s x y z (source_find_closest_index s)) as T.
    cbv zeta in T. destruct (is_within_range V (to_model s) x y z); cbn [negb wbind wwarn]; rewrite T;
      destruct (indices3 V find_closest_index (to_model s) x y z) as [ijk|e]; reflexivity.
  Qed.

  (* scipy's interpn as the hand model wants it (a function of the model lattice and the point), for a given method *)
  Definition interpn_of (method : string) (L : lattice V) (p : fv * fv * fv) : V :=
    let '(x, y, z) := p in
    c_interpn cx (avals (ax L), avals (ay L), avals (az L)) (Grid3 (npts (ax L), npts (ay L), npts (az L)) (grid L))
              [x; y; z] method.

  Theorem source_interpolate_value : forall s x y z method, wf s ->
    gen_interpolate_value V cx s x y z method = wlift (interpolate_value V (interpn_of method) (to_model s) x y z).
  Proof.
    intros s x y z method (_ & _ & _ & Hg). unfold gen_interpolate_value, interpolate_value. rewrite source_is_within_range.
    destruct (is_within_range V (to_model s) x y z); [|reflexivity]. cbn [negb wlift interpn_of]. unfold npts.
    cbn [to_model ax ay az axis_x axis_y axis_z avals grid]. rewrite <- Hg. destruct (grid_ s). reflexivity.
  Qed.

  Theorem source_interpolate_default : gen_default_interpolate_value_method = "nearest"%string.
  Proof. reflexivity. Qed.

  (* ---- __init__ ----------------------------------------------------------------------------------------------------------- *)
  (* what is assumed of np.linspace: n entries *)
  Definition linspace_len : Prop := forall a b n, (0 <= n)%Z -> List.length (c_linspace cx a b n) = Z.to_nat n.
  Definition spacing_of (vs : list Q) : option Q := match vs with v0 :: v1 :: _ => Some (v1 - v0) | _ => None end.
  Definition sigma_of (o : option Q) : Q := match o with Some v => v | None => 3 # 1 end.
  (* the object the constructor makes *)
  Definition init_obj (x0 x1 y0 y1 z0 z1 : Q) (nx ny nz : Z) (sx sy sz : option Q) : lobj V :=
    let xs := c_linspace cx x0 x1 nx in let ys := c_linspace cx y0 y1 ny in let zs := c_linspace cx z0 z1 nz in
    LObj x0 x1 y0 y1 z0 z1 nx ny nz
         (Qabs ((x1 - x0) * (y1 - y0) * (z1 - z0) / inject_Z (nx * ny * nz)))
         xs ys zs (Grid3 (Z.to_nat nx, Z.to_nat ny, Z.to_nat nz) (fun _ _ _ => c_zero cx))
         (sigma_of sx) (sigma_of sy) (sigma_of sz) (spacing_of xs) (spacing_of ys) (spacing_of zs)
         ((x1 - x0) / inject_Z nx) ((y1 - y0) / inject_Z ny) ((z1 - z0) / inject_Z nz).

  Lemma spacing_as_written : forall (vs : list Q) n, List.length vs = Z.to_nat n -> (0 < n)%Z ->
    (if (1 <? n)%Z
     then wbind (wlift (pyget vs 1)) (fun t1 => wbind (wlift (pyget vs 0)) (fun t2 => WOk (Some (Qminus t1 t2))))
     else WOk None) = WOk (spacing_of vs).
  Proof.
    intros vs n L N. destruct (1 <? n)%Z eqn:E.
    - apply Z.ltb_lt in E. destruct vs as [|v0 [|v1 t]]; cbn [List.length] in L; try lia. reflexivity.
    - apply Z.ltb_ge in E. assert (n = 1%Z) by lia. subst n.
      destruct vs as [|v0 [|v1 t]]; cbn [List.length] in L; try (cbn in L; lia). reflexivity.
  Qed.

  Theorem source_init : forall x0 x1 y0 y1 z0 z1 nx ny nz sx sy sz, linspace_len ->
    (0 < nx)%Z -> (0 < ny)%Z -> (0 < nz)%Z ->
    gen_init V cx x0 x1 y0 y1 z0 z1 nx ny nz sx sy sz = WOk (init_obj x0 x1 y0 y1 z0 z1 nx ny nz sx sy sz).
  Proof.
    intros x0 x1 y0 y1 z0 z1 nx ny nz sx sy sz LL Nx Ny Nz. unfold gen_init, init_obj. cbv zeta.
    unfold py_truediv_QZ, np_linspace, np_zeros3.
    replace (nx * ny * nz =? 0)%Z with false by (symmetry; apply Z.eqb_neq; nia).
    replace (nx <? 0)%Z with false by (symmetry; apply Z.ltb_ge; lia).
    replace (ny <? 0)%Z with false by (symmetry; apply Z.ltb_ge; lia).
    replace (nz <? 0)%Z with false by (symmetry; apply Z.ltb_ge; lia).
    replace (nx =? 0)%Z with false by (symmetry; apply Z.eqb_neq; lia).
    replace (ny =? 0)%Z with false by (symmetry; apply Z.eqb_neq; lia).
    replace (nz =? 0)%Z with false by (symmetry; apply Z.eqb_neq; lia).
    cbn [orb wlift wbind].
    rewrite (spacing_as_written _ nx (LL x0 x1 nx ltac:(lia)) Nx), (spacing_as_written _ ny (LL y0 y1 ny ltac:(lia)) Ny),
      (spacing_as_written _ nz (LL z0 z1 nz ltac:(lia)) Nz).
    cbn [wbind]. destruct sx, sy, sz; reflexivity.
  Qed.

  (* the constructor's exceptions: a zero node count (Python floats: ZeroDivisionError), else a negative one *)
  Theorem source_init_errors : forall x0 x1 y0 y1 z0 z1 nx ny nz sx sy sz,
    ((nx * ny * nz = 0)%Z -> gen_init V cx x0 x1 y0 y1 z0 z1 nx ny nz sx sy sz = WErr ZeroDivisionError)
    /\ ((nx * ny * nz <> 0)%Z -> (nx < 0 \/ ny < 0 \/ nz < 0)%Z ->
        gen_init V cx x0 x1 y0 y1 z0 z1 nx ny nz sx sy sz = WErr ValueError).
  Proof.
    intros x0 x1 y0 y1 z0 z1 nx ny nz sx sy sz. unfold gen_init. cbv zeta. unfold py_truediv_QZ, np_linspace, np_zeros3. split.
    - intros H. rewrite H. reflexivity.
    - intros H N. replace (nx * ny * nz =? 0)%Z with false by (symmetry; apply Z.eqb_neq; exact H). cbn [wlift wbind].
      destruct (nx <? 0)%Z eqn:Ex; [reflexivity|]. cbn [wlift wbind].
      destruct (ny <? 0)%Z eqn:Ey; [reflexivity|]. cbn [wlift wbind].
      destruct (nz <? 0)%Z eqn:Ez; [reflexivity|].
      apply Z.ltb_ge in Ex, Ey, Ez. lia.
  Qed.

  Theorem source_init_defaults :
    gen_default_init_n_sigma_x = None /\ gen_default_init_n_sigma_y = None /\ gen_default_init_n_sigma_z = None.
  Proof. repeat split. Qed.

  (* an object as the constructor leaves it, whatever was stored into the grid afterwards *)
  Definition made (s : lobj V) : Prop :=
    wf s /\ (0 < num_points_x_ s)%Z /\ (0 < num_points_y_ s)%Z /\ (0 < num_points_z_ s)%Z
    /\ x_values_ s = c_linspace cx (x_min_ s) (x_max_ s) (num_points_x_ s)
    /\ y_values_ s = c_linspace cx (y_min_ s) (y_max_ s) (num_points_y_ s)
    /\ z_values_ s = c_linspace cx (z_min_ s) (z_max_ s) (num_points_z_ s).

  Theorem source_init_made : forall x0 x1 y0 y1 z0 z1 nx ny nz sx sy sz, linspace_len ->
    (0 < nx)%Z -> (0 < ny)%Z -> (0 < nz)%Z -> made (init_obj x0 x1 y0 y1 z0 z1 nx ny nz sx sy sz).
  Proof.
    intros x0 x1 y0 y1 z0 z1 nx ny nz sx sy sz LL Nx Ny Nz. unfold made, wf, init_obj. cbn.
    rewrite !LL by lia. rewrite !Z2Nat.id by lia. repeat split; assumption.
  Qed.

  Theorem source_init_model : forall x0 x1 y0 y1 z0 z1 nx ny nz sx sy sz,
    to_model (init_obj x0 x1 y0 y1 z0 z1 nx ny nz sx sy sz)
    = {| ax := {| amin := x0; amax := x1; avals := c_linspace cx x0 x1 nx |};
         ay := {| amin := y0; amax := y1; avals := c_linspace cx y0 y1 ny |};
         az := {| amin := z0; amax := z1; avals := c_linspace cx z0 z1 nz |};
         grid := fun _ _ _ => c_zero cx |}
    /\ spacing_x_ (init_obj x0 x1 y0 y1 z0 z1 nx ny nz sx sy sz) = spacing (ax (to_model (init_obj x0 x1 y0 y1 z0 z1 nx ny nz sx sy sz))).
  Proof. intros. split; reflexivity. Qed.

  (* ---- __operate_on_lattice and the four operators ------------------------------------------------------------------------- *)
  Definition operand_of (v : pyval V) : operand V := match v with PObj o => OLat (to_model o) | PNotLattice => ONotLattice end.
  Definition operand_wf (v : pyval V) : Prop := match v with PObj o => wf o | PNotLattice => True end.
  (* the NEW object a binary operation / average returns: constructed from self's extents and node counts with the
     default n_sigma, then given the cells g *)
  Definition new_with (s : lobj V) (g : nat -> nat -> nat -> V) : lobj V :=
    set_grid_ (init_obj (x_min_ s) (x_max_ s) (y_min_ s) (y_max_ s) (z_min_ s) (z_max_ s)
                        (num_points_x_ s) (num_points_y_ s) (num_points_z_ s) None None None)
              (Grid3 (gshape (grid_ s)) g).

  Lemma new_with_model : forall s g, made s -> to_model (new_with s g) = with_grid V (to_model s) g /\ made (new_with s g).
  Proof.
    intros s g (W & Nx & Ny & Nz & Ex & Ey & Ez). split.
    - unfold new_with, to_model, with_grid, axis_x, axis_y, axis_z, init_obj, set_grid_. cbn. rewrite <- Ex, <- Ey, <- Ez. reflexivity.
    - destruct W as (Hx & Hy & Hz & Hg). unfold made, wf, new_with, init_obj, set_grid_. cbn.
      rewrite <- Ex, <- Ey, <- Ez. repeat split; assumption.
  Qed.

  Lemma same_shape_grids : forall s o, wf s -> wf o ->
    shape_eqb (gshape (grid_ s)) (gshape (grid_ o)) = same_shape V (to_model s) (to_model o).
  Proof. intros s o (_ & _ & _ & Hs) (_ & _ & _ & Ho). rewrite Hs, Ho. reflexivity. Qed.

  Theorem source_operate_on_lattice : forall s other op f, linspace_len -> made s -> operand_wf other ->
    (forall a b, op a b = np_binop f a b) ->
    gen_p_operate_on_lattice V cx s other op
    = wlift (rmap (fun L' => new_with s (grid L')) (operate V f (to_model s) (operand_of other))).
  Proof.
    intros s other op f LL M OW OP. unfold gen_p_operate_on_lattice, operate.
    destruct other as [o|]; [|reflexivity]. cbn [operand_of operand_wf] in *.
    destruct M as (W & Nx & Ny & Nz & _).
    rewrite (same_shape_grids s o W OW).
    destruct (same_shape V (to_model s) (to_model o)) eqn:SS; [|reflexivity]. cbn [negb].
    unfold gen_default_init_n_sigma_x, gen_default_init_n_sigma_y, gen_default_init_n_sigma_z.
    rewrite (source_init _ _ _ _ _ _ _ _ _ None None None LL Nx Ny Nz). cbn [wbind].
    rewrite OP. unfold np_binop. rewrite (same_shape_grids s o W OW), SS. reflexivity.
  Qed.

  Theorem source_add : forall s other, linspace_len -> made s -> operand_wf other ->
    gen_add V cx s other = wlift (rmap (fun L' => new_with s (grid L')) (operate V (c_add cx) (to_model s) (operand_of other))).
  Proof. intros s other LL M OW. unfold gen_add. rewrite wbind_ret. apply source_operate_on_lattice; auto. Qed.
  Theorem source_sub : forall s other, linspace_len -> made s -> operand_wf other ->
    gen_sub V cx s other = wlift (rmap (fun L' => new_with s (grid L')) (operate V (c_sub cx) (to_model s) (operand_of other))).
  Proof. intros s other LL M OW. unfold gen_sub. rewrite wbind_ret. apply source_operate_on_lattice; auto. Qed.
  Theorem source_mul : forall s other, linspace_len -> made s -> operand_wf other ->
    gen_mul V cx s other = wlift (rmap (fun L' => new_with s (grid L')) (operate V (c_mul cx) (to_model s) (operand_of other))).
  Proof. intros s other LL M OW. unfold gen_mul. rewrite wbind_ret. apply source_operate_on_lattice; auto. Qed.
  Theorem source_truediv : forall s other, linspace_len -> made s -> operand_wf other ->
    gen_truediv V cx s other = wlift (rmap (fun L' => new_with s (grid L')) (operate V (c_div cx) (to_model s) (operand_of other))).
  Proof. intros s other LL M OW. unfold gen_truediv. rewrite wbind_ret. apply source_operate_on_lattice; auto. Qed.

  (* ---- rescale ---------------------------------------------------------------------------------------------------------------- *)
  Theorem source_rescale : forall s factor,
    gen_rescale V cx s factor = WOk (with_cells s (grid (rescale V (c_mul cx) (to_model s) factor)), tt).
  Proof. reflexivity. Qed.

  (* ---- average ------------------------------------------------------------------------------------------------------------------ *)
  Lemma average_check_loop : forall s l, wf s -> Forall operand_wf l ->
    wloop (fun (_ : unit) (v_lattice : pyval V) =>
             match v_lattice with
             | PNotLattice => WErr TypeError
             | PObj v_lattice => if negb (shape_eqb (gshape (grid_ s)) (gshape (grid_ v_lattice))) then WErr ValueError else WOk tt
             end) l tt
    = match check_all V (to_model s) (map operand_of l) with Ok _ => WOk tt | Err e => WErr e end.
  Proof.
    intros s l W. induction l as [|v t IH]; intros F; [reflexivity|].
    inversion F as [|? ? Fv Ft]; subst. cbn [wloop map check_all].
    destruct v as [o|]; [|reflexivity]. cbn [operand_of operand_wf] in *.
    rewrite (same_shape_grids s o W Fv). destruct (same_shape V (to_model s) (to_model o)); [|reflexivity].
    cbn [negb wbind]. rewrite (IH Ft). destruct (check_all V (to_model s) (map operand_of t)); reflexivity.
  Qed.

  Lemma average_checked : forall s l lats, wf s -> Forall operand_wf l ->
    check_all V (to_model s) (map operand_of l) = Ok lats ->
    exists objs, l = map PObj objs /\ lats = map to_model objs
      /\ forallb (fun h => shape_eqb (gshape (grid_ s)) (gshape h)) (map grid_ objs) = true.
  Proof.
    intros s l. induction l as [|v t IH]; intros lats W F C.
    - cbn in C. inversion C; subst. exists []. repeat split.
    - inversion F as [|? ? Fv Ft]; subst. cbn [map check_all] in C.
      destruct v as [o|]; [|discriminate]. cbn [operand_of operand_wf] in *.
      destruct (same_shape V (to_model s) (to_model o)) eqn:SS; [|discriminate]. cbn [negb] in C.
      destruct (check_all V (to_model s) (map operand_of t)) as [lt|] eqn:CT; [|discriminate].
      cbn in C. inversion C; subst. destruct (IH lt W Ft eq_refl) as (objs & E1 & E2 & E3).
      exists (o :: objs). cbn [map forallb]. rewrite (same_shape_grids s o W Fv), SS, E3. subst. repeat split.
  Qed.

  Lemma grids_of_objects : forall objs : list (lobj V),
    wmapM (fun v_lattice => wbind (wlift (py_attr_grid_ v_lattice)) (fun t2 => WOk t2)) (map PObj objs) = WOk (map grid_ objs).
  Proof. induction objs as [|o t IH]; [reflexivity|]. cbn [map wmapM py_attr_grid_ wlift wbind]. rewrite IH. reflexivity. Qed.

  Theorem source_average : forall s others, linspace_len -> made s -> Forall operand_wf others ->
    match average V (c_sum cx) (c_divn cx) (to_model s) (map operand_of others) with
    | Err e => gen_average V cx s others = WErr e
    | Ok L' => exists g', gen_average V cx s others = WOk (new_with s g') /\ forall i j k, g' i j k = grid L' i j k
    end.
  Proof.
    intros s others LL M F. destruct M as (W & Nx & Ny & Nz & _).
    assert (F' : Forall operand_wf (PObj s :: others)) by (constructor; assumption).
    unfold gen_average, average, py_list. cbv zeta. change (map PObj [s] ++ others)%list with (PObj s :: others).
    rewrite (average_check_loop s _ W F').
    change (OLat (to_model s) :: map operand_of others) with (map operand_of (PObj s :: others)).
    destruct (check_all V (to_model s) (map operand_of (PObj s :: others))) as [lats|e] eqn:C; [|reflexivity].
    cbn [rbind wbind].
    destruct (average_checked s _ lats W F' C) as (objs & E1 & E2 & E3).
    unfold gen_default_init_n_sigma_x, gen_default_init_n_sigma_y, gen_default_init_n_sigma_z.
    rewrite (source_init _ _ _ _ _ _ _ _ _ None None None LL Nx Ny Nz). cbn [wbind].
    rewrite E1, grids_of_objects. cbn [wbind].
    destruct objs as [|o objs]; [discriminate|]. cbn [map] in E1. inversion E1; subst o.
    unfold np_mean_axis0. cbn [map]. cbn [map] in E3. rewrite E3. cbn [negb wlift wbind].
    eexists. split; [reflexivity|]. intros i j k. subst lats. cbn [with_grid grid].
    cbn [map List.length]. rewrite !map_length, !map_map. reflexivity.
  Qed.

  (* ---- reset ------------------------------------------------------------------------------------------------------------------------ *)
  Lemma zz3_inj : forall p q, zz3 p = zz3 q -> p = q.
  Proof. intros [[a b] c] [[d e] f] H. cbn in H. inversion H. f_equal; [f_equal|]; apply Nat2Z.inj; assumption. Qed.
  Lemma triple_dec : forall p q : Z * Z * Z, {p = q} + {p <> q}.
  Proof. decide equality; [apply Z.eq_dec|]. decide equality; apply Z.eq_dec. Qed.

  Lemma np_set3_inrange : forall (g : grid3 V) nx ny nz a b c v, gshape g = (nx, ny, nz) ->
    (a < nx)%nat -> (b < ny)%nat -> (c < nz)%nat ->
    np_set3 g (Z.of_nat a) (Z.of_nat b) (Z.of_nat c) v = Ok (Grid3 (nx, ny, nz) (upd V (gcell g) a b c v)).
  Proof.
    intros g nx ny nz a b c v G Ra Rb Rc. unfold np_set3, np_index3. rewrite G.
    rewrite !norm_index_valid by (apply andb_true_iff; split; [apply Z.leb_le; lia|apply Z.ltb_lt; lia]).
    rewrite !Nat2Z.id. reflexivity.
  Qed.

  Lemma reset_loop : forall (zero : V) l s0 nx ny nz, gshape (grid_ s0) = (nx, ny, nz) ->
    (forall p, In p l -> exists a b c, p = zz3 (a, b, c) /\ (a < nx)%nat /\ (b < ny)%nat /\ (c < nz)%nat) ->
    exists g', wloop (fun (self : lobj V) '((v_i, v_j, v_k) : Z * Z * Z) =>
                        wbind (wlift (np_set3 (grid_ self) v_i v_j v_k zero)) (fun t1 => WOk (set_grid_ self t1)))
                     l s0 = WOk (with_cells s0 g')
      /\ forall a b c, (In (zz3 (a, b, c)) l -> g' a b c = zero) /\ (~ In (zz3 (a, b, c)) l -> g' a b c = gcell (grid_ s0) a b c).
  Proof.
    intros zero l. induction l as [|p t IH]; intros s0 nx ny nz G R.
    - exists (gcell (grid_ s0)). cbn [wloop]. rewrite with_cells_same. split; [reflexivity|]. intros a b c. split; [intros []|reflexivity].
    - destruct (R p (or_introl eq_refl)) as (a0 & b0 & c0 & -> & Ra & Rb & Rc).
      cbn [wloop zz3]. rewrite (np_set3_inrange (grid_ s0) nx ny nz a0 b0 c0 zero G Ra Rb Rc). cbn [wlift wbind].
      set (s1 := set_grid_ s0 (Grid3 (nx, ny, nz) (upd V (gcell (grid_ s0)) a0 b0 c0 zero))).
      destruct (IH s1 nx ny nz eq_refl (fun q Hq => R q (or_intror Hq))) as (g' & E & P).
      exists g'. split.
      + rewrite E. unfold with_cells, s1, set_grid_. cbn. rewrite G. reflexivity.
      + intros a b c. destruct (P a b c) as [P1 P2].
        destruct (in_dec triple_dec (zz3 (a, b, c)) t) as [I|NI].
        * split; [intros _; apply P1; exact I|]. intros C. exfalso. apply C. right. exact I.
        * rewrite (P2 NI). unfold s1, set_grid_, upd. cbn [grid_ gcell]. split.
          -- intros [Hp|Hin]; [|contradiction]. apply (zz3_inj (a0, b0, c0) (a, b, c)) in Hp. inversion Hp; subst.
             rewrite !Nat.eqb_refl. reflexivity.
          -- intros C. destruct (Nat.eqb a a0 && Nat.eqb b b0 && Nat.eqb c c0) eqn:Q; [|reflexivity].
             exfalso. apply C. left. apply andb_true_iff in Q. destruct Q as [Q Q3]. apply andb_true_iff in Q.
             destruct Q as [Q1 Q2]. apply Nat.eqb_eq in Q1, Q2, Q3. subst. reflexivity.
  Qed.

  Lemma ndindex_spec : forall nx ny nz p,
    In p (np_ndindex (nx, ny, nz)) <-> exists a b c, p = zz3 (a, b, c) /\ (a < nx)%nat /\ (b < ny)%nat /\ (c < nz)%nat.
  Proof.
    intros nx ny nz p. unfold np_ndindex. rewrite in_flat_map. split.
    - intros (a & Ha & H). apply in_flat_map in H. destruct H as (b & Hb & H). apply in_map_iff in H.
      destruct H as (c & <- & Hc). apply in_seq in Ha, Hb, Hc. exists a, b, c. repeat split; lia.
    - intros (a & b & c & -> & Ha & Hb & Hc). exists a. split; [apply in_seq; lia|].
      apply in_flat_map. exists b. split; [apply in_seq; lia|]. apply in_map_iff. exists c. split; [reflexivity|apply in_seq; lia].
  Qed.

  (* every node of the grid becomes the int 0 as numpy stores it, the object is otherwise unchanged *)
  Theorem source_reset : forall s nx ny nz, gshape (grid_ s) = (nx, ny, nz) ->
    exists g', gen_reset V cx s = WOk (with_cells s g', tt)
      /\ forall a b c, ((a < nx)%nat /\ (b < ny)%nat /\ (c < nz)%nat -> g' a b c = c_of_Z cx 0)
                       /\ (~ ((a < nx)%nat /\ (b < ny)%nat /\ (c < nz)%nat) -> g' a b c = gcell (grid_ s) a b c).
  Proof.
    intros s nx ny nz G. unfold gen_reset. cbv zeta. rewrite G.
    destruct (reset_loop (c_of_Z cx 0) (np_ndindex (nx, ny, nz)) s nx ny nz G (fun p Hp => proj1 (ndindex_spec nx ny nz p) Hp))
      as (g' & E & P).
    exists g'. rewrite E. split; [reflexivity|]. intros a b c. destruct (P a b c) as [P1 P2]. split.
    - intros R. apply P1. apply ndindex_spec. exists a, b, c. split; [reflexivity|exact R].
    - intros NR. apply P2. intros I. apply ndindex_spec in I. destruct I as (a' & b' & c' & Hp & R).
      apply zz3_inj in Hp. inversion Hp; subst. exact (NR R).
  Qed.

  (* ---- the invariant survives every method that stores into self -------------------------------------------------------------------- *)
  Theorem source_stores_keep_wf : forall s g, (wf s -> wf (with_cells s g)) /\ (made s -> made (with_cells s g)).
  Proof. intros s g. split; intros H; exact H. Qed.
End Src.

(* ---- save_to_csv / load_from_csv (grid values are floats) ----------------------------------------------------------------------------- *)
(* what the model persists of an object *)
Definition pstate_of (s : lobj fv) : pstate :=
  {| ext := [Fin (x_min_ s); Fin (x_max_ s); Fin (y_min_ s); Fin (y_max_ s); Fin (z_min_ s); Fin (z_max_ s)];
     cnt := gshape (grid_ s); pgrid := gcell (grid_ s) |}.

Theorem source_save_to_csv : forall tok (fmt : fv -> tok) cx (s : lobj fv), wf fv s ->
  gen_save_to_csv tok fmt cx s = WOk (CsvFile ","%string (save tok fmt (pstate_of s))).
Proof.
  intros tok fmt cx s (Hx & Hy & Hz & Hg). unfold gen_save_to_csv, save, pstate_of, np_savetxt, np_hstack2, np_reshape_row, np_flatten.
  cbn [cnt ext pgrid]. rewrite Hg, Hx, Hy, Hz. reflexivity.
Qed.

Definition finite_fv (v : fv) : Prop := match v with Fin _ => True | _ => False end.
Definition not_inf (v : fv) : Prop := match v with PInf | NInf => False | _ => True end.
(* the rows on which the regenerated load_from_csv is compared with the model (see the report): not a one-token row
   (numpy makes a 0-d array of it), finite extents, node-count fields that are not +-inf and not zero *)
Definition load_domain (d : list fv) : Prop :=
  List.length d <> 1%nat
  /\ forall a b c e f g h i j, firstn 9 d = [a; b; c; e; f; g; h; i; j] ->
       (finite_fv a /\ finite_fv b /\ finite_fv c /\ finite_fv e /\ finite_fv f /\ finite_fv g)
       /\ (not_inf h /\ not_inf i /\ not_inf j)
       /\ (forall nx ny nz, to_int h = Ok nx -> to_int i = Ok ny -> to_int j = Ok nz -> (nx * ny * nz <> 0)%Z).

Lemma loadtxt_row : forall tok (parse : tok -> fv) (fs : csvfile tok),
  cdelim fs = ","%string -> List.length (map parse (crow fs)) <> 1%nat ->
  np_loadtxt parse fs ","%string = Ok (Arr1 (map parse (crow fs))).
Proof.
  intros tok parse fs D L. unfold np_loadtxt. rewrite D. cbn [String.eqb Ascii.eqb Bool.eqb negb andb].
  destruct (map parse (crow fs)) as [|x [|y t]]; try reflexivity. exfalso. apply L. reflexivity.
Qed.

Theorem source_load_from_csv : forall tok (parse : tok -> fv) cx (fs : csvfile tok),
  linspace_len fv cx -> cdelim fs = ","%string -> load_domain (map parse (crow fs)) ->
  match load tok parse (crow fs) with
  | Err e => gen_load_from_csv tok parse cx fs = WErr e
  | Ok st => exists o, gen_load_from_csv tok parse cx fs = WOk o /\ pstate_of o = st /\ made fv cx o
  end.
Proof.
  intros tok parse cx fs LL D (L1 & DOM). unfold gen_load_from_csv, load. cbv zeta.
  rewrite (loadtxt_row tok parse fs D L1). cbn [wlift wbind np_slice]. rewrite skipn_O.
  set (d := map parse (crow fs)) in *.
  destruct (firstn 9 d) as [|a [|b [|c [|e [|f [|g [|h [|i [|j [|k t]]]]]]]]]] eqn:F9; try reflexivity.
  destruct (DOM a b c e f g h i j eq_refl) as ((Fa & Fb & Fc & Fe & Ff & Fg) & (Ih & Ii & Ij) & NZ).
  destruct h as [qh| | |]; try contradiction; cbn [py_int_fv to_int wlift wbind rbind]; [|reflexivity].
  destruct i as [qi| | |]; try contradiction; cbn [py_int_fv to_int wlift wbind rbind]; [|reflexivity].
  destruct j as [qj| | |]; try contradiction; cbn [py_int_fv to_int wlift wbind rbind]; [|reflexivity].
  destruct a as [qa| | |]; try contradiction. destruct b as [qb| | |]; try contradiction.
  destruct c as [qc| | |]; try contradiction. destruct e as [qe| | |]; try contradiction.
  destruct f as [qf| | |]; try contradiction. destruct g as [qg| | |]; try contradiction.
  cbn [fv_finite wlift wbind].
  specialize (NZ _ _ _ eq_refl eq_refl eq_refl).
  set (nx := Qtrunc qh) in *. set (ny := Qtrunc qi) in *. set (nz := Qtrunc qj) in *.
  unfold gen_default_init_n_sigma_x, gen_default_init_n_sigma_y, gen_default_init_n_sigma_z.
  destruct ((nx <? 0)%Z || (ny <? 0)%Z || (nz <? 0)%Z) eqn:NEG.
  - assert (NG : (nx < 0 \/ ny < 0 \/ nz < 0)%Z).
    { apply orb_true_iff in NEG. destruct NEG as [NEG|NEG]; [apply orb_true_iff in NEG; destruct NEG as [NEG|NEG]|];
        apply Z.ltb_lt in NEG; lia. }
    pose proof (proj2 (source_init_errors fv cx qa qb qc qe qf qg nx ny nz None None None) NZ NG) as IE.
    rewrite IE. reflexivity.
  - apply orb_false_iff in NEG. destruct NEG as [NEG Nz]. apply orb_false_iff in NEG. destruct NEG as [Nx Ny].
    apply Z.ltb_ge in Nx, Ny, Nz.
    assert (Px : (0 < nx)%Z) by nia. assert (Py : (0 < ny)%Z) by nia. assert (Pz : (0 < nz)%Z) by nia.
    rewrite (source_init fv cx qa qb qc qe qf qg nx ny nz None None None LL Px Py Pz). cbn [wbind].
    unfold np_reshape3. cbn [init_obj grid_ gshape].
    destruct (Nat.eqb (List.length (skipn 9 d)) (Z.to_nat nx * Z.to_nat ny * Z.to_nat nz)); cbn [negb wlift wbind]; [|reflexivity].
    eexists. split; [reflexivity|]. split; [reflexivity|].
    exact (proj2 (source_stores_keep_wf fv cx _ _) (source_init_made fv cx qa qb qc qe qf qg nx ny nz None None None LL Px Py Pz)).
Qed.

(* ---- non-vacuity: a concrete context and object on which the hypotheses hold, and what the regenerated methods compute there -------- *)
Definition ex_linspace (a b : Q) (n : Z) : list Q :=
  map (fun i => Qred (a + (b - a) * (inject_Z (Z.of_nat i) / inject_Z (n - 1)))) (seq 0 (Z.to_nat n)).
Definition ex_cx : npctx fv :=
  NpCtx fv (Fin 0) fv_of_Z fv_add fv_sub fv_mul fv_div fv_sum fv_divn ex_linspace (fun _ _ _ _ => NaN).

Theorem source_example :
  linspace_len fv ex_cx
  /\ match gen_init fv ex_cx 0 2 (-3) (-2) 0 (1 # 2) 3 2 2 None None None with
     | WOk o =>
       made fv ex_cx o /\ x_values_ o = [0; 1; 2] /\ spacing_x_ o = Some 1 /\ cell_volume_ o == 1 # 12
       /\ match gen_set_value fv o (Fin (3 # 2)) (Fin (-5 # 2)) (Fin (1 # 4)) (Fin 7) with
          | WOk (o', _) =>
            (gen_get_value fv o' (Fin 1) (Fin (-3)) (Fin 0), gen_get_value fv o' (Fin 2) (Fin (-2)) (Fin (1 # 2)),
             gen_get_value fv o' (Fin 3) (Fin (-3)) (Fin 0), gen_get_value_by_index fv o' (-1) 0 0,
             gen_find_closest_indices fv o' (Fin (3 # 2)) (Fin (-2)) (Fin 5), gen_get_coordinates fv o' 2 1 1)
            = (WOk (Some (Fin 7)), WOk (Some (Fin 0)), WErr ValueError, Warned None, Warned (1, 1, 1)%Z,
               WOk (2, -2, 1 # 2))
          | _ => False
          end
     | _ => False
     end.
Proof.
  split.
  - intros a b n N. unfold ex_cx, ex_linspace. cbn [c_linspace]. rewrite map_length, seq_length. reflexivity.
  - vm_compute. repeat split; try reflexivity; try discriminate.
Qed.

(* C05: on the events that still contain particles, applying a chain of particle-level / event-level operations
   event by event (as the loaders do while reading) equals applying it to the whole event list (as the methods do). *)
From Coq Require Import List ZArith Bool Lia.
From SX Require Import Model.PyRt Model.FilterSpec Model.CtorFilters.
Import ListNotations.
Local Notation length := List.length.

Lemma nonempty_app a b : nonempty (a ++ b) = nonempty a ++ nonempty b.
Proof. unfold nonempty. apply filter_app. Qed.

Lemma nonempty_flat_map {A} (f : A -> list (list pobs)) l :
  nonempty (flat_map f l) = flat_map (fun x => nonempty (f x)) l.
Proof. induction l as [|x t IH]; [reflexivity|]. cbn [flat_map]. rewrite nonempty_app, IH. reflexivity. Qed.

Lemma flat_map_ext' {A B} (f g : A -> list B) l : (forall x, f x = g x) -> flat_map f l = flat_map g l.
Proof. intros H. induction l as [|x t IH]; [reflexivity|]. cbn. rewrite H, IH. reflexivity. Qed.

(* one operation on one event gives one event *)
Lemma run_op_single o e : exists e', run_op o [e] = [e'].
Proof.
  destruct o as [p|k|]; cbn.
  - eexists; reflexivity.
  - unfold event_level. cbn. destruct (k e); eexists; reflexivity.
  - eexists; reflexivity.
Qed.
Lemma run_ops_single ops : forall e, exists e', run_ops ops [e] = [e'].
Proof.
  induction ops as [|o t IH]; intros e; cbn.
  - eexists; reflexivity.
  - destruct (run_op_single o e) as [e1 ->]. apply IH.
Qed.

(* an empty event never comes back to life *)
Lemma run_op_nil o : nonempty (run_op o [[]]) = [].
Proof.
  destruct o as [p|k|]; cbn; try reflexivity.
  unfold event_level. cbn. destruct (k []); reflexivity.
Qed.
Lemma run_ops_nil ops : nonempty (run_ops ops [[]]) = [].
Proof.
  induction ops as [|o t IH]; [reflexivity|]. cbn [run_ops fold_left].
  destruct (run_op_single o []) as [e1 E]. pose proof (run_op_nil o) as N. rewrite E in *.
  destruct e1; [exact IH|discriminate N].
Qed.

(* the non-empty events of the result, operation by operation *)
Lemma nonempty_run_op o evs (g : list pobs -> list (list pobs)) : g [] = [] ->
  flat_map g (run_op o evs) = flat_map (fun e => flat_map g (run_op o [e])) evs.
Proof.
  intros G. destruct o as [p|k|]; cbn [run_op].
  - unfold particle_level. induction evs as [|e t IH]; [reflexivity|]. cbn. rewrite IH, app_nil_r. reflexivity.
  - assert (H : flat_map g (filter k evs) = flat_map (fun e => flat_map g (if k e then [e] else [[]])) evs).
    { induction evs as [|e t IH]; [reflexivity|]. cbn. destruct (k e); cbn; rewrite IH, ?G, ?app_nil_r; reflexivity. }
    assert (P : forall e, event_level k [e] = if k e then [e] else [[]])
      by (intros e; unfold event_level; cbn; destruct (k e); reflexivity).
    rewrite (flat_map_ext' (fun e => flat_map g (event_level k [e]))
                           (fun e => flat_map g (if k e then [e] else [[]])) evs)
      by (intros e; rewrite P; reflexivity).
    rewrite <- H. unfold event_level. destruct (filter k evs) eqn:E; [cbn; rewrite G; reflexivity|reflexivity].
  - induction evs as [|e t IH]; [reflexivity|]. cbn. rewrite IH, app_nil_r. reflexivity.
Qed.

Lemma nonempty_as_flat_map evs : nonempty evs = flat_map (fun e => nonempty [e]) evs.
Proof.
  induction evs as [|e t IH]; [reflexivity|]. cbn [flat_map]. rewrite <- IH.
  unfold nonempty. destruct e; reflexivity.
Qed.

Theorem nonempty_run_ops ops : forall evs,
  nonempty (run_ops ops evs) = flat_map (fun e => nonempty (run_ops ops [e])) evs.
Proof.
  induction ops as [|o t IH]; intros evs.
  - apply nonempty_as_flat_map.
  - cbn [run_ops fold_left]. change (fold_left (fun e o => run_op o e) t) with (run_ops t).
    rewrite IH. rewrite nonempty_run_op by apply run_ops_nil.
    apply flat_map_ext'. intros e. rewrite <- IH. reflexivity.
Qed.

Lemma nonempty_hd ops e : nonempty [abs_event ops e] = nonempty (run_ops ops [e]).
Proof. unfold abs_event. destruct (run_ops_single ops e) as [e' ->]. reflexivity. Qed.

(* ParticleObjectLoader: every event kept *)
Theorem abs_equiv_pobj ops evs : nonempty (abs_pobj_loader ops evs) = nonempty (run_ops ops evs).
Proof.
  rewrite nonempty_run_ops. unfold abs_pobj_loader.
  induction evs as [|e t IH]; [reflexivity|]. cbn [map flat_map].
  change (abs_event ops e :: map (abs_event ops) t) with ([abs_event ops e] ++ map (abs_event ops) t).
  rewrite nonempty_app, IH, nonempty_hd. reflexivity.
Qed.

(* Oscar / Jetscape loaders: an event that was non-empty and became empty is dropped while reading *)
Theorem abs_equiv_file ops evs : nonempty (abs_file_loader ops evs) = nonempty (run_ops ops evs).
Proof.
  rewrite nonempty_run_ops. unfold abs_file_loader.
  set (f := fun data => let d := abs_event ops data in if negb (is_nil d) || is_nil data then [d] else []).
  assert (H : nonempty (flat_map f evs) = flat_map (fun e => nonempty (run_ops ops [e])) evs).
  { rewrite nonempty_flat_map. apply flat_map_ext'. intros e. unfold f. cbn zeta.
    rewrite <- nonempty_hd. destruct (abs_event ops e); destruct e; reflexivity. }
  destruct (flat_map f evs) eqn:E; [|exact H].
  rewrite <- H. reflexivity.
Qed.

(* and the counts reported for them are their sizes *)
Theorem nonempty_counts evs :
  map (fun e => Z.of_nat (length e)) (nonempty evs)
  = filter (fun n => negb (Z.eqb n 0)) (map (fun e => Z.of_nat (length e)) evs).
Proof.
  induction evs as [|e t IH]; [reflexivity|].
  unfold nonempty in *. cbn [filter map]. destruct e as [|p e]; cbn [is_nil negb length].
  - rewrite IH. reflexivity.
  - cbn [map]. rewrite IH.
    replace (negb (Z.of_nat (S (length e)) =? 0)%Z) with true by (symmetry; apply negb_true_iff, Z.eqb_neq; lia).
    reflexivity.
Qed.

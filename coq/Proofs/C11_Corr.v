(* C11 - integrated Q-cumulants: the generated <<2>>, <<4>>, <<6>> (Gen/GenQCumulant.v, regenerated from
   QCumulantFlow.__calculate_corr on every run) equal  sum_events Re dsum2 k k / sum_events M(M-1)..(M-2k+1);
   the cumulant combinations; the cumulant -> flow decision tree.  Any commutative ring K. *)
From Coq Require Import String ZArith Ring Ring_theory Arith Lia Bool List.
From SX Require Import Lib.KRing Lib.Cpx Lib.Distinct Proofs.C11_Closed Proofs.C11_Aux Gen.GenQCumulant Model.QCumulant.
Import ListNotations.

Section Corr.
  Variable K : Type.
  Variables (k0 k1 : K) (kadd kmul ksub : K -> K -> K) (kopp : K -> K) (kdiv : K -> K -> K).
  Variables (kleb kltb : K -> K -> bool).
  Variable krpow : nat -> nat -> K -> K.
  Hypothesis Kth : ring_theory k0 k1 kadd kmul ksub kopp (@eq K).
  Add Ring KringCorr : Kth.
  Variable P : Type.
  Variable zof : P -> cpx K.
  Variables inbin ispoi : P -> bool.

  Notation C := (cpx K).
  Notation C0 := (c0 K k0). Notation C1 := (c1 K k0 k1).
  Notation Cadd := (cadd K kadd). Notation Cmul := (cmul K kadd kmul ksub).
  Notation Csub := (csub K ksub). Notation Copp := (copp K kopp).
  Notation Conj := (@conj K kopp).
  Notation KN := (knat k0 k1 kadd).
  Notation DS := (dsum2 C0 C1 Cadd Cmul Conj).
  Notation PD := (pdsum2 C0 C1 Cadd Cmul Conj).
  Notation PSum := (psum C0 C1 Cadd Cmul).
  Notation Unit := (cunit K k0 k1 kadd kmul ksub kopp).
  Notation event := (event K P).
  Definition good (e : event) : Prop := Unit (fst e) /\ Forall (fun p => Unit (zof p)) (snd e).
  Notation M f := (f K k0 k1 kadd kmul ksub kopp kdiv kleb kltb krpow P zof inbin ispoi).
  Notation Sn := (spec_num K k0 k1 kadd kmul ksub kopp P zof).
  Notation Sd := (spec_den K k0 k1 kadd P).
  Notation Qf := (Qof K k0 k1 kadd kmul ksub kopp kdiv kleb kltb krpow P zof).
  Notation Mf := (Mof K k0 k1 kadd P).
  Notation Zs := (zs K kadd kmul ksub P zof).
  Notation Zs0 := (zs0 K P zof).

  Definition EQ (e : event) (f : C -> C -> C -> C -> C -> C -> C -> C) : C :=
    f (Qf 1%nat e) (Qf 2%nat e) (Qf 3%nat e) (Conj (Qf 1%nat e)) (Conj (Qf 2%nat e)) (Conj (Qf 3%nat e)) (ofK k0 (Mf e)).

  Lemma zs_rot e : Zs e = map (Cmul (fst e)) (Zs0 e).
  Proof. unfold zs, zs0, rotz. rewrite map_map. reflexivity. Qed.

  Lemma good_units e : good e -> Forall Unit (Zs e).
  Proof.
    intros [Hr Hl]. rewrite zs_rot. apply (unit_rot K k0 k1 kadd kmul ksub kopp Kth); [exact Hr|].
    unfold zs0. induction Hl; cbn [map]; constructor; assumption.
  Qed.

  Lemma QSc_EQ e f : QSc K k0 k1 kadd kmul ksub kopp (Zs e) f = EQ e f.
  Proof. unfold QSc, EQ, Qof, Mof, gen_Qh, psum, csum, cpow, zs. cbv zeta. rewrite !map_length. reflexivity. Qed.

  Lemma ev11 e : good e -> DS 1 1 (Zs0 e) = EQ e (CF_1_1 C C0 C1 Cadd Cmul Csub Copp).
  Proof.
    intros H. rewrite <- (ds_rot K k0 k1 kadd kmul ksub kopp Kth 1 (fst e)) by apply H.
    rewrite <- zs_rot, (closed11 K k0 k1 kadd kmul ksub kopp Kth) by (apply good_units; exact H). apply QSc_EQ.
  Qed.
  Lemma ev22 e : good e -> DS 2 2 (Zs0 e) = EQ e (CF_2_2 C C0 C1 Cadd Cmul Csub Copp).
  Proof.
    intros H. rewrite <- (ds_rot K k0 k1 kadd kmul ksub kopp Kth 2 (fst e)) by apply H.
    rewrite <- zs_rot, (closed22 K k0 k1 kadd kmul ksub kopp Kth) by (apply good_units; exact H). apply QSc_EQ.
  Qed.
  Lemma ev33 e : good e -> DS 3 3 (Zs0 e) = EQ e (CF_3_3 C C0 C1 Cadd Cmul Csub Copp).
  Proof.
    intros H. rewrite <- (ds_rot K k0 k1 kadd kmul ksub kopp Kth 3 (fst e)) by apply H.
    rewrite <- zs_rot, (closed33 K k0 k1 kadd kmul ksub kopp Kth) by (apply good_units; exact H). apply QSc_EQ.
  Qed.

  Lemma kff_Mf k e : KN (ffact k (length (snd e))) = kff K k1 kmul ksub k (Mf e).
  Proof. unfold Mof. apply (ffact_kff K k0 k1 kadd kmul ksub kopp Kth). Qed.

  Lemma Sn_cons k e evs : Sn k (e :: evs) = kadd (re (DS k k (Zs0 e))) (Sn k evs).
  Proof. reflexivity. Qed.
  Lemma Sd_cons k e evs : Sd k (e :: evs) = kadd (KN (ffact (2 * k) (length (snd e)))) (Sd k evs).
  Proof. reflexivity. Qed.

  (* unfold pair arithmetic down to K and let [ring] finish *)
  (* event sums over the rest of the sample become opaque atoms *)
  Ltac gen_sums :=
    repeat match goal with
           | |- context [ksum ?z ?a (map ?f ?l)] => generalize (ksum z a (map f l)); intro
           | |- context [csum ?k ?z ?a (map ?f ?l)] => generalize (csum k z a (map f l)); intro
           end.
  Ltac cpx_ring :=
    gen_sums;
    cbv beta iota zeta delta [kpow kff kz kpos knat Nat.mul Nat.add Cpx.cpow Cpx.cscale Cpx.csub Cpx.cadd Cpx.cmul
                              Cpx.copp Cpx.conj Cpx.ofK Cpx.c0 Cpx.c1 Cpx.re Cpx.im fst snd];
    ring.

  Lemma corr2_ok evs : Forall good evs -> M corr2 evs = kdiv (Sn 1%nat evs) (Sd 1%nat evs).
  Proof.
    intros H. unfold corr2, gen_corr_2. cbv zeta. cbv beta. f_equal.
    - induction H as [|e evs He Hl IH]; [cbn; ring|].
      rewrite Sn_cons, <- IH, ?map_cons, ?ksum_cons, ?csum_cons, (ev11 e He).
      unfold EQ, CF_1_1. cbv zeta. 
      generalize (Qf 1%nat e) (Mf e). intros q m.
      cpx_ring.
    - induction H as [|e evs He Hl IH]; [cbn; ring|].
      rewrite Sd_cons, <- IH, !map_cons, !ksum_cons, kff_Mf.
      generalize (Mf e). intros m. cpx_ring.
  Qed.
  Lemma corr4_ok evs : Forall good evs -> M corr4 evs = kdiv (Sn 2%nat evs) (Sd 2%nat evs).
  Proof.
    intros H. unfold corr4, gen_corr_4. cbv zeta. cbv beta. f_equal.
    - induction H as [|e evs He Hl IH]; [cbn; ring|].
      rewrite Sn_cons, <- IH, ?map_cons, ?ksum_cons, ?csum_cons, (ev22 e He).
      unfold EQ, CF_2_2. cbv zeta. 
      generalize (Qf 1%nat e) (Qf 2%nat e) (Mf e). intros q1 q2 m.
      cpx_ring.
    - induction H as [|e evs He Hl IH]; [cbn; ring|].
      rewrite Sd_cons, <- IH, !map_cons, !ksum_cons, kff_Mf.
      generalize (Mf e). intros m. cpx_ring.
  Qed.
  Lemma corr6_ok evs : Forall good evs -> M corr6 evs = kdiv (Sn 3%nat evs) (Sd 3%nat evs).
  Proof.
    intros H. unfold corr6, gen_corr_6. cbv zeta. cbv beta. f_equal.
    - induction H as [|e evs He Hl IH]; [cbn; ring|].
      rewrite Sn_cons, <- IH, ?map_cons, ?ksum_cons, ?csum_cons, (ev33 e He).
      unfold EQ, CF_3_3. cbv zeta.
      generalize (Qf 1%nat e) (Qf 2%nat e) (Qf 3%nat e) (Mf e). intros q1 q2 q3 m.
      cpx_ring.
    - induction H as [|e evs He Hl IH]; [cbn; ring|].
      rewrite Sd_cons, <- IH, ?map_cons, ?ksum_cons, kff_Mf.
      generalize (Mf e). intros m. cpx_ring.
  Qed.

  (* ---- cumulant combinations (generated from __cumulant_flow) ---- *)
  Notation KZ n := (kz k0 k1 kadd kmul kopp n%Z).
  Lemma cumulant2_ok evs : M cumulant2 evs = M corr2 evs.
  Proof. reflexivity. Qed.
  Lemma cumulant4_ok evs :
    M cumulant4 evs = ksub (M corr4 evs) (kmul (KZ 2) (kmul (M corr2 evs) (M corr2 evs))).
  Proof.
    unfold cumulant4, corr4, corr2, gen_cumulant_4. cbv zeta.
    cbv beta iota delta [kpow kz kpos]. ring.
  Qed.
  Lemma cumulant6_ok evs :
    M cumulant6 evs = kadd (ksub (M corr6 evs) (kmul (KZ 9) (kmul (M corr2 evs) (M corr4 evs))))
                           (kmul (KZ 12) (kmul (M corr2 evs) (kmul (M corr2 evs) (M corr2 evs)))).
  Proof.
    unfold cumulant6, corr6, corr4, corr2, gen_cumulant_6. cbv zeta.
    cbv beta iota delta [kpow kz kpos]. ring.
  Qed.

  (* ---- cumulant -> flow (generated from __flow_from_cumulant) ---- *)
  Notation FFC := (gen_ffc K k0 k1 kadd kmul ksub kopp kdiv kleb kltb krpow).
  Notation FAC := (gen_factor K k0 k1 kadd kmul ksub kopp kdiv kleb kltb krpow).

  Lemma factor_values : FAC 2%nat = k1 /\ FAC 4%nat = kopp k1 /\ FAC 6%nat = kdiv k1 (KZ 4).
  Proof. repeat split; reflexivity. Qed.

  Lemma ffc_real kk imag c : kleb k0 (kmul (FAC kk) c) = true ->
    FFC kk imag c = Some (krpow 1%nat kk (kmul (FAC kk) c)).
  Proof. intros H. unfold gen_ffc. cbv zeta. change (KZ 0) with k0. rewrite H. reflexivity. Qed.

  Lemma ffc_imaginary kk c : kleb k0 (kmul (FAC kk) c) = false ->
    FFC kk "negative" c = Some (kopp (krpow 1%nat kk (kopp (kmul (FAC kk) c)))) /\
    FFC kk "zero" c = Some k0 /\
    FFC kk "nan" c = None.
  Proof.
    intros H. unfold gen_ffc. cbv zeta. change (KZ 0) with k0. rewrite H. cbn [String.eqb Ascii.eqb Bool.eqb].
    repeat split. f_equal. cbv beta iota delta [kz kpos]. ring.
  Qed.

  (* with the defining law of the root oracle: v^k = factor * c_k *)
  Lemma ffc_power kk imag c :
    (forall x, kleb k0 x = true -> kpow k1 kmul (krpow 1%nat kk x) kk = x) ->
    kleb k0 (kmul (FAC kk) c) = true ->
    exists v, FFC kk imag c = Some v /\ kpow k1 kmul v kk = kmul (FAC kk) c.
  Proof. intros Hr H. eexists. split; [apply ffc_real; exact H | apply Hr; exact H]. Qed.

  Lemma integrated_ok evs k imag : In imag gen_imag_allowed ->
    M integrated_flow evs k imag =
      match k with
      | 2%nat => Some (FFC 2%nat imag (M cumulant2 evs))
      | 4%nat => Some (FFC 4%nat imag (M cumulant4 evs))
      | 6%nat => Some (FFC 6%nat imag (M cumulant6 evs))
      | _ => None
      end.
  Proof.
    intros Hi. unfold integrated_flow.
    assert (Hb : existsb (String.eqb imag) gen_imag_allowed = true).
    { apply existsb_exists. exists imag. split; [exact Hi | apply String.eqb_refl]. }
    rewrite Hb, Bool.andb_true_r.
    do 7 (destruct k as [|k]; [reflexivity|]). reflexivity.
  Qed.

  Lemma integrated_bad_imag evs k imag : ~ In imag gen_imag_allowed -> M integrated_flow evs k imag = None.
  Proof.
    intros Hi. unfold integrated_flow.
    destruct (existsb (String.eqb imag) gen_imag_allowed) eqn:Hb; [|rewrite Bool.andb_false_r; reflexivity].
    apply existsb_exists in Hb. destruct Hb as [x [Hx He]]. apply String.eqb_eq in He. subst. contradiction.
  Qed.
End Corr.

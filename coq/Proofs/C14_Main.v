(* C14: the statements about differential_yield itself; the returned histogram is well-shaped for ANY input;
   the bins partition the range. *)
From Coq Require Import List ZArith QArith Qcanon Bool Arith Lia.
From SX Require Import Model.Histogram Model.Bulk Lib.HistBase Proofs.C09_Count Proofs.C09_Scale Proofs.C09_Density
                       Proofs.C10_Shape Proofs.C10_Avg Proofs.C10_History Proofs.C10_Write Proofs.C14_Yield.
Import ListNotations.
Local Open Scope nat_scope.

Section WithOracles.
  Variable usqrt : Qc -> Qc.

  (* explicit edges *)
  Lemma yield_list ul es n qevs : length es = S n ->
    (forall i, i < n -> (nth i es 0 < nth (S i) es 0)%Qc) -> qevs <> [] ->
    exists h, differential_yield usqrt ul true (BList es) (map (map (@Some Qc)) qevs) = Ok h
      /\ Shape h /\ nhist h = 1 /\ nbins h = n /\ edges h = es
      /\ forall i, i < n ->
           content h i = Some (qnat (count_in es i (concat qevs))
                               / (qnat (length qevs) * (nth (S i) es 0 - nth i es 0)))%Qc.
  Proof.
    intros Le Inc Ne. unfold differential_yield, make_hist, init_list.
    destruct es as [|e0 t]; [discriminate|]. cbn [bind].
    replace (length (e0 :: t) - 1) with n by (simpl in *; lia). cbn [fresh edges].
    exact (yield_spec usqrt (e0 :: t) n qevs Le Inc Ne).
  Qed.

  (* uniform tuple with the exact linspace *)
  Lemma yield_tuple lo hi n qevs : (lo < hi)%Qc -> (0 < n)%Z -> qevs <> [] ->
    let es := linspace_exact lo hi (Z.to_nat n) in
    exists h, differential_yield usqrt linspace_exact true (BTuple lo hi true n) (map (map (@Some Qc)) qevs) = Ok h
      /\ Shape h /\ nhist h = 1 /\ nbins h = Z.to_nat n /\ edges h = es
      /\ forall i, i < Z.to_nat n ->
           content h i = Some (qnat (count_in es i (concat qevs))
                               / (qnat (length qevs) * (nth (S i) es 0 - nth i es 0)))%Qc.
  Proof.
    intros Hd Hn Ne es. unfold differential_yield, make_hist. cbn [negb].
    assert (R : init_tuple linspace_exact lo hi true n = Ok (fresh (Z.to_nat n) es)).
    { unfold init_tuple.
      assert (A : Qcltb hi lo = false).
      { destruct (Qcltb hi lo) eqn:E; [|reflexivity]. apply Qcltb_lt in E. exfalso. revert E. apply Qcle_not_lt, Qclt_le_weak, Hd. }
      assert (B : Qc_eq_bool lo hi = false).
      { destruct (Qc_eq_bool lo hi) eqn:E; [|reflexivity]. apply Qc_eq_bool_true in E. exfalso. revert E. apply Qclt_not_eq, Hd. }
      rewrite A, B. cbn [orb negb]. replace (n <=? 0)%Z with false by (symmetry; apply Z.leb_gt; lia). reflexivity. }
    rewrite R. cbn [bind fresh edges].
    apply (yield_spec usqrt es (Z.to_nat n) qevs).
    - apply linspace_length.
    - intros i Hi. apply linspace_increasing; [exact Hd | lia | exact Hi].
    - exact Ne.
  Qed.

  (* ---------------------------------------------------------------- well-shaped for any input *)
  Lemma fill_event_shape qc : forall ev h h', Shape h -> fill_event qc h ev = Ok h' -> Shape h'.
  Proof.
    induction ev as [|q t IH]; intros h h' Sh E.
    - injection E as <-. exact Sh.
    - cbn [fill_event] in E. destruct (negb qc); [discriminate|]. inv_bind E.
      eapply IH; [|exact E]. eapply fill_elem_shape; eauto.
  Qed.

  Lemma fill_events_shape qc : forall evs h h', Shape h -> fill_events qc h evs = Ok h' -> Shape h'.
  Proof.
    induction evs as [|ev rest IH]; intros h h' Sh E.
    - injection E as <-. exact Sh.
    - cbn [fill_events] in E. inv_bind E. pose proof (fill_event_shape _ _ _ _ Sh E0) as S1.
      destruct rest as [|ev2 rest']; [injection E as <-; exact S1|].
      inv_bind E. eapply IH; [|exact E]. eapply add_histogram_shape; eauto.
  Qed.

  Lemma differential_yield_shape ul qc b evs h :
    (forall lo hi n, length (ul lo hi n) = S n) ->
    differential_yield usqrt ul qc b evs = Ok h -> Shape h /\ nhist h = 1.
  Proof.
    intros L E. unfold differential_yield in E. inv_bind E. inv_bind E. inv_bind E.
    assert (S0 : Shape a).
    { unfold make_hist in E0. destruct b as [lo hi i n|es].
      - destruct (negb i); [discriminate|]. eapply init_tuple_shape; eauto.
      - eapply init_list_shape; eauto. }
    pose proof (fill_events_shape _ _ _ _ S0 E1) as S1.
    destruct (average_weighted_shape usqrt _ _ _ S1 E2) as [S2 N2].
    pose proof (scale_ok_valid _ _ _ S2 E) as V.
    destruct (scale_spec _ _ S2 V) as [h3 [E3 [S3 [F3 _]]]]. rewrite E in E3. injection E3 as <-.
    split; [exact S3|]. rewrite (s_nhist _ _ F3). exact N2.
  Qed.

  (* hence it can be written to file (C10) *)
  Lemma differential_yield_writable ul qc b evs h labels columns :
    (forall lo hi n, length (ul lo hi n) = S n) ->
    differential_yield usqrt ul qc b evs = Ok h -> args_ok h labels columns ->
    write_to_file h labels columns = Ok (write_spec h labels columns).
  Proof.
    intros L E A. apply write_total_exact; [|exact A]. eapply differential_yield_shape; eauto.
  Qed.
End WithOracles.

(* ---------------------------------------------------------------- the bins partition [e_0, e_n) *)
Lemma list_sum_map_add {A} (f g : A -> nat) l :
  list_sum (map (fun x => f x + g x) l) = list_sum (map f l) + list_sum (map g l).
Proof. induction l as [|x t IH]; simpl; lia. Qed.

Lemma sum_indicator k : forall n,
  list_sum (map (fun i => if Nat.eqb k (S i) then 1 else 0) (seq 0 n)) = if (1 <=? k) && (k <=? n) then 1 else 0.
Proof.
  induction n as [|n IH].
  - simpl. destruct k; reflexivity.
  - rewrite seq_S, map_app, list_sum_app, IH. cbn [map list_sum]. change (0 + n) with n.
    destruct (Nat.eqb_spec k (S n)); destruct (Nat.leb_spec0 1 k); destruct (Nat.leb_spec0 k n);
    destruct (Nat.leb_spec0 k (S n)); cbn [andb]; simpl list_sum; lia.
Qed.

Lemma bins_partition es n v : length es = S n -> nondecreasing es = true ->
  list_sum (map (fun i => if in_bin es i v then 1 else 0) (seq 0 n)) = if in_range es n v then 1 else 0.
Proof.
  intros Le Nd. destruct (count_le_spec es v Nd) as [C1 [C2 C3]]. set (k := count_le v es) in *.
  rewrite (map_ext_in _ (fun i => if Nat.eqb k (S i) then 1 else 0)).
  2:{ intros i Hi. apply in_seq in Hi.
      destruct (in_bin es i v) eqn:B.
      - apply in_bin_iff in B; [|exact Nd|lia]. fold k in B. rewrite B, Nat.eqb_refl. reflexivity.
      - destruct (Nat.eqb_spec k (S i)) as [E|E]; [|reflexivity].
        assert (T : in_bin es i v = true) by (apply in_bin_iff; [exact Nd | lia | exact E]). congruence. }
  rewrite sum_indicator. replace (in_range es n v) with ((1 <=? k) && (k <=? n)); [reflexivity|]. unfold in_range.
  apply eq_true_iff_eq. rewrite !andb_true_iff, Nat.leb_le, Nat.leb_le, Qcleb_le, Qcltb_lt. split.
  - intros [A B]. split; [apply C2; lia | apply C3; lia].
  - intros [A B]. split.
    + destruct k; [|lia]. exfalso. eapply Qclt_not_le; [|exact A]. apply C3; lia.
    + destruct (Nat.le_gt_cases k n) as [|G]; [assumption|]. exfalso. eapply Qclt_not_le; [exact B|]. apply C2. lia.
Qed.

(* the bin counts add up to the number of in-range values: with content_i = count_i / (N_ev * width_i),
   N_ev * sum_i content_i * width_i = #in-range *)
Lemma counts_partition es n : length es = S n -> nondecreasing es = true -> forall qs,
  list_sum (map (fun i => count_in es i qs) (seq 0 n)) = length (filter (in_range es n) qs).
Proof.
  intros Le Nd. induction qs as [|q t IH].
  - unfold count_in. simpl. induction (seq 0 n); simpl; auto.
  - rewrite (map_ext _ (fun i => (if in_bin es i q then 1 else 0) + count_in es i t)).
    2:{ intros i. unfold count_in. simpl. destruct (in_bin es i q); reflexivity. }
    rewrite list_sum_map_add, IH, (bins_partition es n q Le Nd). simpl.
    destruct (in_range es n q); simpl; lia.
Qed.

(* C09: np.digitize on sorted edges selects the bin [e_i, e_i+1); filling adds the weight to exactly that bin. *)
From Coq Require Import List ZArith QArith Qcanon Bool Arith Lia.
From SX Require Import Model.Histogram Lib.HistBase.
Import ListNotations.
Local Open Scope nat_scope.

(* ---------------------------------------------------------------- specification vocabulary *)
Definition in_bin (es : list Qc) (i : nat) (v : Qc) : bool :=
  Qcleb (nth i es 0%Qc) v && Qcltb v (nth (S i) es 0%Qc).

(* the current (= last) histogram of a 2-D array, and the histograms before it *)
Definition cur (a : arr) : list cell := match a with A2 rows => last rows [] | A1 _ => [] end.
Definition prev (a : arr) : list (list cell) := match a with A2 rows => removelast rows | A1 _ => [] end.
Definition content (h : hist) (i : nat) : cell := nth i (cur (hH h)) None.
Definition rawc (h : hist) (i : nat) : cell := nth i (cur (hRAW h)) None.
Definition errc (h : hist) (i : nat) : cell := nth i (cur (hERR h)) None.

Definition bump (es : list Qc) (v : Qc) (w : cell) (i : nat) (c : cell) : cell :=
  if in_bin es i v then cadd c w else c.

(* what a fill must not touch *)
Record frame (h h' : hist) : Prop := {
  f_nbins : nbins h' = nbins h;
  f_edges : edges h' = edges h;
  f_nhist : nhist h' = nhist h;
  f_err : hERR h' = hERR h;
  f_scal : hSCAL h' = hSCAL h;
  f_sys : hSYS h' = hSYS h;
  f_prevH : prev (hH h') = prev (hH h);
  f_prevR : prev (hRAW h') = prev (hRAW h)
}.

Lemma frame_refl h : frame h h.
Proof. constructor; reflexivity. Qed.
Lemma frame_trans a b c : frame a b -> frame b c -> frame a c.
Proof. intros [] []; constructor; congruence. Qed.

(* ---------------------------------------------------------------- digitize *)
Lemma nondecreasing_cons a t :
  nondecreasing (a :: t) = true -> nondecreasing t = true /\ Forall (fun x => (a <= x)%Qc) t.
Proof.
  revert a. induction t as [|b t IH]; intros a H.
  - split; [reflexivity | constructor].
  - cbn [nondecreasing] in H. apply andb_true_iff in H. destruct H as [Hab Ht].
    split; [exact Ht|]. apply Qcleb_le in Hab.
    destruct (IH b Ht) as [_ F]. constructor; [exact Hab|].
    eapply Forall_impl; [|exact F]. intros x Hx. eapply Qcle_trans; eauto.
Qed.

Lemma count_le_cons v a t :
  count_le v (a :: t) = if Qcleb a v then S (count_le v t) else count_le v t.
Proof. unfold count_le. simpl. destruct (Qcleb a v); reflexivity. Qed.

Lemma count_le_none v es : Forall (fun x => (v < x)%Qc) es -> count_le v es = 0.
Proof.
  induction 1 as [|x t Hx _ IH]; [reflexivity|].
  rewrite count_le_cons. apply Qcleb_false in Hx. now rewrite Hx.
Qed.

Lemma Forall_nth_Qc (P : Qc -> Prop) l i : Forall P l -> i < length l -> P (nth i l 0%Qc).
Proof. intros F Hi. rewrite Forall_forall in F. apply F, nth_In, Hi. Qed.

Lemma count_le_spec es : forall v, nondecreasing es = true ->
  count_le v es <= length es
  /\ (forall i, i < count_le v es -> (nth i es 0 <= v)%Qc)
  /\ (forall i, count_le v es <= i -> i < length es -> (v < nth i es 0)%Qc).
Proof.
  induction es as [|a t IH]; intros v H.
  - unfold count_le; simpl. repeat split; intros; lia.
  - destruct (nondecreasing_cons _ _ H) as [Ht Fa].
    destruct (IH v Ht) as [I1 [I2 I3]].
    rewrite count_le_cons. destruct (Qcleb a v) eqn:E.
    + repeat split; simpl.
      * lia.
      * intros [|i] Hi; [now apply Qcleb_le | apply I2; lia].
      * intros [|i] Hi Hl; [lia | apply I3; lia].
    + apply Qcleb_false in E.
      assert (Z : count_le v t = 0).
      { apply count_le_none. eapply Forall_impl; [|exact Fa]. intros x Hx. eapply Qclt_le_trans; eauto. }
      rewrite Z. repeat split; simpl.
      * lia.
      * intros i Hi; lia.
      * intros [|i] _ Hl; [exact E|].
        eapply Qclt_le_trans; [exact E|]. apply Forall_nth_Qc; [exact Fa | lia].
Qed.

Lemma digitize_nondec v es : nondecreasing es = true -> digitize v es = Ok (count_le v es).
Proof. intros H. unfold digitize. now rewrite H. Qed.

Lemma in_bin_iff es v i : nondecreasing es = true -> S i < length es ->
  (in_bin es i v = true <-> count_le v es = S i).
Proof.
  intros H Hi. destruct (count_le_spec es v H) as [C1 [C2 C3]].
  unfold in_bin. rewrite andb_true_iff, Qcleb_le, Qcltb_lt. split.
  - intros [L R].
    destruct (Nat.lt_trichotomy (count_le v es) (S i)) as [Lt|[Eq|Gt]]; [|exact Eq|].
    + exfalso. assert (Q : (v < nth i es 0)%Qc) by (apply C3; lia).
      eapply Qclt_not_le; eauto.
    + exfalso. assert (Q : (nth (S i) es 0 <= v)%Qc) by (apply C2; lia).
      eapply Qclt_not_le; eauto.
  - intros E. split; [apply C2; lia | apply C3; lia].
Qed.

(* the documented contract of np.digitize (right=False), on sorted bins *)
Lemma digitize_spec es v i : nondecreasing es = true -> S i < length es ->
  (digitize v es = Ok (S i) <-> (nth i es 0 <= v)%Qc /\ (v < nth (S i) es 0)%Qc).
Proof.
  intros H Hi. rewrite digitize_nondec by assumption.
  rewrite <- Qcleb_le, <- Qcltb_lt, <- andb_true_iff. fold (in_bin es i v).
  rewrite in_bin_iff by assumption. split; [intros E; now injection E | intros ->; reflexivity].
Qed.

Lemma digitize_low es v : nondecreasing es = true -> 0 < length es -> (v < nth 0 es 0)%Qc -> digitize v es = Ok 0.
Proof.
  intros H L Hv. rewrite digitize_nondec by assumption. f_equal.
  destruct (count_le_spec es v H) as [_ [C2 _]].
  destruct (count_le v es) eqn:E; [reflexivity|].
  exfalso. eapply Qclt_not_le; [exact Hv|]. apply C2. lia.
Qed.

Lemma digitize_high es v n : nondecreasing es = true -> length es = S n -> (nth n es 0 <= v)%Qc ->
  digitize v es = Ok (S n).
Proof.
  intros H L Hv. rewrite digitize_nondec by assumption. f_equal.
  destruct (count_le_spec es v H) as [C1 [_ C3]].
  destruct (Nat.eq_dec (count_le v es) (S n)) as [E|NE]; [exact E|].
  exfalso. eapply Qclt_not_le; [|exact Hv]. apply C3; lia.
Qed.

(* ---------------------------------------------------------------- one value *)
Lemma cur_snoc pre row : cur (A2 (pre ++ [row])) = row.
Proof. simpl. apply last_snoc. Qed.
Lemma prev_snoc pre row : prev (A2 (pre ++ [row])) = pre.
Proof. simpl. apply removelast_last. Qed.

Lemma add_at_spec j w row : j < length row ->
  exists row', add_at j w row = Ok row' /\ length row' = length row
    /\ forall i, nth i row' None = if Nat.eqb i j then cadd (nth i row None) w else nth i row None.
Proof.
  intros Hj. unfold add_at. apply Nat.ltb_lt in Hj as Hb. rewrite Hb.
  eexists. repeat split.
  - apply upd_nth_length.
  - intros i. rewrite nth_upd_nth by exact Hj. reflexivity.
Qed.

Lemma fill_one_spec h v w : Shape h -> nondecreasing (edges h) = true ->
  exists h', fill_one h v w = Ok h' /\ Shape h' /\ frame h h'
    /\ forall i, i < nbins h ->
         content h' i = bump (edges h) v w i (content h i) /\ rawc h' i = bump (edges h) v w i (rawc h i).
Proof.
  intros Sh Nd. unfold fill_one. rewrite digitize_nondec by assumption. cbn [bind].
  set (k := count_le v (edges h)).
  destruct Sh as [Hn [He [SH [SR [SE [SS SY]]]]]].
  assert (Inb : forall i, i < nbins h -> (in_bin (edges h) i v = true <-> k = S i)).
  { intros i Hi. apply in_bin_iff; [assumption | lia]. }
  destruct ((k =? 0) || (nbins h <? k)) eqn:Out.
  - exists h. split; [reflexivity|]. split; [repeat split; assumption|]. split; [apply frame_refl|].
    intros i Hi. unfold bump.
    destruct (in_bin (edges h) i v) eqn:B; [|split; reflexivity].
    exfalso. apply Inb in B; [|exact Hi].
    apply orb_true_iff in Out. destruct Out as [O|O]; [apply Nat.eqb_eq in O | apply Nat.ltb_lt in O]; lia.
  - apply orb_false_iff in Out. destruct Out as [O1 O2].
    apply Nat.eqb_neq in O1. apply Nat.ltb_ge in O2.
    destruct (nhist h) as [|m] eqn:Nh; [lia|].
    destruct (Shape2_snoc _ _ _ SH) as [preH [rowH [EH [LpH [LrH FH]]]]].
    destruct (Shape2_snoc _ _ _ SR) as [preR [rowR [ER [LpR [LrR FR]]]]].
    destruct (add_at_spec (k - 1) w rowH) as [rowH' [AH [LH' NH']]]; [lia|].
    destruct (add_at_spec (k - 1) w rowR) as [rowR' [AR [LR' NR']]]; [lia|].
    rewrite EH, ER. unfold upd_last_row. rewrite !upd_last_snoc, AH, AR. cbn [bind].
    eexists. split; [reflexivity|].
    split.
    { unfold Shape; cbn. repeat split; try assumption; try lia;
      apply Shape2_of_snoc; congruence. }
    split.
    { constructor; cbn [nbins edges nhist hH hRAW hERR hSCAL hSYS]; try reflexivity; try (symmetry; exact Nh); rewrite ?EH, ?ER, !prev_snoc; reflexivity. }
    intros i Hi. unfold content, rawc, bump. cbn [hH hRAW]. rewrite EH, ER, !cur_snoc, NH', NR'.
    destruct (Nat.eqb_spec i (k - 1)) as [Ei|Ni]; destruct (in_bin (edges h) i v) eqn:B; try (split; reflexivity).
    + exfalso. assert (Q : in_bin (edges h) i v = true) by (apply Inb; [exact Hi | lia]). congruence.
    + exfalso. apply Inb in B; [lia | exact Hi].
Qed.

(* values outside [e_0, e_n) leave the state IDENTICAL *)
Lemma fill_one_outside h v w : Shape h -> nondecreasing (edges h) = true ->
  (v < nth 0 (edges h) 0)%Qc \/ (nth (nbins h) (edges h) 0 <= v)%Qc -> fill_one h v w = Ok h.
Proof.
  intros Sh Nd Hv. unfold fill_one. destruct Sh as [_ [He _]].
  destruct Hv as [Lo|Hi].
  - rewrite (digitize_low _ _ Nd) by (try lia; exact Lo). reflexivity.
  - rewrite (digitize_high _ _ (nbins h) Nd He Hi). cbn [bind].
    replace (nbins h <? S (nbins h)) with true by (symmetry; apply Nat.ltb_lt; lia).
    rewrite orb_true_r. reflexivity.
Qed.

(* ---------------------------------------------------------------- many values *)
(* the (value, weight) pairs a valid call adds: every value a number, an absent weight is 1 *)
Fixpoint qpairs (l : list (cell * option cell)) : option (list (Qc * Qc)) :=
  match l with
  | [] => Some []
  | (Some v, None) :: t => option_map (cons (v, 1%Qc)) (qpairs t)
  | (Some v, Some (Some w)) :: t => option_map (cons (v, w)) (qpairs t)
  | _ => None
  end.

(* weighted number of the values that lie in bin i *)
Definition wsum (es : list Qc) (i : nat) (l : list (Qc * Qc)) : Qc :=
  fold_right (fun p acc => ((if in_bin es i (fst p) then snd p else 0) + acc)%Qc) 0%Qc l.

Lemma cadd_assoc_some c a b : cadd (cadd c (Some a)) (Some b) = cadd c (Some (a + b)%Qc).
Proof. destruct c as [x|]; simpl; [f_equal; ring | reflexivity]. Qed.
Lemma cadd_zero c : cadd c (Some 0%Qc) = c.
Proof. destruct c as [x|]; simpl; [f_equal; ring | reflexivity]. Qed.

Lemma bump_wsum es v w i c s :
  cadd (bump es v (Some w) i c) (Some s) = cadd c (Some ((if in_bin es i v then w else 0) + s)%Qc).
Proof.
  unfold bump. destruct (in_bin es i v).
  - apply cadd_assoc_some.
  - destruct c as [x|]; simpl; [f_equal; ring | reflexivity].
Qed.

Lemma fill_elem_invalid h v w : qpairs [(v, w)] = None -> fill_elem h v w = Err ValueError.
Proof.
  unfold fill_elem. destruct v as [x|], w as [[wc|]|]; simpl; try reflexivity; discriminate.
Qed.

Lemma fill_list_spec : forall l h ps, Shape h -> nondecreasing (edges h) = true -> qpairs l = Some ps ->
  exists h', fill_list h l = Ok h' /\ Shape h' /\ frame h h'
    /\ forall i, i < nbins h ->
         content h' i = cadd (content h i) (Some (wsum (edges h) i ps))
         /\ rawc h' i = cadd (rawc h i) (Some (wsum (edges h) i ps)).
Proof.
  induction l as [|[v w] t IH]; intros h ps Sh Nd Q.
  - injection Q as <-. exists h. split; [reflexivity|]. split; [assumption|]. split; [apply frame_refl|].
    intros i _. simpl. now rewrite !cadd_zero.
  - assert (exists x wq pt, v = Some x /\ qpairs t = Some pt /\ ps = (x, wq) :: pt
                             /\ fill_elem h v w = fill_one h x (Some wq)) as [x [wq [pt [-> [Qt [-> Ef]]]]]].
    { simpl in Q. destruct v as [x|]; [|discriminate].
      destruct w as [[wc|]|]; try discriminate; destruct (qpairs t) as [pt|]; try discriminate;
      injection Q as <-; do 3 eexists; repeat split; reflexivity. }
    cbn [fill_list]. rewrite Ef.
    destruct (fill_one_spec h x (Some wq) Sh Nd) as [h1 [E1 [S1 [F1 C1]]]].
    rewrite E1. cbn [bind].
    assert (Nd1 : nondecreasing (edges h1) = true) by (rewrite (f_edges _ _ F1); exact Nd).
    destruct (IH h1 pt S1 Nd1 Qt) as [h' [E' [S' [F' C']]]].
    exists h'. split; [exact E'|]. split; [exact S'|]. split; [eapply frame_trans; eauto|].
    intros i Hi. rewrite (f_nbins _ _ F1) in C'. destruct (C' i Hi) as [A B]. destruct (C1 i Hi) as [A1 B1].
    rewrite A, B, A1, B1, (f_edges _ _ F1). cbn [wsum fold_right fst snd]. fold (wsum (edges h) i pt).
    split; apply bump_wsum.
Qed.

Lemma fill_list_invalid : forall l h, qpairs l = None -> forall h', fill_list h l <> Ok h'.
Proof.
  induction l as [|[v w] t IH]; intros h Q h' E; [discriminate|].
  cbn [fill_list] in E. inv_ok.
  destruct (qpairs [(v, w)]) eqn:Q1.
  - apply (IH a) with (h' := h'); [|exact E]. simpl in Q, Q1.
    destruct v as [x|]; [|discriminate]. destruct w as [[wc|]|]; try discriminate; destruct (qpairs t); try discriminate; reflexivity.
  - rewrite (fill_elem_invalid _ _ _ Q1) in E0. discriminate.
Qed.

(* ---------------------------------------------------------------- add_value *)
(* the list of (value, weight) arguments of a call that passes a scalar or a list, with or without weights *)
Definition call_pairs (v : vals) (w : wts) : option (list (cell * option cell)) :=
  match w, v with
  | WNone, VScalar c => Some [(c, None)]
  | WNone, VList l => Some (map (fun c => (c, None)) l)
  | WScalar wc, VScalar c => Some [(c, Some wc)]
  | WList wl, VList l => if Nat.eqb (length wl) (length l) then Some (map (fun p => (fst p, Some (snd p))) (combine l wl)) else None
  | _, _ => None
  end.

Lemma qpairs_no_nan_none l ps : qpairs (map (fun c => (c, None)) l) = Some ps -> existsb c_nan l = false.
Proof.
  revert ps. induction l as [|c t IH]; intros ps Q; [reflexivity|].
  simpl in Q. destruct c as [x|]; [|discriminate]. simpl.
  destruct (qpairs (map (fun c => (c, None)) t)) eqn:E; [|discriminate]. eauto.
Qed.

Lemma qpairs_no_nan_w : forall l wl ps, qpairs (map (fun p => (fst p, Some (snd p))) (combine l wl)) = Some ps ->
  length wl = length l -> existsb c_nan l = false.
Proof.
  induction l as [|c t IH]; intros wl ps Q L; [reflexivity|].
  destruct wl as [|wc wl]; [discriminate|]. simpl in Q, L.
  destruct c as [x|]; [|discriminate]. simpl.
  destruct wc as [wq|]; [|discriminate].
  destruct (qpairs _) eqn:E in Q; [|discriminate]. eapply IH; eauto.
Qed.

Lemma add_value_fill h v w l ps : call_pairs v w = Some l -> qpairs l = Some ps ->
  add_value h v w = fill_list h l.
Proof.
  intros Cp Q. unfold add_value, call_pairs in *.
  destruct w as [|wc|wl], v as [c|vl]; try discriminate.
  - injection Cp as <-. cbn [fill_list]. destruct (fill_elem h c None); reflexivity.
  - injection Cp as <-. now rewrite (qpairs_no_nan_none _ _ Q).
  - injection Cp as <-. cbn [fill_list]. destruct (fill_elem h c (Some wc)); reflexivity.
  - destruct (Nat.eqb (length wl) (length vl)) eqn:L; [|discriminate]. injection Cp as <-.
    simpl. apply Nat.eqb_eq in L. now rewrite (qpairs_no_nan_w _ _ _ Q L).
Qed.

(* NaN among the values: the call is rejected with ValueError whatever the weights are *)
Definition has_nan (v : vals) : bool := match v with VScalar c => c_nan c | VList l => existsb c_nan l end.

Lemma nan_rejected h v w : has_nan v = true -> add_value h v w = Err ValueError.
Proof.
  intros N. unfold add_value. destruct w as [|wc|wl], v as [c|vl]; simpl in N.
  - destruct c; [discriminate | reflexivity].
  - now rewrite N.
  - destruct c; [discriminate|]. simpl. destruct (c_nan wc); reflexivity.
  - reflexivity.
  - destruct c; [discriminate|]. destruct (negb _); reflexivity.
  - rewrite N. destruct (negb _); reflexivity.
Qed.

(* the statement about add_value itself: a valid call (scalar or list, with or without weights) *)
Lemma add_value_count h v w l ps : Shape h -> nondecreasing (edges h) = true ->
  call_pairs v w = Some l -> qpairs l = Some ps ->
  exists h', add_value h v w = Ok h' /\ Shape h' /\ frame h h'
    /\ forall i, i < nbins h ->
         content h' i = cadd (content h i) (Some (wsum (edges h) i ps))
         /\ rawc h' i = cadd (rawc h i) (Some (wsum (edges h) i ps)).
Proof.
  intros Sh Nd Cp Q. rewrite (add_value_fill _ _ _ _ _ Cp Q). now apply fill_list_spec.
Qed.

(* C08 - symmetries of the generated kinematic methods: y and eta are odd under pz -> -pz,
   every scalar is unchanged by an azimuthal rotation, L rotates as a vector, phi rotates. *)
From Coq Require Import Reals List Bool ZArith Lra Psatz.
From SX Require Import Lib.RealAux Lib.ExtReal Gen.GenKinematics Proofs.C08_Defs.
Import ListNotations.
Local Open Scope R_scope.

(* ---------------------------------------------------------------- reflection pz -> -pz *)
Definition flipz (p : prec) : prec :=
  fun a => match a with A_pz => eneg (p A_pz) | _ => p a end.

Lemma ratio_in_unit a b : Rabs b < Rabs a -> -1 < b / a < 1.
Proof.
  intros H. assert (Ha : a <> 0) by (intros ->; rewrite Rabs_R0 in H; pose proof (Rabs_pos b); lra).
  assert (Hq : Rabs (b / a) < 1).
  { unfold Rdiv. rewrite Rabs_mult, Rabs_inv.
    assert (0 < Rabs a) by (apply Rabs_pos_lt; exact Ha).
    apply (Rmult_lt_reg_r (Rabs a)); [assumption |].
    rewrite Rmult_assoc, Rinv_l by lra. lra. }
  apply Rabs_def2 in Hq. lra.
Qed.

Lemma rapidity_odd p E pz : p A_E = Fin E -> p A_pz = Fin pz ->
  1 / 1000000000 < Rabs E - Rabs pz ->
  rapidity (flipz p) = eneg (rapidity p).
Proof.
  intros HE Hz Hdom.
  rewrite (rapidity_def p E pz HE Hz Hdom).
  rewrite (rapidity_def (flipz p) E (- pz)).
  - cbn [eneg]. f_equal. replace (- pz / E) with (- (pz / E)).
    + apply atanh_opp. apply ratio_in_unit. lra.
    + unfold Rdiv. ring.
  - exact HE.
  - unfold flipz. rewrite Hz. reflexivity.
  - rewrite Rabs_Ropp. exact Hdom.
Qed.

Lemma S3_flip px py pz : S3 px py (- pz) = S3 px py pz.
Proof. unfold S3. ring. Qed.

Lemma pseudorapidity_odd p px py pz : p A_px = Fin px -> p A_py = Fin py -> p A_pz = Fin pz ->
  1 / 1000000000 < sqrt (S3 px py pz) - Rabs pz ->
  pseudorapidity (flipz p) = eneg (pseudorapidity p).
Proof.
  intros Hx Hy Hz Hdom.
  rewrite (pseudorapidity_def p px py pz Hx Hy Hz Hdom).
  rewrite (pseudorapidity_def (flipz p) px py (- pz)).
  - cbn [eneg]. f_equal. rewrite S3_flip. replace (- pz / sqrt (S3 px py pz)) with (- (pz / sqrt (S3 px py pz))).
    + apply atanh_opp. apply ratio_in_unit. rewrite (Rabs_pos_eq (sqrt _)) by apply sqrt_pos. lra.
    + unfold Rdiv. ring.
  - exact Hx.
  - exact Hy.
  - unfold flipz. rewrite Hz. reflexivity.
  - rewrite S3_flip, Rabs_Ropp. exact Hdom.
Qed.

(* ---------------------------------------------------------------- azimuthal rotation *)
(* momentum and position are rotated about the z axis by the angle with cosine c and sine s *)
Definition rot (c s : R) (p : prec) : prec :=
  fun a => match a with
           | A_px => esub (emul (Fin c) (p A_px)) (emul (Fin s) (p A_py))
           | A_py => eadd (emul (Fin s) (p A_px)) (emul (Fin c) (p A_py))
           | A_x => esub (emul (Fin c) (p A_x)) (emul (Fin s) (p A_y))
           | A_y => eadd (emul (Fin s) (p A_x)) (emul (Fin c) (p A_y))
           | _ => p a
           end.

Lemma rot_px c s p px py : p A_px = Fin px -> p A_py = Fin py -> rot c s p A_px = Fin (c * px - s * py).
Proof. intros Hx Hy. unfold rot. rewrite Hx, Hy. reflexivity. Qed.
Lemma rot_py c s p px py : p A_px = Fin px -> p A_py = Fin py -> rot c s p A_py = Fin (s * px + c * py).
Proof. intros Hx Hy. unfold rot. rewrite Hx, Hy. reflexivity. Qed.
Lemma rot_x c s p x y : p A_x = Fin x -> p A_y = Fin y -> rot c s p A_x = Fin (c * x - s * y).
Proof. intros Hx Hy. unfold rot. rewrite Hx, Hy. reflexivity. Qed.
Lemma rot_y c s p x y : p A_x = Fin x -> p A_y = Fin y -> rot c s p A_y = Fin (s * x + c * y).
Proof. intros Hx Hy. unfold rot. rewrite Hx, Hy. reflexivity. Qed.

Lemma rot_sq c s px py : c * c + s * s = 1 ->
  (c * px - s * py) * (c * px - s * py) + (s * px + c * py) * (s * px + c * py) = px * px + py * py.
Proof.
  intros H.
  replace ((c * px - s * py) * (c * px - s * py) + (s * px + c * py) * (s * px + c * py))
    with ((c * c + s * s) * (px * px + py * py)) by ring.
  rewrite H. ring.
Qed.

Section Rot.
  Variables (c s : R) (p : prec) (px py : R).
  Hypothesis Hcs : c * c + s * s = 1.
  Hypothesis Hpx : p A_px = Fin px.
  Hypothesis Hpy : p A_py = Fin py.

  Lemma pT_abs_rot : pT_abs (rot c s p) = pT_abs p.
  Proof.
    unfold pT_abs. rewrite (rot_px c s p px py Hpx Hpy), (rot_py c s p px py Hpx Hpy), Hpx, Hpy.
    cbn [is_nan orb esqr eadd]. rewrite (rot_sq c s px py Hcs). reflexivity.
  Qed.

  Lemma p_abs_rot : p_abs (rot c s p) = p_abs p.
  Proof.
    unfold p_abs. rewrite (rot_px c s p px py Hpx Hpy), (rot_py c s p px py Hpx Hpy), Hpx, Hpy.
    change (rot c s p A_pz) with (p A_pz).
    cbn [is_nan orb esqr eadd]. rewrite (rot_sq c s px py Hcs). reflexivity.
  Qed.

  Lemma theta_rot : theta (rot c s p) = theta p.
  Proof.
    unfold theta. rewrite p_abs_rot, (rot_px c s p px py Hpx Hpy), (rot_py c s p px py Hpx Hpy), Hpx, Hpy.
    reflexivity.
  Qed.

  Lemma pseudorapidity_rot : pseudorapidity (rot c s p) = pseudorapidity p.
  Proof.
    unfold pseudorapidity.
    rewrite p_abs_rot, (rot_px c s p px py Hpx Hpy), (rot_py c s p px py Hpx Hpy), Hpx, Hpy.
    reflexivity.
  Qed.

  Lemma mass_rot : mass_from_energy_momentum (rot c s p) = mass_from_energy_momentum p.
  Proof.
    unfold mass_from_energy_momentum.
    rewrite p_abs_rot, (rot_px c s p px py Hpx Hpy), (rot_py c s p px py Hpx Hpy), Hpx, Hpy.
    reflexivity.
  Qed.

  (* these four do not read px, py, x, y at all *)
  Lemma rapidity_rot : rapidity (rot c s p) = rapidity p.
  Proof. reflexivity. Qed.
  Lemma mT_rot : mT (rot c s p) = mT p.
  Proof. reflexivity. Qed.
  Lemma spacetime_rapidity_rot : spacetime_rapidity (rot c s p) = spacetime_rapidity p.
  Proof. reflexivity. Qed.
  Lemma proper_time_rot : proper_time (rot c s p) = proper_time p.
  Proof. reflexivity. Qed.

  Lemma scalars_rot :
    forall m, In m [M_rapidity; M_p_abs; M_pT_abs; M_theta; M_pseudorapidity; M_spacetime_rapidity;
                    M_proper_time; M_mass_from_energy_momentum; M_mT] ->
    run m (rot c s p) = run m p.
  Proof.
    intros m Hm. cbn [In] in Hm.
    repeat (destruct Hm as [<- | Hm]; [cbn [run]; first
      [ apply rapidity_rot | apply p_abs_rot | apply pT_abs_rot | apply theta_rot | apply pseudorapidity_rot
      | apply spacetime_rapidity_rot | apply proper_time_rot | apply mass_rot | apply mT_rot ] |]).
    contradiction.
  Qed.

  (* L = r x p : the z component is invariant, (Lx, Ly) turns with the same rotation *)
  Lemma angular_momentum_rot x y z pz :
    p A_x = Fin x -> p A_y = Fin y -> p A_z = Fin z -> p A_pz = Fin pz ->
    angular_momentum_2 (rot c s p) = angular_momentum_2 p /\
    angular_momentum_0 (rot c s p) = Fin (c * (y * pz - z * py) - s * (z * px - x * pz)) /\
    angular_momentum_1 (rot c s p) = Fin (s * (y * pz - z * py) + c * (z * px - x * pz)).
  Proof.
    intros Hx Hy Hz Hpz.
    destruct (angular_momentum_def p x y z px py pz Hx Hy Hz Hpx Hpy Hpz) as (_ & _ & E2).
    destruct (angular_momentum_def (rot c s p) (c * x - s * y) (s * x + c * y) z
                (c * px - s * py) (s * px + c * py) pz) as (F0 & F1 & F2);
      try (first [ apply (rot_px c s p px py Hpx Hpy) | apply (rot_py c s p px py Hpx Hpy)
                 | apply (rot_x c s p x y Hx Hy) | apply (rot_y c s p x y Hx Hy) | exact Hz | exact Hpz ]).
    rewrite F0, F1, F2, E2. repeat split; f_equal; try ring.
    replace ((c * x - s * y) * (s * px + c * py) - (s * x + c * y) * (c * px - s * py))
      with ((c * c + s * s) * (x * py - y * px)) by ring.
    rewrite Hcs. ring.
  Qed.

  (* phi is the one quantity that changes: it turns by the rotation angle *)
  Lemma phi_rot : (1 / 1000000) * (1 / 1000000) < px * px + py * py ->
    exists f f', phi p = Fin f /\ phi (rot c s p) = Fin f' /\
                 cos f' = c * cos f - s * sin f /\ sin f' = s * cos f + c * sin f.
  Proof.
    intros Hdom.
    destruct (phi_def p px py Hpx Hpy Hdom) as (E1 & _ & C1 & S1).
    assert (Hdom' : 1 / 1000000 * (1 / 1000000)
                    < (c * px - s * py) * (c * px - s * py) + (s * px + c * py) * (s * px + c * py))
      by (rewrite (rot_sq c s px py Hcs); exact Hdom).
    destruct (phi_def (rot c s p) _ _ (rot_px c s p px py Hpx Hpy) (rot_py c s p px py Hpx Hpy) Hdom')
      as (E2 & _ & C2 & S2).
    exists (atan2 py px), (atan2 (s * px + c * py) (c * px - s * py)).
    split; [exact E1 |]. split; [exact E2 |].
    rewrite C2, S2, C1, S1, (rot_sq c s px py Hcs).
    assert (Hs : 0 < sqrt (px * px + py * py)) by (apply sqrt_lt_R0; lra).
    split; field; lra.
  Qed.
End Rot.

(* C13: the generated numerator/denominator polynomials are the sums over ordered
   k-tuples of distinct particles.  Everything is proved over an arbitrary
   commutative ring (instantiated at Z, Qc and R in Properties/C13.v). *)
From Coq Require Import List ZArith Ring Ring_theory Arith Lia.
From SX Require Import Lib.KRing Gen.GenPtCorr.
Import ListNotations.

Section Num.
  Variable K : Type.
  Variables (k0 k1 : K) (kadd kmul ksub : K -> K -> K) (kopp : K -> K).
  Hypothesis Kth : ring_theory k0 k1 kadd kmul ksub kopp (@eq K).
  Add Ring Kring13 : Kth.

  Notation "0" := k0. Notation "1" := k1.
  Infix "+" := kadd. Infix "*" := kmul. Infix "-" := ksub.
  Notation DS := (dsum k0 k1 kadd kmul).
  Notation PS := (psum k0 k1 kadd kmul).
  Notation KN := (knat k0 k1 kadd).
  Notation pw := (kpow k1 kmul).
  Notation N0 := (gen_N_0 K). Notation D0 := (gen_D_0 K).
  Notation N1 := (gen_N_1 K k1 kmul ksub). Notation D1 := (gen_D_1 K k1 kmul ksub).
  Notation N2 := (gen_N_2 K k0 k1 kadd kmul ksub kopp). Notation D2 := (gen_D_2 K k0 k1 kadd kmul ksub kopp).
  Notation N3 := (gen_N_3 K k0 k1 kadd kmul ksub kopp). Notation D3 := (gen_D_3 K k0 k1 kadd kmul ksub kopp).
  Notation N4 := (gen_N_4 K k0 k1 kadd kmul ksub kopp). Notation D4 := (gen_D_4 K k0 k1 kadd kmul ksub kopp).
  Notation N5 := (gen_N_5 K k0 k1 kadd kmul ksub kopp). Notation D5 := (gen_D_5 K k0 k1 kadd kmul ksub kopp).
  Notation N6 := (gen_N_6 K k0 k1 kadd kmul ksub kopp). Notation D6 := (gen_D_6 K k0 k1 kadd kmul ksub kopp).
  Notation N7 := (gen_N_7 K k0 k1 kadd kmul ksub kopp). Notation D7 := (gen_D_7 K k0 k1 kadd kmul ksub kopp).

  (* power sums of a list, as the array the code calls Pk / Wk *)
  Definition pk (l : list K) : nat -> K := fun i => PS (S i) l.
  Definition shift (a : K) (P : nat -> K) : nat -> K := fun i => pw a (S i) + P i.

  Ltac step := intros; unfold shift; cbv [gen_N_0 gen_N_1 gen_N_2 gen_N_3 gen_N_4 gen_N_5 gen_N_6 gen_N_7
                                       gen_D_0 gen_D_1 gen_D_2 gen_D_3 gen_D_4 gen_D_5 gen_D_6 gen_D_7
                                       kpow kz kpos knat]; ring.

  (* Newton-Girard step identities: F_k(p + (a,a^2,..)) = F_k(p) + k a F_{k-1}(p) *)
  Lemma stepN0 a P W : N0 (shift a P) W = N0 P W + KN 1%nat * a * 1.                Proof. step. Qed.
  Lemma stepN1 a P W : N1 (shift a P) W = N1 P W + KN 2%nat * a * N0 P W.           Proof. step. Qed.
  Lemma stepN2 a P W : N2 (shift a P) W = N2 P W + KN 3%nat * a * N1 P W.           Proof. step. Qed.
  Lemma stepN3 a P W : N3 (shift a P) W = N3 P W + KN 4%nat * a * N2 P W.           Proof. step. Qed.
  Lemma stepN4 a P W : N4 (shift a P) W = N4 P W + KN 5%nat * a * N3 P W.           Proof. step. Qed.
  Lemma stepN5 a P W : N5 (shift a P) W = N5 P W + KN 6%nat * a * N4 P W.           Proof. step. Qed.
  Lemma stepN6 a P W : N6 (shift a P) W = N6 P W + KN 7%nat * a * N5 P W.           Proof. step. Qed.
  Lemma stepN7 a P W : N7 (shift a P) W = N7 P W + KN 8%nat * a * N6 P W.           Proof. step. Qed.
  Lemma stepD0 a P W : D0 P (shift a W) = D0 P W + KN 1%nat * a * 1.                Proof. step. Qed.
  Lemma stepD1 a P W : D1 P (shift a W) = D1 P W + KN 2%nat * a * D0 P W.           Proof. step. Qed.
  Lemma stepD2 a P W : D2 P (shift a W) = D2 P W + KN 3%nat * a * D1 P W.           Proof. step. Qed.
  Lemma stepD3 a P W : D3 P (shift a W) = D3 P W + KN 4%nat * a * D2 P W.           Proof. step. Qed.
  Lemma stepD4 a P W : D4 P (shift a W) = D4 P W + KN 5%nat * a * D3 P W.           Proof. step. Qed.
  Lemma stepD5 a P W : D5 P (shift a W) = D5 P W + KN 6%nat * a * D4 P W.           Proof. step. Qed.
  Lemma stepD6 a P W : D6 P (shift a W) = D6 P W + KN 7%nat * a * D5 P W.           Proof. step. Qed.
  Lemma stepD7 a P W : D7 P (shift a W) = D7 P W + KN 8%nat * a * D6 P W.           Proof. step. Qed.

  Lemma pk_cons a l : pk (a :: l) = shift a (pk l).
  Proof. reflexivity. Qed.

  Ltac base := cbv [pk psum map ksum gen_N_0 gen_N_1 gen_N_2 gen_N_3 gen_N_4 gen_N_5 gen_N_6 gen_N_7
                    gen_D_0 gen_D_1 gen_D_2 gen_D_3 gen_D_4 gen_D_5 gen_D_6 gen_D_7
                    kpow kz kpos knat dsum picks]; ring.

  (* numerators do not look at W, denominators do not look at P *)
  Lemma N0_ok l W : N0 (pk l) W = DS 1 l.
  Proof. induction l as [|a l IH]; [base|]. rewrite pk_cons, stepN0, IH, (dsum_cons _ _ _ _ _ _ _ Kth 0). cbn [dsum]. ring. Qed.
  Lemma N1_ok l W : N1 (pk l) W = DS 2 l.
  Proof. induction l as [|a l IH]; [base|]. rewrite pk_cons, stepN1, IH, N0_ok, (dsum_cons _ _ _ _ _ _ _ Kth 1). ring. Qed.
  Lemma N2_ok l W : N2 (pk l) W = DS 3 l.
  Proof. induction l as [|a l IH]; [base|]. rewrite pk_cons, stepN2, IH, N1_ok, (dsum_cons _ _ _ _ _ _ _ Kth 2). ring. Qed.
  Lemma N3_ok l W : N3 (pk l) W = DS 4 l.
  Proof. induction l as [|a l IH]; [base|]. rewrite pk_cons, stepN3, IH, N2_ok, (dsum_cons _ _ _ _ _ _ _ Kth 3). ring. Qed.
  Lemma N4_ok l W : N4 (pk l) W = DS 5 l.
  Proof. induction l as [|a l IH]; [base|]. rewrite pk_cons, stepN4, IH, N3_ok, (dsum_cons _ _ _ _ _ _ _ Kth 4). ring. Qed.
  Lemma N5_ok l W : N5 (pk l) W = DS 6 l.
  Proof. induction l as [|a l IH]; [base|]. rewrite pk_cons, stepN5, IH, N4_ok, (dsum_cons _ _ _ _ _ _ _ Kth 5). ring. Qed.
  Lemma N6_ok l W : N6 (pk l) W = DS 7 l.
  Proof. induction l as [|a l IH]; [base|]. rewrite pk_cons, stepN6, IH, N5_ok, (dsum_cons _ _ _ _ _ _ _ Kth 6). ring. Qed.
  Lemma N7_ok l W : N7 (pk l) W = DS 8 l.
  Proof. induction l as [|a l IH]; [base|]. rewrite pk_cons, stepN7, IH, N6_ok, (dsum_cons _ _ _ _ _ _ _ Kth 7). ring. Qed.

  Lemma D0_ok P l : D0 P (pk l) = DS 1 l.
  Proof. induction l as [|a l IH]; [base|]. rewrite pk_cons, stepD0, IH, (dsum_cons _ _ _ _ _ _ _ Kth 0). cbn [dsum]. ring. Qed.
  Lemma D1_ok P l : D1 P (pk l) = DS 2 l.
  Proof. induction l as [|a l IH]; [base|]. rewrite pk_cons, stepD1, IH, D0_ok, (dsum_cons _ _ _ _ _ _ _ Kth 1). ring. Qed.
  Lemma D2_ok P l : D2 P (pk l) = DS 3 l.
  Proof. induction l as [|a l IH]; [base|]. rewrite pk_cons, stepD2, IH, D1_ok, (dsum_cons _ _ _ _ _ _ _ Kth 2). ring. Qed.
  Lemma D3_ok P l : D3 P (pk l) = DS 4 l.
  Proof. induction l as [|a l IH]; [base|]. rewrite pk_cons, stepD3, IH, D2_ok, (dsum_cons _ _ _ _ _ _ _ Kth 3). ring. Qed.
  Lemma D4_ok P l : D4 P (pk l) = DS 5 l.
  Proof. induction l as [|a l IH]; [base|]. rewrite pk_cons, stepD4, IH, D3_ok, (dsum_cons _ _ _ _ _ _ _ Kth 4). ring. Qed.
  Lemma D5_ok P l : D5 P (pk l) = DS 6 l.
  Proof. induction l as [|a l IH]; [base|]. rewrite pk_cons, stepD5, IH, D4_ok, (dsum_cons _ _ _ _ _ _ _ Kth 5). ring. Qed.
  Lemma D6_ok P l : D6 P (pk l) = DS 7 l.
  Proof. induction l as [|a l IH]; [base|]. rewrite pk_cons, stepD6, IH, D5_ok, (dsum_cons _ _ _ _ _ _ _ Kth 6). ring. Qed.
  Lemma D7_ok P l : D7 P (pk l) = DS 8 l.
  Proof. induction l as [|a l IH]; [base|]. rewrite pk_cons, stepD7, IH, D6_ok, (dsum_cons _ _ _ _ _ _ _ Kth 7). ring. Qed.

  (* all admissible orders at once: order index c (0-based, as in the code) *)
  Theorem gen_N_ok c l W : (c < 8)%nat ->
    gen_N K k0 k1 kadd kmul ksub kopp c (pk l) W = Some (DS (S c) l).
  Proof.
    intros H. do 8 (destruct c as [|c]; [cbn [gen_N]; f_equal;
      first [apply N0_ok|apply N1_ok|apply N2_ok|apply N3_ok|apply N4_ok|apply N5_ok|apply N6_ok|apply N7_ok]|]). lia.
  Qed.
  Theorem gen_D_ok c P l : (c < 8)%nat ->
    gen_D K k0 k1 kadd kmul ksub kopp c P (pk l) = Some (DS (S c) l).
  Proof.
    intros H. do 8 (destruct c as [|c]; [cbn [gen_D]; f_equal;
      first [apply D0_ok|apply D1_ok|apply D2_ok|apply D3_ok|apply D4_ok|apply D5_ok|apply D6_ok|apply D7_ok]|]). lia.
  Qed.
End Num.

(* C07 (JETSCAPE): one particle line lost or duplicated ANYWHERE in a well-formed file - the direct statement,
   from the declared-count theorems of C07_Jetscape. *)
From Coq Require Import List String ZArith QArith Bool Arith Lia.
From SX Require Import Lib.Strs Gen.GenParticleMap Model.Oscar Model.OscarDoc Model.Jetscape Model.JetscapeDoc
  Proofs.C01_Oscar Proofs.C01_Jetscape Proofs.C02_Jetscape Proofs.C07_Jetscape Proofs.C07_OscarDamage.
Import ListNotations.
Local Open Scope string_scope.

Definition jset_rows (e : jevent) (rows : list line) : jevent := {| je_head := je_head e; je_rows := rows |}.
Definition jwith_events (d : jdoc) (evs : list jevent) : jdoc :=
  {| jd_h0 := jd_h0 d; jd_events := evs; jd_trailer := jd_trailer d |}.

Section P.
  Variable tok_float : string -> option Q.
  Variable tok_int : string -> option Q.
  Variable pdg_valid : Q -> bool.
  Variable pdg_charge : Q -> Q.
  Variable usqrt : Q -> Q.
  Variable defstr : string.

  Notation jwf_row := (jwf_row tok_float tok_int pdg_valid pdg_charge usqrt defstr).
  Notation jwf_events := (jwf_events tok_float tok_int pdg_valid pdg_charge usqrt defstr).
  Notation jl_events := (jl_events tok_float tok_int pdg_valid pdg_charge usqrt defstr).
  Notation JWF := (jwf tok_float tok_int pdg_valid pdg_charge usqrt defstr).
  Notation JLOAD := (jload tok_float tok_int pdg_valid pdg_charge usqrt None).
  Notation LEN := (fun e : jevent => List.length (je_rows e)).

  Lemma jwf_jl : forall evs i, jwf_events i evs -> jl_events i (map LEN evs) evs.
  Proof.
    induction evs as [|e t IH]; intros i H; [exact I|]. destruct H as (He & Ht).
    split; [exact He|apply IH, Ht].
  Qed.

  Lemma jl_set rows' : forall pre e post i,
    jwf_events i (pre ++ e :: post)%list -> Forall jwf_row rows' ->
    jl_events i (map LEN (pre ++ e :: post)%list) (pre ++ jset_rows e rows' :: post)%list.
  Proof.
    induction pre as [|a pre IH]; intros e post i H Hr.
    - destruct H as (He & Ht). cbn [app map]. split; [|apply jwf_jl, Ht].
      destruct He as (A & B & Cc & D & _). unfold jl_event, jset_rows. cbn [je_head je_rows]. repeat split; assumption.
    - destruct H as (Ha & Ht). cbn [app map]. split; [exact Ha|apply IH; assumption].
  Qed.

  Lemma jtotal_len : forall evs, jtotal (map LEN evs) = List.length (jrender_events evs).
  Proof.
    induction evs as [|e t IH]; [reflexivity|].
    change (jrender_events (e :: t)) with (jrender_event e ++ jrender_events t)%list. rewrite app_length, <- IH.
    unfold jtotal, jrender_event. cbn [map fold_right List.length]. lia.
  Qed.

  Lemma jlen_render_set pre e post rows' :
    (List.length (jrender_events (pre ++ jset_rows e rows' :: post)) + List.length (je_rows e)
     = List.length (jrender_events (pre ++ e :: post)) + List.length rows')%nat.
  Proof.
    rewrite !jrender_events_app.
    change (jrender_events (jset_rows e rows' :: post)) with (jrender_event (jset_rows e rows') ++ jrender_events post)%list.
    change (jrender_events (e :: post)) with (jrender_event e ++ jrender_events post)%list.
    rewrite !app_length. unfold jrender_event, jset_rows. cbn [List.length je_head je_rows]. lia.
  Qed.

  Lemma jwf_rows_of : forall pre e post i, jwf_events i (pre ++ e :: post)%list -> Forall jwf_row (je_rows e).
  Proof.
    induction pre as [|a pre IH]; intros e post i H.
    - destruct H as ((_ & _ & _ & _ & Hr) & _). exact Hr.
    - destruct H as (_ & Ht). exact (IH e post (S i) Ht).
  Qed.

  Lemma damaged_load d s1 s2 pre e post rows' :
    JWF d s1 s2 -> jd_events d = (pre ++ e :: post)%list -> Forall jwf_row rows' ->
    ((List.length rows' < List.length (je_rows e))%nat \/ List.length rows' = S (List.length (je_rows e))) ->
    JLOAD (jrender (jwith_events d (pre ++ jset_rows e rows' :: post)%list)) defstr SelAll = Err IndexError.
  Proof.
    intros (Hh0 & Hne & Hev & Htr & Htc & _) Hsplit Hr Hlen. rewrite Hsplit in *.
    unfold jrender, jwith_events. cbn [jd_h0 jd_events jd_trailer].
    pose proof (jl_set rows' pre e post 0 Hev Hr) as Hl.
    pose proof (jlen_render_set pre e post rows') as HL.
    pose proof (jtotal_len (pre ++ e :: post)%list) as HT.
    destruct (pre ++ jset_rows e rows' :: post)%list as [|e0 evs] eqn:E1; [destruct pre; discriminate|].
    destruct (map LEN (pre ++ e :: post)%list) as [|dc ds] eqn:E2; [destruct pre; discriminate|].
    change (jrender_events (e0 :: evs)) with (jrender_event e0 ++ jrender_events evs)%list in HL.
    rewrite app_length in HL. unfold jrender_event in HL. cbn [List.length] in HL.
    destruct Hlen as [Hlt|Heq].
    - apply (jet_lost_line tok_float tok_int pdg_valid pdg_charge usqrt defstr (jd_h0 d) e0 evs (jd_trailer d) dc ds Hh0 Hl Htr Htc). lia.
    - apply (jet_extra_line tok_float tok_int pdg_valid pdg_charge usqrt defstr (jd_h0 d) e0 evs (jd_trailer d) dc ds Hh0 Hl Htr Htc). lia.
  Qed.

  Theorem jet_delete_any_row d s1 s2 pre e post k :
    JWF d s1 s2 -> jd_events d = (pre ++ e :: post)%list -> (k < List.length (je_rows e))%nat ->
    JLOAD (jrender (jwith_events d (pre ++ jset_rows e (delete_row k (je_rows e)) :: post)%list)) defstr SelAll = Err IndexError.
  Proof.
    intros Hwf Hsplit Hk. apply (damaged_load d s1 s2 pre e post _ Hwf Hsplit).
    - apply Forall_delete_row. destruct Hwf as (_ & _ & Hev & _). rewrite Hsplit in Hev. exact (jwf_rows_of pre e post 0 Hev).
    - left. pose proof (delete_row_length k (je_rows e) Hk). lia.
  Qed.

  Theorem jet_duplicate_any_row d s1 s2 pre e post k :
    JWF d s1 s2 -> jd_events d = (pre ++ e :: post)%list -> (k < List.length (je_rows e))%nat ->
    JLOAD (jrender (jwith_events d (pre ++ jset_rows e (dup_row k (je_rows e)) :: post)%list)) defstr SelAll = Err IndexError.
  Proof.
    intros Hwf Hsplit Hk. apply (damaged_load d s1 s2 pre e post _ Hwf Hsplit).
    - apply Forall_dup_row. destruct Hwf as (_ & _ & Hev & _). rewrite Hsplit in Hev. exact (jwf_rows_of pre e post 0 Hev).
    - right. apply dup_row_length, Hk.
  Qed.
End P.

(* non-vacuity for the JETSCAPE selection theorems: a concrete four-event hadron document (event 2 empty, event 3 one
   neutral particle) meets [jwf]; loading events (1,3) with the charged-particle filter keeps the empty event 2, drops
   event 3 and - as the code does - relabels the event read after it (file label 4) as 3 *)
From Coq Require Import List String ZArith QArith Bool Arith.
From SX Require Import Lib.Strs Gen.GenParticleMap Model.Oscar Model.OscarDoc Model.Jetscape Model.JetscapeDoc.
Import ListNotations.
Local Open Scope string_scope.

Definition exj_tf := table [("13", Some (13#1)); ("3", Some (3#1)); ("-4", Some (-4#1)); ("12", Some (12#1));
                            ("1.5", Some (3#2)); ("0.125", Some (1#8)); ("1", Some (1#1)); ("0", Some 0)]%Q.
Definition exj_ti := table [("0", Some 0); ("1", Some (1#1)); ("2", Some (2#1)); ("3", Some (3#1)); ("4", Some (4#1));
                            ("27", Some (27#1)); ("211", Some (211#1)); ("22", Some (22#1))]%Q.
Definition exj_pv := pvtable [((211#1)%Q, true); ((22#1)%Q, true)].
Definition exj_pc := qtable [((211#1), (1#1)); ((22#1), 0)]%Q.
Definition exj_sqrt := qtable [(0, 0)]%Q.
Definition exj_pion : line := ["0"; "211"; "27"; "13"; "3"; "-4"; "12"].
Definition exj_photon : line := ["1"; "22"; "27"; "13"; "3"; "-4"; "12"].
Definition exj_head (lab n : string) : line := ["#"; "Event"; lab; "weight"; "1"; "EPangle"; "0"; "N_hadrons"; n].
Definition exj_doc : jdoc :=
  {| jd_h0 := ["#"; "JETSCAPE_FINAL_STATE"; "v2"; "|"; "N"; "pid"; "status"; "E"; "Px"; "Py"; "Pz"];
     jd_events := [ {| je_head := exj_head "1" "2"; je_rows := [exj_pion; exj_photon] |};
                    {| je_head := exj_head "2" "0"; je_rows := [] |};
                    {| je_head := exj_head "3" "1"; je_rows := [exj_photon] |};
                    {| je_head := exj_head "4" "1"; je_rows := [exj_pion] |} ];
     jd_trailer := ["#"; "sigmaGen"; "1.5"; "sigmaErr"; "0.125"] |}.
Definition exj_charged (ps : list particle) : list particle :=
  filter (fun p => match get_slot 12 p with Some c => negb (Qeq_bool c 0) | None => false end) ps.

Lemma exj_wf : jwf exj_tf exj_ti exj_pv exj_pc exj_sqrt "N_hadrons" exj_doc (3#2) (1#8).
Proof.
  unfold jwf. refine (conj eq_refl (conj _ (conj _ (conj eq_refl (conj eq_refl eq_refl))))).
  - discriminate.
  - cbn [jwf_events exj_doc jd_events]. repeat split; try (vm_compute; reflexivity).
    + exists "1", "2". repeat split; vm_compute; reflexivity.
    + constructor; [|constructor; [|constructor]]; (repeat split; try (vm_compute; reflexivity)); eexists; vm_compute; reflexivity.
    + exists "2", "0". repeat split; vm_compute; reflexivity.
    + constructor.
    + exists "3", "1". repeat split; vm_compute; reflexivity.
    + constructor; [|constructor]. (repeat split; try (vm_compute; reflexivity)); eexists; vm_compute; reflexivity.
    + exists "4", "1". repeat split; vm_compute; reflexivity.
    + constructor; [|constructor]. (repeat split; try (vm_compute; reflexivity)); eexists; vm_compute; reflexivity.
Qed.

Definition exj_summary (r : result jloaded) :=
  match r with
  | Ok ld => Some (map (@List.length particle) (j_events ld), j_nevents ld, j_counts ld, j_counts_2d ld, j_sigma ld)
  | Err _ => None
  end.

Lemma exj_loads :
  exj_summary (jload exj_tf exj_ti exj_pv exj_pc exj_sqrt None (jrender exj_doc) "N_hadrons" (SelRange 1 3))
  = Some ([0; 1; 1]%nat, 3%Z, [(2, 0); (3, 1); (4, 1)]%Z, true, ((3#2)%Q, (1#8)%Q)) /\
  exj_summary (jload exj_tf exj_ti exj_pv exj_pc exj_sqrt (Some exj_charged) (jrender exj_doc) "N_hadrons" (SelRange 1 3))
  = Some ([0; 1]%nat, 2%Z, [(2, 0); (3, 1)]%Z, true, ((3#2)%Q, (1#8)%Q)) /\
  exj_summary (jload exj_tf exj_ti exj_pv exj_pc exj_sqrt (Some exj_charged) (jrender exj_doc) "N_hadrons" (SelOne 2))
  = Some ([0]%nat, 0%Z, [], true, ((3#2)%Q, (1#8)%Q)) /\
  jload exj_tf exj_ti exj_pv exj_pc exj_sqrt None (jrender exj_doc) "N_hadrons" (SelOne 4) = Err IndexError.
Proof. vm_compute. repeat split. Qed.

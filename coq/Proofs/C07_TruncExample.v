(* C07: non-vacuity of the truncation theorems and the constructor-level corollary. *)
From Coq Require Import List String Ascii ZArith QArith Bool Arith Lia.
From SX Require Import Lib.Strs Lib.StrLemmas Lib.DecStr Gen.GenParticleMap Model.Oscar Model.OscarDoc Model.Jetscape
  Model.JetscapeDoc Model.C07Aux Proofs.C01_Shapes Proofs.C01_Example Proofs.C02_JetscapeExample
  Proofs.C07_OscarTrunc Proofs.C07_JetscapeTrunc.
Import ListNotations.
Local Open Scope string_scope.

(* ------------------------------------------------------------------ Oscar.__init__ = load + impact_parameter() *)
Theorem oscar_trunc_ctor tf ti pv d fmt attrs n c :
  int_oracle_ok ti -> wf tf ti pv d fmt attrs -> shape d -> (n <= List.length (render d))%nat ->
  valid_partial (nth n (render d) []) c ->
  match ctor_cut tf ti pv (cut_lines (render d) n c) c with
  | Err _ => True
  | Ok (r, imps) =>
    exists m, (1 <= m <= List.length (d_events d))%nat /\
              same_data r (expected tf ti pv (truncd m d) fmt attrs) /\
              oscar_cut_position d n c m /\ List.length imps = m
  end.
Proof.
  intros Hint Hwf Hsh Hn Hv. pose proof (oscar_trunc tf ti pv Hint d fmt attrs n c Hwf Hsh Hn Hv) as H.
  unfold oscar_trunc_ok in H. unfold ctor_cut.
  destruct (load_cut tf ti pv (cut_lines (render d) n c) c) as [r|]; cbn [bind]; [|exact I].
  destruct (impact_parameters tf r) as [imps|] eqn:Ei; cbn [bind]; [|exact I].
  destruct H as (m & Hm & Hsame & Hpos & _). exists m. split; [exact Hm|]. split; [exact Hsame|]. split; [exact Hpos|].
  (* one impact parameter per count row *)
  unfold impact_parameters in Ei. destruct (mapr (impact_of tf) (l_footers r)) as [fi|]; cbn [bind] in Ei; [|discriminate].
  assert (Hlen : forall (f : Z * Z -> result Q) l out, mapr f l = Ok out -> List.length out = List.length l).
  { intros f l. induction l as [|x l IH]; intros out Ho; cbn in Ho; [injection Ho as <-; reflexivity|].
    destruct (f x); cbn in Ho; [|discriminate]. destruct (mapr f l) eqn:E; cbn in Ho; [|discriminate].
    injection Ho as <-. cbn. f_equal. apply IH. reflexivity. }
  rewrite (Hlen _ _ _ Ei). destruct Hsame as (_ & _ & -> & _). unfold expected, truncd. cbn [l_counts d_events].
  rewrite (Proofs.C01_Oscar.counts_len). apply firstn_length_le. lia.
Qed.

(* ------------------------------------------------------------------ a decimal int() and the example documents *)
Definition dec_int (s : string) : option Q :=
  if digits s && negb (s =? "") then Some (inject_Z (Z.of_nat (dval s))) else None.

Lemma dec_int_ok : int_oracle_ok dec_int.
Proof.
  split; [reflexivity|]. intros s Hd Hne. unfold dec_int. rewrite Hd.
  destruct s; [congruence|reflexivity].
Qed.

Lemma example_wf7 : wf ex_tf dec_int ex_pv ex_doc "Oscar2013" [].
Proof.
  unfold wf. refine (conj eq_refl (conj (or_introl eq_refl) (conj eq_refl (conj eq_refl (conj eq_refl (conj _ (conj _ _))))))).
  - discriminate.
  - cbn [wf_events ex_doc d_events]. repeat split; try (vm_compute; reflexivity).
    + exists "0", "1". repeat split; vm_compute; reflexivity.
    + constructor; [|constructor]. repeat split; try (vm_compute; reflexivity).
      eexists. vm_compute. reflexivity.
    + eexists. vm_compute. reflexivity.
    + exists "1", "0". repeat split; vm_compute; reflexivity.
    + constructor.
    + eexists. vm_compute. reflexivity.
  - unfold wf_last. cbn. repeat split; try (vm_compute; reflexivity).
    + apply le_S, le_S, le_S, le_S, le_S, le_S, le_S, le_S, le_S, le_n.
    + exists "1". split; vm_compute; reflexivity.
Qed.

Lemma example_shape : shape ex_doc.
Proof.
  unfold shape. repeat split; try (vm_compute; reflexivity).
  - exists "0", "1". repeat split; vm_compute; reflexivity.
  - eexists "0", _. repeat split; vm_compute; reflexivity.
  - exists "1", "0". repeat split; vm_compute; reflexivity.
  - eexists "1", _. repeat split; vm_compute; reflexivity.
Qed.

Definition summary (r : result loaded) :=
  match r with
  | Ok ld => Some (map (@List.length particle) (l_events ld), l_nevents ld, l_counts ld, List.length (l_footers ld))
  | Err e => None
  end.
Definition errof {A} (r : result A) := match r with Ok _ => None | Err e => Some e end.

(* lines of the example file: 0-2 header, 3 '# event 0 out 1', 4 particle, 5 '# event 0 end ...',
   6 '# event 1 out 0', 7 '# event 1 end 0 impact   0.000 scattering_projectile_target no' *)
Definition ex_cut n c := load_cut ex_tf dec_int ex_pv (cut_lines (render ex_doc) n c) c.

Lemma example_cuts :
  (* hypotheses of the theorem hold *)
  int_oracle_ok dec_int /\ wf ex_tf dec_int ex_pv ex_doc "Oscar2013" [] /\ shape ex_doc /\
  (* boundary after event 1, boundary after event 2 *)
  summary (ex_cut 6 None) = Some ([1%nat], 1%Z, [(0, 1)%Z], 1%nat) /\
  summary (ex_cut 8 None) = Some ([1%nat; 0%nat], 2%Z, [(0, 1); (1, 0)]%Z, 2%nat) /\
  (* '# event 1 end' and '# event 1 end 0 imp' (no newline) still load both complete events *)
  summary (ex_cut 7 (Some (3%nat, "end"))) = Some ([1%nat; 0%nat], 2%Z, [(0, 1); (1, 0)]%Z, 1%nat) /\
  summary (ex_cut 7 (Some (5%nat, "imp"))) = Some ([1%nat; 0%nat], 2%Z, [(0, 1); (1, 0)]%Z, 2%nat) /\
  (* ... but the constructor then fails on the impact parameter of the cut footer *)
  errof (ctor_cut ex_tf dec_int ex_pv (cut_lines (render ex_doc) 7 (Some (5%nat, "imp"))) (Some (5%nat, "imp"))) = Some ValueError /\
  errof (ctor_cut ex_tf dec_int ex_pv (cut_lines (render ex_doc) 7 (Some (3%nat, "end"))) (Some (3%nat, "end"))) = Some IndexError /\
  (* '# event 1 end 0' loads in the constructor too (the label is then read as the impact parameter) *)
  (exists r, ctor_cut ex_tf dec_int ex_pv (cut_lines (render ex_doc) 7 (Some (4%nat, "0"))) (Some (4%nat, "0")) = Ok r) /\
  (* '# event 1 en', '# event 1', '# event 1 out' (header of event 2), a cut particle line, a cut format line *)
  errof (ex_cut 7 (Some (3%nat, "en"))) = Some ValueError /\
  errof (ex_cut 6 (Some (2%nat, "1"))) = Some IndexError /\
  errof (ex_cut 6 (Some (3%nat, "out"))) = Some IndexError /\
  errof (ex_cut 6 (Some (4%nat, "0"))) = Some IndexError /\
  errof (ex_cut 4 (Some (3%nat, "0."))) = Some TypeError /\
  errof (ex_cut 1 (Some (1%nat, "Uni"))) = Some TypeError.
Proof.
  split; [exact dec_int_ok|]. split; [exact example_wf7|]. split; [exact example_shape|].
  vm_compute. repeat split. eexists. reflexivity.
Qed.

(* twelve empty events: a cut inside the two-digit label of '# event 10 out 0' / '# event 11 out 0' leaves the
   numeric token '1'; the loader then expects 2 events, has read 10 (11) and raises *)
Definition ev_empty (lab : string) : event :=
  {| e_head := ["#"; "event"; lab; "out"; "0"]; e_rows := []; e_foot := smash_footer lab "0.000" "no" |}.
Definition ex_doc12 : doc :=
  {| d_h1 := d_h1 ex_doc; d_h2 := d_h2 ex_doc; d_h3 := d_h3 ex_doc;
     d_events := map ev_empty ["0"; "1"; "2"; "3"; "4"; "5"; "6"; "7"; "8"; "9"; "10"; "11"] |}.

Lemma example_label_prefix :
  errof (load_cut ex_tf dec_int ex_pv (cut_lines (render ex_doc12) 23 (Some (2%nat, "1"))) (Some (2%nat, "1"))) = Some IndexError /\
  errof (load_cut ex_tf dec_int ex_pv (cut_lines (render ex_doc12) 25 (Some (2%nat, "1"))) (Some (2%nat, "1"))) = Some IndexError /\
  summary (load_cut ex_tf dec_int ex_pv (cut_lines (render ex_doc12) 23 None) None)
  = Some (repeat 0%nat 10, 10%Z, map (fun i => (Z.of_nat i, 0%Z)) (seq 0 10), 10%nat).
Proof. vm_compute. repeat split. Qed.

(* ------------------------------------------------------------------ JETSCAPE *)
Lemma exj_shape : jshape exj_doc.
Proof.
  unfold jshape. split; [eexists; reflexivity|]. split; [vm_compute; reflexivity|].
  repeat constructor; vm_compute; reflexivity.
Qed.

Definition jsummary (r : result jloaded) :=
  match r with
  | Ok ld => Some (map (@List.length particle) (j_events ld), j_nevents ld, j_counts ld, j_sigma ld)
  | Err _ => None
  end.
Definition exj_cut n c := jload exj_tf exj_ti exj_pv exj_pc exj_sqrt None (cut_lines (jrender exj_doc) n c) "N_hadrons" SelAll.

(* lines: 0 header, 1 event 1, 2-3 particles, 4 event 2, 5 event 3, 6 particle, 7 event 4, 8 particle, 9 trailer *)
Lemma exj_cuts :
  jwf exj_tf exj_ti exj_pv exj_pc exj_sqrt "N_hadrons" exj_doc (3#2) (1#8) /\ jshape exj_doc /\
  jsummary (exj_cut 10 None) = Some ([2; 0; 1; 1]%nat, 4%Z, [(1, 2); (2, 0); (3, 1); (4, 1)]%Z, ((3#2)%Q, (1#8)%Q)) /\
  (* '# sigmaGen 1.5 sigmaErr 0.125' cut to '... sigmaErr 0' : all events, another sigma error *)
  jsummary (exj_cut 9 (Some (4%nat, "0"))) = Some ([2; 0; 1; 1]%nat, 4%Z, [(1, 2); (2, 0); (3, 1); (4, 1)]%Z, ((3#2)%Q, 0%Q)) /\
  (* cut after the first number, inside the word sigmaGen, at the event boundary before the trailer, inside a particle *)
  errof (exj_cut 9 (Some (3%nat, "sigmaE"))) = Some IndexError /\
  errof (exj_cut 9 (Some (1%nat, "sigmaG"))) = Some ValueError /\
  errof (exj_cut 9 None) = Some ValueError /\
  errof (exj_cut 8 (Some (2%nat, "2"))) = Some ValueError.
Proof.
  split; [exact exj_wf|]. split; [exact exj_shape|]. vm_compute. repeat split.
Qed.

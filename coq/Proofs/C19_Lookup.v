(* C19: get_centrality_class on a non-increasing list of minima is "the first class whose minimum is <= x,
   else the last class"; hence total and antitone. *)
From Coq Require Import List ZArith QArith Bool Sorted Permutation Lia.
From SX Require Import Lib.Py Gen.GenCentrality Model.Centrality Proofs.C19_Sort.
Import ListNotations.

Section Lookup.
  Variable T : Type.
  Variable leb : T -> T -> bool.
  Hypothesis leb_total : forall a b, leb a b = true \/ leb b a = true.
  Hypothesis leb_trans : forall a b c, leb a b = true -> leb b c = true -> leb a c = true.

  Notation ge_ext := (ge_ext T leb).
  Notation lt_ext := (lt_ext T leb).

  (* m1 >= m2 on minima that may be +inf *)
  Definition ext_ge (m1 m2 : ext T) : Prop :=
    match m1, m2 with
    | Inf, _ => True
    | Val a, Val b => leb b a = true
    | Val _, Inf => False
    end.
  Definition mins_sorted (l : list (ext T)) : Prop := StronglySorted ext_ge l.

  Lemma ge_ext_down x m1 m2 : ext_ge m1 m2 -> ge_ext x m1 = true -> ge_ext x m2 = true.
  Proof.
    destruct m1 as [a|], m2 as [b|]; cbn; intros H G; try discriminate; try contradiction.
    eapply leb_trans; eassumption.
  Qed.

  Lemma ge_ext_mono x y m : leb x y = true -> ge_ext x m = true -> ge_ext y m = true.
  Proof. destruct m as [a|]; cbn; intros H G; [eapply leb_trans; eassumption | discriminate]. Qed.

  (* specification: index of the first minimum that x reaches, capped at the last class *)
  Fixpoint firstge (x : T) (l : list (ext T)) : nat :=
    match l with
    | [] => 0
    | m :: t => match t with [] => 0 | _ :: _ => if ge_ext x m then 0 else S (firstge x t) end
    end.

  (* number of leading minima that x does not reach *)
  Fixpoint lead (x : T) (l : list (ext T)) : nat :=
    match l with
    | [] => 0
    | m :: t => if ge_ext x m then 0 else S (lead x t)
    end.

  Lemma firstge_lead x l : firstge x l = Nat.min (lead x l) (length l - 1).
  Proof.
    induction l as [|m t IH]; [reflexivity|].
    destruct t as [|m' t']; [cbn; destruct (ge_ext x m); reflexivity|].
    change (firstge x (m :: m' :: t')) with (if ge_ext x m then 0 else S (firstge x (m' :: t')))%nat.
    change (lead x (m :: m' :: t')) with (if ge_ext x m then 0 else S (lead x (m' :: t')))%nat.
    destruct (ge_ext x m); [reflexivity|]. rewrite IH. cbn [length]. lia.
  Qed.

  Lemma firstge_lt x l : l <> [] -> (firstge x l < length l)%nat.
  Proof. intros H. rewrite firstge_lead. destruct l; [congruence | cbn [length]; lia]. Qed.

  Lemma lead_lt x l : (exists m, In m l /\ ge_ext x m = true) -> (lead x l < length l)%nat.
  Proof.
    induction l as [|a t IH]; intros (m & Hin & G); [destruct Hin|].
    cbn. destruct (ge_ext x a) eqn:E; [lia|].
    destruct Hin as [->|Hin]; [congruence|]. specialize (IH (ex_intro _ m (conj Hin G))). lia.
  Qed.

  Lemma lead_all x l : (forall m, In m l -> ge_ext x m = false) -> lead x l = length l.
  Proof.
    induction l as [|a t IH]; intros H; [reflexivity|]. cbn.
    rewrite (H a (or_introl eq_refl)). f_equal. apply IH. intros m Hm. apply H. right. exact Hm.
  Qed.

  Lemma lead_app x l1 l2 : (lead x l1 < length l1)%nat -> lead x (l1 ++ l2) = lead x l1.
  Proof.
    induction l1 as [|a t IH]; cbn; [lia|]. destruct (ge_ext x a); [reflexivity|].
    intros H. f_equal. apply IH. lia.
  Qed.

  Lemma lead_app_all x l1 l2 : (forall m, In m l1 -> ge_ext x m = false) -> lead x (l1 ++ l2) = (length l1 + lead x l2)%nat.
  Proof.
    induction l1 as [|a t IH]; intros H; [reflexivity|]. cbn.
    rewrite (H a (or_introl eq_refl)). f_equal. apply IH. intros m Hm. apply H. right. exact Hm.
  Qed.

  Lemma scan_lead x : forall l prev i, lt_ext x prev = true -> (lead x l < length l)%nat ->
    scan T leb x prev l i = (i + Z.of_nat (lead x l))%Z.
  Proof.
    induction l as [|m t IH]; intros prev i Hp Hl; cbn in *; [lia|].
    destruct (ge_ext x m) eqn:E.
    - rewrite Hp. cbn. lia.
    - cbn. rewrite IH; [lia | unfold Centrality.lt_ext; rewrite E; reflexivity | lia].
  Qed.

  Lemma nth_error_firstn_In {A} (l : list A) : forall i n a, nth_error l i = Some a -> (i < n)%nat -> In a (firstn n l).
  Proof.
    induction l as [|y t IH]; intros i n a H Hi; [destruct i; discriminate|].
    destruct n; [lia|]. destruct i; cbn in *; [injection H as ->; left; reflexivity|].
    right. eapply IH; [exact H | lia].
  Qed.

  Lemma sorted_all_ge (l : list (ext T)) : mins_sorted l -> forall i j a b, (i <= j)%nat ->
    nth_error l i = Some a -> nth_error l j = Some b -> a = b \/ ext_ge a b.
  Proof.
    induction 1 as [|y t Ht IH Hall]; intros i j a b Hij Ha Hb; [destruct i; discriminate|].
    destruct i, j; cbn in Ha, Hb.
    - left. congruence.
    - right. injection Ha as <-. rewrite Forall_forall in Hall. apply Hall. eapply nth_error_In, Hb.
    - lia.
    - eapply IH; [|exact Ha|exact Hb]. lia.
  Qed.

  Lemma removelast_len {A} (l : list A) : length (removelast l) = (length l - 1)%nat.
  Proof.
    induction l as [|a t IH]; [reflexivity|]. destruct t as [|b t']; [reflexivity|].
    change (removelast (a :: b :: t')) with (a :: removelast (b :: t')). cbn [length] in *. lia.
  Qed.

  Lemma pyget_0 {A} (a : A) l : pyget (a :: l) 0 = Ok a.
  Proof. reflexivity. Qed.

  Lemma pyget_nat {A} (l : list A) (i : nat) a : nth_error l i = Some a -> pyget l (Z.of_nat i) = Ok a.
  Proof.
    intros H. unfold pyget.
    destruct (Z.of_nat i <? 0)%Z eqn:E; [apply Z.ltb_lt in E; lia|]. rewrite E, Nat2Z.id, H. reflexivity.
  Qed.

  (* the code's three-way lookup computes firstge whenever the minima are non-increasing *)
  Theorem lookup_spec mins x : mins <> [] -> mins_sorted mins ->
    lookup T leb mins x = Ok (Z.of_nat (firstge x mins)).
  Proof.
    intros Hne Hs. destruct mins as [|m0 t]; [congruence|]. unfold lookup.
    rewrite pyget_0. cbn [rbind].
    destruct (ge_ext x m0) eqn:E0.
    { destruct t; cbn; [reflexivity|]. rewrite E0. reflexivity. }
    destruct t as [|m1 t'].
    { (* one class: Min[len-2] = Min[-1] = Min[0] *)
      cbn. unfold Centrality.lt_ext. rewrite E0. reflexivity. }
    set (t := m1 :: t') in *.
    assert (Hlen : (length (m0 :: t) = S (S (length t')))%nat) by reflexivity.
    rewrite Hlen.
    replace (Z.of_nat (S (S (length t'))) - 2)%Z with (Z.of_nat (length t')) by lia.
    (* the element at index len-2 *)
    destruct (nth_error (m0 :: t) (length t')) as [mk|] eqn:Ek.
    2:{ apply nth_error_None in Ek. rewrite Hlen in Ek. lia. }
    rewrite (pyget_nat _ _ _ Ek). cbn [rbind]. rewrite Nat2Z.id.
    unfold Centrality.lt_ext at 1.
    destruct (ge_ext x mk) eqn:Ek'; cbn [negb].
    - (* scan over the intermediate classes *)
      assert (Hin : In mk (firstn (length t') (tl (m0 :: t)))).
      { destruct (length t') as [|p] eqn:Ep.
        - cbn in Ek. injection Ek as <-. congruence.
        - cbn [tl]. cbn in Ek. eapply nth_error_firstn_In; [exact Ek | lia]. }
      cbn [tl] in *.
      assert (Hl : (lead x (firstn (length t') t) < length (firstn (length t') t))%nat)
        by (apply lead_lt; exists mk; split; assumption).
      rewrite scan_lead; [| unfold Centrality.lt_ext; rewrite E0; reflexivity | exact Hl].
      f_equal.
      change (firstge x (m0 :: t)) with (if ge_ext x m0 then 0 else S (firstge x t))%nat. rewrite E0.
      rewrite firstge_lead.
      rewrite <- (firstn_skipn (length t') t) at 2 3. rewrite lead_app by exact Hl.
      rewrite firstn_length in Hl. rewrite app_length, firstn_length, skipn_length.
      subst t. cbn [length] in *. lia.
    - (* x is below the minimum of the last-but-one class: most peripheral class *)
      f_equal.
      change (firstge x (m0 :: t)) with (if ge_ext x m0 then 0 else S (firstge x t))%nat. rewrite E0.
      rewrite firstge_lead.
      assert (Ht : t = removelast t ++ [last t m0]) by (apply app_removelast_last; subst t; discriminate).
      assert (Hall : forall m, In m (removelast t) -> ge_ext x m = false).
      { intros m Hm. destruct (ge_ext x m) eqn:Em; [|reflexivity]. exfalso.
        apply In_nth_error in Hm. destruct Hm as (j & Hj).
        assert (Hjl : (j < length (removelast t))%nat) by (apply nth_error_Some; congruence).
        assert (Hrl : length (removelast t) = length t') by (subst t; rewrite removelast_len; cbn [length]; lia).
        assert (Hj' : nth_error (m0 :: t) (S j) = Some m).
        { cbn [nth_error]. rewrite Ht. rewrite nth_error_app1 by exact Hjl. exact Hj. }
        destruct (sorted_all_ge _ Hs (S j) (length t') m mk ltac:(lia) Hj' Ek) as [->|G]; [congruence|].
        rewrite (ge_ext_down _ _ _ G Em) in Ek'. discriminate. }
      rewrite Ht at 1. rewrite lead_app_all by exact Hall.
      rewrite removelast_len. subst t. cbn [length]. lia.
  Qed.

  Lemma firstge_le x : forall l i m, nth_error l i = Some m -> ge_ext x m = true -> (firstge x l <= i)%nat.
  Proof.
    induction l as [|a t IH]; intros i m H G; [destruct i; discriminate|].
    destruct t as [|a' t']; [cbn; lia|].
    change (firstge x (a :: a' :: t')) with (if ge_ext x a then 0 else S (firstge x (a' :: t')))%nat.
    destruct (ge_ext x a) eqn:E; [lia|].
    destruct i as [|i]; cbn in H; [injection H as ->; congruence|].
    specialize (IH i m H G). lia.
  Qed.

  Lemma firstge_hit x : forall l, (firstge x l < length l - 1)%nat ->
    exists m, nth_error l (firstge x l) = Some m /\ ge_ext x m = true.
  Proof.
    induction l as [|a t IH]; intros H; [cbn in H; lia|].
    destruct t as [|a' t']; [cbn in H; lia|].
    change (firstge x (a :: a' :: t')) with (if ge_ext x a then 0 else S (firstge x (a' :: t')))%nat in *.
    destruct (ge_ext x a) eqn:E.
    - exists a. split; [reflexivity | exact E].
    - cbn [length] in H. destruct IH as (m & Hm & G); [cbn [length]; lia|]. exists m. split; [exact Hm | exact G].
  Qed.

  (* larger multiplicity, never a more peripheral class *)
  Lemma firstge_antitone x y l : leb x y = true -> (firstge y l <= firstge x l)%nat.
  Proof.
    intros H. induction l as [|a t IH]; [reflexivity|].
    destruct t as [|a' t']; [reflexivity|].
    change (firstge x (a :: a' :: t')) with (if ge_ext x a then 0 else S (firstge x (a' :: t')))%nat.
    change (firstge y (a :: a' :: t')) with (if ge_ext y a then 0 else S (firstge y (a' :: t')))%nat.
    destruct (ge_ext x a) eqn:Ex.
    - rewrite (ge_ext_mono _ _ _ H Ex). lia.
    - destruct (ge_ext y a); lia.
  Qed.
End Lookup.

From Coq Require Import List ZArith Ring Ring_theory Arith Lia.
From SX Require Import Lib.KRing Gen.GenPtCorr Model.PtCorr Proofs.C13_Num Proofs.C13_Kappa.
Import ListNotations.

Section M.
  Variable K : Type.
  Variables (k0 k1 : K) (kadd kmul ksub : K -> K -> K) (kopp : K -> K).
  Hypothesis Kth : ring_theory k0 k1 kadd kmul ksub kopp (@eq K).
  Add Ring Kring13m : Kth.
  Notation DS := (dsum k0 k1 kadd kmul).
  Notation sum := (ksum k0 kadd).
  Notation wpt := (wpt K k1 kmul).
  Notation wgt := (wgt K k1).

  (* tuples need at least k distinct positions: shorter events contribute nothing *)
  Lemma dsum_short : forall k l, (length l < k)%nat -> DS k l = k0.
  Proof.
    induction k as [|k IHk]; intros l H; [lia|].
    induction l as [|a l IHl]; [reflexivity|].
    rewrite (dsum_cons _ _ _ _ _ _ _ Kth). cbn [length] in H.
    rewrite IHl by lia. rewrite IHk by lia. ring.
  Qed.

  Theorem N_event_spec c ev : (c < 8)%nat ->
    N_event K k0 k1 kadd kmul ksub kopp c ev = Some (DS (S c) (map wpt ev)).
  Proof. intros H. unfold N_event. apply (gen_N_ok K k0 k1 kadd kmul ksub kopp Kth c (map wpt ev)), H. Qed.

  Theorem D_event_spec c ev : (c < 8)%nat ->
    D_event K k0 k1 kadd kmul ksub kopp c ev = Some (DS (S c) (map wgt ev)).
  Proof. intros H. unfold D_event. apply (gen_D_ok K k0 k1 kadd kmul ksub kopp Kth c _ (map wgt ev)), H. Qed.

  Lemma osum_some {A} (f : A -> option K) (g : A -> K) l :
    (forall x, f x = Some (g x)) -> osum K k0 kadd (map f l) = Some (sum (map g l)).
  Proof. intros H. induction l as [|x t IH]; cbn; [reflexivity|]. rewrite H, IH. reflexivity. Qed.

  Theorem corr_pair_spec c evs : (c < 8)%nat ->
    corr_pair K k0 k1 kadd kmul ksub kopp c evs =
    Some (sum (map (fun ev => DS (S c) (map wpt ev)) evs),
          sum (map (fun ev => DS (S c) (map wgt ev)) evs)).
  Proof.
    intros H. unfold corr_pair.
    rewrite (osum_some _ (fun ev => DS (S c) (map wpt ev))) by (intros; apply N_event_spec, H).
    rewrite (osum_some _ (fun ev => DS (S c) (map wgt ev))) by (intros; apply D_event_spec, H).
    reflexivity.
  Qed.

  Variable kdiv : K -> K -> K.
  Variable kis0 : K -> bool.
  Theorem corr_spec c evs : (c < 8)%nat ->
    let n := sum (map (fun ev => DS (S c) (map wpt ev)) evs) in
    let d := sum (map (fun ev => DS (S c) (map wgt ev)) evs) in
    corr K k0 k1 kadd kmul ksub kopp kdiv kis0 c evs = if kis0 d then None else Some (kdiv n d).
  Proof. intros H. unfold corr. rewrite corr_pair_spec by exact H. reflexivity. Qed.

  Theorem kappa_spec c evs : (c < 8)%nat ->
    all_finite K k0 k1 kadd kmul ksub kopp kdiv kis0 c evs = true ->
    kappa K k0 k1 kadd kmul ksub kopp kdiv kis0 c evs =
    Some (cumulant K k0 k1 kadd kmul ksub (Carr K k0 k1 kadd kmul ksub kopp kdiv kis0 evs) (S c)).
  Proof. intros H F. unfold kappa. rewrite F. apply (gen_kappa_ok K k0 k1 kadd kmul ksub kopp Kth). lia. Qed.

  Theorem unset_weight_is_one pt : wgt (pt, None) = k1 /\ wpt (pt, None) = kmul k1 pt.
  Proof. split; reflexivity. Qed.
End M.

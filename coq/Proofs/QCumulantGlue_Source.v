(* Source tie for the GLUE of the Q-cumulant estimator (C11, C12): the hand models Model/QCumulant.v (flow values) and
   Model/QCumulantErr.v (errors) equal the method bodies of QCumulantFlow.__init__, __sample_random_reaction_planes,
   integrated_flow and differential_flow as regenerated into Gen/GenQCumulantGlue.v on every run
   (tools/py2coq/gen_qcumulant_glue.py, runtime Model/QCumulantGlueRt.v).

   Part 1 (Section Rel): every definition of Gen/GenQCumulant.v and Gen/GenQCumulantErr.v depends on the sample only
   through the per-event multiplicities and Q-vectors: F E evs M Q = F T (map summ evs) M' Q' whenever M e = M' (summ e)
   and Q h e = Q' h (summ e) on the events of the sample.  Proved by one structural tactic that follows the let-chain of
   the generated text (it does not depend on the arithmetic, only on the names of the generated definitions).
   Part 2: facts about the runtime (loops, indexing).
   Part 3 (Section Glue): the four methods.  Oracles (universally quantified): the carrier K with its operations, division,
   comparisons, roots; the float angles A with their addition and expi n a = exp(1j * float(n) * a); the selector values V
   with the float comparisons; the particle observations; random.uniform.  Hypotheses: kadd / kmul commutative and
   exp(i n (a + b)) = exp(i n a) * exp(i n b)  - nothing else is assumed about floats. *)
From Coq Require Import String ZArith Bool List QArith Lia.
From SX Require Import Lib.Py Lib.KRing Lib.Cpx Gen.GenQCumulant Gen.GenQCumulantErr Model.QCumulant Model.QCumulantErr
  Model.QCumulantGlueRt Gen.GenQCumulantGlue.
Import ListNotations.
Local Open Scope list_scope.

(* ================================================================ Part 1: the generated formulas see the sample only
   through multiplicities and Q-vectors *)
Lemma let_cong {X Y} (a a' : X) (b b' : X -> Y) :
  a = a' -> (forall x, b x = b' x) -> (let x := a in b x) = (let x := a' in b' x).
Proof. intros -> H. cbv zeta. apply H. Qed.
Lemma if_cong {Y} (c c' : bool) (a a' b b' : Y) :
  c = c' -> a = a' -> b = b' -> (if c then a else b) = (if c' then a' else b').
Proof. intros -> -> ->. reflexivity. Qed.

Section Rel.
  Variable K : Type.
  Variables (k0 k1 : K) (kadd kmul ksub : K -> K -> K) (kopp : K -> K) (kdiv : K -> K -> K).
  Variables (kleb kltb : K -> K -> bool).
  Variable krpow : nat -> nat -> K -> K.
  Variable kcsqrt : cpx K -> cpx K.
  Variables E T : Type. Variable summ : E -> T. Variable evs : list E.
  Variables Ma Mb Mp : E -> K. Variables Qa Qb Qp : nat -> E -> cpx K.
  Variables Ma' Mb' Mp' : T -> K. Variables Qa' Qb' Qp' : nat -> T -> cpx K.
  Hypothesis HMa : forall e, In e evs -> Ma e = Ma' (summ e).
  Hypothesis HMb : forall e, In e evs -> Mb e = Mb' (summ e).
  Hypothesis HMp : forall e, In e evs -> Mp e = Mp' (summ e).
  Hypothesis HQa : forall h e, In e evs -> Qa h e = Qa' h (summ e).
  Hypothesis HQb : forall h e, In e evs -> Qb h e = Qb' h (summ e).
  Hypothesis HQp : forall h e, In e evs -> Qp h e = Qp' h (summ e).

  Definition frel {B} (f : E -> B) (f' : T -> B) : Prop := forall e, In e evs -> f e = f' (summ e).
  Lemma ksum_rel (f : E -> K) (f' : T -> K) :
    (forall e, In e evs -> f e = f' (summ e)) -> ksum k0 kadd (map f evs) = ksum k0 kadd (map f' (map summ evs)).
  Proof. intros H. rewrite map_map. f_equal. apply map_ext_in. exact H. Qed.
  Lemma csum_rel (f : E -> cpx K) (f' : T -> cpx K) :
    (forall e, In e evs -> f e = f' (summ e)) -> csum K k0 kadd (map f evs) = csum K k0 kadd (map f' (map summ evs)).
  Proof. intros H. rewrite map_map. f_equal. apply map_ext_in. exact H. Qed.

  Ltac head t := match t with ?f _ => head f | _ => t end.
  Ltac lhs_head := match goal with |- ?l = _ => head l end.
  Ltac by_lemma c lem := let h := lhs_head in constr_eq h c; apply lem.
  Ltac rel_step hs hp :=
    match goal with
    | |- ?x = ?y => constr_eq x y; reflexivity
    | H : frel ?f _ |- ?f _ = _ => apply H; assumption
    | |- Ma _ = _ => apply HMa; assumption
    | |- Mb _ = _ => apply HMb; assumption
    | |- Mp _ = _ => apply HMp; assumption
    | |- Qa _ _ = _ => apply HQa; assumption
    | |- Qb _ _ = _ => apply HQb; assumption
    | |- Qp _ _ = _ => apply HQp; assumption
    | |- _ => solve [hs]
    | |- (let x := ?a in @?b x) ?u1 ?u2 ?u3 ?u4 = (let y := ?a' in @?b' y) ?w1 ?w2 ?w3 ?w4 =>
        let l := eval cbv beta in (fun x => b x u1 u2 u3 u4) in let r := eval cbv beta in (fun y => b' y w1 w2 w3 w4) in
        change ((let x := a in l x) = (let y := a' in r y)); cbv beta
    | |- (let x := ?a in @?b x) ?u1 ?u2 ?u3 = (let y := ?a' in @?b' y) ?w1 ?w2 ?w3 =>
        let l := eval cbv beta in (fun x => b x u1 u2 u3) in let r := eval cbv beta in (fun y => b' y w1 w2 w3) in
        change ((let x := a in l x) = (let y := a' in r y)); cbv beta
    | |- (let x := ?a in @?b x) ?u1 ?u2 = (let y := ?a' in @?b' y) ?w1 ?w2 =>
        let l := eval cbv beta in (fun x => b x u1 u2) in let r := eval cbv beta in (fun y => b' y w1 w2) in
        change ((let x := a in l x) = (let y := a' in r y)); cbv beta
    | |- (let x := ?a in @?b x) ?u1 = (let y := ?a' in @?b' y) ?w1 =>
        let l := eval cbv beta in (fun x => b x u1) in let r := eval cbv beta in (fun y => b' y w1) in
        change ((let x := a in l x) = (let y := a' in r y)); cbv beta
    | |- (let x := ?a in ?b) = (let y := ?a' in ?b') => change (b = b')
    | |- (let x := ?a in @?b x) = (let y := ?a' in @?b' y) =>
        let ta := type of a in let ta' := type of a' in
        first [ constr_eq ta ta'; apply (let_cong a a' b b'); [ | intro; cbv beta ]
              | let l := eval cbv beta in (b a) in let r := eval cbv beta in (b' a') in change (l = r) ]
    | |- ksum _ _ (map _ evs) = ksum _ _ (map _ (map summ evs)) => apply ksum_rel; intros ? ?; cbv beta
    | |- csum _ _ _ (map _ evs) = csum _ _ _ (map _ (map summ evs)) => apply csum_rel; intros ? ?; cbv beta
    | |- (if _ then _ else _) = (if _ then _ else _) => apply if_cong
    | |- match ?k with O => _ | S _ => _ end = _ => is_var k; destruct k
    | |- _ => progress hp
    | |- _ => progress f_equal
    end.
  Ltac rel hs hp := repeat (rel_step hs hp).

  Notation L f := (f K k0 k1 kadd kmul ksub kopp kdiv kleb kltb krpow E evs Ma Mb Mp Qa Qb Qp).
  Notation R f := (f K k0 k1 kadd kmul ksub kopp kdiv kleb kltb krpow T (map summ evs) Ma' Mb' Mp' Qa' Qb' Qp').
  Notation LE f := (f K k0 k1 kadd kmul ksub kopp kdiv kleb kltb krpow kcsqrt E evs Ma Mb Mp Qa Qb Qp).
  Notation RE f := (f K k0 k1 kadd kmul ksub kopp kdiv kleb kltb krpow kcsqrt T (map summ evs) Ma' Mb' Mp' Qa' Qb' Qp').

  (* ---- values (Gen/GenQCumulant.v) *)
  Lemma rel_corr_2 : L gen_corr_2 = R gen_corr_2.
  Proof. cbv delta [gen_corr_2]; cbv beta. rel fail idtac. Qed.
  Lemma rel_corr_4 : L gen_corr_4 = R gen_corr_4.
  Proof. cbv delta [gen_corr_4]; cbv beta. rel fail idtac. Qed.
  Lemma rel_corr_6 : L gen_corr_6 = R gen_corr_6.
  Proof. cbv delta [gen_corr_6]; cbv beta. rel fail idtac. Qed.
  Ltac h1 := first [ by_lemma @gen_corr_2 rel_corr_2 | by_lemma @gen_corr_4 rel_corr_4 | by_lemma @gen_corr_6 rel_corr_6 ].
  Lemma rel_cumulant_2 : L gen_cumulant_2 = R gen_cumulant_2.
  Proof. cbv delta [gen_cumulant_2]; cbv beta. rel h1 idtac. Qed.
  Lemma rel_cumulant_4 : L gen_cumulant_4 = R gen_cumulant_4.
  Proof. cbv delta [gen_cumulant_4]; cbv beta. rel h1 idtac. Qed.
  Lemma rel_cumulant_6 : L gen_cumulant_6 = R gen_cumulant_6.
  Proof. cbv delta [gen_cumulant_6]; cbv beta. rel h1 idtac. Qed.
  Lemma rel_integrated kk imag : L gen_integrated kk imag = R gen_integrated kk imag.
  Proof. cbv delta [gen_integrated]; cbv beta.
    rel ltac:(first [h1 | by_lemma @gen_cumulant_2 rel_cumulant_2 | by_lemma @gen_cumulant_4 rel_cumulant_4 | by_lemma @gen_cumulant_6 rel_cumulant_6]) idtac. Qed.
  Lemma rel_diff_2 imag : L gen_diff_2 imag = R gen_diff_2 imag.
  Proof. cbv delta [gen_diff_2]; cbv beta. rel h1 idtac. Qed.
  Lemma rel_diff_4 imag : L gen_diff_4 imag = R gen_diff_4 imag.
  Proof. cbv delta [gen_diff_4]; cbv beta. rel h1 idtac. Qed.

  (* ---- errors (Gen/GenQCumulantErr.v) *)
  Lemma rel_ebe_2 e : In e evs -> LE gen_ebe_2 e = RE gen_ebe_2 (summ e).
  Proof. intros He. cbv delta [gen_ebe_2]; cbv beta. rel h1 idtac. Qed.
  Lemma rel_ebe_4 e : In e evs -> LE gen_ebe_4 e = RE gen_ebe_4 (summ e).
  Proof. intros He. cbv delta [gen_ebe_4]; cbv beta. rel h1 idtac. Qed.
  Lemma rel_ebe_6 e : In e evs -> LE gen_ebe_6 e = RE gen_ebe_6 (summ e).
  Proof. intros He. cbv delta [gen_ebe_6]; cbv beta. rel h1 idtac. Qed.
  Ltac h2 := first [ h1 | by_lemma @gen_ebe_2 rel_ebe_2; assumption | by_lemma @gen_ebe_4 rel_ebe_4; assumption
                   | by_lemma @gen_ebe_6 rel_ebe_6; assumption ].
  Lemma rel_corr_err_2 : LE gen_corr_err_2 = RE gen_corr_err_2.
  Proof. cbv delta [gen_corr_err_2]; cbv beta. rel h2 idtac. Qed.
  Lemma rel_corr_err_4 : LE gen_corr_err_4 = RE gen_corr_err_4.
  Proof. cbv delta [gen_corr_err_4]; cbv beta. rel h2 idtac. Qed.
  Lemma rel_corr_err_6 : LE gen_corr_err_6 = RE gen_corr_err_6.
  Proof. cbv delta [gen_corr_err_6]; cbv beta. rel h2 idtac. Qed.
  Ltac h3 := first [ h2 | by_lemma @gen_corr_err_2 rel_corr_err_2 | by_lemma @gen_corr_err_4 rel_corr_err_4
                   | by_lemma @gen_corr_err_6 rel_corr_err_6 ].

  Lemma rel_cov_R wx wy x y wx' wy' x' y' : frel wx wx' -> frel wy wy' -> frel x x' -> frel y y' ->
    LE gen_cov_R wx wy x y = RE gen_cov_R wx' wy' x' y'.
  Proof. intros H1 H2 H3 H4. cbv delta [gen_cov_R]; cbv beta. rel h3 idtac. Qed.
  Lemma rel_cov_C wx wy x y wx' wy' x' y' : frel wx wx' -> frel wy wy' -> frel x x' -> frel y y' ->
    LE gen_cov_C wx wy x y = RE gen_cov_C wx' wy' x' y'.
  Proof. intros H1 H2 H3 H4. cbv delta [gen_cov_C]; cbv beta. rel h3 idtac. Qed.
  Ltac fr := intros ? ?; cbv beta.
  Ltac p1 := first [ by_lemma @gen_cov_R rel_cov_R; fr | by_lemma @gen_cov_C rel_cov_C; fr ].
  Lemma rel_cov_term_2_4_R x y x' y' : frel x x' -> frel y y' -> LE gen_cov_term_2_4_R x y = RE gen_cov_term_2_4_R x' y'.
  Proof. intros H1 H2. cbv delta [gen_cov_term_2_4_R]; cbv beta. rel h3 p1. Qed.
  Lemma rel_cov_term_2_6_R x y x' y' : frel x x' -> frel y y' -> LE gen_cov_term_2_6_R x y = RE gen_cov_term_2_6_R x' y'.
  Proof. intros H1 H2. cbv delta [gen_cov_term_2_6_R]; cbv beta. rel h3 p1. Qed.
  Lemma rel_cov_term_4_6_R x y x' y' : frel x x' -> frel y y' -> LE gen_cov_term_4_6_R x y = RE gen_cov_term_4_6_R x' y'.
  Proof. intros H1 H2. cbv delta [gen_cov_term_4_6_R]; cbv beta. rel h3 p1. Qed.
  Lemma rel_cov_term_differential_R wx wy x y wx' wy' x' y' : frel wx wx' -> frel wy wy' -> frel x x' -> frel y y' ->
    LE gen_cov_term_differential_R wx wy x y = RE gen_cov_term_differential_R wx' wy' x' y'.
  Proof. intros H1 H2 H3 H4. cbv delta [gen_cov_term_differential_R]; cbv beta. rel h3 p1. Qed.
  Lemma rel_cov_term_differential_C wx wy x y wx' wy' x' y' : frel wx wx' -> frel wy wy' -> frel x x' -> frel y y' ->
    LE gen_cov_term_differential_C wx wy x y = RE gen_cov_term_differential_C wx' wy' x' y'.
  Proof. intros H1 H2 H3 H4. cbv delta [gen_cov_term_differential_C]; cbv beta. rel h3 p1. Qed.
  Ltac p2 := first [ p1 | by_lemma @gen_cov_term_2_4_R rel_cov_term_2_4_R; fr | by_lemma @gen_cov_term_2_6_R rel_cov_term_2_6_R; fr
                   | by_lemma @gen_cov_term_4_6_R rel_cov_term_4_6_R; fr
                   | by_lemma @gen_cov_term_differential_R rel_cov_term_differential_R; fr
                   | by_lemma @gen_cov_term_differential_C rel_cov_term_differential_C; fr ].
  Lemma rel_int_err_2 : LE gen_int_err_2 = RE gen_int_err_2.
  Proof. cbv delta [gen_int_err_2]; cbv beta. rel h3 p2. Qed.
  Lemma rel_int_err_4 : LE gen_int_err_4 = RE gen_int_err_4.
  Proof. cbv delta [gen_int_err_4]; cbv beta. rel h3 p2. Qed.
  Lemma rel_int_err_6 : LE gen_int_err_6 = RE gen_int_err_6.
  Proof. cbv delta [gen_int_err_6]; cbv beta. rel h3 p2. Qed.
  Lemma rel_integrated_err kk : LE gen_integrated_err kk = RE gen_integrated_err kk.
  Proof. cbv delta [gen_integrated_err]; cbv beta.
    rel ltac:(first [h3 | by_lemma @gen_int_err_2 rel_int_err_2 | by_lemma @gen_int_err_4 rel_int_err_4 | by_lemma @gen_int_err_6 rel_int_err_6]) idtac. Qed.
  Lemma rel_dsum2_ev e : In e evs -> LE gen_dsum2_ev e = RE gen_dsum2_ev (summ e).
  Proof. intros He. cbv delta [gen_dsum2_ev]; cbv beta. rel h3 idtac. Qed.
  Lemma rel_dw2 e : In e evs -> LE gen_dw2 e = RE gen_dw2 (summ e).
  Proof. intros He. cbv delta [gen_dw2]; cbv beta. rel h3 idtac. Qed.
  Lemma rel_dsum4_ev e : In e evs -> LE gen_dsum4_ev e = RE gen_dsum4_ev (summ e).
  Proof. intros He. cbv delta [gen_dsum4_ev]; cbv beta. rel h3 idtac. Qed.
  Lemma rel_dw4 e : In e evs -> LE gen_dw4 e = RE gen_dw4 (summ e).
  Proof. intros He. cbv delta [gen_dw4]; cbv beta. rel h3 idtac. Qed.
  Ltac h4 := first [ h3 | by_lemma @gen_dsum2_ev rel_dsum2_ev; assumption | by_lemma @gen_dw2 rel_dw2; assumption
                   | by_lemma @gen_dsum4_ev rel_dsum4_ev; assumption | by_lemma @gen_dw4 rel_dw4; assumption ].
  Lemma rel_diff_err_2 : LE gen_diff_err_2 = RE gen_diff_err_2.
  Proof. cbv delta [gen_diff_err_2]; cbv beta. rel h4 p2. Qed.
  Lemma rel_diff_err_4 : LE gen_diff_err_4 = RE gen_diff_err_4.
  Proof. cbv delta [gen_diff_err_4]; cbv beta. rel h4 p2. Qed.
End Rel.

(* ================================================================ Part 2: runtime facts *)
(* ---------------------------------------------------------------- generic facts about the runtime *)
Lemma nth_error_seq s n i : (i < n)%nat -> nth_error (seq s n) i = Some (s + i)%nat.
Proof.
  revert s i. induction n as [|n IH]; intros s i Hi; [lia|].
  destruct i as [|i]; cbn [seq nth_error]; [f_equal; lia|]. rewrite IH by lia. f_equal. lia.
Qed.
Lemma pyget_nat {X} (l : list X) i x : nth_error l i = Some x -> pyget l (Z.of_nat i) = Ok x.
Proof.
  intros H. unfold pyget. destruct (Z.of_nat i <? 0)%Z eqn:E; [apply Z.ltb_lt in E; lia|].
  rewrite E, Nat2Z.id, H. reflexivity.
Qed.
Lemma pyget_nth {X} (l : list X) i d : (i < length l)%nat -> pyget l (Z.of_nat i) = Ok (nth i l d).
Proof. intros H. apply pyget_nat, nth_error_nth', H. Qed.
Lemma py_range_nat n : py_range (Z.of_nat n) = map Z.of_nat (seq 0 n).
Proof. unfold py_range. rewrite Nat2Z.id. reflexivity. Qed.
Lemma py_range_len {X} (l : list X) : py_range (py_len l) = map Z.of_nat (seq 0 (length l)).
Proof. apply py_range_nat. Qed.
Lemma pyget_map_range {X} (f : Z -> X) n i : (i < n)%nat -> pyget (map f (py_range (Z.of_nat n))) (Z.of_nat i) = Ok (f (Z.of_nat i)).
Proof.
  intros H. apply pyget_nat. rewrite py_range_nat, map_map. erewrite map_nth_error; [reflexivity|].
  rewrite nth_error_seq by exact H. reflexivity.
Qed.

Lemma loopE_map {X Y S} (body : S -> Y -> result S) (g : X -> Y) l s :
  loopE body (map g l) s = loopE (fun s x => body s (g x)) l s.
Proof. revert s. induction l as [|a l IH]; intros s; cbn [map loopE]; [reflexivity|]. destruct (body s (g a)); [apply IH|reflexivity]. Qed.
Lemma loopE_ok {X S} (body : S -> X -> result S) (step : S -> X -> S) l :
  (forall s x, In x l -> body s x = Ok (step s x)) -> forall s, loopE body l s = Ok (fold_left step l s).
Proof.
  induction l as [|a l IH]; intros H s; cbn [loopE fold_left]; [reflexivity|].
  rewrite (H s a (or_introl eq_refl)). apply IH. intros s' x Hx. apply H. right. exact Hx.
Qed.
Lemma fold_app1 {X Y} (f : X -> Y) l s : fold_left (fun s x => s ++ [f x]) l s = s ++ map f l.
Proof. revert s. induction l as [|a l IH]; intros s; cbn [fold_left map]; [now rewrite app_nil_r|]. rewrite IH, <- app_assoc. reflexivity. Qed.
Lemma fold_app2 {X Y Z'} (f : X -> Y) (g : X -> Z') l s t :
  fold_left (fun st x => (fst st ++ [f x], snd st ++ [g x])) l (s, t) = (s ++ map f l, t ++ map g l).
Proof.
  revert s t. induction l as [|a l IH]; intros s t; cbn [fold_left map fst snd]; [now rewrite !app_nil_r|].
  rewrite IH, <- !app_assoc. reflexivity.
Qed.
Lemma fold_filter2 {X Y} (c d : X -> bool) (f : X -> Y) l s t :
  fold_left (fun st x => if c x then (fst st ++ [f x], if d x then snd st ++ [f x] else snd st) else st) l (s, t)
  = (s ++ map f (filter c l), t ++ map f (filter (fun x => c x && d x) l)).
Proof.
  revert s t. induction l as [|a l IH]; intros s t; cbn [fold_left map filter fst snd]; [now rewrite !app_nil_r|].
  destruct (c a); cbn [andb fst snd].
  - destruct (d a); cbn [map]; rewrite IH, <- ?app_assoc; reflexivity.
  - apply IH.
Qed.
Lemma map_seq_nth {X} (l : list X) d : map (fun i => nth i l d) (seq 0 (length l)) = l.
Proof.
  apply nth_ext with (d := d) (d' := d); [now rewrite map_length, seq_length|].
  intros i Hi. rewrite map_length, seq_length in Hi.
  rewrite (nth_indep _ _ (nth (length l) l d)) by (now rewrite map_length, seq_length).
  rewrite (map_nth (fun i => nth i l d)), seq_nth by exact Hi. reflexivity.
Qed.
Lemma filter_true {X} (l : list X) : filter (fun _ => true) l = l.
Proof. induction l as [|a l IH]; cbn; [reflexivity|now rewrite IH]. Qed.

(* ================================================================ Part 3: the methods *)
Section Glue.
  Variable K : Type.
  Variables (k0 k1 : K) (kadd kmul ksub : K -> K -> K) (kopp : K -> K) (kdiv : K -> K -> K).
  Variables (kleb kltb : K -> K -> bool).
  Variable krpow : nat -> nat -> K -> K.
  Variable kcsqrt : cpx K -> cpx K.
  Variable A : Type.
  Variable aadd : A -> A -> A.
  Variable expi : Z -> A -> cpx K.
  Variable V : Type.
  Variable vfloat : Q -> V.
  Variables vge vlt vgt vle : V -> V -> bool.
  Variable P : Type.
  Variable p_phi : P -> A.
  Variables p_pT_abs p_rapidity p_pseudorapidity : P -> V.
  Variable p_pdg : P -> option Z.
  Variable rand_uniform : Z -> A.

  Hypothesis kadd_comm : forall a b, kadd a b = kadd b a.
  Hypothesis kmul_comm : forall a b, kmul a b = kmul b a.
  Hypothesis expi_add : forall n a b, expi n (aadd a b) = cmul K kadd kmul ksub (expi n a) (expi n b).

  Notation qcself := (qcself A).
  Notation GG f := (f K k0 k1 kadd kmul ksub kopp kdiv kleb kltb krpow kcsqrt A aadd expi V vfloat vge vlt vgt vle
                      P p_phi p_pT_abs p_rapidity p_pseudorapidity p_pdg rand_uniform).

  Definition zofn (n : Z) (p : P) : cpx K := expi n (p_phi p).
  Definition planes_of (m : nat) : list A := map rand_uniform (py_range (Z.of_nat m)).
  Definition mk_events (n : Z) (pd : list (list P)) : list (event K P) :=
    map (fun i => (expi n (rand_uniform (Z.of_nat i)), nth i pd [])) (seq 0 (length pd)).
  Definition valid (self : qcself) : Prop :=
    existsb (Nat.eqb (Z.to_nat (k_ self))) gen_k_allowed && existsb (String.eqb (imaginary_ self)) gen_imag_allowed = true.

  Lemma source_sample_random_reaction_planes self m :
    GG gen_sample_random_reaction_planes self m = Ok (set_rand_reaction_planes_ self (map rand_uniform (py_range m)), tt).
  Proof. reflexivity. Qed.

  Definition ang (i : nat) (p : P) : A := aadd (p_phi p) (rand_uniform (Z.of_nat i)).
  Definition phi_all_of (pd : list (list P)) : list (list A) := map (fun i => map (ang i) (nth i pd [])) (seq 0 (length pd)).

  Lemma cmul_comm (a b : cpx K) : cmul K kadd kmul ksub a b = cmul K kadd kmul ksub b a.
  Proof.
    unfold cmul. f_equal.
    - rewrite (kmul_comm (re a) (re b)), (kmul_comm (im a) (im b)). reflexivity.
    - rewrite kadd_comm, (kmul_comm (im a) (re b)), (kmul_comm (re a) (im b)). reflexivity.
  Qed.


  Notation Mlist := (Mlist K k0 k1 kadd A).
  Notation Qlist := (Qlist K k0 k1 kadd kmul ksub kopp kdiv kleb kltb krpow A expi).
  Notation MofK := (Mof K k0 k1 kadd P).
  Notation QofK n := (Qof K k0 k1 kadd kmul ksub kopp kdiv kleb kltb krpow P (zofn n)).
  Definition rho (n : Z) (i : nat) : cpx K := expi n (rand_uniform (Z.of_nat i)).

  Lemma M_row i ps r : Mlist (map (ang i) ps) = MofK (r, ps).
  Proof. unfold QCumulantGlueRt.Mlist, Mof. cbn [snd]. rewrite map_length. reflexivity. Qed.
  Lemma Q_row n h i ps : Qlist n h (map (ang i) ps) = QofK n h (rho n i, ps).
  Proof.
    unfold QCumulantGlueRt.Qlist, Qof, zs, rotz. cbn [fst snd]. rewrite map_map. f_equal. apply map_ext. intros p.
    unfold ang, zofn, rho. rewrite expi_add. apply cmul_comm.
  Qed.

  (* the loop that builds the per-event lists of rotated angles (integrated_flow and differential_flow) *)
  Lemma pyget_pd (pd : list (list P)) i : (i < length pd)%nat -> pyget pd (Z.of_nat i) = Ok (nth i pd []).
  Proof. apply pyget_nth. Qed.
  Lemma pyget_planes (pd : list (list P)) i : (i < length pd)%nat ->
    pyget (map rand_uniform (py_range (py_len pd))) (Z.of_nat i) = Ok (rand_uniform (Z.of_nat i)).
  Proof. apply pyget_map_range. Qed.

  Lemma mk_events_eq n pd : mk_events n pd = map (fun i => (rho n i, nth i pd [])) (seq 0 (length pd)).
  Proof. reflexivity. Qed.

  (* integrated_flow on an object with valid k_ / imaginary_: the new object and (flow value, error) of the hand models *)
  Definition int_spec (self : qcself) (pd : list (list P)) (inbin ispoi : P -> bool) : result (qcself * (option K * K)) :=
    match integrated_flow K k0 k1 kadd kmul ksub kopp kdiv kleb kltb krpow P (zofn (n_ self)) inbin ispoi
            (mk_events (n_ self) pd) (Z.to_nat (k_ self)) (imaginary_ self),
          qc_error K k0 k1 kadd kmul ksub kopp kdiv kleb kltb krpow kcsqrt P (zofn (n_ self)) inbin ispoi
            (mk_events (n_ self) pd) (Z.to_nat (k_ self)) (imaginary_ self)
    with
    | Some v, Some e => Ok (set_rand_reaction_planes_ self (planes_of (length pd)), (v, e))
    | _, _ => Err ValueError
    end.
  Theorem source_integrated_flow self pd inbin ispoi :
    valid self -> GG gen_integrated_flow self pd = int_spec self pd inbin ispoi.
  Proof.
    intros Hv. unfold int_spec.
    cbv beta zeta delta [gen_integrated_flow].
    rewrite source_sample_random_reaction_planes. cbn [rbind rand_reaction_planes_ set_rand_reaction_planes_].
    pose proof (pyget_planes pd) as Hpl. set (pl := map rand_uniform (py_range (py_len pd))) in *.
    rewrite py_range_len, loopE_map.
    rewrite (loopE_ok _ (fun s i => s ++ [map (ang i) (nth i pd [])])).
    2:{ intros s i Hi. apply in_seq in Hi.
        rewrite pyget_pd by lia. cbn [rbind].
        rewrite (loopE_ok _ (fun s2 p => s2 ++ [ang i p])).
        2:{ intros s2 p _. rewrite Hpl by lia. reflexivity. }
        rewrite fold_app1. reflexivity. }
    rewrite fold_app1. cbn [rbind app].
    change (map (fun i => map (ang i) (nth i pd [])) (seq 0 (length pd))) with (phi_all_of pd).
    unfold call_cumulant_flow. cbv zeta. cbn [n_ k_ imaginary_].
    unfold integrated_flow, qc_error. unfold valid in Hv. rewrite Hv.
    unfold phi_all_of. rewrite mk_events_eq.
    set (fa := fun i : nat => map (ang i) (nth i pd [])).
    set (s2 := fun i : nat => (rho (n_ self) i, nth i pd [])).
    set (idx := seq 0 (length pd)).
    assert (Hval : forall kk imag,
      gen_integrated K k0 k1 kadd kmul ksub kopp kdiv kleb kltb krpow (list A) (map fa idx) Mlist Mlist Mlist
        (Qlist (n_ self)) (Qlist (n_ self)) (Qlist (n_ self)) kk imag
      = gen_integrated K k0 k1 kadd kmul ksub kopp kdiv kleb kltb krpow (event K P) (map s2 idx) MofK
          (fun e => MofK (sel_bin K P inbin e)) (fun e => MofK (sel_poi K P inbin ispoi e)) (QofK (n_ self))
          (fun h e => QofK (n_ self) h (sel_bin K P inbin e)) (fun h e => QofK (n_ self) h (sel_poi K P inbin ispoi e)) kk imag).
    { intros kk imag.
      transitivity (gen_integrated K k0 k1 kadd kmul ksub kopp kdiv kleb kltb krpow nat idx
        (fun i => Mlist (fa i)) (fun i => Mlist (fa i)) (fun i => Mlist (fa i))
        (fun h i => Qlist (n_ self) h (fa i)) (fun h i => Qlist (n_ self) h (fa i)) (fun h i => Qlist (n_ self) h (fa i)) kk imag).
      - symmetry. apply rel_integrated; intros; reflexivity.
      - apply rel_integrated; intros; [apply M_row | apply Q_row]. }
    assert (Herr : forall kk,
      gen_integrated_err K k0 k1 kadd kmul ksub kopp kdiv kleb kltb krpow kcsqrt (list A) (map fa idx) Mlist Mlist Mlist
        (Qlist (n_ self)) (Qlist (n_ self)) (Qlist (n_ self)) kk
      = gen_integrated_err K k0 k1 kadd kmul ksub kopp kdiv kleb kltb krpow kcsqrt (event K P) (map s2 idx) MofK
          (fun e => MofK (sel_bin K P inbin e)) (fun e => MofK (sel_poi K P inbin ispoi e)) (QofK (n_ self))
          (fun h e => QofK (n_ self) h (sel_bin K P inbin e)) (fun h e => QofK (n_ self) h (sel_poi K P inbin ispoi e)) kk).
    { intros kk.
      transitivity (gen_integrated_err K k0 k1 kadd kmul ksub kopp kdiv kleb kltb krpow kcsqrt nat idx
        (fun i => Mlist (fa i)) (fun i => Mlist (fa i)) (fun i => Mlist (fa i))
        (fun h i => Qlist (n_ self) h (fa i)) (fun h i => Qlist (n_ self) h (fa i)) (fun h i => Qlist (n_ self) h (fa i)) kk).
      - symmetry. apply rel_integrated_err; intros; reflexivity.
      - apply rel_integrated_err; intros; [apply M_row | apply Q_row]. }
    rewrite Hval, Herr.
    subst pl. unfold planes_of, py_len.
    destruct (gen_integrated _ _ _ _ _ _ _ _ _ _ _ _ _ _ _ _ _ _ _ _ _) as [v|]; [|reflexivity].
    destruct (gen_integrated_err _ _ _ _ _ _ _ _ _ _ _ _ _ _ _ _ _ _ _ _ _) as [e|]; reflexivity.
  Qed.

  (* ---------------------------------------------------------------- __init__ *)
  Definition init_spec (n k imag : pyscalar) : result qcself :=
    match n with
    | SInt n' =>
      if (n' <=? 0)%Z then Err ValueError else
      match k with
      | SInt k' =>
        if negb ((0 <? k')%Z && existsb (Nat.eqb (Z.to_nat k')) gen_k_allowed) then Err ValueError else
        match imag with
        | SStr s => if negb (existsb (String.eqb s) gen_imag_allowed) then Err ValueError else Ok (QCSelf n' k' s [])
        | _ => Err TypeError
        end
      | _ => Err TypeError
      end
    | _ => Err TypeError
    end.

  Lemma eqb_Z_nat k z : (0 < z)%Z -> (k =? z)%Z = Nat.eqb (Z.to_nat k) (Z.to_nat z).
  Proof. intros Hz. destruct (Z.eqb_spec k z), (Nat.eqb_spec (Z.to_nat k) (Z.to_nat z)); try reflexivity; lia. Qed.
  Lemma existsb_Z_nat (l : list nat) k : forallb (fun x => 0 <? x)%nat l = true ->
    existsb (Z.eqb k) (map Z.of_nat l) = (0 <? k)%Z && existsb (Nat.eqb (Z.to_nat k)) l.
  Proof.
    induction l as [|a l IH]; cbn [forallb existsb map]; intros H; [now rewrite andb_false_r|].
    apply andb_prop in H. destruct H as [Ha Hl]. rewrite (IH Hl). apply Nat.ltb_lt in Ha.
    destruct (Z.eqb_spec k (Z.of_nat a)), (Nat.eqb_spec (Z.to_nat k) a), (Z.ltb_spec 0 k); cbn; try reflexivity; lia.
  Qed.

  Ltac eval_has_ty := repeat match goal with |- context [has_ty ?a ?b] =>
    let v := eval compute in (has_ty a b) in change (has_ty a b) with v end.
  Theorem source_init n k imag : GG gen_init n k imag = init_spec n k imag.
  Proof.
    cbv beta zeta delta [gen_init]. unfold init_spec.
    destruct n as [n'| | |]; cbn [as_int]; eval_has_ty; cbn iota; try reflexivity.
    destruct (n' <=? 0)%Z; [reflexivity|].
    destruct k as [k'| | |]; cbn [as_int]; eval_has_ty; cbn iota; try reflexivity.
    match goal with |- context [existsb (Z.eqb k') ?l] => change l with (map Z.of_nat gen_k_allowed) end.
    rewrite existsb_Z_nat by reflexivity.
    destruct (negb _); [reflexivity|].
    destruct imag as [| |s|]; cbn [as_str]; eval_has_ty; cbn iota; reflexivity.
  Qed.

  Lemma init_valid n k imag self : GG gen_init n k imag = Ok self -> valid self /\ (0 < n_ self)%Z /\ (0 < k_ self)%Z.
  Proof.
    rewrite source_init. unfold init_spec, valid.
    destruct n as [n'| | |]; try discriminate. destruct (Z.leb_spec n' 0) as [Hn|Hn]; [discriminate|].
    destruct k as [k'| | |]; try discriminate.
    destruct ((0 <? k')%Z && _) eqn:Hk; cbn [negb]; [|discriminate].
    destruct imag as [| |s|]; try discriminate.
    destruct (existsb (String.eqb s) gen_imag_allowed) eqn:Hs; cbn [negb]; [|discriminate].
    intros Heq. injection Heq as <-. cbn [k_ n_ imaginary_]. apply andb_prop in Hk. destruct Hk as [Hk0 Hk].
    rewrite Hk, Hs. apply Z.ltb_lt in Hk0. auto.
  Qed.

  (* ---------------------------------------------------------------- differential_flow *)
  Definition selval (sel : string) (p : P) : V :=
    if String.eqb sel "pT" then p_pT_abs p
    else if String.eqb sel "rapidity" then p_rapidity p
    else if String.eqb sel "pseudorapidity" then p_pseudorapidity p
    else vfloat (0 # 1).
  Definition inbin_of (sel : string) (lo hi : V) (p : P) : bool := vge (selval sel p) lo && vlt (selval sel p) hi.
  Definition ispoi_of (poi : option (list pyscalar)) (p : P) : bool :=
    match poi with None => true | Some l => pdg_in (p_pdg p) l end.
  Definition is_intlike (x : pyscalar) : bool := match x with SInt _ | SNpInt _ => true | _ => false end.
  (* the poi_pdg argument: None, or a list / 1-D array of Python ints or numpy integers; else TypeError *)
  Definition poi_check (poi : pyseq pyscalar) : result (option (list pyscalar)) :=
    match poi with
    | QNone => Ok None
    | QList l | QArray l => if forallb is_intlike l then Ok (Some l) else Err TypeError
    | QOther => Err TypeError
    end.
  (* one bin [lo, hi): [flow value, error], or [] when the guard of the source finds the bin empty *)
  Definition diff_bin_result (self : qcself) (pd : list (list P)) (sel : string) (poi : option (list pyscalar)) (lo hi : V)
    : list (option K) :=
    match differential_bin K k0 k1 kadd kmul ksub kopp kdiv kleb kltb krpow P (zofn (n_ self)) (inbin_of sel lo hi)
            (ispoi_of poi) (mk_events (n_ self) pd) (Z.to_nat (k_ self)) (imaginary_ self),
          qc_diff_error K k0 k1 kadd kmul ksub kopp kdiv kleb kltb krpow kcsqrt P (zofn (n_ self)) (inbin_of sel lo hi)
            (ispoi_of poi) (mk_events (n_ self) pd) (Z.to_nat (k_ self)) (imaginary_ self)
    with
    | DVal _ v, DVal _ (Some e) => [v; Some e]
    | _, _ => []
    end.
  Lemma diff_bin_result_def self pd sel poi lo hi :
    diff_bin_result self pd sel poi lo hi =
    match differential_bin K k0 k1 kadd kmul ksub kopp kdiv kleb kltb krpow P (zofn (n_ self)) (inbin_of sel lo hi)
            (ispoi_of poi) (mk_events (n_ self) pd) (Z.to_nat (k_ self)) (imaginary_ self),
          qc_diff_error K k0 k1 kadd kmul ksub kopp kdiv kleb kltb krpow kcsqrt P (zofn (n_ self)) (inbin_of sel lo hi)
            (ispoi_of poi) (mk_events (n_ self) pd) (Z.to_nat (k_ self)) (imaginary_ self)
    with
    | DVal _ v, DVal _ (Some e) => [v; Some e]
    | _, _ => []
    end.
  Proof. reflexivity. Qed.
  (* an argument that must be a list or a 1-D ndarray / a str *)
  Definition seq_arg {X} (x : pyseq X) : option (list X) := match x with QList l | QArray l => Some l | _ => None end.
  Definition str_arg (x : pyscalar) : option string := match x with SStr s => Some s | _ => None end.
  Definition diff_spec (self : qcself) (pd : list (list P)) (bins : pyseq V) (sel : pyscalar) (poi : pyseq pyscalar)
    : result (qcself * list (list (option K))) :=
    match seq_arg bins with
    | None => Err TypeError
    | Some bl =>
      match str_arg sel with
      | None => Err TypeError
      | Some s =>
        match poi_check poi with
        | Err e => Err e
        | Ok po =>
          if negb (existsb (String.eqb s) gen_selectors_validated) then Err ValueError
          else if existsb (Nat.eqb (Z.to_nat (k_ self))) gen_diff_rejected_k then Err ValueError
          else Ok (set_rand_reaction_planes_ self (planes_of (length pd)),
                   map (fun b => diff_bin_result self pd s po (nth b bl (vfloat (0 # 1))) (nth (S b) bl (vfloat (0 # 1))))
                       (seq 0 (length bl - 1)))
        end
      end
    end.
  Lemma as_seq_arg {X} (x : pyseq X) : as_seq x [Ty_list; Ty_ndarray] = seq_arg x.
  Proof. destruct x; reflexivity. Qed.
  Lemma as_str_arg x : as_str x [Ty_str] = str_arg x.
  Proof. destruct x; reflexivity. Qed.

  Lemma poi_loop l :
    loopE (fun (_ : unit) (v_pdg : pyscalar) =>
             match as_int v_pdg [Ty_int; Ty_npinteger] with Some _ => Ok tt | None => Err TypeError end) l tt
    = if forallb is_intlike l then Ok tt else Err TypeError.
  Proof.
    induction l as [|a l IH]; cbn [loopE forallb]; [reflexivity|].
    destruct a; cbn [as_int is_intlike]; eval_has_ty; cbn iota; cbn [andb]; try reflexivity; exact IH.
  Qed.

  Lemma ltb_nat_Z n : (0 <? Z.of_nat n)%Z = (0 <? n)%nat.
  Proof. destruct (Z.ltb_spec 0 (Z.of_nat n)), (Nat.ltb_spec 0 n); try reflexivity; lia. Qed.
  Lemma py_sum_len (ll : list (list A)) : py_sum (map py_len ll) = Z.of_nat (fold_right Nat.add 0%nat (map (@length A) ll)).
  Proof.
    unfold py_sum. assert (H : forall l a, fold_left Z.add (map py_len l) a = (a + Z.of_nat (fold_right Nat.add 0%nat (map (@length A) l)))%Z).
    { induction l as [|x l IH]; intros a; cbn [map fold_left fold_right]; [lia|]. rewrite IH. unfold py_len. lia. }
    rewrite H. lia.
  Qed.
  Lemma combine_map3 {X B C D} (f : X -> B) (g : X -> C) (h : X -> D) l :
    combine (map f l) (combine (map g l) (map h l)) = map (fun x => (f x, (g x, h x))) l.
  Proof. induction l as [|a l IH]; cbn [map combine]; [reflexivity|]. now rewrite IH. Qed.

  Section Bin.
    Variable self : qcself.
    Variable pd : list (list P).
    Variables inbF ispF : P -> bool.
    Let n := n_ self.
    Let idx := seq 0 (length pd).
    Let fa (i : nat) := map (ang i) (nth i pd []).
    Let fbF (i : nat) := map (ang i) (filter inbF (nth i pd [])).
    Let fpF (i : nat) := map (ang i) (filter (fun p => inbF p && ispF p) (nth i pd [])).
    Let s2 (i : nat) : event K P := (rho n i, nth i pd []).
    Let evs := mk_events n pd.
    Let kk := Z.to_nat (k_ self).
    Let imag := imaginary_ self.
    Notation GM f := (f K k0 k1 kadd kmul ksub kopp kdiv kleb kltb krpow (event K P) evs MofK
                        (fun e => MofK (sel_bin K P inbF e)) (fun e => MofK (sel_poi K P inbF ispF e)) (QofK n)
                        (fun h e => QofK n h (sel_bin K P inbF e)) (fun h e => QofK n h (sel_poi K P inbF ispF e))).
    Notation GME f := (f K k0 k1 kadd kmul ksub kopp kdiv kleb kltb krpow kcsqrt (event K P) evs MofK
                        (fun e => MofK (sel_bin K P inbF e)) (fun e => MofK (sel_poi K P inbF ispF e)) (QofK n)
                        (fun h e => QofK n h (sel_bin K P inbF e)) (fun h e => QofK n h (sel_poi K P inbF ispF e))).
    Definition mguard : bool :=
      (0 <? length evs)%nat && (0 <? total K P evs (sel_bin K P inbF))%nat && (0 <? total K P evs (sel_poi K P inbF ispF))%nat.

    Lemma guard_eq :
      (0 <? py_len (map fbF idx))%Z && ((0 <? py_sum (map py_len (map fbF idx)))%Z && (0 <? py_sum (map py_len (map fpF idx)))%Z)
      = mguard.
    Proof.
      unfold mguard, total, evs. rewrite mk_events_eq. unfold py_len at 1. rewrite !py_sum_len, !ltb_nat_Z, !map_length, !map_map.
      rewrite andb_assoc. f_equal; [f_equal|]; do 2 f_equal; apply map_ext; intros i; unfold fbF, fpF, sel_bin, sel_poi; cbn [fst snd];
        apply map_length.
    Qed.

    Ltac hyps := intros; first [ apply M_row | apply Q_row | unfold sel_bin, sel_poi; cbn [fst snd]; first [apply M_row | apply Q_row] ].
    Notation S1 f := (f K k0 k1 kadd kmul ksub kopp kdiv kleb kltb krpow (ev3 A)
        (map (fun i => (fa i, (fbF i, fpF i))) idx)
        (fun t : ev3 A => Mlist (fst t)) (fun t : ev3 A => Mlist (fst (snd t))) (fun t : ev3 A => Mlist (snd (snd t)))
        (fun h (t : ev3 A) => Qlist n h (fst t)) (fun h (t : ev3 A) => Qlist n h (fst (snd t))) (fun h (t : ev3 A) => Qlist n h (snd (snd t)))).
    Notation S1E f := (f K k0 k1 kadd kmul ksub kopp kdiv kleb kltb krpow kcsqrt (ev3 A)
        (map (fun i => (fa i, (fbF i, fpF i))) idx)
        (fun t : ev3 A => Mlist (fst t)) (fun t : ev3 A => Mlist (fst (snd t))) (fun t : ev3 A => Mlist (snd (snd t)))
        (fun h (t : ev3 A) => Qlist n h (fst t)) (fun h (t : ev3 A) => Qlist n h (fst (snd t))) (fun h (t : ev3 A) => Qlist n h (snd (snd t)))).
    Notation N0 f := (f K k0 k1 kadd kmul ksub kopp kdiv kleb kltb krpow nat idx
        (fun i => Mlist (fa i)) (fun i => Mlist (fbF i)) (fun i => Mlist (fpF i))
        (fun h i => Qlist n h (fa i)) (fun h i => Qlist n h (fbF i)) (fun h i => Qlist n h (fpF i))).
    Notation N0E f := (f K k0 k1 kadd kmul ksub kopp kdiv kleb kltb krpow kcsqrt nat idx
        (fun i => Mlist (fa i)) (fun i => Mlist (fbF i)) (fun i => Mlist (fpF i))
        (fun h i => Qlist n h (fa i)) (fun h i => Qlist n h (fbF i)) (fun h i => Qlist n h (fpF i))).

    Lemma bridge_diff_2 im : S1 gen_diff_2 im = GM gen_diff_2 im.
    Proof.
      transitivity (N0 gen_diff_2 im); [symmetry; apply rel_diff_2; intros; reflexivity|].
      unfold evs. rewrite mk_events_eq. apply rel_diff_2; hyps.
    Qed.
    Lemma bridge_diff_4 im : S1 gen_diff_4 im = GM gen_diff_4 im.
    Proof.
      transitivity (N0 gen_diff_4 im); [symmetry; apply rel_diff_4; intros; reflexivity|].
      unfold evs. rewrite mk_events_eq. apply rel_diff_4; hyps.
    Qed.
    Lemma bridge_diff_err_2 : S1E gen_diff_err_2 = GME gen_diff_err_2.
    Proof.
      transitivity (N0E gen_diff_err_2); [symmetry; apply rel_diff_err_2; intros; reflexivity|].
      unfold evs. rewrite mk_events_eq. apply rel_diff_err_2; hyps.
    Qed.
    Lemma bridge_diff_err_4 : S1E gen_diff_err_4 = GME gen_diff_err_4.
    Proof.
      transitivity (N0E gen_diff_err_4); [symmetry; apply rel_diff_err_4; intros; reflexivity|].
      unfold evs. rewrite mk_events_eq. apply rel_diff_err_4; hyps.
    Qed.

    (* the call of __compute_differential_flow_bin on the lists built for this bin *)
    Lemma call_diff_bin_eq pl :
      call_diff_bin K k0 k1 kadd kmul ksub kopp kdiv kleb kltb krpow kcsqrt A expi (set_rand_reaction_planes_ self pl)
        (map fa idx) (map fbF idx) (map fpF idx)
      = match kk with
        | 2%nat => Ok [GM gen_diff_2 imag; Some (GME gen_diff_err_2)]
        | 4%nat => Ok [GM gen_diff_4 imag; Some (GME gen_diff_err_4)]
        | _ => Err OtherError
        end.
    Proof.
      unfold call_diff_bin. rewrite !map_length, !Nat.eqb_refl. cbn [andb negb]. cbv zeta.
      cbn [n_ k_ imaginary_ set_rand_reaction_planes_]. rewrite combine_map3.
      fold n kk imag.
      destruct kk as [|[|[|[|[|?]]]]]; try reflexivity.
      - rewrite bridge_diff_2, bridge_diff_err_2. reflexivity.
      - rewrite bridge_diff_4, bridge_diff_err_4. reflexivity.
    Qed.
  End Bin.

  Theorem source_differential_flow self pd bins sel poi :
    valid self ->
    GG gen_differential_flow self pd bins sel poi = diff_spec self pd bins sel poi.
  Proof.
    intros Hv.
    cbv beta zeta delta [gen_differential_flow]. unfold diff_spec.
    rewrite as_seq_arg, as_str_arg.
    destruct (seq_arg bins) as [bl|]; [|reflexivity].
    destruct (str_arg sel) as [s|]; [|reflexivity].
    (* the poi_pdg checks *)
    match goal with |- rbind ?c ?f = _ => assert (Hpoi : c = poi_check poi) end.
    { destruct poi as [|l|l|]; cbn [seq_is_none negb poi_check]; try reflexivity;
        rewrite as_seq_arg; cbn [seq_arg]; rewrite poi_loop; destruct (forallb is_intlike l); reflexivity. }
    rewrite Hpoi. clear Hpoi. destruct (poi_check poi) as [po|e]; cbn [rbind]; [|reflexivity].
    match goal with |- context [existsb (String.eqb s) ?l] => change l with gen_selectors_validated end.
    destruct (negb (existsb (String.eqb s) gen_selectors_validated)); [reflexivity|].
    rewrite (eqb_Z_nat (k_ self) _) by reflexivity.
    match goal with |- context [Z.to_nat (Zpos ?p)] =>
      let v := eval compute in (Z.to_nat (Zpos p)) in change (Z.to_nat (Zpos p)) with v end.
    unfold gen_diff_rejected_k at 1. cbn [existsb]. rewrite orb_false_r.
    destruct (Nat.eqb _ _) eqn:Hk6; [reflexivity|].
    (* sampling and the list of whole events *)
    rewrite source_sample_random_reaction_planes. cbn [rbind rand_reaction_planes_ set_rand_reaction_planes_].
    pose proof (pyget_planes pd) as Hpl. set (pl := map rand_uniform (py_range (py_len pd))) in *.
    set (self' := set_rand_reaction_planes_ self pl).
    rewrite !py_range_len, !loopE_map.
    rewrite (loopE_ok _ (fun s i => s ++ [map (ang i) (nth i pd [])])).
    2:{ intros st i Hi. apply in_seq in Hi.
        rewrite pyget_pd by lia. cbn [rbind].
        rewrite (loopE_ok _ (fun s2 p => s2 ++ [ang i p])).
        2:{ intros s2 p _. rewrite Hpl by lia. reflexivity. }
        rewrite fold_app1. reflexivity. }
    rewrite fold_app1. cbn [rbind app].
    (* the per-bin lists *)
    set (d := vfloat (0 # 1)).
    set (inb := fun b : nat => inbin_of s (nth b bl d) (nth (S b) bl d)).
    set (isp := ispoi_of po).
    set (idx := seq 0 (length pd)).
    set (phi_all := map (fun i => map (ang i) (nth i pd [])) idx).
    set (fb := fun (b i : nat) => map (ang i) (filter (inb b) (nth i pd []))).
    set (fp := fun (b i : nat) => map (ang i) (filter (fun p => inb b p && isp p) (nth i pd []))).
    assert (Hrange : py_range (py_len bl - 1) = map Z.of_nat (seq 0 (length bl - 1))).
    { unfold py_range, py_len. do 2 f_equal. lia. }
    rewrite Hrange, loopE_map.
    rewrite (loopE_ok _ (fun st b => (fst st ++ [map (fb b) idx], snd st ++ [map (fp b) idx]))).
    2:{ intros [pb pbp] b Hb. apply in_seq in Hb. cbn [fst snd].
        assert (Hlo : pyget bl (Z.of_nat b) = Ok (nth b bl d)) by (apply pyget_nth; lia).
        assert (Hhi : pyget bl (Z.of_nat b + 1) = Ok (nth (S b) bl d)).
        { replace (Z.of_nat b + 1)%Z with (Z.of_nat (S b)) by lia. apply pyget_nth. lia. }
        rewrite loopE_map.
        rewrite (loopE_ok _ (fun st i => (fst st ++ [fb b i], snd st ++ [fp b i]))).
        2:{ intros [eb ebp] i Hi. apply in_seq in Hi. cbn [fst snd].
            rewrite pyget_pd by lia. cbn [rbind].
            rewrite (loopE_ok _ (fun st p => if inb b p then (fst st ++ [ang i p], if isp p then snd st ++ [ang i p] else snd st) else st)).
            2:{ intros [pe pep] p _. cbn [fst snd]. subst inb isp d. cbv beta. unfold inbin_of, selval, ispoi_of.
                repeat match goal with |- context [String.eqb s ?x] => destruct (String.eqb s x) end;
                  cbn [rbind]; rewrite Hlo; cbn [rbind];
                  (match goal with |- context [vge ?a ?b] => destruct (vge a b) end); cbn [rbind andb]; try reflexivity;
                  rewrite Hhi; cbn [rbind];
                  (match goal with |- context [vlt ?a ?b] => destruct (vlt a b) end); cbn [rbind]; try reflexivity;
                  rewrite !Hpl by lia; cbn [rbind];
                  (destruct po as [l|]; [destruct (pdg_in (p_pdg p) l)|]); reflexivity. }
            rewrite fold_filter2. cbn [rbind app]. reflexivity. }
        rewrite fold_app2. cbn [rbind app]. reflexivity. }
    rewrite fold_app2. cbn [rbind app].
    set (phi_bin := map (fun b => map (fb b) idx) (seq 0 (length bl - 1))).
    set (phi_bin_poi := map (fun b => map (fp b) idx) (seq 0 (length bl - 1))).
    assert (Halias : (if match po with Some _ => false | None => true end then Ok phi_bin else Ok phi_bin_poi)
                     = (Ok phi_bin_poi : result (list (list (list A))))).
    { destruct po as [l|]; [reflexivity|]. f_equal. subst phi_bin phi_bin_poi. apply map_ext. intros b. apply map_ext. intros i.
      subst fb fp. cbv beta. f_equal. apply filter_ext. intros p. subst isp. unfold ispoi_of. now rewrite andb_true_r. }
    rewrite ?Halias. clear Halias. cbn [rbind].
    assert (Hlenb : length phi_bin = (length bl - 1)%nat) by (subst phi_bin; now rewrite map_length, seq_length).
    rewrite py_range_len, Hlenb, loopE_map.
    rewrite (loopE_ok _ (fun st b => st ++ [diff_bin_result self pd s po (nth b bl d) (nth (S b) bl d)])).
    2:{ intros st b Hb. apply in_seq in Hb.
        assert (Hpb : pyget phi_bin (Z.of_nat b) = Ok (map (fb b) idx)).
        { apply pyget_nat. subst phi_bin. erewrite map_nth_error; [reflexivity|]. rewrite nth_error_seq by lia. reflexivity. }
        assert (Hpbp : pyget phi_bin_poi (Z.of_nat b) = Ok (map (fp b) idx)).
        { apply pyget_nat. subst phi_bin_poi. erewrite map_nth_error; [reflexivity|]. rewrite nth_error_seq by lia. reflexivity. }
        rewrite !Hpb, !Hpbp. cbn [rbind].
        pose proof (guard_eq self pd (inb b) isp) as Hg. cbv zeta in Hg.
        pose proof (call_diff_bin_eq self pd (inb b) isp pl) as Hc. cbv zeta in Hc.
        fold idx in Hg, Hc. fold (fb b) in Hg, Hc. fold (fp b) in Hg, Hc. fold phi_all in Hc. fold self' in Hc.
        assert (Hres : diff_bin_result self pd s po (nth b bl d) (nth (S b) bl d)
                       = if mguard self pd (inb b) isp
                         then match call_diff_bin K k0 k1 kadd kmul ksub kopp kdiv kleb kltb krpow kcsqrt A expi self' phi_all
                                      (map (fb b) idx) (map (fp b) idx) with Ok r => r | Err _ => [] end
                         else []).
        { rewrite Hc. unfold diff_bin_result, differential_bin, qc_diff_error. fold (inb b). fold isp.
          unfold valid in Hv. rewrite Hv. cbn [negb].
          unfold gen_diff_rejected_k. cbn [existsb]. rewrite orb_false_r, Hk6.
          unfold mguard. cbv zeta.
          destruct (_ && _ && _); [|reflexivity].
          apply andb_prop in Hv. destruct Hv as [Hk _]. unfold gen_k_allowed in Hk.
          destruct (Z.to_nat (k_ self)) as [|[|[|[|[|[|[|?]]]]]]]; cbn in Hk, Hk6; try discriminate; reflexivity. }
        rewrite Hres. rewrite <- Hg.
        destruct (0 <? py_len (map (fb b) idx))%Z; cbn [rbind andb]; [|reflexivity].
        destruct (_ && _); cbn [rbind]; [|reflexivity].
        rewrite Hc. apply andb_prop in Hv. destruct Hv as [Hk _]. unfold gen_k_allowed in Hk.
        destruct (Z.to_nat (k_ self)) as [|[|[|[|[|[|[|?]]]]]]]; cbn in Hk, Hk6; try discriminate; reflexivity. }
    rewrite fold_app1. cbn [rbind app].
    subst self' pl. unfold planes_of, py_len. reflexivity.
  Qed.
  (* ---------------------------------------------------------------- from the constructor arguments: no hypothesis on the object *)
  Theorem source_ctor_integrated_flow n k imag pd inbin ispoi :
    rbind (GG gen_init n k imag) (fun self => GG gen_integrated_flow self pd)
    = rbind (init_spec n k imag) (fun self => int_spec self pd inbin ispoi).
  Proof.
    destruct (GG gen_init n k imag) as [self|e] eqn:Hi.
    - destruct (init_valid _ _ _ _ Hi) as [Hv _]. rewrite source_init in Hi. rewrite Hi. cbn [rbind].
      apply source_integrated_flow, Hv.
    - rewrite source_init in Hi. rewrite Hi. reflexivity.
  Qed.
  Theorem source_ctor_differential_flow n k imag pd bins sel poi :
    rbind (GG gen_init n k imag) (fun self => GG gen_differential_flow self pd bins sel poi)
    = rbind (init_spec n k imag) (fun self => diff_spec self pd bins sel poi).
  Proof.
    destruct (GG gen_init n k imag) as [self|e] eqn:Hi.
    - destruct (init_valid _ _ _ _ Hi) as [Hv _]. rewrite source_init in Hi. rewrite Hi. cbn [rbind].
      apply source_differential_flow, Hv.
    - rewrite source_init in Hi. rewrite Hi. reflexivity.
  Qed.

  (* every event list of the hand model whose rotations are the unit vectors of the sampled angles is mk_events of its
     particle lists: the theorems above cover all events / rotations the hand model quantifies over *)
  Lemma mk_events_cover n (evs : list (event K P)) :
    (forall i, (i < length evs)%nat -> fst (nth i evs (c0 K k0, [])) = expi n (rand_uniform (Z.of_nat i))) ->
    mk_events n (map snd evs) = evs.
  Proof.
    intros H. unfold mk_events. rewrite map_length.
    transitivity (map (fun i => nth i evs (c0 K k0, [])) (seq 0 (length evs))); [|apply map_seq_nth].
    apply map_ext_in. intros i Hi. apply in_seq in Hi.
    assert (Hs : nth i (map snd evs) [] = snd (nth i evs (c0 K k0, []))) by exact (map_nth snd evs (c0 K k0, []) i).
    rewrite Hs, <- H by lia. destruct (nth i evs (c0 K k0, [])); reflexivity.
  Qed.
End Glue.

(* defaults of the parameters: QCumulantFlow(n=2, k=2, imaginary="zero"), differential_flow(..., poi_pdg=None) *)
Lemma source_defaults :
  gen_init_default_n = SInt 2 /\ gen_init_default_k = SInt 2 /\ gen_init_default_imaginary = SStr "zero"
  /\ gen_differential_flow_default_poi_pdg = QNone
  /\ gen_init_default_k = SInt (Z.of_nat gen_default_k) /\ gen_init_default_imaginary = SStr gen_default_imag.
Proof. repeat split; reflexivity. Qed.

(* the hypotheses are satisfiable and the translated methods run: K = Z, angles 0 / pi as booleans with xor as addition,
   expi n a = (-1)^(n a) *)
Definition ex_expi (n : Z) (a : bool) : cpx Z := if a && Z.odd n then (-1, 0)%Z else (1, 0)%Z.
Lemma source_example :
  (forall n a b, ex_expi n (xorb a b) = cmul Z Z.add Z.mul Z.sub (ex_expi n a) (ex_expi n b)) /\
  (exists self, gen_init Z 0%Z 1%Z Z.add Z.mul Z.sub Z.opp Z.div Z.leb Z.ltb (fun _ _ x => x) (fun z => z) bool xorb ex_expi
                  Z (fun _ => 0%Z) Z.geb Z.ltb Z.gtb Z.leb nat (fun p => Nat.odd p) Z.of_nat Z.of_nat Z.of_nat (fun p => Some (Z.of_nat p))
                  (fun i => Z.odd i) (SInt 2) (SInt 2) (SStr "zero") = Ok self /\
     exists r, gen_differential_flow Z 0%Z 1%Z Z.add Z.mul Z.sub Z.opp Z.div Z.leb Z.ltb (fun _ _ x => x) (fun z => z) bool xorb ex_expi
                  Z (fun _ => 0%Z) Z.geb Z.ltb Z.gtb Z.leb nat (fun p => Nat.odd p) Z.of_nat Z.of_nat Z.of_nat (fun p => Some (Z.of_nat p))
                  (fun i => Z.odd i) self [[1; 2; 3; 4]%nat; [2; 3; 5]%nat] (QList [0; 3; 9]%Z) (SStr "pT") (QArray [SNpInt 3; SInt 2])
                = Ok (set_rand_reaction_planes_ self [false; true], r) /\ length r = 2%nat).
Proof.
  split.
  - intros n a b. unfold ex_expi. destruct a, b, (Z.odd n); reflexivity.
  - eexists. split; [reflexivity|]. eexists. split; [vm_compute; reflexivity|reflexivity].
Qed.

(* C02 (JETSCAPE): events=k, selections past the last event, events= together with a constructor filter, sigmaGen.
   Same structure as Proofs/C02_Oscar.v / C02_Filter.v; the JETSCAPE loader closes an event when it meets the NEXT
   event header (or the sigmaGen trailer), so the loop invariant carries the event that is still open. *)
From Coq Require Import List String ZArith QArith Bool Arith Lia.
From SX Require Import Lib.Strs Gen.GenParticleMap Model.Oscar Model.OscarDoc Model.Jetscape Model.JetscapeDoc
  Proofs.C01_Oscar Proofs.C01_Jetscape Proofs.C02_Oscar Proofs.C02_Filter Proofs.C02_Jetscape.
Import ListNotations.
Local Open Scope string_scope.

Section P.
  Variable tok_float : string -> option Q.
  Variable tok_int : string -> option Q.
  Variable pdg_valid : Q -> bool.
  Variable pdg_charge : Q -> Q.
  Variable usqrt : Q -> Q.
  Variable defstr : string.

  Notation jwf_row := (jwf_row tok_float tok_int pdg_valid pdg_charge usqrt defstr).
  Notation jwf_events := (jwf_events tok_float tok_int pdg_valid pdg_charge usqrt defstr).
  Notation JWF := (jwf tok_float tok_int pdg_valid pdg_charge usqrt defstr).
  Notation PARSE := (jparse_rows tok_float tok_int pdg_valid pdg_charge usqrt).
  Notation JREAD := (jread tok_float tok_int pdg_valid pdg_charge usqrt).
  Notation JLOAD := (jload tok_float tok_int pdg_valid pdg_charge usqrt).
  Notation JSLICED := (jsliced tok_float tok_int pdg_valid pdg_charge usqrt).
  Notation JEXPECTED := (jexpected tok_float tok_int pdg_valid pdg_charge usqrt).

  (* ------------------------------------------------------------------ events=k is events=(k,k), for ANY file and filter *)
  Lemma jread_one_range flt k : forall n first ls st,
    JREAD flt (SelOne k) first n ls st = JREAD flt (SelRange k k) first n ls st.
  Proof.
    induction n as [|n IH]; intros first ls st; [reflexivity|].
    cbn [jread]. destruct ls as [|l t]; [reflexivity|].
    cbn [sel_first first_header].
    destruct (has "#" l && has "sigmaGen" l).
    - destruct (jclose flt k st) as [st'|]; cbn [bind]; [apply IH|reflexivity].
    - destruct (first && negb (has "#" l) && negb (has "weight" l)); [reflexivity|].
      destruct (has "Event" l && has "weight" l).
      + destruct (nth_error l 2) as [e|]; [|reflexivity]. destruct (tok_int e) as [ev|]; [|reflexivity].
        destruct (to_Z ev =? 1 + k)%Z; [apply IH|].
        destruct (jclose flt k st) as [st'|]; cbn [bind]; [apply IH|reflexivity].
      + destruct (mk_jet_particle tok_float tok_int pdg_valid pdg_charge usqrt l) as [p|]; cbn [bind]; [apply IH|reflexivity].
  Qed.

  Lemma jnum_read_one k cnts : (0 <= k)%Z -> jnum_read (SelOne k) cnts = jnum_read (SelRange k k) cnts.
  Proof.
    intros Hk. cbn [jnum_read]. replace (Z.to_nat (k - k + 1)) with 1%nat by lia.
    cbn [jsum]. destruct (zcount cnts (Z.to_nat k)); cbn [bind]; [f_equal; lia|reflexivity].
  Qed.

  Theorem jload_single_is_range flt file k : (0 <= k)%Z ->
    JLOAD flt file defstr (SelOne k) = JLOAD flt file defstr (SelRange k k).
  Proof.
    intros Hk. unfold jload.
    destruct (negb (has "sigmaGen" (last file []))); [reflexivity|].
    destruct (jscan tok_int defstr file) as [cnts|]; [|reflexivity]. cbn [bind].
    change (jnum_skip (SelOne k) cnts) with (jnum_skip (SelRange k k) cnts).
    rewrite (jnum_read_one k cnts Hk).
    destruct (jnum_skip (SelRange k k) cnts) as [ns|]; [|reflexivity]. cbn [bind].
    destruct (jnum_read (SelRange k k) cnts) as [nr|]; [|reflexivity]. cbn [bind].
    rewrite jread_one_range.
    cbn [sel_counts]. replace (Z.to_nat (k - k + 1)) with 1%nat by lia. reflexivity.
  Qed.

  (* ------------------------------------------------------------------ sigmaGen does not depend on selection or filter *)
  Theorem jload_sigma_indep flt1 flt2 file sel1 sel2 r1 r2 :
    JLOAD flt1 file defstr sel1 = Ok r1 -> JLOAD flt2 file defstr sel2 = Ok r2 -> j_sigma r1 = j_sigma r2.
  Proof.
    unfold jload.
    destruct (negb (has "sigmaGen" (last file []))); [discriminate|].
    destruct (jscan tok_int defstr file) as [cnts|]; [|discriminate]. cbn [bind].
    destruct (jnum_skip sel1 cnts) as [ns1|]; [|discriminate].
    destruct (jnum_skip sel2 cnts) as [ns2|]; [|discriminate]. cbn [bind].
    destruct (jnum_read sel1 cnts) as [nr1|]; [|discriminate].
    destruct (jnum_read sel2 cnts) as [nr2|]; [|discriminate]. cbn [bind].
    destruct (JREAD flt1 sel1 true _ _ _) as [st1|]; [|discriminate].
    destruct (JREAD flt2 sel2 true _ _ _) as [st2|]; [|discriminate]. cbn [bind].
    destruct (match sel1 with SelAll => _ | _ => _ end) as [f1|]; [|discriminate].
    destruct (match sel2 with SelAll => _ | _ => _ end) as [f2|]; [|discriminate]. cbn [bind].
    destruct (first_floats tok_float 2 _) as [|s1 [|s2 [|s3 l]]]; try discriminate.
    intros H1 H2. inversion H1; inversion H2; subst. reflexivity.
  Qed.

  (* ------------------------------------------------------------------ loading a rendered well-formed document: the part
     before the read loop (trailer check, header scan) *)
  Lemma jload_prefix flt d s1 s2 sel : JWF d s1 s2 ->
    JLOAD flt (jrender d) defstr sel =
      (let cnts := jcounts_from 0 (jd_events d) in
       ns <- jnum_skip sel cnts ;;
       nr <- jnum_read sel cnts ;;
       st <- JREAD flt sel true (Z.to_nat nr) (skipn (Z.to_nat ns) (jrender d))
               {| plist := []; data := []; counts := sel_counts sel cnts; cut := 0 |} ;;
       fin <- match sel with
              | SelAll => if (Z.of_nat (List.length (plist st)) =? Z.of_nat (List.length cnts) - cut st)%Z
                          then Ok ((Z.of_nat (List.length cnts) - cut st)%Z, counts st, true) else Err IndexError
              | _ => Ok (Z.of_nat (List.length (plist st)), counts st, true)
              end ;;
       Ok {| j_events := match plist st with [] => [[]] | pl => pl end;
             j_nevents := fst (fst fin); j_counts := snd (fst fin); j_counts_2d := snd fin; j_sigma := (s1, s2) |}).
  Proof.
    intros (Hh0 & Hne & Hev & Htr & Htc & Hsig).
    assert (Hl : last (jrender d) [] = jd_trailer d).
    { unfold jrender. change (jd_h0 d :: jrender_events (jd_events d) ++ [jd_trailer d])%list
        with ((jd_h0 d :: jrender_events (jd_events d)) ++ [jd_trailer d])%list. apply last_last. }
    assert (Hscan : jscan tok_int defstr (jrender d) = Ok (jcounts_from 0 (jd_events d))).
    { unfold jrender. cbn [jscan]. unfold is_count_line in Hh0. rewrite Hh0.
      rewrite (jscan_events tok_float tok_int pdg_valid pdg_charge usqrt defstr (jd_events d) 0 [jd_trailer d] Hev).
      cbn [jscan]. unfold is_count_line in Htc. rewrite Htc. cbn [jscan bind]. rewrite app_nil_r. reflexivity. }
    unfold jload. rewrite !Hl, Hscan. unfold is_trailer in Htr. apply andb_true_iff in Htr. destruct Htr as [Htr1 Htr2].
    rewrite Htr2. cbn [negb bind].
    rewrite Hsig. reflexivity.
  Qed.

  (* ------------------------------------------------------------------ a selection reaching past the last event *)
  Lemma jcounts_from_none : forall evs i k, (List.length evs <= k)%nat -> nth_error (jcounts_from i evs) k = None.
  Proof. intros. apply nth_error_None. rewrite jcounts_len. assumption. Qed.

  Lemma jsum_oob : forall n evs i from,
    (from <= List.length evs)%nat -> (List.length evs < from + n)%nat ->
    jsum (jcounts_from i evs) from n = Err IndexError.
  Proof.
    induction n as [|n IH]; intros evs i from H1 H2; [lia|].
    cbn [jsum]. unfold zcount.
    destruct (nth_error evs from) as [e|] eqn:E.
    - rewrite (jcounts_from_nth evs i from e E). cbn [bind snd].
      assert (from < List.length evs)%nat by (apply nth_error_Some; congruence).
      rewrite (IH evs i (S from)) by lia. reflexivity.
    - rewrite jcounts_from_none by (apply nth_error_None; exact E). reflexivity.
  Qed.

  Theorem jload_range_oob flt d s1 s2 (a b : nat) :
    JWF d s1 s2 -> (a <= b)%nat -> (List.length (jd_events d) <= b)%nat ->
    JLOAD flt (jrender d) defstr (SelRange (Z.of_nat a) (Z.of_nat b)) = Err IndexError.
  Proof.
    intros Hwf Hab Hb. rewrite (jload_prefix flt d s1 s2 _ Hwf). cbv zeta.
    cbn [jnum_skip jnum_read]. rewrite !Nat2Z.id.
    destruct (Nat.le_gt_cases a (List.length (jd_events d))) as [Ha|Ha].
    - rewrite (jsum_ok a (jd_events d) 0 0) by lia. cbn [bind].
      replace (Z.to_nat (Z.of_nat b - Z.of_nat a + 1)) with (b - a + 1)%nat by lia.
      rewrite (jsum_oob (b - a + 1) (jd_events d) 0 a) by lia. reflexivity.
    - rewrite (jsum_oob a (jd_events d) 0 0) by lia. reflexivity.
  Qed.

  Corollary jload_single_oob flt d s1 s2 (k : nat) :
    JWF d s1 s2 -> (List.length (jd_events d) <= k)%nat ->
    JLOAD flt (jrender d) defstr (SelOne (Z.of_nat k)) = Err IndexError.
  Proof.
    intros Hwf Hk. rewrite jload_single_is_range by lia. apply (jload_range_oob flt d s1 s2 k k Hwf); lia.
  Qed.

  (* ------------------------------------------------------------------ events=k on a well-formed document *)
  Corollary jload_single d s1 s2 (k : nat) :
    JWF d s1 s2 -> (k < List.length (jd_events d))%nat ->
    JLOAD None (jrender d) defstr (SelOne (Z.of_nat k)) = Ok (JSLICED d s1 s2 k 1).
  Proof.
    intros Hwf Hk. rewrite jload_single_is_range by lia.
    rewrite (jload_range tok_float tok_int pdg_valid pdg_charge usqrt defstr d s1 s2 k k Hwf) by lia.
    replace (k - k + 1)%nat with 1%nat by lia. reflexivity.
  Qed.

  (* the selection is the slice of the unrestricted load, field by field *)
  Lemma jcounts_from_skipn : forall a evs i, skipn a (jcounts_from i evs) = jcounts_from (i + a) (skipn a evs).
  Proof.
    induction a as [|a IH]; intros evs i; [rewrite Nat.add_0_r; reflexivity|].
    destruct evs as [|e t]; [reflexivity|]. cbn [jcounts_from skipn]. rewrite IH. f_equal. lia.
  Qed.

  Lemma jsliced_is_slice d s1 s2 a n :
    j_events (JSLICED d s1 s2 a n) = firstn n (skipn a (j_events (JEXPECTED d s1 s2))) /\
    j_counts (JSLICED d s1 s2 a n) = firstn n (skipn a (j_counts (JEXPECTED d s1 s2))) /\
    j_counts_2d (JSLICED d s1 s2 a n) = j_counts_2d (JEXPECTED d s1 s2) /\
    j_sigma (JSLICED d s1 s2 a n) = j_sigma (JEXPECTED d s1 s2) /\
    j_nevents (JSLICED d s1 s2 a n) = Z.of_nat n.
  Proof.
    unfold jsliced, jexpected. cbn [j_events j_counts j_counts_2d j_sigma j_nevents].
    rewrite skipn_map, firstn_map. repeat split.
  Qed.

  (* stated directly on the two loads *)
  Theorem jload_range_vs_full d s1 s2 (a b : nat) :
    JWF d s1 s2 -> (a <= b)%nat -> (b < List.length (jd_events d))%nat ->
    exists full, JLOAD None (jrender d) defstr SelAll = Ok full /\
      JLOAD None (jrender d) defstr (SelRange (Z.of_nat a) (Z.of_nat b))
      = Ok {| j_events := firstn (b - a + 1) (skipn a (j_events full));
              j_nevents := Z.of_nat (b - a + 1);
              j_counts := firstn (b - a + 1) (skipn a (j_counts full));
              j_counts_2d := j_counts_2d full;
              j_sigma := j_sigma full |}.
  Proof.
    intros Hwf Hab Hb. exists (JEXPECTED d s1 s2). split.
    - apply (jload_render tok_float tok_int pdg_valid pdg_charge usqrt defstr d s1 s2 Hwf).
    - rewrite (jload_range tok_float tok_int pdg_valid pdg_charge usqrt defstr d s1 s2 a b Hwf Hab Hb).
      destruct (jsliced_is_slice d s1 s2 a (b - a + 1)) as (H1 & H2 & H3 & H4 & H5).
      rewrite <- H1, <- H2, <- H3, <- H4. reflexivity.
  Qed.

  (* the labels of a selection are the original ones a+1 .. a+n, the counts the selected events' sizes *)
  Lemma jsliced_counts d s1 s2 a n : (a + n <= List.length (jd_events d))%nat ->
    j_counts (JSLICED d s1 s2 a n)
    = relab (Z.of_nat a + 1) (map (fun e => List.length (je_rows e)) (firstn n (skipn a (jd_events d)))).
  Proof.
    intros _. unfold jsliced. cbn [j_counts]. rewrite (jcounts_from_skipn a (jd_events d) 0). cbn [Nat.add].
    generalize (skipn a (jd_events d)) as l. generalize a as o. clear.
    induction n as [|n IH]; intros o [|e l]; cbn [firstn jcounts_from map relab]; try reflexivity.
    rewrite IH. do 2 f_equal. lia.
  Qed.

  (* ================================================================== with a constructor filter *)
  Section F.
  Variable f : list particle -> list particle.          (* the constructor filter on one event *)
  Notation JREADF := (jread tok_float tok_int pdg_valid pdg_charge usqrt (Some f)).
  Notation JLOADF := (jload tok_float tok_int pdg_valid pdg_charge usqrt (Some f)).
  Notation keeps := (keeps f).
  Notation kept := (kept f).
  Notation LEN := (@List.length particle).

  (* particle rows accumulate in data whatever the filter *)
  Lemma jrows_flt flt sel : forall rows n rest st,
    Forall jwf_row rows ->
    JREAD flt sel false (List.length rows + n) (rows ++ rest)%list st
    = JREAD flt sel false n rest (jadd_data st (PARSE rows)).
  Proof.
    induction rows as [|r rows IH]; intros n rest st H.
    - cbn [List.length Nat.add app jparse_rows]. unfold jadd_data. rewrite app_nil_r. destruct st; reflexivity.
    - inversion H as [|? ? Hr Hrs]; subst. destruct Hr as (_ & Ht & He & p & Hp).
      cbn [List.length Nat.add app jread jparse_rows].
      unfold is_trailer in Ht. unfold is_evhead in He. rewrite Ht, He, Hp. cbn [andb bind].
      rewrite IH by exact Hrs. f_equal. unfold jadd_data; cbn. rewrite <- app_assoc. reflexivity.
  Qed.

  Lemma jparse_len rows : Forall jwf_row rows -> List.length rows = List.length (PARSE rows).
  Proof.
    induction 1 as [|r rows (_ & _ & _ & p & Hp) _ IH]; [reflexivity|].
    cbn [jparse_rows List.length]. rewrite Hp. cbn [List.length]. f_equal. exact IH.
  Qed.

  (* closing one event under the invariant  counts = relab (first+1) (sizes kept ++ size open :: sizes still to come);
     JETSCAPE labels are 1-based, and the data buffer is left as filtered (the caller resets it) *)
  Lemma jclose_some first pl dat rest_sizes c :
    jclose (Some f) first
      {| plist := pl; data := dat;
         counts := relab (first + 1) (map LEN pl ++ List.length dat :: rest_sizes); cut := c |}
    = Ok (if keeps dat
          then {| plist := (pl ++ [f dat])%list; data := f dat;
                  counts := relab (first + 1) (map LEN (pl ++ [f dat]) ++ rest_sizes); cut := c |}
          else {| plist := pl; data := f dat;
                  counts := relab (first + 1) (map LEN pl ++ rest_sizes); cut := (c + 1)%Z |}).
  Proof.
    unfold jclose, C02_Filter.keeps. cbn [plist data counts cut].
    destruct (negb (List.length (f dat) =? 0)%nat || (List.length dat =? 0)%nat) eqn:K.
    - pose proof (set_row_relab (first + 1) (map LEN pl) (List.length dat) (List.length (f dat)) rest_sizes) as H.
      rewrite map_length in H.
      replace (first + Z.of_nat (List.length pl) + 1)%Z with (first + 1 + Z.of_nat (List.length pl))%Z by lia.
      rewrite H. cbn [bind]. rewrite map_app. cbn [map]. rewrite <- app_assoc. reflexivity.
    - assert (Hlt : (List.length pl <? List.length (relab (first + 1) (map LEN pl ++ List.length dat :: rest_sizes)))%nat = true).
      { apply Nat.ltb_lt. rewrite relab_length, app_length, map_length. cbn [List.length]. lia. }
      rewrite Hlt.
      pose proof (delete_dec_relab (first + 1) (map LEN pl) (List.length dat) rest_sizes) as H.
      rewrite map_length in H. rewrite H. reflexivity.
  Qed.

  (* the events after the first selected one: each header closes (filters) the event before it *)
  Fixpoint jfoldf (pl : list (list particle)) (c : Z) (cur : list particle) (evs : list jevent)
    : list (list particle) * Z * list particle :=
    match evs with
    | [] => (pl, c, cur)
    | e :: t => if keeps cur then jfoldf (pl ++ [f cur])%list c (PARSE (je_rows e)) t
                else jfoldf pl (c + 1)%Z (PARSE (je_rows e)) t
    end.

  Lemma jfoldf_all : forall evs pl c cur,
    (fst (fst (jfoldf pl c cur evs)) ++ kept [snd (jfoldf pl c cur evs)])%list
    = (pl ++ kept (cur :: map (fun e => PARSE (je_rows e)) evs))%list.
  Proof.
    induction evs as [|e t IH]; intros pl c cur; cbn [jfoldf fst snd map]; [reflexivity|].
    cbn [C02_Filter.kept]. destruct (keeps cur) eqn:K.
    - rewrite IH. rewrite <- app_assoc. reflexivity.
    - rewrite IH. reflexivity.
  Qed.

  Lemma jevents_f sel (a : nat) :
    first_header sel = (Z.of_nat a + 1)%Z -> sel_first sel = Z.of_nat a ->
    forall evs i n rest pl cur c more, (a < i)%nat ->
    jwf_events i evs ->
    JREADF sel false (List.length (jrender_events evs) + n) (jrender_events evs ++ rest)%list
       {| plist := pl; data := cur;
          counts := relab (Z.of_nat a + 1)
                      (map LEN pl ++ List.length cur :: map (fun e => List.length (je_rows e)) evs ++ more);
          cut := c |}
    = JREADF sel false n rest
       {| plist := fst (fst (jfoldf pl c cur evs)); data := snd (jfoldf pl c cur evs);
          counts := relab (Z.of_nat a + 1)
                      (map LEN (fst (fst (jfoldf pl c cur evs))) ++ List.length (snd (jfoldf pl c cur evs)) :: more);
          cut := snd (fst (jfoldf pl c cur evs)) |}.
  Proof.
    intros Hfh Hsf. induction evs as [|e evs IH]; intros i n rest pl cur c more Hai H; [reflexivity|].
    destruct H as ((_ & Htr & Hev & (lt & ct & H2 & _ & Hl & _) & Hrows) & Ht).
    unfold jrender_events. cbn [flat_map]. fold (jrender_events evs).
    unfold jrender_event. rewrite <- app_assoc. cbn [app List.length]. rewrite app_length.
    match goal with |- jread _ _ _ _ _ _ _ _ ?k _ _ = _ =>
      replace k with (S (List.length (je_rows e) + (List.length (jrender_events evs) + n)))%nat by lia end.
    cbn [jread]. unfold is_trailer in Htr. unfold is_evhead in Hev. rewrite Htr, Hev, H2, Hl.
    cbn [andb]. rewrite to_Z_zq, Hfh, Hsf.
    replace (Z.of_nat i + 1 =? Z.of_nat a + 1)%Z with false by (symmetry; apply Z.eqb_neq; lia).
    cbn [map app].
    rewrite (jclose_some (Z.of_nat a) pl cur (List.length (je_rows e) :: map (fun e0 => List.length (je_rows e0)) evs ++ more) c).
    cbn [jfoldf].
    destruct (keeps cur); cbn [bind plist data counts cut].
    - rewrite jrows_flt by exact Hrows. unfold jadd_data. cbn [plist data counts cut app].
      rewrite (jparse_len (je_rows e) Hrows).
      rewrite (IH (S i)) by (try exact Ht; lia). reflexivity.
    - rewrite jrows_flt by exact Hrows. unfold jadd_data. cbn [plist data counts cut app].
      rewrite (jparse_len (je_rows e) Hrows).
      rewrite (IH (S i)) by (try exact Ht; lia). reflexivity.
  Qed.

  (* what the constructor with events=(a,b) and filters= returns *)
  Definition jfiltered (d : jdoc) (s1 s2 : Q) (a n : nat) : jloaded :=
    let evs := kept (map (fun e => PARSE (je_rows e)) (firstn n (skipn a (jd_events d)))) in
    {| j_events := match evs with [] => [[]] | _ => evs end;
       j_nevents := Z.of_nat (List.length evs);
       j_counts := relab (Z.of_nat a + 1) (map LEN evs);
       j_counts_2d := true;
       j_sigma := (s1, s2) |}.

  Theorem jload_range_filtered d s1 s2 (a b : nat) :
    JWF d s1 s2 -> (a <= b)%nat -> (b < List.length (jd_events d))%nat ->
    JLOADF (jrender d) defstr (SelRange (Z.of_nat a) (Z.of_nat b)) = Ok (jfiltered d s1 s2 a (b - a + 1)).
  Proof.
    intros Hwf Hab Hb. rewrite (jload_prefix (Some f) d s1 s2 _ Hwf). cbv zeta.
    destruct Hwf as (Hh0 & Hne & Hev & Htr & Htc & Hsig).
    set (evs := jd_events d) in *.
    set (A := firstn a evs). set (B := firstn (b - a + 1) (skipn a evs)). set (C := skipn (b - a + 1) (skipn a evs)).
    assert (Hsplit : evs = (A ++ B ++ C)%list) by (unfold A, B, C; rewrite firstn_skipn, firstn_skipn; reflexivity).
    assert (HlenB : List.length B = (b - a + 1)%nat) by (unfold B; rewrite firstn_length, skipn_length; lia).
    assert (HwB : jwf_events a B).
    { unfold B. apply jwf_events_firstn. apply (jwf_events_skipn tok_float tok_int pdg_valid pdg_charge usqrt defstr a evs 0 Hev). }
    assert (HwC : jwf_events (a + (b - a + 1)) C).
    { unfold C. apply (jwf_events_skipn tok_float tok_int pdg_valid pdg_charge usqrt defstr (b - a + 1) (skipn a evs) a).
      apply (jwf_events_skipn tok_float tok_int pdg_valid pdg_charge usqrt defstr a evs 0 Hev). }
    unfold is_trailer in Htr. apply andb_true_iff in Htr. destruct Htr as [Htr1 Htr2].
    cbn [jnum_skip jnum_read bind sel_first sel_counts]. rewrite !Nat2Z.id.
    rewrite (jsum_ok a evs 0 0) by lia. cbn [skipn bind]. fold A.
    replace (Z.to_nat (Z.of_nat b - Z.of_nat a + 1)) with (b - a + 1)%nat by lia.
    rewrite (jsum_ok (b - a + 1) evs 0 a) by lia. fold B. cbn [bind].
    assert (Hbody : skipn (Z.to_nat (1 + Z.of_nat (List.length (jrender_events A)))) (jrender d)
                    = (jrender_events B ++ (jrender_events C ++ [jd_trailer d]))%list).
    { replace (Z.to_nat (1 + Z.of_nat (List.length (jrender_events A)))) with (S (List.length (jrender_events A))) by lia.
      unfold jrender. fold evs. cbn [skipn]. rewrite Hsplit at 1. rewrite !jrender_events_app, <- !app_assoc.
      rewrite skipn_app, skipn_all, Nat.sub_diag. reflexivity. }
    rewrite Hbody.
    replace (Z.to_nat (Z.of_nat (List.length (jrender_events B)) + 1))
      with (List.length (jrender_events B) + 1)%nat by lia.
    (* the count rows of the selection *)
    assert (Hslice : slice a (b - a + 1) (jcounts_from 0 evs)
                     = relab (Z.of_nat a + 1) (map (fun e => List.length (je_rows e)) B)).
    { unfold slice. rewrite (jcounts_from_skipn a evs 0). cbn [Nat.add].
      unfold B. generalize (skipn a evs) as l. generalize (b - a + 1)%nat as k. generalize a as o. clear.
      intros o k. revert o. induction k as [|k IH]; intros o [|e l]; cbn [firstn jcounts_from map relab]; try reflexivity.
      rewrite IH. do 2 f_equal. lia. }
    rewrite Hslice.
    (* first selected event: its header carries the label a+1 and is skipped *)
    destruct B as [|e0 B'] eqn:EB; [cbn in HlenB; lia|].
    destruct HwB as ((Hc0 & Ht0 & He0 & (lt & ct & H2 & _ & Hlt & _) & Hrows0) & HwB').
    unfold jrender_events at 1 2. cbn [flat_map]. fold (jrender_events B').
    unfold jrender_event at 1 2. rewrite <- !app_assoc. cbn [app List.length]. rewrite app_length.
    match goal with |- context [jread _ _ _ _ _ _ _ _ ?k _ _] =>
      replace k with (S (List.length (je_rows e0) + (List.length (jrender_events B') + 1)))%nat by lia end.
    cbn [jread]. unfold is_trailer in Ht0. unfold is_evhead in He0. unfold is_count_line in Hc0.
    rewrite Ht0. apply andb_true_iff in Hc0. destruct Hc0 as [Hh _]. rewrite Hh. cbn [negb andb].
    rewrite He0, H2, Hlt. cbn [first_header]. rewrite to_Z_zq.
    replace (Z.of_nat a + 1 =? 1 + Z.of_nat a)%Z with true by (symmetry; apply Z.eqb_eq; lia).
    rewrite jrows_flt by exact Hrows0. unfold jadd_data. cbn [plist data counts cut app map].
    rewrite (jparse_len (je_rows e0) Hrows0).
    pose proof (jevents_f (SelRange (Z.of_nat a) (Z.of_nat b)) a ltac:(unfold first_header; lia) eq_refl
                  B' (S a) 1 (jrender_events C ++ [jd_trailer d])%list [] (PARSE (je_rows e0)) 0%Z []
                  ltac:(lia) HwB') as Hrl.
    cbn [map app] in Hrl. rewrite app_nil_r in Hrl. rewrite Hrl. clear Hrl.
    (* the line after the selection: the next event's header, or the trailer - either closes (filters) the last event *)
    assert (Hnext : forall pl cur c,
      exists dd cc,
      JREADF (SelRange (Z.of_nat a) (Z.of_nat b)) false 1 (jrender_events C ++ [jd_trailer d])%list
            {| plist := pl; data := cur; counts := relab (Z.of_nat a + 1) (map LEN pl ++ [List.length cur]); cut := c |}
      = Ok {| plist := (pl ++ kept [cur])%list; data := dd;
              counts := relab (Z.of_nat a + 1) (map LEN (pl ++ kept [cur])); cut := cc |}).
    { intros pl cur c. destruct C as [|c0 C'] eqn:EC.
      - cbn [jrender_events flat_map app jread]. rewrite Htr1, Htr2. cbn [andb sel_first].
        rewrite (jclose_some (Z.of_nat a) pl cur [] c). cbn [bind C02_Filter.kept].
        destruct (keeps cur); rewrite !app_nil_r; eexists; eexists; reflexivity.
      - destruct HwC as ((_ & Htrc & Hevc & (ltc & ctc & H2c & _ & Hlc & _) & _) & _).
        unfold jrender_events. cbn [flat_map]. unfold jrender_event at 1. cbn [app jread].
        unfold is_trailer in Htrc. unfold is_evhead in Hevc. rewrite Htrc, Hevc, H2c, Hlc. cbn [andb first_header sel_first].
        rewrite to_Z_zq.
        replace (Z.of_nat (a + (b - a + 1)) + 1 =? 1 + Z.of_nat a)%Z with false by (symmetry; apply Z.eqb_neq; lia).
        rewrite (jclose_some (Z.of_nat a) pl cur [] c). cbn [bind C02_Filter.kept].
        destruct (keeps cur); cbn [plist data counts cut]; rewrite !app_nil_r; eexists; eexists; reflexivity. }
    destruct (Hnext (fst (fst (jfoldf [] 0%Z (PARSE (je_rows e0)) B'))) (snd (jfoldf [] 0%Z (PARSE (je_rows e0)) B'))
                    (snd (fst (jfoldf [] 0%Z (PARSE (je_rows e0)) B')))) as (dd & cc & Hn).
    rewrite Hn. clear Hn Hnext.
    rewrite (jfoldf_all B' [] 0%Z (PARSE (je_rows e0))). cbn [bind plist counts cut fst snd app].
    unfold jfiltered. fold evs. fold B. rewrite EB. cbn [map].
    destruct (kept (PARSE (je_rows e0) :: map (fun e => PARSE (je_rows e)) B')); reflexivity.
  Qed.

  Corollary jload_single_filtered d s1 s2 (k : nat) :
    JWF d s1 s2 -> (k < List.length (jd_events d))%nat ->
    JLOADF (jrender d) defstr (SelOne (Z.of_nat k)) = Ok (jfiltered d s1 s2 k 1).
  Proof.
    intros Hwf Hk. rewrite jload_single_is_range by lia.
    rewrite (jload_range_filtered d s1 s2 k k Hwf) by lia.
    replace (k - k + 1)%nat with 1%nat by lia. reflexivity.
  Qed.

  (* "select, then filter": the events of filtering the selected slice of the unfiltered load, one by one *)
  Theorem jfiltered_is_select_then_filter d s1 s2 a n :
    match j_events (jfiltered d s1 s2 a n) with
    | [[]] => kept (j_events (JSLICED d s1 s2 a n)) = [] \/ kept (j_events (JSLICED d s1 s2 a n)) = [[]]
    | evs => evs = kept (j_events (JSLICED d s1 s2 a n))
    end /\
    map snd (j_counts (jfiltered d s1 s2 a n))
    = map (fun ev => Z.of_nat (List.length ev)) (kept (j_events (JSLICED d s1 s2 a n))) /\
    j_nevents (jfiltered d s1 s2 a n) = Z.of_nat (List.length (kept (j_events (JSLICED d s1 s2 a n)))) /\
    j_counts_2d (jfiltered d s1 s2 a n) = true /\
    j_sigma (jfiltered d s1 s2 a n) = j_sigma (JSLICED d s1 s2 a n).
  Proof.
    unfold jfiltered, jsliced. cbn [j_events j_counts j_nevents j_counts_2d j_sigma].
    set (K := kept (map (fun e => PARSE (je_rows e)) (firstn n (skipn a (jd_events d))))).
    split; [|split; [|repeat split]].
    - destruct K as [|k0 K'] eqn:E; [left; reflexivity|]. destruct k0 as [|p k0]; destruct K' as [|k1 K'']; try reflexivity.
      right; reflexivity.
    - generalize (Z.of_nat a + 1)%Z as o. induction K as [|k K' IH]; intros o; cbn [map relab snd]; [reflexivity|]. f_equal. apply IH.
  Qed.

  (* labels: the i-th event kept carries the label a+1+i; when the filter drops no event these are the ORIGINAL labels
     of the selected events *)
  Lemma kept_all : forall l, Forall (fun ev => keeps ev = true) l -> kept l = map f l.
  Proof.
    induction 1 as [|ev l Hk _ IH]; [reflexivity|]. cbn [C02_Filter.kept map]. rewrite Hk, IH. reflexivity.
  Qed.
  Lemma relab_fst : forall l l' o, List.length l = List.length l' -> map fst (relab o l) = map fst (relab o l').
  Proof.
    induction l as [|x l IH]; intros [|y l'] o H; try discriminate; [reflexivity|].
    cbn [relab map fst]. f_equal. apply IH. cbn in H. lia.
  Qed.

  Theorem jfiltered_labels d s1 s2 a n :
    (forall i c, nth_error (j_counts (jfiltered d s1 s2 a n)) i = Some c -> fst c = (Z.of_nat a + 1 + Z.of_nat i)%Z) /\
    ((a + n <= List.length (jd_events d))%nat ->
     Forall (fun ev => keeps ev = true) (j_events (JSLICED d s1 s2 a n)) ->
     map fst (j_counts (jfiltered d s1 s2 a n)) = map fst (j_counts (JSLICED d s1 s2 a n)) /\
     map snd (j_counts (jfiltered d s1 s2 a n))
     = map (fun ev => Z.of_nat (List.length (f ev))) (j_events (JSLICED d s1 s2 a n))).
  Proof.
    split.
    - unfold jfiltered. cbn [j_counts]. generalize (Z.of_nat a + 1)%Z as o.
      generalize (map LEN (kept (map (fun e => PARSE (je_rows e)) (firstn n (skipn a (jd_events d)))))) as l.
      induction l as [|x l IH]; intros o i c H; [destruct i; discriminate|].
      destruct i as [|i]; cbn [relab nth_error] in H.
      + inversion H; subst. cbn [fst]. lia.
      + rewrite (IH (o + 1)%Z i c H). lia.
    - intros Han Hall. rewrite (jsliced_counts d s1 s2 a n Han).
      unfold jfiltered, jsliced in *. cbn [j_counts j_events] in *. rewrite (kept_all _ Hall). split.
      + apply relab_fst. rewrite !map_length. reflexivity.
      + rewrite !map_map. generalize (Z.of_nat a + 1)%Z as o.
        generalize (firstn n (skipn a (jd_events d))) as l.
        induction l as [|e l IH]; intros o; cbn [map relab snd]; [reflexivity|]. f_equal. apply IH.
  Qed.
  End F.
End P.

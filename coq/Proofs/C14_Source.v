(* C14: the hand model Model/Bulk.v EQUALS the methods regenerated from src/sparkx/BulkObservables.py
   (Gen/GenBulk.v, translator tools/py2coq/gen_bulk.py, runtime Model/BulkRt.v), for all arguments.

   The regenerated functions are the method bodies statement by statement (argument checks, loops with their
   loop-carried variables, the window comparison, the divisions); the hand model is what the property
   theorems of C14 are about.  A particle of the regenerated methods is an abstract [P] observed through
   [obs name p] (= getattr(p, name)()) and [is_callable name]; the model's particle is the value of the
   quantity (and of pT_abs / mT), which is [map (map (obs ..))] of the same events. *)
From Coq Require Import String List ZArith QArith Qcanon Bool Arith Lia.
From SX Require Import Model.Histogram Model.Bulk Model.BulkRt Gen.GenBulk.
Import ListNotations.
Local Open Scope nat_scope.

(* ---------------------------------------------------------------- the monad and the loops *)
Lemma bind_ret {A} (r : result A) : bind r (fun x => Ok x) = r.
Proof. destruct r; reflexivity. Qed.

Lemma bind_assoc {A B C} (r : result A) (f : A -> result B) (g : B -> result C) :
  bind (bind r f) g = bind r (fun x => bind (f x) g).
Proof. destruct r; reflexivity. Qed.

Lemma fold_leftM_map_ext {St A B} (m : A -> B) (f : St -> A -> result St) (g : St -> B -> result St) :
  (forall s a, f s a = g s (m a)) -> forall l s, fold_leftM f l s = fold_leftM g (map m l) s.
Proof.
  intros H. induction l as [|a t IH]; intros s; simpl; [reflexivity|].
  rewrite H. destruct (g s (m a)); simpl; auto.
Qed.

(* a loop whose body cannot raise, against a fold_left on related states *)
Lemma fold_leftM_sim {S1 S2 A B} (R : S1 -> S2 -> Prop) (m : A -> B) (f : S1 -> A -> result S1) (g : S2 -> B -> S2) :
  (forall s1 s2 a, R s1 s2 -> exists s1', f s1 a = Ok s1' /\ R s1' (g s2 (m a))) ->
  forall l s1 s2, R s1 s2 -> exists s1', fold_leftM f l s1 = Ok s1' /\ R s1' (fold_left g (map m l) s2).
Proof.
  intros H. induction l as [|a t IH]; intros s1 s2 HR; simpl.
  - exists s1. auto.
  - destruct (H s1 s2 a HR) as (s1' & E & HR'). rewrite E. simpl. apply IH, HR'.
Qed.

Lemma seq_get_nat {A} (l : list A) (i : nat) : seq_get l (Z.of_nat i) = nth_res l i.
Proof.
  unfold seq_get. destruct (Z.of_nat i <? 0)%Z eqn:E; [apply Z.ltb_lt in E; lia|]. now rewrite Nat2Z.id.
Qed.

Lemma nth_res_app {A} (pre : list A) a rest : nth_res (pre ++ a :: rest) (length pre) = Ok a.
Proof. unfold nth_res. rewrite nth_error_app2, Nat.sub_diag by lia. reflexivity. Qed.

(* `for i in range(len(l))` reading l[i], against a structural recursion that carries the index *)
Fixpoint idx_fold {St A} (body : St -> Z -> A -> result St) (l : list A) (k : nat) (s : St) : result St :=
  match l with
  | [] => Ok s
  | a :: t => bind (body s (Z.of_nat k) a) (fun s' => idx_fold body t (S k) s')
  end.

Lemma range_loop_gen {St A} (body : St -> Z -> A -> result St) (f : St -> Z -> result St) (l : list A) :
  (forall s i a, nth_res l i = Ok a -> f s (Z.of_nat i) = body s (Z.of_nat i) a) ->
  forall rest pre s, l = pre ++ rest ->
  fold_leftM f (map Z.of_nat (seq (length pre) (length rest))) s = idx_fold body rest (length pre) s.
Proof.
  intros H. induction rest as [|a t IH]; intros pre s E; simpl; [reflexivity|].
  rewrite (H s (length pre) a) by (rewrite E; apply nth_res_app).
  destruct (body s (Z.of_nat (length pre)) a) as [s'|c]; simpl; [|reflexivity].
  specialize (IH (pre ++ [a]) s'). rewrite app_length in IH. simpl in IH. rewrite Nat.add_1_r in IH.
  apply IH. rewrite <- app_assoc. exact E.
Qed.

Lemma range_loop {St A} (body : St -> Z -> A -> result St) (f : St -> Z -> result St) (l : list A) s :
  (forall s i a, nth_res l i = Ok a -> f s (Z.of_nat i) = body s (Z.of_nat i) a) ->
  fold_leftM f (py_range (py_len l)) s = idx_fold body l 0 s.
Proof.
  intros H. unfold py_range, py_len. rewrite Nat2Z.id. exact (range_loop_gen body f l H l [] s eq_refl).
Qed.

(* the loop with `break` that looks at the first non-empty event *)
Lemma for_break_first {A} (f : unit -> list A -> result (unit * bool)) (qc : bool) :
  f tt [] = Ok (tt, false) ->
  (forall a t, f tt (a :: t) = if qc then Ok (tt, true) else Err AttributeError) ->
  forall evs, for_break f evs tt = first_particle_check qc evs.
Proof.
  intros H0 H1. induction evs as [|[|a t] rest IH]; simpl; [reflexivity| |].
  - rewrite H0. simpl. exact IH.
  - rewrite H1. destruct qc; reflexivity.
Qed.

Lemma first_particle_check_map {A B} (g : A -> B) qc (evs : list (list A)) :
  first_particle_check qc (map (map g) evs) = first_particle_check qc evs.
Proof. induction evs as [|[|a t] rest IH]; simpl; auto. Qed.

(* ---------------------------------------------------------------- the window test *)
Lemma window_eq (w : Qc) (x : cell) :
  cmp_cc Qcleb (Some ((- w)%Qc / Q2Qc (2 # 1))%Qc) x && cmp_cc Qcleb x (Some (w / Q2Qc (2 # 1))%Qc) = in_window w x.
Proof. destruct x; reflexivity. Qed.

Lemma int_q_nat n : int_q (Z.of_nat n) = qnat n.
Proof. reflexivity. Qed.

Section Methods.
  Variable usqrt : Qc -> Qc.
  Variable ulinspace : Qc -> Qc -> nat -> list Qc.
  Variable P : Type.
  Variable obs : string -> P -> cell.
  Variable is_callable : string -> bool.

  Notation g_yield := (gen__differential_yield usqrt ulinspace P obs is_callable).
  Notation g_mid_yield := (gen_mid_rapidity_yield P obs is_callable).
  Notation g_mean_pT := (gen_mid_rapidity_mean_pT P obs is_callable).
  Notation g_mean_mT := (gen_mid_rapidity_mean_mT P obs is_callable).

  (* ------------------------------------------------------------ mid_rapidity_yield *)
  Lemma count_loop w q : forall (evs : list (list P)) (c : nat),
    exists z, fold_leftM (fun pc ev => bind (fold_leftM (fun pc p =>
                 if cmp_cc Qcleb (Some ((- w)%Qc / Q2Qc (2 # 1))%Qc) (obs (fst (q, p)) (snd (q, p)))
                    && cmp_cc Qcleb (obs (fst (q, p)) (snd (q, p))) (Some (w / Q2Qc (2 # 1))%Qc)
                 then Ok (pc + 1)%Z else Ok pc) ev pc) (fun pc => Ok pc)) evs (Z.of_nat c) = Ok z
              /\ z = Z.of_nat (fold_left (count_event w) (map (map (obs q)) evs) c).
  Proof.
    intros evs c.
    apply (fold_leftM_sim (fun (z : Z) (n : nat) => z = Z.of_nat n) (map (obs q))); [|reflexivity].
    intros z n ev ->. rewrite bind_ret. unfold count_event.
    apply (fold_leftM_sim (fun (z : Z) (n : nat) => z = Z.of_nat n) (obs q)); [|reflexivity].
    intros z' n' p ->. cbn [fst snd]. rewrite window_eq.
    destruct (in_window w (obs q p)); eexists; split; try reflexivity. lia.
  Qed.

  Theorem source_mid_yield w q evs :
    g_mid_yield (WNum w) q evs = mid_rapidity_yield (is_callable q) w (map (map (obs q)) evs).
  Proof.
    unfold gen_mid_rapidity_yield, mid_rapidity_yield. cbn [number_is has existsb pyty_eqb orb andb negb].
    destruct (Qcleb w 0); [reflexivity|].
    destruct evs as [|ev rest]; [reflexivity|].
    cbv zeta. replace (py_len (ev :: rest) =? 0)%Z with false by (unfold py_len; simpl length; symmetry; apply Z.eqb_neq; lia).
    rewrite (for_break_first _ (is_callable q)).
    - rewrite first_particle_check_map.
      destruct (first_particle_check (is_callable q) (ev :: rest)); [|reflexivity]. cbn [bind].
      destruct (count_loop w q (ev :: rest) 0) as (z & E & ->). change (Z.of_nat 0) with 0%Z in E.
      rewrite E. cbn [bind]. unfold py_div_int, py_len.
      replace (Z.of_nat (length (ev :: rest)) =? 0)%Z with false by (simpl length; symmetry; apply Z.eqb_neq; lia).
      rewrite !int_q_nat, map_length. reflexivity.
    - reflexivity.
    - intros a t. cbn. destruct (is_callable q); reflexivity.
  Qed.

  Theorem source_mid_yield_type q evs : g_mid_yield WOther q evs = Err TypeError.
  Proof. reflexivity. Qed.

  (* ------------------------------------------------------------ mid_rapidity_mean_pT / mT *)
  Definition Rstat (a : cell * Z) (b : nat * cell) : Prop := fst a = snd b /\ snd a = Z.of_nat (fst b).
  Definition Racc (a : cell * Z) (b : cell * nat) : Prop := fst a = fst b /\ snd a = Z.of_nat (snd b).

  Lemma mean_loop w q x : forall (evs : list (list P)),
    exists r, fold_leftM (fun '(ms, ec) ev =>
                 bind (fold_leftM (fun '(ps, pc) p =>
                         if cmp_cc Qcleb (Some ((- w)%Qc / Q2Qc (2 # 1))%Qc) (obs (fst (q, p)) (snd (q, p)))
                            && cmp_cc Qcleb (obs (fst (q, p)) (snd (q, p))) (Some (w / Q2Qc (2 # 1))%Qc)
                         then Ok (cadd ps (obs x p), (pc + 1)%Z)
                         else Ok (ps, pc)) ev (Some (Q2Qc (0 # 1)), 0%Z))
                      (fun '(ps, pc) => if (0 <? pc)%Z
                                        then Ok (cadd ms (cdiv ps (Some (int_q pc))), (ec + 1)%Z)
                                        else Ok (ms, ec))) evs (Some (Q2Qc (0 # 1)), 0%Z) = Ok r
              /\ Racc r (fold_left (mean_step w) (map (map (fun p => (obs q p, obs x p))) evs) (c0, O)).
  Proof.
    intros evs.
    apply (fold_leftM_sim Racc (map (fun p => (obs q p, obs x p)))); [|split; reflexivity].
    intros [ms ec] [ms' n] ev [E1 E2]. cbn [fst snd] in E1, E2. subst ms ec. cbv zeta.
    unfold mean_step, event_stats.
    destruct (fold_leftM_sim Rstat (fun p => (obs q p, obs x p))
                (fun '(ps, pc) p =>
                   if cmp_cc Qcleb (Some ((- w)%Qc / Q2Qc (2 # 1))%Qc) (obs (fst (q, p)) (snd (q, p)))
                      && cmp_cc Qcleb (obs (fst (q, p)) (snd (q, p))) (Some (w / Q2Qc (2 # 1))%Qc)
                   then Ok (cadd ps (obs x p), (pc + 1)%Z)
                   else Ok (ps, pc))
                (fun cs p => if in_window w (fst p) then (S (fst cs), cadd (snd cs) (snd p)) else cs))
      with (l := ev) (s1 := (Some (Q2Qc (0 # 1)), 0%Z)) (s2 := (O, c0)) as (r & E & HR).
    - intros [ps pc] [n' s'] p [F1 F2]. cbn [fst snd] in *. subst ps pc. rewrite window_eq.
      destruct (in_window w (obs q p)); eexists; (split; [reflexivity|]); split; cbn [fst snd]; try reflexivity. lia.
    - split; reflexivity.
    - rewrite E. cbn [bind]. destruct r as [ps pc]. destruct HR as [F1 F2]. cbn [fst snd] in F1, F2.
      set (cs := fold_left _ _ (O, c0)) in *. rewrite F2.
      replace (0 <? Z.of_nat (fst cs))%Z with (0 <? fst cs).
      + destruct (0 <? fst cs); eexists; (split; [reflexivity|]); split; cbn [fst snd]; try reflexivity.
        * rewrite F1. reflexivity.
        * lia.
      + destruct (fst cs); reflexivity.
  Qed.

  Ltac mean_tac x :=
    intros w q evs;
    unfold gen_mid_rapidity_mean_pT, gen_mid_rapidity_mean_mT, mid_rapidity_mean;
    cbn [number_is has existsb pyty_eqb orb andb negb];
    destruct (Qcleb w 0); [reflexivity|];
    destruct evs as [|ev rest]; [reflexivity|];
    cbv zeta;
    replace (py_len (ev :: rest) =? 0)%Z with false by (unfold py_len; simpl length; symmetry; apply Z.eqb_neq; lia);
    rewrite (for_break_first _ (is_callable q));
    [ rewrite first_particle_check_map;
      destruct (first_particle_check (is_callable q) (ev :: rest)); [|reflexivity]; cbn [bind];
      let ms := fresh "ms" in let ec := fresh "ec" in let E := fresh "E" in let F1 := fresh "F" in let F2 := fresh "F" in
      destruct (mean_loop w q x (ev :: rest)) as ([ms ec] & E & F1 & F2); rewrite E; cbn [bind]; cbn [fst snd] in F1, F2;
      rewrite F1, F2;
      match goal with |- context [snd ?acc =? 0] => destruct (snd acc); reflexivity end
    | reflexivity
    | intros a t; cbn; destruct (is_callable q); reflexivity ].

  Theorem source_mid_mean_pT : forall w q evs,
    g_mean_pT (WNum w) q evs
    = mid_rapidity_mean (is_callable q) w (map (map (fun p => (obs q p, obs "pT_abs" p))) evs).
  Proof. mean_tac "pT_abs"%string. Qed.

  Theorem source_mid_mean_mT : forall w q evs,
    g_mean_mT (WNum w) q evs
    = mid_rapidity_mean (is_callable q) w (map (map (fun p => (obs q p, obs "mT" p))) evs).
  Proof. mean_tac "mT"%string. Qed.

  Theorem source_mid_mean_type q evs : g_mean_pT WOther q evs = Err TypeError /\ g_mean_mT WOther q evs = Err TypeError.
  Proof. split; reflexivity. Qed.

  (* ------------------------------------------------------------ _differential_yield *)
  Lemma fill_event_fold qc : forall ev h,
    fill_event qc h ev = fold_leftM (fun h q => if negb qc then Err AttributeError else fill_elem h q None) ev h.
  Proof.
    induction ev as [|x t IH]; intros h; cbn [fill_event fold_leftM]; [reflexivity|].
    destruct qc; cbn [negb]; [|reflexivity]. destruct (fill_elem h x None); cbn [bind]; [apply IH|reflexivity].
  Qed.

  Definition yield_body (q : string) (N : Z) (h : hist) (i : Z) (ev : list P) : result hist :=
    bind (fill_event (is_callable q) h (map (obs q) ev))
         (fun h => if (1 <? N)%Z && negb (i =? N - 1)%Z then add_histogram h else Ok h).

  Lemma idx_fill q N : forall evs k h, N = Z.of_nat (k + length evs) ->
    idx_fold (yield_body q N) evs k h = fill_events (is_callable q) h (map (map (obs q)) evs).
  Proof.
    induction evs as [|ev rest IH]; intros k h EN; [reflexivity|].
    cbn [idx_fold map fill_events]. unfold yield_body at 1.
    destruct (fill_event (is_callable q) h (map (obs q) ev)) as [h1|c]; [|reflexivity]. cbn [bind].
    destruct rest as [|r rest'].
    - assert (C : ((1 <? N)%Z && negb (Z.of_nat k =? N - 1)%Z) = false).
      { apply andb_false_iff. right. apply negb_false_iff, Z.eqb_eq. subst N. simpl length. lia. }
      rewrite C. reflexivity.
    - assert (C : ((1 <? N)%Z && negb (Z.of_nat k =? N - 1)%Z) = true).
      { apply andb_true_iff. split; [apply Z.ltb_lt | apply negb_true_iff, Z.eqb_neq]; subst N; simpl length; lia. }
      rewrite C. cbn [map]. destruct (add_histogram h1) as [h2|c]; [|reflexivity]. cbn [bind].
      apply IH. subst N. simpl length. f_equal. lia.
  Qed.

  Lemma forallb_inum (f : item -> bool) (es : list Qc) : f INum = true -> forallb f (map (fun _ => INum) es) = true.
  Proof. intros H. induction es; simpl; [reflexivity|]. now rewrite H. Qed.

  Lemma bind_ext {A B} (r : result A) (f g : A -> result B) : (forall a, f a = g a) -> bind r f = bind r g.
  Proof. intros H. destruct r; simpl; auto. Qed.

  Theorem source_differential_yield q b evs :
    g_yield q b evs = differential_yield usqrt ulinspace (is_callable q) b (map (map (obs q)) evs).
  Proof.
    unfold gen__differential_yield, differential_yield.
    (* the argument checks: evaluated for each shape of bin_properties *)
    destruct b as [lo hi [|] n | es]; cbn [str_is bins_is has existsb pyty_eqb negb orb].
    1, 2: match goal with |- bind ?v _ = _ => let v' := eval vm_compute in v in change v with v' end.
    3: cbn [bins_items]; rewrite forallb_inum by reflexivity; cbn [negb].
    2: reflexivity.
    (* Histogram(bin_properties), the loops, average, scale *)
    all: cbn [bind hist_new make_hist negb];
      match goal with |- bind ?i _ = _ => destruct i as [h0|c]; [|reflexivity] end;
      cbn [bind]; cbv zeta;
      rewrite (range_loop (yield_body q (py_len evs)));
      [ rewrite idx_fill by reflexivity;
        destruct (fill_events (is_callable q) h0 (map (map (obs q)) evs)) as [h1|c]; [|reflexivity]; cbn [bind];
        destruct (average usqrt h1) as [h2|c]; [|reflexivity]; cbn [bind];
        rewrite bind_ret; reflexivity
      | intros s i a Ha; rewrite seq_get_nat, Ha; cbn [bind]; unfold yield_body;
        rewrite fill_event_fold;
        rewrite (fold_leftM_map_ext (obs q) _ (fun h x => if negb (is_callable q) then Err AttributeError else fill_elem h x None))
          by (intros; cbn [fst snd]; rewrite bind_ret; destruct (is_callable q); reflexivity);
        apply bind_ext; intros h1; destruct (_ && _); [apply bind_ret|reflexivity] ].
  Qed.

  (* the four public methods: which quantity, which default binning *)
  Definition bins_or (ob : option binspec) (d : binspec) : binspec := match ob with Some b => b | None => d end.
  Definition tuple_bins (lo hi n : Z) : binspec := BTuple (Q2Qc (lo # 1)) (Q2Qc (hi # 1)) true n.

  Theorem source_dNdy ob evs :
    gen_dNdy usqrt ulinspace P obs is_callable ob evs
    = differential_yield usqrt ulinspace (is_callable "rapidity") (bins_or ob (tuple_bins (-2) 2 11)) (map (map (obs "rapidity")) evs).
  Proof. destruct ob; apply source_differential_yield. Qed.
  Theorem source_dNdpT ob evs :
    gen_dNdpT usqrt ulinspace P obs is_callable ob evs
    = differential_yield usqrt ulinspace (is_callable "pT_abs") (bins_or ob (tuple_bins 0 4 11)) (map (map (obs "pT_abs")) evs).
  Proof. destruct ob; apply source_differential_yield. Qed.
  Theorem source_dNdEta ob evs :
    gen_dNdEta usqrt ulinspace P obs is_callable ob evs
    = differential_yield usqrt ulinspace (is_callable "pseudorapidity") (bins_or ob (tuple_bins (-2) 2 11)) (map (map (obs "pseudorapidity")) evs).
  Proof. destruct ob; apply source_differential_yield. Qed.
  Theorem source_dNdmT ob evs :
    gen_dNdmT usqrt ulinspace P obs is_callable ob evs
    = differential_yield usqrt ulinspace (is_callable "mT") (bins_or ob (tuple_bins 0 4 11)) (map (map (obs "mT")) evs).
  Proof. destruct ob; apply source_differential_yield. Qed.
End Methods.

(* ---------------------------------------------------------------- defaults, the read-only wrapper *)
Theorem source_mid_defaults :
  gen_mid_rapidity_yield_default_y_width = 1%Qc /\ gen_mid_rapidity_yield_default_quantity = "rapidity"%string
  /\ gen_mid_rapidity_mean_pT_default_y_width = 1%Qc /\ gen_mid_rapidity_mean_pT_default_quantity = "rapidity"%string
  /\ gen_mid_rapidity_mean_mT_default_y_width = 1%Qc /\ gen_mid_rapidity_mean_mT_default_quantity = "rapidity"%string.
Proof. repeat split; reflexivity. Qed.

(* reading (indexing, len, iteration, repr) passes through to the list that was given; every method a list has for
   changing its items only raises TypeError (what ReadOnlyList does not define does not exist on the wrapper) *)
Theorem source_wrapper :
  (forall m, In m gen_wrapper_reads -> In m ["__getitem__"; "__len__"; "__iter__"; "__repr__"]%string)
  /\ (forall m, In m ["__setitem__"; "append"; "extend"; "insert"; "remove"; "pop"; "clear"]%string -> In m gen_wrapper_blocked).
Proof. split; intros m H; simpl in *; tauto. Qed.

(* ---------------------------------------------------------------- non-vacuity: the regenerated methods run *)
(* a particle = (rapidity, pT); "t" is an attribute that is not callable; the sample of Proofs/C14_Example.v *)
Definition ex_obs (name : string) (p : cell * cell) : cell := if String.eqb name "rapidity" then fst p else snd p.
Definition ex_callable (name : string) : bool := negb (String.eqb name "t").
Definition exq (n : Z) (d : positive) : cell := Some (Q2Qc (n # d)).
Definition ex_particles : list (list (cell * cell)) :=
  [[]; [(exq 0 1, exq 1 1); (exq 1 2, exq 2 1); (exq 3 1, exq 7 1); (None, exq 9 1)]; [(exq (-1) 2, exq 5 1)]].
Definition ex_spectrum : list (list (cell * cell)) :=
  map (map (fun y => (y, exq 1 1))) [[]; [exq 0 1; exq 1 2; exq 1 1; exq 3 1; exq (-1) 1]; [exq 5 2; exq 1 1]].

Definition source_example_stmt : Prop :=
  match gen_dNdy qsqrt linspace_exact _ ex_obs ex_callable (Some (BList [Q2Qc 0; Q2Qc 1; Q2Qc (3 # 1)])) ex_spectrum with
  | Ok h => shapeb h = true /\ match hH h with A2 [r] => map (option_map this) r = [Some (2 # 3); Some (1 # 2)]%Q | _ => False end
  | Err _ => False
  end
  /\ match gen_mid_rapidity_yield _ ex_obs ex_callable (WNum 1) "rapidity" ex_particles with Ok v => this v = (1 # 1)%Q | Err _ => False end
  /\ match gen_mid_rapidity_mean_pT _ ex_obs ex_callable (WNum 1) "rapidity" ex_particles with Ok (Some v) => this v = (13 # 4)%Q | _ => False end
  /\ gen_mid_rapidity_mean_mT _ ex_obs ex_callable (WNum 1) "t" ex_particles = Err AttributeError
  /\ gen_mid_rapidity_yield _ ex_obs ex_callable (WNum 0) "rapidity" ex_particles = Err ValueError
  /\ gen_mid_rapidity_yield _ ex_obs ex_callable WOther "rapidity" ex_particles = Err TypeError
  /\ match gen_dNdpT qsqrt linspace_exact _ ex_obs ex_callable None ex_spectrum with
     | Ok h => nbins h = 11 /\ edges h = linspace_exact 0 (Q2Qc (4 # 1)) 11 | Err _ => False end.

Lemma source_example : source_example_stmt.
Proof. vm_compute. repeat split; reflexivity. Qed.

(* C02 (JETSCAPE): loading with events=(a,b) equals loading everything and slicing. *)
From Coq Require Import List String ZArith QArith Bool Arith Lia.
From SX Require Import Lib.Strs Gen.GenParticleMap Model.Oscar Model.OscarDoc Model.Jetscape Model.JetscapeDoc
  Proofs.C01_Oscar Proofs.C01_Jetscape.
Import ListNotations.
Local Open Scope string_scope.

Section P.
  Variable tok_float : string -> option Q.
  Variable tok_int : string -> option Q.
  Variable pdg_valid : Q -> bool.
  Variable pdg_charge : Q -> Q.
  Variable usqrt : Q -> Q.
  Variable defstr : string.

  Notation jwf_row := (jwf_row tok_float tok_int pdg_valid pdg_charge usqrt defstr).
  Notation jwf_events := (jwf_events tok_float tok_int pdg_valid pdg_charge usqrt defstr).
  Notation PARSE := (jparse_rows tok_float tok_int pdg_valid pdg_charge usqrt).
  Notation JREAD := (jread tok_float tok_int pdg_valid pdg_charge usqrt None).
  Notation JLOAD := (jload tok_float tok_int pdg_valid pdg_charge usqrt None).
  Notation JFOLD := (jfold tok_float tok_int pdg_valid pdg_charge usqrt).

  Lemma jwf_events_skipn : forall k evs i, jwf_events i evs -> jwf_events (i + k) (skipn k evs).
  Proof.
    induction k as [|k IH]; intros evs i H; [rewrite Nat.add_0_r; exact H|].
    destruct evs as [|e t]; [exact I|]. destruct H as (_ & Ht).
    cbn [skipn]. replace (i + S k)%nat with (S i + k)%nat by lia. apply IH, Ht.
  Qed.
  Lemma jwf_events_firstn : forall k evs i, jwf_events i evs -> jwf_events i (firstn k evs).
  Proof.
    induction k as [|k IH]; intros evs i H; [exact I|].
    destruct evs as [|e t]; [exact I|]. destruct H as (He & Ht). split; [exact He|apply IH, Ht].
  Qed.

  Lemma jrender_events_app l1 l2 : jrender_events (l1 ++ l2) = (jrender_events l1 ++ jrender_events l2)%list.
  Proof. unfold jrender_events. apply flat_map_app. Qed.

  Lemma jrows_sel sel : forall rows n rest st,
    Forall jwf_row rows ->
    JREAD sel false (List.length rows + n) (rows ++ rest)%list st
    = JREAD sel false n rest (jadd_data st (PARSE rows)).
  Proof.
    induction rows as [|r rows IH]; intros n rest st H.
    - cbn [List.length Nat.add app jparse_rows]. unfold jadd_data. rewrite app_nil_r. destruct st; reflexivity.
    - inversion H as [|? ? Hr Hrs]; subst. destruct Hr as (_ & Ht & He & p & Hp).
      cbn [List.length Nat.add app jread jparse_rows].
      unfold is_trailer in Ht. unfold is_evhead in He. rewrite Ht, He, Hp. cbn [andb bind].
      rewrite IH by exact Hrs. f_equal. unfold jadd_data; cbn. rewrite <- app_assoc. reflexivity.
  Qed.

  (* events with labels different from the first selected one: each header closes the event before it *)
  Lemma jevents_sel sel (a : nat) : first_header sel = (Z.of_nat a + 1)%Z ->
    forall evs i n rest pl cur cnts c, (a < i)%nat ->
    jwf_events i evs ->
    JREAD sel false (List.length (jrender_events evs) + n) (jrender_events evs ++ rest)%list
       {| plist := pl; data := cur; counts := cnts; cut := c |}
    = JREAD sel false n rest {| plist := fst (JFOLD pl cur evs); data := snd (JFOLD pl cur evs); counts := cnts; cut := c |}.
  Proof.
    intros Hfh. induction evs as [|e evs IH]; intros i n rest pl cur cnts c Hai H; [reflexivity|].
    destruct H as ((_ & Htr & Hev & (lt & ct & H2 & _ & Hl & _) & Hrows) & Ht).
    unfold jrender_events. cbn [flat_map]. fold (jrender_events evs).
    unfold jrender_event. rewrite <- app_assoc. cbn [app List.length]. rewrite app_length.
    match goal with |- jread _ _ _ _ _ _ _ _ ?k _ _ = _ =>
      replace k with (S (List.length (je_rows e) + (List.length (jrender_events evs) + n)))%nat by lia end.
    cbn [jread]. unfold is_trailer in Htr. unfold is_evhead in Hev. rewrite Htr, Hev, H2, Hl.
    cbn [andb]. rewrite to_Z_zq, Hfh.
    replace (Z.of_nat i + 1 =? Z.of_nat a + 1)%Z with false by (symmetry; apply Z.eqb_neq; lia).
    rewrite jclose_none. cbn [bind plist counts cut].
    rewrite jrows_sel by exact Hrows.
    unfold jadd_data. cbn [plist data counts cut app].
    rewrite (IH (S i)) by (try exact Ht; lia). reflexivity.
  Qed.

  Lemma jcounts_from_nth : forall evs i k e,
    nth_error evs k = Some e ->
    nth_error (jcounts_from i evs) k = Some (Z.of_nat (i + k) + 1, Z.of_nat (List.length (je_rows e)))%Z.
  Proof.
    induction evs as [|x t IH]; intros i k e H; [destruct k; discriminate|].
    destruct k as [|k]; cbn in H |- *.
    - inversion H; subst. rewrite Nat.add_0_r. reflexivity.
    - rewrite (IH (S i) k e H). replace (S i + k)%nat with (i + S k)%nat by lia. reflexivity.
  Qed.

  Lemma jsum_ok : forall n evs i from,
    (from + n <= List.length evs)%nat ->
    jsum (jcounts_from i evs) from n = Ok (Z.of_nat (List.length (jrender_events (firstn n (skipn from evs))))).
  Proof.
    induction n as [|n IH]; intros evs i from H; [reflexivity|].
    cbn [jsum]. unfold zcount.
    destruct (nth_error evs from) as [e|] eqn:E; [|apply nth_error_None in E; lia].
    rewrite (jcounts_from_nth evs i from e E). cbn [bind snd].
    rewrite (IH evs i (S from)) by lia. cbn [bind].
    assert (Hs : skipn from evs = e :: skipn (S from) evs).
    { clear - E. revert from E. induction evs as [|x t IHt]; intros [|k] E; try discriminate.
      - inversion E; reflexivity.
      - cbn in E |- *. rewrite (IHt k E). reflexivity. }
    rewrite Hs. cbn [firstn]. unfold jrender_events at 2. cbn [flat_map]. fold (jrender_events (firstn n (skipn (S from) evs))).
    rewrite app_length. unfold jrender_event. cbn [List.length]. f_equal. lia.
  Qed.

  Definition jsliced (d : jdoc) (s1 s2 : Q) (a n : nat) : jloaded :=
    {| j_events := map (fun e => PARSE (je_rows e)) (firstn n (skipn a (jd_events d)));
       j_nevents := Z.of_nat n;
       j_counts := firstn n (skipn a (jcounts_from 0 (jd_events d)));
       j_counts_2d := true;
       j_sigma := (s1, s2) |}.

  Theorem jload_range d s1 s2 (a b : nat) :
    jwf tok_float tok_int pdg_valid pdg_charge usqrt defstr d s1 s2 ->
    (a <= b)%nat -> (b < List.length (jd_events d))%nat ->
    JLOAD (jrender d) defstr (SelRange (Z.of_nat a) (Z.of_nat b)) = Ok (jsliced d s1 s2 a (b - a + 1)).
  Proof.
    intros (Hh0 & Hne & Hev & Htr & Htc & Hsig) Hab Hb.
    set (evs := jd_events d) in *.
    set (A := firstn a evs). set (B := firstn (b - a + 1) (skipn a evs)). set (C := skipn (b - a + 1) (skipn a evs)).
    assert (Hsplit : evs = (A ++ B ++ C)%list) by (unfold A, B, C; rewrite firstn_skipn, firstn_skipn; reflexivity).
    assert (HlenB : List.length B = (b - a + 1)%nat) by (unfold B; rewrite firstn_length, skipn_length; lia).
    assert (HwB : jwf_events a B) by (unfold B; apply jwf_events_firstn, (jwf_events_skipn a evs 0 Hev)).
    assert (HwC : jwf_events (a + (b - a + 1)) C).
    { unfold C. apply (jwf_events_skipn (b - a + 1) (skipn a evs) a), (jwf_events_skipn a evs 0 Hev). }
    unfold jload, jrender. fold evs.
    assert (Hl : last (jd_h0 d :: jrender_events evs ++ [jd_trailer d])%list [] = jd_trailer d).
    { change (jd_h0 d :: jrender_events evs ++ [jd_trailer d])%list
        with ((jd_h0 d :: jrender_events evs) ++ [jd_trailer d])%list. apply last_last. }
    rewrite Hl. unfold is_trailer in Htr. apply andb_true_iff in Htr. destruct Htr as [Htr1 Htr2].
    rewrite Htr2. cbn [negb].
    cbn [jscan]. unfold is_count_line in Hh0. rewrite Hh0.
    rewrite (jscan_events tok_float tok_int pdg_valid pdg_charge usqrt defstr evs 0 [jd_trailer d] Hev).
    cbn [jscan]. unfold is_count_line in Htc. rewrite Htc. cbn [jscan bind]. rewrite app_nil_r.
    cbn [jnum_skip jnum_read bind sel_first sel_counts]. rewrite !Nat2Z.id.
    rewrite (jsum_ok a evs 0 0) by lia. cbn [skipn bind]. fold A.
    replace (Z.to_nat (Z.of_nat b - Z.of_nat a + 1)) with (b - a + 1)%nat by lia.
    rewrite (jsum_ok (b - a + 1) evs 0 a) by lia. fold B. cbn [bind].
    assert (Hbody : skipn (Z.to_nat (1 + Z.of_nat (List.length (jrender_events A))))
                          (jd_h0 d :: jrender_events evs ++ [jd_trailer d])%list
                    = (jrender_events B ++ (jrender_events C ++ [jd_trailer d]))%list).
    { replace (Z.to_nat (1 + Z.of_nat (List.length (jrender_events A)))) with (S (List.length (jrender_events A))) by lia.
      cbn [skipn]. rewrite Hsplit at 1. rewrite !jrender_events_app, <- !app_assoc.
      rewrite skipn_app, skipn_all, Nat.sub_diag. reflexivity. }
    rewrite Hbody.
    replace (Z.to_nat (Z.of_nat (List.length (jrender_events B)) + 1))
      with (List.length (jrender_events B) + 1)%nat by lia.
    (* first selected event: its header carries the label a+1 and is skipped *)
    destruct B as [|e0 B'] eqn:EB; [cbn in HlenB; lia|].
    destruct HwB as ((Hc0 & Ht0 & He0 & (lt & ct & H2 & _ & Hlt & _) & Hrows0) & HwB').
    unfold jrender_events at 1 2. cbn [flat_map]. fold (jrender_events B').
    unfold jrender_event at 1 2. rewrite <- !app_assoc. cbn [app List.length]. rewrite app_length.
    match goal with |- context [jread _ _ _ _ _ _ _ _ ?k _ _] =>
      replace k with (S (List.length (je_rows e0) + (List.length (jrender_events B') + 1)))%nat by lia end.
    cbn [jread]. unfold is_trailer in Ht0. unfold is_evhead in He0. unfold is_count_line in Hc0.
    rewrite Ht0. apply andb_true_iff in Hc0. destruct Hc0 as [Hh _]. rewrite Hh. cbn [negb andb].
    rewrite He0, H2, Hlt. cbn [first_header]. rewrite to_Z_zq.
    replace (Z.of_nat a + 1 =? 1 + Z.of_nat a)%Z with true by (symmetry; apply Z.eqb_eq; lia).
    rewrite jrows_sel by exact Hrows0. unfold jadd_data. cbn [plist data counts cut app].
    rewrite (jevents_sel (SelRange (Z.of_nat a) (Z.of_nat b)) a ltac:(unfold first_header; lia) B' (S a) 1
               (jrender_events C ++ [jd_trailer d])%list) by (try exact HwB'; lia).
    (* the line after the selection: the next event's header, or the trailer - either closes the last event *)
    assert (Hnext : forall pl cur cnts,
      JREAD (SelRange (Z.of_nat a) (Z.of_nat b)) false 1 (jrender_events C ++ [jd_trailer d])%list
            {| plist := pl; data := cur; counts := cnts; cut := 0 |}
      = Ok {| plist := (pl ++ [cur])%list; data := match C with [] => cur | _ => [] end; counts := cnts; cut := 0 |}).
    { intros pl cur cnts. destruct C as [|c0 C'] eqn:EC.
      - cbn [jrender_events flat_map app jread]. rewrite Htr1, Htr2. cbn [andb]. rewrite jclose_none. reflexivity.
      - destruct HwC as ((_ & Htrc & Hevc & (ltc & ctc & H2c & _ & Hlc & _) & _) & _).
        unfold jrender_events. cbn [flat_map]. unfold jrender_event at 1. cbn [app jread].
        unfold is_trailer in Htrc. unfold is_evhead in Hevc. rewrite Htrc, Hevc, H2c, Hlc. cbn [andb first_header].
        rewrite to_Z_zq.
        replace (Z.of_nat (a + (b - a + 1)) + 1 =? 1 + Z.of_nat a)%Z with false by (symmetry; apply Z.eqb_neq; lia).
        rewrite jclose_none. reflexivity. }
    rewrite Hnext. cbn [bind plist counts cut fst snd].
    pose proof (jfold_all tok_float tok_int pdg_valid pdg_charge usqrt B' [] (PARSE (je_rows e0))) as Hf.
    cbn [app] in Hf. rewrite Hf. rewrite Hsig.
    unfold jsliced, slice. fold evs. cbn [fst snd].
    fold B. rewrite EB. cbn [map List.length]. rewrite map_length.
    replace (S (List.length B')) with (b - a + 1)%nat by (cbn [List.length] in HlenB; lia). reflexivity.
  Qed.
End P.
